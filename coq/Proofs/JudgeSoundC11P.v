(* JudgeSoundC11P.v — the executable properties of Check/C11_check.v (cc_ok, ce_ok, cch_ok, ceh_ok) are the C11
   statements: (a) the model's own answer passes them under the hypotheses of the Props theorems the harness
   guarantees, (b) an implementation answer that passes them satisfies the conclusion of C11_commit / C11_exec_valid /
   C11_exec_no_panic / C11_exec: an observation is produced and every oracle accepts it. *)
Require Import Verif.Model.Base Verif.Model.Roles Verif.Model.Pollers Verif.Model.RolesHist.
Require Import Verif.Proofs.BaseP Verif.Proofs.RolesP Verif.Proofs.PollersP Verif.Proofs.RolesHistP.
Require Import Verif.Check.C11_check Verif.Proofs.JudgeSoundRolesHistP.

Lemma all_true_map {A} (l : list A) : forallb (fun v : bool => v) (map (fun _ => true) l) = true.
Proof. induction l as [|x l IH]; [reflexivity|exact IH]. Qed.

Lemma all_accept (vs : list bool) (os : list N) :
  Nat.eqb (length vs) (length os) && forallb (fun v => v) vs = true ->
  length vs = length os /\ forall v, In v vs -> v = true.
Proof.
  intros H. apply andb_true_iff in H. destruct H as [Hl Ha]. split; [now apply Nat.eqb_eq|].
  intros v Hv. exact (forallb_In _ _ _ Ha Hv).
Qed.

(* ====================================================================================================
   sink C11_commit (cc_judge).  Premises of (a) = hypotheses of C11_commit: [cfg_ok] (the world generator only draws
   such role assignments) and "a retry query only in the BuildingReport phase" (the harness draws retry only with
   phase 1); outside [values_ok] the property is vacuous by construction.
   ==================================================================================================== *)
Theorem cc_model_passes : forall g fl st phase retry i,
  cfg_ok g i = true -> (retry = true -> phase = 1%N) ->
  cc_ok (g, fl, st, phase, retry, i) (cc_model (g, fl, st, phase, retry, i)) = true.
Proof.
  intros g fl st phase retry i Hc Hr. unfold cc_ok, cc_model. cbv beta iota zeta.
  destruct (values_ok st) eqn:Hv; cbn [negb orb]; [|reflexivity].
  destruct (commit_honest_valid g i st Hc Hv phase retry Hr) as [ob [Hob Hval]].
  rewrite Hob. cbn [fst snd]. rewrite map_length, Nat.eqb_refl, Hval. cbn [andb]. apply all_true_map.
Qed.

(* the conclusion of C11_commit for the implementation's answer o = (result of Observation, verdict of every oracle) *)
Theorem cc_sound : forall g fl st phase retry i o,
  cc_ok (g, fl, st, phase, retry, i) o = true -> values_ok st = true ->
  exists ob, fst o = Ok ob /\ length (snd o) = length (c_oracles g) /\ forall v, In v (snd o) -> v = true.
Proof.
  intros g fl st phase retry i o H Hv. unfold cc_ok in H. rewrite Hv in H. cbn [negb orb] in H.
  destruct (fst o) as [ob| | |]; try discriminate. exists ob. split; [reflexivity|]. now apply all_accept.
Qed.

Example cc_ok_example :
  cc_ok (g_c11, [], st_c11, 0%N, false, 3%N) (cc_model (g_c11, [], st_c11, 0%N, false, 3%N)) = true /\
  snd (cc_model (g_c11, [], st_c11, 0%N, false, 3%N)) = [true; true; true; true] /\
  cc_ok (g_c11, [], st_c11, 0%N, false, 3%N)
        (fst (cc_model (g_c11, [], st_c11, 0%N, false, 3%N)), [true; true; false; true]) = false /\
  cc_ok (g_c11, [], st_c11, 0%N, false, 3%N) (Panic, []) = false.
Proof. vm_compute. repeat split. Qed.

(* ====================================================================================================
   sink C11_exec (ce_judge)
   ==================================================================================================== *)
(* some failing call is one oracle i makes itself: on a reader of a chain of its role *)
Definition own_failing (g : cfg) (i : N) (st : rstate) : Prop :=
  exists k c, rs_fail st k c = true /\ (if on_dest_reader k then reads g i (c_dest g) else reads g i c) = true.

(* stronger than exec_produced / exec_no_panic: the model's execute observation is produced, or it fails because one of
   the oracle's OWN calls fails or the destination publishes no prices — never a panic, never for somebody else's call *)
Lemma observe_exec_cases g i st phase : (phase <= 2)%N ->
  (exists ob, observe_exec g i st phase = Ok ob) \/
  (observe_exec g i st phase = Err /\ (own_failing g i st \/ dest_priced g st = false)).
Proof.
  intros Hp. unfold observe_exec, observe_exec_with.
  destruct (rs_init st); cbn [negb]; [|left; eexists; reflexivity].
  destruct (N.eqb_spec phase 0) as [->|H0].
  { unfold observe_commit_reports_with. cbn [andb].
    destruct (reads g i (c_dest g)) eqn:Hrd; cbn [negb]; [|left; eexists; reflexivity].
    destruct (rs_fail st K_CURSE (c_dest g)); [left; eexists; reflexivity|].
    destruct (rs_cursed_all st); [left; eexists; reflexivity|].
    destruct (rs_fail st K_REPORTS (c_dest g)) eqn:Hf.
    { right. split; [reflexivity|]. left. exists K_REPORTS, (c_dest g). split; [exact Hf|exact Hrd]. }
    destruct (existsb (fun p => rs_fail st K_EXECUTED (fst p)) (rs_reports st)) eqn:He.
    { right. split; [reflexivity|]. left. apply existsb_exists in He. destruct He as [p [_ Hf']].
      exists K_EXECUTED, (fst p). split; [exact Hf'|exact Hrd]. }
    left; eexists; reflexivity. }
  destruct (N.eqb_spec phase 1) as [->|H1].
  { unfold observe_messages_with.
    destruct (is_nil (rs_pending st)); [left; eexists; reflexivity|].
    unfold read_all_messages. cbv zeta.
    match goal with |- context [existsb ?f ?l] => destruct (existsb f l) eqn:He end; cbn [rbind].
    { right. split; [reflexivity|]. left. apply existsb_exists in He. destruct He as [p [Hin Hf]].
      apply filter_In in Hin. exists K_MSGS, (fst p). split; [exact Hf|]. exact (proj2 Hin). }
    unfold observe_costly, observe_costly_unfixed. cbv zeta.
    destruct (reads g i (c_dest g)) eqn:Hrd; cbn [negb rbind]; [|left; eexists; reflexivity].
    destruct (rs_fail st K_LINK (c_dest g)) eqn:Hl; cbn [rbind].
    { right. split; [reflexivity|]. left. exists K_LINK, (c_dest g). split; [exact Hl|exact Hrd]. }
    destruct (is_nil _); cbn [rbind]; [left; eexists; reflexivity|].
    destruct (dest_priced g st) eqn:Hpr; cbn [negb rbind]; [|right; split; [reflexivity|right; reflexivity]].
    destruct (rs_fail st K_FEECOMP (c_dest g)) eqn:Hfc; cbn [orb rbind].
    { right. split; [reflexivity|]. left. exists K_FEECOMP, (c_dest g). split; [exact Hfc|exact Hrd]. }
    destruct (rs_fail st K_NATIVE (c_dest g)) eqn:Hn; cbn [rbind].
    { right. split; [reflexivity|]. left. exists K_NATIVE, (c_dest g). split; [exact Hn|exact Hrd]. }
    left; eexists; reflexivity. }
  destruct (N.eqb_spec phase 2) as [->|H2]; [|lia].
  unfold observe_filter.
  destruct (reads g i (c_dest g)) eqn:Hrd; cbn [negb]; [|left; eexists; reflexivity].
  match goal with |- context [existsb ?f ?l] => destruct (existsb f l) eqn:He end.
  { right. split; [reflexivity|]. left. apply existsb_exists in He. destruct He as [p [_ Hf]].
    apply andb_true_iff in Hf. exists K_NONCES, (fst p). split; [exact (proj1 Hf)|exact Hrd]. }
  left; eexists; reflexivity.
Qed.

Lemma own_failing_fl g i st fl :
  (forall k c, rs_fail st k c = fail_of fl k c) -> own_failing g i st -> own_failure g i fl = true.
Proof.
  intros Hfl (k & c & Hf & Hr). rewrite Hfl in Hf. unfold fail_of in Hf. apply existsb_exists in Hf.
  destruct Hf as [p [Hin Hp]]. apply andb_true_iff in Hp. destruct Hp as [Hk Hc].
  apply N.eqb_eq in Hk. apply N.eqb_eq in Hc. unfold own_failure. apply existsb_exists. exists p.
  split; [exact Hin|]. now rewrite Hk, Hc.
Qed.

(* premises: [cfg_ok] (world generator), one of the three execute phases (the harness draws 0..2), and the reader state
   fails exactly the calls of the case's failure list (the harness emits rs_fail := fail_of fl literally) *)
Theorem ce_model_passes : forall g fl st phase i,
  cfg_ok g i = true -> (phase <= 2)%N -> (forall k c, rs_fail st k c = fail_of fl k c) ->
  ce_ok (g, fl, st, phase, i) (ce_model (g, fl, st, phase, i)) = true.
Proof.
  intros g fl st phase i Hc Hp Hfl. unfold ce_ok, ce_model. cbv beta iota zeta.
  destruct (values_ok st) eqn:Hv; cbn [negb orb]; [|reflexivity].
  destruct (observe_exec_cases g i st phase Hp) as [[ob Hob]|[Herr Hcause]].
  - rewrite Hob. cbn [fst snd]. destruct (pending_known g st) eqn:Hpk; cbn [negb orb]; [|reflexivity].
    rewrite map_length, Nat.eqb_refl, (exec_honest_valid g i st Hc Hv phase ob Hpk Hob). cbn [andb].
    apply all_true_map.
  - rewrite Herr. cbn [fst]. destruct Hcause as [Hown|Hpr].
    + now rewrite (own_failing_fl g i st fl Hfl Hown).
    + rewrite Hpr. apply orb_true_r.
Qed.

(* the conclusions of C11_exec_no_panic, C11_exec_valid and (third clause: an error has a cause of the oracle's own)
   C11_exec, for the implementation's answer *)
Theorem ce_sound : forall g fl st phase i o,
  ce_ok (g, fl, st, phase, i) o = true -> values_ok st = true ->
  fst o <> Panic /\ fst o <> Spin /\
  (forall ob, fst o = Ok ob -> pending_known g st = true ->
              length (snd o) = length (c_oracles g) /\ forall v, In v (snd o) -> v = true) /\
  (fst o = Err -> own_failure g i fl = true \/ dest_priced g st = false).
Proof.
  intros g fl st phase i o H Hv. unfold ce_ok in H. rewrite Hv in H. cbn [negb orb] in H.
  destruct (fst o) as [ob| | |]; try discriminate.
  - split; [discriminate|]. split; [discriminate|]. split; [|discriminate].
    intros ob' _ Hpk. rewrite Hpk in H. cbn [negb orb] in H. now apply all_accept.
  - split; [discriminate|]. split; [discriminate|]. split; [discriminate|].
    intros _. apply orb_true_iff in H. destruct H as [H|H]; [now left|right].
    now destruct (dest_priced g st).
Qed.

(* the shape of C11_exec: no scripted failure, destination priced, stable home configuration: produced and accepted *)
Corollary ce_sound_produced : forall g st phase i o,
  ce_ok (g, [], st, phase, i) o = true -> values_ok st = true -> pending_known g st = true ->
  dest_priced g st = true ->
  exists ob, fst o = Ok ob /\ length (snd o) = length (c_oracles g) /\ forall v, In v (snd o) -> v = true.
Proof.
  intros g st phase i o H Hv Hpk Hpr. destruct (ce_sound g [] st phase i o H Hv) as (Hnp & Hns & Hok & Herr).
  destruct (fst o) as [ob| | |] eqn:E.
  - exists ob. split; [reflexivity|]. exact (Hok ob eq_refl Hpk).
  - destruct (Herr eq_refl) as [Ho|Hd]; [discriminate Ho|congruence].
  - now contradiction Hnp.
  - now contradiction Hns.
Qed.

Example ce_ok_example :
  ce_ok (g_c11, [], st_c11, 1%N, 1%N) (ce_model (g_c11, [], st_c11, 1%N, 1%N)) = true /\
  snd (ce_model (g_c11, [], st_c11, 1%N, 1%N)) = [true; true; true; true] /\
  ce_ok (g_c11, [], st_c11, 1%N, 1%N) (Err, []) = false /\
  ce_ok (g_c11, [(8%N, 5%N)], st_c11, 1%N, 1%N) (Err, []) = true /\
  ce_ok (g_c11, [(8%N, 6%N)], st_c11, 1%N, 1%N) (Err, []) = false /\
  ce_ok (g_c11, [], st_c11, 1%N, 1%N) (Panic, []) = false.
Proof. vm_compute. repeat split. Qed.

(* ====================================================================================================
   sinks C11_commit_hist / C11_exec_hist (cch_judge, ceh_judge): on the configuration of the most recent successful
   poll; outside [cfg_ok] of that configuration the property is vacuous by construction, so (a) needs no [cfg_ok].
   ==================================================================================================== *)
Theorem cch_model_passes : forall h fl st phase retry i,
  Forall short_poll (hctx_polls h) -> (retry = true -> phase = 1%N) ->
  cch_ok (h, (fl, st, phase, retry, i)) (cch_model (h, (fl, st, phase, retry, i))) = true.
Proof.
  intros h fl st phase retry i Hs Hr. unfold cch_ok, cch_model. cbn [fst snd cch_at].
  rewrite (hctx_model_spec _ Hs). destruct (cfg_ok (hctx_spec h) i) eqn:Hc; cbn [negb orb]; [|reflexivity].
  now apply cc_model_passes.
Qed.

Theorem cch_sound : forall h fl st phase retry i o,
  cch_ok (h, (fl, st, phase, retry, i)) o = true ->
  cfg_ok (hctx_spec h) i = true -> values_ok st = true ->
  exists ob, fst o = Ok ob /\ length (snd o) = length (c_oracles (hctx_spec h)) /\ forall v, In v (snd o) -> v = true.
Proof.
  intros h fl st phase retry i o H Hc Hv. unfold cch_ok in H. cbn [fst snd cch_at] in H. rewrite Hc in H.
  cbn [negb orb] in H. exact (cc_sound _ _ _ _ _ _ _ H Hv).
Qed.

Theorem ceh_model_passes : forall h fl st phase i,
  Forall short_poll (hctx_polls h) -> (phase <= 2)%N -> (forall k c, rs_fail st k c = fail_of fl k c) ->
  ceh_ok (h, (fl, st, phase, i)) (ceh_model (h, (fl, st, phase, i))) = true.
Proof.
  intros h fl st phase i Hs Hp Hfl. unfold ceh_ok, ceh_model. cbn [fst snd ceh_at].
  rewrite (hctx_model_spec _ Hs). destruct (cfg_ok (hctx_spec h) i) eqn:Hc; cbn [negb orb]; [|reflexivity].
  now apply ce_model_passes.
Qed.

Theorem ceh_sound : forall h fl st phase i o,
  ceh_ok (h, (fl, st, phase, i)) o = true ->
  cfg_ok (hctx_spec h) i = true -> values_ok st = true ->
  fst o <> Panic /\ fst o <> Spin /\
  (forall ob, fst o = Ok ob -> pending_known (hctx_spec h) st = true ->
              length (snd o) = length (c_oracles (hctx_spec h)) /\ forall v, In v (snd o) -> v = true) /\
  (fst o = Err -> own_failure (hctx_spec h) i fl = true \/ dest_priced (hctx_spec h) st = false).
Proof.
  intros h fl st phase i o H Hc Hv. unfold ceh_ok in H. cbn [fst snd ceh_at] in H. rewrite Hc in H.
  cbn [negb orb] in H. exact (ce_sound _ _ _ _ _ _ H Hv).
Qed.

(* the observation the history judges model is the answer of the observation round that follows the scripted poller
   events in the system [hrun] of C11_history_round / C11_history_commit / C11_history_exec; the verdicts are those of
   the validation rounds behind it *)
Theorem cch_model_is_history : forall os d f polls fl st phase retry i,
  nth_error (hrun os d f (hist_hevs polls ++ [HObsC i st phase retry])) (length (hist_hevs polls)) =
  Some (Some (OCommit (fst (cch_model ((os, d, f, polls), (fl, st, phase, retry, i)))))).
Proof.
  intros os d f polls fl st phase retry i.
  rewrite (hist_round os d f _ _ _ (nth_after_polls polls _ [])), cfg_at_after_polls. reflexivity.
Qed.

Theorem cch_model_verdicts_history : forall os d f polls fl st phase retry i ob vs,
  cch_model ((os, d, f, polls), (fl, st, phase, retry, i)) = (Ok ob, vs) ->
  forall v, In v vs ->
  nth_error (hrun os d f (hist_hevs polls ++ [HObsC i st phase retry; HValC retry i ob])) (S (length (hist_hevs polls))) =
  Some (Some (OVerdict v)).
Proof.
  intros os d f polls fl st phase retry i ob vs Hm v Hv.
  assert (Hn : nth_error (hist_hevs polls ++ [HObsC i st phase retry; HValC retry i ob]) (S (length (hist_hevs polls))) =
               Some (HValC retry i ob)).
  { rewrite nth_error_app2 by lia. replace (S (length (hist_hevs polls)) - length (hist_hevs polls))%nat with 1%nat by lia.
    reflexivity. }
  rewrite (hist_round os d f _ _ _ Hn). cbn [round_out]. do 3 f_equal.
  assert (Hcfg : cfg_at os d f (hist_hevs polls ++ [HObsC i st phase retry; HValC retry i ob]) (S (length (hist_hevs polls))) =
                 hist_cfg os d f polls).
  { unfold cfg_at. rewrite firstn_app. replace (S (length (hist_hevs polls)) - length (hist_hevs polls))%nat with 1%nat by lia.
    rewrite firstn_all2 by lia. cbn [firstn]. unfold polls_of. rewrite flat_map_app. cbn [flat_map app].
    rewrite app_nil_r. fold (polls_of (hist_hevs polls)). unfold hist_hevs. rewrite polls_of_map_poller.
    unfold hist_cfg, hist_views, home_run. now rewrite views_latest. }
  rewrite Hcfg. unfold cch_model, cc_model in Hm. cbn [fst snd cch_at hctx_model] in Hm. cbv beta iota zeta in Hm.
  destruct (observe_commit (hist_cfg os d f polls) i st phase retry) as [ob'| | |]; inversion Hm; subst ob' vs.
  apply in_map_iff in Hv. destruct Hv as [x [Hx _]]. now symmetry.
Qed.

Theorem ceh_model_is_history : forall os d f polls fl st phase i,
  nth_error (hrun os d f (hist_hevs polls ++ [HObsE i st phase])) (length (hist_hevs polls)) =
  Some (Some (OExec (fst (ceh_model ((os, d, f, polls), (fl, st, phase, i)))))).
Proof.
  intros os d f polls fl st phase i.
  rewrite (hist_round os d f _ _ _ (nth_after_polls polls _ [])), cfg_at_after_polls. reflexivity.
Qed.

(* not vacuous: oracle 2 after it lost chain 5 (latest successful poll B, then a failed one) *)
Definition st_hist : rstate :=
  mkRs true (fun _ _ => false) false [] [5%N] rmn_none [] [] [] [] [] [] [] [] [] [].
Example cch_ok_example :
  let h : hctx := (ex_O, 9%N, 9%N, [ex_cfgA; ex_cfgB; None]) in
  cfg_ok (hctx_spec h) 2 = true /\
  cch_ok (h, ([], st_hist, 0%N, false, 2%N)) (cch_model (h, ([], st_hist, 0%N, false, 2%N))) = true /\
  snd (cch_model (h, ([], st_hist, 0%N, false, 2%N))) = [true; true; true; true] /\
  cch_ok (h, ([], st_hist, 0%N, false, 2%N)) (fst (cch_model (h, ([], st_hist, 0%N, false, 2%N))), [true; false; true; true]) = false.
Proof. vm_compute. repeat split. Qed.
Example ceh_ok_example :
  let h : hctx := (ex_O, 9%N, 9%N, [ex_cfgA; ex_cfgB; None]) in
  ceh_ok (h, ([], st_hist, 0%N, 2%N)) (ceh_model (h, ([], st_hist, 0%N, 2%N))) = true /\
  snd (ceh_model (h, ([], st_hist, 0%N, 2%N))) = [true; true; true; true] /\
  ceh_ok (h, ([], st_hist, 0%N, 2%N)) (Panic, []) = false.
Proof. vm_compute. repeat split. Qed.

(* JudgeSoundC05P.v — the executable properties of Check/C05_check.v (obs_ok, build_ok, rep5_ok, gate5_ok, chain_ok,
   life_ok) tied to the C05 theorems: per judge
     x_model_passes : the model's own output passes the executable property (no latent false alarm), and
     x_sound        : an ARBITRARY implementation output that passes it satisfies the Prop-level clauses of Props/C05.v. *)
Require Import Verif.Model.Base Verif.Proofs.BaseP Verif.Model.SeqRange Verif.Model.CommitMerkle Verif.Model.CommitSM
               Verif.Model.Transmit Verif.Model.CommitRmnGate Verif.Proofs.CommitSMP Verif.Proofs.CommitRmnGateP
               Verif.Model.C05Life Verif.Proofs.C05LifeP.
Require Import Verif.Check.C03_check Verif.Check.C05_check.
From Coq Require Import Sorting.Sorted.

(* ====================================================================================================
   boolean equalities of the case types are equalities
   ==================================================================================================== *)
Lemma list_eqb_iff {A} (e : A -> A -> bool) :
  (forall a b, e a b = true <-> a = b) -> forall l1 l2, list_eqb e l1 l2 = true <-> l1 = l2.
Proof.
  intros He. induction l1 as [|x l1 IH]; intros [|y l2]; cbn [list_eqb].
  - tauto.
  - split; discriminate.
  - split; discriminate.
  - rewrite andb_true_iff, He, IH. split.
    + intros [-> ->]. reflexivity.
    + intros H. inversion H. tauto.
Qed.

Lemma option_eqb_iff {A} (e : A -> A -> bool) :
  (forall a b, e a b = true <-> a = b) -> forall o1 o2, option_eqb e o1 o2 = true <-> o1 = o2.
Proof.
  intros He [x|] [y|]; cbn [option_eqb].
  - rewrite He. split; [intros ->; reflexivity|intros H; now inversion H].
  - split; discriminate.
  - split; discriminate.
  - tauto.
Qed.

Lemma pair_eqb_iff {A B} (ea : A -> A -> bool) (eb : B -> B -> bool) :
  (forall a b, ea a b = true <-> a = b) -> (forall a b, eb a b = true <-> a = b) ->
  forall p q, pair_eqb ea eb p q = true <-> p = q.
Proof.
  intros Ha Hb [a b] [a' b']. unfold pair_eqb. cbn [fst snd]. rewrite andb_true_iff, Ha, Hb. split.
  - intros [-> ->]. reflexivity.
  - intros H. inversion H. tauto.
Qed.

Lemma listN_eqb_iff (l1 l2 : list N) : list_eqb N.eqb l1 l2 = true <-> l1 = l2.
Proof. apply list_eqb_iff. exact N.eqb_eq. Qed.

Lemma roots_eqb_iff (l1 l2 : list root) : list_eqb root_eqb l1 l2 = true <-> l1 = l2.
Proof. apply list_eqb_iff. exact root_eqb_eq. Qed.

Lemma cfg_eqb_iff (a b : rmn_cfg) : cfg_eqb a b = true <-> a = b.
Proof. apply pair_eqb_iff; exact N.eqb_eq. Qed.

Lemma sc_eqb_iff (a b : N * N) : sc_eqb a b = true <-> a = b.
Proof. apply pair_eqb_iff; exact N.eqb_eq. Qed.

Lemma cr_eqb_iff (a b : N * (N * N)) : cr_eqb a b = true <-> a = b.
Proof. apply pair_eqb_iff; [exact N.eqb_eq|]. apply pair_eqb_iff; exact N.eqb_eq. Qed.

Lemma outcome_eqb_iff (a b : outcome) : outcome_eqb a b = true <-> a = b.
Proof.
  destruct a as [t rg rt of at_ sg cf], b as [t' rg' rt' of' at' sg' cf']. unfold outcome_eqb.
  cbn [o_type o_ranges o_roots o_off o_attempts o_sigs o_cfg].
  rewrite !andb_true_iff, Z.eqb_eq, N.eqb_eq, cfg_eqb_iff, listN_eqb_iff, roots_eqb_iff,
    (list_eqb_iff _ cr_eqb_iff), (list_eqb_iff _ sc_eqb_iff).
  split.
  - intros [[[[[[-> ->] ->] ->] ->] ->] ->]. reflexivity.
  - intros H. inversion H. tauto.
Qed.

Lemma report_eqb_iff (a b : rmn_report) : report_eqb a b = true <-> a = b.
Proof.
  destruct a as [[[[[v ds] ca] off] dg] ls], b as [[[[[v' ds'] ca'] off'] dg'] ls']. unfold report_eqb.
  rewrite !andb_true_iff, !N.eqb_eq, roots_eqb_iff. split.
  - intros [[[[[-> ->] ->] ->] ->] ->]. reflexivity.
  - intros H. inversion H. tauto.
Qed.

Lemma call_eqb_iff (a b : verify_call) : call_eqb a b = true <-> a = b.
Proof.
  destruct a as [[s r] g], b as [[s' r'] g']. unfold call_eqb.
  rewrite !andb_true_iff, !listN_eqb_iff, report_eqb_iff. split.
  - intros [[-> ->] ->]. reflexivity.
  - intros H. inversion H. tauto.
Qed.

Lemma roots_nil_iff (l : list root) : (match l with [] => true | _ => false end) = true <-> l = [].
Proof. destruct l; split; intros H; try reflexivity; discriminate. Qed.

Lemma roots_nil_false (l : list root) : (match l with [] => true | _ => false end) = false <-> l <> [].
Proof. destruct l; split; intros H; try reflexivity; try discriminate; congruence. Qed.

Lemma is_some_iff {A} (o : option A) : is_some o = true <-> o <> None.
Proof. destruct o; cbn; split; intros H; try reflexivity; try discriminate; congruence. Qed.

Lemma state_eqb_iff (a b : state) : state_eqb a b = true <-> a = b.
Proof. destruct a, b; cbn; split; intros H; try reflexivity; discriminate. Qed.

Lemma state_eqb_false (a b : state) : state_eqb a b = false <-> a <> b.
Proof. destruct a, b; cbn; split; intros H; try reflexivity; try discriminate; congruence. Qed.

(* sigs_imply_roots as the judges test it *)
Lemma sir_iff (o : outcome) :
  (match o_roots o with [] => match o_sigs o with [] => true | _ => false end | _ => true end) = true <-> sigs_imply_roots o.
Proof.
  unfold sigs_imply_roots. destruct (o_roots o); destruct (o_sigs o); split; intros H; try reflexivity; try discriminate;
    try (intros; discriminate); try (intros; reflexivity).
  specialize (H eq_refl). discriminate.
Qed.

(* ====================================================================================================
   gate: ShouldAcceptAttestedReport on a hand-made report            (C05_accept_gate)
   ==================================================================================================== *)
Section Gate.
  (* the model's answer passes: for every report, every RemoteF *)
  Lemma gate5_model_passes : forall i, gate5_ok i (gate5_model i) = true.
  Proof.
    intros [[[[r s] f] rmn] gp]. unfold gate5_ok, gate5_model, commit_should_accept. cbn [negb].
    destruct (commit_report_empty r 0 gp s) eqn:E; [reflexivity|].
    destruct rmn; [|reflexivity]. destruct (N.eqb_spec r 0) as [R|R]; [reflexivity|]. cbn [andb negb].
    destruct (N.ltb_spec s (f + 1)) as [L|L]; [reflexivity|].
    apply N.leb_le in L. cbn [acc_code]. change (N.eqb 1 1) with true. change (N.eqb 1 2) with false.
    cbn [andb negb]. rewrite L. reflexivity.
  Qed.

  (* an accept code that passes the judge: not a crash; "accepted" (1) with RMN enabled and roots means F+1
     signatures (the conclusion of C05_accept_gate with the implementation's answer in place of the model's), and an
     empty report is never accepted *)
  Lemma gate5_sound : forall r s f rmn gp c,
    gate5_ok (r, s, f, rmn, gp) c = true ->
    c <> 2%N /\
    (c = 1%N -> rmn = true -> r <> 0%N -> (f + 1 <= s)%N) /\
    (c = 1%N -> commit_report_empty r 0 gp s = false).
  Proof.
    intros r s f rmn gp c H. unfold gate5_ok in H. rewrite !andb_true_iff in H. destruct H as [[H1 H2] H3].
    split; [|split].
    - apply negb_true_iff in H3. now apply N.eqb_neq.
    - intros -> -> R. apply N.eqb_neq in R. cbn [N.eqb andb] in H1. rewrite R in H1. cbn [negb] in H1.
      now apply N.leb_le.
    - intros ->. cbn [N.eqb] in H2. now apply negb_true_iff.
  Qed.

  (* satisfiable: RemoteF = 2^63-1 (the F28 boundary), 2^63 signatures, accepted *)
  Example gate5_ok_nonvacuous : gate5_ok (2, 9223372036854775808, 9223372036854775807, true, 0)%N 1%N = true.
  Proof. vm_compute. reflexivity. Qed.
End Gate.

(* ====================================================================================================
   report / replife: Plugin.Reports followed by ShouldAcceptAttestedReport    (report_of, C05_accept_gate)
   ==================================================================================================== *)
Section Report.
  Lemma dummy_roots_length n : length (dummy_roots n) = n.
  Proof. induction n as [|n IH]; cbn [dummy_roots length]; [reflexivity|now rewrite IH]. Qed.
  Lemma dummy_sigs_length n : length (dummy_sigs n) = n.
  Proof. induction n as [|n IH]; cbn [dummy_sigs length]; [reflexivity|now rewrite IH]. Qed.
  Lemma dummy_roots_nil n : dummy_roots n = [] -> n = O.
  Proof. destruct n; [reflexivity|discriminate]. Qed.
  Lemma dummy_sigs_nil n : dummy_sigs n = [] -> n = O.
  Proof. destruct n; [reflexivity|discriminate]. Qed.

  (* what the accept gate answers on what Reports emitted passes gate5_ok *)
  Lemma acc_gate_ok r s f rmn gp :
    let c := acc_code (commit_should_accept true r 0 gp s 0 true rmn f) in
    ((if (N.eqb c 1 && rmn && negb (N.eqb r 0))%bool then N.leb (f + 1) s else true) && negb (N.eqb c 2))%bool = true.
  Proof.
    cbv zeta. pose proof (gate5_model_passes (r, s, f, rmn, gp)) as H. unfold gate5_ok, gate5_model in H.
    rewrite !andb_true_iff in H. destruct H as [[H1 _] H3]. rewrite H1, H3. reflexivity.
  Qed.

  Lemma rep5_model_passes : forall i, rep5_ok i (rep5_model i) = true.
  Proof.
    intros [[[[[ty nr] ns] f] gp] rmn]. unfold rep5_ok, rep5_model, report_of.
    cbn [o_roots o_sigs o_type o_cfg snd].
    set (rf := if Z.eqb ty T_generated then f else 0%N).
    assert (RF : (if Z.eqb ty T_generated then N.eqb rf f else N.eqb rf 0) = true).
    { unfold rf. destruct (Z.eqb ty T_generated); apply N.eqb_refl. }
    assert (G : forall (roots : list root) (sigs : list N), N.of_nat (length roots) = nr -> N.of_nat (length sigs) = ns ->
              rep5_ok (ty, nr, ns, f, gp, rmn)
                (Some (N.of_nat (length roots), N.of_nat (length sigs), rf,
                       acc_code (commit_should_accept true (N.of_nat (length roots)) 0 gp (N.of_nat (length sigs)) 0 true rmn rf))) = true).
    { intros roots sigs -> ->. unfold rep5_ok. rewrite !N.eqb_refl, RF. cbn [andb].
      pose proof (acc_gate_ok nr ns rf rmn gp) as A. cbv zeta in A.
      apply andb_true_iff in A. destruct A as [A1 A2]. rewrite A1, A2. reflexivity. }
    unfold rep5_ok in G.
    assert (LR : N.of_nat (length (dummy_roots (N.to_nat nr))) = nr) by (rewrite dummy_roots_length; apply N2Nat.id).
    assert (LS : N.of_nat (length (dummy_sigs (N.to_nat ns))) = ns) by (rewrite dummy_sigs_length; apply N2Nat.id).
    destruct (dummy_roots (N.to_nat nr)) as [|x xs] eqn:DR.
    - destruct (dummy_sigs (N.to_nat ns)) as [|y ys] eqn:DS.
      + destruct (N.eqb_spec 0 0) as [_|X]; [|congruence]. cbn [andb].
        cbn [length N.of_nat] in LR, LS. subst nr ns.
        destruct (N.eqb_spec gp 0) as [->|GP]; [reflexivity|].
        exact (G [] [] eq_refl eq_refl).
      + exact (G [] (y :: ys) LR LS).
    - exact (G (x :: xs) (dummy_sigs (N.to_nat ns)) LR LS).
  Qed.

  (* what passes the judge: nothing is emitted only for an outcome without roots, signatures and prices; what is
     emitted carries the outcome's roots and signatures; the RemoteF in its info is the F of the outcome's RMN config
     for a generated report (0 otherwise); and the gate accepted it - RMN enabled, roots present - only with
     RemoteF+1 signatures, i.e. the conclusion of C05_accept_gate on the implementation's answer *)
  Lemma rep5_sound : forall ty nr ns f gp rmn o,
    rep5_ok (ty, nr, ns, f, gp, rmn) o = true ->
    (o = None -> nr = 0%N /\ ns = 0%N /\ gp = 0%N) /\
    (forall r s rf c, o = Some (r, s, rf, c) ->
       r = nr /\ s = ns /\ c <> 2%N /\
       rf = (if Z.eqb ty T_generated then f else 0%N) /\
       (c = 1%N -> rmn = true -> r <> 0%N -> (rf + 1 <= s)%N)).
  Proof.
    intros ty nr ns f gp rmn o H. split.
    - intros ->. cbn in H. rewrite !andb_true_iff, !N.eqb_eq in H. tauto.
    - intros r s rf c ->. cbn in H. rewrite !andb_true_iff in H. destruct H as [[[[H1 H2] H3] H4] H5].
      apply N.eqb_eq in H1, H2. apply negb_true_iff, N.eqb_neq in H5.
      repeat split; try assumption.
      + destruct (Z.eqb ty T_generated); now apply N.eqb_eq in H4.
      + intros -> -> R. apply N.eqb_neq in R. cbn [N.eqb andb] in H3. rewrite R in H3. now apply N.leb_le.
  Qed.

  (* end to end for a generated report: accepted with roots under RMN only with F_rmn+1 signatures of the outcome *)
  Corollary rep5_sound_generated : forall nr ns f gp rmn r s rf,
    rep5_ok (T_generated, nr, ns, f, gp, rmn) (Some (r, s, rf, 1%N)) = true ->
    rmn = true -> nr <> 0%N -> (f + 1 <= ns)%N.
  Proof.
    intros nr ns f gp rmn r s rf H RM NR. destruct (rep5_sound _ _ _ _ _ _ _ H) as [_ K].
    destruct (K r s rf 1%N eq_refl) as [-> [-> [_ [RF G]]]]. cbn in RF. subst rf. now apply G.
  Qed.

  Example rep5_ok_nonvacuous : rep5_ok (T_generated, 2, 3, 2, 1, true)%N (Some (2, 3, 2, 1)%N) = true.
  Proof. vm_compute. reflexivity. Qed.
End Report.

(* ====================================================================================================
   build: Processor.Outcome in the building state                    (C05_roots_signed, C05_no_sigs_without_roots)
   ==================================================================================================== *)
(* build_ok as it was before the order clause was added: C05_reported_roots_sorted (reported roots sorted by chain,
   one per chain) was not judged, a wrong order showed as a model mismatch only *)
Definition build_ok_before (i : build_in) (o : outcome) : bool :=
  let '(max, n, prev, q, co) := i in
  (match o_roots o with [] => match o_sigs o with [] => true | _ => false end | _ => true end) &&
  match next_state (o_type prev), q_retry q, co, q_sigs q with
  | Building, false, Some c, Some b =>
      match parse_sigs (b_sigs b), parse_lanes (b_lanes b) with
      | Some sigs, Some lanes =>
          forallb (fun r => existsb (root_eqb r) (c_roots c) && existsb (root_eqb r) lanes) (o_roots o) &&
          forallb (fun r => if existsb (root_eqb r) lanes then existsb (root_eqb r) (o_roots o) else true) (c_roots c) &&
          match o_roots o with
          | [] => Z.eqb (o_type o) T_empty
          | _ => Z.eqb (o_type o) T_generated && list_eqb N.eqb (o_sigs o) sigs
          end
      | _, _ => outcome_eqb o empty_outcome
      end
  | _, _, _, _ => true
  end.

Lemma nodupb_NoDup_N (l : list N) : nodupb N.eqb l = true <-> NoDup l.
Proof.
  induction l as [|x l IH]; cbn [nodupb].
  - split; [constructor|reflexivity].
  - rewrite andb_true_iff, negb_true_iff, IH. split.
    + intros [Hx Hl]. constructor; [|exact Hl]. intros Hin.
      assert (existsb (N.eqb x) l = true) by (apply existsb_exists; exists x; split; [exact Hin|apply N.eqb_refl]). congruence.
    + intros H. inversion H as [|y l' Hx Hl]; subst. split; [|exact Hl].
      destruct (existsb (N.eqb x) l) eqn:E; [|reflexivity]. apply existsb_exists in E. destruct E as [y [Hy Exy]].
      apply N.eqb_eq in Exy. subst y. contradiction.
Qed.
Lemma strict_ascb_lt l : strict_ascb l = true -> StronglySorted N.lt l.
Proof.
  induction l as [|x [|y r] IH]; intros H.
  - constructor.
  - constructor; constructor.
  - cbn [strict_ascb] in H. apply andb_true_iff in H. destruct H as [Hxy Hr]. apply N.ltb_lt in Hxy.
    specialize (IH Hr). constructor; [exact IH|]. inversion IH as [|a l Hs Hall]; subst.
    constructor; [exact Hxy|]. eapply Forall_impl; [|exact Hall]. intros z Hz. cbn beta in Hz. lia.
Qed.
(* strictly ascending keys = what C05_reported_roots_sorted says of the reported roots: sorted by key, no key twice *)
Lemma strict_ascb_iff {A} (key : A -> N) (l : list A) :
  strict_ascb (map key l) = true <-> KSorted key l /\ NoDup (map key l).
Proof.
  split.
  - intros H. apply strict_ascb_lt in H. induction l as [|x l IH]; [split; constructor|].
    cbn [map] in H. inversion H as [|a l' Hs Hall]; subst. destruct (IH Hs) as [I1 I2]. split.
    + constructor; [exact I1|]. apply Forall_forall. intros y Hy. rewrite Forall_forall in Hall.
      assert (key x < key y)%N by (apply Hall; now apply in_map). lia.
    + cbn [map]. constructor; [|exact I2]. intros Hin. rewrite Forall_forall in Hall. specialize (Hall _ Hin). lia.
  - intros [Hs Hn]. induction l as [|x [|y r] IH]; [reflexivity|reflexivity|].
    inversion Hs as [|a l' Hs' Hall]; subst. cbn [map] in Hn. inversion Hn as [|a l' Hx Hn']; subst.
    change (strict_ascb (map key (x :: y :: r))) with (N.ltb (key x) (key y) && strict_ascb (map key (y :: r))).
    apply andb_true_iff. split; [|now apply IH].
    apply N.ltb_lt. inversion Hall as [|a l' Hxy _]; subst. cbn beta in Hxy.
    assert (key x <> key y) by (intros E; apply Hx; left; now rewrite E). lia.
Qed.

Section Build.
  (* the model's outcome passes the order clause: C05_reported_roots_sorted *)
  Lemma build_order_model max n prev q co : build_order_ok prev q co (get_outcome max n prev q co) = true.
  Proof.
    unfold build_order_ok. destruct (next_state (o_type prev)) eqn:ST; try reflexivity.
    destruct (q_retry q) eqn:R; try reflexivity. destruct co as [c|]; [|reflexivity].
    destruct (nodupb N.eqb (map root_chain (c_roots c))) eqn:ND; [|reflexivity]. apply nodupb_NoDup_N in ND.
    assert (GO : get_outcome max n prev q (Some c) = build_report q c prev).
    { unfold get_outcome, get_outcome_with. rewrite ST, R. reflexivity. }
    rewrite GO. apply strict_ascb_iff. now apply reported_roots_sorted.
  Qed.

  (* premise: the previous outcome handed in carries signatures only with roots (needed in the retry branch, which
     hands the previous outcome on; it is the invariant C05_no_sigs_without_roots and holds of every outcome the
     harness feeds back) *)
  Lemma build_model_passes : forall max n prev q co,
    sigs_imply_roots prev -> build_ok (max, n, prev, q, co) (build_model (max, n, prev, q, co)) = true.
  Proof.
    intros max n prev q co SP. unfold build_ok, build_model.
    rewrite (proj2 (sir_iff _) (no_sigs_without_roots max n prev q co SP)). rewrite build_order_model. cbn [andb].
    destruct (next_state (o_type prev)) eqn:ST; try reflexivity.
    destruct (q_retry q) eqn:R; try reflexivity.
    destruct co as [c|]; [|reflexivity]. destruct (q_sigs q) as [b|] eqn:B; [|reflexivity].
    assert (GO : get_outcome max n prev q (Some c) = build_report q c prev).
    { unfold get_outcome, get_outcome_with. rewrite ST, R. reflexivity. }
    rewrite GO.
    destruct (roots_signed q c prev b B) as [[E P]|[sigs [lanes [PS [PL [K [K1 K2]]]]]]].
    - assert (X : outcome_eqb (build_report q c prev) empty_outcome = true) by (now apply outcome_eqb_iff).
      destruct (parse_sigs (b_sigs b)); [|exact X]. destruct (parse_lanes (b_lanes b)); [|exact X].
      destruct P; discriminate.
    - rewrite PS, PL. rewrite !andb_true_iff. split; [split|].
      + apply forallb_forall. intros r Hr. apply K in Hr. destruct Hr as [H1 H2].
        apply andb_true_iff. split; now apply signed_In.
      + apply forallb_forall. intros r Hr. destruct (existsb (root_eqb r) lanes) eqn:EL; [|reflexivity].
        apply signed_In. apply K. split; [exact Hr|now apply signed_In].
      + destruct (o_roots (build_report q c prev)) as [|x xs] eqn:OR.
        * destruct (K2 eq_refl) as [_ T]. rewrite T. reflexivity.
        * assert (NE : x :: xs <> []) by discriminate. destruct (K1 NE) as [S T]. rewrite S, T.
          cbn [andb]. change (Z.eqb T_generated T_generated) with true. cbn [andb]. now apply listN_eqb_iff.
  Qed.

  (* an outcome that passes the judge satisfies C05_roots_signed with the implementation's outcome in the place of
     build_report's: the reported roots are EXACTLY the agreed roots equal to a lane update of the bundle (iff), the
     signatures are the bundle's and present only with roots, a malformed bundle gives the empty outcome; and
     signatures never come without roots (the invariant of C05_no_sigs_without_roots).
     The order clause (C05_reported_roots_sorted on the implementation's outcome) is build_sound_order below.
     Not covered: the outcome of a building round WITHOUT bundle beyond its order (not part of C05). *)
  Lemma build_ok_stronger i o : build_ok i o = true -> build_ok_before i o = true.
  Proof.
    destruct i as [[[[max n] prev] q] co]. unfold build_ok, build_ok_before. rewrite !andb_true_iff.
    intros [[H0 _] H]. split; assumption.
  Qed.
  (* C05_reported_roots_sorted with the implementation's outcome in the place of build_report's *)
  Lemma build_sound_order : forall max n prev q co o c,
    build_ok (max, n, prev, q, co) o = true ->
    next_state (o_type prev) = Building -> q_retry q = false -> co = Some c ->
    NoDup (map root_chain (c_roots c)) ->
    KSorted root_chain (o_roots o) /\ NoDup (map root_chain (o_roots o)).
  Proof.
    intros max n prev q co o c H ST R -> ND. unfold build_ok in H. rewrite !andb_true_iff in H. destruct H as [[_ H] _].
    unfold build_order_ok in H. rewrite ST, R in H. apply nodupb_NoDup_N in ND. rewrite ND in H.
    now apply strict_ascb_iff.
  Qed.
  Lemma build_sound : forall max n prev q co o,
    build_ok (max, n, prev, q, co) o = true ->
    sigs_imply_roots o /\
    forall c b, next_state (o_type prev) = Building -> q_retry q = false -> co = Some c -> q_sigs q = Some b ->
      (o = empty_outcome /\ (parse_sigs (b_sigs b) = None \/ parse_lanes (b_lanes b) = None)) \/
      (exists sigs lanes,
         parse_sigs (b_sigs b) = Some sigs /\ parse_lanes (b_lanes b) = Some lanes /\
         (forall r, In r (o_roots o) <-> In r (c_roots c) /\ In r lanes) /\
         (o_roots o <> [] -> o_sigs o = sigs /\ o_type o = T_generated) /\
         (o_roots o = [] -> o_sigs o = [] /\ o_type o = T_empty)).
  Proof.
    intros max n prev q co o H. apply build_ok_stronger in H.
    unfold build_ok_before in H. apply andb_true_iff in H. destruct H as [H0 H].
    apply sir_iff in H0. split; [exact H0|].
    intros c b ST R -> B. rewrite ST, R, B in H.
    destruct (parse_sigs (b_sigs b)) as [sigs|] eqn:PS.
    - destruct (parse_lanes (b_lanes b)) as [lanes|] eqn:PL.
      + right. exists sigs, lanes. split; [reflexivity|]. split; [reflexivity|].
        rewrite !andb_true_iff in H. destruct H as [[F1 F2] F3].
        rewrite forallb_forall in F1, F2. split; [|split].
        * intros r. split.
          -- intros Hr. specialize (F1 r Hr). apply andb_true_iff in F1. destruct F1 as [A1 A2].
             split; now apply signed_In.
          -- intros [Hc Hl]. specialize (F2 r Hc). apply signed_In in Hl. rewrite Hl in F2. now apply signed_In.
        * intros NE. destruct (o_roots o); [congruence|]. apply andb_true_iff in F3. destruct F3 as [T S].
          split; [now apply listN_eqb_iff|now apply Z.eqb_eq].
        * intros E. split; [now apply H0|]. rewrite E in F3. now apply Z.eqb_eq.
      + left. split; [now apply outcome_eqb_iff|right; reflexivity].
    - left. split; [now apply outcome_eqb_iff|left; reflexivity].
  Qed.

  (* satisfiable: two agreed roots, the bundle signs the first exactly and the second with another merkle root *)
  Example build_ok_nonvacuous :
    let c := mkCons [(7, (10, 12), 5, 99); (8, (1, 2), 6, 98)]%N [] [] cfg_empty in
    let q := mkQuery false (Some (mkBundle [SigOk 1; SigOk 2] [LaneOk 7 10 12 5 99; LaneOk 8 1 2 6 97]%N)) in
    let prev := mkOutcome T_selected [] [] [] 0 [] (4, 1)%N in
    build_ok (3, 256, prev, q, Some c)%N (mkOutcome T_generated [] [(7, (10, 12), 5, 99)%N] [] 0 [1; 2]%N (4, 1)%N) = true.
  Proof. vm_compute. reflexivity. Qed.

  (* WITNESS of the weakness: two agreed roots (chains 7 and 8), both signed; the outcome reports them in descending
     chain order, resp. reports the root of chain 7 twice: the old property accepted both (order / one per chain was
     left to model equality), the new one rejects them and accepts the sorted outcome (the model's) *)
  Example build_ok_before_weak :
    let c := mkCons [(7, (10, 12), 5, 99); (8, (1, 2), 6, 98)]%N [] [] cfg_empty in
    let q := mkQuery false (Some (mkBundle [SigOk 1; SigOk 2] [LaneOk 7 10 12 5 99; LaneOk 8 1 2 6 98]%N)) in
    let prev := mkOutcome T_selected [] [] [] 0 [] (4, 1)%N in
    let out rs := mkOutcome T_generated [] rs [] 0 [1; 2]%N (4, 1)%N in
    let r7 := (7, (10, 12), 5, 99)%N in let r8 := (8, (1, 2), 6, 98)%N in
    build_ok_before (3, 256, prev, q, Some c)%N (out [r8; r7]) = true /\
    build_ok (3, 256, prev, q, Some c)%N (out [r8; r7]) = false /\
    ~ KSorted root_chain (o_roots (out [r8; r7])) /\
    build_ok_before (3, 256, prev, q, Some c)%N (out [r7; r7; r8]) = true /\
    build_ok (3, 256, prev, q, Some c)%N (out [r7; r7; r8]) = false /\
    build_ok (3, 256, prev, q, Some c)%N (out [r7; r8]) = true /\
    build_model (3, 256, prev, q, Some c)%N = out [r7; r8].
  Proof.
    cbv zeta. repeat split; try (vm_compute; reflexivity).
    intros H. inversion H as [|a l _ Hall]; subst. inversion Hall as [|a l Hle _]; subst. vm_compute in Hle. now apply Hle.
  Qed.
End Build.

(* ====================================================================================================
   Processor.Observation of one oracle: what the model returns (shared by obs, chain and life)
   ==================================================================================================== *)
Lemma verify_args_total enabled st cfg_e d dest init known off q :
  verify_args enabled st cfg_e d dest init known off q <> Panic /\
  verify_args enabled st cfg_e d dest init known off q <> Spin.
Proof.
  unfold verify_args.
  destruct (enabled && negb cfg_e && N.eqb init 2)%bool; [split; discriminate|].
  destruct (negb enabled); [split; discriminate|].
  destruct (q_sigs q) as [b|].
  - destruct (state_eqb st Building && q_retry q)%bool; [split; discriminate|].
    destruct (state_eqb st Building && cfg_e)%bool; [split; discriminate|].
    destruct (negb (state_eqb st Building)); [split; discriminate|].
    destruct (negb known); [split; discriminate|].
    destruct off; [|split; discriminate].
    destruct (parse_sigs (b_sigs b)); [|split; discriminate].
    destruct cfg_e; [split; discriminate|].
    destruct (parse_lanes (b_lanes b)); split; discriminate.
  - destruct (negb (state_eqb st Building)); [split; discriminate|].
    destruct (q_retry q); split; discriminate.
Qed.

Definition call_of (va : res (option verify_call)) : option verify_call := match va with Ok c => c | _ => None end.

Lemma obs_facts v enabled st cfg_e d dest init known off q w :
  let r := fst (observation_full v enabled st cfg_e d dest init known off q w) in
  let o := snd (observation_full v enabled st cfg_e d dest init known off q w) in
  let call := call_of (verify_args enabled st cfg_e d dest init known off q) in
  (res_code r = 0%N \/ res_code r = 1%N) /\
  (res_code r = 1%N -> o = obs_empty) /\
  (res_code r = 0%N -> o = get_observation st q w) /\
  (forall c, call = Some c ->
     enabled = true /\ st = Building /\ cfg_e = false /\ q_retry q = false /\
     exists b offa, q_sigs q = Some b /\ off = Some offa /\ expected_call d dest offa b = Some c) /\
  (forall c, call = Some c -> res_code r = (if v c then 0%N else 1%N)) /\
  (call = None -> res_code r = 0%N ->
     enabled = false \/ (st <> Building /\ q_sigs q = None) \/ (st = Building /\ q_retry q = true)) /\
  (enabled = true -> st <> Building -> q_sigs q <> None -> res_code r = 1%N).
Proof.
  cbv zeta.
  assert (NB : enabled = true -> st <> Building -> q_sigs q <> None ->
               res_code (fst (observation_full v enabled st cfg_e d dest init known off q w)) = 1%N).
  { intros -> S B. rewrite observation_full_fst. rewrite (no_bundle_elsewhere v st cfg_e d dest init known off q S B).
    reflexivity. }
  revert NB. unfold observation_full, observation, call_of.
  destruct (verify_args_total enabled st cfg_e d dest init known off q) as [NP NS].
  destruct (verify_args enabled st cfg_e d dest init known off q) as [[c|]| | |] eqn:V; try congruence.
  - pose proof (verify_args_call_form _ _ _ _ _ _ _ _ _ _ V) as CF.
    destruct (v c) eqn:VC; cbn [fst snd res_code]; intros NB;
      refine (conj _ (conj _ (conj _ (conj _ (conj _ (conj _ NB)))))).
    + now left.
    + discriminate.
    + reflexivity.
    + intros c' E. inversion E; subst c'. exact CF.
    + intros c' E. inversion E; subst c'. rewrite VC. reflexivity.
    + discriminate.
    + now right.
    + reflexivity.
    + discriminate.
    + intros c' E. inversion E; subst c'. exact CF.
    + intros c' E. inversion E; subst c'. rewrite VC. reflexivity.
    + discriminate.
  - cbn [fst snd res_code]. intros NB. refine (conj _ (conj _ (conj _ (conj _ (conj _ (conj _ NB)))))).
    + now left.
    + discriminate.
    + reflexivity.
    + discriminate.
    + discriminate.
    + intros _ _. exact (unverified_observation_cases _ _ _ _ _ _ _ _ _ V).
  - cbn [fst snd res_code]. intros NB. refine (conj _ (conj _ (conj _ (conj _ (conj _ (conj _ NB)))))).
    + now right.
    + reflexivity.
    + discriminate.
    + discriminate.
    + discriminate.
    + discriminate.
Qed.

Lemma get_observation_retry q w : q_retry q = true -> get_observation Building q w = obs_empty.
Proof. intros R. unfold get_observation. rewrite R. reflexivity. Qed.

Lemma get_observation_roots_nil st q w : st <> Building -> ob_roots (get_observation st q w) = [].
Proof. destruct st; [reflexivity|congruence|reflexivity]. Qed.

Lemma obs_is_empty_roots o : obs_is_empty o = true -> ob_roots o = [].
Proof. unfold obs_is_empty. destruct (ob_roots o); [reflexivity|discriminate]. Qed.

Lemma expected_call_form d dest offa b c :
  expected_call d dest offa b = Some c ->
  exists sigs lanes, parse_sigs (b_sigs b) = Some sigs /\ parse_lanes (b_lanes b) = Some lanes /\
                     c = (sigs, (cd_version d, dest, cd_contract d, offa, cd_digest d, lanes), cd_signers d).
Proof.
  unfold expected_call. destruct (parse_sigs (b_sigs b)) as [sigs|]; [|discriminate].
  destruct (parse_lanes (b_lanes b)) as [lanes|]; [|discriminate].
  intros H. inversion H. exists sigs, lanes. repeat split.
Qed.

(* the clauses every judge tests on an observation, on the model's observation *)
Lemma model_obs_clauses v enabled st cfg_e d dest init known off q w :
  let r := fst (observation_full v enabled st cfg_e d dest init known off q w) in
  let o := snd (observation_full v enabled st cfg_e d dest init known off q w) in
  let call := call_of (verify_args enabled st cfg_e d dest init known off q) in
  let building := state_eqb st Building in
  negb (N.eqb (res_code r) 2) = true /\
  (if N.eqb (res_code r) 1 then obs_is_empty o else true) = true /\
  (if building && q_retry q then obs_is_empty o else true) = true /\
  (if building then true else match ob_roots o with [] => true | _ => false end) = true /\
  (enabled = true -> ob_roots o <> [] -> exists c, call = Some c /\ v c = true) /\
  (enabled = true -> st = Building -> q_retry q = false -> res_code r = 0%N ->
     exists b offa c, q_sigs q = Some b /\ off = Some offa /\ cfg_e = false /\ call = Some c /\
                      expected_call d dest offa b = Some c /\ v c = true).
Proof.
  destruct (obs_facts v enabled st cfg_e d dest init known off q w) as [F1 [F2 [F3 [F4 [F5 [F6 F7]]]]]].
  cbv zeta in *.
  set (r := fst (observation_full v enabled st cfg_e d dest init known off q w)) in *.
  set (o := snd (observation_full v enabled st cfg_e d dest init known off q w)) in *.
  set (call := call_of (verify_args enabled st cfg_e d dest init known off q)) in *.
  refine (conj _ (conj _ (conj _ (conj _ (conj _ _))))).
  - destruct F1 as [C|C]; rewrite C; reflexivity.
  - destruct F1 as [C|C]; rewrite C; [reflexivity|]. rewrite (F2 C). reflexivity.
  - destruct (state_eqb st Building) eqn:SB; [|reflexivity]. destruct (q_retry q) eqn:R; [|reflexivity].
    cbn [andb]. apply state_eqb_iff in SB. subst st.
    destruct F1 as [C|C]; [rewrite (F3 C), (get_observation_retry q w R)|rewrite (F2 C)]; reflexivity.
  - destruct (state_eqb st Building) eqn:SB; [reflexivity|]. apply state_eqb_false in SB.
    destruct F1 as [C|C]; [rewrite (F3 C), (get_observation_roots_nil st q w SB)|rewrite (F2 C)]; reflexivity.
  - intros EN NR. destruct F1 as [C|C]; [|rewrite (F2 C) in NR; cbn in NR; congruence].
    rewrite (F3 C) in NR. destruct (roots_observed_only_when_building st q w NR) as [SB [R _]].
    destruct call as [c|] eqn:CL.
    + exists c. split; [reflexivity|]. pose proof (F5 c eq_refl) as X. rewrite C in X.
      destruct (v c); [reflexivity|discriminate].
    + destruct (F6 eq_refl C) as [E|[[E _]|[_ E]]]; congruence.
  - intros EN SB R C. destruct call as [c|] eqn:CL.
    + destruct (F4 c eq_refl) as [_ [_ [CE [_ [b [offa [B [O X]]]]]]]].
      exists b, offa, c. repeat split; try assumption.
      pose proof (F5 c eq_refl) as Y. rewrite C in Y. destruct (v c); [reflexivity|discriminate].
    + destruct (F6 eq_refl C) as [E|[[E _]|[_ E]]]; congruence.
Qed.

Lemma obs_is_empty_empty : obs_is_empty obs_empty = true.
Proof. reflexivity. Qed.

(* ====================================================================================================
   obs: Processor.Observation with a recording crypto oracle
        (C05_observe_requires_bundle, C05_no_bundle_elsewhere, C05_unverified_observation_cases,
         C05_refused_observation_empty, C05_roots_observed_only_when_building, C05_retry_round_inert)
   ==================================================================================================== *)
Section Obs.
  Lemma obs_model_eq enabled ty cfg_e d dest init known off q ans w :
    obs_model (enabled, ty, cfg_e, d, dest, init, known, off, q, ans, w) =
    (res_code (fst (observation_full (fun _ => ans) enabled (next_state ty) cfg_e d dest init known off q w)),
     call_of (verify_args enabled (next_state ty) cfg_e d dest init known off q),
     snd (observation_full (fun _ => ans) enabled (next_state ty) cfg_e d dest init known off q w)).
  Proof.
    unfold obs_model, observation_full, observation, call_of.
    destruct (verify_args_total enabled (next_state ty) cfg_e d dest init known off q) as [NP NS].
    destruct (verify_args enabled (next_state ty) cfg_e d dest init known off q) as [[c|]| | |]; try congruence;
      try reflexivity.
    destruct ans; reflexivity.
  Qed.

  Lemma obs_model_passes : forall i, obs_ok i (obs_model i) = true.
  Proof.
    intros [[[[[[[[[[enabled ty] cfg_e] d] dest] init] known] off] q] ans] w].
    rewrite obs_model_eq.
    destruct (model_obs_clauses (fun _ => ans) enabled (next_state ty) cfg_e d dest init known off q w)
      as [M1 [M2 [M3 [M4 [M5 M6]]]]].
    destruct (obs_facts (fun _ => ans) enabled (next_state ty) cfg_e d dest init known off q w)
      as [F1 [_ [_ [F4 [F5 [_ F7]]]]]].
    cbv zeta in *.
    set (r := fst (observation_full (fun _ => ans) enabled (next_state ty) cfg_e d dest init known off q w)) in *.
    set (o := snd (observation_full (fun _ => ans) enabled (next_state ty) cfg_e d dest init known off q w)) in *.
    set (call := call_of (verify_args enabled (next_state ty) cfg_e d dest init known off q)) in *.
    unfold obs_ok. rewrite M1, M2, M3, M4. cbn [andb].
    rewrite !andb_true_iff. refine (conj (conj (conj _ _) _) _).
    - (* roots only after a verified call *)
      destruct enabled; [|reflexivity]. cbn [andb].
      destruct (ob_roots o) as [|x xs] eqn:OR; [reflexivity|]. cbn [negb].
      destruct (M5 eq_refl) as [c [CL A]]; [discriminate|]. rewrite CL. exact A.
    - (* an observation in a building round without retry needs the verified bundle *)
      destruct enabled; [|reflexivity]. cbn [andb].
      destruct (state_eqb (next_state ty) Building) eqn:SB; [|reflexivity]. cbn [andb].
      destruct (q_retry q) eqn:R; [reflexivity|]. cbn [negb andb].
      destruct (N.eqb_spec (res_code r) 0) as [C|C]; [|reflexivity].
      apply state_eqb_iff in SB.
      destruct (M6 eq_refl SB eq_refl C) as [b [offa [c [B [O [CE [CL [X A]]]]]]]].
      rewrite B, O, CL, CE, A. cbn [negb andb].
      destruct (expected_call_form _ _ _ _ _ X) as [sigs [lanes [PS [PL ->]]]]. rewrite PS, PL.
      now apply call_eqb_iff.
    - (* a bundle in any other round is refused *)
      destruct enabled; [|reflexivity]. cbn [andb].
      destruct (state_eqb (next_state ty) Building) eqn:SB; [reflexivity|]. cbn [negb andb].
      destruct (q_sigs q) as [b|] eqn:B; [|reflexivity]. cbn [is_some].
      apply state_eqb_false in SB. rewrite (F7 eq_refl SB); [reflexivity|discriminate].
    - (* a refused signature check is an error *)
      destruct call as [c|] eqn:CL; [|reflexivity]. cbn [is_some andb].
      destruct ans; [reflexivity|]. cbn [negb]. rewrite (F5 c eq_refl). reflexivity.
  Qed.

  (* an answer (code, recorded call, returned observation) that passes the judge: the conclusions of the observation
     theorems of Props/C05.v with the implementation's answer in the place of the model's. The crypto oracle of this
     part is the scripted answer [ans] given to whatever call is recorded, so "verify_sigs call = true" reads
     "the recorded call is THE expected call and ans = true".
     Not covered: init <> 2 and chain_known = true (conclusions of C05_observe_requires_bundle the judge does not
     test: an observation made although the controller initialisation or the chain lookup failed shows as a model
     mismatch only). *)
  Lemma obs_sound : forall enabled ty cfg_e d dest init known off q ans w code call ob,
    obs_ok (enabled, ty, cfg_e, d, dest, init, known, off, q, ans, w) (code, call, ob) = true ->
    let st := next_state ty in
    code <> 2%N /\
    (code = 1%N -> obs_is_empty ob = true) /\
    (st = Building -> q_retry q = true -> obs_is_empty ob = true) /\
    (ob_roots ob <> [] -> st = Building /\ q_retry q = false) /\
    (enabled = true -> ob_roots ob <> [] -> exists c, call = Some c /\ ans = true) /\
    (enabled = true -> st = Building -> q_retry q = false -> code = 0%N ->
       exists b sigs lanes offa,
         q_sigs q = Some b /\ cfg_e = false /\ off = Some offa /\
         parse_sigs (b_sigs b) = Some sigs /\ parse_lanes (b_lanes b) = Some lanes /\
         call = Some (sigs, (cd_version d, dest, cd_contract d, offa, cd_digest d, lanes), cd_signers d) /\
         ans = true) /\
    (enabled = true -> st <> Building -> q_sigs q <> None -> code = 1%N) /\
    (forall c, call = Some c -> ans = false -> code = 1%N).
  Proof.
    intros enabled ty cfg_e d dest init known off q ans w code call ob H. cbv zeta.
    unfold obs_ok in H. rewrite !andb_true_iff in H.
    destruct H as [[[[[[[H1 H2] H3] H4] H5] H6] H7] H8].
    assert (G3 : next_state ty = Building -> q_retry q = true -> obs_is_empty ob = true).
    { intros SB R. rewrite SB, R in H3. exact H3. }
    assert (G4 : ob_roots ob <> [] -> next_state ty = Building /\ q_retry q = false).
    { intros NR. destruct (state_eqb (next_state ty) Building) eqn:SB.
      - apply state_eqb_iff in SB. split; [exact SB|]. destruct (q_retry q) eqn:R; [|reflexivity].
        exfalso. apply NR. apply obs_is_empty_roots. now apply G3.
      - exfalso. apply NR. now apply roots_nil_iff. }
    refine (conj _ (conj _ (conj G3 (conj G4 (conj _ (conj _ (conj _ _))))))).
    - apply negb_true_iff in H1. now apply N.eqb_neq.
    - intros ->. exact H2.
    - intros -> NR. cbn [andb] in H5. apply roots_nil_false in NR. rewrite NR in H5. cbn [negb] in H5.
      destruct call as [c|]; [|discriminate]. exists c. split; [reflexivity|exact H5].
    - intros -> SB R ->. rewrite SB, R in H6. cbn in H6.
      destruct (q_sigs q) as [b|]; [|discriminate]. destruct off as [offa|]; [|discriminate].
      destruct call as [c|]; [|discriminate]. rewrite !andb_true_iff in H6. destruct H6 as [[CE A] X].
      destruct (parse_sigs (b_sigs b)) as [sigs|] eqn:PS; [|discriminate].
      destruct (parse_lanes (b_lanes b)) as [lanes|] eqn:PL; [|discriminate].
      apply call_eqb_iff in X. apply negb_true_iff in CE.
      exists b, sigs, lanes, offa. subst c. repeat split; assumption.
    - intros -> SB B. apply state_eqb_false in SB. rewrite SB in H7. cbn [negb andb] in H7.
      apply is_some_iff in B. rewrite B in H7. now apply N.eqb_eq.
    - intros c -> ->. cbn in H8. now apply N.eqb_eq.
  Qed.

  (* satisfiable: RMN on, building round, a well-formed bundle, the crypto oracle asked exactly the expected call and
     answering yes, two roots observed *)
  Example obs_ok_nonvacuous :
    obs_ok (true, T_selected, false, mkDetail [1; 2] 3 4 5, 900, 0, true, Some 7, mkQuery false (Some (mkBundle [SigOk 11] [LaneOk 1 10 12 8 9])), true,
            mkWorld [(1, (10, 12), 8, 9)] [] [] cfg_empty true)%N
           (0, Some ([11], (5, 900, 3, 7, 4, [(1, (10, 12), 8, 9)]), [1; 2]), mkObs [(1, (10, 12), 8, 9)] [] [] cfg_empty true)%N = true.
  Proof. vm_compute. reflexivity. Qed.
End Obs.

(* ====================================================================================================
   chain: one round Query -> Observation -> ValidateObservation -> Outcome
          (C05_honest_query, the observation theorems, C05_reported_roots_verified, C05_retry_round_inert,
           C05_no_sigs_without_roots)
   ==================================================================================================== *)
Lemma sig_pb_eqb_iff (s t : sig_pb) :
  (match s, t with SigNil, SigNil | SigBad, SigBad => true | SigOk u, SigOk v => N.eqb u v | _, _ => false end) = true
  <-> s = t.
Proof.
  destruct s, t; split; intros H; try reflexivity; try discriminate.
  - apply N.eqb_eq in H. now subst.
  - inversion H. apply N.eqb_refl.
Qed.

Lemma lane_pb_eqb_iff (s t : lane_pb) :
  (match s, t with
   | LaneNil, LaneNil | LaneNoSource, LaneNoSource | LaneNoInterval, LaneNoInterval | LaneBadRoot, LaneBadRoot => true
   | LaneOk a1 a2 a3 a4 a5, LaneOk b1 b2 b3 b4 b5 => N.eqb a1 b1 && N.eqb a2 b2 && N.eqb a3 b3 && N.eqb a4 b4 && N.eqb a5 b5
   | _, _ => false end) = true <-> s = t.
Proof.
  destruct s, t; split; intros H; try reflexivity; try discriminate.
  - rewrite !andb_true_iff, !N.eqb_eq in H. destruct H as [[[[-> ->] ->] ->] ->]. reflexivity.
  - inversion H. rewrite !N.eqb_refl. reflexivity.
Qed.

Lemma query_eqb_iff (a b : query) : query_eqb a b = true <-> a = b.
Proof.
  destruct a as [ra sa], b as [rb sb]. unfold query_eqb. cbn [q_retry q_sigs].
  rewrite andb_true_iff, eqb_true_iff.
  assert (BE : forall x y : bundle,
            (list_eqb (fun s t => match s, t with SigNil, SigNil | SigBad, SigBad => true | SigOk u, SigOk v => N.eqb u v | _, _ => false end)
                      (b_sigs x) (b_sigs y) &&
             list_eqb (fun s t => match s, t with
                                  | LaneNil, LaneNil | LaneNoSource, LaneNoSource | LaneNoInterval, LaneNoInterval | LaneBadRoot, LaneBadRoot => true
                                  | LaneOk a1 a2 a3 a4 a5, LaneOk b1 b2 b3 b4 b5 => N.eqb a1 b1 && N.eqb a2 b2 && N.eqb a3 b3 && N.eqb a4 b4 && N.eqb a5 b5
                                  | _, _ => false end) (b_lanes x) (b_lanes y))%bool = true <-> x = y).
  { intros [xs xl] [ys yl]. cbn [b_sigs b_lanes]. rewrite andb_true_iff.
    rewrite (list_eqb_iff _ sig_pb_eqb_iff), (list_eqb_iff _ lane_pb_eqb_iff). split.
    - intros [-> ->]. reflexivity.
    - intros H. inversion H. tauto. }
  rewrite (option_eqb_iff _ BE). split.
  - intros [-> ->]. reflexivity.
  - intros H. inversion H. tauto.
Qed.

Lemma req_eqb_iff (a b : lane_req) : req_eqb a b = true <-> a = b.
Proof.
  destruct a as [[[k ad] s] e], b as [[[k' ad'] s'] e']. unfold req_eqb.
  rewrite !andb_true_iff, !N.eqb_eq. split.
  - intros [[[-> ->] ->] ->]. reflexivity.
  - intros H. inversion H. tauto.
Qed.

Lemma reqs_eqb_iff (a b : option (list lane_req)) : option_eqb (list_eqb req_eqb) a b = true <-> a = b.
Proof. apply option_eqb_iff. apply list_eqb_iff. exact req_eqb_iff. Qed.

(* what an outcome with fresh roots is, in the model *)
Lemma build_report_roots_agreed q c prev r : In r (o_roots (build_report q c prev)) -> In r (c_roots c).
Proof.
  unfold build_report.
  assert (F : forall roots sigs, In r (o_roots (finish_report prev roots sigs)) -> In r roots).
  { intros roots sigs. destruct roots; cbn [finish_report o_roots]; tauto. }
  destruct (q_sigs q) as [b|].
  - destruct (parse_sigs (b_sigs b)); [|cbn; tauto]. destruct (parse_lanes (b_lanes b)); [|cbn; tauto].
    intros H. apply F in H. apply filter_In in H. destruct H as [H _]. now apply sort_by_in in H.
  - intros H. apply F in H. now apply sort_by_in in H.
Qed.

Lemma get_outcome_fresh_roots max n prev q co :
  get_outcome max n prev q co <> prev -> o_roots (get_outcome max n prev q co) <> [] ->
  next_state (o_type prev) = Building /\ q_retry q = false /\
  exists c, co = Some c /\ get_outcome max n prev q co = build_report q c prev.
Proof.
  unfold get_outcome, get_outcome_with.
  destruct (next_state (o_type prev)) eqn:ST; cbn [state_eqb andb]; intros NE NR.
  - exfalso. destruct co as [c|]; [|apply NR; reflexivity]. apply NR. apply select_outcome_no_roots.
  - destruct (q_retry q) eqn:R; [congruence|].
    destruct co as [c|]; [|exfalso; apply NR; reflexivity].
    split; [reflexivity|]. split; [reflexivity|]. exists c. split; reflexivity.
  - exfalso. destruct co as [c|]; [|apply NR; reflexivity]. apply NR. apply check_transmission_no_roots.
Qed.

Lemma get_outcome_retry max n prev q co :
  next_state (o_type prev) = Building -> q_retry q = true -> get_outcome max n prev q co = prev.
Proof. intros ST R. unfold get_outcome, get_outcome_with. rewrite ST, R. reflexivity. Qed.

Section Chain.
  (* the leader clause of chain_ok and of life_ok (there with the RMN config handed to the controller) *)
  Definition chain_lead_ok (enabled : bool) (prev : outcome) (onr : list (N * N)) (lead : leader)
             (lq : option query) (lreq : option (list lane_req)) : bool :=
    let building := state_eqb (next_state (o_type prev)) Building in
    match lead, lq with
    | LHonest ctrl, Some q =>
        match lreq with
        | Some reqs => enabled && building &&
                       option_eqb (list_eqb req_eqb) (query_requests (o_ranges prev) (fun k => alookup k onr)) (Some reqs) &&
                       match ctrl with
                       | CtrlSigs b => query_eqb q (mkQuery false (Some b))
                       | CtrlTimeout => query_eqb q (mkQuery true None)
                       | CtrlErr => false
                       end
        | None => query_eqb q (mkQuery false None)
        end
    | _, _ => true
    end.

  (* the clauses of chain_ok on what follows the query (copied from Check/C05_check.v; chain_ok_split below checks
     the copy by conversion) *)
  Definition chain_rest_ok (enabled : bool) (prev : outcome) (d : cfg_detail) (dest : N) (offr : option N) (ans : bool)
             (q : query) (rest : option (obs4_out * list bool * option outcome)) : bool :=
    let building := state_eqb (next_state (o_type prev)) Building in
    match rest with
    | Some ((oc, call, ob, alike), valid, out) =>
      negb (N.eqb oc 2) && alike &&
      (if N.eqb oc 1 then obs_is_empty ob else true) &&
      (if building && q_retry q then obs_is_empty ob else true) &&
      (if building then true else match ob_roots ob with [] => true | _ => false end) &&
      (if enabled && negb (match ob_roots ob with [] => true | _ => false end)
       then match call with Some _ => ans | None => false end else true) &&
      (match call with
       | Some cl =>
           match q_sigs q, offr with
           | Some b, Some offa =>
               match parse_sigs (b_sigs b), parse_lanes (b_lanes b) with
               | Some sigs, Some lanes =>
                   call_eqb cl (sigs, (cd_version d, dest, cd_contract d, offa, cd_digest d, lanes), cd_signers d)
               | _, _ => false
               end
           | _, _ => false
           end
       | None => true
       end) &&
      match out with
      | None => true
      | Some oo =>
          (if enabled && building && negb (outcome_eqb oo prev) && negb (match o_roots oo with [] => true | _ => false end)
           then match call, q_sigs q with
                | Some (sigs, (_, _, _, _, _, lanes), _), Some b =>
                    ans &&
                    option_eqb (list_eqb root_eqb) (parse_lanes (b_lanes b)) (Some lanes) &&
                    option_eqb (list_eqb N.eqb) (parse_sigs (b_sigs b)) (Some sigs) &&
                    forallb (fun r => existsb (root_eqb r) lanes) (o_roots oo) &&
                    list_eqb N.eqb (o_sigs oo) sigs
                | _, _ => false
                end
           else true) &&
          (if building && q_retry q then outcome_eqb oo prev else true) &&
          (match o_roots oo with [] => match o_sigs oo with [] => true | _ => false end | _ => true end)
      end
    | None => false
    end.

  Lemma chain_ok_split enabled max n prev d dest offr onr lead ans rs won woff wcfg wf co lc lq lreq rest :
    chain_ok (enabled, max, n, prev, d, dest, offr, onr, lead, ans, rs, won, woff, wcfg, wf, co) ((lc, lq, lreq), rest) =
    (negb (N.eqb lc 2) && chain_lead_ok enabled prev onr lead lq lreq &&
     match lq with Some q => chain_rest_ok enabled prev d dest offr ans q rest | None => true end)%bool.
  Proof. reflexivity. Qed.
End Chain.

Section ChainSound.
  (* ---- the executable property as it was before the repair (copied verbatim from Check/C05_check.v at 637034c) ---- *)
  Definition chain_ok_before (i : chain_in) (o : chain_out) : bool :=
    let '(enabled, max, n, prev, d, dest, offr, onr, lead, ans, rs, won, woff, wcfg, wf, co) := i in
    let '((lc, lq, lreq), rest) := o in
    let building := state_eqb (next_state (o_type prev)) Building in
    negb (N.eqb lc 2) &&
    (* honest leader: the controller is asked for exactly the previous outcome's ranges with the bound addresses; a
       bundle comes only from the controller; a timeout gives the retry query without bundle *)
    (match lead, lq with
     | LHonest ctrl, Some q =>
         match lreq with
         | Some reqs => enabled && building &&
                        option_eqb (list_eqb req_eqb) (query_requests (o_ranges prev) (fun k => alookup k onr)) (Some reqs) &&
                        match ctrl with
                        | CtrlSigs b => query_eqb q (mkQuery false (Some b))
                        | CtrlTimeout => query_eqb q (mkQuery true None)
                        | CtrlErr => false
                        end
         | None => query_eqb q (mkQuery false None)
         end
     | _, _ => true
     end) &&
    match lq, rest with
    | Some q, Some ((oc, call, ob, alike), valid, out) =>
        negb (N.eqb oc 2) && alike &&
        (* the value returned next to a refusal is empty *)
        (if N.eqb oc 1 then obs_is_empty ob else true) &&
        (* an announced retry in a building round: nothing observed *)
        (if building && q_retry q then obs_is_empty ob else true) &&
        (* merkle roots are observed only in a building round *)
        (if building then true else match ob_roots ob with [] => true | _ => false end) &&
        (* RMN on: an observation carrying roots was made only after the bundle's signatures were verified *)
        (if enabled && negb (match ob_roots ob with [] => true | _ => false end)
         then match call with Some _ => ans | None => false end else true) &&
        match out with
        | None => true
        | Some oo =>
            (* RMN on, building round: a NEW outcome carrying roots needs a bundle that the oracle verified: the crypto
               oracle was called with exactly the bundle's lane updates and signatures and answered yes; the roots are
               among those lane updates and the signatures are the verified ones *)
            (if enabled && building && negb (outcome_eqb oo prev) && negb (match o_roots oo with [] => true | _ => false end)
             then match call, q_sigs q with
                  | Some (sigs, (_, _, _, _, _, lanes), _), Some b =>
                      ans &&
                      option_eqb (list_eqb root_eqb) (parse_lanes (b_lanes b)) (Some lanes) &&
                      option_eqb (list_eqb N.eqb) (parse_sigs (b_sigs b)) (Some sigs) &&
                      forallb (fun r => existsb (root_eqb r) lanes) (o_roots oo) &&
                      list_eqb N.eqb (o_sigs oo) sigs
                  | _, _ => false
                  end
             else true) &&
            (if building && q_retry q then outcome_eqb oo prev else true) &&
            (match o_roots oo with [] => match o_sigs oo with [] => true | _ => false end | _ => true end)
        end
    | Some _, None => false
    | None, _ => true
    end.

  (* WITNESS of the unsoundness: RMN on, building round, a Byzantine leader's bundle over the true root; the
     implementation output records a VerifyReportSignatures call with the bundle's lanes and signatures but with
     ANOTHER signer list ([666], the agreed config has [1;2]) and other report fields (all 0), the crypto oracle says
     yes to that call, and the outcome reports the root. The old chain_ok accepted it, although the clause
     (C05_reported_roots_verified) demands the call on the agreed config's signers and report fields. *)
  Definition w_root : root := (1, (10, 12), 8, 9)%N.
  Definition w_query : query := mkQuery false (Some (mkBundle [SigOk 11%N] [LaneOk 1 10 12 8 9]%N)).
  Definition w_detail : cfg_detail := mkDetail [1; 2]%N 3 4 5.
  Definition w_prev : outcome := mkOutcome T_selected [(1, (10, 12))]%N [] [] 0 [] (4, 1)%N.
  Definition w_in : chain_in :=
    (true, 3, 256, w_prev, w_detail, 900, Some 7, [(1, 8)], LByz w_query, true, (None, [], 0, []), [], [], (4, 1), true,
     Some (mkCons [w_root] [] [] cfg_empty))%N.
  Definition w_call (bad : bool) : verify_call :=
    if bad then ([11], (0, 0, 0, 0, 0, [w_root]), [666])%N else ([11], (5, 900, 3, 7, 4, [w_root]), [1; 2])%N.
  Definition w_out (bad : bool) : chain_out :=
    ((0%N, Some w_query, None),
     Some ((0%N, Some (w_call bad), mkObs [] [] [] cfg_empty true, true), [true; true; true; true],
           Some (mkOutcome T_generated [] [w_root] [] 0 [11%N] (4, 1)%N))).

  Example chain_ok_before_unsound :
    chain_ok_before w_in (w_out true) = true /\
    ~ (exists sigs lanes off,
         Some (w_call true) = Some (sigs, (cd_version w_detail, 900%N, cd_contract w_detail, off, cd_digest w_detail, lanes),
                                    cd_signers w_detail)).
  Proof.
    split; [vm_compute; reflexivity|]. intros [sigs [lanes [off H]]]. vm_compute in H. discriminate.
  Qed.

  (* the repaired chain_ok rejects the witness and still accepts the same round with the right call *)
  Example chain_ok_rejects_witness : chain_ok w_in (w_out true) = false /\ chain_ok w_in (w_out false) = true.
  Proof. split; vm_compute; reflexivity. Qed.
  Example chain_ok_nonvacuous : chain_ok w_in (w_out false) = true.
  Proof. vm_compute. reflexivity. Qed.
  (* ... and it is the model's own output *)
  Example chain_witness_is_model : chain_oeqb (chain_model w_in) (w_out false) = true.
  Proof. vm_compute. reflexivity. Qed.
End ChainSound.

Section ChainProofs.
  (* ---------- soundness of the leader clause (C05_honest_query on the implementation's query) ---------- *)
  Lemma chain_lead_sound enabled prev onr lead lq lreq :
    chain_lead_ok enabled prev onr lead lq lreq = true ->
    forall ctrl q, lead = LHonest ctrl -> lq = Some q ->
      (q = mkQuery false None /\ lreq = None) \/
      (enabled = true /\ next_state (o_type prev) = Building /\
       query_requests (o_ranges prev) (fun k => alookup k onr) = lreq /\ lreq <> None /\
       ((exists b, ctrl = CtrlSigs b /\ q = mkQuery false (Some b)) \/ (ctrl = CtrlTimeout /\ q = mkQuery true None))).
  Proof.
    intros H ctrl q -> ->. unfold chain_lead_ok in H. cbv zeta in H.
    destruct lreq as [reqs|].
    - right. rewrite !andb_true_iff in H. destruct H as [[[EN SB] RQ] CT].
      apply state_eqb_iff in SB. apply reqs_eqb_iff in RQ.
      split; [exact EN|]. split; [exact SB|]. split; [exact RQ|]. split; [discriminate|].
      destruct ctrl as [b| |]; [left|right|discriminate].
      + exists b. split; [reflexivity|now apply query_eqb_iff].
      + split; [reflexivity|now apply query_eqb_iff].
    - left. split; [now apply query_eqb_iff|reflexivity].
  Qed.

  (* ---------- soundness of the round clauses ---------- *)
  Lemma chain_rest_sound enabled prev d dest offr ans q rest :
    chain_rest_ok enabled prev d dest offr ans q rest = true ->
    let st := next_state (o_type prev) in
    exists oc call ob valid out, rest = Some ((oc, call, ob, true), valid, out) /\
      oc <> 2%N /\
      (oc = 1%N -> obs_is_empty ob = true) /\
      (st = Building -> q_retry q = true -> obs_is_empty ob = true) /\
      (ob_roots ob <> [] -> st = Building /\ q_retry q = false) /\
      (enabled = true -> ob_roots ob <> [] -> exists c, call = Some c /\ ans = true) /\
      (forall cl, call = Some cl ->
         exists b offa sigs lanes,
           q_sigs q = Some b /\ offr = Some offa /\
           parse_sigs (b_sigs b) = Some sigs /\ parse_lanes (b_lanes b) = Some lanes /\
           cl = (sigs, (cd_version d, dest, cd_contract d, offa, cd_digest d, lanes), cd_signers d)) /\
      (forall oo, out = Some oo ->
         (enabled = true -> st = Building -> oo <> prev -> o_roots oo <> [] ->
            exists sigs lanes off,
              call = Some (sigs, (cd_version d, dest, cd_contract d, off, cd_digest d, lanes), cd_signers d) /\
              ans = true /\ (forall r, In r (o_roots oo) -> In r lanes) /\ o_sigs oo = sigs) /\
         (st = Building -> q_retry q = true -> oo = prev) /\
         sigs_imply_roots oo).
  Proof.
    intros H. cbv zeta. destruct rest as [[[[[[oc call] ob] alike] valid] out]|]; [|discriminate].
    unfold chain_rest_ok in H. cbv zeta in H.
    apply andb_true_iff in H. destruct H as [H H8].
    rewrite !andb_true_iff in H. destruct H as [[[[[[H1 Ha] H2] H3] H4] H5] H6].
    destruct alike; [|discriminate].
    exists oc, call, ob, valid, out. split; [reflexivity|].
    assert (G3 : next_state (o_type prev) = Building -> q_retry q = true -> obs_is_empty ob = true).
    { intros SB R. rewrite SB, R in H3. exact H3. }
    assert (G4 : ob_roots ob <> [] -> next_state (o_type prev) = Building /\ q_retry q = false).
    { intros NR. destruct (state_eqb (next_state (o_type prev)) Building) eqn:SB.
      - apply state_eqb_iff in SB. split; [exact SB|]. destruct (q_retry q) eqn:R; [|reflexivity].
        exfalso. apply NR. apply obs_is_empty_roots. now apply G3.
      - exfalso. apply NR. now apply roots_nil_iff. }
    assert (G6 : forall cl, call = Some cl ->
         exists b offa sigs lanes,
           q_sigs q = Some b /\ offr = Some offa /\
           parse_sigs (b_sigs b) = Some sigs /\ parse_lanes (b_lanes b) = Some lanes /\
           cl = (sigs, (cd_version d, dest, cd_contract d, offa, cd_digest d, lanes), cd_signers d)).
    { intros cl ->. destruct (q_sigs q) as [b|]; [|discriminate]. destruct offr as [offa|]; [|discriminate].
      destruct (parse_sigs (b_sigs b)) as [sigs|] eqn:PS; [|discriminate].
      destruct (parse_lanes (b_lanes b)) as [lanes|] eqn:PL; [|discriminate].
      apply call_eqb_iff in H6. exists b, offa, sigs, lanes. repeat split; assumption. }
    refine (conj _ (conj _ (conj G3 (conj G4 (conj _ (conj G6 _)))))).
    - apply negb_true_iff in H1. now apply N.eqb_neq.
    - intros ->. exact H2.
    - intros -> NR. cbn [andb] in H5. apply roots_nil_false in NR. rewrite NR in H5. cbn [negb] in H5.
      destruct call as [c|]; [|discriminate]. exists c. split; [reflexivity|exact H5].
    - intros oo ->. rewrite !andb_true_iff in H8. destruct H8 as [[K1 K2] K3].
      split; [|split].
      + intros -> SB NE NR. apply state_eqb_iff in SB. rewrite SB in K1. cbn [andb] in K1.
        destruct (outcome_eqb oo prev) eqn:OE; [apply outcome_eqb_iff in OE; contradiction|].
        apply roots_nil_false in NR. rewrite NR in K1. cbn [negb andb] in K1.
        destruct call as [[[sigs [[[[[v1 v2] v3] v4] v5] lanes]] sg]|]; [|discriminate].
        destruct (q_sigs q) as [b|] eqn:B; [|discriminate].
        rewrite !andb_true_iff in K1. destruct K1 as [[[[A PL] PS] FA] SG].
        destruct (G6 _ eq_refl) as [b' [offa [sigs' [lanes' [B' [O [PS' [PL' E]]]]]]]].
        destruct ans; [|discriminate A]. inversion E; subst. exists sigs', lanes', offa. split; [reflexivity|]. split; [reflexivity|].
        split; [|now apply listN_eqb_iff].
        intros r Hr. rewrite forallb_forall in FA. apply signed_In. now apply FA.
      + intros SB R. rewrite SB, R in K2. now apply outcome_eqb_iff.
      + now apply sir_iff.
  Qed.

  (* a round (leader answer, observation, validity, outcome) that passes the judge.
     Not covered: in the leader clause the first disjunct of C05_honest_query lacks "enabled = false \/ st <> Building"
     and the second "cfg_e = false" (an empty query in an enabled building round and a controller asked under an
     empty config pass; neither puts a root into a report); in the outcome clause "In r (c_roots c)" (every
     reported root is an agreed root: tested by the build part and C03). *)
  Lemma chain_sound : forall enabled max n prev d dest offr onr lead ans rs won woff wcfg wf co lc lq lreq rest,
    chain_ok (enabled, max, n, prev, d, dest, offr, onr, lead, ans, rs, won, woff, wcfg, wf, co) ((lc, lq, lreq), rest) = true ->
    let st := next_state (o_type prev) in
    lc <> 2%N /\
    (forall ctrl q, lead = LHonest ctrl -> lq = Some q ->
       (q = mkQuery false None /\ lreq = None) \/
       (enabled = true /\ st = Building /\
        query_requests (o_ranges prev) (fun k => alookup k onr) = lreq /\ lreq <> None /\
        ((exists b, ctrl = CtrlSigs b /\ q = mkQuery false (Some b)) \/ (ctrl = CtrlTimeout /\ q = mkQuery true None)))) /\
    (forall q, lq = Some q ->
       exists oc call ob valid out, rest = Some ((oc, call, ob, true), valid, out) /\
         oc <> 2%N /\
         (oc = 1%N -> obs_is_empty ob = true) /\
         (st = Building -> q_retry q = true -> obs_is_empty ob = true) /\
         (ob_roots ob <> [] -> st = Building /\ q_retry q = false) /\
         (enabled = true -> ob_roots ob <> [] -> exists c, call = Some c /\ ans = true) /\
         (forall cl, call = Some cl ->
            exists b offa sigs lanes,
              q_sigs q = Some b /\ offr = Some offa /\
              parse_sigs (b_sigs b) = Some sigs /\ parse_lanes (b_lanes b) = Some lanes /\
              cl = (sigs, (cd_version d, dest, cd_contract d, offa, cd_digest d, lanes), cd_signers d)) /\
         (forall oo, out = Some oo ->
            (enabled = true -> st = Building -> oo <> prev -> o_roots oo <> [] ->
               exists sigs lanes off,
                 call = Some (sigs, (cd_version d, dest, cd_contract d, off, cd_digest d, lanes), cd_signers d) /\
                 ans = true /\ (forall r, In r (o_roots oo) -> In r lanes) /\ o_sigs oo = sigs) /\
            (st = Building -> q_retry q = true -> oo = prev) /\
            sigs_imply_roots oo)).
  Proof.
    intros enabled max n prev d dest offr onr lead ans rs won woff wcfg wf co lc lq lreq rest H. cbv zeta.
    rewrite chain_ok_split in H. rewrite !andb_true_iff in H. destruct H as [[H1 H2] H3].
    split; [|split].
    - apply negb_true_iff in H1. now apply N.eqb_neq.
    - exact (chain_lead_sound _ _ _ _ _ _ H2).
    - intros q ->. exact (chain_rest_sound _ _ _ _ _ _ _ _ H3).
  Qed.
End ChainProofs.

Section ChainModel.
  Lemma outcome_eqb_refl o : outcome_eqb o o = true.
  Proof. now apply outcome_eqb_iff. Qed.

  (* the round clauses on the model's round. Premises: QS = quorum soundness (a query this oracle refused leaves no
     agreed roots: the consensus is computed over the valid observations, and a refused observation is empty);
     SP = the previous outcome carries signatures only with roots (invariant C05_no_sigs_without_roots). *)
  Lemma chain_rest_model enabled max n prev d dest offr ans q w co :
    let st := next_state (o_type prev) in
    let cfg_e := cfg_is_empty (o_cfg prev) in
    let r := fst (observation_full (fun _ => ans) enabled st cfg_e d dest 1 true offr q w) in
    let o := snd (observation_full (fun _ => ans) enabled st cfg_e d dest 1 true offr q w) in
    let call := call_of (verify_args enabled st cfg_e d dest 1 true offr q) in
    let v := validate_retry q o in
    (r <> Ok tt -> forall c, co = Some c -> c_roots c = []) ->
    sigs_imply_roots prev ->
    chain_rest_ok enabled prev d dest offr ans q
      (Some ((res_code r, call, o, true), [v; v; v; v], if v then Some (get_outcome max n prev q co) else None)) = true.
  Proof.
    cbv zeta. intros QS SP.
    destruct (model_obs_clauses (fun _ => ans) enabled (next_state (o_type prev)) (cfg_is_empty (o_cfg prev)) d dest 1 true offr q w)
      as [M1 [M2 [M3 [M4 [M5 M6]]]]].
    destruct (obs_facts (fun _ => ans) enabled (next_state (o_type prev)) (cfg_is_empty (o_cfg prev)) d dest 1 true offr q w)
      as [F1 [_ [_ [F4 _]]]].
    cbv zeta in *.
    set (r := fst (observation_full (fun _ => ans) enabled (next_state (o_type prev)) (cfg_is_empty (o_cfg prev)) d dest 1 true offr q w)) in *.
    set (o := snd (observation_full (fun _ => ans) enabled (next_state (o_type prev)) (cfg_is_empty (o_cfg prev)) d dest 1 true offr q w)) in *.
    set (call := call_of (verify_args enabled (next_state (o_type prev)) (cfg_is_empty (o_cfg prev)) d dest 1 true offr q)) in *.
    unfold chain_rest_ok. cbv zeta. rewrite M1, M2, M3, M4. cbn [andb].
    apply andb_true_iff; split; [apply andb_true_iff; split|].
    - destruct enabled; [|reflexivity]. cbn [andb].
      destruct (ob_roots o) as [|x xs] eqn:OR; [reflexivity|]. cbn [negb].
      destruct (M5 eq_refl) as [c [CL A]]; [discriminate|]. rewrite CL. exact A.
    - destruct call as [c|] eqn:CL; [|reflexivity].
      destruct (F4 c eq_refl) as [_ [_ [_ [_ [b [offa [B [O X]]]]]]]]. rewrite B, O.
      destruct (expected_call_form _ _ _ _ _ X) as [sigs [lanes [PS [PL ->]]]]. rewrite PS, PL.
      now apply call_eqb_iff.
    - destruct (validate_retry q o); [|reflexivity].
      set (oo := get_outcome max n prev q co).
      apply andb_true_iff; split; [apply andb_true_iff; split|].
      + destruct enabled; [|reflexivity]. cbn [andb].
        destruct (state_eqb (next_state (o_type prev)) Building) eqn:SB; [|reflexivity]. cbn [andb].
        destruct (outcome_eqb oo prev) eqn:OE; [reflexivity|]. cbn [negb andb].
        destruct (o_roots oo) as [|x xs] eqn:OR; [reflexivity|]. cbn [negb].
        assert (NE : oo <> prev). { intros E. rewrite E, outcome_eqb_refl in OE. discriminate. }
        assert (NR : o_roots oo <> []) by (rewrite OR; discriminate).
        destruct (get_outcome_fresh_roots max n prev q co NE NR) as [ST [R [c [CO GO]]]].
        fold oo in GO.
        assert (C : res_code r = 0%N).
        { destruct F1 as [C|C]; [exact C|]. exfalso.
          assert (RN : r <> Ok tt) by (intros E; rewrite E in C; discriminate).
          pose proof (QS RN c CO) as CR. apply NR. rewrite GO.
          destruct (o_roots (build_report q c prev)) as [|y ys] eqn:BR; [reflexivity|].
          assert (I : In y (c_roots c)) by (apply (build_report_roots_agreed q c prev); rewrite BR; left; reflexivity).
          rewrite CR in I. contradiction. }
        destruct (M6 eq_refl ST R C) as [b [offa [c' [B [O [CE [CL [X A]]]]]]]].
        destruct (expected_call_form _ _ _ _ _ X) as [sigs [lanes [PS [PL E]]]]. subst c'.
        rewrite CL, B, PS, PL, A. cbn [andb option_eqb].
        rewrite (proj2 (roots_eqb_iff lanes lanes) eq_refl), (proj2 (listN_eqb_iff sigs sigs) eq_refl). cbn [andb].
        destruct (roots_signed q c prev b B) as [[E _]|[sigs' [lanes' [PS' [PL' [K [K1 _]]]]]]].
        * exfalso. apply NR. rewrite GO, E. reflexivity.
        * assert (sigs' = sigs) by congruence. assert (lanes' = lanes) by congruence. subst sigs' lanes'.
          rewrite <- GO in K, K1. apply andb_true_iff. split.
          -- apply forallb_forall. intros y Hy. apply signed_In. apply K. rewrite OR. exact Hy.
          -- destruct (K1 NR) as [S _]. now apply listN_eqb_iff.
      + destruct (state_eqb (next_state (o_type prev)) Building) eqn:SB; [|reflexivity].
        destruct (q_retry q) eqn:R; [|reflexivity]. cbn [andb]. apply state_eqb_iff in SB.
        unfold oo. rewrite (get_outcome_retry max n prev q co SB R). apply outcome_eqb_refl.
      + apply sir_iff. unfold oo. now apply no_sigs_without_roots.
  Qed.

  (* the query the model's leader sends *)
  Definition chain_query (i : chain_in) : res query :=
    let '(enabled, max, n, prev, d, dest, offr, onr, lead, ans, rs, won, woff, wcfg, wf, co) := i in
    match lead with
    | LHonest ctrl => fst (query_model enabled (next_state (o_type prev)) (cfg_is_empty (o_cfg prev)) 1 offr (o_ranges prev)
                                       (fun k => alookup k onr) ctrl)
    | LByz q => Ok q
    end.
  (* quorum soundness of a case: when the oracles refuse the query, the consensus handed in carries no roots (the
     harness computes it with the real getConsensusObservation over the valid observations; refused ones are empty) *)
  Definition chain_quorum_sound (i : chain_in) : Prop :=
    let '(enabled, max, n, prev, d, dest, offr, onr, lead, ans, rs, won, woff, wcfg, wf, co) := i in
    forall q c, chain_query i = Ok q ->
      fst (observation_full (fun _ => ans) enabled (next_state (o_type prev)) (cfg_is_empty (o_cfg prev)) d dest 1 true offr q
             (world_of prev rs onr won woff wcfg wf)) <> Ok tt ->
      co = Some c -> c_roots c = [].
  Definition chain_prev (i : chain_in) : outcome :=
    let '(enabled, max, n, prev, d, dest, offr, onr, lead, ans, rs, won, woff, wcfg, wf, co) := i in prev.

  Lemma query_eqb_refl q : query_eqb q q = true.
  Proof. now apply query_eqb_iff. Qed.

  Lemma chain_model_passes : forall i,
    chain_quorum_sound i -> sigs_imply_roots (chain_prev i) -> chain_ok i (chain_model i) = true.
  Proof.
    intros [[[[[[[[[[[[[[[enabled max] n] prev] d] dest] offr] onr] lead] ans] rs] won] woff] wcfg] wf] co] QS SP.
    unfold chain_prev in SP. unfold chain_quorum_sound, chain_query in QS. unfold chain_model.
    set (w := world_of prev rs onr won woff wcfg wf) in *.
    assert (REST : forall q lreq,
              (forall c, fst (observation_full (fun _ => ans) enabled (next_state (o_type prev)) (cfg_is_empty (o_cfg prev)) d dest 1 true offr q w) <> Ok tt ->
                         co = Some c -> c_roots c = []) ->
              chain_lead_ok enabled prev onr lead (Some q) lreq = true ->
              chain_ok (enabled, max, n, prev, d, dest, offr, onr, lead, ans, rs, won, woff, wcfg, wf, co)
                (let '(r, o) := observation_full (fun _ => ans) enabled (next_state (o_type prev)) (cfg_is_empty (o_cfg prev)) d dest 1 true offr q w in
                 let call := match verify_args enabled (next_state (o_type prev)) (cfg_is_empty (o_cfg prev)) d dest 1 true offr q with Ok c => c | _ => None end in
                 let v := validate_retry q o in
                 ((0%N, Some q, lreq),
                  Some ((res_code r, call, o, true), [v; v; v; v], if v then Some (get_outcome max n prev q co) else None))) = true).
    { intros q lreq Q L.
      pose proof (chain_rest_model enabled max n prev d dest offr ans q w co) as X. cbv zeta in X.
      destruct (observation_full (fun _ => ans) enabled (next_state (o_type prev)) (cfg_is_empty (o_cfg prev)) d dest 1 true offr q w) as [r o] eqn:OF.
      cbn [fst snd] in X, Q. cbv zeta. rewrite chain_ok_split. rewrite L. cbn [N.eqb negb andb].
      apply X; [|exact SP]. intros RN c CO. exact (Q c RN CO). }
    destruct lead as [ctrl|qb].
    - destruct (query_model enabled (next_state (o_type prev)) (cfg_is_empty (o_cfg prev)) 1 offr (o_ranges prev)
                            (fun k => alookup k onr) ctrl) as [qr reqs] eqn:QM.
      cbn [fst] in QS.
      destruct qr as [q| | |]; try reflexivity.
      apply REST; [intros c RN CO; exact (QS q c eq_refl RN CO)|].
      unfold chain_lead_ok. cbv zeta.
      destruct (query_model_cases _ _ _ _ _ _ _ _ _ _ QM) as [[-> [-> _]]|[EN [ST [_ [RQ [NN CT]]]]]].
      + apply query_eqb_refl.
      + destruct reqs as [reqs|]; [|congruence]. rewrite EN, ST, RQ. cbn [state_eqb andb].
        rewrite (proj2 (reqs_eqb_iff (Some reqs) (Some reqs)) eq_refl). cbn [andb].
        destruct CT as [[b [-> ->]]|[-> ->]]; apply query_eqb_refl.
    - apply REST; [intros c RN CO; exact (QS qb c eq_refl RN CO)|reflexivity].
  Qed.
End ChainModel.

(* ====================================================================================================
   life: ONE long-lived set of processors over report cycles, judged per round
         (C05_life_verified_against_agreed_config, C05_life_roots_need_verified_bundle with verify_sigs := toy_verify tab,
          and the round theorems as in chain)
   ==================================================================================================== *)
Section LifeDefs.
  (* the parts of life_ok (copied from Check/C05_check.v; life_ok_split below checks the copy by conversion) *)
  Definition life_icall_ok (enabled cfg_e : bool) (d : cfg_detail) (nodes : N) (ic : option init_call) : bool :=
    match ic with
    | Some (dg, nd) => enabled && negb cfg_e && N.eqb dg (cd_digest d) && N.eqb nd nodes
    | None => true
    end.

  Definition life_conn_rule (enabled cfg_e : bool) (d : cfg_detail) (c c' : N) : bool :=
    N.eqb c' c || (enabled && negb cfg_e && N.eqb c' (cd_digest d)).

  Definition life_lead_ok (enabled : bool) (prev : outcome) (onr : list (N * N)) (lead : leader)
             (lq : option query) (lreq : option (list lane_req * rmn_cfg)) : bool :=
    let building := state_eqb (next_state (o_type prev)) Building in
    match lead, lq with
    | LHonest ctrl, Some q =>
        match lreq with
        | Some (reqs, ccfg) => enabled && building && cfg_eqb ccfg (o_cfg prev) &&
                       option_eqb (list_eqb req_eqb) (query_requests (o_ranges prev) (fun k => alookup k onr)) (Some reqs) &&
                       match ctrl with
                       | CtrlSigs b => query_eqb q (mkQuery false (Some b))
                       | CtrlTimeout => query_eqb q (mkQuery true None)
                       | CtrlErr => false
                       end
        | None => query_eqb q (mkQuery false None)
        end
    | _, _ => true
    end.

  (* what verifyQuery has to hand to the crypto oracle in this round *)
  Definition life_exp_call (d : cfg_detail) (dest : N) (offr : option N) (q : query) : option verify_call :=
    match q_sigs q, offr with Some b, Some offa => expected_call d dest offa b | _, _ => None end.
  Definition life_exp_valid (tab : sig_table) (d : cfg_detail) (dest : N) (offr : option N) (q : query) : bool :=
    match life_exp_call d dest offr q with Some c => toy_verify tab c | None => false end.

  Definition life_obs1_ok (enabled : bool) (prev : outcome) (d : cfg_detail) (dest : N) (offr : option N) (wcfg : rmn_cfg)
             (nodes : N) (tab : sig_table) (q : query) (x : obs1_out) : bool :=
    let st := next_state (o_type prev) in
    let building := state_eqb st Building in
    let cfg_e := cfg_is_empty (o_cfg prev) in
    let exp_call := life_exp_call d dest offr q in
    let exp_valid := life_exp_valid tab d dest offr q in
    let '(oc, call, ob, ic) := x in
    negb (N.eqb oc 2) && life_icall_ok enabled cfg_e d nodes ic &&
    (if N.eqb oc 1 then obs_is_empty ob else true) &&
    (if building && q_retry q then obs_is_empty ob else true) &&
    (if building then true else roots_nil (ob_roots ob)) &&
    (match call with Some c => option_eqb call_eqb exp_call (Some c) | None => true end) &&
    (if enabled && negb (roots_nil (ob_roots ob)) then is_some call && exp_valid else true) &&
    (if enabled && building && negb (q_retry q) && N.eqb oc 0 then is_some call && exp_valid && negb cfg_e else true) &&
    (if enabled && negb building && is_some (q_sigs q) then N.eqb oc 1 else true) &&
    (match call with Some c => if toy_verify tab c then true else N.eqb oc 1 | None => true end) &&
    (if state_eqb st Selecting && N.eqb oc 0 then cfg_eqb (ob_cfg ob) wcfg else true).

  Definition life_ok_count (outs : list obs1_out) : N :=
    N.of_nat (length (filter (fun x : obs1_out => let '(oc, call, _, _) := x in N.eqb oc 0 && is_some call) outs)).

  Definition life_out_ok (enabled : bool) (prev : outcome) (d : cfg_detail) (dest : N) (offr : option N)
             (tab : sig_table) (q : query) (outs : list obs1_out) (oo : outcome) : bool :=
    let building := state_eqb (next_state (o_type prev)) Building in
    let exp_call := life_exp_call d dest offr q in
    let exp_valid := life_exp_valid tab d dest offr q in
    let fresh_roots := building && negb (outcome_eqb oo prev) && negb (roots_nil (o_roots oo)) in
    (if enabled && fresh_roots
     then exp_valid &&
          match exp_call with
          | Some (sigs, (_, _, _, _, _, lanes), _) =>
              forallb (fun r => existsb (root_eqb r) lanes) (o_roots oo) && list_eqb N.eqb (o_sigs oo) sigs
          | None => false
          end &&
          N.leb 3 (life_ok_count outs)
     else true) &&
    (if fresh_roots then cfg_eqb (o_cfg oo) (o_cfg prev) else true) &&
    (if building && q_retry q then outcome_eqb oo prev else true) &&
    (match o_roots oo with [] => match o_sigs oo with [] => true | _ => false end | _ => true end).

  Definition life_rest_ok (enabled : bool) (prev : outcome) (d : cfg_detail) (dest : N) (offr : option N) (wcfg : rmn_cfg)
             (nodes : N) (tab : sig_table) (q : query) (rest : option (list obs1_out * list bool * option outcome)) : bool :=
    match rest with
    | Some (outs, valid, out) =>
        N.eqb (N.of_nat (length outs)) 4 &&
        forallb (life_obs1_ok enabled prev d dest offr wcfg nodes tab q) outs &&
        match out with None => true | Some oo => life_out_ok enabled prev d dest offr tab q outs oo end
    | None => false
    end.

  Lemma life_ok_split enabled max n prev d dest offr onr lead rs won woff wcfg wf co lidx conn ifail nodes tab
        lc lq lreq linit rest conn2 :
    life_ok (enabled, max, n, prev, d, dest, offr, onr, lead, rs, won, woff, wcfg, wf, co, (lidx, conn, ifail, nodes, tab))
            ((lc, lq, lreq, linit), rest, conn2) =
    (negb (N.eqb lc 2) && life_icall_ok enabled (cfg_is_empty (o_cfg prev)) d nodes linit &&
     list_eqb (life_conn_rule enabled (cfg_is_empty (o_cfg prev)) d) conn conn2 &&
     life_lead_ok enabled prev onr lead lq lreq &&
     match lq with Some q => life_rest_ok enabled prev d dest offr wcfg nodes tab q rest | None => true end)%bool.
  Proof. reflexivity. Qed.
End LifeDefs.

Section LifeSound.
  Lemma list_eqb_Forall2 {A} (e : A -> A -> bool) : forall l1 l2,
    list_eqb e l1 l2 = true -> Forall2 (fun a b => e a b = true) l1 l2.
  Proof.
    induction l1 as [|x l1 IH]; intros [|y l2] H; cbn [list_eqb] in H; try discriminate; [constructor|].
    apply andb_true_iff in H. destruct H as [H1 H2]. constructor; [exact H1|now apply IH].
  Qed.

  Lemma life_icall_sound enabled cfg_e d nodes ic :
    life_icall_ok enabled cfg_e d nodes ic = true ->
    forall dg nd, ic = Some (dg, nd) -> enabled = true /\ cfg_e = false /\ dg = cd_digest d /\ nd = nodes.
  Proof.
    intros H dg nd ->. cbn in H. rewrite !andb_true_iff, !N.eqb_eq, negb_true_iff in H. tauto.
  Qed.

  Lemma life_conn_sound enabled cfg_e d conn conn2 :
    list_eqb (life_conn_rule enabled cfg_e d) conn conn2 = true ->
    Forall2 (fun c c' => c' = c \/ (enabled = true /\ cfg_e = false /\ c' = cd_digest d)) conn conn2.
  Proof.
    intros H. apply list_eqb_Forall2 in H. induction H as [|c c' l l' R _ IH]; constructor; [|exact IH].
    unfold life_conn_rule in R. apply orb_true_iff in R. destruct R as [R|R].
    - left. now apply N.eqb_eq.
    - right. rewrite !andb_true_iff, N.eqb_eq, negb_true_iff in R. tauto.
  Qed.

  Lemma life_lead_sound enabled prev onr lead lq lreq :
    life_lead_ok enabled prev onr lead lq lreq = true ->
    forall ctrl q, lead = LHonest ctrl -> lq = Some q ->
      (q = mkQuery false None /\ lreq = None) \/
      (enabled = true /\ next_state (o_type prev) = Building /\
       exists reqs, lreq = Some (reqs, o_cfg prev) /\
                    query_requests (o_ranges prev) (fun k => alookup k onr) = Some reqs /\
       ((exists b, ctrl = CtrlSigs b /\ q = mkQuery false (Some b)) \/ (ctrl = CtrlTimeout /\ q = mkQuery true None))).
  Proof.
    intros H ctrl q -> ->. unfold life_lead_ok in H. cbv zeta in H.
    destruct lreq as [[reqs ccfg]|].
    - right. rewrite !andb_true_iff in H. destruct H as [[[[EN SB] CC] RQ] CT].
      apply state_eqb_iff in SB. apply reqs_eqb_iff in RQ. apply cfg_eqb_iff in CC. subst ccfg.
      split; [exact EN|]. split; [exact SB|]. exists reqs. split; [reflexivity|]. split; [exact RQ|].
      destruct ctrl as [b| |]; [left|right|discriminate].
      + exists b. split; [reflexivity|now apply query_eqb_iff].
      + split; [reflexivity|now apply query_eqb_iff].
    - left. split; [now apply query_eqb_iff|reflexivity].
  Qed.

  (* one oracle's answer that passes: the round theorems as in obs/chain, with the crypto oracle := toy_verify tab;
     every call made is expected_call on THIS round's previous outcome's config (the conclusion of
     C05_life_verified_against_agreed_config) *)
  Lemma life_obs1_sound enabled prev d dest offr wcfg nodes tab q oc call ob ic :
    life_obs1_ok enabled prev d dest offr wcfg nodes tab q (oc, call, ob, ic) = true ->
    let st := next_state (o_type prev) in
    let cfg_e := cfg_is_empty (o_cfg prev) in
    oc <> 2%N /\
    (forall dg nd, ic = Some (dg, nd) -> enabled = true /\ cfg_e = false /\ dg = cd_digest d /\ nd = nodes) /\
    (oc = 1%N -> obs_is_empty ob = true) /\
    (st = Building -> q_retry q = true -> obs_is_empty ob = true) /\
    (ob_roots ob <> [] -> st = Building /\ q_retry q = false) /\
    (forall c, call = Some c ->
       exists b offa, q_sigs q = Some b /\ offr = Some offa /\ expected_call d dest offa b = Some c) /\
    (enabled = true -> ob_roots ob <> [] -> exists c, call = Some c /\ toy_verify tab c = true) /\
    (enabled = true -> st = Building -> q_retry q = false -> oc = 0%N ->
       cfg_e = false /\ exists c, call = Some c /\ toy_verify tab c = true) /\
    (enabled = true -> st <> Building -> q_sigs q <> None -> oc = 1%N) /\
    (forall c, call = Some c -> toy_verify tab c = false -> oc = 1%N) /\
    (st = Selecting -> oc = 0%N -> ob_cfg ob = wcfg).
  Proof.
    intros H. cbv zeta. unfold life_obs1_ok in H. cbv zeta in H.
    rewrite !andb_true_iff in H.
    destruct H as [[[[[[[[[[H1 Hi] H2] H3] H4] H5] H6] H7] H8] H9] H10].
    assert (G3 : next_state (o_type prev) = Building -> q_retry q = true -> obs_is_empty ob = true).
    { intros SB R. rewrite SB, R in H3. exact H3. }
    assert (G4 : ob_roots ob <> [] -> next_state (o_type prev) = Building /\ q_retry q = false).
    { intros NR. destruct (state_eqb (next_state (o_type prev)) Building) eqn:SB.
      - apply state_eqb_iff in SB. split; [exact SB|]. destruct (q_retry q) eqn:R; [|reflexivity].
        exfalso. apply NR. apply obs_is_empty_roots. now apply G3.
      - exfalso. apply NR. now apply roots_nil_iff. }
    assert (G5 : forall c, call = Some c ->
              life_exp_call d dest offr q = Some c /\
              exists b offa, q_sigs q = Some b /\ offr = Some offa /\ expected_call d dest offa b = Some c).
    { intros c ->. apply (option_eqb_iff _ call_eqb_iff) in H5. split; [exact H5|].
      unfold life_exp_call in H5. destruct (q_sigs q) as [b|]; [|discriminate]. destruct offr as [offa|]; [|discriminate].
      exists b, offa. repeat split. exact H5. }
    assert (GV : forall c, call = Some c -> life_exp_valid tab d dest offr q = true -> toy_verify tab c = true).
    { intros c C V. destruct (G5 c C) as [E _]. unfold life_exp_valid in V. rewrite E in V. exact V. }
    refine (conj _ (conj (life_icall_sound _ _ _ _ _ Hi) (conj _ (conj G3 (conj G4 (conj _ (conj _ (conj _ (conj _ (conj _ _)))))))))).
    - apply negb_true_iff in H1. now apply N.eqb_neq.
    - intros ->. exact H2.
    - intros c C. exact (proj2 (G5 c C)).
    - intros -> NR. cbn [andb] in H6. apply roots_nil_false in NR. unfold roots_nil in H6. rewrite NR in H6.
      cbn [negb] in H6. apply andb_true_iff in H6. destruct H6 as [S V].
      destruct call as [c|]; [|discriminate]. exists c. split; [reflexivity|]. now apply GV.
    - intros -> SB R ->. rewrite SB, R in H7. cbn in H7. rewrite !andb_true_iff in H7. destruct H7 as [[S V] CE].
      apply negb_true_iff in CE. split; [exact CE|].
      destruct call as [c|]; [|discriminate]. exists c. split; [reflexivity|]. now apply GV.
    - intros -> SB B. apply state_eqb_false in SB. rewrite SB in H8. cbn [negb andb] in H8.
      apply is_some_iff in B. rewrite B in H8. now apply N.eqb_eq.
    - intros c -> V. rewrite V in H9. now apply N.eqb_eq.
    - intros SB ->. rewrite SB in H10. cbn in H10. now apply cfg_eqb_iff.
  Qed.

  (* the outcome of a round that passes: the conclusion of C05_life_roots_need_verified_bundle with the crypto oracle
     := toy_verify tab, plus what the premise quorum_sound of that theorem stands for (three oracles verified) *)
  Lemma life_out_sound enabled prev d dest offr tab q outs oo :
    life_out_ok enabled prev d dest offr tab q outs oo = true ->
    let st := next_state (o_type prev) in
    (enabled = true -> st = Building -> oo <> prev -> o_roots oo <> [] ->
       exists sigs lanes off,
         toy_verify tab (sigs, (cd_version d, dest, cd_contract d, off, cd_digest d, lanes), cd_signers d) = true /\
         (forall r, In r (o_roots oo) -> In r lanes) /\ o_sigs oo = sigs /\
         (3 <= life_ok_count outs)%N) /\
    (st = Building -> oo <> prev -> o_roots oo <> [] -> o_cfg oo = o_cfg prev) /\
    (st = Building -> q_retry q = true -> oo = prev) /\
    sigs_imply_roots oo.
  Proof.
    intros H. cbv zeta. unfold life_out_ok in H. cbv zeta in H.
    rewrite !andb_true_iff in H. destruct H as [[[K1 K2] K3] K4].
    assert (FR : next_state (o_type prev) = Building -> oo <> prev -> o_roots oo <> [] ->
                 (state_eqb (next_state (o_type prev)) Building && negb (outcome_eqb oo prev) && negb (roots_nil (o_roots oo)))%bool = true).
    { intros SB NE NR. apply state_eqb_iff in SB. rewrite SB.
      destruct (outcome_eqb oo prev) eqn:OE; [apply outcome_eqb_iff in OE; contradiction|].
      apply roots_nil_false in NR. unfold roots_nil. rewrite NR. reflexivity. }
    split; [|split; [|split]].
    - intros -> SB NE NR. rewrite (FR SB NE NR) in K1. cbn [andb] in K1.
      rewrite !andb_true_iff in K1. destruct K1 as [[V M] Q].
      unfold life_exp_valid in V.
      destruct (life_exp_call d dest offr q) as [[[sigs [[[[[v1 v2] v3] v4] v5] lanes]] sg]|] eqn:E; [|discriminate].
      unfold life_exp_call in E. destruct (q_sigs q) as [b|]; [|discriminate]. destruct offr as [offa|]; [|discriminate].
      destruct (expected_call_form _ _ _ _ _ E) as [sigs' [lanes' [PS [PL X]]]]. inversion X; subst.
      apply andb_true_iff in M. destruct M as [FA SG].
      exists sigs', lanes', offa. split; [exact V|]. split; [|split; [now apply listN_eqb_iff|now apply N.leb_le]].
      intros r Hr. rewrite forallb_forall in FA. apply signed_In. now apply FA.
    - intros SB NE NR. rewrite (FR SB NE NR) in K2. now apply cfg_eqb_iff.
    - intros SB R. rewrite SB, R in K3. now apply outcome_eqb_iff.
    - now apply sir_iff.
  Qed.
End LifeSound.

Section LifeModel.
  Lemma init_step_ok enabled cfg_e c d ifail nodes :
    life_icall_ok enabled cfg_e d nodes (fst (init_step enabled cfg_e c (cd_digest d) ifail nodes)) = true /\
    life_conn_rule enabled cfg_e d c (snd (init_step enabled cfg_e c (cd_digest d) ifail nodes)) = true.
  Proof.
    unfold init_step, life_conn_rule.
    destruct enabled; cbn [negb orb andb fst snd life_icall_ok]; [|rewrite N.eqb_refl; split; reflexivity].
    destruct cfg_e; cbn [negb orb andb fst snd life_icall_ok]; [rewrite N.eqb_refl; split; reflexivity|].
    destruct (N.eqb c (cd_digest d)); cbn [fst snd life_icall_ok]; [rewrite N.eqb_refl; split; reflexivity|].
    destruct (N.eqb ifail 1); cbn [fst snd life_icall_ok]; [rewrite N.eqb_refl; split; reflexivity|].
    destruct (N.eqb ifail 2); cbn [fst snd life_icall_ok andb negb]; rewrite !N.eqb_refl; cbn [andb];
      rewrite ?orb_true_r; split; reflexivity.
  Qed.

  Lemma cfg_eqb_refl c : cfg_eqb c c = true.
  Proof. now apply cfg_eqb_iff. Qed.

  (* one oracle of the model passes the per-oracle clauses, whatever its controller connection (init code) *)
  Lemma life_obs1_model enabled prev d dest offr nodes tab q w init ic :
    life_icall_ok enabled (cfg_is_empty (o_cfg prev)) d nodes ic = true ->
    let st := next_state (o_type prev) in
    let cfg_e := cfg_is_empty (o_cfg prev) in
    life_obs1_ok enabled prev d dest offr (w_cfg w) nodes tab q
      (res_code (fst (observation_full (toy_verify tab) enabled st cfg_e d dest init true offr q w)),
       call_of (verify_args enabled st cfg_e d dest init true offr q),
       snd (observation_full (toy_verify tab) enabled st cfg_e d dest init true offr q w), ic) = true.
  Proof.
    intros IC. cbv zeta.
    destruct (model_obs_clauses (toy_verify tab) enabled (next_state (o_type prev)) (cfg_is_empty (o_cfg prev)) d dest init true offr q w)
      as [M1 [M2 [M3 [M4 [M5 M6]]]]].
    destruct (obs_facts (toy_verify tab) enabled (next_state (o_type prev)) (cfg_is_empty (o_cfg prev)) d dest init true offr q w)
      as [F1 [_ [F3 [F4 [F5 [_ F7]]]]]].
    cbv zeta in *.
    set (r := fst (observation_full (toy_verify tab) enabled (next_state (o_type prev)) (cfg_is_empty (o_cfg prev)) d dest init true offr q w)) in *.
    set (o := snd (observation_full (toy_verify tab) enabled (next_state (o_type prev)) (cfg_is_empty (o_cfg prev)) d dest init true offr q w)) in *.
    set (call := call_of (verify_args enabled (next_state (o_type prev)) (cfg_is_empty (o_cfg prev)) d dest init true offr q)) in *.
    assert (EC : forall c, call = Some c -> life_exp_call d dest offr q = Some c).
    { intros c CL. destruct (F4 c CL) as [_ [_ [_ [_ [b [offa [B [O X]]]]]]]]. unfold life_exp_call. rewrite B, O. exact X. }
    assert (EV : forall c, call = Some c -> toy_verify tab c = true -> life_exp_valid tab d dest offr q = true).
    { intros c CL V. unfold life_exp_valid. rewrite (EC c CL). exact V. }
    unfold life_obs1_ok. cbv zeta. unfold roots_nil. rewrite M1, IC, M2, M3, M4. cbn [andb].
    rewrite !andb_true_iff. refine (conj (conj (conj (conj (conj _ _) _) _) _) _).
    - destruct call as [c|] eqn:CL; [|reflexivity]. rewrite (EC c eq_refl). apply call_eqb_iff. reflexivity.
    - destruct enabled; [|reflexivity]. cbn [andb].
      destruct (ob_roots o) as [|x xs] eqn:OR; [reflexivity|]. cbn [negb].
      destruct (M5 eq_refl) as [c [CL V]]; [discriminate|]. rewrite (EV c CL V), CL. reflexivity.
    - destruct enabled; [|reflexivity]. cbn [andb].
      destruct (state_eqb (next_state (o_type prev)) Building) eqn:SB; [|reflexivity]. cbn [andb].
      destruct (q_retry q) eqn:R; [reflexivity|]. cbn [negb andb].
      destruct (N.eqb_spec (res_code r) 0) as [C|C]; [|reflexivity].
      apply state_eqb_iff in SB.
      destruct (M6 eq_refl SB eq_refl C) as [b [offa [c [B [O [CE [CL [X V]]]]]]]].
      rewrite (EV c CL V), CL, CE. reflexivity.
    - destruct enabled; [|reflexivity]. cbn [andb].
      destruct (state_eqb (next_state (o_type prev)) Building) eqn:SB; [reflexivity|]. cbn [negb andb].
      destruct (q_sigs q) as [b|] eqn:B; [|reflexivity]. cbn [is_some].
      apply state_eqb_false in SB. rewrite (F7 eq_refl SB); [reflexivity|discriminate].
    - destruct call as [c|] eqn:CL; [|reflexivity]. rewrite (F5 c eq_refl).
      destruct (toy_verify tab c); reflexivity.
    - destruct (state_eqb (next_state (o_type prev)) Selecting) eqn:SS; [|reflexivity]. cbn [andb].
      destruct (N.eqb_spec (res_code r) 0) as [C|C]; [|reflexivity].
      apply state_eqb_iff in SS. rewrite (F3 C), SS. cbn [get_observation ob_cfg]. apply cfg_eqb_refl.
  Qed.
End LifeModel.

Section LifeModel2.
  Lemma oracle_obs_eq v enabled dest prev c d offr ifail nodes w q :
    oracle_obs v (fun _ => d) enabled dest prev c (mkREnv offr ifail nodes w) q =
    (observation_full v enabled (next_state (o_type prev)) (cfg_is_empty (o_cfg prev)) d dest
                      (init_code c (cd_digest d) ifail) true offr q w,
     call_of (verify_args enabled (next_state (o_type prev)) (cfg_is_empty (o_cfg prev)) d dest
                          (init_code c (cd_digest d) ifail) true offr q),
     fst (init_step enabled (cfg_is_empty (o_cfg prev)) c (cd_digest d) ifail nodes),
     snd (init_step enabled (cfg_is_empty (o_cfg prev)) c (cd_digest d) ifail nodes)).
  Proof.
    unfold oracle_obs, call_of. cbn [e_off e_ifail e_nodes e_world].
    destruct (init_step enabled (cfg_is_empty (o_cfg prev)) c (cd_digest d) ifail nodes). reflexivity.
  Qed.

  (* what life_model records of one oracle *)
  Definition life_h (enabled : bool) (dest : N) (prev : outcome) (d : cfg_detail) (offr : option N) (ifail nodes : N)
             (w : world) (tab : sig_table) (q : query) (c : N) : obs1_out :=
    let '((r, o), call, ic, _) := oracle_obs (toy_verify tab) (fun _ => d) enabled dest prev c (mkREnv offr ifail nodes w) q in
    (res_code r, call, o, ic).

  Lemma life_h_ok enabled dest prev d offr ifail nodes w tab q c :
    life_obs1_ok enabled prev d dest offr (w_cfg w) nodes tab q (life_h enabled dest prev d offr ifail nodes w tab q c) = true.
  Proof.
    unfold life_h. rewrite oracle_obs_eq.
    pose proof (life_obs1_model enabled prev d dest offr nodes tab q w (init_code c (cd_digest d) ifail)
                  (fst (init_step enabled (cfg_is_empty (o_cfg prev)) c (cd_digest d) ifail nodes))
                  (proj1 (init_step_ok enabled (cfg_is_empty (o_cfg prev)) c d ifail nodes))) as X.
    cbv zeta in X.
    destruct (observation_full (toy_verify tab) enabled (next_state (o_type prev)) (cfg_is_empty (o_cfg prev)) d dest
                (init_code c (cd_digest d) ifail) true offr q w) as [r o].
    exact X.
  Qed.

  Lemma life_h_code enabled dest prev d offr ifail nodes w tab q c :
    let '(oc, _, _, _) := life_h enabled dest prev d offr ifail nodes w tab q c in oc = 0%N \/ oc = 1%N.
  Proof.
    unfold life_h. rewrite oracle_obs_eq.
    destruct (obs_facts (toy_verify tab) enabled (next_state (o_type prev)) (cfg_is_empty (o_cfg prev)) d dest
                (init_code c (cd_digest d) ifail) true offr q w) as [F1 _]. cbv zeta in F1.
    destruct (observation_full (toy_verify tab) enabled (next_state (o_type prev)) (cfg_is_empty (o_cfg prev)) d dest
                (init_code c (cd_digest d) ifail) true offr q w) as [r o].
    exact F1.
  Qed.

  Lemma w_cfg_world_of prev rs onr won woff wcfg wf : w_cfg (world_of prev rs onr won woff wcfg wf) = wcfg.
  Proof. destruct rs as [[[sup ans] zero] tbl]. reflexivity. Qed.

  (* ---- the controller connections ---- *)
  Lemma conn_rule_iff enabled cfg_e d c c' :
    life_conn_rule enabled cfg_e d c c' = true <-> c' = c \/ (enabled = true /\ cfg_e = false /\ c' = cd_digest d).
  Proof.
    unfold life_conn_rule. rewrite orb_true_iff, !andb_true_iff, !N.eqb_eq, negb_true_iff. tauto.
  Qed.
  Lemma conn_rule_refl enabled cfg_e d c : life_conn_rule enabled cfg_e d c c = true.
  Proof. apply conn_rule_iff. left. reflexivity. Qed.
  Lemma conn_rule_trans enabled cfg_e d x y z :
    life_conn_rule enabled cfg_e d x y = true -> life_conn_rule enabled cfg_e d y z = true ->
    life_conn_rule enabled cfg_e d x z = true.
  Proof.
    rewrite !conn_rule_iff. intros [->|H1] [->|H2]; tauto.
  Qed.

  Lemma conn_map enabled cfg_e d (g : N -> N) :
    (forall c, life_conn_rule enabled cfg_e d c (g c) = true) ->
    forall l, list_eqb (life_conn_rule enabled cfg_e d) l (map g l) = true.
  Proof.
    intros G. induction l as [|c l IH]; [reflexivity|]. cbn [map list_eqb]. rewrite G, IH. reflexivity.
  Qed.

  Lemma conn_set_nth enabled cfg_e d (g : N -> N) :
    (forall c, life_conn_rule enabled cfg_e d c (g c) = true) ->
    forall l k x, life_conn_rule enabled cfg_e d (nth k l 0%N) x = true ->
      list_eqb (life_conn_rule enabled cfg_e d) l (map g (set_nth k x l)) = true.
  Proof.
    intros G. induction l as [|c l IH]; intros k x R; [destruct k; reflexivity|].
    destruct k as [|k]; cbn [set_nth map list_eqb nth] in *.
    - rewrite (conn_rule_trans _ _ _ _ _ _ R (G x)). cbn [andb]. now apply conn_map.
    - rewrite G. cbn [andb]. now apply IH.
  Qed.

  Lemma set_nth_length {A} (x : A) : forall l k, length (set_nth k x l) = length l.
  Proof.
    induction l as [|c l IH]; intros k; [destruct k; reflexivity|]. destruct k; cbn [set_nth length]; [reflexivity|].
    now rewrite IH.
  Qed.

  (* ---- the leader ---- *)
  Lemma leader_query_facts enabled prev cl d offr ifail nodes w onramp ctrl :
    exists init linit cl',
      leader_query (fun _ => d) enabled prev cl (mkREnv offr ifail nodes w) onramp ctrl =
      (query_model enabled (next_state (o_type prev)) (cfg_is_empty (o_cfg prev)) init offr (o_ranges prev) onramp ctrl, linit, cl') /\
      life_icall_ok enabled (cfg_is_empty (o_cfg prev)) d nodes linit = true /\
      life_conn_rule enabled (cfg_is_empty (o_cfg prev)) d cl cl' = true.
  Proof.
    unfold leader_query. cbn [e_off e_ifail e_nodes].
    destruct (enabled && state_eqb (next_state (o_type prev)) Building && negb (cfg_is_empty (o_cfg prev)))%bool.
    - destruct (init_step_ok enabled (cfg_is_empty (o_cfg prev)) cl d ifail nodes) as [I1 I2].
      destruct (init_step enabled (cfg_is_empty (o_cfg prev)) cl (cd_digest d) ifail nodes) as [icall conn'].
      exists (init_code cl (cd_digest d) ifail), icall, conn'. cbn [fst snd] in I1, I2. repeat split; assumption.
    - exists 0%N, None, cl. repeat split. apply conn_rule_refl.
  Qed.

  (* ---- the outcome ---- *)
  Lemma build_report_cfg q c prev : o_roots (build_report q c prev) <> [] -> o_cfg (build_report q c prev) = o_cfg prev.
  Proof.
    unfold build_report.
    assert (F : forall roots sg, o_roots (finish_report prev roots sg) <> [] -> o_cfg (finish_report prev roots sg) = o_cfg prev).
    { intros roots sg. destruct roots; cbn; [congruence|reflexivity]. }
    destruct (q_sigs q) as [b|]; [|now apply F].
    destruct (parse_sigs (b_sigs b)); [|intros NR; exfalso; apply NR; reflexivity].
    destruct (parse_lanes (b_lanes b)); [|intros NR; exfalso; apply NR; reflexivity]. now apply F.
  Qed.

  Lemma count_ge3_In {A} (l : list A) : (3 <= N.of_nat (length l))%N -> exists x, In x l.
  Proof. destruct l as [|x l]; cbn [length]; [lia|]. intros _. exists x. left. reflexivity. Qed.

  Lemma life_out_model enabled max n prev d dest offr wcfg nodes tab q co outs :
    forallb (life_obs1_ok enabled prev d dest offr wcfg nodes tab q) outs = true ->
    sigs_imply_roots prev ->
    (enabled = true -> get_outcome max n prev q co <> prev -> o_roots (get_outcome max n prev q co) <> [] ->
     (3 <= life_ok_count outs)%N) ->
    life_out_ok enabled prev d dest offr tab q outs (get_outcome max n prev q co) = true.
  Proof.
    intros FA SP QS. set (oo := get_outcome max n prev q co) in *.
    unfold life_out_ok. cbv zeta. unfold roots_nil.
    rewrite !andb_true_iff. refine (conj (conj (conj _ _) _) _).
    - destruct enabled; [|reflexivity]. cbn [andb].
      destruct (state_eqb (next_state (o_type prev)) Building) eqn:SB; [|reflexivity]. cbn [andb].
      destruct (outcome_eqb oo prev) eqn:OE; [reflexivity|]. cbn [negb andb].
      destruct (o_roots oo) as [|x xs] eqn:OR; [reflexivity|]. cbn [negb].
      assert (NE : oo <> prev). { intros E. rewrite E, outcome_eqb_refl in OE. discriminate. }
      assert (NR : o_roots oo <> []) by (rewrite OR; discriminate).
      assert (Q3 : (3 <= life_ok_count outs)%N) by (apply QS; [reflexivity|exact NE|discriminate]).
      destruct (get_outcome_fresh_roots max n prev q co NE NR) as [ST [R [c [CO GO]]]]. fold oo in GO.
      unfold life_ok_count in Q3. destruct (count_ge3_In _ Q3) as [[[[oc call] ob] ic] IX].
      apply filter_In in IX. destruct IX as [IX PX]. apply andb_true_iff in PX. destruct PX as [C0 CS].
      apply N.eqb_eq in C0. subst oc.
      rewrite forallb_forall in FA. pose proof (life_obs1_sound _ _ _ _ _ _ _ _ _ _ _ _ _ (FA _ IX)) as S.
      cbv zeta in S. destruct S as [_ [_ [_ [_ [_ [S5 [_ [_ [_ [S9 _]]]]]]]]]].
      destruct call as [cl|]; [|discriminate].
      destruct (S5 cl eq_refl) as [b [offa [B [O X]]]].
      assert (V : toy_verify tab cl = true).
      { destruct (toy_verify tab cl) eqn:V; [reflexivity|]. pose proof (S9 cl eq_refl V) as Z. discriminate Z. }
      assert (EC : life_exp_call d dest offr q = Some cl) by (unfold life_exp_call; rewrite B, O; exact X).
      unfold life_exp_valid. rewrite EC, V. cbn [andb].
      destruct (expected_call_form _ _ _ _ _ X) as [sigs [lanes [PS [PL E]]]]. subst cl.
      rewrite (proj2 (N.leb_le 3 (life_ok_count outs)) Q3), andb_true_r.
      destruct (roots_signed q c prev b B) as [[E _]|[sigs' [lanes' [PS' [PL' [K [K1 _]]]]]]].
      + exfalso. apply NR. rewrite GO, E. reflexivity.
      + assert (sigs' = sigs) by congruence. assert (lanes' = lanes) by congruence. subst sigs' lanes'.
        rewrite <- GO in K, K1. apply andb_true_iff. split.
        * apply forallb_forall. intros y Hy. apply signed_In. apply K. rewrite OR. exact Hy.
        * destruct (K1 NR) as [S _]. now apply listN_eqb_iff.
    - destruct (state_eqb (next_state (o_type prev)) Building) eqn:SB; [|reflexivity]. cbn [andb].
      destruct (outcome_eqb oo prev) eqn:OE; [reflexivity|]. cbn [negb andb].
      destruct (o_roots oo) as [|x xs] eqn:OR; [reflexivity|]. cbn [negb].
      assert (NE : oo <> prev). { intros E. rewrite E, outcome_eqb_refl in OE. discriminate. }
      assert (NR : o_roots oo <> []) by (rewrite OR; discriminate).
      destruct (get_outcome_fresh_roots max n prev q co NE NR) as [ST [R [c [CO GO]]]]. fold oo in GO.
      apply cfg_eqb_iff. rewrite GO. apply build_report_cfg. rewrite <- GO. exact NR.
    - destruct (state_eqb (next_state (o_type prev)) Building) eqn:SB; [|reflexivity].
      destruct (q_retry q) eqn:R; [|reflexivity]. cbn [andb]. apply state_eqb_iff in SB.
      unfold oo. rewrite (get_outcome_retry max n prev q co SB R). apply outcome_eqb_refl.
    - apply sir_iff. unfold oo. now apply no_sigs_without_roots.
  Qed.
End LifeModel2.

Section LifeFinal.
  (* life_model after the leader's step (copied from Check/C05_check.v; life_model_eq checks the copy by conversion) *)
  Definition life_tail (enabled : bool) (max n : N) (prev : outcome) (d : cfg_detail) (dest : N)
             (offr : option N) (ifail nodes : N) (w : world) (tab : sig_table) (co : option cons) (lidx : N) (conn : list N)
             (qr : res query) (reqs : option (list lane_req)) (linit : option init_call) (cl' : N) : life_out :=
    let e := mkREnv offr ifail nodes w in
    let detail_of := fun _ : rmn_cfg => d in
    let conn1 := set_nth (N.to_nat lidx) cl' conn in
    let reqs' := option_map (fun r => (r, o_cfg prev)) reqs in
    match qr with
    | Ok q =>
        let per := map (fun c => oracle_obs (toy_verify tab) detail_of enabled dest prev c e q) conn1 in
        let outs := map (fun x => let '((r, o), call, ic, _) := x in (res_code r, call, o, ic)) per in
        let vs := map (fun x => let '((_, o), _, _, _) := x in validate_retry q o) per in
        let conn2 := map (fun x => let '(_, _, _, c') := x in c') per in
        ((0%N, Some q, reqs', linit),
         Some (outs, vs, if N.leb 3 (count_true vs) then Some (get_outcome max n prev q co) else None), conn2)
    | _ => ((1%N, None, reqs', linit), None, conn1)
    end.

  Lemma life_model_eq enabled max n prev d dest offr onr lead rs won woff wcfg wf co lidx conn ifail nodes tab :
    life_model (enabled, max, n, prev, d, dest, offr, onr, lead, rs, won, woff, wcfg, wf, co, (lidx, conn, ifail, nodes, tab)) =
    let w := world_of prev rs onr won woff wcfg wf in
    let cl := nth (N.to_nat lidx) conn 0%N in
    let '(qr, reqs, linit, cl') :=
        match lead with
        | LHonest ctrl => leader_query (fun _ : rmn_cfg => d) enabled prev cl (mkREnv offr ifail nodes w) (fun k => alookup k onr) ctrl
        | LByz q => (Ok q, None, None, cl)
        end in
    life_tail enabled max n prev d dest offr ifail nodes w tab co lidx conn qr reqs linit cl'.
  Proof. reflexivity. Qed.

  Definition outs_of (o : life_out) : list obs1_out :=
    match o with (_, Some (outs, _, _), _) => outs | _ => [] end.

  Lemma conn_set_nth_id enabled cfg_e d l k x :
    life_conn_rule enabled cfg_e d (nth k l 0%N) x = true ->
    list_eqb (life_conn_rule enabled cfg_e d) l (set_nth k x l) = true.
  Proof.
    intros R. pose proof (conn_set_nth enabled cfg_e d (fun c => c) (conn_rule_refl enabled cfg_e d) l k x R) as H.
    rewrite map_id in H. exact H.
  Qed.

  Lemma life_tail_ok enabled max n prev d dest offr onr lead rs won woff wcfg wf co lidx conn ifail nodes tab w qr reqs linit cl' :
    w_cfg w = wcfg -> length conn = 4%nat -> sigs_imply_roots prev ->
    life_icall_ok enabled (cfg_is_empty (o_cfg prev)) d nodes linit = true ->
    life_conn_rule enabled (cfg_is_empty (o_cfg prev)) d (nth (N.to_nat lidx) conn 0%N) cl' = true ->
    (forall q, qr = Ok q -> life_lead_ok enabled prev onr lead (Some q) (option_map (fun r => (r, o_cfg prev)) reqs) = true) ->
    (enabled = true -> forall c, co = Some c -> c_roots c <> [] ->
       (3 <= life_ok_count (outs_of (life_tail enabled max n prev d dest offr ifail nodes w tab co lidx conn qr reqs linit cl')))%N) ->
    life_ok (enabled, max, n, prev, d, dest, offr, onr, lead, rs, won, woff, wcfg, wf, co, (lidx, conn, ifail, nodes, tab))
            (life_tail enabled max n prev d dest offr ifail nodes w tab co lidx conn qr reqs linit cl') = true.
  Proof.
    intros WC LEN SP IC CR LD QS. unfold life_tail in *. cbv zeta in *.
    set (conn1 := set_nth (N.to_nat lidx) cl' conn) in *.
    destruct qr as [q| | |].
    - set (per := map (fun c => oracle_obs (toy_verify tab) (fun _ : rmn_cfg => d) enabled dest prev c (mkREnv offr ifail nodes w) q) conn1) in *.
      assert (EO : map (fun x : res unit * obs * option verify_call * option init_call * N =>
                          let '((r, o), call, ic, _) := x in (res_code r, call, o, ic)) per
                   = map (life_h enabled dest prev d offr ifail nodes w tab q) conn1).
      { unfold per. rewrite map_map. reflexivity. }
      assert (EC : map (fun x : res unit * obs * option verify_call * option init_call * N => let '(_, _, _, c') := x in c') per
                   = map (fun c => snd (init_step enabled (cfg_is_empty (o_cfg prev)) c (cd_digest d) ifail nodes)) conn1).
      { unfold per. rewrite map_map. apply map_ext. intros c. rewrite oracle_obs_eq. reflexivity. }
      rewrite EO in *. rewrite EC.
      set (vs := map (fun x : res unit * obs * option verify_call * option init_call * N =>
                        let '((_, o), _, _, _) := x in validate_retry q o) per) in *.
      cbn [outs_of] in QS.
      set (outs := map (life_h enabled dest prev d offr ifail nodes w tab q) conn1) in *.
      assert (FA : forallb (life_obs1_ok enabled prev d dest offr wcfg nodes tab q) outs = true).
      { apply forallb_forall. intros x Hx. unfold outs in Hx. apply in_map_iff in Hx. destruct Hx as [c [<- _]].
        rewrite <- WC. apply life_h_ok. }
      rewrite life_ok_split. rewrite IC, (LD q eq_refl). cbn [N.eqb negb andb]. rewrite andb_true_r.
      apply andb_true_iff. split.
      + unfold conn1. apply conn_set_nth; [|exact CR].
        intros c. exact (proj2 (init_step_ok enabled (cfg_is_empty (o_cfg prev)) c d ifail nodes)).
      + unfold life_rest_ok. rewrite FA.
        assert (L4 : N.eqb (N.of_nat (length outs)) 4 = true).
        { unfold outs, conn1. rewrite map_length, set_nth_length, LEN. reflexivity. }
        rewrite L4. cbn [andb].
        destruct (N.leb 3 (count_true vs)); [|reflexivity].
        apply life_out_model with (wcfg := wcfg) (nodes := nodes); [exact FA|exact SP|].
        intros EN NE NR.
        destruct (get_outcome_fresh_roots max n prev q co NE NR) as [_ [_ [c [CO GO]]]].
        apply (QS EN c CO). intros CE. apply NR. rewrite GO.
        destruct (o_roots (build_report q c prev)) as [|y ys] eqn:BR; [reflexivity|].
        assert (I : In y (c_roots c)) by (apply (build_report_roots_agreed q c prev); rewrite BR; left; reflexivity).
        rewrite CE in I. contradiction.
    - rewrite life_ok_split. rewrite IC. cbn [N.eqb negb andb]. rewrite andb_true_r.
      apply andb_true_iff. split; [now apply conn_set_nth_id|destruct lead; reflexivity].
    - rewrite life_ok_split. rewrite IC. cbn [N.eqb negb andb]. rewrite andb_true_r.
      apply andb_true_iff. split; [now apply conn_set_nth_id|destruct lead; reflexivity].
    - rewrite life_ok_split. rewrite IC. cbn [N.eqb negb andb]. rewrite andb_true_r.
      apply andb_true_iff. split; [now apply conn_set_nth_id|destruct lead; reflexivity].
  Qed.

  (* the premises of life_model_passes, as functions of the case *)
  Definition life_conn (i : life_in) : list N :=
    let '(enabled, max, n, prev, d, dest, offr, onr, lead, rs, won, woff, wcfg, wf, co, (lidx, conn, ifail, nodes, tab)) := i in conn.
  Definition life_prev (i : life_in) : outcome :=
    let '(enabled, max, n, prev, d, dest, offr, onr, lead, rs, won, woff, wcfg, wf, co, x) := i in prev.
  (* quorum soundness of a case (what the premise quorum_sound of C05_life_roots_need_verified_bundle stands for):
     with RMN enabled, roots are agreed (2*fChain+1 = 3 equal observations of the four oracles) only when three oracles
     of the model's round verified the bundle and observed *)
  Definition life_quorum_sound (i : life_in) : Prop :=
    let '(enabled, max, n, prev, d, dest, offr, onr, lead, rs, won, woff, wcfg, wf, co, x) := i in
    enabled = true -> forall c, co = Some c -> c_roots c <> [] -> (3 <= life_ok_count (outs_of (life_model i)))%N.

  Lemma life_model_passes : forall i,
    length (life_conn i) = 4%nat -> sigs_imply_roots (life_prev i) -> life_quorum_sound i ->
    life_ok i (life_model i) = true.
  Proof.
    intros [[[[[[[[[[[[[[[enabled max] n] prev] d] dest] offr] onr] lead] rs] won] woff] wcfg] wf] co] [[[[lidx conn] ifail] nodes] tab]].
    unfold life_conn, life_prev, life_quorum_sound. intros LEN SP QS.
    rewrite life_model_eq in *. cbv zeta in *.
    pose proof (w_cfg_world_of prev rs onr won woff wcfg wf) as WC.
    set (w := world_of prev rs onr won woff wcfg wf) in *.
    set (cl := nth (N.to_nat lidx) conn 0%N) in *.
    destruct lead as [ctrl|qb].
    - destruct (leader_query_facts enabled prev cl d offr ifail nodes w (fun k => alookup k onr) ctrl)
        as [init [linit [cl' [EQ [I1 I2]]]]].
      rewrite EQ in *.
      destruct (query_model enabled (next_state (o_type prev)) (cfg_is_empty (o_cfg prev)) init offr (o_ranges prev)
                            (fun k => alookup k onr) ctrl) as [qr reqs] eqn:QM.
      apply life_tail_ok; try assumption.
      intros q ->. unfold life_lead_ok. cbv zeta.
      destruct (query_model_cases _ _ _ _ _ _ _ _ _ _ QM) as [[-> [-> _]]|[EN [ST [_ [RQ [NN CT]]]]]].
      + apply query_eqb_refl.
      + destruct reqs as [reqs|]; [|congruence]. cbn [option_map]. rewrite EN, ST, RQ. cbn [state_eqb andb].
        rewrite cfg_eqb_refl, (proj2 (reqs_eqb_iff (Some reqs) (Some reqs)) eq_refl). cbn [andb].
        destruct CT as [[b [-> ->]]|[-> ->]]; apply query_eqb_refl.
    - apply life_tail_ok; try assumption; try reflexivity. apply conn_rule_refl.
  Qed.
End LifeFinal.

Section LifeSoundFinal.
  (* a round of the long-lived processors that passes the judge. The crypto oracle of this part is toy_verify tab.
     Per oracle: the conclusion of C05_life_verified_against_agreed_config (every call is expected_call on THIS round's
     previous outcome's config, destination, off-ramp and the bundle) and the observation theorems; for the outcome: the
     conclusion of C05_life_roots_need_verified_bundle, and three oracles that verified (its premise quorum_sound).
     Not covered: as in chain for the leader clause; "In r (c_roots c)" for the reported roots. *)
  Lemma life_sound : forall enabled max n prev d dest offr onr lead rs won woff wcfg wf co lidx conn ifail nodes tab
                            lc lq lreq linit rest conn2,
    life_ok (enabled, max, n, prev, d, dest, offr, onr, lead, rs, won, woff, wcfg, wf, co, (lidx, conn, ifail, nodes, tab))
            ((lc, lq, lreq, linit), rest, conn2) = true ->
    let st := next_state (o_type prev) in
    let cfg_e := cfg_is_empty (o_cfg prev) in
    lc <> 2%N /\
    (forall dg nd, linit = Some (dg, nd) -> enabled = true /\ cfg_e = false /\ dg = cd_digest d /\ nd = nodes) /\
    Forall2 (fun c c' => c' = c \/ (enabled = true /\ cfg_e = false /\ c' = cd_digest d)) conn conn2 /\
    (forall ctrl q, lead = LHonest ctrl -> lq = Some q ->
       (q = mkQuery false None /\ lreq = None) \/
       (enabled = true /\ st = Building /\
        exists reqs, lreq = Some (reqs, o_cfg prev) /\
                     query_requests (o_ranges prev) (fun k => alookup k onr) = Some reqs /\
        ((exists b, ctrl = CtrlSigs b /\ q = mkQuery false (Some b)) \/ (ctrl = CtrlTimeout /\ q = mkQuery true None)))) /\
    (forall q, lq = Some q ->
       exists outs valid out, rest = Some (outs, valid, out) /\ length outs = 4%nat /\
         (forall oc call ob ic, In (oc, call, ob, ic) outs ->
            oc <> 2%N /\
            (forall dg nd, ic = Some (dg, nd) -> enabled = true /\ cfg_e = false /\ dg = cd_digest d /\ nd = nodes) /\
            (oc = 1%N -> obs_is_empty ob = true) /\
            (st = Building -> q_retry q = true -> obs_is_empty ob = true) /\
            (ob_roots ob <> [] -> st = Building /\ q_retry q = false) /\
            (forall c, call = Some c ->
               exists b offa, q_sigs q = Some b /\ offr = Some offa /\ expected_call d dest offa b = Some c) /\
            (enabled = true -> ob_roots ob <> [] -> exists c, call = Some c /\ toy_verify tab c = true) /\
            (enabled = true -> st = Building -> q_retry q = false -> oc = 0%N ->
               cfg_e = false /\ exists c, call = Some c /\ toy_verify tab c = true) /\
            (enabled = true -> st <> Building -> q_sigs q <> None -> oc = 1%N) /\
            (forall c, call = Some c -> toy_verify tab c = false -> oc = 1%N) /\
            (st = Selecting -> oc = 0%N -> ob_cfg ob = wcfg)) /\
         (forall oo, out = Some oo ->
            (enabled = true -> st = Building -> oo <> prev -> o_roots oo <> [] ->
               exists sigs lanes off,
                 toy_verify tab (sigs, (cd_version d, dest, cd_contract d, off, cd_digest d, lanes), cd_signers d) = true /\
                 (forall r, In r (o_roots oo) -> In r lanes) /\ o_sigs oo = sigs /\
                 (3 <= life_ok_count outs)%N) /\
            (st = Building -> oo <> prev -> o_roots oo <> [] -> o_cfg oo = o_cfg prev) /\
            (st = Building -> q_retry q = true -> oo = prev) /\
            sigs_imply_roots oo)).
  Proof.
    intros enabled max n prev d dest offr onr lead rs won woff wcfg wf co lidx conn ifail nodes tab
           lc lq lreq linit rest conn2 H. cbv zeta.
    rewrite life_ok_split in H. rewrite !andb_true_iff in H. destruct H as [[[[H1 H2] H3] H4] H5].
    refine (conj _ (conj (life_icall_sound _ _ _ _ _ H2) (conj (life_conn_sound _ _ _ _ _ H3)
             (conj (life_lead_sound _ _ _ _ _ _ H4) _)))).
    - apply negb_true_iff in H1. now apply N.eqb_neq.
    - intros q ->. destruct rest as [[[outs valid] out]|]; [|discriminate].
      unfold life_rest_ok in H5. rewrite !andb_true_iff in H5. destruct H5 as [[L4 FA] HO].
      exists outs, valid, out. split; [reflexivity|]. split; [|split].
      + apply N.eqb_eq in L4. lia.
      + intros oc call ob ic IX. rewrite forallb_forall in FA.
        exact (life_obs1_sound _ _ _ _ _ _ _ _ _ _ _ _ _ (FA _ IX)).
      + intros oo ->. exact (life_out_sound _ _ _ _ _ _ _ _ _ HO).
  Qed.

  (* satisfiable and non-trivial: RMN on, building round, four connected oracles, a Byzantine leader's bundle over the
     agreed root signed by a current key over the right report: all four verify, the outcome reports the root *)
  Definition l_tab : sig_table := [(11, (1, Some (5, 900, 3, 7, 4, [w_root])))]%N.
  Definition l_in : life_in :=
    (true, 3, 256, w_prev, w_detail, 900, Some 7, [(1, 8)], LByz w_query, (None, [], 0, []), [], [], (4, 1), true,
     Some (mkCons [w_root] [] [] cfg_empty), (0, [4; 4; 4; 4], 0, 77, l_tab))%N.
  Example life_ok_nonvacuous :
    life_ok l_in (life_model l_in) = true /\
    (exists outs valid oo, snd (fst (life_model l_in)) = Some (outs, valid, Some oo) /\ o_roots oo = [w_root] /\
                           life_ok_count outs = 4%N).
  Proof.
    split; [vm_compute; reflexivity|]. vm_compute. do 3 eexists. split; [reflexivity|]. split; reflexivity.
  Qed.
  (* the premises of life_model_passes hold of it *)
  Example life_premises_nonvacuous :
    length (life_conn l_in) = 4%nat /\ sigs_imply_roots (life_prev l_in) /\ life_quorum_sound l_in.
  Proof.
    split; [reflexivity|]. split; [intros _; reflexivity|]. unfold life_quorum_sound, l_in. intros _ c _ _.
    vm_compute. discriminate.
  Qed.
  (* ... and the premises of chain_model_passes of the chain witness *)
  Example chain_premises_nonvacuous : chain_quorum_sound w_in /\ sigs_imply_roots (chain_prev w_in).
  Proof.
    split; [|intros _; reflexivity]. unfold chain_quorum_sound, w_in. intros q c Q RN _. exfalso. apply RN.
    cbn in Q. inversion Q; subst q. vm_compute. reflexivity.
  Qed.
End LifeSoundFinal.

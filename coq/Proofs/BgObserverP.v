(* BgObserverP.v — lemmas and theorems about Model/BgObserver.v (property C19). *)
Require Import Verif.Model.Base Verif.Proofs.BaseP Verif.Model.BgObserver.
From Coq Require Import ZifyN ZifyNat ZifyBool.

Definition qid (p : msg * N) : N := m_id (fst p).
Definition key_of_msg (m : msg) : N * N := (m_chain m, m_seq m).
Definition key_of_ent (e : N * N * tdata) : N * N := fst e.

(* ---------- remove_first ---------- *)
Lemma remove_first_perm {A} (f : A -> bool) l x :
  find f l = Some x -> Permutation l (x :: remove_first f l) /\ f x = true.
Proof.
  induction l as [|y l IH]; cbn [find remove_first]; [discriminate|].
  destruct (f y) eqn:E.
  - intros H; inversion H; subst. split; [reflexivity|exact E].
  - intros H. destruct (IH H) as [P Hx]. split; [|exact Hx].
    etransitivity; [apply perm_skip, P|apply perm_swap].
Qed.

Lemma remove_first_eqb_perm l x : In x l -> Permutation l (x :: remove_first (N.eqb x) l).
Proof.
  induction l as [|y l IH]; cbn [In remove_first]; [tauto|].
  destruct (N.eqb_spec x y) as [->|Hne]; [reflexivity|].
  intros [H|H]; [congruence|]. etransitivity; [apply perm_skip, IH, H|apply perm_swap].
Qed.

Lemma remove_first_length {A} (f : A -> bool) l x :
  find f l = Some x -> S (length (remove_first f l)) = length l.
Proof. intros H. destruct (remove_first_perm f l x H) as [P _]. apply Permutation_length in P. cbn in P. lia. Qed.

Lemma find_qid_in q id p : find (fun p => N.eqb (qid p) id) q = Some p -> In id (map qid q) /\ qid p = id.
Proof.
  intros H. apply find_some in H. destruct H as [Hin He]. apply N.eqb_eq in He.
  split; [|exact He]. rewrite <- He. now apply in_map.
Qed.

Section BgP.
  Variable ttl : N.
  Variable chk : bool.     (* get checks expiry *)
  Variable W : N.          (* number of workers *)

  Notation obs_loop := (observe_loop chk true).
  Notation obs := (observe chk true).
  Notation step := (bstep ttl chk true).

  (* ---------- the invariant ---------- *)
  Definition inv_ids (st : bst) : Prop := NoDup (ids st) /\ Permutation (ids st) (map qid (queue st)).
  Definition inv_sig (st : bst) : Prop :=
    (signals st <= N.of_nat (length (queue st)))%N /\
    (closed st = false -> signals st = N.of_nat (length (queue st))).
  Definition inv_cache (st : bst) : Prop := Forall (fun kv => sup_ready (fst (snd kv)) = true) (cache st).
  Definition inv_workers (st : bst) : Prop :=
    (idle st + N.of_nat (length (inflight st)) + stopped st = W)%N /\ (closed st = false -> stopped st = 0%N).
  Definition binv (st : bst) : Prop := inv_ids st /\ inv_sig st /\ inv_cache st /\ inv_workers st.

  Lemma binv_init : binv (binit W).
  Proof.
    unfold binv, inv_ids, inv_sig, inv_cache, inv_workers, binit. cbn.
    repeat split; try constructor; try lia; auto.
  Qed.

  (* ---------- Observe ---------- *)
  Definition ent_ok (st : bst) (now : N) (m : msg) (e : N * N * tdata) : Prop :=
    key_of_ent e = key_of_msg m /\
    (snd e = initial_td m \/
     exists exp, alookup (m_id m) (cache st) = Some (snd e, exp) /\ sup_ready (snd e) = true /\
                 (chk = true -> (now <= exp)%N)).

  Lemma cache_get_some st now id d :
    cache_get chk now (cache st) id = Some d ->
    exists exp, alookup id (cache st) = Some (d, exp) /\ (chk = true -> (now <= exp)%N).
  Proof.
    unfold cache_get, expired. destruct (alookup id (cache st)) as [[d' exp]|]; [|discriminate].
    destruct chk; cbn [andb].
    - destruct (N.ltb_spec exp now) as [Hlt|Hge]; [discriminate|]. intros H; inversion H; subst. exists exp. split; [reflexivity|intros _; lia].
    - intros H; inversion H; subst. exists exp. split; [reflexivity|discriminate].
  Qed.

  Ltac conj_step :=
    repeat match goal with
           | |- binv _ /\ _ => split; [assumption|]
           | |- _ = _ /\ _ => split; [first [assumption|reflexivity]|]
           | |- _ <> _ /\ _ => split; [first [assumption|discriminate]|]
           end.

  Lemma obs_loop_spec now ms : forall st acc st' r,
    obs_loop st ms now acc = (st', r) -> binv st ->
    binv st' /\ closed st' = closed st /\ cache st' = cache st /\ epoch st' = epoch st /\
    idle st' = idle st /\ inflight st' = inflight st /\ stopped st' = stopped st /\
    r <> Blocked /\ r <> ObsErr /\
    (forall res, r = Done res -> exists tail, res = rev acc ++ tail /\ Forall2 (ent_ok st now) ms tail).
  Proof.
    induction ms as [|m ms IH]; intros st acc st' r H Hinv; cbn [observe_loop] in H.
    - inversion H; subst. conj_step.
      intros res Hr; inversion Hr; subst. exists []. rewrite app_nil_r. split; [reflexivity|constructor].
    - destruct (cache_get chk now (cache st) (m_id m)) as [d|] eqn:Hg.
      + destruct (cache_get_some _ _ _ _ Hg) as [exp [Hl Hexp]].
        assert (Hsr : sup_ready d = true).
        { destruct Hinv as (_ & _ & Hc & _). unfold inv_cache in Hc. rewrite Forall_forall in Hc.
          apply alookup_In in Hl. exact (Hc _ Hl). }
        rewrite Hsr in H. destruct (IH _ _ _ _ H Hinv) as (I & C & Ca & Ep & Id & Inf & Stp & NB & NE & R).
        conj_step.
        intros res Hr. destruct (R res Hr) as [tail [Hres Hf]]. cbn [rev] in Hres. rewrite <- app_assoc in Hres.
        exists ((m_chain m, m_seq m, d) :: tail). split; [exact Hres|]. constructor; [|exact Hf].
        split; [reflexivity|]. right. exists exp. cbn [snd]. auto.
      + destruct (memN (m_id m) (ids st)) eqn:Hmem.
        * destruct (IH _ _ _ _ H Hinv) as (I & C & Ca & Ep & Id & Inf & Stp & NB & NE & R).
          conj_step.
          intros res Hr. destruct (R res Hr) as [tail [Hres Hf]]. cbn [rev] in Hres. rewrite <- app_assoc in Hres.
          exists ((m_chain m, m_seq m, initial_td m) :: tail). split; [exact Hres|]. constructor; [|exact Hf].
          split; [reflexivity|]. now left.
        * match type of H with obs_loop ?s _ _ _ = _ => set (st2 := s) in H end.
          assert (Hinv2 : binv st2).
          { destruct Hinv as ((ND & P) & (S1 & S2) & Hc & (Wk & St)).
            assert (Hnin : ~ In (m_id m) (ids st)).
            { intros Hin. apply memN_In in Hin. congruence. }
            unfold binv, inv_ids, inv_sig, inv_cache, inv_workers, st2. cbn [queue ids cache idle inflight stopped signals closed].
            repeat split; try assumption.
            - constructor; assumption.
            - rewrite map_app. cbn [map]. unfold qid at 2. cbn [fst].
              etransitivity; [apply perm_skip, P|apply Permutation_cons_append].
            - rewrite app_length. cbn [length]. lia.
            - intros Hcl. rewrite app_length. cbn [length]. specialize (S2 Hcl). lia. }
          destruct (IH _ _ _ _ H Hinv2) as (I & C & Ca & Ep & Id & Inf & Stp & NB & NE & R).
          conj_step.
          intros res Hr. destruct (R res Hr) as [tail [Hres Hf]]. cbn [rev] in Hres. rewrite <- app_assoc in Hres.
          exists ((m_chain m, m_seq m, initial_td m) :: tail). split; [exact Hres|]. constructor.
          -- split; [reflexivity|]. now left.
          -- exact Hf.
  Qed.

  Lemma observe_spec st ms now st' r :
    obs st ms now = (st', r) -> binv st ->
    binv st' /\ closed st' = closed st /\ cache st' = cache st /\
    idle st' = idle st /\ inflight st' = inflight st /\ stopped st' = stopped st /\
    r <> Blocked /\ r <> ObsErr /\
    (forall res, r = Done res -> Forall2 (ent_ok st now) ms res).
  Proof.
    unfold observe. intros H Hinv.
    match type of H with obs_loop ?s _ _ _ = _ => assert (Hinv0 : binv s) by exact Hinv end.
    destruct (obs_loop_spec _ _ _ _ _ _ H Hinv0) as (I & C & Ca & _ & Id & Inf & Stp & NB & NE & R).
    conj_step. intros res Hr. destruct (R res Hr) as [tail [Hres Hf]]. cbn [rev app] in Hres. subst tail. exact Hf.
  Qed.

  Lemma remove_first_len_in l id : In id l -> S (length (remove_first (N.eqb id) l)) = length l.
  Proof. intros H. apply remove_first_eqb_perm in H. apply Permutation_length in H. cbn in H. lia. Qed.

  Lemma Forall_filter {A} (Pp : A -> Prop) f l : Forall Pp l -> Forall Pp (filter f l).
  Proof. rewrite !Forall_forall. intros H x Hx. apply filter_In in Hx. now apply H. Qed.

  Lemma step_inv st e : binv st -> binv (fst (step st e)).
  Proof.
    intros Hinv. destruct e as [ms now|id|id r now|now| | | | |]; cbn [bstep].
    - destruct (obs st ms now) as [st' r] eqn:E. cbn [fst]. now destruct (observe_spec _ _ _ _ _ E Hinv).
    - destruct (find (fun p => N.eqb (m_id (fst p)) id) (queue st)) as [[m ep]|] eqn:Hf; [|exact Hinv].
      destruct (N.ltb_spec 0 (idle st)) as [Hi|Hi]; cbn [andb]; [|exact Hinv].
      destruct (N.ltb_spec 0 (signals st)) as [Hs|Hs]; cbn [andb fst]; [|exact Hinv].
      destruct Hinv as ((ND & P) & (S1 & S2) & Hc & (Wk & St)).
      destruct (find_qid_in _ _ _ Hf) as [Hin Hq].
      destruct (remove_first_perm _ _ _ Hf) as [Pq _].
      assert (Hin' : In id (ids st)) by (eapply Permutation_in; [symmetry; exact P|exact Hin]).
      pose proof (remove_first_eqb_perm _ _ Hin') as Pi.
      pose proof (remove_first_length _ _ _ Hf) as Lq.
      unfold binv, inv_ids, inv_sig, inv_cache, inv_workers. cbn [queue ids cache idle inflight stopped signals closed].
      repeat split; try assumption.
      + apply (Permutation_NoDup Pi) in ND. now inversion ND.
      + apply (Permutation_cons_inv (a := id)).
        etransitivity; [symmetry; exact Pi|]. etransitivity; [exact P|].
        etransitivity; [apply Permutation_map, Pq|]. cbn [map]. unfold qid at 1 in Hq. unfold qid at 1. now rewrite Hq.
      + lia.
      + intros Hcl. specialize (S2 Hcl). lia.
      + rewrite app_length. cbn [length]. lia.
    - destruct (memN id (inflight st)) eqn:Hm; [|exact Hinv]. cbn [fst].
      apply memN_In in Hm. pose proof (remove_first_len_in _ _ Hm) as Ll.
      destruct Hinv as ((ND & P) & (S1 & S2) & Hc & (Wk & St)).
      unfold binv, inv_ids, inv_sig, inv_cache, inv_workers. cbn [queue ids cache idle inflight stopped signals closed].
      repeat split; try assumption; try lia.
      destruct r as [d| |]; try exact Hc. destruct (sup_ready d) eqn:Hd; [|exact Hc].
      unfold cache_set. constructor; [exact Hd|]. apply Forall_filter, Hc.
    - destruct Hinv as (Hi & Hs & Hc & Hw).
      unfold binv, inv_ids, inv_sig, inv_cache, inv_workers in *. cbn [fst queue ids cache idle inflight stopped signals closed].
      repeat split; try tauto. apply Forall_filter, Hc.
    - destruct Hinv as (Hi & (S1 & S2) & Hc & (Wk & St)).
      unfold binv, inv_ids, inv_sig, inv_cache, inv_workers in *. cbn [fst queue ids cache idle inflight stopped signals closed].
      repeat split; try tauto; discriminate.
    - destruct (closed st) eqn:Hcl; cbn [andb]; [|exact Hinv].
      destruct (N.ltb_spec 0 (idle st)) as [Hi|Hi]; cbn [fst]; [|exact Hinv].
      destruct Hinv as (Hid & (S1 & S2) & Hc & (Wk & St)).
      unfold binv, inv_ids, inv_sig, inv_cache, inv_workers in *. cbn [queue ids cache idle inflight stopped signals closed].
      repeat split; try tauto; try discriminate. lia.
    - destruct (closed st) eqn:Hcl; cbn [andb]; [|exact Hinv].
      destruct (N.ltb_spec 0 (signals st)) as [Hs|Hs]; cbn [fst]; [|exact Hinv].
      destruct Hinv as (Hid & (S1 & S2) & Hc & (Wk & St)).
      unfold binv, inv_ids, inv_sig, inv_cache, inv_workers in *. cbn [queue ids cache idle inflight stopped signals closed].
      repeat split; try tauto; try discriminate. lia.
    - exact Hinv.
    - exact Hinv.
  Qed.

  Lemma bstate_cons st e evs : bstate ttl chk true st (e :: evs) = bstate ttl chk true (fst (step st e)) evs.
  Proof.
    unfold bstate. cbn [brun]. destruct (step st e) as [st1 o]. cbn [fst].
    destruct (brun ttl chk true st1 evs) as [st2 os]. reflexivity.
  Qed.

  Lemma run_inv evs : forall st, binv st -> binv (bstate ttl chk true st evs).
  Proof.
    induction evs as [|e evs IH]; intros st H; [exact H|]. rewrite bstate_cons. apply IH, step_inv, H.
  Qed.

  (* every state reachable from a freshly built observer satisfies the invariant *)
  Theorem reach_inv evs : binv (bstate ttl chk true (binit W) evs).
  Proof. apply run_inv, binv_init. Qed.

  (* ---------- the queue ---------- *)
  Theorem queue_inv st : binv st ->
    NoDup (map qid (queue st)) /\ (forall id, In id (ids st) <-> In id (map qid (queue st))) /\
    (closed st = false -> signals st = N.of_nat (length (queue st))).
  Proof.
    intros ((ND & P) & (_ & S2) & _). split; [exact (Permutation_NoDup P ND)|]. split; [|exact S2].
    intros id. split; apply Permutation_in; [exact P|symmetry; exact P].
  Qed.

  (* a message whose id is waiting is not queued again *)
  Theorem waiting_not_requeued st m now :
    In (m_id m) (ids st) -> cache_get chk now (cache st) (m_id m) = None ->
    queue (fst (obs st [m] now)) = queue st /\ signals (fst (obs st [m] now)) = signals st.
  Proof.
    intros Hin Hg. unfold observe. cbn [observe_loop cache]. rewrite Hg.
    cbn [ids]. apply memN_In in Hin. rewrite Hin. cbn. split; reflexivity.
  Qed.

  (* ---------- progress of the workers ---------- *)
  (* a waiting message can always be taken by an idle worker: its signal is never lost *)
  Theorem take_progress st m ep q :
    binv st -> closed st = false -> queue st = (m, ep) :: q -> (0 < idle st)%N ->
    let st' := fst (step st (BTake (m_id m))) in
    queue st' = q /\ inflight st' = inflight st ++ [m_id m] /\ exists f, snd (step st (BTake (m_id m))) = OTake true f.
  Proof.
    intros Hinv Hcl Hq Hi. destruct Hinv as (_ & (_ & S2) & _). specialize (S2 Hcl). rewrite Hq in S2. cbn [length] in S2.
    cbn [bstep]. rewrite Hq. cbn [find fst]. rewrite N.eqb_refl.
    destruct (N.ltb_spec 0 (idle st)); [|lia]. destruct (N.ltb_spec 0 (signals st)); [|lia]. cbn [andb fst snd].
    cbn [queue inflight remove_first fst]. rewrite N.eqb_refl. repeat split. eexists. reflexivity.
  Qed.

  (* with no idle worker some fetch is running; its return frees a worker *)
  Theorem busy_then_fetching st :
    binv st -> closed st = false -> (0 < W)%N -> idle st = 0%N -> inflight st <> [].
  Proof.
    intros (_ & _ & _ & (Wk & St)) Hcl HW Hi. specialize (St Hcl). intros E. rewrite E in Wk. cbn [length] in Wk. lia.
  Qed.
  Theorem return_frees_worker st id r now :
    In id (inflight st) -> idle (fst (step st (BReturn id r now))) = (idle st + 1)%N /\
                           queue (fst (step st (BReturn id r now))) = queue st.
  Proof. intros Hin. cbn [bstep]. apply memN_In in Hin. rewrite Hin. split; reflexivity. Qed.

  (* ---------- close ---------- *)
  Theorem closed_forever st e : closed st = true -> closed (fst (step st e)) = true.
  Proof.
    intros Hcl. destruct e as [ms now|id|id r now|now| | | | |]; cbn [bstep].
    - destruct (obs st ms now) as [st' r] eqn:E. cbn [fst].
      (* Observe does not touch the closed flag, whatever the state *)
      assert (H : forall ms st acc st' r, obs_loop st ms now acc = (st', r) -> closed st' = closed st).
      { clear. induction ms as [|m ms IH]; intros st acc st' r H; cbn [observe_loop] in H.
        - now inversion H.
        - destruct (cache_get chk now (cache st) (m_id m)).
          + destruct (sup_ready t); [now apply IH in H|now inversion H].
          + destruct (memN (m_id m) (ids st)); [now apply IH in H|]. apply IH in H. exact H. }
      unfold observe in E. apply H in E. now rewrite E.
    - destruct (find _ (queue st)) as [[m ep]|]; [|exact Hcl].
      destruct (N.ltb 0 (idle st) && N.ltb 0 (signals st)); exact Hcl.
    - destruct (memN id (inflight st)); exact Hcl.
    - exact Hcl.
    - reflexivity.
    - rewrite Hcl. cbn [andb]. destruct (N.ltb 0 (idle st)); [reflexivity|exact Hcl].
    - rewrite Hcl. cbn [andb]. destruct (N.ltb 0 (signals st)); [reflexivity|exact Hcl].
    - exact Hcl.
    - exact Hcl.
  Qed.

  Lemma exits_all k : forall st, closed st = true -> idle st = N.of_nat k ->
    let st' := bstate ttl chk true st (repeat BExit k) in
    idle st' = 0%N /\ stopped st' = (stopped st + N.of_nat k)%N /\ closed st' = true /\
    inflight st' = inflight st /\ signals st' = signals st /\ queue st' = queue st.
  Proof.
    induction k as [|k IH]; intros st Hcl Hi.
    - cbn. repeat split; try assumption. lia.
    - cbn [repeat]. rewrite bstate_cons. cbn [bstep]. rewrite Hcl. cbn [andb].
      destruct (N.ltb_spec 0 (idle st)); [|lia]. cbn [fst].
      match goal with |- context [bstate _ _ _ ?s (repeat BExit k)] => specialize (IH s) end.
      cbn zeta in IH. cbn [closed idle stopped inflight signals queue] in IH.
      destruct IH as (A & B & C & D & E & F); [reflexivity|lia|]. repeat split; try assumption. lia.
  Qed.

  Lemma senders_all k : forall st, closed st = true -> signals st = N.of_nat k ->
    let st' := bstate ttl chk true st (repeat BSenderExit k) in
    signals st' = 0%N /\ stopped st' = stopped st /\ idle st' = idle st /\ inflight st' = inflight st /\ closed st' = true.
  Proof.
    induction k as [|k IH]; intros st Hcl Hs.
    - cbn. repeat split; assumption.
    - cbn [repeat]. rewrite bstate_cons. cbn [bstep]. rewrite Hcl. cbn [andb].
      destruct (N.ltb_spec 0 (signals st)); [|lia]. cbn [fst].
      match goal with |- context [bstate _ _ _ ?s (repeat BSenderExit k)] => specialize (IH s) end.
      cbn zeta in IH. cbn [closed idle stopped inflight signals queue] in IH.
      destruct IH as (A & B & C & D & E); [reflexivity|lia|]. repeat split; assumption.
  Qed.

  Lemma bstate_app st evs1 evs2 :
    bstate ttl chk true st (evs1 ++ evs2) = bstate ttl chk true (bstate ttl chk true st evs1) evs2.
  Proof.
    revert st. induction evs1 as [|e evs1 IH]; intros st; [reflexivity|].
    cbn [app]. rewrite !bstate_cons. apply IH.
  Qed.

  (* after Close, once the running fetches are back, every worker and every signal sender can leave: nothing is left *)
  Theorem close_stops_everything st :
    binv st -> closed st = true -> inflight st = [] ->
    let st' := bstate ttl chk true st (repeat BExit (N.to_nat (idle st)) ++ repeat BSenderExit (N.to_nat (signals st))) in
    stopped st' = W /\ idle st' = 0%N /\ inflight st' = [] /\ signals st' = 0%N.
  Proof.
    intros Hinv Hcl Hin. destruct Hinv as (_ & _ & _ & (Wk & _)). rewrite Hin in Wk. cbn [length] in Wk.
    cbn zeta. rewrite bstate_app.
    destruct (exits_all (N.to_nat (idle st)) st Hcl) as (A & B & C & D & E & F); [lia|].
    set (s1 := bstate ttl chk true st (repeat BExit (N.to_nat (idle st)))) in *.
    destruct (senders_all (N.to_nat (signals st)) s1 C) as (A2 & B2 & C2 & D2 & E2); [rewrite E; lia|].
    repeat split.
    - rewrite B2, B. lia.
    - now rewrite C2.
    - now rewrite D2, D.
    - exact A2.
  Qed.

  (* workers never come back *)
  Theorem stopped_monotone st e : (stopped st <= stopped (fst (step st e)))%N.
  Proof.
    destruct e as [ms now|id|id r now|now| | | | |]; cbn [bstep]; try (cbn [fst stopped]; lia).
    - destruct (obs st ms now) as [st' r] eqn:E. cbn [fst].
      assert (H : forall ms st acc st' r, obs_loop st ms now acc = (st', r) -> stopped st' = stopped st).
      { clear. induction ms as [|m ms IH]; intros st acc st' r H; cbn [observe_loop] in H.
        - now inversion H.
        - destruct (cache_get chk now (cache st) (m_id m)).
          + destruct (sup_ready t); [now apply IH in H|now inversion H].
          + destruct (memN (m_id m) (ids st)); [now apply IH in H|]. apply IH in H. exact H. }
      unfold observe in E. apply H in E. rewrite E. cbn [stopped]. lia.
    - destruct (find _ (queue st)) as [[m ep]|]; [|cbn [fst]; lia].
      destruct (N.ltb 0 (idle st) && N.ltb 0 (signals st)); cbn [fst stopped]; lia.
    - destruct (memN id (inflight st)); cbn [fst stopped]; lia.
    - destruct (closed st && N.ltb 0 (idle st)); cbn [fst stopped]; lia.
    - destruct (closed st && N.ltb 0 (signals st)); cbn [fst stopped]; lia.
  Qed.
End BgP.

(* ====================== the property theorems ====================== *)

(* Observe in any reachable state: returns at once (never Blocked, never the internal error) with one entry per message;
   each entry is the not-ready placeholder (one slot per token) or cached data whose supported tokens are all ready
   and — when get checks expiry — that has not expired *)
Theorem observe_answers chk W st ms now :
  binv W st ->
  exists st' res, observe chk true st ms now = (st', Done res) /\ binv W st' /\ cache st' = cache st /\
                  Forall2 (ent_ok chk st now) ms res.
Proof.
  intros Hinv. destruct (observe chk true st ms now) as [st' r] eqn:E.
  destruct (observe_spec chk W _ _ _ _ _ E Hinv) as (I & _ & Ca & _ & _ & _ & NB & NE & R).
  destruct r as [res| |]; try congruence. exists st', res.
  split; [reflexivity|]. split; [exact I|]. split; [exact Ca|]. now apply R.
Qed.

Lemma ent_ok_shape chk st now ms res :
  Forall2 (ent_ok chk st now) ms res ->
  map key_of_ent res = map key_of_msg ms /\ length res = length ms.
Proof.
  induction 1 as [|m e ms res [Hk _] _ [IH1 IH2]]; [split; reflexivity|].
  cbn [map length]. now rewrite Hk, IH1, IH2.
Qed.

(* one slot per token: always for placeholders; for cached data when the underlying observer's answers had one *)
Lemma ent_ok_slots chk st now ms res :
  Forall2 (ent_ok chk st now) ms res ->
  (forall m d exp, In m ms -> alookup (m_id m) (cache st) = Some (d, exp) -> length d = length (m_sup m)) ->
  Forall2 (fun m e => length (snd e) = length (m_sup m)) ms res.
Proof.
  induction 1 as [|m e ms res [_ Hd] _ IH]; intros Hc; constructor.
  - cbn beta. destruct Hd as [Hd|[exp [Hl _]]].
    { transitivity (length (initial_td m)); [f_equal; exact Hd|unfold initial_td; now rewrite map_length]. }
    eapply Hc; [now left|exact Hl].
  - apply IH. intros m' d exp Hin. apply Hc. now right.
Qed.

Theorem observe_shape W st ms now :
  binv W st ->
  exists st' res, observe true true st ms now = (st', Done res) /\
    map key_of_ent res = map key_of_msg ms /\ length res = length ms /\
    ((forall m d exp, In m ms -> alookup (m_id m) (cache st) = Some (d, exp) -> length d = length (m_sup m)) ->
     Forall2 (fun m e => length (snd e) = length (m_sup m)) ms res).
Proof.
  intros Hinv. destruct (observe_answers true W st ms now Hinv) as (st' & res & E & _ & _ & F).
  exists st', res. destruct (ent_ok_shape _ _ _ _ _ F) as [A B]. repeat split; try assumption.
  intros Hc. eapply ent_ok_slots; eassumption.
Qed.

Theorem observe_ready_fresh W st ms now :
  binv W st ->
  exists st' res, observe true true st ms now = (st', Done res) /\
    Forall2 (fun m e => snd e = initial_td m \/
                        exists exp, alookup (m_id m) (cache st) = Some (snd e, exp) /\
                                    sup_ready (snd e) = true /\ (now <= exp)%N) ms res.
Proof.
  intros Hinv. destruct (observe_answers true W st ms now Hinv) as (st' & res & E & _ & _ & F).
  exists st', res. split; [exact E|]. eapply Forall2_ind with (P := fun ms res => Forall2 _ ms res); [| |exact F].
  - constructor.
  - intros m e ms' res' [_ Hd] _ IH. constructor; [|exact IH].
    destruct Hd as [H|[exp [H1 [H2 H3]]]]; [now left|]. right. exists exp. repeat split; auto.
Qed.

(* what is in the cache was stored by a fetch that returned ready data, with expiry = return time + ttl *)
Theorem cache_provenance ttl chk evs : forall st,
  (forall id d exp, In (id, (d, exp)) (cache st) -> False) ->
  forall id d exp, In (id, (d, exp)) (cache (bstate ttl chk true st evs)) ->
  exists now, In (BReturn id (FOk d) now) evs /\ sup_ready d = true /\ exp = (now + ttl)%N.
Proof.
  assert (Hloop : forall now ms st acc st' r, observe_loop chk true st ms now acc = (st', r) -> cache st' = cache st).
  { induction ms as [|m ms IH]; intros st acc st' r H; cbn [observe_loop] in H.
    - now inversion H.
    - destruct (cache_get chk now (cache st) (m_id m)).
      + destruct (sup_ready t); [now apply IH in H|now inversion H].
      + destruct (memN (m_id m) (ids st)); [now apply IH in H|]. apply IH in H. exact H. }
  (* generalised: entries either were there before or come from a return in the history *)
  assert (G : forall evs st id d exp, In (id, (d, exp)) (cache (bstate ttl chk true st evs)) ->
              In (id, (d, exp)) (cache st) \/
              exists now, In (BReturn id (FOk d) now) evs /\ sup_ready d = true /\ exp = (now + ttl)%N).
  { clear evs. intros evs. induction evs as [|e evs IH]; intros st id d exp Hin; [left; exact Hin|].
    rewrite bstate_cons in Hin. apply IH in Hin. destruct Hin as [Hin|[now [H1 H2]]].
    - destruct e as [ms now|id'|id' r now|now| | | | |]; cbn [bstep] in Hin.
      + destruct (observe chk true st ms now) as [st' r] eqn:E. cbn [fst] in Hin.
        unfold observe in E. apply Hloop in E. rewrite E in Hin. now left.
      + destruct (find _ (queue st)) as [[m ep]|]; [|now left].
        destruct (N.ltb 0 (idle st) && N.ltb 0 (signals st)); now left.
      + destruct (memN id' (inflight st)); [|now left]. cbn [fst cache] in Hin.
        destruct r as [d'| |]; try (now left). destruct (sup_ready d') eqn:Hd; [|now left].
        unfold cache_set in Hin. destruct Hin as [Heq|Hin].
        * inversion Heq; subst. right. exists now. repeat split; [now left|exact Hd].
        * apply filter_In in Hin. left. tauto.
      + cbn [fst cache] in Hin. apply filter_In in Hin. left. tauto.
      + now left.
      + destruct (closed st && N.ltb 0 (idle st)); now left.
      + destruct (closed st && N.ltb 0 (signals st)); now left.
      + now left.
      + now left.
    - right. exists now. split; [now right|exact H2]. }
  intros st Hempty id d exp Hin. destruct (G _ _ _ _ _ Hin) as [H|H]; [now apply Hempty in H|exact H].
Qed.

(* ---------- the code as it was before the repair ---------- *)
Local Open Scope N_scope.
Definition wit_m1 : msg := mkM 1 10 1 [true].
Definition wit_m2 : msg := mkM 2 10 2 [true].

(* F22a: one worker, two uncached messages: the first enqueue meets the idle worker, the second finds none *)
Theorem nonblocking_unfixed_refuted :
  exists W ms now, snd (observe true false (binit W) ms now) = Blocked.
Proof. exists 1, [wit_m1; wit_m2], 0. vm_compute. reflexivity. Qed.

Example nonblocking_fixed_on_witness :
  snd (observe true true (binit 1) [wit_m1; wit_m2] 0) =
  Done [(10, 1, [mkT false true 0]); (10, 2, [mkT false true 0])].
Proof. vm_compute. reflexivity. Qed.

(* F22b: data fetched at time 10 with ttl 5 is still served at time 100 when get ignores expiry *)
Definition wit_hist : list bev := [BObserve [wit_m1] 0; BTake 1; BReturn 1 (FOk [mkT true true 7]) 10].
Theorem not_expired_unfixed_refuted :
  exists ttl W evs ms now d exp,
    snd (observe false true (bstate ttl false true (binit W) evs) ms now) = Done [(10, 1, d)] /\
    alookup 1 (cache (bstate ttl false true (binit W) evs)) = Some (d, exp) /\ exp < now /\ d <> initial_td wit_m1.
Proof.
  exists 5, 1, wit_hist, [wit_m1], 100, [mkT true true 7], 15. vm_compute. repeat split; try reflexivity. discriminate.
Qed.

Example not_expired_fixed_on_witness :
  snd (observe true true (bstate 5 true true (binit 1) wit_hist) [wit_m1] 100) = Done [(10, 1, initial_td wit_m1)] /\
  snd (observe true true (bstate 5 true true (binit 1) wit_hist) [wit_m1] 15) = Done [(10, 1, [mkT true true 7])].
Proof. vm_compute. split; reflexivity. Qed.

Example take_progress_example :
  let st := bstate 5 true true (binit 1) [BObserve [wit_m1; wit_m2] 0] in
  closed st = false /\ queue st = [(wit_m1, 1); (wit_m2, 1)] /\ 0 < idle st /\ signals st = 2.
Proof. vm_compute. repeat split. Qed.

Example close_example :
  let st := bstate 5 true true (binit 2) [BObserve [wit_m1; wit_m2] 0; BTake 1; BClose; BReturn 1 FErr 3] in
  closed st = true /\ inflight st = [] /\ idle st = 2 /\ signals st = 1 /\ queue st = [(wit_m2, 1)].
Proof. vm_compute. repeat split. Qed.

Example waiting_not_requeued_example :
  let st := bstate 5 true true (binit 0) [BObserve [wit_m1] 0] in
  In (m_id wit_m1) (ids st) /\ cache_get true 1 (cache st) (m_id wit_m1) = None.
Proof. vm_compute. split; [now left|reflexivity]. Qed.
Local Close Scope N_scope.

Theorem eventual_worker ttl chk W st :
  binv W st -> closed st = false -> (0 < W)%N -> idle st = 0%N ->
  inflight st <> [] /\
  forall id r now, In id (inflight st) ->
    idle (fst (bstep ttl chk true st (BReturn id r now))) = (idle st + 1)%N /\
    queue (fst (bstep ttl chk true st (BReturn id r now))) = queue st.
Proof.
  intros Hinv Hcl HW Hi. split; [exact (busy_then_fetching W st Hinv Hcl HW Hi)|].
  intros id r now Hin. exact (return_frees_worker ttl chk st id r now Hin).
Qed.
Example eventual_worker_example :
  let st := bstate 5 true true (binit 1) [BObserve [wit_m1; wit_m2] 0%N; BTake 1%N] in
  closed st = false /\ idle st = 0%N /\ inflight st = [1%N] /\ queue st = [(wit_m2, 1%N)].
Proof. vm_compute. repeat split. Qed.

Theorem closed_and_stopped ttl chk st e :
  (closed st = true -> closed (fst (bstep ttl chk true st e)) = true) /\
  (stopped st <= stopped (fst (bstep ttl chk true st e)))%N.
Proof. split; [apply closed_forever|apply stopped_monotone]. Qed.

(* ====================== every message asked for is accounted for ====================== *)
Lemma remove_first_keeps {A} (f : A -> bool) l y : In y l -> f y = false -> In y (remove_first f l).
Proof.
  induction l as [|x l IH]; cbn [In remove_first]; [tauto|]. intros [->|H] Hf.
  - rewrite Hf. now left.
  - destruct (f x); [exact H|right; now apply IH].
Qed.

(* Observe only ever appends to the queue, and every message it does not serve from the cache is waiting afterwards *)
Lemma obs_loop_accounted chk W now ms : forall st acc st' r,
  observe_loop chk true st ms now acc = (st', r) -> binv W st ->
  (forall x, In x (map qid (queue st)) -> In x (map qid (queue st'))) /\
  forall m, In m ms ->
    (exists d, cache_get chk now (cache st) (m_id m) = Some d) \/ In (m_id m) (map qid (queue st')).
Proof.
  induction ms as [|m ms IH]; intros st acc st' r H Hinv; cbn [observe_loop] in H.
  - inversion H; subst. split; [auto|intros m []].
  - destruct (cache_get chk now (cache st) (m_id m)) as [d|] eqn:Hg.
    + destruct (sup_ready d) eqn:Hsr.
      * destruct (IH _ _ _ _ H Hinv) as [Hq Ha]. split; [exact Hq|].
        intros m' [<-|Hin]; [left; eauto|now apply Ha].
      * (* the internal-error exit cannot be taken: cached data is always ready *)
        exfalso. destruct Hinv as (_ & _ & Hc & _). unfold inv_cache in Hc. rewrite Forall_forall in Hc.
        destruct (cache_get_some chk _ _ _ _ Hg) as [exp [Hl _]]. apply alookup_In in Hl.
        specialize (Hc _ Hl). cbn [fst snd] in Hc. congruence.
    + destruct (memN (m_id m) (ids st)) eqn:Hmem.
      * destruct (IH _ _ _ _ H Hinv) as [Hq Ha]. split; [exact Hq|].
        intros m' [<-|Hin]; [|now apply Ha]. right. apply Hq.
        destruct Hinv as ((_ & P) & _). apply memN_In in Hmem. eapply Permutation_in; [exact P|exact Hmem].
      * match type of H with observe_loop _ _ ?s _ _ _ = _ => set (st2 := s) in H end.
        assert (Hinv2 : binv W st2).
        { destruct Hinv as ((ND & P) & (S1 & S2) & Hc & (Wk & St)).
          assert (Hnin : ~ In (m_id m) (ids st)) by (intros Hin; apply memN_In in Hin; congruence).
          unfold binv, inv_ids, inv_sig, inv_cache, inv_workers, st2.
          cbn [queue ids cache idle inflight stopped signals closed].
          repeat split; try assumption.
          - constructor; assumption.
          - rewrite map_app. cbn [map]. unfold qid at 2. cbn [fst].
            etransitivity; [apply perm_skip, P|apply Permutation_cons_append].
          - rewrite app_length. cbn [length]. lia.
          - intros Hcl. rewrite app_length. cbn [length]. specialize (S2 Hcl). lia. }
        destruct (IH _ _ _ _ H Hinv2) as [Hq Ha].
        assert (Hgrow : forall x, In x (map qid (queue st)) -> In x (map qid (queue st2))).
        { intros x Hx. unfold st2. cbn [queue]. rewrite map_app. apply in_or_app. now left. }
        split; [intros x Hx; apply Hq, Hgrow, Hx|].
        intros m' [<-|Hin].
        -- right. apply Hq. unfold st2. cbn [queue]. rewrite map_app. apply in_or_app. right. now left.
        -- destruct (Ha m' Hin) as [Hc|Hw]; [left; exact Hc|right; exact Hw].
Qed.

(* a worker pick-up moves a message from the queue to the running fetches; nothing else leaves the queue *)
Lemma take_keeps_accounted ttl chk st id x :
  In x (map qid (queue st)) \/ In x (inflight st) ->
  let st' := fst (bstep ttl chk true st (BTake id)) in
  In x (map qid (queue st')) \/ In x (inflight st').
Proof.
  intros H. cbn [bstep].
  destruct (find (fun p => N.eqb (m_id (fst p)) id) (queue st)) as [[m ep]|] eqn:Hf; [|exact H].
  destruct (N.ltb 0 (idle st) && N.ltb 0 (signals st)); [|exact H]. cbn [fst queue inflight].
  destruct H as [H|H]; [|right; apply in_or_app; now left].
  destruct (N.eq_dec x id) as [->|Hne]; [right; apply in_or_app; right; now left|].
  left. apply in_map_iff in H. destruct H as [p [Hp Hin]]. apply in_map_iff. exists p. split; [exact Hp|].
  apply remove_first_keeps; [exact Hin|]. apply N.eqb_neq. unfold qid in Hp. congruence.
Qed.

Lemma takes_keep_accounted ttl chk takes : forall st x,
  In x (map qid (queue st)) \/ In x (inflight st) ->
  let st' := bstate ttl chk true st (map BTake takes) in
  In x (map qid (queue st')) \/ In x (inflight st').
Proof.
  induction takes as [|id takes IH]; intros st x H; [exact H|].
  cbn [map]. cbn zeta. rewrite bstate_cons. apply IH. now apply take_keeps_accounted.
Qed.

(* in every reachable state: after Observe has answered, and after any worker pick-ups that follow, every message asked
   for is served from the cache, waits in the queue, or is being fetched *)
Theorem asked_is_accounted ttl chk W st ms now takes :
  binv W st ->
  let st1 := fst (observe chk true st ms now) in
  let st2 := bstate ttl chk true st1 (map BTake takes) in
  forall m, In m ms ->
    (exists d, cache_get chk now (cache st) (m_id m) = Some d) \/
    In (m_id m) (map qid (queue st2)) \/ In (m_id m) (inflight st2).
Proof.
  intros Hinv st1 st2 m Hin. unfold st1 in *. destruct (observe chk true st ms now) as [st' r] eqn:E.
  unfold observe in E.
  match type of E with observe_loop _ _ ?s _ _ _ = _ => assert (Hinv0 : binv W s) by exact Hinv end.
  destruct (obs_loop_accounted chk W now ms _ _ _ _ E Hinv0) as [_ Ha].
  destruct (Ha m Hin) as [Hc|Hq]; [left; exact Hc|right].
  unfold st2. cbn [fst]. apply takes_keep_accounted. now left.
Qed.

Example asked_is_accounted_example :
  let st := bstate 5 true true (binit 1) wit_hist in     (* message 1 fetched at time 10, ttl 5 *)
  let st2 := bstate 5 true true (fst (observe true true st [wit_m1; wit_m2] 100%N)) [BTake 1%N] in
  cache_get true 100%N (cache st) 1%N = None /\ inflight st2 = [1%N] /\ map qid (queue st2) = [2%N].
Proof. vm_compute. repeat split. Qed.

(* JudgeSoundC14P.v — the executable properties (x_ok) of Check/C14_check.v are the C14 property:
   for every sink  (a) the model passes its own judge,  (b) an output that passes the judge satisfies the
   Prop-level clause of Props/C14.v. *)
Require Import Verif.Model.Base Verif.Proofs.BaseP Verif.Model.Consensus Verif.Proofs.ConsensusP
               Verif.Model.CommitConsensus Verif.Proofs.CommitConsensusP Verif.Model.Prices Verif.Proofs.PricesP
               Verif.Model.PricesHist Verif.Proofs.PricesHistP.
Require Import Verif.Check.C01_check Verif.Check.C14_check.
From Coq Require Import Sorting.Sorted ZifyN ZifyNat ZifyBool.

(* ====================================================================================================== *)
(*                                  small generic reflection lemmas                                       *)
(* ====================================================================================================== *)
Lemma list_eqb_eq {A} (e : A -> A -> bool) :
  (forall a b, e a b = true -> a = b) -> forall l1 l2, list_eqb e l1 l2 = true -> l1 = l2.
Proof.
  intros He. induction l1 as [|x l1 IH]; intros [|y l2] H; cbn [list_eqb] in H; try discriminate; [reflexivity|].
  apply andb_true_iff in H. destruct H as [H1 H2]. f_equal; [now apply He|now apply IH].
Qed.

Lemma list_eqb_refl {A} (e : A -> A -> bool) : (forall a, e a a = true) -> forall l, list_eqb e l l = true.
Proof. intros He. induction l as [|x l IH]; cbn [list_eqb]; [reflexivity|]. now rewrite He, IH. Qed.

Lemma bool_eqb_eq a b : Bool.eqb a b = true -> a = b.
Proof. destruct a, b; cbn; congruence. Qed.

Lemma nz_eqb_eq (a b : N * Z) : pair_eqb N.eqb Z.eqb a b = true -> a = b.
Proof.
  unfold pair_eqb. rewrite andb_true_iff, N.eqb_eq, Z.eqb_eq. destruct a, b; cbn [fst snd]. intros [-> ->]. reflexivity.
Qed.
Lemma nz_eqb_refl (a : N * Z) : pair_eqb N.eqb Z.eqb a a = true.
Proof. unfold pair_eqb. now rewrite N.eqb_refl, Z.eqb_refl. Qed.

Lemma prices_eqb_eq (a b : prices) : prices_eqb a b = true -> a = b.
Proof. apply list_eqb_eq. exact nz_eqb_eq. Qed.
Lemma prices_eqb_refl (a : prices) : prices_eqb a a = true.
Proof. apply list_eqb_refl. exact nz_eqb_refl. Qed.

Lemma out_eqb_eq (a b : res (list (N * Z))) : out_eqb a b = true -> a = b.
Proof.
  unfold out_eqb. destruct a, b; cbn [res_eqb]; try discriminate; try reflexivity.
  intros H. f_equal. now apply prices_eqb_eq.
Qed.
Lemma out_eqb_refl (a : res (list (N * Z))) : out_eqb a a = true.
Proof. unfold out_eqb. destruct a; cbn [res_eqb]; try reflexivity. apply prices_eqb_refl. Qed.

Lemma verdicts_eqb_eq (a b : list bool) : list_eqb Bool.eqb a b = true -> a = b.
Proof. apply list_eqb_eq. exact bool_eqb_eq. Qed.
Lemma verdicts_eqb_refl (a : list bool) : list_eqb Bool.eqb a a = true.
Proof. apply list_eqb_refl. intros []; reflexivity. Qed.

(* ====================================================================================================== *)
(*                                     C14_dev : mathslib.Deviates                                        *)
(* ====================================================================================================== *)
Section Dev.
  (* the integer inequality of the check IS the model function, for all integers *)
  Lemma dev_spec_eq x1 x2 ppb : dev_spec x1 x2 ppb = deviates x1 x2 ppb.
  Proof.
    unfold dev_spec. destruct (Z.eqb x1 0 || Z.eqb x2 0) eqn:E0.
    - unfold deviates. now rewrite E0.
    - destruct (Z.ltb 0 x1 && Z.ltb 0 x2) eqn:Ep; [|reflexivity].
      apply andb_true_iff in Ep. destruct Ep as [H1 H2]. apply Z.ltb_lt in H1, H2.
      apply eq_true_iff_eq. rewrite Z.leb_le.
      destruct (Z.le_gt_cases x2 x1) as [Hle|Hlt].
      + rewrite Z.max_l, Z.min_r by lia. symmetry. apply deviates_spec. lia.
      + rewrite Z.max_r, Z.min_l by lia. rewrite deviates_sym. symmetry. apply deviates_spec. lia.
  Qed.

  (* (a) *)
  Lemma dev_model_passes : forall i, dev_ok i (dev_model i) = true.
  Proof.
    intros [[x1 x2] ppb]. unfold dev_ok, dev_model. cbn [fst snd].
    rewrite dev_spec_eq, <- (deviates_sym x1 x2 ppb). now rewrite Bool.eqb_reflx.
  Qed.

  Lemma dev_ok_eq x1 x2 ppb o :
    dev_ok (x1, x2, ppb) o = true -> fst o = snd o /\ fst o = deviates x1 x2 ppb.
  Proof.
    unfold dev_ok. rewrite andb_true_iff, dev_spec_eq. intros [H1 H2]. split; now apply bool_eqb_eq.
  Qed.

  (* (b) the clauses of C14_deviates_sym / C14_deviates_zero / C14_deviates_spec on the implementation's two answers
     (fst o = Deviates(x1, x2, ppb), snd o = Deviates(x2, x1, ppb)) *)
  Lemma dev_sound : forall x1 x2 ppb o,
    dev_ok (x1, x2, ppb) o = true ->
    fst o = snd o /\
    (x1 = 0%Z \/ x2 = 0%Z -> (fst o = true <-> x1 <> x2)) /\
    ((0 < x2 <= x1)%Z -> (fst o = true <-> (ppb + 1) * x2 <= (x1 - x2) * 1000000000)%Z) /\
    ((0 < x1 <= x2)%Z -> (fst o = true <-> (ppb + 1) * x1 <= (x2 - x1) * 1000000000)%Z).
  Proof.
    intros x1 x2 ppb o H. destruct (dev_ok_eq _ _ _ _ H) as [Hs He]. split; [exact Hs|]. rewrite He. split; [|split].
    - intros [->| ->].
      + rewrite (proj1 (deviates_zero x2 ppb)). split; intros Hn E; apply Hn; congruence.
      + rewrite (proj2 (deviates_zero x1 ppb)). tauto.
    - intros Hr. now apply deviates_spec.
    - intros Hr. rewrite deviates_sym. now apply deviates_spec.
  Qed.

  Example dev_ok_ex : dev_ok (1050000000, 1000000000, 49999999)%Z (true, true) = true /\
                      dev_ok (1050000000, 1000000000, 50000000)%Z (false, false) = true.
  Proof. vm_compute. split; reflexivity. Qed.
End Dev.

(* ====================================================================================================== *)
(*                               C14_usd : mathslib.CalculateUsdPerUnitGas                                *)
(* ====================================================================================================== *)
Section Usd.
  Lemma usd_model_passes : forall i, usd_ok i (usd_model i) = true.
  Proof.
    intros [fee price]. unfold usd_ok, usd_model. cbn [fst snd].
    pose proof (usd_per_unit_gas_spec fee price) as H. cbn zeta in H.
    apply andb_true_iff. rewrite Z.leb_le, Z.ltb_lt. lia.
  Qed.

  (* (b) the clause of C14_units_usd for the implementation's answer; it determines the answer *)
  Lemma usd_sound : forall i o,
    usd_ok i o = true ->
    (o * 1000000000000000000 <= fst i * snd i < (o + 1) * 1000000000000000000)%Z /\ o = usd_per_unit_gas (fst i) (snd i).
  Proof.
    intros [fee price] o. unfold usd_ok. cbn [fst snd]. rewrite andb_true_iff, Z.leb_le, Z.ltb_lt. intros H.
    split; [lia|]. pose proof (usd_per_unit_gas_spec fee price) as Hm. cbn zeta in Hm. nia.
  Qed.

  Example usd_ok_ex : usd_ok (30000000000, 2000000000000000000000)%Z 60000000000000%Z = true.
  Proof. vm_compute. reflexivity. Qed.
End Usd.

(* ====================================================================================================== *)
(*                                 C14_pack : ToPackedFee / FromPackedFee                                 *)
(* ====================================================================================================== *)
Section Pack.
  Lemma pack_model_passes : forall i, pack_ok i (pack_model i) = true.
  Proof.
    intros [da ex]. unfold pack_ok, pack_model. cbn [fst snd].
    destruct (Z.leb 0 ex && Z.ltb ex (2 ^ 112) && Z.leb 0 da) eqn:E; [|reflexivity].
    apply andb_true_iff in E. destruct E as [E Hd]. apply andb_true_iff in E. destruct E as [He1 He2].
    apply Z.leb_le in He1, Hd. apply Z.ltb_lt in He2.
    destruct (units_packing da ex ltac:(lia) Hd) as [Hp Hf]. rewrite Hf, Hp. cbn [fst snd].
    now rewrite !Z.eqb_refl.
  Qed.

  (* (b) the clause of C14_units_packing on the implementation's (packed, FromPackedFee packed); operands outside
     0 <= exec < 2^112, 0 <= da are not judged (the theorem says nothing there) *)
  Lemma pack_sound : forall da ex o,
    pack_ok (da, ex) o = true ->
    (0 <= ex < 2 ^ 112)%Z -> (0 <= da)%Z ->
    fst o = (da * 2 ^ 112 + ex)%Z /\ snd o = (ex, da) /\ fst o = to_packed da ex /\ snd o = from_packed (fst o).
  Proof.
    intros da ex [p [e d]] H He Hd. unfold pack_ok in H. cbn [fst snd] in *.
    assert (Hc : Z.leb 0 ex && Z.ltb ex (2 ^ 112) && Z.leb 0 da = true).
    { rewrite !andb_true_iff, !Z.leb_le, Z.ltb_lt. lia. }
    rewrite Hc in H. rewrite !andb_true_iff, !Z.eqb_eq in H. destruct H as [[-> ->] ->].
    destruct (units_packing da ex He Hd) as [Hp Hf]. rewrite <- Hp, Hf. repeat split; reflexivity.
  Qed.

  Example pack_ok_ex : pack_ok (3, 5)%Z ((3 * 2 ^ 112 + 5)%Z, (5, 3)%Z) = true.
  Proof. vm_compute. reflexivity. Qed.
End Pack.

(* ====================================================================================================== *)
(*                                   C14_med : consensus.Median                                           *)
(* ====================================================================================================== *)
Section Med.
  Lemma div2_lt n : (0 < n)%nat -> (Nat.div2 n < n)%nat.
  Proof. intros H. rewrite Nat.div2_div. apply Nat.div_lt; lia. Qed.

  (* the rank test of the check determines the value: it is the element at index len/2 of the sorted copy *)
  Lemma med_ok_eq : forall l o, l <> [] -> med_ok l o = true -> o = medianZ l.
  Proof.
    intros l o Hne H. unfold med_ok in H. destruct l as [|x0 l0]; [congruence|].
    remember (x0 :: l0) as l eqn:El.
    apply andb_true_iff in H. destruct H as [H Hgt]. apply andb_true_iff in H. destruct H as [_ Hlt].
    apply Nat.leb_le in Hlt, Hgt.
    change (length (filter (fun x => Z.ltb x o) l)) with (count_lt o l) in Hlt.
    change (length (filter (fun x => Z.ltb o x) l)) with (count_gt o l) in Hgt.
    unfold medianZ. set (s := sort_by Z.leb l). set (m := Nat.div2 (length l)) in *.
    assert (Ps : Permutation s l) by apply sort_by_perm.
    assert (Ss : StronglySorted Z.le s) by apply sortZ_sorted.
    assert (Ls : length s = length l) by apply sort_by_length.
    assert (Hpos : (0 < length l)%nat) by (subst l; cbn [length]; lia).
    assert (Hm : (m < length s)%nat) by (rewrite Ls; apply div2_lt; exact Hpos).
    destruct (Z.lt_trichotomy (nth m s 0%Z) o) as [Hc|[Hc|Hc]]; [exfalso| now symmetry |exfalso].
    - pose proof (sorted_nth_lt s Ss m o Hm Hc) as Hn. rewrite (count_lt_perm o _ _ Ps) in Hn. lia.
    - pose proof (sorted_nth_gt s Ss m o Hm Hc) as Hn. rewrite (count_gt_perm o _ _ Ps) in Hn. lia.
  Qed.

  Lemma count_lt_sorted_nth s : StronglySorted Z.le s -> forall m, (m < length s)%nat -> (count_lt (nth m s 0%Z) s <= m)%nat.
  Proof.
    induction 1 as [|a s Hs IH Hall]; intros m Hm; [cbn in Hm; lia|].
    unfold count_lt. cbn [filter]. destruct m as [|m]; cbn [nth].
    - rewrite Z.ltb_irrefl. fold (count_lt a s). rewrite count_lt_zero; [lia|].
      rewrite Forall_forall in Hall. exact Hall.
    - cbn [length] in Hm. specialize (IH m ltac:(lia)). unfold count_lt in IH.
      destruct (Z.ltb a (nth m s 0%Z)); cbn [length]; lia.
  Qed.

  Lemma count_gt_sorted_nth s : StronglySorted Z.le s -> forall m, (m < length s)%nat ->
    (count_gt (nth m s 0%Z) s <= length s - 1 - m)%nat.
  Proof.
    induction 1 as [|a s Hs IH Hall]; intros m Hm; [cbn in Hm; lia|].
    unfold count_gt. cbn [filter]. destruct m as [|m]; cbn [nth].
    - rewrite Z.ltb_irrefl. fold (count_gt a s). pose proof (count_gt_le a s). cbn [length]. lia.
    - cbn [length] in Hm. assert (Hm' : (m < length s)%nat) by lia. specialize (IH m Hm'). unfold count_gt in IH.
      assert (Ha : (a <= nth m s 0)%Z) by (rewrite Forall_forall in Hall; apply Hall; now apply nth_In).
      destruct (Z.ltb_spec (nth m s 0%Z) a); [lia|]. cbn [length]. lia.
  Qed.

  (* (a) *)
  Lemma med_model_passes : forall l, med_ok l (med_model l) = true.
  Proof.
    intros l. unfold med_ok, med_model. destruct l as [|x0 l0]; [reflexivity|].
    remember (x0 :: l0) as l eqn:El.
    assert (Hne : l <> []) by (subst l; discriminate).
    assert (Hpos : (0 < length l)%nat) by (subst l; cbn [length]; lia).
    rewrite !andb_true_iff. split; [split|].
    - unfold memZ. apply existsb_exists. exists (medianZ l). split; [now apply median_in|apply Z.eqb_refl].
    - apply Nat.leb_le. change (count_lt (medianZ l) l <= Nat.div2 (length l))%nat.
      unfold medianZ. rewrite <- (count_lt_perm _ _ _ (sort_by_perm Z.leb l)).
      apply count_lt_sorted_nth; [apply sortZ_sorted|]. rewrite sort_by_length. now apply div2_lt.
    - apply Nat.leb_le. change (count_gt (medianZ l) l <= length l - 1 - Nat.div2 (length l))%nat.
      unfold medianZ. rewrite <- (count_gt_perm _ _ _ (sort_by_perm Z.leb l)).
      rewrite <- (sort_by_length Z.leb l) at 2.
      apply count_gt_sorted_nth; [apply sortZ_sorted|]. rewrite sort_by_length. now apply div2_lt.
  Qed.

  (* (b) the clause of C14_median_robust for ANY value the judge accepts: with at least 2f+1 observations of which at
     most f are faulty it lies between the smallest and largest honest observation, and it is an observed value *)
  Lemma med_sound : forall (xs hs bs : list Z) (o : Z) (f : nat) (lo hi : Z),
    med_ok xs o = true ->
    Permutation xs (hs ++ bs) -> (length bs <= f)%nat -> (2 * f + 1 <= length xs)%nat ->
    (forall h, In h hs -> lo <= h <= hi)%Z ->
    (lo <= o <= hi)%Z /\ In o xs.
  Proof.
    intros xs hs bs o f lo hi Hok P Hb Hn Hh.
    assert (Hne : xs <> []) by (intros ->; cbn in Hn; lia).
    rewrite (med_ok_eq xs o Hne Hok). split; [now apply (median_robust xs hs bs f)|now apply median_in].
  Qed.

  Example med_ok_ex : med_ok [5; 1000000; 7; 6; 0]%Z 6%Z = true /\ med_ok [5; 1000000; 7; 6; 0]%Z 7%Z = false.
  Proof. vm_compute. split; reflexivity. Qed.
End Med.

(* ====================================================================================================== *)
(*        the statement's direct counting (Check: f_of, obs_vals, enough) against the model's             *)
(*        consensus functions (Model: fchain_cons, consensus_agg over agg_map, agg_thr)                   *)
(* ====================================================================================================== *)
Lemma alookup_none_notin {V} k (m : list (N * V)) : alookup k m = None <-> ~ In k (map fst m).
Proof.
  induction m as [|[k' v] m IH]; cbn [alookup map fst In]; [tauto|].
  destruct (N.eqb_spec k k') as [->|Hne].
  - split; [discriminate|]. intros H. exfalso. apply H. now left.
  - rewrite IH. split; [intros H [E|E]; [congruence|tauto]|tauto].
Qed.

Lemma dedupN_nodup_id (l : list N) : NoDup l -> dedup N.eqb l = l.
Proof.
  induction 1 as [|x l Hn ND IH]; cbn [dedup]; [reflexivity|]. rewrite IH. f_equal.
  clear IH ND. induction l as [|y l IHl]; cbn [filter]; [reflexivity|].
  destruct (N.eqb_spec x y) as [->|Hne]; [exfalso; apply Hn; now left|]. cbn [negb]. f_equal.
  apply IHl. intros H. apply Hn. now right.
Qed.

Lemma nodup_map_filter {A} (key : A -> N) (p : A -> bool) l : NoDup (map key l) -> NoDup (map key (filter p l)).
Proof.
  induction l as [|a l IH]; cbn [map filter]; intros ND; [constructor|]. inversion ND as [|? ? Hn ND']; subst.
  destruct (p a); cbn [map]; [|now apply IH]. constructor; [|now apply IH].
  intros Hi. apply Hn. apply in_map_iff in Hi. destruct Hi as [b [Hb Hf]]. apply filter_In in Hf.
  apply in_map_iff. exists b. tauto.
Qed.

Section OneObs.
  Context {V : Type}.
  Lemma filter_key_notin k (l : list (N * V)) : ~ In k (map fst l) -> filter (fun e => N.eqb (fst e) k) l = [].
  Proof.
    induction l as [|[k' v] l IH]; cbn [filter map fst In]; intros Hn; [reflexivity|].
    destruct (N.eqb_spec k' k) as [->|Hne]; [exfalso; apply Hn; now left|]. apply IH. tauto.
  Qed.

  (* a Go map holds at most one value per key: the entries of key k are what a lookup returns *)
  Lemma alookup_filter_key k (l : list (N * V)) : NoDup (map fst l) ->
    map snd (filter (fun e => N.eqb (fst e) k) l) = match alookup k l with Some v => [v] | None => [] end.
  Proof.
    induction l as [|[k' v] l IH]; cbn [filter map fst alookup]; intros ND; [reflexivity|].
    inversion ND as [|? ? Hn ND']; subst. rewrite (N.eqb_sym k k').
    destruct (N.eqb_spec k' k) as [->|Hne].
    - cbn [map snd]. rewrite filter_key_notin by exact Hn. reflexivity.
    - now apply IH.
  Qed.
End OneObs.

Section FieldVals.
  Context {O V : Type}.
  Variable get : O -> list (N * V).
  (* Go maps: no key twice within one observation *)
  Definition maps_wf (aos : list (N * O)) : Prop := forall ao, In ao aos -> NoDup (map fst (get (snd ao))).

  Lemma maps_wf_tail ao aos : maps_wf (ao :: aos) -> maps_wf aos.
  Proof. intros H a Ha. apply H. now right. Qed.

  Lemma votes_vals_cons ao aos k :
    map snd (votes get (ao :: aos) k) =
    map snd (filter (fun e => N.eqb (fst e) k) (get (snd ao))) ++ map snd (votes get aos k).
  Proof. rewrite votes_cons, map_app, map_map. reflexivity. Qed.

  Lemma obs_vals_cons ao aos k :
    obs_vals get (ao :: aos) k = (match alookup k (get (snd ao)) with Some v => [v] | None => [] end) ++ obs_vals get aos k.
  Proof. reflexivity. Qed.

  (* the values the statement counts (one per observation) are the model's votes *)
  Lemma obs_vals_votes aos k : maps_wf aos -> obs_vals get aos k = map snd (votes get aos k).
  Proof.
    induction aos as [|ao aos IH]; intros Hwf; [reflexivity|].
    rewrite votes_vals_cons, obs_vals_cons. rewrite IH by (eapply maps_wf_tail; eassumption).
    f_equal. symmetry. apply alookup_filter_key. apply Hwf. now left.
  Qed.

  Lemma keys_of_in aos k : In k (keys_of get aos) <-> exists ao, In ao aos /\ In k (map fst (get (snd ao))).
  Proof. unfold keys_of. rewrite (dedup_in N.eqb N_eqb_reflect), in_flat_map. reflexivity. Qed.

  Lemma obs_vals_nokey aos k : ~ In k (keys_of get aos) -> obs_vals get aos k = [].
  Proof.
    induction aos as [|ao aos IH]; intros Hn; [reflexivity|].
    rewrite obs_vals_cons, IH.
    - destruct (alookup k (get (snd ao))) as [v|] eqn:E; [|reflexivity]. exfalso. apply Hn. apply keys_of_in.
      exists ao. split; [now left|]. apply alookup_In in E. apply in_map_iff. exists (k, v). tauto.
    - intros Hk. apply Hn. apply keys_of_in. apply keys_of_in in Hk. destruct Hk as [a [Ha Hk]].
      exists a. split; [now right|exact Hk].
  Qed.

  Lemma alookup_agg_map aos k :
    alookup k (agg_map get aos) = match votes get aos k with [] => None | vs => Some (map snd vs) end.
  Proof.
    destruct (alookup k (agg_map get aos)) as [l|] eqn:E.
    - apply alookup_In, agg_map_in in E. destruct E as [-> Hk].
      apply in_map_iff in Hk. destruct Hk as [[k' [o v]] [Hk Hi]]. cbn [fst] in Hk. subst k'.
      apply entries_in, (votes_in get) in Hi.
      destruct (votes get aos k) as [|x vs]; [contradiction|reflexivity].
    - destruct (votes get aos k) as [|[o v] vs] eqn:Ev; [reflexivity|exfalso].
      apply alookup_none_notin in E. apply E.
      assert (Hi : In (o, v) (votes get aos k)) by (rewrite Ev; now left).
      apply votes_in, (entries_in get) in Hi.
      apply in_map_iff. exists (k, map snd (votes get aos k)). split; [reflexivity|].
      apply agg_map_in. split; [reflexivity|]. apply in_map_iff. exists (k, (o, v)). tauto.
  Qed.
End FieldVals.

Section Lookups.
  Context {T : Type}.

  Lemma alookup_consensus_map (eqb : T -> T -> bool) thr_of (m : list (N * list T)) k :
    NoDup (map fst m) ->
    alookup k (consensus_map eqb thr_of m) =
    match alookup k m with
    | None => None
    | Some items =>
        match thr_of k with
        | None => None
        | Some thr => match valid eqb thr items with [v] => Some v | _ => None end
        end
    end.
  Proof.
    induction m as [|[k' items] m IH]; intros ND; [reflexivity|].
    cbn [map fst] in ND. inversion ND as [|? ? Hn ND']; subst.
    assert (Hrest : alookup k' (consensus_map eqb thr_of m) = None).
    { apply alookup_none_notin. intros Hi. apply Hn. now apply consensus_map_keys_incl in Hi. }
    cbn [consensus_map alookup].
    destruct (N.eqb_spec k k') as [->|Hne].
    - destruct (thr_of k') as [thr|]; [|exact Hrest].
      destruct (valid eqb thr items) as [|x [|y l]]; try exact Hrest.
      cbn [alookup]. now rewrite N.eqb_refl.
    - destruct (thr_of k') as [thr|]; [|now apply IH].
      destruct (valid eqb thr items) as [|x [|y l]]; try now apply IH.
      cbn [alookup]. destruct (N.eqb_spec k k'); [congruence|]. now apply IH.
  Qed.

  Lemma alookup_consensus_agg thr_of (agg : list T -> T) (m : list (N * list T)) k :
    NoDup (map fst m) ->
    alookup k (consensus_agg thr_of agg m) =
    match alookup k m with
    | None => None
    | Some vals =>
        match thr_of k with
        | None => None
        | Some thr => if N.ltb (N.of_nat (length vals)) thr then None else Some (agg vals)
        end
    end.
  Proof.
    induction m as [|[k' vals] m IH]; intros ND; [reflexivity|].
    cbn [map fst] in ND. inversion ND as [|? ? Hn ND']; subst.
    assert (Hrest : alookup k' (consensus_agg thr_of agg m) = None).
    { apply alookup_none_notin. intros Hi. apply Hn. apply in_map_iff in Hi. destruct Hi as [[k2 v] [E Hi]].
      cbn [fst] in E. subst k2. apply consensus_agg_in in Hi. destruct Hi as [vs [th [Hi _]]].
      apply in_map_iff. exists (k', vs). tauto. }
    cbn [consensus_agg alookup].
    destruct (N.eqb_spec k k') as [->|Hne].
    - destruct (thr_of k') as [thr|]; [|exact Hrest].
      destruct (N.ltb (N.of_nat (length vals)) thr); [exact Hrest|].
      cbn [alookup]. now rewrite N.eqb_refl.
    - destruct (thr_of k') as [thr|]; [|now apply IH].
      destruct (N.ltb (N.of_nat (length vals)) thr); [now apply IH|].
      cbn [alookup]. destruct (N.eqb_spec k k'); [congruence|]. now apply IH.
  Qed.

  (* a threshold-gated aggregate, read through the statement's per-observation values *)
  Lemma alookup_agg_field {O} (get : O -> list (N * T)) thr_of agg (aos : list (N * O)) k :
    maps_wf get aos ->
    (forall t, thr_of k = Some t -> (0 < t)%N) ->
    alookup k (consensus_agg thr_of agg (agg_map get aos)) =
    match thr_of k with
    | None => None
    | Some thr => if N.ltb (N.of_nat (length (obs_vals get aos k))) thr then None else Some (agg (obs_vals get aos k))
    end.
  Proof.
    intros Hwf Hpos. rewrite alookup_consensus_agg by apply agg_map_keys_nodup.
    rewrite alookup_agg_map, (obs_vals_votes get aos k Hwf).
    destruct (votes get aos k) as [|v vs] eqn:Ev; [|reflexivity].
    destruct (thr_of k) as [thr|] eqn:Et; [|reflexivity]. cbn [map length]. specialize (Hpos thr eq_refl).
    destruct (N.ltb_spec (N.of_nat 0) thr); [reflexivity|lia].
  Qed.
End Lookups.

(* ---------- the agreed fChain ---------- *)
Section FChain.
  Context {O : Type}.
  Variable get : O -> list (N * Z).

  Definition fch_val (F : Z) (aos : list (N * O)) (k : N) : option Z :=
    match valid Z.eqb (two_f_plus_1 F) (map snd (votes get aos k)) with [v] => Some v | _ => None end.

  Lemma alookup_fchain_cons F aos k : alookup k (fchain_cons get F aos) = fch_val F aos k.
  Proof.
    unfold fchain_cons, fch_val. rewrite alookup_consensus_map by apply agg_map_keys_nodup.
    rewrite alookup_agg_map. destruct (votes get aos k) as [|v vs]; reflexivity.
  Qed.

  Lemma values_for_votes aos k : values_for Z.eqb get aos k = dedup Z.eqb (map snd (votes get aos k)).
  Proof.
    unfold values_for. f_equal. induction aos as [|ao aos IH]; [reflexivity|].
    rewrite votes_vals_cons. cbn [flat_map]. now rewrite IH.
  Qed.

  Lemma count_one_obs k v (l : list (N * Z)) : NoDup (map fst l) ->
    count Z.eqb v (map snd (filter (fun e => N.eqb (fst e) k) l)) =
    if existsb (fun kv => N.eqb (fst kv) k && Z.eqb (snd kv) v) l then 1%N else 0%N.
  Proof.
    induction l as [|[k' v'] l IH]; cbn [filter map fst snd existsb]; intros ND; [reflexivity|].
    inversion ND as [|? ? Hn ND']; subst.
    destruct (N.eqb_spec k' k) as [->|Hne]; cbn [andb map snd count orb].
    - rewrite (filter_key_notin k l Hn). cbn [map count].
      assert (He : existsb (fun kv => N.eqb (fst kv) k && Z.eqb (snd kv) v) l = false).
      { apply not_true_iff_false. rewrite existsb_exists. intros [[k2 v2] [Hi Hb]]. cbn [fst snd] in Hb.
        apply andb_true_iff in Hb. destruct Hb as [Hb _]. apply N.eqb_eq in Hb. subst k2.
        apply Hn. apply in_map_iff. exists (k, v2). tauto. }
      rewrite He, orb_false_r, (Z.eqb_sym v' v). destruct (Z.eqb v v'); reflexivity.
    - now apply IH.
  Qed.

  Lemma reporters_count aos k v : maps_wf get aos ->
    N.of_nat (length (filter (fun ao => existsb (fun kv => N.eqb (fst kv) k && Z.eqb (snd kv) v) (get (snd ao))) aos))
    = count Z.eqb v (map snd (votes get aos k)).
  Proof.
    induction aos as [|ao aos IH]; intros Hwf; [reflexivity|].
    rewrite votes_vals_cons, (count_app Z.eqb Z_eqb_reflect). rewrite count_one_obs by (apply Hwf; now left).
    rewrite <- IH by (eapply maps_wf_tail; eassumption). cbn [filter].
    destruct (existsb (fun kv => N.eqb (fst kv) k && Z.eqb (snd kv) v) (get (snd ao))); cbn [length]; lia.
  Qed.

  (* "reported by that many DISTINCT oracles" is the model's count when every oracle sends one observation *)
  Lemma distinct_reporters_count aos k v :
    NoDup (map fst aos) -> maps_wf get aos ->
    distinct_reporters Z.eqb get aos k v = count Z.eqb v (map snd (votes get aos k)).
  Proof.
    intros ND Hwf. unfold distinct_reporters.
    rewrite dedupN_nodup_id by (apply nodup_map_filter; exact ND). rewrite map_length.
    now apply reporters_count.
  Qed.

  Lemma f_of_fch_val F aos k : NoDup (map fst aos) -> maps_wf get aos -> f_of get F aos k = fch_val F aos k.
  Proof.
    intros ND Hwf. unfold f_of, prescribed, fch_val, valid. rewrite values_for_votes.
    rewrite (filter_ext _ (fun x => N.leb (two_f_plus_1 F) (count Z.eqb x (map snd (votes get aos k))))); [reflexivity|].
    intros v. now rewrite distinct_reporters_count.
  Qed.

  (* the statement's "agreed f of chain k" is the model's fChain consensus *)
  Lemma f_of_fchain_cons F aos k :
    NoDup (map fst aos) -> maps_wf get aos -> f_of get F aos k = alookup k (fchain_cons get F aos).
  Proof. intros ND Hwf. now rewrite alookup_fchain_cons, f_of_fch_val. Qed.

  Lemma fchain_cons_reported F aos k f :
    alookup k (fchain_cons get F aos) = Some f -> exists ao, In ao aos /\ In (k, f) (get (snd ao)).
  Proof.
    intros H. apply alookup_In in H. unfold fchain_cons in H.
    apply (consensus_value_reported get Z.eqb Z_eqb_reflect) in H. destruct H as [o [ob [Hi Hg]]].
    exists (o, ob). tauto.
  Qed.
End FChain.

(* ---------- thresholds ---------- *)
Lemma enough_thr f n : (0 < f < 2 ^ 62)%Z -> N.ltb (N.of_nat n) (agg_thr (two_f_plus_1 f)) = negb (enough f n).
Proof.
  intros H. rewrite agg_thr_small by lia. unfold enough.
  destruct (N.ltb_spec (N.of_nat n) (Z.to_N (2 * f + 1))), (Z.leb_spec (2 * f + 1) (Z.of_nat n)); cbn [negb]; try reflexivity; lia.
Qed.
Lemma agg_thr_pos f : (0 < f < 2 ^ 62)%Z -> (0 < agg_thr (two_f_plus_1 f))%N.
Proof. intros H. rewrite agg_thr_small by lia. lia. Qed.
Lemma enough_int64s f n : (0 < f < 2 ^ 62)%Z -> Z.ltb (Z.of_nat n) (int64s (2 * f + 1)) = negb (enough f n).
Proof.
  intros H. unfold int64s, enough. rewrite Z.mod_small by lia.
  destruct (Z.ltb_spec (Z.of_nat n) (2 * f + 1 + 9223372036854775808 - 9223372036854775808)), (Z.leb_spec (2 * f + 1) (Z.of_nat n));
    cbn [negb]; try reflexivity; lia.
Qed.

(* ---------- key order ---------- *)
Lemma keys_strict_nodup {V} (l : list (N * V)) : keys_strict l -> NoDup (map fst l).
Proof.
  induction 1 as [|a l Hs IH Hall]; cbn [map]; constructor; [|exact IH].
  intros Hi. apply in_map_iff in Hi. destruct Hi as [b [Hb Hi]]. rewrite Forall_forall in Hall.
  specialize (Hall b Hi). cbn in Hall. lia.
Qed.

Lemma keys_strict_ksorted {V} (l : list (N * V)) : keys_strict l -> KSorted fst l.
Proof.
  unfold keys_strict, KSorted. induction 1 as [|a l Hs IH Hall]; constructor; [exact IH|].
  eapply Forall_impl; [|exact Hall]. cbn. intros; lia.
Qed.

(* a strictly key-sorted list is determined by its members *)
Lemma keys_strict_unique {V} (l1 l2 : list (N * V)) :
  keys_strict l1 -> keys_strict l2 -> (forall x, In x l1 <-> In x l2) -> l1 = l2.
Proof.
  intros S1 S2 Hin. apply (ksorted_perm_eq fst); [now apply keys_strict_ksorted|now apply keys_strict_ksorted|now apply keys_strict_nodup|].
  apply NoDup_Permutation; [eapply NoDup_map_inv, keys_strict_nodup; exact S1|eapply NoDup_map_inv, keys_strict_nodup; exact S2|exact Hin].
Qed.

Lemma flat_map_keys_strict {V} (g : N -> list (N * V)) ks :
  StronglySorted N.lt ks -> (forall k x, In x (g k) -> fst x = k) -> (forall k, (length (g k) <= 1)%nat) ->
  keys_strict (flat_map g ks).
Proof.
  intros S Hk Hl. unfold keys_strict. induction S as [|k ks S IH Hall]; cbn [flat_map]; [constructor|].
  pose proof (Hl k) as Hlk. destruct (g k) as [|x [|y r]] eqn:Eg; cbn [length app] in *; [exact IH| |lia].
  constructor; [exact IH|]. rewrite Forall_forall. intros b Hb. apply in_flat_map in Hb. destruct Hb as [k2 [Hk2 Hb]].
  rewrite Forall_forall in Hall. specialize (Hall k2 Hk2).
  assert (E1 : fst x = k) by (apply Hk; rewrite Eg; now left). rewrite E1, (Hk k2 b Hb). exact Hall.
Qed.

Lemma flat_map_key_in {V} (g : N -> list (N * V)) ks x :
  (forall k y, In y (g k) -> fst y = k) -> (forall k, ~ In k ks -> g k = []) ->
  (In x (flat_map g ks) <-> In x (g (fst x))).
Proof.
  intros Hk Hn. rewrite in_flat_map. split.
  - intros [k [Hi Hx]]. now rewrite (Hk k x Hx).
  - intros Hx. exists (fst x). split; [|exact Hx].
    destruct (in_dec N.eq_dec (fst x) ks) as [Hi|Hi]; [exact Hi|]. rewrite (Hn _ Hi) in Hx. contradiction.
Qed.

Lemma sortN_strict l : NoDup l -> StronglySorted N.lt (sortN l).
Proof.
  intros ND. assert (ND' : NoDup (sortN l)) by (eapply Permutation_NoDup; [symmetry; apply sortN_perm_self|exact ND]).
  pose proof (sortN_sorted l) as S. revert S ND'. generalize (sortN l). intros s S.
  induction S as [|a s S IH Hall]; intros ND'; constructor.
  - apply IH. now inversion ND'.
  - inversion ND' as [|? ? Hn _]; subst. rewrite Forall_forall in *. intros b Hb. specialize (Hall b Hb).
    assert (a <> b) by (intros ->; contradiction). lia.
Qed.

Lemma strictly_asc_sorted l : strictly_asc l = true <-> StronglySorted N.lt l.
Proof.
  induction l as [|x l IH]; [split; [constructor|reflexivity]|].
  destruct l as [|y l'].
  - split; [intros _; constructor; constructor|reflexivity].
  - change (strictly_asc (x :: y :: l')) with (N.ltb x y && strictly_asc (y :: l')).
    rewrite andb_true_iff, N.ltb_lt, IH. split.
    + intros [Hxy S]. constructor; [exact S|]. constructor; [exact Hxy|].
      inversion S as [|? ? _ Hall]; subst. eapply Forall_impl; [|exact Hall]. cbn. intros; lia.
    + intros S. inversion S as [|? ? S' Hall]; subst. split; [now inversion Hall|exact S'].
Qed.

Lemma keys_strict_map {V} (l : list (N * V)) : keys_strict l <-> StronglySorted N.lt (map fst l).
Proof.
  unfold keys_strict. induction l as [|a l IH]; cbn [map]; [split; constructor|]. split.
  - intros S. inversion S as [|? ? S' Hall]; subst. constructor; [now apply IH|].
    rewrite Forall_forall in *. intros b Hb. apply in_map_iff in Hb. destruct Hb as [c [<- Hc]]. now apply Hall.
  - intros S. inversion S as [|? ? S' Hall]; subst. constructor; [now apply IH|].
    rewrite Forall_forall in *. intros b Hb. apply Hall. now apply in_map.
Qed.

Lemma strictly_asc_keys {V} (l : list (N * V)) : strictly_asc (map fst l) = true <-> keys_strict l.
Proof. rewrite strictly_asc_sorted. symmetry. apply keys_strict_map. Qed.

(* ---------- select ---------- *)
Lemma select_cons {A} b bs (a : A) l : select (b :: bs) (a :: l) = if b then a :: select bs l else select bs l.
Proof. unfold select. cbn [combine filter fst]. destruct b; reflexivity. Qed.
Lemma select_nil_l {A} (l : list A) : select [] l = [].
Proof. reflexivity. Qed.
Lemma select_nil_r {A} bs : select bs (@nil A) = [].
Proof. destruct bs; reflexivity. Qed.

Lemma select_map_filter {A} (p : A -> bool) l : select (map p l) l = filter p l.
Proof.
  induction l as [|a l IH]; [reflexivity|]. cbn [map filter]. rewrite select_cons, IH. reflexivity.
Qed.

Lemma select_incl {A} bs (l : list A) x : In x (select bs l) -> In x l.
Proof.
  revert bs. induction l as [|a l IH]; intros bs; [rewrite select_nil_r; intros []|].
  destruct bs as [|b bs]; [intros []|]. rewrite select_cons. destruct b.
  - intros [->|H]; [now left|right; eapply IH; exact H].
  - intros H. right. eapply IH; exact H.
Qed.

Lemma select_nodup {A} (key : A -> N) bs l : NoDup (map key l) -> NoDup (map key (select bs l)).
Proof.
  revert bs. induction l as [|a l IH]; intros bs ND; [rewrite select_nil_r; constructor|].
  destruct bs as [|b bs]; [constructor|]. rewrite select_cons. cbn [map] in ND. inversion ND as [|? ? Hn ND']; subst.
  destruct b; [|now apply IH]. cbn [map]. constructor; [|now apply IH].
  intros Hi. apply Hn. apply in_map_iff in Hi. destruct Hi as [c [Hc Hi]]. apply select_incl in Hi.
  apply in_map_iff. exists c. tauto.
Qed.

(* ====================================================================================================== *)
(*              C14_cf : chainfee ValidateObservation + Outcome (the selection / median clauses)          *)
(* ====================================================================================================== *)
(* what the harness guarantees of an observation: Go maps (no key twice), agreed-f candidates below 2^62 (spec: trusted) *)
Definition fchain_ok (l : list (N * Z)) : Prop := NoDup (map fst l) /\ forall k f, In (k, f) l -> (0 < f < 2 ^ 62)%Z.
Definition cf_obs_wf (ob : cf_obs) : Prop :=
  NoDup (map fst (cf_feecomp ob)) /\ NoDup (map fst (cf_native ob)) /\ NoDup (map fst (cf_updates ob)) /\
  fchain_ok (cf_fchain ob).
Definition cf_acc_wf (acc : list (N * cf_obs)) : Prop :=
  NoDup (map fst acc) /\ forall ao, In ao acc -> cf_obs_wf (snd ao).

(* the body of cf_spec, named *)
Definition cf_sel (freq : Z) (feeinfo : list (N * (Z * Z))) (fd now : Z) (k : N) (ex da : Z) (ups : list update_t) : bool :=
  if enough fd (length ups) then
    let uex := medianZ (map (fun u => fst (fst u)) ups) in
    let uda := medianZ (map (fun u => snd (fst u)) ups) in
    let uts := medianZ (map snd ups) in
    Z.ltb (uts + freq) now ||
    match alookup k feeinfo with
    | None => false
    | Some (eppb, dppb) => dev_spec ex uex eppb || dev_spec da uda dppb
    end
  else true.
Definition cf_spec_key (freq : Z) (feeinfo : list (N * (Z * Z))) (F : Z) (acc : list (N * cf_obs)) (fd now : Z) (k : N)
  : list (N * Z) :=
  match f_of cf_fchain F acc k with
  | None => []
  | Some fk =>
      let fcs := obs_vals cf_feecomp acc k in
      let nts := obs_vals cf_native acc k in
      if enough fk (length fcs) && enough fk (length nts) then
        let p := medianZ nts in
        let ex := usd_per_unit_gas (medianZ (map fst fcs)) p in
        let da := usd_per_unit_gas (medianZ (map snd fcs)) p in
        if cf_sel freq feeinfo fd now k ex da (obs_vals cf_updates acc k) then [(k, to_packed da ex)] else []
      else []
  end.
Lemma cf_spec_unfold freq feeinfo F dest acc :
  cf_spec freq feeinfo F dest acc =
  match f_of cf_fchain F acc dest with
  | None => Err
  | Some fd =>
      if negb (enough fd (length acc)) then Err
      else Ok (flat_map (cf_spec_key freq feeinfo F acc fd (medianZ (map (fun ao => cf_ts (snd ao)) acc)))
                        (sortN (keys_of cf_feecomp acc)))
  end.
Proof. reflexivity. Qed.

Section ChainFeeSpec.
  Variables (freq : Z) (feeinfo : list (N * (Z * Z))) (F : Z) (dest : N) (acc : list (N * cf_obs)).
  Hypothesis Hwf : cf_acc_wf acc.
  Local Notation fch := (fchain_cons cf_fchain F acc).

  Lemma cf_wf_fchain : maps_wf cf_fchain acc.
  Proof. intros ao Ha. apply (proj2 Hwf) in Ha. apply Ha. Qed.
  Lemma cf_wf_feecomp : maps_wf cf_feecomp acc.
  Proof. intros ao Ha. apply (proj2 Hwf) in Ha. apply Ha. Qed.
  Lemma cf_wf_native : maps_wf cf_native acc.
  Proof. intros ao Ha. apply (proj2 Hwf) in Ha. apply Ha. Qed.
  Lemma cf_wf_updates : maps_wf cf_updates acc.
  Proof. intros ao Ha. apply (proj2 Hwf) in Ha. apply Ha. Qed.

  Lemma cf_f_of k : f_of cf_fchain F acc k = alookup k fch.
  Proof. apply f_of_fchain_cons; [exact (proj1 Hwf)|exact cf_wf_fchain]. Qed.

  Lemma cf_fch_bound k f : alookup k fch = Some f -> (0 < f < 2 ^ 62)%Z.
  Proof.
    intros H. apply fchain_cons_reported in H. destruct H as [ao [Ha Hi]].
    apply (proj2 Hwf) in Ha. destruct Ha as [_ [_ [_ [_ Hb]]]]. eapply Hb; exact Hi.
  Qed.

  Lemma key_thr_pos k t : key_thr fch k = Some t -> (0 < t)%N.
  Proof. intros H. apply key_thr_some in H. destruct H as [f [Hf ->]]. apply agg_thr_pos. eapply cf_fch_bound; exact Hf. Qed.

  Lemma key_thr_lookup {T} (agg : list T -> T) (get : cf_obs -> list (N * T)) k :
    maps_wf get acc ->
    alookup k (consensus_agg (key_thr fch) agg (agg_map get acc)) =
    match alookup k fch with
    | None => None
    | Some fk => if enough fk (length (obs_vals get acc k)) then Some (agg (obs_vals get acc k)) else None
    end.
  Proof.
    intros Hm. rewrite alookup_agg_field by (try exact Hm; apply key_thr_pos).
    unfold key_thr, thr_2f1. destruct (alookup k fch) as [fk|] eqn:Ek; cbn [option_map]; [|reflexivity].
    rewrite enough_thr by (eapply cf_fch_bound; exact Ek). destruct (enough fk (length (obs_vals get acc k))); reflexivity.
  Qed.

  Lemma const_thr_lookup {T} (agg : list T -> T) (get : cf_obs -> list (N * T)) fd k :
    maps_wf get acc -> (0 < fd < 2 ^ 62)%Z ->
    alookup k (consensus_agg (const_thr fd) agg (agg_map get acc)) =
    if enough fd (length (obs_vals get acc k)) then Some (agg (obs_vals get acc k)) else None.
  Proof.
    intros Hm Hb. rewrite alookup_agg_field; [|exact Hm|].
    - unfold const_thr. rewrite enough_thr by exact Hb. destruct (enough fd (length (obs_vals get acc k))); reflexivity.
    - unfold const_thr. intros t Ht. inversion Ht. now apply agg_thr_pos.
  Qed.

  Section WithCons.
    Variables (c : cf_cons) (fd : Z).
    Hypothesis Hc : cf_consensus F dest acc = Ok c.
    Hypothesis Hd : alookup dest fch = Some fd.

    Lemma cf_cons_eqs :
      cc_feecomp c = consensus_agg (key_thr fch) feecomp_agg (agg_map cf_feecomp acc) /\
      cc_native c = consensus_agg (key_thr fch) medianZ (agg_map cf_native acc) /\
      cc_updates c = consensus_agg (const_thr fd) update_agg (agg_map cf_updates acc) /\
      cc_ts c = medianZ (map (fun ao => cf_ts (snd ao)) acc).
    Proof.
      destruct (cf_consensus_inv _ _ _ _ Hc) as [fd' [Hd' [_ [_ [E1 [E2 [E3 E4]]]]]]].
      rewrite Hd in Hd'. inversion Hd'; subst fd'. tauto.
    Qed.

    Lemma cf_sel_eq k ex da :
      cf_sel freq feeinfo fd (cc_ts c) k ex da (obs_vals cf_updates acc k)
      = gas_selected freq feeinfo (cc_updates c) (cc_ts c) k ex da.
    Proof.
      destruct cf_cons_eqs as [_ [_ [E3 _]]]. unfold cf_sel, gas_selected. rewrite E3.
      rewrite const_thr_lookup by (try exact cf_wf_updates; eapply cf_fch_bound; exact Hd).
      destruct (enough fd (length (obs_vals cf_updates acc k))); [|reflexivity].
      unfold update_agg. cbn zeta.
      destruct (Z.ltb (medianZ (map snd (obs_vals cf_updates acc k)) + freq) (cc_ts c)); cbn [orb]; [reflexivity|].
      destruct (alookup k feeinfo) as [[eppb dppb]|]; [|reflexivity]. now rewrite !dev_spec_eq.
    Qed.

    Lemma cf_spec_key_in k g :
      In (k, g) (cf_spec_key freq feeinfo F acc fd (cc_ts c) k) <->
      exists ex da, In (k, (ex, da)) (cf_usd c) /\
        gas_selected freq feeinfo (cc_updates c) (cc_ts c) k ex da = true /\ g = to_packed da ex.
    Proof.
      destruct cf_cons_eqs as [E1 [E2 _]].
      pose proof (key_thr_lookup feecomp_agg cf_feecomp k cf_wf_feecomp) as L1. rewrite <- E1 in L1.
      pose proof (key_thr_lookup medianZ cf_native k cf_wf_native) as L2. rewrite <- E2 in L2.
      assert (NDfc : NoDup (map fst (cc_feecomp c))) by (rewrite E1; apply consensus_agg_keys_nodup, agg_map_keys_nodup).
      unfold cf_spec_key. rewrite cf_f_of. split.
      - destruct (alookup k fch) as [fk|] eqn:Ek; [|intros []].
        destruct (enough fk (length (obs_vals cf_feecomp acc k))) eqn:Ef; cbn [andb]; [|intros []].
        destruct (enough fk (length (obs_vals cf_native acc k))) eqn:En; [|intros []]. cbn zeta.
        rewrite cf_sel_eq.
        match goal with |- In _ (if ?s then _ else _) -> _ => destruct s eqn:Es end; [|intros []].
        intros [E|[]]. inversion E; subst g.
        eexists. eexists. split; [|split; [exact Es|reflexivity]].
        apply cf_usd_in. eexists. eexists. eexists. split; [apply alookup_In; rewrite L1; reflexivity|].
        split; [rewrite L2; reflexivity|]. split; reflexivity.
      - intros [ex [da [Hu [Hs ->]]]]. apply cf_usd_in in Hu. destruct Hu as [fe [fdd [p [Hfc [Hn [-> ->]]]]]].
        apply (alookup_NoDup_In _ _ _ NDfc) in Hfc. rewrite L1 in Hfc. rewrite L2 in Hn.
        destruct (alookup k fch) as [fk|] eqn:Ek; [|discriminate].
        destruct (enough fk (length (obs_vals cf_feecomp acc k))) eqn:Ef; [|discriminate].
        destruct (enough fk (length (obs_vals cf_native acc k))) eqn:En; [|discriminate].
        inversion Hfc; subst fe fdd. inversion Hn; subst p. cbn [andb]. cbn zeta.
        rewrite cf_sel_eq, Hs. now left.
    Qed.
  End WithCons.

  Lemma cf_spec_key_shape fd now k :
    cf_spec_key freq feeinfo F acc fd now k = [] \/ exists g, cf_spec_key freq feeinfo F acc fd now k = [(k, g)].
  Proof.
    unfold cf_spec_key. destruct (f_of cf_fchain F acc k); [|now left].
    destruct (_ && _); [|now left]. cbn zeta.
    destruct (cf_sel _ _ _ _ _ _ _ _); [right; eexists; reflexivity|now left].
  Qed.

  Lemma cf_spec_key_nokey fd now k : ~ In k (keys_of cf_feecomp acc) -> cf_spec_key freq feeinfo F acc fd now k = [].
  Proof.
    intros Hn. unfold cf_spec_key. rewrite cf_f_of. destruct (alookup k fch) as [fk|] eqn:Ek; [|reflexivity].
    rewrite (obs_vals_nokey cf_feecomp acc k Hn). apply cf_fch_bound in Ek.
    unfold enough at 1. cbn [length]. destruct (Z.leb_spec (2 * fk + 1) (Z.of_nat 0)); [lia|reflexivity].
  Qed.

  (* THE equivalence: the statement restated by direct counting is the model's Outcome *)
  Theorem cf_spec_outcome : cf_spec freq feeinfo F dest acc = cf_outcome freq feeinfo F dest acc.
  Proof.
    rewrite cf_spec_unfold, cf_f_of.
    destruct (cf_consensus F dest acc) as [c| | |] eqn:Hc.
    - destruct (cf_consensus_inv _ _ _ _ Hc) as [fd [Hd [Hlen [_ [_ [_ [_ Ets]]]]]]].
      rewrite Hd. pose proof (cf_fch_bound _ _ Hd) as Hb.
      assert (He : enough fd (length acc) = true).
      { pose proof (enough_int64s fd (length acc) Hb) as E.
        destruct (Z.ltb_spec (Z.of_nat (length acc)) (int64s (2 * fd + 1))); [lia|]. now destruct (enough fd (length acc)). }
      rewrite He. cbn [negb].
      destruct (cf_outcome freq feeinfo F dest acc) as [out| | |] eqn:Ho;
        try (unfold cf_outcome in Ho; rewrite Hc in Ho; destruct (cc_feecomp c); discriminate).
      f_equal. destruct (cf_selection _ _ _ _ _ _ Ho) as [c' [Hc' [Hiff Hs]]].
      rewrite Hc in Hc'. inversion Hc'; subst c'. rewrite <- Ets.
      apply keys_strict_unique; [| exact Hs |].
      + apply flat_map_keys_strict.
        * apply sortN_strict. unfold keys_of. apply (dedup_nodup N.eqb N_eqb_reflect).
        * intros k x Hx. destruct (cf_spec_key_shape fd (cc_ts c) k) as [E|[g E]]; rewrite E in Hx; [contradiction|].
          destruct Hx as [<-|[]]. reflexivity.
        * intros k. destruct (cf_spec_key_shape fd (cc_ts c) k) as [E|[g E]]; rewrite E; cbn [length]; lia.
      + intros [k g]. rewrite Hiff. rewrite flat_map_key_in.
        * cbn [fst]. now apply cf_spec_key_in.
        * intros k' x Hx. destruct (cf_spec_key_shape fd (cc_ts c) k') as [E|[g' E]]; rewrite E in Hx; [contradiction|].
          destruct Hx as [<-|[]]. reflexivity.
        * intros k' Hk. apply cf_spec_key_nokey. intros Hi. apply Hk. now apply sort_by_in.
    - unfold cf_outcome. rewrite Hc. unfold cf_consensus in Hc. cbn zeta in Hc.
      destruct (alookup dest fch) as [fd|] eqn:Hd; [|reflexivity].
      rewrite (enough_int64s fd (length acc) (cf_fch_bound _ _ Hd)) in Hc.
      destruct (negb (enough fd (length acc))); [reflexivity|discriminate].
    - exfalso. unfold cf_consensus in Hc. cbn zeta in Hc. destruct (alookup dest fch); [|discriminate].
      destruct (Z.ltb _ _); discriminate.
    - exfalso. unfold cf_consensus in Hc. cbn zeta in Hc. destruct (alookup dest fch); [|discriminate].
      destruct (Z.ltb _ _); discriminate.
  Qed.
End ChainFeeSpec.

(* ---------- the raw input: what the harness guarantees ---------- *)
Definition cf_raw_wf (r : cf_raw) : Prop :=
  NoDup (map fst (cfr_feecomp r)) /\ NoDup (map fst (cfr_native r)) /\ NoDup (map fst (cfr_updates r)) /\
  NoDup (map fst (cfr_fchain r)) /\ forall k f, In (k, f) (cfr_fchain r) -> (f < 2 ^ 62)%Z.
Definition cf_input_wf (aos : list (N * cf_raw)) : Prop := forall ao, In ao aos -> cf_raw_wf (snd ao).

Lemma map_fst_tag {A B C} (f : A * B -> C) (l : list (A * B)) : map fst (map (fun e => (fst e, f e)) l) = map fst l.
Proof. rewrite map_map. apply map_ext. reflexivity. Qed.

Lemma map_fst_keep {A B C} (g : A * B -> A * C) (l : list (A * B)) :
  (forall e, fst (g e) = fst e) -> map fst (map g l) = map fst l.
Proof. intros H. rewrite map_map. apply map_ext. exact H. Qed.

Lemma cf_clean_wf r :
  cf_raw_wf r -> forallb (fun e => Z.ltb 0 (snd e)) (cfr_fchain r) = true -> cf_obs_wf (cf_clean r).
Proof.
  intros [H1 [H2 [H3 [H4 H5]]]] Hp. unfold cf_obs_wf, cf_clean. cbn [cf_feecomp cf_native cf_updates cf_fchain].
  rewrite !map_fst_keep by (intros; reflexivity).
  repeat split; try assumption.
  - rewrite forallb_forall in Hp. specialize (Hp _ H). cbn [snd] in Hp. lia.
  - eapply H5; exact H.
Qed.

Lemma cf_acc_wf_select (aos : list (N * cf_raw)) vs :
  NoDup (map fst aos) -> cf_input_wf aos ->
  (forall ao, In ao (select vs aos) -> forallb (fun e => Z.ltb 0 (snd e)) (cfr_fchain (snd ao)) = true) ->
  cf_acc_wf (map (fun ao => (fst ao, cf_clean (snd ao))) (select vs aos)).
Proof.
  intros ND Hin Hp. split.
  - rewrite (map_fst_tag (fun ao => cf_clean (snd ao))). now apply select_nodup.
  - intros ao Ha. apply in_map_iff in Ha. destruct Ha as [a [<- Ha]]. cbn [snd].
    apply cf_clean_wf; [|now apply Hp]. apply Hin. eapply select_incl; exact Ha.
Qed.

Lemma cf_consensus_ok_err F dest acc : (exists c, cf_consensus F dest acc = Ok c) \/ cf_consensus F dest acc = Err.
Proof.
  unfold cf_consensus. cbn zeta. destruct (alookup dest (fchain_cons cf_fchain F acc)); [|now right].
  destruct (Z.ltb _ _); [now right|left; eexists; reflexivity].
Qed.

Lemma cf_outcome_ok_err freq feeinfo F dest acc :
  (exists out, cf_outcome freq feeinfo F dest acc = Ok out /\ keys_strict out) \/ cf_outcome freq feeinfo F dest acc = Err.
Proof.
  destruct (cf_outcome freq feeinfo F dest acc) as [out| | |] eqn:Ho.
  - left. exists out. split; [reflexivity|]. destruct (cf_selection _ _ _ _ _ _ Ho) as [c [_ [_ Hs]]]. exact Hs.
  - now right.
  - exfalso. unfold cf_outcome in Ho. destruct (cf_consensus_ok_err F dest acc) as [[c Hc]|Hc]; rewrite Hc in Ho; [|discriminate].
    destruct (cc_feecomp c); discriminate.
  - exfalso. unfold cf_outcome in Ho. destruct (cf_consensus_ok_err F dest acc) as [[c Hc]|Hc]; rewrite Hc in Ho; [|discriminate].
    destruct (cc_feecomp c); discriminate.
Qed.

(* the clause of C14_validated_no_null_chainfee, as a predicate of one raw observation *)
Definition cf_no_null (r : cf_raw) : Prop :=
  (forall k ex da, In (k, (ex, da)) (cfr_feecomp r) -> exists e d, ex = Some e /\ da = Some d /\ (0 < e)%Z /\ (0 <= d)%Z) /\
  (forall k p, In (k, p) (cfr_native r) -> exists z, p = Some z /\ (0 < z)%Z) /\
  (forall k a b ts, In (k, (a, b, ts)) (cfr_updates r) -> a <> None /\ b <> None).

Lemma cf_accept_ok_sound ao :
  cf_accept_ok ao = true -> cf_no_null (snd ao) /\ forallb (fun e => Z.ltb 0 (snd e)) (cfr_fchain (snd ao)) = true.
Proof.
  unfold cf_accept_ok. cbn zeta. rewrite !andb_true_iff. intros [[[Hfc Hn] Hu] Hf]. split; [|exact Hf].
  rewrite !forallb_forall in *. split; [|split].
  - intros k ex da Hi. specialize (Hfc _ Hi). cbn [snd] in Hfc. destruct ex as [e|], da as [d|]; try discriminate.
    exists e, d. apply andb_true_iff in Hfc. repeat split; lia.
  - intros k p Hi. specialize (Hn _ Hi). cbn [snd] in Hn. destruct p as [z|]; [|discriminate]. exists z. split; [reflexivity|lia].
  - intros k a b ts Hi. specialize (Hu _ Hi). cbn [fst snd] in Hu. apply andb_true_iff in Hu. destruct Hu as [Ha Hb].
    destruct a, b; try discriminate. split; discriminate.
Qed.

Lemma cf_validate_accept_ok roles known dest ao : cf_validate roles known dest ao = true -> cf_accept_ok ao = true.
Proof.
  unfold cf_validate, cf_validate_unfixed, cf_accept_ok. cbn zeta. rewrite !andb_true_iff.
  intros [[[[[[Hf _] _] _] Hfc] Hn] Hu]. tauto.
Qed.

Section ChainFeeSink.
  (* (a) the model passes: distinct oracle ids (libocr: one observation per oracle) and Go-map observations *)
  Lemma cf_model_passes : forall freq feeinfo F dest roles known aos,
    NoDup (map fst aos) -> cf_input_wf aos ->
    cf_ok (freq, feeinfo, F, dest, roles, known, aos) (cf_model (freq, feeinfo, F, dest, roles, known, aos)) = true.
  Proof.
    intros freq feeinfo F dest roles known aos ND Hin. unfold cf_ok, cf_model. cbn [fst snd].
    assert (Hacc : forall ao, In ao (select (map (cf_validate roles known dest) aos) aos) -> cf_accept_ok ao = true).
    { intros ao Ha. rewrite select_map_filter in Ha. apply filter_In in Ha. eapply cf_validate_accept_ok. apply Ha. }
    assert (Hwf : cf_acc_wf (map (fun ao => (fst ao, cf_clean (snd ao))) (select (map (cf_validate roles known dest) aos) aos))).
    { apply cf_acc_wf_select; try assumption. intros ao Ha. apply (cf_accept_ok_sound ao (Hacc ao Ha)). }
    rewrite !andb_true_iff. repeat split.
    - rewrite map_length. apply Nat.eqb_refl.
    - now apply nodupb_NoDup.
    - apply forallb_forall. exact Hacc.
    - rewrite (cf_spec_outcome _ _ _ _ _ Hwf). apply out_eqb_refl.
    - match goal with |- match ?r with _ => _ end = true => destruct (cf_outcome_ok_err freq feeinfo F dest
          (map (fun ao => (fst ao, cf_clean (snd ao))) (select (map (cf_validate roles known dest) aos) aos))) as [[out [E Hs]]|E];
          rewrite E end; [now apply strictly_asc_keys|reflexivity].
  Qed.

  (* (b) an output the judge accepts IS the model's Outcome over the observations that output accepted, every accepted
     observation satisfies C14_validated_no_null_chainfee, verdict list complete, oracle ids distinct *)
  Lemma cf_sound : forall freq feeinfo F dest roles known aos o,
    cf_input_wf aos ->
    cf_ok (freq, feeinfo, F, dest, roles, known, aos) o = true ->
    let accr := select (fst o) aos in
    let acc := map (fun ao => (fst ao, cf_clean (snd ao))) accr in
    length (fst o) = length aos /\ NoDup (map fst aos) /\
    (forall ao, In ao accr -> cf_no_null (snd ao)) /\
    snd o = cf_outcome freq feeinfo F dest acc /\
    ((exists out, snd o = Ok out /\ keys_strict out) \/ snd o = Err).
  Proof.
    intros freq feeinfo F dest roles known aos o Hin H. cbn zeta. unfold cf_ok in H.
    rewrite !andb_true_iff in H. destruct H as [[[[Hl Hnd] Hacc] Heq] Hord].
    apply Nat.eqb_eq in Hl. apply nodupb_NoDup in Hnd. rewrite forallb_forall in Hacc. apply out_eqb_eq in Heq.
    assert (Hwf : cf_acc_wf (map (fun ao => (fst ao, cf_clean (snd ao))) (select (fst o) aos))).
    { apply cf_acc_wf_select; try assumption. intros ao Ha. apply (cf_accept_ok_sound ao (Hacc ao Ha)). }
    rewrite (cf_spec_outcome _ _ _ _ _ Hwf) in Heq.
    split; [exact Hl|]. split; [exact Hnd|]. split; [|split; [exact Heq|]].
    - intros ao Ha. apply (cf_accept_ok_sound ao (Hacc ao Ha)).
    - rewrite Heq. apply cf_outcome_ok_err.
  Qed.

  (* ... hence the clauses of C14_gas_price and C14_selection_gas hold of the implementation's prices *)
  Lemma cf_sound_gas_price : forall freq feeinfo F dest roles known aos o out k g,
    cf_input_wf aos ->
    cf_ok (freq, feeinfo, F, dest, roles, known, aos) o = true ->
    snd o = Ok out -> In (k, g) out ->
    let acc := map (fun ao => (fst ao, cf_clean (snd ao))) (select (fst o) aos) in
    exists f,
      alookup k (fchain_cons cf_fchain F acc) = Some f /\
      let fcs := map snd (votes cf_feecomp acc k) in
      let nts := map snd (votes cf_native acc k) in
      (agg_thr (two_f_plus_1 f) <= N.of_nat (length fcs))%N /\
      (agg_thr (two_f_plus_1 f) <= N.of_nat (length nts))%N /\
      g = to_packed (usd_per_unit_gas (medianZ (map snd fcs)) (medianZ nts))
                    (usd_per_unit_gas (medianZ (map fst fcs)) (medianZ nts)).
  Proof.
    intros freq feeinfo F dest roles known aos o out k g Hin Hok Ho Hi.
    destruct (cf_sound _ _ _ _ _ _ _ _ Hin Hok) as [_ [_ [_ [Heq _]]]]. rewrite Ho in Heq. symmetry in Heq.
    exact (gas_price_derivation _ _ _ _ _ _ _ _ Heq Hi).
  Qed.

  Lemma cf_sound_selection : forall freq feeinfo F dest roles known aos o out,
    cf_input_wf aos ->
    cf_ok (freq, feeinfo, F, dest, roles, known, aos) o = true ->
    snd o = Ok out ->
    let acc := map (fun ao => (fst ao, cf_clean (snd ao))) (select (fst o) aos) in
    exists c, cf_consensus F dest acc = Ok c /\
      (forall k g, In (k, g) out <->
         exists ex da, In (k, (ex, da)) (cf_usd c) /\ g = to_packed da ex /\
           (alookup k (cc_updates c) = None \/
            exists uex uda uts, alookup k (cc_updates c) = Some (uex, uda, uts) /\
              ((uts + freq < cc_ts c)%Z \/
               exists eppb dppb, alookup k feeinfo = Some (eppb, dppb) /\
                 (deviates ex uex eppb = true \/ deviates da uda dppb = true)))) /\
      keys_strict out.
  Proof.
    intros freq feeinfo F dest roles known aos o out Hin Hok Ho.
    destruct (cf_sound _ _ _ _ _ _ _ _ Hin Hok) as [_ [_ [_ [Heq _]]]]. rewrite Ho in Heq. symmetry in Heq.
    exact (selection_gas _ _ _ _ _ _ Heq).
  Qed.

  (* non-vacuity: four oracles, F = 1, chain 5 with f = 1: the stored update deviates, one price is selected *)
  Definition ex_cf_raw : cf_raw :=
    mkCfRaw [(5%N, (Some 30000000000, Some 1000000)%Z)] [(5%N, Some 2000000000000000000000%Z)]
            [(5%N, (Some 59000000000000, Some 2000000000, 40)%Z)] [(9%N, 1%Z); (5%N, 1%Z)] 100%Z.
  Definition ex_cf_in : cf_in :=
    (60%Z, [(5%N, (1000000, 1000000)%Z)], 1%Z, 9%N, [(5%N, [0; 1; 2; 3]%N); (9%N, [0; 1; 2; 3]%N)], [0; 1; 2; 3]%N,
     map (fun o => (o, ex_cf_raw)) [0; 1; 2; 3]%N).
  Example cf_ok_ex :
    cf_ok ex_cf_in ([true; true; true; true], Ok [(5%N, to_packed 2000000000 60000000000000)]) = true /\
    cf_ok ex_cf_in ([true; true; true; true], Ok []) = false.
  Proof. vm_compute. split; reflexivity. Qed.

  (* ---------- what was wrong with the check before ---------- *)
  Definition cf_spec_before (freq : Z) (feeinfo : list (N * (Z * Z))) (F : Z) (dest : N) (acc : list (N * cf_obs))
    : res (list (N * Z)) :=
    match f_of cf_fchain F acc dest with
    | None => Err
    | Some fd =>
        if negb (enough fd (length acc)) then Err
        else
          let now := medianZ (map (fun ao => cf_ts (snd ao)) acc) in
          Ok (flat_map (fun k =>
            match f_of cf_fchain F acc k with
            | None => []
            | Some fk =>
                let fcs := obs_vals cf_feecomp acc k in
                let nts := obs_vals cf_native acc k in
                if enough fk (length fcs) && enough fk (length nts) then
                  let p := medianZ nts in
                  let ex := usd_per_unit_gas (medianZ (map fst fcs)) p in
                  let da := usd_per_unit_gas (medianZ (map snd fcs)) p in
                  let ups := obs_vals cf_updates acc k in
                  let sel :=
                    if enough fd (length ups) then
                      let uex := medianZ (map (fun u => fst (fst u)) ups) in
                      let uda := medianZ (map (fun u => snd (fst u)) ups) in
                      let uts := medianZ (map snd ups) in
                      Z.ltb (uts + freq) now ||
                      match alookup k feeinfo with
                      | None => false
                      | Some (eppb, dppb) => dev_spec ex uex eppb || dev_spec da uda dppb
                      end
                    else true in
                  if sel then [(k, (da * 2 ^ 112 + ex)%Z)] else []
                else []
            end) (sortN (keys_of cf_feecomp acc)))
    end.
  Definition cf_accept_ok_before (ao : N * cf_raw) : bool :=
    let ob := snd ao in
    forallb (fun e => is_some (fst (snd e)) && is_some (snd (snd e))) (cfr_feecomp ob) &&
    forallb (fun e => is_some (snd e)) (cfr_native ob) &&
    forallb (fun e => is_some (fst (fst (snd e))) && is_some (snd (fst (snd e)))) (cfr_updates ob) &&
    forallb (fun e => Z.ltb 0 (snd e)) (cfr_fchain ob).
  Definition cf_ok_before (i : cf_in) (o : cf_out) : bool :=
    let '(freq, feeinfo, F, dest, roles, known, aos) := i in
    let accr := select (fst o) aos in
    let acc := map (fun ao => (fst ao, cf_clean (snd ao))) accr in
    Nat.eqb (length (fst o)) (length aos) &&
    nodupb N.eqb (map fst aos) &&
    forallb cf_accept_ok_before accr &&
    out_eqb (snd o) (cf_spec_before freq feeinfo F dest acc) &&
    match snd o with Ok l => strictly_asc (map fst l) | Err => true | _ => false end.

  (* 1. latent false alarm: an agreed execution price of 2^120 >= 2^112 overlaps the data-availability half; the code (and
     its model, C14_gas_price) report to_packed = the bitwise OR, the check demanded the SUM and rejected the model's own
     output on a well-formed input *)
  Definition fa_cf_raw : cf_raw :=
    mkCfRaw [(5%N, (Some (2 ^ 120), Some (2 ^ 8))%Z)] [(5%N, Some 1000000000000000000%Z)] [] [(9%N, 1%Z); (5%N, 1%Z)] 100%Z.
  Definition fa_cf_in : cf_in :=
    (60%Z, [], 1%Z, 9%N, [(5%N, [0; 1; 2; 3]%N); (9%N, [0; 1; 2; 3]%N)], [0; 1; 2; 3]%N,
     map (fun o => (o, fa_cf_raw)) [0; 1; 2; 3]%N).
  Example cf_ok_before_false_alarm :
    cf_model fa_cf_in = ([true; true; true; true], Ok [(5%N, (2 ^ 120)%Z)]) /\
    cf_ok_before fa_cf_in (cf_model fa_cf_in) = false /\
    cf_ok fa_cf_in (cf_model fa_cf_in) = true.
  Proof. vm_compute. repeat split. Qed.

  (* 2. weak: an accepted observation with a NEGATIVE execution fee passed (C14_validated_no_null_chainfee says 0 < e) *)
  Definition wk_cf_in : cf_in :=
    (60%Z, [], 1%Z, 9%N, [(5%N, [0; 1; 2; 3]%N); (9%N, [0; 1; 2; 3]%N)], [0; 1; 2; 3]%N,
     (0%N, mkCfRaw [(5%N, (Some (-5), Some 1)%Z)] [] [] [(9%N, 1%Z)] 100%Z)
       :: map (fun o => (o, mkCfRaw [] [] [] [(9%N, 1%Z)] 100%Z)) [1; 2; 3]%N).
  Example cf_ok_before_weak :
    cf_ok_before wk_cf_in ([true; true; true; true], Ok []) = true /\
    ~ cf_no_null (mkCfRaw [(5%N, (Some (-5), Some 1)%Z)] [] [] [(9%N, 1%Z)] 100%Z) /\
    cf_ok wk_cf_in ([true; true; true; true], Ok []) = false.
  Proof.
    split; [vm_compute; reflexivity|]. split; [|vm_compute; reflexivity].
    intros [H _]. destruct (H 5%N (Some (-5)%Z) (Some 1%Z) (or_introl eq_refl)) as [e [d [He [_ [Hp _]]]]].
    inversion He; subst e. lia.
  Qed.
End ChainFeeSink.

(* ====================================================================================================== *)
(*             C14_tp : tokenprice ValidateObservation + Outcome (the selection / median clauses)         *)
(* ====================================================================================================== *)
Lemma const_thr_lookup_gen {O T} (agg : list T -> T) (get : O -> list (N * T)) (acc : list (N * O)) fd k :
  maps_wf get acc -> (0 < fd < 2 ^ 62)%Z ->
  alookup k (consensus_agg (const_thr fd) agg (agg_map get acc)) =
  if enough fd (length (obs_vals get acc k)) then Some (agg (obs_vals get acc k)) else None.
Proof.
  intros Hm Hb. rewrite alookup_agg_field; [|exact Hm|].
  - unfold const_thr. rewrite enough_thr by exact Hb. destruct (enough fd (length (obs_vals get acc k))); reflexivity.
  - unfold const_thr. intros t Ht. inversion Ht. now apply agg_thr_pos.
Qed.

Definition tp_obs_wf (ob : tp_obs) : Prop :=
  NoDup (map fst (tp_feed ob)) /\ NoDup (map fst (tp_updates ob)) /\ fchain_ok (tp_fchain ob).
Definition tp_acc_wf (acc : list (N * tp_obs)) : Prop :=
  NoDup (map fst acc) /\ forall ao, In ao acc -> tp_obs_wf (snd ao).

Definition tp_sel (freq : Z) (tokeninfo : list (N * Z)) (fd now : Z) (t : N) (p : Z) (ups : list (Z * Z)) : bool :=
  if enough fd (length ups) then
    match alookup t tokeninfo with
    | None => false
    | Some ppb => Z.ltb (medianZ (map fst ups) + freq) now || dev_spec p (medianZ (map snd ups)) ppb
    end
  else true.
Definition tp_spec_key (freq : Z) (tokeninfo : list (N * Z)) (acc : list (N * tp_obs)) (fd ff now : Z) (t : N) : list (N * Z) :=
  let ps := obs_vals tp_feed acc t in
  if enough ff (length ps) then
    let p := medianZ ps in
    if tp_sel freq tokeninfo fd now t p (obs_vals tp_updates acc t) then [(t, p)] else []
  else [].
Lemma tp_spec_unfold freq tokeninfo feedchain F dest acc :
  tp_spec freq tokeninfo feedchain F dest acc =
  if Z.eqb freq 0 then Ok []
  else
    match f_of tp_fchain F acc dest, f_of tp_fchain F acc feedchain with
    | Some fd, Some ff =>
        Ok (flat_map (tp_spec_key freq tokeninfo acc fd ff (medianZ (map (fun ao => tp_ts (snd ao)) acc)))
                     (sortN (keys_of tp_feed acc)))
    | _, _ => Err
    end.
Proof. reflexivity. Qed.

Section TokenPriceSpec.
  Variables (freq : Z) (tokeninfo : list (N * Z)) (feedchain : N) (F : Z) (dest : N) (acc : list (N * tp_obs)).
  Hypothesis Hwf : tp_acc_wf acc.
  Local Notation fch := (fchain_cons tp_fchain F acc).

  Lemma tp_wf_fchain : maps_wf tp_fchain acc.
  Proof. intros ao Ha. apply (proj2 Hwf) in Ha. apply Ha. Qed.
  Lemma tp_wf_feed : maps_wf tp_feed acc.
  Proof. intros ao Ha. apply (proj2 Hwf) in Ha. apply Ha. Qed.
  Lemma tp_wf_updates : maps_wf tp_updates acc.
  Proof. intros ao Ha. apply (proj2 Hwf) in Ha. apply Ha. Qed.

  Lemma tp_f_of k : f_of tp_fchain F acc k = alookup k fch.
  Proof. apply f_of_fchain_cons; [exact (proj1 Hwf)|exact tp_wf_fchain]. Qed.

  Lemma tp_fch_bound k f : alookup k fch = Some f -> (0 < f < 2 ^ 62)%Z.
  Proof.
    intros H. apply fchain_cons_reported in H. destruct H as [ao [Ha Hi]].
    apply (proj2 Hwf) in Ha. destruct Ha as [_ [_ [_ Hb]]]. eapply Hb; exact Hi.
  Qed.

  Section WithCons.
    Variables (c : tp_cons) (fd ff : Z).
    Hypothesis Hc : tp_consensus feedchain F dest acc = Ok c.
    Hypothesis Hd : alookup dest fch = Some fd.
    Hypothesis Hff : alookup feedchain fch = Some ff.

    Lemma tp_cons_eqs :
      tc_feed c = consensus_agg (const_thr ff) medianZ (agg_map tp_feed acc) /\
      tc_updates c = consensus_agg (const_thr fd) tsbig_agg (agg_map tp_updates acc) /\
      tc_ts c = medianZ (map (fun ao => tp_ts (snd ao)) acc).
    Proof.
      destruct (tp_consensus_inv _ _ _ _ _ Hc) as [fd' [ff' [Hd' [Hff' [_ [E1 [E2 E3]]]]]]].
      rewrite Hd in Hd'. rewrite Hff in Hff'. inversion Hd'; inversion Hff'; subst fd' ff'. tauto.
    Qed.

    Lemma tp_sel_eq t p :
      tp_sel freq tokeninfo fd (tc_ts c) t p (obs_vals tp_updates acc t)
      = token_selected freq tokeninfo (tc_updates c) (tc_ts c) t p.
    Proof.
      destruct tp_cons_eqs as [_ [E2 _]]. unfold tp_sel, token_selected. rewrite E2.
      rewrite const_thr_lookup_gen by (try exact tp_wf_updates; eapply tp_fch_bound; exact Hd).
      destruct (enough fd (length (obs_vals tp_updates acc t))); [|reflexivity].
      unfold tsbig_agg. destruct (alookup t tokeninfo) as [ppb|]; [|reflexivity]. now rewrite dev_spec_eq.
    Qed.

    Lemma tp_spec_key_in t p :
      In (t, p) (tp_spec_key freq tokeninfo acc fd ff (tc_ts c) t) <->
      In (t, p) (tc_feed c) /\ token_selected freq tokeninfo (tc_updates c) (tc_ts c) t p = true.
    Proof.
      destruct tp_cons_eqs as [E1 _].
      pose proof (const_thr_lookup_gen medianZ tp_feed acc ff t tp_wf_feed (tp_fch_bound _ _ Hff)) as L1. rewrite <- E1 in L1.
      assert (NDf : NoDup (map fst (tc_feed c))) by (rewrite E1; apply consensus_agg_keys_nodup, agg_map_keys_nodup).
      unfold tp_spec_key. cbn zeta. split.
      - destruct (enough ff (length (obs_vals tp_feed acc t))) eqn:Ef; [|intros []].
        rewrite tp_sel_eq.
        match goal with |- In _ (if ?s then _ else _) -> _ => destruct s eqn:Es end; [|intros []].
        intros [E|[]]. inversion E; subst p. split; [|exact Es]. apply alookup_In. now rewrite L1.
      - intros [Hi Hs]. apply (alookup_NoDup_In _ _ _ NDf) in Hi. rewrite L1 in Hi.
        destruct (enough ff (length (obs_vals tp_feed acc t))) eqn:Ef; [|discriminate].
        inversion Hi; subst p. rewrite tp_sel_eq, Hs. now left.
    Qed.
  End WithCons.

  Lemma tp_spec_key_shape fd ff now t :
    tp_spec_key freq tokeninfo acc fd ff now t = [] \/ exists p, tp_spec_key freq tokeninfo acc fd ff now t = [(t, p)].
  Proof.
    unfold tp_spec_key. cbn zeta. destruct (enough _ _); [|now left].
    destruct (tp_sel _ _ _ _ _ _ _); [right; eexists; reflexivity|now left].
  Qed.

  Lemma tp_spec_key_nokey fd ff now t :
    (0 < ff)%Z -> ~ In t (keys_of tp_feed acc) -> tp_spec_key freq tokeninfo acc fd ff now t = [].
  Proof.
    intros Hp Hn. unfold tp_spec_key. cbn zeta. rewrite (obs_vals_nokey tp_feed acc t Hn).
    unfold enough. cbn [length]. destruct (Z.leb_spec (2 * ff + 1) (Z.of_nat 0)); [lia|reflexivity].
  Qed.

  Lemma tp_consensus_ok_err : (exists c, tp_consensus feedchain F dest acc = Ok c) \/ tp_consensus feedchain F dest acc = Err.
  Proof.
    unfold tp_consensus. cbn zeta. destruct (alookup dest fch); [|now right].
    destruct (alookup feedchain fch); [left; eexists; reflexivity|now right].
  Qed.

  Theorem tp_spec_outcome : tp_spec freq tokeninfo feedchain F dest acc = tp_outcome freq tokeninfo feedchain F dest acc.
  Proof.
    rewrite tp_spec_unfold. destruct (Z.eqb freq 0) eqn:Ez; [unfold tp_outcome; now rewrite Ez|].
    rewrite !tp_f_of.
    destruct tp_consensus_ok_err as [[c Hc]|Hc].
    - destruct (tp_consensus_inv _ _ _ _ _ Hc) as [fd [ff [Hd [Hff [_ [_ [_ Ets]]]]]]].
      rewrite Hd, Hff.
      assert (Ho : tp_outcome freq tokeninfo feedchain F dest acc = Ok (sort_keys (tokens_to_update freq tokeninfo c)))
        by (unfold tp_outcome; now rewrite Ez, Hc).
      rewrite Ho. f_equal.
      destruct (tp_selection _ _ _ _ _ _ _ Ho) as [[Hz _]|[_ [c' [Hc' [Hiff Hs]]]]]; [apply Z.eqb_neq in Ez; contradiction|].
      rewrite Hc in Hc'. inversion Hc'; subst c'. rewrite <- Ets.
      pose proof (tp_fch_bound _ _ Hff) as Hbf.
      apply keys_strict_unique; [|exact Hs|].
      + apply flat_map_keys_strict.
        * apply sortN_strict. unfold keys_of. apply (dedup_nodup N.eqb N_eqb_reflect).
        * intros k x Hx. destruct (tp_spec_key_shape fd ff (tc_ts c) k) as [E|[g E]]; rewrite E in Hx; [contradiction|].
          destruct Hx as [<-|[]]. reflexivity.
        * intros k. destruct (tp_spec_key_shape fd ff (tc_ts c) k) as [E|[g E]]; rewrite E; cbn [length]; lia.
      + intros [t p]. rewrite Hiff. rewrite flat_map_key_in.
        * cbn [fst]. now apply tp_spec_key_in.
        * intros k' x Hx. destruct (tp_spec_key_shape fd ff (tc_ts c) k') as [E|[g' E]]; rewrite E in Hx; [contradiction|].
          destruct Hx as [<-|[]]. reflexivity.
        * intros k' Hk. apply tp_spec_key_nokey; [lia|]. intros Hi. apply Hk. now apply sort_by_in.
    - unfold tp_outcome. rewrite Ez, Hc. unfold tp_consensus in Hc. cbn zeta in Hc.
      destruct (alookup dest fch) as [fd|]; [|reflexivity].
      destruct (alookup feedchain fch) as [ff|]; [discriminate|reflexivity].
  Qed.
End TokenPriceSpec.

Definition tp_raw_wf (r : tp_raw) : Prop :=
  NoDup (map fst (tpr_updates r)) /\ NoDup (map fst (tpr_fchain r)) /\ forall k f, In (k, f) (tpr_fchain r) -> (f < 2 ^ 62)%Z.
Definition tp_input_wf (aos : list (N * tp_raw)) : Prop := forall ao, In ao aos -> tp_raw_wf (snd ao).

(* the clause of C14_validated_no_null_tokenprice, as a predicate of one raw observation *)
Definition tp_no_null (r : tp_raw) : Prop :=
  NoDup (map fst (tpr_feed r)) /\
  (forall t p, In (t, p) (tpr_feed r) -> p <> None) /\
  (forall t ts v, In (t, (ts, v)) (tpr_updates r) -> v <> None).

Lemma tp_accept_ok_sound ao :
  tp_accept_ok ao = true -> tp_no_null (snd ao) /\ forallb (fun e => Z.ltb 0 (snd e)) (tpr_fchain (snd ao)) = true.
Proof.
  unfold tp_accept_ok. cbn zeta. rewrite !andb_true_iff. intros [[[Hnd Hf] Hu] Hfc]. split; [|exact Hfc].
  rewrite !forallb_forall in *. apply nodupb_NoDup in Hnd. split; [exact Hnd|]. split.
  - intros t p Hi. specialize (Hf _ Hi). cbn [snd] in Hf. destruct p; discriminate.
  - intros t ts v Hi. specialize (Hu _ Hi). cbn [snd] in Hu. destruct v; discriminate.
Qed.

Lemma tp_validate_accept_ok roles known feedchain dest ao :
  tp_validate roles known feedchain dest ao = true -> tp_accept_ok ao = true.
Proof.
  unfold tp_validate, tp_validate_unfixed, tp_accept_ok. cbn zeta. rewrite !andb_true_iff.
  intros [[[[[[Hf _] _] _] Hnd] Hfd] Hu]. tauto.
Qed.

Lemma tp_clean_wf r :
  tp_raw_wf r -> NoDup (map fst (tpr_feed r)) -> forallb (fun e => Z.ltb 0 (snd e)) (tpr_fchain r) = true ->
  tp_obs_wf (tp_clean r).
Proof.
  intros [H1 [H2 H3]] Hnd Hp. unfold tp_obs_wf, tp_clean. cbn [tp_feed tp_updates tp_fchain].
  rewrite !map_fst_keep by (intros; reflexivity). repeat split; try assumption.
  - rewrite forallb_forall in Hp. specialize (Hp _ H). cbn [snd] in Hp. lia.
  - eapply H3; exact H.
Qed.

Lemma tp_acc_wf_select (aos : list (N * tp_raw)) vs :
  NoDup (map fst aos) -> tp_input_wf aos ->
  (forall ao, In ao (select vs aos) -> tp_accept_ok ao = true) ->
  tp_acc_wf (map (fun ao => (fst ao, tp_clean (snd ao))) (select vs aos)).
Proof.
  intros ND Hin Hp. split.
  - rewrite (map_fst_tag (fun ao => tp_clean (snd ao))). now apply select_nodup.
  - intros ao Ha. apply in_map_iff in Ha. destruct Ha as [a [<- Ha]]. cbn [snd].
    destruct (tp_accept_ok_sound a (Hp a Ha)) as [[Hnd _] Hf].
    apply tp_clean_wf; [|exact Hnd|exact Hf]. apply Hin. eapply select_incl; exact Ha.
Qed.

Lemma tp_outcome_ok_err freq tokeninfo feedchain F dest acc :
  (exists out, tp_outcome freq tokeninfo feedchain F dest acc = Ok out /\ keys_strict out) \/
  tp_outcome freq tokeninfo feedchain F dest acc = Err.
Proof.
  destruct (tp_outcome freq tokeninfo feedchain F dest acc) as [out| | |] eqn:Ho.
  - left. exists out. split; [reflexivity|].
    destruct (tp_selection _ _ _ _ _ _ _ Ho) as [[_ ->]|[_ [c [_ [_ Hs]]]]]; [constructor|exact Hs].
  - now right.
  - exfalso. unfold tp_outcome in Ho. destruct (Z.eqb freq 0); [discriminate|].
    destruct (tp_consensus_ok_err feedchain F dest acc) as [[c Hc]|Hc]; rewrite Hc in Ho; discriminate.
  - exfalso. unfold tp_outcome in Ho. destruct (Z.eqb freq 0); [discriminate|].
    destruct (tp_consensus_ok_err feedchain F dest acc) as [[c Hc]|Hc]; rewrite Hc in Ho; discriminate.
Qed.

Section TokenPriceSink.
  Lemma tp_model_passes : forall freq tokeninfo feedchain F dest roles known aos,
    NoDup (map fst aos) -> tp_input_wf aos ->
    tp_ok (freq, tokeninfo, feedchain, F, dest, roles, known, aos)
          (tp_model (freq, tokeninfo, feedchain, F, dest, roles, known, aos)) = true.
  Proof.
    intros freq tokeninfo feedchain F dest roles known aos ND Hin. unfold tp_ok, tp_model. cbn [fst snd].
    assert (Hacc : forall ao, In ao (select (map (tp_validate roles known feedchain dest) aos) aos) -> tp_accept_ok ao = true).
    { intros ao Ha. rewrite select_map_filter in Ha. apply filter_In in Ha. eapply tp_validate_accept_ok. apply Ha. }
    pose proof (tp_acc_wf_select aos _ ND Hin Hacc) as Hwf.
    rewrite !andb_true_iff. repeat split.
    - rewrite map_length. apply Nat.eqb_refl.
    - now apply nodupb_NoDup.
    - apply forallb_forall. exact Hacc.
    - rewrite (tp_spec_outcome _ _ _ _ _ _ Hwf). apply out_eqb_refl.
    - destruct (tp_outcome_ok_err freq tokeninfo feedchain F dest
          (map (fun ao => (fst ao, tp_clean (snd ao))) (select (map (tp_validate roles known feedchain dest) aos) aos))) as [[out [E Hs]]|E];
        rewrite E; [now apply strictly_asc_keys|reflexivity].
  Qed.

  Lemma tp_sound : forall freq tokeninfo feedchain F dest roles known aos o,
    tp_input_wf aos ->
    tp_ok (freq, tokeninfo, feedchain, F, dest, roles, known, aos) o = true ->
    let accr := select (fst o) aos in
    let acc := map (fun ao => (fst ao, tp_clean (snd ao))) accr in
    length (fst o) = length aos /\ NoDup (map fst aos) /\
    (forall ao, In ao accr -> tp_no_null (snd ao)) /\
    snd o = tp_outcome freq tokeninfo feedchain F dest acc /\
    ((exists out, snd o = Ok out /\ keys_strict out) \/ snd o = Err).
  Proof.
    intros freq tokeninfo feedchain F dest roles known aos o Hin H. cbn zeta. unfold tp_ok in H.
    rewrite !andb_true_iff in H. destruct H as [[[[Hl Hnd] Hacc] Heq] Hord].
    apply Nat.eqb_eq in Hl. apply nodupb_NoDup in Hnd. rewrite forallb_forall in Hacc. apply out_eqb_eq in Heq.
    pose proof (tp_acc_wf_select aos (fst o) Hnd Hin Hacc) as Hwf.
    rewrite (tp_spec_outcome _ _ _ _ _ _ Hwf) in Heq.
    split; [exact Hl|]. split; [exact Hnd|]. split; [|split; [exact Heq|]].
    - intros ao Ha. apply (tp_accept_ok_sound ao (Hacc ao Ha)).
    - rewrite Heq. apply tp_outcome_ok_err.
  Qed.

  (* ... hence the clauses of C14_token_price, C14_token_price_robust and C14_selection_token hold of the
     implementation's prices *)
  Lemma tp_sound_token_price : forall freq tokeninfo feedchain F dest roles known aos o out t p,
    tp_input_wf aos ->
    tp_ok (freq, tokeninfo, feedchain, F, dest, roles, known, aos) o = true ->
    snd o = Ok out -> In (t, p) out ->
    let acc := map (fun ao => (fst ao, tp_clean (snd ao))) (select (fst o) aos) in
    exists ff,
      alookup feedchain (fchain_cons tp_fchain F acc) = Some ff /\
      let ps := map snd (votes tp_feed acc t) in
      (agg_thr (two_f_plus_1 ff) <= N.of_nat (length ps))%N /\ p = medianZ ps.
  Proof.
    intros freq tokeninfo feedchain F dest roles known aos o out t p Hin Hok Ho Hi.
    destruct (tp_sound _ _ _ _ _ _ _ _ _ Hin Hok) as [_ [_ [_ [Heq _]]]]. rewrite Ho in Heq. symmetry in Heq.
    exact (token_price_derivation _ _ _ _ _ _ _ _ _ Heq Hi).
  Qed.

  Lemma tp_sound_robust : forall freq tokeninfo feedchain F dest roles known aos o out t p ff hs bs lo hi,
    tp_input_wf aos ->
    tp_ok (freq, tokeninfo, feedchain, F, dest, roles, known, aos) o = true ->
    snd o = Ok out -> In (t, p) out ->
    let acc := map (fun ao => (fst ao, tp_clean (snd ao))) (select (fst o) aos) in
    alookup feedchain (fchain_cons tp_fchain F acc) = Some ff -> (0 <= ff < 2 ^ 62)%Z ->
    Permutation (map snd (votes tp_feed acc t)) (hs ++ bs) -> (length bs <= Z.to_nat ff)%nat ->
    (forall h, In h hs -> lo <= h <= hi)%Z ->
    (lo <= p <= hi)%Z.
  Proof.
    intros freq tokeninfo feedchain F dest roles known aos o out t p ff hs bs lo hi Hin Hok Ho Hi.
    destruct (tp_sound _ _ _ _ _ _ _ _ _ Hin Hok) as [_ [_ [_ [Heq _]]]]. rewrite Ho in Heq. symmetry in Heq.
    cbn zeta. exact (token_price_robust _ _ _ _ _ _ _ _ _ _ _ _ _ _ Heq Hi).
  Qed.

  Lemma tp_sound_selection : forall freq tokeninfo feedchain F dest roles known aos o out,
    tp_input_wf aos ->
    tp_ok (freq, tokeninfo, feedchain, F, dest, roles, known, aos) o = true ->
    snd o = Ok out ->
    let acc := map (fun ao => (fst ao, tp_clean (snd ao))) (select (fst o) aos) in
    (freq = 0%Z /\ out = []) \/
    (freq <> 0%Z /\ exists c, tp_consensus feedchain F dest acc = Ok c /\
       (forall t p, In (t, p) out <->
          In (t, p) (tc_feed c) /\
          (alookup t (tc_updates c) = None \/
           exists uts uval ppb, alookup t (tc_updates c) = Some (uts, uval) /\ alookup t tokeninfo = Some ppb /\
             ((uts + freq < tc_ts c)%Z \/ deviates p uval ppb = true))) /\
       keys_strict out).
  Proof.
    intros freq tokeninfo feedchain F dest roles known aos o out Hin Hok Ho.
    destruct (tp_sound _ _ _ _ _ _ _ _ _ Hin Hok) as [_ [_ [_ [Heq _]]]]. rewrite Ho in Heq. symmetry in Heq.
    exact (selection_token _ _ _ _ _ _ _ Heq).
  Qed.

  (* non-vacuity: four oracles, F = 1, feed chain 5 with f = 1, token 17: the stored value deviates *)
  Definition ex_tp_raw (p : Z) : tp_raw :=
    mkTpRaw [(17%N, Some p)] [(17%N, (40, Some 900)%Z)] [(9%N, 1%Z); (5%N, 1%Z)] 100%Z.
  Definition ex_tp_in : tp_in :=
    (60%Z, [(17%N, 1000000%Z)], 5%N, 1%Z, 9%N, [(5%N, [0; 1; 2; 3]%N); (9%N, [0; 1; 2; 3]%N)], [0; 1; 2; 3]%N,
     [(0%N, ex_tp_raw 1001); (1%N, ex_tp_raw 1002); (2%N, ex_tp_raw 1003); (3%N, ex_tp_raw 5000000)]).
  Example tp_ok_ex :
    tp_ok ex_tp_in ([true; true; true; true], Ok [(17%N, 1003%Z)]) = true /\
    tp_ok ex_tp_in ([true; true; true; true], Ok [(17%N, 1002%Z)]) = false.
  Proof. vm_compute. split; reflexivity. Qed.
End TokenPriceSink.

(* ====================================================================================================== *)
(*      C14_pplug / C14_pplugh : commit.Plugin ValidateObservation + Outcome + Reports, price processors  *)
(* ====================================================================================================== *)
Lemma cf_acc_wf_map {A} (proj : A -> cf_raw) (l : list (N * A)) :
  NoDup (map fst l) ->
  (forall a, In a l -> cf_raw_wf (proj (snd a)) /\ cf_accept_ok (fst a, proj (snd a)) = true) ->
  cf_acc_wf (map (fun ao => (fst ao, cf_clean (proj (snd ao)))) l).
Proof.
  intros ND H. split.
  - rewrite (map_fst_tag (fun ao => cf_clean (proj (snd ao)))). exact ND.
  - intros ao Ha. apply in_map_iff in Ha. destruct Ha as [a [<- Ha]]. cbn [snd]. destruct (H a Ha) as [Hw Hk].
    apply cf_clean_wf; [exact Hw|]. exact (proj2 (cf_accept_ok_sound _ Hk)).
Qed.

Lemma tp_acc_wf_map {A} (proj : A -> tp_raw) (l : list (N * A)) :
  NoDup (map fst l) ->
  (forall a, In a l -> tp_raw_wf (proj (snd a)) /\ tp_accept_ok (fst a, proj (snd a)) = true) ->
  tp_acc_wf (map (fun ao => (fst ao, tp_clean (proj (snd ao)))) l).
Proof.
  intros ND H. split.
  - rewrite (map_fst_tag (fun ao => tp_clean (proj (snd ao)))). exact ND.
  - intros ao Ha. apply in_map_iff in Ha. destruct Ha as [a [<- Ha]]. cbn [snd]. destruct (H a Ha) as [Hw Hk].
    destruct (tp_accept_ok_sound _ Hk) as [[Hnd _] Hf]. now apply tp_clean_wf.
Qed.

Lemma strictly_asc_carried r : (exists out, r = Ok out /\ keys_strict out) \/ r = Err -> strictly_asc (map fst (carried r)) = true.
Proof. intros [[out [-> Hs]]| ->]; cbn [carried]; [now apply strictly_asc_keys|reflexivity]. Qed.

Definition pplug_input_wf (aos : list (N * pplug_obs)) : Prop :=
  forall ao, In ao aos -> cf_raw_wf (fst (fst (snd ao))) /\ tp_raw_wf (snd (fst (snd ao))).

Lemma pplug_validate_inv roles known feedchain dest (ao : N * pplug_obs) :
  pplug_validate roles known feedchain dest ao = true ->
  tp_validate roles known feedchain dest (fst ao, snd (fst (snd ao))) = true /\
  cf_validate roles known dest (fst ao, fst (fst (snd ao))) = true.
Proof.
  destruct ao as [o [[cf tp] topf]]. unfold pplug_validate. cbn [fst snd]. rewrite !andb_true_iff. tauto.
Qed.

Section PluginSink.
  Variables (gfreq : Z) (feeinfo : list (N * (Z * Z))) (tfreq : Z) (tokeninfo : list (N * Z)) (feedchain : N) (F : Z) (dest : N)
            (roles : roles_t) (known : list N) (aos : list (N * pplug_obs)).
  Hypothesis Hnd : NoDup (map fst aos).
  Hypothesis Hin : pplug_input_wf aos.

  Local Notation vs := (map (pplug_validate roles known feedchain dest) aos).
  Local Notation cacc := (map (fun ao : N * pplug_obs => (fst ao, cf_clean (fst (fst (snd ao))))) (select vs aos)).
  Local Notation tacc := (map (fun ao : N * pplug_obs => (fst ao, tp_clean (snd (fst (snd ao))))) (select vs aos)).

  Lemma pplug_cacc_wf : cf_acc_wf cacc.
  Proof.
    apply (cf_acc_wf_map (fun ob : pplug_obs => fst (fst ob))); [now apply select_nodup|].
    intros a Ha. split; [apply Hin; eapply select_incl; exact Ha|].
    rewrite select_map_filter in Ha. apply filter_In in Ha. destruct Ha as [_ Hv].
    apply pplug_validate_inv in Hv. eapply cf_validate_accept_ok. apply Hv.
  Qed.

  Lemma pplug_tacc_wf : tp_acc_wf tacc.
  Proof.
    apply (tp_acc_wf_map (fun ob : pplug_obs => snd (fst ob))); [now apply select_nodup|].
    intros a Ha. split; [apply Hin; eapply select_incl; exact Ha|].
    rewrite select_map_filter in Ha. apply filter_In in Ha. destruct Ha as [_ Hv].
    apply pplug_validate_inv in Hv. eapply tp_validate_accept_ok. apply Hv.
  Qed.

  Lemma pplug_model_passes_sec :
    pplug_ok (gfreq, feeinfo, tfreq, tokeninfo, feedchain, F, dest, roles, known, aos)
             (pplug_model (gfreq, feeinfo, tfreq, tokeninfo, feedchain, F, dest, roles, known, aos)) = true.
  Proof.
    unfold pplug_ok, pplug_model. cbn [fst snd].
    rewrite (cf_spec_outcome _ _ _ _ _ pplug_cacc_wf), (tp_spec_outcome _ _ _ _ _ _ pplug_tacc_wf).
    unfold or_nil. rewrite !prices_eqb_refl, verdicts_eqb_refl.
    rewrite !andb_true_iff. repeat split.
    - now apply nodupb_NoDup.
    - apply strictly_asc_carried, cf_outcome_ok_err.
    - apply strictly_asc_carried, tp_outcome_ok_err.
  Qed.

  (* the judge's acceptance pins the whole observable: verdicts, outcome prices, report prices *)
  Lemma pplug_sound_sec o :
    pplug_ok (gfreq, feeinfo, tfreq, tokeninfo, feedchain, F, dest, roles, known, aos) o = true ->
    fst o = vs /\
    exists gas tok,
      snd o = Ok (gas, tok, (gas, tok)) /\
      gas = carried (cf_outcome gfreq feeinfo F dest cacc) /\
      tok = carried (tp_outcome tfreq tokeninfo feedchain F dest tacc) /\
      keys_strict gas /\ keys_strict tok.
  Proof.
    unfold pplug_ok. rewrite !andb_true_iff. intros [[_ Hv] Hr]. apply verdicts_eqb_eq in Hv. split; [exact Hv|].
    destruct (snd o) as [[[gas tok] [rgas rtok]]| | |]; try discriminate.
    rewrite !andb_true_iff in Hr. destruct Hr as [[[[[H1 H2] H3] H4] H5] H6].
    apply prices_eqb_eq in H1, H2, H5, H6. subst rgas rtok.
    rewrite (cf_spec_outcome _ _ _ _ _ pplug_cacc_wf) in H5. rewrite (tp_spec_outcome _ _ _ _ _ _ pplug_tacc_wf) in H6.
    exists gas, tok. split; [reflexivity|]. split; [exact H5|]. split; [exact H6|].
    split; now apply strictly_asc_keys.
  Qed.
End PluginSink.

Lemma pplug_model_passes : forall gfreq feeinfo tfreq tokeninfo feedchain F dest roles known aos,
  NoDup (map fst aos) -> pplug_input_wf aos ->
  pplug_ok (gfreq, feeinfo, tfreq, tokeninfo, feedchain, F, dest, roles, known, aos)
           (pplug_model (gfreq, feeinfo, tfreq, tokeninfo, feedchain, F, dest, roles, known, aos)) = true.
Proof. intros. now apply pplug_model_passes_sec. Qed.

(* (b) an accepted output IS the model's (validation verdicts of every observation, both outcome price lists, and a report
   that carries exactly the outcome's prices) *)
Lemma pplug_sound : forall gfreq feeinfo tfreq tokeninfo feedchain F dest roles known aos o,
  pplug_input_wf aos ->
  pplug_ok (gfreq, feeinfo, tfreq, tokeninfo, feedchain, F, dest, roles, known, aos) o = true ->
  o = pplug_model (gfreq, feeinfo, tfreq, tokeninfo, feedchain, F, dest, roles, known, aos).
Proof.
  intros gfreq feeinfo tfreq tokeninfo feedchain F dest roles known aos o Hin Hok.
  assert (Hnd : NoDup (map fst aos)).
  { unfold pplug_ok in Hok. rewrite !andb_true_iff in Hok. apply nodupb_NoDup. apply Hok. }
  destruct (pplug_sound_sec _ _ _ _ _ _ _ _ _ _ Hnd Hin o Hok) as [Hv [gas [tok [Hs [Hg [Ht _]]]]]].
  destruct o as [v r]. cbn [fst snd] in *. subst v r gas tok. reflexivity.
Qed.

(* representative transfer: every gas price in the REPORT satisfies the clause of C14_gas_price over the observations the
   plugin validated, every token price that of C14_token_price *)
Lemma pplug_sound_report : forall gfreq feeinfo tfreq tokeninfo feedchain F dest roles known aos vs gas tok rgas rtok,
  pplug_input_wf aos ->
  pplug_ok (gfreq, feeinfo, tfreq, tokeninfo, feedchain, F, dest, roles, known, aos) (vs, Ok (gas, tok, (rgas, rtok))) = true ->
  let acc := select vs aos in
  let cacc := map (fun ao : N * pplug_obs => (fst ao, cf_clean (fst (fst (snd ao))))) acc in
  let tacc := map (fun ao : N * pplug_obs => (fst ao, tp_clean (snd (fst (snd ao))))) acc in
  rgas = gas /\ rtok = tok /\ keys_strict gas /\ keys_strict tok /\
  (forall k g, In (k, g) rgas ->
     exists f,
       alookup k (fchain_cons cf_fchain F cacc) = Some f /\
       let fcs := map snd (votes cf_feecomp cacc k) in
       let nts := map snd (votes cf_native cacc k) in
       (agg_thr (two_f_plus_1 f) <= N.of_nat (length fcs))%N /\
       (agg_thr (two_f_plus_1 f) <= N.of_nat (length nts))%N /\
       g = to_packed (usd_per_unit_gas (medianZ (map snd fcs)) (medianZ nts))
                     (usd_per_unit_gas (medianZ (map fst fcs)) (medianZ nts))) /\
  (forall t p, In (t, p) rtok ->
     exists ff,
       alookup feedchain (fchain_cons tp_fchain F tacc) = Some ff /\
       let ps := map snd (votes tp_feed tacc t) in
       (agg_thr (two_f_plus_1 ff) <= N.of_nat (length ps))%N /\ p = medianZ ps).
Proof.
  intros gfreq feeinfo tfreq tokeninfo feedchain F dest roles known aos vs gas tok rgas rtok Hin Hok.
  assert (Hnd : NoDup (map fst aos)).
  { unfold pplug_ok in Hok. rewrite !andb_true_iff in Hok. apply nodupb_NoDup. apply Hok. }
  destruct (pplug_sound_sec _ _ _ _ _ _ _ _ _ _ Hnd Hin _ Hok) as [Hv [gas' [tok' [Hs [Hg [Ht [Sg St]]]]]]].
  cbn [fst snd] in Hv, Hs. inversion Hs; subst gas' tok' rgas rtok. subst vs. cbn zeta.
  split; [reflexivity|]. split; [reflexivity|]. split; [exact Sg|]. split; [exact St|]. split.
  - intros k g Hi. pose proof (carried_in _ _ Hi) as Ho.
    exact (gas_price_derivation _ _ _ _ _ _ _ _ Ho Hi).
  - intros t p Hi. pose proof (carried_in _ _ Hi) as Ho.
    exact (token_price_derivation _ _ _ _ _ _ _ _ _ Ho Hi).
Qed.

Definition ex_pplug_in : pplug_in :=
  (60%Z, [(5%N, (1000000, 1000000)%Z)], 60%Z, [(17%N, 1000000%Z)], 5%N, 1%Z, 9%N,
   [(5%N, [0; 1; 2; 3]%N); (9%N, [0; 1; 2; 3]%N)], [0; 1; 2; 3]%N,
   [(0%N, (ex_cf_raw, ex_tp_raw 1001, [(9%N, 1%Z); (5%N, 1%Z)])); (1%N, (ex_cf_raw, ex_tp_raw 1002, [(9%N, 1%Z); (5%N, 1%Z)]));
    (2%N, (ex_cf_raw, ex_tp_raw 1003, [(9%N, 1%Z); (5%N, 1%Z)])); (3%N, (ex_cf_raw, ex_tp_raw 5000000, [(9%N, 1%Z); (5%N, 1%Z)]))]).
Example pplug_ok_ex :
  pplug_ok ex_pplug_in ([true; true; true; true],
                        pp_out [(5%N, to_packed 2000000000 60000000000000)] [(17%N, 1003%Z)]
                               [(5%N, to_packed 2000000000 60000000000000)] [(17%N, 1003%Z)]) = true /\
  pplug_ok ex_pplug_in ([true; true; true; true],
                        pp_out [(5%N, to_packed 2000000000 60000000000000)] [(17%N, 1003%Z)]
                               [(5%N, to_packed 2000000000 60000000000000)] []) = false.
Proof. vm_compute. split; reflexivity. Qed.

(* pplugh: the same judge on the round, the previous plugin outcome is not looked at *)
Lemma pplugh_model_passes : forall prev gfreq feeinfo tfreq tokeninfo feedchain F dest roles known aos,
  NoDup (map fst aos) -> pplug_input_wf aos ->
  pplugh_ok (prev, (gfreq, feeinfo, tfreq, tokeninfo, feedchain, F, dest, roles, known, aos))
            (pplugh_model (prev, (gfreq, feeinfo, tfreq, tokeninfo, feedchain, F, dest, roles, known, aos))) = true.
Proof. intros. unfold pplugh_ok, pplugh_model. cbn [snd]. now apply pplug_model_passes. Qed.

(* (b) the accepted output of a round is the model's output on THAT round's input, whatever previous outcome was handed in *)
Lemma pplugh_sound : forall prev prev' gfreq feeinfo tfreq tokeninfo feedchain F dest roles known aos o,
  pplug_input_wf aos ->
  pplugh_ok (prev, (gfreq, feeinfo, tfreq, tokeninfo, feedchain, F, dest, roles, known, aos)) o = true ->
  o = pplugh_model (prev', (gfreq, feeinfo, tfreq, tokeninfo, feedchain, F, dest, roles, known, aos)).
Proof. intros. unfold pplugh_ok in *. unfold pplugh_model. cbn [snd] in *. now apply pplug_sound. Qed.

Example pplugh_ok_ex :
  pplugh_ok ([(7%N, 1%Z)], [(99%N, 5%Z)], ex_pplug_in)
            ([true; true; true; true],
             pp_out [(5%N, to_packed 2000000000 60000000000000)] [(17%N, 1003%Z)]
                    [(5%N, to_packed 2000000000 60000000000000)] [(17%N, 1003%Z)]) = true.
Proof. vm_compute. reflexivity. Qed.

(* ====================================================================================================== *)
(*                 C14_cfh / C14_tph : one long-lived processor, one judged case per round                *)
(* ====================================================================================================== *)
Lemma cf_model_step freq feeinfo F dest roles known aos :
  cf_model (freq, feeinfo, F, dest, roles, known, aos) =
  (cf_verdicts (mkCfCfg freq feeinfo F dest) (mkCfRound roles known aos),
   cf_step_result (mkCfCfg freq feeinfo F dest) (mkCfRound roles known aos)).
Proof.
  unfold cf_model, cf_verdicts, cf_step_result, cf_accepted. cbn [cfc_freq cfc_feeinfo cfc_F cfc_dest cr_roles cr_known cr_aos].
  now rewrite select_map_filter.
Qed.

Lemma tp_model_step freq tokeninfo feedchain F dest roles known aos :
  tp_model (freq, tokeninfo, feedchain, F, dest, roles, known, aos) =
  (tp_verdicts (mkTpCfg freq tokeninfo feedchain F dest) (mkTpRound roles known aos),
   tp_step_result (mkTpCfg freq tokeninfo feedchain F dest) (mkTpRound roles known aos)).
Proof.
  unfold tp_model, tp_verdicts, tp_step_result, tp_accepted.
  cbn [tpc_freq tpc_tokeninfo tpc_feedchain tpc_F tpc_dest tr_roles tr_known tr_aos].
  now rewrite select_map_filter.
Qed.

Lemma cf_ok_acc_wf freq feeinfo F dest roles known aos o :
  cf_input_wf aos -> cf_ok (freq, feeinfo, F, dest, roles, known, aos) o = true ->
  cf_acc_wf (map (fun ao => (fst ao, cf_clean (snd ao))) (select (fst o) aos)).
Proof.
  intros Hin H. unfold cf_ok in H. rewrite !andb_true_iff in H. destruct H as [[[[_ Hnd] Hacc] _] _].
  apply nodupb_NoDup in Hnd. rewrite forallb_forall in Hacc.
  apply cf_acc_wf_select; try assumption. intros ao Ha. apply (cf_accept_ok_sound ao (Hacc ao Ha)).
Qed.

Lemma tp_ok_acc_wf freq tokeninfo feedchain F dest roles known aos o :
  tp_input_wf aos -> tp_ok (freq, tokeninfo, feedchain, F, dest, roles, known, aos) o = true ->
  tp_acc_wf (map (fun ao => (fst ao, tp_clean (snd ao))) (select (fst o) aos)).
Proof.
  intros Hin H. unfold tp_ok in H. rewrite !andb_true_iff in H. destruct H as [[[[_ Hnd] Hacc] _] _].
  apply nodupb_NoDup in Hnd. rewrite forallb_forall in Hacc. now apply tp_acc_wf_select.
Qed.

Section HistorySinks.
  Lemma cfh_model_passes : forall prev freq feeinfo F dest roles known aos,
    NoDup (map fst aos) -> cf_input_wf aos ->
    cfh_ok (prev, (freq, feeinfo, F, dest, roles, known, aos)) (cfh_model (prev, (freq, feeinfo, F, dest, roles, known, aos))) = true.
  Proof.
    intros prev freq feeinfo F dest roles known aos ND Hin.
    pose proof (cf_model_passes freq feeinfo F dest roles known aos ND Hin) as Hm.
    pose proof (cf_ok_acc_wf _ _ _ _ _ _ _ _ Hin Hm) as Hwf.
    rewrite cf_model_step in Hm, Hwf. cbn [fst] in Hwf.
    unfold cfh_ok, cfh_model, cf_step. cbn zeta. cbn [snd].
    rewrite Hm. rewrite (cf_spec_outcome _ _ _ _ _ Hwf).
    replace (cf_outcome freq feeinfo F dest
               (map (fun ao => (fst ao, cf_clean (snd ao)))
                    (select (cf_verdicts (mkCfCfg freq feeinfo F dest) (mkCfRound roles known aos)) aos)))
      with (cf_step_result (mkCfCfg freq feeinfo F dest) (mkCfRound roles known aos))
      by (unfold cf_step_result, cf_accepted, cf_verdicts; cbn [cfc_freq cfc_feeinfo cfc_F cfc_dest cr_roles cr_known cr_aos];
          now rewrite select_map_filter).
    unfold or_nil. rewrite prices_eqb_refl.
    replace (list_eqb Bool.eqb (cf_verdicts (mkCfCfg freq feeinfo F dest) (mkCfRound roles known aos))
                      (map (cf_validate roles known dest) aos)) with true by (symmetry; apply verdicts_eqb_refl).
    cbn [andb]. apply strictly_asc_carried. apply cf_outcome_ok_err.
  Qed.

  (* (b) the accepted round output IS the memoryless step function of C14_history_round_gas on this round's role map and
     observations, whatever previous outcome the processor was handed *)
  Lemma cfh_sound : forall prev prev' freq feeinfo F dest roles known aos o,
    cf_input_wf aos ->
    cfh_ok (prev, (freq, feeinfo, F, dest, roles, known, aos)) o = true ->
    o = cf_step (mkCfCfg freq feeinfo F dest) prev' (mkCfRound roles known aos).
  Proof.
    intros prev prev' freq feeinfo F dest roles known aos [[vs r] car] Hin H.
    unfold cfh_ok in H. cbn [snd] in H. rewrite !andb_true_iff in H. destruct H as [[[Hcf Hvs] Hcar] _].
    apply verdicts_eqb_eq in Hvs. apply prices_eqb_eq in Hcar.
    pose proof (cf_ok_acc_wf _ _ _ _ _ _ _ _ Hin Hcf) as Hwf. cbn [fst] in Hwf.
    destruct (cf_sound _ _ _ _ _ _ _ _ Hin Hcf) as [_ [_ [_ [Heq _]]]]. cbn [fst snd] in Heq.
    rewrite (cf_spec_outcome _ _ _ _ _ Hwf) in Hcar. rewrite <- Heq in Hcar. unfold or_nil in Hcar.
    subst car vs. rewrite select_map_filter in Heq. subst r. reflexivity.
  Qed.

  (* ... hence every carried gas price satisfies the clauses of C14_history_gas_current over THIS round *)
  Lemma cfh_sound_current : forall prev freq feeinfo F dest roles known aos vs r car c g,
    cf_input_wf aos ->
    cfh_ok (prev, (freq, feeinfo, F, dest, roles, known, aos)) (vs, r, car) = true ->
    In (c, g) car ->
    let cfg := mkCfCfg freq feeinfo F dest in
    let acc := cf_accepted cfg (mkCfRound roles known aos) in
    r = Ok car /\
    (exists f,
       alookup c (fchain_cons cf_fchain F acc) = Some f /\
       let fcs := map snd (votes cf_feecomp acc c) in
       let nts := map snd (votes cf_native acc c) in
       (agg_thr (two_f_plus_1 f) <= N.of_nat (length fcs))%N /\
       (agg_thr (two_f_plus_1 f) <= N.of_nat (length nts))%N /\
       g = to_packed (usd_per_unit_gas (medianZ (map snd fcs)) (medianZ nts))
                     (usd_per_unit_gas (medianZ (map fst fcs)) (medianZ nts))).
  Proof.
    intros prev freq feeinfo F dest roles known aos vs r car c g Hin Hok Hi. cbn zeta.
    pose proof (cfh_sound prev prev _ _ _ _ _ _ _ _ Hin Hok) as E.
    assert (Hn : nth_error (cf_history (mkCfCfg freq feeinfo F dest) prev [mkCfRound roles known aos]) 0 = Some (vs, r, car))
      by (rewrite E; reflexivity).
    destruct (cf_history_current (mkCfCfg freq feeinfo F dest) prev [mkCfRound roles known aos] 0%nat (mkCfRound roles known aos)
                                 vs r car c g eq_refl Hn Hi) as [Hr [Hd _]].
    split; [exact Hr|exact Hd].
  Qed.

  Lemma tph_model_passes : forall prev freq tokeninfo feedchain F dest roles known aos,
    NoDup (map fst aos) -> tp_input_wf aos ->
    tph_ok (prev, (freq, tokeninfo, feedchain, F, dest, roles, known, aos))
           (tph_model (prev, (freq, tokeninfo, feedchain, F, dest, roles, known, aos))) = true.
  Proof.
    intros prev freq tokeninfo feedchain F dest roles known aos ND Hin.
    pose proof (tp_model_passes freq tokeninfo feedchain F dest roles known aos ND Hin) as Hm.
    pose proof (tp_ok_acc_wf _ _ _ _ _ _ _ _ _ Hin Hm) as Hwf.
    rewrite tp_model_step in Hm, Hwf. cbn [fst] in Hwf.
    unfold tph_ok, tph_model, tp_step. cbn zeta. cbn [snd].
    rewrite Hm. rewrite (tp_spec_outcome _ _ _ _ _ _ Hwf).
    replace (tp_outcome freq tokeninfo feedchain F dest
               (map (fun ao => (fst ao, tp_clean (snd ao)))
                    (select (tp_verdicts (mkTpCfg freq tokeninfo feedchain F dest) (mkTpRound roles known aos)) aos)))
      with (tp_step_result (mkTpCfg freq tokeninfo feedchain F dest) (mkTpRound roles known aos))
      by (unfold tp_step_result, tp_accepted, tp_verdicts;
          cbn [tpc_freq tpc_tokeninfo tpc_feedchain tpc_F tpc_dest tr_roles tr_known tr_aos]; now rewrite select_map_filter).
    unfold or_nil. rewrite prices_eqb_refl.
    replace (list_eqb Bool.eqb (tp_verdicts (mkTpCfg freq tokeninfo feedchain F dest) (mkTpRound roles known aos))
                      (map (tp_validate roles known feedchain dest) aos)) with true by (symmetry; apply verdicts_eqb_refl).
    cbn [andb]. apply strictly_asc_carried. apply tp_outcome_ok_err.
  Qed.

  Lemma tph_sound : forall prev prev' freq tokeninfo feedchain F dest roles known aos o,
    tp_input_wf aos ->
    tph_ok (prev, (freq, tokeninfo, feedchain, F, dest, roles, known, aos)) o = true ->
    o = tp_step (mkTpCfg freq tokeninfo feedchain F dest) prev' (mkTpRound roles known aos).
  Proof.
    intros prev prev' freq tokeninfo feedchain F dest roles known aos [[vs r] car] Hin H.
    unfold tph_ok in H. cbn [snd] in H. rewrite !andb_true_iff in H. destruct H as [[[Htp Hvs] Hcar] _].
    apply verdicts_eqb_eq in Hvs. apply prices_eqb_eq in Hcar.
    pose proof (tp_ok_acc_wf _ _ _ _ _ _ _ _ _ Hin Htp) as Hwf. cbn [fst] in Hwf.
    destruct (tp_sound _ _ _ _ _ _ _ _ _ Hin Htp) as [_ [_ [_ [Heq _]]]]. cbn [fst snd] in Heq.
    rewrite (tp_spec_outcome _ _ _ _ _ _ Hwf) in Hcar. rewrite <- Heq in Hcar. unfold or_nil in Hcar.
    subst car vs. rewrite select_map_filter in Heq. subst r. reflexivity.
  Qed.

  (* ... hence every carried token price satisfies the clauses of C14_history_token_current over THIS round *)
  Lemma tph_sound_current : forall prev freq tokeninfo feedchain F dest roles known aos vs r car t p,
    tp_input_wf aos ->
    tph_ok (prev, (freq, tokeninfo, feedchain, F, dest, roles, known, aos)) (vs, r, car) = true ->
    In (t, p) car ->
    let cfg := mkTpCfg freq tokeninfo feedchain F dest in
    let acc := tp_accepted cfg (mkTpRound roles known aos) in
    r = Ok car /\
    (exists ff,
       alookup feedchain (fchain_cons tp_fchain F acc) = Some ff /\
       let ps := map snd (votes tp_feed acc t) in
       (agg_thr (two_f_plus_1 ff) <= N.of_nat (length ps))%N /\ p = medianZ ps).
  Proof.
    intros prev freq tokeninfo feedchain F dest roles known aos vs r car t p Hin Hok Hi. cbn zeta.
    pose proof (tph_sound prev prev _ _ _ _ _ _ _ _ _ Hin Hok) as E.
    assert (Hn : nth_error (tp_history (mkTpCfg freq tokeninfo feedchain F dest) prev [mkTpRound roles known aos]) 0 = Some (vs, r, car))
      by (rewrite E; reflexivity).
    destruct (tp_history_current (mkTpCfg freq tokeninfo feedchain F dest) prev [mkTpRound roles known aos] 0%nat
                                 (mkTpRound roles known aos) vs r car t p eq_refl Hn Hi) as [Hr [Hd _]].
    split; [exact Hr|exact Hd].
  Qed.

  Example cfh_ok_ex :
    cfh_ok ([(7%N, 1%Z)], ex_cf_in)
           (hist_o [true; true; true; true] (Ok [(5%N, to_packed 2000000000 60000000000000)]) [(5%N, to_packed 2000000000 60000000000000)]) = true /\
    cfh_ok ([(7%N, 1%Z)], ex_cf_in)
           (hist_o [true; true; true; true] (Ok [(5%N, to_packed 2000000000 60000000000000)]) [(7%N, 1%Z)]) = false.
  Proof. vm_compute. split; reflexivity. Qed.

  Example tph_ok_ex :
    tph_ok ([(99%N, 5%Z)], ex_tp_in) (hist_o [true; true; true; true] (Ok [(17%N, 1003%Z)]) [(17%N, 1003%Z)]) = true /\
    tph_ok ([(99%N, 5%Z)], ex_tp_in) (hist_o [true; true; true; true] (Ok [(17%N, 1003%Z)]) [(99%N, 5%Z)]) = false.
  Proof. vm_compute. split; reflexivity. Qed.
End HistorySinks.

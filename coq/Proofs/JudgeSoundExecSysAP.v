(* JudgeSoundExecSysAP.v — lemma (a) for the execute SYSTEM judge, in general: the safety pass [sys_safe] of
   Check/ExecSys_check.v (minus its ground-truth clause [noreexec_ok]) accepts the MODEL's own history
   [sys_model i] for EVERY input i that is well formed the way the harness builds its cases ([sys_wf]) and lies
   outside the recorded class F14 of C08 (no Filter round of the run drops a ready sequenced message in the size / gas
   fallback: [sys_drop] = false).  Composition of Proofs/ExecMergeP.v (through the lifted lemmas of ExecSysP.v),
   ExecReportP.v (builder) and JudgeSoundC08P.v (nonce order of selectReport outside the class) along the walk. *)
Require Import Verif.Model.Base Verif.Proofs.BaseP Verif.Model.Consensus Verif.Proofs.ConsensusP
               Verif.Model.Merkle Verif.Model.ExecReport Verif.Proofs.ExecReportP Verif.Model.ExecSys Verif.Proofs.ExecSysP.
Require Verif.Model.ExecMerge Verif.Proofs.ExecMergeP Verif.Check.C08_check Verif.Check.ExecSys_check.
Require Import Verif.Proofs.JudgeSoundExecSysP.
Require Verif.Proofs.JudgeSoundC08P.
From Coq Require Import Sorting.Sorted ZifyN ZifyNat ZifyBool.
Module J8 := Verif.Proofs.JudgeSoundC08P.

(* ====================================================================================================== *)
(*  0. lists                                                                                               *)
(* ====================================================================================================== *)
Lemma combine_select_in {A B C} (l1 : list A) (l2 : list B) (f : B -> C) : forall idxs a c,
  (forall i, In i idxs -> i < length l1 /\ i < length l2) ->
  In (a, c) (combine (select l1 idxs) (map f (select l2 idxs))) ->
  exists i b, In i idxs /\ nth_error l1 i = Some a /\ nth_error l2 i = Some b /\ c = f b.
Proof.
  induction idxs as [|i idxs IH]; intros a c Hr Hin; [destruct Hin|].
  destruct (Hr i (or_introl eq_refl)) as [H1 H2].
  destruct (nth_error l1 i) as [x|] eqn:E1; [|apply nth_error_None in E1; lia].
  destruct (nth_error l2 i) as [y|] eqn:E2; [|apply nth_error_None in E2; lia].
  rewrite (select_cons _ _ _ _ E1), (select_cons _ _ _ _ E2) in Hin. cbn [map combine] in Hin.
  destruct Hin as [E|Hin].
  - inversion E; subst. exists i, y. split; [now left|]. auto.
  - destruct (IH a c (fun j Hj => Hr j (or_intror Hj)) Hin) as [j [b [Hj H]]]. exists j, b. split; [now right|exact H].
Qed.

Lemma select_lengths {A B C} (l1 : list A) (l2 : list B) (f : B -> C) idxs :
  (forall i, In i idxs -> i < length l1 /\ i < length l2) ->
  length (select l1 idxs) = length (map f (select l2 idxs)).
Proof.
  intros Hr. rewrite map_length, !select_length; [reflexivity| |]; intros i Hi; apply Hr, Hi.
Qed.

(* insertion sort with a total, transitive order *)
Section SortedBy.
  Context {A : Type} (le : A -> A -> bool).
  Hypothesis le_total : forall a b, le a b = true \/ le b a = true.
  Hypothesis le_trans : forall a b c, le a b = true -> le b c = true -> le a c = true.
  Notation Srt := (StronglySorted (fun a b => le a b = true)).

  Lemma insert_by_sorted x l : Srt l -> Srt (insert_by le x l).
  Proof.
    induction 1 as [|y l Hs IH Hall]; cbn [insert_by]; [repeat constructor|].
    destruct (le x y) eqn:Exy.
    - constructor; [now constructor|]. constructor; [exact Exy|].
      eapply Forall_impl; [|exact Hall]. cbn. intros z Hz. now apply (le_trans x y z).
    - constructor; [exact IH|].
      eapply Permutation_Forall; [symmetry; apply insert_by_perm|].
      constructor; [|exact Hall]. destruct (le_total x y) as [H|H]; [congruence|exact H].
  Qed.
  Lemma sort_by_sorted l : Srt (sort_by le l).
  Proof. induction l as [|x l IH]; cbn [sort_by]; [constructor|now apply insert_by_sorted]. Qed.
End SortedBy.

Lemma cd_le_total a b : cd_le a b = true \/ cd_le b a = true.
Proof.
  unfold cd_le. rewrite (N.eqb_sym (c_src b) (c_src a)).
  destruct (N.eqb_spec (c_src a) (c_src b)) as [E|E]; [|rewrite !N.ltb_lt; lia].
  rewrite !N.leb_le. lia.
Qed.
Lemma cd_le_trans a b c : cd_le a b = true -> cd_le b c = true -> cd_le a c = true.
Proof.
  unfold cd_le.
  destruct (N.eqb_spec (c_src a) (c_src b)) as [E1|E1]; destruct (N.eqb_spec (c_src b) (c_src c)) as [E2|E2];
    destruct (N.eqb_spec (c_src a) (c_src c)) as [E3|E3]; rewrite ?N.leb_le, ?N.ltb_lt; lia.
Qed.
Lemma cd_le_src a b : cd_le a b = true -> (c_src a <= c_src b)%N.
Proof. unfold cd_le. destruct (N.eqb_spec (c_src a) (c_src b)); rewrite ?N.leb_le, ?N.ltb_lt; lia. Qed.

Lemma new_outcome_sorted st pend reps :
  StronglySorted (fun a b => cd_le a b = true) (o_pending (new_outcome st pend reps)).
Proof. unfold new_outcome. cbn [o_pending]. apply sort_by_sorted; [apply cd_le_total|apply cd_le_trans]. Qed.

Lemma strongly_sorted_impl {A} (R S : A -> A -> Prop) l :
  (forall a b, R a b -> S a b) -> StronglySorted R l -> StronglySorted S l.
Proof.
  intros HRS. induction 1 as [|x l Hs IH Hall]; constructor; [exact IH|].
  eapply Forall_impl; [|exact Hall]. intros b Hb. now apply HRS.
Qed.

(* two lists related position by position by a relation that preserves the order keys *)
Lemma forall2_sorted {A B} (RA : A -> A -> Prop) (RB : B -> B -> Prop) (R : A -> B -> Prop) :
  (forall a a' b b', R a b -> R a' b' -> RA a a' -> RB b b') ->
  forall l r, Forall2 R l r -> StronglySorted RA l -> StronglySorted RB r.
Proof.
  intros Hpres. induction 1 as [|a b l r Hab HF IH]; intros Hs; [constructor|].
  inversion Hs as [|? ? Hs' Hall]; subst. constructor; [now apply IH|].
  rewrite Forall_forall in *. intros b' Hb'. destruct (forall2_in_r _ _ _ _ HF Hb') as [a' [Ha' Hab']].
  exact (Hpres _ _ _ _ Hab Hab' (Hall a' Ha')).
Qed.

(* ====================================================================================================== *)
(*  1. the nonce order the builder keeps (nonce_run of ExecReportP / C08) is what nonces_walk tests        *)
(* ====================================================================================================== *)
Section NonceWalk.
  Variables (nonces : nmap) (fdest : Z) (aos : list sao).
  (* every on-chain nonce handed to the builder was agreed, and is a uint64 value *)
  Hypothesis Hnon : forall c s v, nlookup c s nonces = Some v ->
    X.nonce_agreed fdest aos (c, s, v) = true /\ (v < two64)%N.

  Definition skey (c s : N) (e : N * N * N) : bool := N.eqb (fst (fst e)) c && N.eqb (snd (fst e)) s.
  (* the builder's expectedNonce map against the walk's list of (source, sender, last nonce) *)
  Definition exp_rel (exp : nmap) (seen : list (N * N * N)) : Prop :=
    forall c s, match find (skey c s) seen with
                | Some e => nlookup c s exp = Some (add64 (snd e) 1) /\ (snd e < two64)%N
                | None => nlookup c s exp = None
                end.
  Fixpoint seen_after (seen : list (N * N * N)) (ms : list msg) : list (N * N * N) :=
    match ms with
    | [] => seen
    | m :: ms' => if N.eqb (m_nonce m) 0 then seen_after seen ms'
                  else seen_after ((m_src m, m_sender m, m_nonce m) :: seen) ms'
    end.

  Lemma nonces_walk_app : forall a b seen,
    X.nonces_walk fdest aos seen (a ++ b) =
    X.nonces_walk fdest aos seen a && X.nonces_walk fdest aos (seen_after seen a) b.
  Proof.
    induction a as [|m a IH]; intros b seen; [reflexivity|]. cbn [app X.nonces_walk seen_after].
    destruct (N.eqb (m_nonce m) 0); [apply IH|].
    destruct (find _ seen); rewrite IH, !andb_assoc; reflexivity.
  Qed.

  Lemma add64_succ_nonzero v : (v < two64)%N -> add64 v 1 <> 0%N -> add64 v 1 = (v + 1)%N /\ (v + 1 < two64)%N.
  Proof.
    unfold add64, two64. intros Hv Hne.
    destruct (N.eq_dec (v + 1) 18446744073709551616) as [E|E]; [rewrite E, N.mod_same in Hne by lia; congruence|].
    rewrite N.mod_small by lia. lia.
  Qed.

  Lemma nonce_run_walk src : forall ms exp exp' seen,
    (forall m, In m ms -> m_src m = src) -> exp_rel exp seen ->
    nonce_run nonces exp src ms = Some exp' ->
    X.nonces_walk fdest aos seen ms = true /\ exp_rel exp' (seen_after seen ms).
  Proof.
    induction ms as [|m ms IH]; intros exp exp' seen Hsrc Hrel Hrun.
    - cbn in Hrun. inversion Hrun; subst. split; [reflexivity|exact Hrel].
    - cbn [nonce_run] in Hrun. cbn [X.nonces_walk seen_after].
      assert (Hsrc' : forall m0, In m0 ms -> m_src m0 = src) by (intros m0 H0; apply Hsrc; now right).
      destruct (N.eqb_spec (m_nonce m) 0) as [E0|E0]; [exact (IH _ _ _ Hsrc' Hrel Hrun)|].
      destruct (nlookup src (m_sender m) nonces) as [on|] eqn:Eon; [|discriminate].
      destruct (Hnon _ _ _ Eon) as [Hag Hon].
      rewrite (Hsrc m (or_introl eq_refl)).
      set (e := match nlookup src (m_sender m) exp with Some e => e | None => add64 on 1 end) in *.
      destruct (N.eqb_spec (m_nonce m) e) as [Ee|Ee]; [|discriminate].
      pose proof (Hrel src (m_sender m)) as Hr0. unfold skey in Hr0.
      (* the relation after this message *)
      assert (Hm64 : (m_nonce m < two64)%N).
      { rewrite Ee. unfold e. destruct (nlookup src (m_sender m) exp) as [e0|].
        - destruct (find _ seen) as [en|]; [|discriminate Hr0]. destruct Hr0 as [Hr0 _]. inversion Hr0.
          unfold add64, two64. apply N.mod_lt. lia.
        - unfold add64, two64. apply N.mod_lt. lia. }
      assert (Hrel' : exp_rel (nupdate src (m_sender m) (add64 e 1) exp) ((src, m_sender m, m_nonce m) :: seen)).
      { intros c s. cbn [find]. unfold skey at 1. cbn [fst snd].
        destruct (N.eqb_spec src c) as [Ec|Ec]; [destruct (N.eqb_spec (m_sender m) s) as [Es|Es]|]; cbn [andb].
        - subst c s. rewrite nlookup_nupdate_same, Ee. split; [reflexivity|now rewrite <- Ee].
        - rewrite nlookup_nupdate_other by (intros H; inversion H; congruence). apply Hrel.
        - rewrite nlookup_nupdate_other by (intros H; inversion H; congruence). apply Hrel. }
      destruct (IH _ _ _ Hsrc' Hrel' Hrun) as [Hw Hr'].
      destruct (find (fun e0 => N.eqb (fst (fst e0)) src && N.eqb (snd (fst e0)) (m_sender m)) seen) as [en|] eqn:Ef.
      + destruct Hr0 as [Hl Hv]. unfold e in Ee. rewrite Hl in Ee.
        destruct (add64_succ_nonzero (snd en) Hv) as [Ea _]; [now rewrite <- Ee|].
        split; [|exact Hr']. rewrite Hw, andb_true_r. apply N.ltb_lt. lia.
      + unfold e in Ee. rewrite Hr0 in Ee.
        destruct (add64_succ_nonzero on Hon) as [Ea _]; [now rewrite <- Ee|].
        split; [|exact Hr']. rewrite Hw, andb_true_r.
        replace (m_nonce m - 1)%N with on by lia. rewrite Hag.
        destruct (N.eqb_spec (m_nonce m) 0); [contradiction|reflexivity].
  Qed.

  Lemma nonce_run_reports_walk : forall rs exp exp' seen,
    (forall r m, In r rs -> In m (r_msgs r) -> m_src m = r_src r) -> exp_rel exp seen ->
    nonce_run_reports nonces exp rs = Some exp' ->
    X.nonces_walk fdest aos seen (flat_map r_msgs rs) = true.
  Proof.
    induction rs as [|r rs IH]; intros exp exp' seen Hsrc Hrel Hrun; [reflexivity|].
    cbn [nonce_run_reports] in Hrun. cbn [flat_map].
    destruct (nonce_run nonces exp (r_src r) (r_msgs r)) as [exp1|] eqn:E1; [|discriminate].
    destruct (nonce_run_walk (r_src r) (r_msgs r) exp exp1 seen (fun m Hm => Hsrc r m (or_introl eq_refl) Hm) Hrel E1)
      as [Hw Hr1].
    rewrite nonces_walk_app, Hw. cbn [andb].
    apply (IH exp1 exp' _ (fun r0 m H0 Hm => Hsrc r0 m (or_intror H0) Hm) Hr1 Hrun).
  Qed.
End NonceWalk.

(* ====================================================================================================== *)
(*  2. selectReport keeps the order of the pending commit reports; getMessagesOutcome keeps their size      *)
(* ====================================================================================================== *)
Section LoopOrder.
  Variable hash : N -> N -> N.
  Variable zero : N.
  Variable leaf_hash : msg -> option N.
  Variable enc_size : creport -> option N.
  Variable tree_gas : N -> N.
  Variable nonces : nmap.
  Variable max_size max_gas : N.
  Notation Add := (add hash zero leaf_hash enc_size tree_gas nonces max_size max_gas).
  Notation Loop := (select_loop hash zero leaf_hash enc_size tree_gas nonces max_size max_gas).

  Lemma select_loop_sorted : forall cds st st' pend,
    Loop st cds = Ok (st', pend) ->
    exists new, b_reports st' = b_reports st ++ new /\
      Forall (fun r => exists cd, In cd cds /\ r_src r = c_src cd) new /\
      (StronglySorted (fun a b => (c_src a <= c_src b)%N) cds ->
       StronglySorted (fun a b => N.leb (r_src a) (r_src b) = true) new).
  Proof.
    induction cds as [|cd cds IH]; intros st st' pend Hsel.
    - cbn in Hsel. inversion Hsel; subst. exists []. rewrite app_nil_r. split; [reflexivity|]. split; constructor.
    - assert (Hlift : forall l, Forall (fun r => exists cd0, In cd0 cds /\ r_src r = c_src cd0) l ->
                                Forall (fun r => exists cd0, In cd0 (cd :: cds) /\ r_src r = c_src cd0) l).
      { intros l Hl. eapply Forall_impl; [|exact Hl]. intros r [cd0 [Hi Hf]]. exists cd0. split; [now right|exact Hf]. }
      unfold select_loop in Hsel. cbn [select_loop_with] in Hsel. fold Loop in Hsel.
      destruct (c_msgs cd) as [|m0 ms0] eqn:Em.
      + destruct (Loop st cds) as [[st2 p2]| | |] eqn:E2; cbn [rbind fst snd] in Hsel; try discriminate.
        inversion Hsel; subst. destruct (IH _ _ _ E2) as [new [H1 [H2 H3]]]. exists new.
        split; [exact H1|]. split; [now apply Hlift|]. intros Hs. inversion Hs; subst. now apply H3.
      + destruct (Add st cd) as [[st1 cd1]| | |] eqn:Ea; cbn [rbind fst snd] in Hsel; try discriminate.
        destruct (Loop st1 cds) as [[st2 p2]| | |] eqn:E2; cbn [rbind fst snd] in Hsel; try discriminate.
        inversion Hsel; subst st' pend; clear Hsel.
        destruct (IH _ _ _ E2) as [new [H1 [H2 H3]]].
        destruct (add_spec _ _ _ _ _ _ _ _ _ _ _ _ Ea) as [[A1 _]|[idxs [r [sz [A1 [_ [_ [_ [_ [A6 _]]]]]]]]]].
        * exists new. rewrite H1, A1. split; [reflexivity|]. split; [now apply Hlift|].
          intros Hs. inversion Hs; subst. now apply H3.
        * assert (Hsrc : r_src r = c_src cd) by (destruct A6 as [t [pf [_ [_ [_ [_ ->]]]]]]; reflexivity).
          exists (r :: new). rewrite H1, A1, <- app_assoc. split; [reflexivity|]. split.
          -- constructor; [exists cd; split; [now left|exact Hsrc]|now apply Hlift].
          -- intros Hs. inversion Hs as [|? ? Hs' Hall]; subst. constructor; [now apply H3|].
             rewrite Forall_forall in *. intros r' Hr'. destruct (H2 r' Hr') as [cd0 [Hi Hf]].
             apply N.leb_le. rewrite Hsrc, Hf. now apply Hall.
  Qed.
End LoopOrder.

(* getMessagesOutcome attaches at most one message per sequence number of the report's interval *)
Lemma enrich_msgs_length m cd cd' :
  enrich m cd = Ok cd' -> (c_end cd - c_start cd < 256)%N -> length (c_msgs cd') <= 256.
Proof.
  unfold enrich, PS.range_loop. cbn [rbind]. intros H Hw. inversion H; subst cd'; clear H. cbn [c_msgs].
  set (k := c_src cd). set (s := c_start cd) in *. set (e := c_end cd) in *.
  set (seqs := sortN (filter (PS.in_range s e) (observed_keys m k))).
  set (fm := fun j : N => match msg_at m k j with Some x => Some (xm_msg x) | None => None end).
  assert (Em : flat_map (fun j => match msg_at m k j with Some x => [xm_msg x] | None => [] end) seqs =
               flat_map (fun j => match fm j with Some x => [x] | None => [] end) seqs).
  { apply flat_map_ext. intros j. unfold fm. destruct (msg_at m k j); reflexivity. }
  rewrite Em. pose proof (flat_opt_length fm seqs) as Lm.
  assert (NDs : NoDup seqs).
  { eapply Permutation_NoDup; [symmetry; apply sortN_perm_self|]. apply NoDup_filter.
    unfold observed_keys, EM.dedupN. apply (dedup_nodup N.eqb N.eqb_spec). }
  assert (Hsorted : StronglySorted N.lt seqs) by (apply sorted_le_nodup_lt; [apply sortN_sorted|exact NDs]).
  assert (Hin : forall x, In x seqs -> (s <= x <= e)%N).
  { intros x Hx. unfold seqs, sortN in Hx. apply sort_by_in in Hx. apply filter_In in Hx. destruct Hx as [_ Hx].
    unfold PS.in_range in Hx. apply andb_prop in Hx. destruct Hx as [H1 H2]. apply N.leb_le in H1, H2. lia. }
  destruct seqs as [|x0 l0] eqn:Es; [cbn in *; lia|].
  assert (Hne : x0 :: l0 <> []) by discriminate.
  pose proof (strictly_sorted_count (x0 :: l0) s e Hsorted Hin Hne) as Hcount.
  specialize (Hin x0 (or_introl eq_refl)). lia.
Qed.

(* ====================================================================================================== *)
(*  3. what the harness guarantees of one round's input                                                    *)
(* ====================================================================================================== *)
(* fChain is a Go map (unique keys) of small non-negative f *)
Definition fchain_wf (fc : list (N * Z)) : Prop :=
  NoDup (EM.keys fc) /\ forall k f, In (k, f) fc -> (0 <= f < 4294967296)%Z.
(* the accepted observations: decoded Go maps (unique keys at every level); item ids functional (the id is the sha3 of
   the item's rendering); sequence-number intervals of observed commit reports are uint64 pairs spanning at most 256
   numbers (the verifier's own limit, C08_provable); observed nonces are uint64 values *)
Definition obs_wf (aos : list sao) : Prop :=
  (forall o ob, In (o, ob) aos -> EMP.wf_obs (to_obs ob)) /\
  key_functional aos /\
  (forall o ob k x, In (o, ob) aos -> In x (xcommits_of k ob) ->
     (c_start (xc_cd x) < two64)%N /\ (c_end (xc_cd x) < two64)%N /\ (c_end (xc_cd x) - c_start (xc_cd x) < 256)%N) /\
  (forall o ob t, In (o, ob) aos -> In t (xnonces_of ob) -> (snd t < two64)%N).
(* one round of a case: distinct oracle ids; the observations the (model of the) validation accepts are well formed *)
Definition round_wf (g : X.scfg) (r : X.sround_in) : Prop :=
  NoDup (obs_ids (snd r)) /\ fchain_wf (fst r) /\ obs_wf (X.accepted (X.verdicts g r) (snd r)).

Lemma fchain_pos fc k f : fchain_wf fc -> In (k, f) fc -> (0 < f_plus_1 f)%N.
Proof. intros [_ H] Hi. specialize (H _ _ Hi). unfold f_plus_1, to_uint. lia. Qed.
Lemma fchain_fdest dest fc : fchain_wf fc -> (0 <= EM.f_dest dest fc)%Z /\ (0 < f_plus_1 (EM.f_dest dest fc))%N.
Proof.
  intros [_ H]. unfold EM.f_dest. destruct (alookup dest fc) as [f|] eqn:E.
  - apply alookup_In in E. specialize (H _ _ E). unfold f_plus_1, to_uint. lia.
  - unfold f_plus_1, to_uint. cbn. lia.
Qed.

(* the supported chains of an oracle, read off the round's observation list *)
Definition sup_of (obs : list X.sobs_in) (o : N) : list N :=
  match find (fun a => N.eqb (fst (fst a)) o) obs with Some a => snd (fst a) | None => [] end.

Lemma accepted_filter (f : X.sobs_in -> bool) : forall obs,
  X.accepted (map f obs) obs = map (fun a => (fst (fst a), snd a)) (filter f obs).
Proof.
  unfold X.accepted. induction obs as [|a obs IH]; [reflexivity|]. cbn [map combine filter fst snd].
  destruct (f a); cbn [map fst snd]; [f_equal|]; exact IH.
Qed.

Lemma find_nodup_id : forall (obs : list X.sobs_in) a,
  NoDup (obs_ids obs) -> In a obs -> find (fun b => N.eqb (fst (fst b)) (fst (fst a))) obs = Some a.
Proof.
  induction obs as [|b obs IH]; intros a ND Hin; [destruct Hin|]. unfold obs_ids in ND. cbn [map] in ND.
  inversion ND as [|? ? Hn ND']; subst. cbn [find]. destruct Hin as [->|Hin]; [now rewrite N.eqb_refl|].
  destruct (N.eqb_spec (fst (fst b)) (fst (fst a))) as [E|E]; [|now apply IH].
  exfalso. apply Hn. rewrite E. apply in_map_iff. now exists a.
Qed.

Lemma accepted_validated g r :
  NoDup (obs_ids (snd r)) ->
  (forall o ob, In (o, ob) (X.accepted (X.verdicts g r) (snd r)) -> EMP.wf_obs (to_obs ob)) ->
  sys_validated (sup_of (snd r)) (X.s_dest g) (fst r) (X.accepted (X.verdicts g r) (snd r)).
Proof.
  intros ND Hwf o pob Hin. apply to_aos_inv in Hin. destruct Hin as [ob [Hin ->]]. split; [exact (Hwf o ob Hin)|].
  unfold X.verdicts in Hin. rewrite accepted_filter in Hin. apply in_map_iff in Hin. destruct Hin as [a [E Ha]].
  apply filter_In in Ha. destruct Ha as [Ha Hv]. inversion E; subst o ob.
  unfold sup_of. rewrite (find_nodup_id _ a ND Ha). exact Hv.
Qed.

(* ====================================================================================================== *)
(*  4. the Filter round of a model cycle passes report_ok                                                  *)
(* ====================================================================================================== *)
Lemma report_ok_intro g h a b fc3 aos3 x :
  forallb (X.chain_report_ok g h a b fc3 aos3) (o_report x) = true ->
  X.nonces_walk (X.fdest_of g fc3) aos3 [] (flat_map r_msgs (o_report x)) = true ->
  X.report_ok g h (Some a) (Some b) fc3 aos3 x = true.
Proof. intros H1 H2. unfold X.report_ok. destruct (o_report x); [reflexivity|]. now rewrite H1, H2. Qed.

(* a merged token-data entry whose slots are all ready passes the exact token test at its own sequence number *)
Lemma slots_tokens_agreed bigF dest fc aos m k s slots fk :
  NoDup (map fst aos) -> x_consensus bigF dest fc aos = Ok m -> tok_at m k s = Some slots ->
  td_ready (to_td slots) = true -> alookup k fc = Some fk ->
  X.tokens_agreed fc aos k s (td_bytes (to_td slots)) = true.
Proof.
  intros ND C Htok Hrd Hlk. apply (tokens_agreed_complete fc aos k s fk); [exact Hlk|].
  intros n d Hn. unfold td_bytes, to_td in Hn. rewrite map_map in Hn. cbn [snd] in Hn. rewrite nth_error_map in Hn.
  destruct (nth_error slots n) as [t|] eqn:Et; [|discriminate]. cbn [option_map] in Hn. inversion Hn; subst d.
  pose proof (to_td_ready _ Hrd t (nth_error_In _ _ Et)) as Hready.
  destruct (merged_tok_quorum bigF dest fc aos m ND C k s slots n t Htok Et Hready) as [f [Hf Hqt]].
  rewrite Hlk in Hf. inversion Hf; subst f. destruct t as [rd dt]. cbn [EM.t_ready EM.t_data] in *. now subst rd.
Qed.

Section ModelCycle.
  Variable g : X.scfg.
  Let h := C8.thash (C8.mk_htable (X.s_table g)).
  Let dest := X.s_dest g.
  Notation Rnd := (exec_round h (X.s_zero g) C8.lhash (C8.codec_size (X.c8cfg g)) (C8.tgas (X.c8cfg g))
                              C8.plugin_max_report (X.s_batch_gas g) (X.nkey_of g) (X.s_bigF g) (X.s_dest g)).
  Notation Cons := (x_consensus (X.s_bigF g) (X.s_dest g)).

  (* the builder configuration of a Filter round, as a C08 configuration: the nonce map is built from the merged nonces *)
  Definition cfg3 (m : xmerged) : C8.cfg :=
    C8.mkCfg (X.s_table g) (X.s_zero g) (nonce_map (X.nkey_of g) (xg_nonces m)) C8.plugin_max_report (X.s_batch_gas g)
             (X.s_tga g) (X.s_tgb g) (X.s_base g) 1999999999.
  (* the recorded class F14 of C08 (known_run): some Add of this Filter round drops a ready sequenced message in the
     size / gas fallback *)
  Definition filter_drop (fc : list (N * Z)) (prev : outcome) (aos : list sao) : bool :=
    match Cons fc aos with
    | Ok m => C8.known_run (cfg3 m) h b_init (o_pending prev)
    | _ => false
    end.

  (* what is known of one round: its accepted observations come from distinct oracles, passed the validation for
     some assignment of supported chains, and are well formed *)
  Definition rw (fc : list (N * Z)) (aos : list sao) : Prop :=
    NoDup (map fst aos) /\ (exists sup, sys_validated sup dest fc aos) /\ fchain_wf fc /\ obs_wf aos.

  Variables (fc1 fc2 fc3 : list (N * Z)) (aos1 aos2 aos3 : list sao) (prev0 o1 o2 : outcome).
  Hypothesis W1 : rw fc1 aos1.
  Hypothesis W2 : rw fc2 aos2.
  Hypothesis W3 : rw fc3 aos3.
  Hypothesis R1 : Rnd fc1 prev0 aos1 = Ok o1.
  Hypothesis S1 : o_state o1 = 2%N.
  Hypothesis R2 : Rnd fc2 o1 aos2 = Ok o2.
  Hypothesis S2 : o_state o2 = 3%N.

  Section OneReport.
    Variables (m1 m2 : xmerged) (nonces : nmap) (reports : list creport) (pend : list cdata).
    Hypothesis C1 : Cons fc1 aos1 = Ok m1.
    Hypothesis E1 : o1 = commit_reports_outcome m1.
    Hypothesis C2 : Cons fc2 aos2 = Ok m2.
    Hypothesis M2 : messages_outcome m2 o1 = Ok o2.
    Hypothesis Hsel : select_report h (X.s_zero g) C8.lhash (C8.codec_size (X.c8cfg g)) (C8.tgas (X.c8cfg g)) nonces
                                    C8.plugin_max_report (X.s_batch_gas g) (o_pending o2) = Ok (reports, pend).

    Lemma model_tokens_ok x cd2 i mm td t fk :
      enrich m2 (xc_cd x) = Ok cd2 ->
      (c_start (xc_cd x) < two64)%N -> (c_end (xc_cd x) < two64)%N ->
      construct_tree h (X.s_zero g) C8.lhash cd2 = Ok t -> length (c_td cd2) = length (c_msgs cd2) ->
      nth_error (c_msgs cd2) i = Some mm -> nth_error (c_td cd2) i = Some td -> td_ready td = true ->
      alookup (c_src (xc_cd x)) fc2 = Some fk ->
      X.tokens_ok fc2 aos2 (xc_cd x) (c_src (xc_cd x)) (m_seq mm) (td_bytes td) = true.
    Proof.
      intros Hen Hs64 He64 Ht Hl Hi Htd Hrd Hlk. destruct W2 as [ND2 [_ [Hf2 _]]].
      set (cd1 := xc_cd x) in *. unfold X.tokens_ok.
      destruct (c_td cd1) as [|td0 tdl] eqn:Etd0.
      - destruct (enrich_alignment m2 cd1 cd2 h (X.s_zero g) C8.lhash t Hen Etd0 Hs64 He64 Ht Hl i mm td Hi Htd)
          as [slots [Htok ->]].
        rewrite (slots_tokens_agreed _ _ _ _ _ _ _ _ _ ND2 C2 Htok Hrd Hlk). reflexivity.
      - destruct (enrich_spec _ _ _ Hen) as [_ [_ [_ [_ [_ [_ [_ [tds [Etd Htds]]]]]]]]].
        apply nth_error_In in Htd. rewrite Etd in Htd. apply in_app_or in Htd. destruct Htd as [Htd|Htd].
        + apply orb_true_iff. right. apply orb_true_iff. left. apply existsb_exists. exists td. split; [now rewrite Etd0 in Htd|].
          rewrite Hrd. cbn [andb]. now apply (leqb_iff _ N_iff).
        + destruct (Htds td Htd) as [s [slots [Hs [Htok ->]]]].
          destruct slots as [|t1 slots'] eqn:Esl.
          * apply orb_true_iff. left. unfold X.tokens_agreed, X.thr_of. rewrite Hlk. reflexivity.
          * apply orb_true_iff. right. apply orb_true_iff. right. apply existsb_exists. exists s. split.
            -- pose proof (to_td_ready _ Hrd t1 (or_introl eq_refl)) as Hr1.
               destruct (merged_tok_quorum _ _ _ _ _ ND2 C2 (c_src cd1) s (t1 :: slots') 0 t1 Htok eq_refl Hr1) as [f [Hf Hq]].
               assert (Hpos : (0 < f_plus_1 f)%N) by (eapply fchain_pos; [exact Hf2|apply alookup_In; exact Hf]).
               destruct (quorum_witness _ _ _ _ Hq Hpos) as [o [ob [Hio Hx]]].
               unfold X.tok_seqs_at. apply in_flat_map. exists (o, ob). split; [exact Hio|]. cbn [snd].
               unfold xtok_of in Hx.
               destruct (nth_error (EM.entries s (EM.entries (c_src cd1) (so_tokens ob))) 0) as [t'|] eqn:En; [|destruct Hx].
               apply nth_error_In in En. unfold EM.entries at 1 in En. apply in_flat_map in En.
               destruct En as [[s' sl] [Hkv Hin']]. cbn [fst snd] in Hin'.
               destruct (N.eqb_spec s' s) as [->|]; [|destruct Hin']. unfold EM.keys. apply in_map_iff. now exists (s, sl).
            -- rewrite Hs. cbn [andb]. exact (slots_tokens_agreed _ _ _ _ _ _ _ _ _ ND2 C2 Htok Hrd Hlk).
    Qed.

    Lemma model_chain_report_ok r :
      In r reports -> X.chain_report_ok g h (X.mkRC fc1 aos1 o1) (X.mkRC fc2 aos2 o2) fc3 aos3 r = true.
    Proof.
      intros Hr. destruct W1 as [ND1 [[sup1 V1] [Hf1 [Hwf1 [K1 [Hb1 _]]]]]]. destruct W2 as [ND2 [[sup2 V2] [Hf2 [Hwf2 [K2 _]]]]].
      pose proof (select_report_full _ _ _ _ _ _ _ _ _ _ _ Hsel) as HF. rewrite Forall_forall in HF.
      destruct (HF r Hr) as [cd2 [Hcd2 [Hgood _]]].
      destruct (messages_outcome_pending _ _ _ _ M2 Hcd2) as [cd1 [Hcd1 Hen]].
      destruct (enrich_spec _ _ _ Hen) as [Es [Er [Ea [Ee [Ex [Hmsgs [Hcostly _]]]]]]].
      assert (Hcd1' : In cd1 (o_pending (commit_reports_outcome m1))) by (rewrite <- E1; exact Hcd1).
      apply commit_outcome_pending in Hcd1'. destruct Hcd1' as [j [l [x [Hj [Hx Ecd]]]]]. subst cd1.
      destruct (merged_commit_quorum sup1 _ _ _ _ _ ND1 V1 K1 C1 j l x Hj Hx) as [_ [Hjsrc Hq]]. subst j.
      destruct (fchain_fdest dest fc1 Hf1) as [_ Hpos1]. destruct (fchain_fdest dest fc2 Hf2) as [Hfd2 _].
      destruct (quorum_witness _ _ _ _ Hq Hpos1) as [ow [obw [Hiw Hxw]]].
      destruct (Hb1 ow obw _ x Hiw Hxw) as [Hs64 [He64 Hwidth]].
      pose proof (enrich_msgs_length _ _ _ Hen Hwidth) as H256.
      pose proof Hgood as [idxs [Hne [Hasc [Hin [t [pf [Ht [Hroot [Hp [Hl Hreq]]]]]]]]]].
      assert (Hrm : r_msgs r = select (c_msgs cd2) idxs) by (subst r; reflexivity).
      assert (Hrt : r_td r = map td_bytes (select (c_td cd2) idxs)) by (subst r; reflexivity).
      assert (Hrs : r_src r = c_src cd2) by (subst r; reflexivity).
      assert (Hrange : forall i, In i idxs -> i < length (c_msgs cd2) /\ i < length (c_td cd2)).
      { intros i Hi. destruct (Hin i Hi) as [Hlt _]. lia. }
      (* facts about one message of the report *)
      assert (Hone : forall mm, In mm (r_msgs r) ->
                m_src mm = c_src cd2 /\ In mm (c_msgs cd2) /\ memN (m_seq mm) (c_exec cd2) = false /\
                memN (m_id mm) (c_costly cd2) = false /\
                PS.in_range (c_start (xc_cd x)) (c_end (xc_cd x)) (m_seq mm) = true).
      { intros mm Hmm. destruct (good_report_msg _ _ _ _ _ _ Hgood Hmm)
          as [_ [Hms [Hrg [_ [i [td [p [Hi [_ [Hnx [Hnc _]]]]]]]]]]].
        split; [exact Hms|]. split; [exact (nth_error_In _ _ Hi)|]. split; [exact Hnx|]. split; [exact Hnc|].
        unfold in_range in Hrg. unfold PS.in_range. now rewrite <- Ea, <- Ee. }
      unfold X.chain_report_ok. cbn [X.rc_out X.rc_fchain X.rc_aos]. apply existsb_exists. exists cd2. split; [exact Hcd2|].
      (* owns, reverify *)
      assert (P1 : C8.owns cd2 r = true).
      { apply J8.owns_from. split; [exact Hrs|]. split.
        - rewrite Hrm. destruct idxs as [|i0 idxs']; [contradiction|]. destruct (Hin i0 (or_introl eq_refl)) as [Hlt _].
          destruct (nth_error (c_msgs cd2) i0) as [m0|] eqn:E0; [|apply nth_error_None in E0; lia].
          rewrite (select_cons _ _ _ _ E0). discriminate.
        - rewrite Hrm. intros m Hm. destruct (select_In _ _ _ Hm) as [i [_ Hn]]. eapply nth_error_In. exact Hn. }
      assert (P2 : C8.reverify h r (c_root cd2) = true).
      { apply J8.reverify_iff.
        exact (good_report_provable h (X.s_zero g) C8.lhash (C8.codec_size (X.c8cfg g)) (C8.tgas (X.c8cfg g)) (X.s_batch_gas g)
                 cd2 r (map m_id (r_msgs r)) (J8.thash_comm _) H256 Hgood (J8.lhash_ids (r_msgs r))). }
      (* the agreed commit report *)
      assert (P3 : existsb (fun cd1 =>
                X.core_eqb cd1 cd2 && X.commit_agreed (X.s_dest g) fc1 aos1 cd1 &&
                forallb (fun m => negb (memN (m_seq m) (c_exec cd1)) && PS.in_range (c_start cd1) (c_end cd1) (m_seq m)) (r_msgs r) &&
                forallb (fun mt => X.tokens_ok fc2 aos2 cd1 (r_src r) (m_seq (fst mt)) (snd mt)) (combine (r_msgs r) (r_td r)))
              (o_pending o1) = true).
      { apply existsb_exists. exists (xc_cd x). split; [exact Hcd1|].
        assert (Q1 : X.core_eqb (xc_cd x) cd2 = true).
        { unfold X.core_eqb. rewrite Es, Er, Ea, Ee, Ex, !N.eqb_refl. cbn [andb]. now apply (leqb_iff _ N_iff). }
        assert (Q2 : X.commit_agreed (X.s_dest g) fc1 aos1 (xc_cd x) = true).
        { apply commit_agreed_complete.
          - eapply validated_commit_key_known; eassumption.
          - apply xcommits_at_in. now exists ow, obw.
          - exact Hq. }
        rewrite Q1, Q2. cbn [andb]. apply andb_true_intro. split.
        - apply forallb_forall. intros mm Hmm. destruct (Hone mm Hmm) as [_ [_ [Hnx [_ Hrg]]]].
          rewrite <- Ex, Hnx, Hrg. reflexivity.
        - apply forallb_forall. intros [mm bytes] Hmt. cbn [fst snd]. rewrite Hrm, Hrt in Hmt.
          destruct (combine_select_in _ _ td_bytes idxs mm bytes Hrange Hmt) as [i [td [Hi [Hnm [Hnt ->]]]]].
          destruct (Hin i Hi) as [_ [m' [td' [Hm' [Htd' [_ [_ Hrd]]]]]]].
          rewrite Hnt in Htd'. inversion Htd'; subst td'.
          destruct (Hmsgs mm (nth_error_In _ _ Hnm)) as [xm [Hxm _]].
          destruct (merged_msg_quorum sup2 _ _ _ _ _ ND2 V2 K2 C2 (c_src (xc_cd x)) xm Hxm) as [fk [Hfk _]].
          assert (Hlk : alookup (c_src (xc_cd x)) fc2 = Some fk) by (apply alookup_NoDup_In; [apply Hf2|exact Hfk]).
          rewrite Hrs, Es.
          exact (model_tokens_ok x cd2 i mm td t fk Hen Hs64 He64 Ht Hl Hnm Hnt Hrd Hlk). }
      assert (P4 : Nat.eqb (length (r_msgs r)) (length (r_td r)) = true).
      { apply Nat.eqb_eq. rewrite Hrm, Hrt. now apply select_lengths. }
      assert (P5 : forallb (fun mt =>
                N.eqb (m_src (fst mt)) (r_src r) && existsb (C8.msg_eqb (fst mt)) (c_msgs cd2) &&
                X.msg_agreed fc2 aos2 (r_src r) (fst mt) &&
                X.not_costly (X.fdest_of g fc2) aos2 (m_id (fst mt))) (combine (r_msgs r) (r_td r)) = true).
      { apply forallb_forall. intros [mm bytes] Hmt. cbn [fst snd].
        pose proof (in_combine_l _ _ _ _ Hmt) as Hmm. destruct (Hone mm Hmm) as [Hms [Hinm [_ [Hnc _]]]].
        assert (T1 : N.eqb (m_src mm) (r_src r) = true) by (apply N.eqb_eq; congruence).
        assert (T2 : existsb (C8.msg_eqb mm) (c_msgs cd2) = true) by (now apply (existsb_iff _ msg8_iff)).
        assert (T3 : X.msg_agreed fc2 aos2 (r_src r) mm = true).
        { destruct (Hmsgs mm Hinm) as [xm [Hxm [Exm _]]].
          destruct (merged_msg_quorum sup2 _ _ _ _ _ ND2 V2 K2 C2 (c_src (xc_cd x)) xm Hxm) as [fk [Hfk Hqm]].
          assert (Hlk : alookup (c_src (xc_cd x)) fc2 = Some fk) by (apply alookup_NoDup_In; [apply Hf2|exact Hfk]).
          destruct (quorum_witness _ _ _ _ Hqm (fchain_pos _ _ _ Hf2 Hfk)) as [o [ob [Hi Hxo]]].
          rewrite Hrs, Es, <- Exm. apply (msg_agreed_complete fc2 aos2 _ fk xm Hlk); [|exact Hqm].
          apply xmsgs_at_in. now exists o, ob. }
        assert (T4 : X.not_costly (X.fdest_of g fc2) aos2 (m_id mm) = true).
        { apply not_costly_complete; [exact ND2|]. intros rs NDr Hrs'. unfold X.fdest_of.
          destruct rs as [|o rs'] eqn:Ers; [cbn; fold dest; lia|]. rewrite <- Ers in *.
          destruct (Z.ltb_spec (Z.of_nat (length rs)) (EM.f_dest (X.s_dest g) fc2 + 1)) as [Hlt|Hge]; [exact Hlt|exfalso].
          apply (Hcostly mm Hinm Hnc). rewrite (merged_costly_eq _ _ _ _ _ C2).
          apply (EMP.merge_costly_complete _ (to_aos aos2) (m_id mm) rs); try assumption.
          - now rewrite to_aos_fst.
          - rewrite Ers. discriminate.
          - intros o' Ho'. destruct (Hrs' o' Ho') as [ob [Hi Hxo]]. exists (to_obs ob). split; [now apply to_aos_in|exact Hxo]. }
        now rewrite T1, T2, T3, T4. }
      now rewrite P1, P2, P3, P4, P5.
    Qed.
  End OneReport.

  Variable x : outcome.
  Hypothesis R3 : Rnd fc3 o2 aos3 = Ok x.
  Hypothesis Hnd : filter_drop fc3 o2 aos3 = false.

  Lemma filter_round_ok :
    X.report_ok g h (Some (X.mkRC fc1 aos1 o1)) (Some (X.mkRC fc2 aos2 o2)) fc3 aos3 x = true.
  Proof.
    destruct (round_state3 _ _ _ _ _ _ _ _ _ _ _ _ _ _ R2 S2) as [_ [m2 [C2 M2]]].
    destruct (round_state2 _ _ _ _ _ _ _ _ _ _ _ _ _ _ R1 S1) as [m1 [C1 E1]].
    destruct (round_inv _ _ _ _ _ _ _ _ _ _ _ _ _ _ R3) as [s0 [m3 [st [o' [Hd [C3 [Hn [Ho Hoo]]]]]]]].
    rewrite S2 in Hd. vm_compute in Hd. inversion Hd; subst s0. vm_compute in Hn. inversion Hn; subst st.
    change (N.eqb 4 2) with false in Ho. change (N.eqb 4 3) with false in Ho. cbv iota in Ho.
    destruct Hoo as [->|[-> _]]; [|apply report_ok_intro; reflexivity].
    unfold filter_outcome in Ho.
    destruct (select_report h (X.s_zero g) C8.lhash (C8.codec_size (X.c8cfg g)) (C8.tgas (X.c8cfg g))
                (nonce_map (X.nkey_of g) (xg_nonces m3)) C8.plugin_max_report (X.s_batch_gas g) (o_pending o2))
      as [[reports pend]| | |] eqn:Hsel; cbn [rbind fst snd] in Ho; try discriminate.
    inversion Ho; subst o'; clear Ho.
    pose proof Hsel as Hsel0. unfold select_report in Hsel0.
    destruct (select_loop h (X.s_zero g) C8.lhash (C8.codec_size (X.c8cfg g)) (C8.tgas (X.c8cfg g))
                (nonce_map (X.nkey_of g) (xg_nonces m3)) C8.plugin_max_report (X.s_batch_gas g) b_init (o_pending o2))
      as [[stf pf]| | |] eqn:El; cbn [rbind fst snd] in Hsel0; try discriminate.
    inversion Hsel0; subst reports pend; clear Hsel0. unfold build in *.
    (* the pending reports of the GetMessages outcome are in NewOutcome order, so are the chain reports *)
    assert (Hsorted2 : StronglySorted (fun a b => (c_src a <= c_src b)%N) (o_pending o2)).
    { unfold messages_outcome in M2. destruct (rmap (enrich m2) (o_pending o1)) as [cds| | |]; cbn [rbind] in M2; try discriminate.
      inversion M2. eapply strongly_sorted_impl; [|apply new_outcome_sorted]. intros a b. apply cd_le_src. }
    destruct (select_loop_sorted _ _ _ _ _ _ _ _ _ _ _ _ El) as [new [N1 [_ N3]]]. cbn [b_init b_reports app] in N1.
    assert (Hrep : o_report (new_outcome 4 pf (b_reports stf)) = b_reports stf).
    { unfold new_outcome. cbn [o_report]. apply J8.sort_by_sorted_id. rewrite N1. now apply N3. }
    apply report_ok_intro; rewrite Hrep.
    - apply forallb_forall. intros r Hr.
      exact (model_chain_report_ok m1 m2 _ _ _ C1 E1 C2 M2 Hsel r Hr).
    - destruct W3 as [ND3 [[sup3 V3] [Hf3 [_ [_ [_ Hn64]]]]]].
      assert (Hk : C8.known_run (cfg3 m3) h b_init (o_pending o2) = false).
      { unfold filter_drop in Hnd. now rewrite C3 in Hnd. }
      pose proof (J8.loop_nonce (cfg3 m3) h (o_pending o2) b_init stf pf [] El Hk (fun c s => eq_refl) eq_refl) as Hnr.
      cbn [cfg3 C8.g_nonces] in Hnr.
      destruct (nonce_run_reports (nonce_map (X.nkey_of g) (xg_nonces m3)) [] (b_reports stf)) as [er|] eqn:Enr; [|congruence].
      apply (nonce_run_reports_walk (nonce_map (X.nkey_of g) (xg_nonces m3)) (X.fdest_of g fc3) aos3) with (exp := []) (exp' := er).
      + intros c s v Hl. apply nonce_map_lookup in Hl.
        pose proof (merged_nonce_quorum sup3 _ _ _ _ _ ND3 V3 C3 _ Hl) as Hq. split; [now apply nonce_agreed_complete|].
        destruct (fchain_fdest dest fc3 Hf3) as [_ Hpos3].
        destruct (quorum_witness _ _ _ _ Hq Hpos3) as [o [ob [Hi Hx]]]. exact (Hn64 o ob _ Hi Hx).
      + intros r m Hr Hm. pose proof (select_report_full _ _ _ _ _ _ _ _ _ _ _ Hsel) as HF. rewrite Forall_forall in HF.
        destruct (HF r Hr) as [cd2 [_ [Hgood _]]].
        destruct (good_report_msg _ _ _ _ _ _ Hgood Hm) as [Hrs [Hms _]]. congruence.
      + intros c s. reflexivity.
      + exact Enr.
  Qed.
End ModelCycle.

(* ====================================================================================================== *)
(*  5. the GetMessages round carries the pending reports; no round of the model crashes                    *)
(* ====================================================================================================== *)
Lemma messages_outcome_carried m prev o :
  messages_outcome m prev = Ok o -> StronglySorted (fun a b => cd_le a b = true) (o_pending prev) ->
  list_eqb X.core_eqb (o_pending prev) (o_pending o) = true.
Proof.
  unfold messages_outcome. destruct (rmap (enrich m) (o_pending prev)) as [cds| | |] eqn:E; cbn [rbind]; try discriminate.
  intros H Hs. inversion H; subst o; clear H. pose proof (rmap_forall2 _ _ _ E) as HF.
  assert (Hs' : StronglySorted (fun a b => cd_le a b = true) cds).
  { refine (forall2_sorted _ _ _ _ _ _ HF Hs). intros a a' b b' Hab Hab' Hle.
    destruct (enrich_spec _ _ _ Hab) as [E1 [_ [E2 _]]]. destruct (enrich_spec _ _ _ Hab') as [E3 [_ [E4 _]]].
    unfold cd_le in *. now rewrite E1, E2, E3, E4. }
  unfold new_outcome. cbn [o_pending]. rewrite (J8.sort_by_sorted_id _ _ Hs').
  clear Hs Hs' E. induction HF as [|a b l r Hab HF IH]; [reflexivity|]. cbn [list_eqb]. rewrite IH, andb_true_r.
  destruct (enrich_spec _ _ _ Hab) as [E1 [E2 [E3 [E4 [E5 _]]]]].
  unfold X.core_eqb. rewrite E1, E2, E3, E4, E5, !N.eqb_refl. cbn [andb]. now apply (leqb_iff _ N_iff).
Qed.

Lemma enrich_total m cd : exists cd', enrich m cd = Ok cd'.
Proof. unfold enrich, PS.range_loop. cbn [rbind]. eexists. reflexivity. Qed.

Section Walk.
  Variable g : X.scfg.
  Let h := C8.thash (C8.mk_htable (X.s_table g)).
  Notation Rnd := (exec_round h (X.s_zero g) C8.lhash (C8.codec_size (X.c8cfg g)) (C8.tgas (X.c8cfg g))
                              C8.plugin_max_report (X.s_batch_gas g) (X.nkey_of g) (X.s_bigF g) (X.s_dest g)).

  Lemma round_no_crash fc prev aos : Rnd fc prev aos <> Panic /\ Rnd fc prev aos <> Spin.
  Proof.
    unfold exec_round, PS.exec_decode_state.
    destruct (PS.exec_state_valid (o_state prev)) eqn:Ev; cbn [rbind]; [|split; discriminate].
    unfold x_consensus, EM.get_consensus.
    destruct (Z.ltb _ _); cbn [rbind]; [split; discriminate|].
    unfold EM.merge_commits. destruct (EM.unknown_key fc EM.o_commits (to_aos aos)); cbn [rbind]; [split; discriminate|].
    unfold EM.merge_msgs. destruct (EM.unknown_key fc EM.o_msgs (to_aos aos)); cbn [rbind]; [split; discriminate|].
    unfold EM.merge_tokens. destruct (EM.unknown_key fc EM.o_tokens (to_aos aos)); cbn [rbind]; [split; discriminate|].
    match goal with |- context [rich ?mg aos] => set (m := rich mg aos) end.
    unfold PS.exec_state_valid in Ev. apply N.leb_le in Ev. unfold PS.exec_next.
    destruct (N.eqb_spec (o_state prev) 2) as [E2|E2]; cbn [rbind].
    - change (N.eqb 3 2) with false. change (N.eqb 3 3) with true. cbv iota.
      destruct (rmap_total (enrich m) (o_pending prev) (enrich_total m)) as [cds Hc].
      unfold messages_outcome. rewrite Hc. cbn [rbind]. split; discriminate.
    - destruct (N.eqb_spec (o_state prev) 3) as [E3|E3]; cbn [rbind].
      + change (N.eqb 4 2) with false. change (N.eqb 4 3) with false. cbv iota. unfold filter_outcome, select_report.
        destruct (J8.loop_no_crash (cfg3 g m) h (o_pending prev) b_init) as [L1 L2].
        match goal with |- context [rbind (rbind ?l _) _] => change l with
          (select_loop_with (add h (C8.g_zero (cfg3 g m)) C8.lhash (C8.codec_size (cfg3 g m)) (C8.tgas (cfg3 g m))
             (C8.g_nonces (cfg3 g m)) (C8.g_max_size (cfg3 g m)) (C8.g_max_gas (cfg3 g m))) b_init (o_pending prev)) end.
        destruct (select_loop_with _ b_init (o_pending prev)) as [y| | |]; cbn [rbind]; try contradiction; split; discriminate.
      + destruct (N.eqb (o_state prev) 0 || N.eqb (o_state prev) 1 || N.eqb (o_state prev) 4) eqn:E014; cbn [rbind].
        * change (N.eqb 2 2) with true. cbv iota. cbn [rbind]. split; discriminate.
        * exfalso. rewrite !orb_false_iff, !N.eqb_neq in E014. lia.
  Qed.

  Lemma rw_of_round_wf r : round_wf g r -> rw g (fst r) (X.accepted (X.verdicts g r) (snd r)).
  Proof.
    intros [ND [Hf Hw]]. split; [now apply xaccepted_nodup|]. split; [|split; assumption].
    exists (sup_of (snd r)). apply accepted_validated; [exact ND|apply Hw].
  Qed.

  (* what the walk knows of its state: in state GetCommitReports the first context is the round that produced the
     current outcome; in state GetMessages both contexts are the two rounds that led to it *)
  Definition inv (cur : outcome) (r1 r2 : option X.rctx) : Prop :=
    (o_state cur = 2%N -> exists a prev0, r1 = Some a /\ X.rc_out a = cur /\ rw g (X.rc_fchain a) (X.rc_aos a) /\
         Rnd (X.rc_fchain a) prev0 (X.rc_aos a) = Ok cur) /\
    (o_state cur = 3%N -> exists a b prev0, r1 = Some a /\ r2 = Some b /\ X.rc_out b = cur /\
         rw g (X.rc_fchain a) (X.rc_aos a) /\ rw g (X.rc_fchain b) (X.rc_aos b) /\
         Rnd (X.rc_fchain a) prev0 (X.rc_aos a) = Ok (X.rc_out a) /\ o_state (X.rc_out a) = 2%N /\
         Rnd (X.rc_fchain b) (X.rc_out a) (X.rc_aos b) = Ok cur).

  (* the recorded class F14 (C08, class 1) over the model's run: some Filter round drops a ready sequenced message *)
  Fixpoint drop_run (cur : outcome) (rs : list X.sround_in) : bool :=
    match rs with
    | [] => false
    | r :: rs' =>
        let vals := X.verdicts g r in
        (N.eqb (o_state cur) 3 && filter_drop g (fst r) cur (X.accepted vals (snd r))) ||
        drop_run (match X.round_model g h cur r vals with Ok x => x | _ => cur end) rs'
    end.

  Lemma emptied_state (o x : outcome) st :
    o_state o = st -> (x = o \/ x = mkOut 1 [] [] /\ o_pending o = [] /\ o_report o = []) -> o_state x = st \/ o_state x = 1%N.
  Proof. intros Hs [->|[-> _]]; [now left|now right]. Qed.

  Lemma walk_model : forall rs cur r1 r2,
    inv cur r1 r2 -> Forall (round_wf g) rs -> drop_run cur rs = false ->
    X.walk g h cur r1 r2 rs (X.run_model g h cur rs) = true.
  Proof.
    induction rs as [|r rs IH]; intros cur r1 r2 Hinv Hwf Hdrop; [reflexivity|].
    inversion Hwf as [|? ? Hr Hwf']; subst. cbn [X.run_model X.walk drop_run] in *. cbv zeta in *.
    apply orb_false_iff in Hdrop. destruct Hdrop as [Hd1 Hd2].
    set (vals := X.verdicts g r) in *. set (aos := X.accepted vals (snd r)) in *.
    pose proof (rw_of_round_wf r Hr) as Hrw. fold vals aos in Hrw.
    change (X.round_model g h cur r vals) with (Rnd (fst r) cur aos) in *.
    destruct (round_no_crash (fst r) cur aos) as [Hnp Hns].
    destruct (Rnd (fst r) cur aos) as [x| | |] eqn:ER; try contradiction; [|exact (IH _ _ _ Hinv Hwf' Hd2)].
    destruct (round_inv _ _ _ _ _ _ _ _ _ _ _ _ _ _ ER) as [s0 [m [st [o' [Hd [C [Hn [Ho Hoo]]]]]]]].
    unfold PS.exec_decode_state in Hd. destruct (PS.exec_state_valid (o_state cur)); [|discriminate].
    inversion Hd; subst s0; clear Hd. rewrite Hn.
    unfold PS.exec_next in Hn.
    destruct (N.eqb_spec (o_state cur) 2) as [E2|E2]; [|destruct (N.eqb_spec (o_state cur) 3) as [E3|E3]].
    - (* GetMessages round *)
      inversion Hn; subst st; clear Hn. change (N.eqb 3 2) with false in *. change (N.eqb 3 3) with true in *. cbv iota in *.
      destruct Hinv as [H2 _]. destruct (H2 E2) as [a [prev0 [-> [Eo [Hrwa Ra]]]]].
      destruct (messages_outcome_state _ _ _ Ho) as [So' _].
      apply andb_true_intro. split.
      + unfold X.carried.
        assert (Hpx : o_pending x = o_pending o') by (destruct Hoo as [->|[-> [Hp _]]]; [reflexivity|now rewrite Hp]).
        rewrite Hpx. apply (messages_outcome_carried m cur o' Ho).
        destruct (round_state2 _ _ _ _ _ _ _ _ _ _ _ _ _ _ Ra E2) as [m1 [_ ->]]. apply new_outcome_sorted.
      + apply IH; [|exact Hwf'|exact Hd2]. split.
        * intros Sx. destruct (emptied_state o' x 3 So' Hoo) as [T|T]; rewrite T in Sx; discriminate.
        * intros Sx. exists a, (X.mkRC (fst r) aos x), prev0. cbn [X.rc_out X.rc_fchain X.rc_aos].
          rewrite Eo. split; [reflexivity|]. split; [reflexivity|]. split; [reflexivity|]. split; [exact Hrwa|].
          split; [exact Hrw|]. split; [exact Ra|]. split; [exact E2|exact ER].
    - (* Filter round *)
      inversion Hn; subst st; clear Hn. change (N.eqb 4 2) with false in *. change (N.eqb 4 3) with false in *. cbv iota in *.
      destruct Hinv as [_ H3]. destruct (H3 E3) as [a [b [prev0 [-> [-> [Eo [Hrwa [Hrwb [Ra [Sa Rb]]]]]]]]]].
      cbn [andb] in Hd1.
      apply andb_true_intro. split.
      + destruct a as [fa aosa oa], b as [fb aosb ob]. cbn [X.rc_out X.rc_fchain X.rc_aos] in *. subst ob.
        exact (filter_round_ok g fa fb (fst r) aosa aosb aos prev0 oa cur Hrwa Hrwb Hrw Ra Sa Rb E3 x ER Hd1).
      + pose proof (filter_outcome_state _ _ _ _ _ _ _ _ _ _ _ Ho) as So'.
        apply IH; [|exact Hwf'|exact Hd2]. split; intros Sx;
          destruct (emptied_state o' x 4 So' Hoo) as [T|T]; rewrite T in Sx; discriminate.
    - (* GetCommitReports round *)
      destruct (N.eqb (o_state cur) 0 || N.eqb (o_state cur) 1 || N.eqb (o_state cur) 4); [|discriminate].
      inversion Hn; subst st; clear Hn. change (N.eqb 2 2) with true in *. cbv iota in *.
      inversion Ho; subst o'; clear Ho.
      apply IH; [|exact Hwf'|exact Hd2]. split.
      + intros Sx. exists (X.mkRC (fst r) aos x), cur. cbn [X.rc_out X.rc_fchain X.rc_aos].
        split; [reflexivity|]. split; [reflexivity|]. split; [exact Hrw|exact ER].
      + intros Sx. destruct (emptied_state (commit_reports_outcome m) x 2 eq_refl Hoo) as [T|T]; rewrite T in Sx; discriminate.
  Qed.
End Walk.

(* ====================================================================================================== *)
(*  6. lemma (a) for sys_safe                                                                              *)
(* ====================================================================================================== *)
(* a case as the harness builds it: the cycle starts with a GetCommitReports round (the previous outcome is Unknown,
   Initialized or a Filter outcome) and every round is well formed *)
Definition sys_wf (i : X.sys_in) : Prop :=
  let '(g, prev, rs) := i in PS.exec_next (o_state prev) = Ok 2%N /\ Forall (round_wf g) rs.
(* inside the recorded class F14 of C08 *)
Definition sys_drop (i : X.sys_in) : bool := let '(g, prev, rs) := i in drop_run g prev rs.

Theorem sys_walk_model_passes g prev rs :
  sys_wf (g, prev, rs) -> sys_drop (g, prev, rs) = false ->
  X.walk g (C8.thash (C8.mk_htable (X.s_table g))) prev None None rs (X.sys_model (g, prev, rs)) = true.
Proof.
  intros [Hst Hwf] Hd. unfold X.sys_model. apply walk_model; [|exact Hwf|exact Hd].
  split; intros E; rewrite E in Hst; vm_compute in Hst; discriminate.
Qed.

(* on the model's own history the safety pass is exactly its ground-truth clause *)
Theorem sys_safe_model i :
  sys_wf i -> sys_drop i = false -> X.sys_safe i (X.sys_model i) = X.noreexec_ok (fst (fst i)) (X.sys_model i).
Proof.
  destruct i as [[g prev] rs]. intros Hwf Hd. unfold X.sys_safe. cbn [fst].
  now rewrite (sys_walk_model_passes g prev rs Hwf Hd).
Qed.
Theorem sys_safe_model_passes i :
  sys_wf i -> sys_drop i = false -> X.noreexec_ok (fst (fst i)) (X.sys_model i) = true ->
  X.sys_safe i (X.sys_model i) = true.
Proof. intros Hwf Hd Hn. now rewrite (sys_safe_model i Hwf Hd). Qed.

(* ---- the premises are decidable: a boolean that implies sys_wf (evaluated on the concrete cases below) ---- *)
Definition fchain_wfb (fc : list (N * Z)) : bool :=
  nodupb N.eqb (EM.keys fc) && forallb (fun kf => Z.leb 0 (snd kf) && Z.ltb (snd kf) 4294967296) fc.
Definition keyfun_b (aos : list sao) : bool :=
  forallb (fun x => forallb (fun x' => negb (N.eqb (xc_key x) (xc_key x')) || X.xc_eqb x x') (all_xcommits aos)) (all_xcommits aos) &&
  forallb (fun x => forallb (fun x' => negb (N.eqb (xm_key x) (xm_key x')) || X.xm_eqb x x') (all_xmsgs aos)) (all_xmsgs aos).
Definition obs_wfb (aos : list sao) : bool :=
  forallb (fun a => EMP.wf_obsb (to_obs (snd a))) aos && keyfun_b aos &&
  forallb (fun x => N.ltb (c_start (xc_cd x)) two64 && N.ltb (c_end (xc_cd x)) two64 &&
                    N.ltb (c_end (xc_cd x) - c_start (xc_cd x)) 256) (all_xcommits aos) &&
  forallb (fun a => forallb (fun t : EM.nonce_t => N.ltb (snd t) two64) (xnonces_of (snd a))) aos.
Definition round_wfb (g : X.scfg) (r : X.sround_in) : bool :=
  nodupb N.eqb (obs_ids (snd r)) && fchain_wfb (fst r) && obs_wfb (X.accepted (X.verdicts g r) (snd r)).
Definition sys_wfb (i : X.sys_in) : bool :=
  let '(g, prev, rs) := i in
  match PS.exec_next (o_state prev) with Ok s => N.eqb s 2 | _ => false end && forallb (round_wfb g) rs.

Lemma nodupb_sound (l : list N) : nodupb N.eqb l = true -> NoDup l.
Proof.
  induction l as [|x l IH]; cbn [nodupb]; intros H; [constructor|]. apply andb_prop in H. destruct H as [H1 H2].
  constructor; [|now apply IH]. intros Hin. apply negb_true_iff in H1.
  assert (existsb (N.eqb x) l = true) by (apply existsb_exists; exists x; split; [exact Hin|apply N.eqb_refl]). congruence.
Qed.
Lemma fchain_wfb_sound fc : fchain_wfb fc = true -> fchain_wf fc.
Proof.
  unfold fchain_wfb. intros H. apply andb_prop in H. destruct H as [H1 H2]. split; [now apply nodupb_sound|].
  intros k f Hi. rewrite forallb_forall in H2. specialize (H2 _ Hi). cbn [snd] in H2. lia.
Qed.
Lemma keyfun_b_sound aos : keyfun_b aos = true -> key_functional aos.
Proof.
  unfold keyfun_b. intros H. apply andb_prop in H. destruct H as [H1 H2]. rewrite forallb_forall in H1, H2.
  apply key_functional_of_lists.
  - intros x x' Hx Hx' E. specialize (H1 x Hx). rewrite forallb_forall in H1. specialize (H1 x' Hx').
    rewrite E, N.eqb_refl in H1. cbn [negb orb] in H1. now apply xc_iff.
  - intros x x' Hx Hx' E. specialize (H2 x Hx). rewrite forallb_forall in H2. specialize (H2 x' Hx').
    rewrite E, N.eqb_refl in H2. cbn [negb orb] in H2. now apply xm_iff.
Qed.
Lemma obs_wfb_sound aos : obs_wfb aos = true -> obs_wf aos.
Proof.
  unfold obs_wfb. intros H. apply andb_prop in H. destruct H as [H H4]. apply andb_prop in H. destruct H as [H H3].
  apply andb_prop in H. destruct H as [H1 H2]. rewrite forallb_forall in H1, H3, H4.
  split; [|split; [now apply keyfun_b_sound|split]].
  - intros o ob Hi. apply EMP.wf_obsb_sound. exact (H1 _ Hi).
  - intros o ob k x Hi Hx.
    assert (Hall : In x (all_xcommits aos)).
    { apply in_flat_map. exists (o, ob). split; [exact Hi|]. cbn [snd]. eapply entries_sub. exact Hx. }
    specialize (H3 _ Hall). lia.
  - intros o ob t Hi Ht. specialize (H4 _ Hi). cbn [snd] in H4. rewrite forallb_forall in H4. specialize (H4 _ Ht). lia.
Qed.
Lemma sys_wfb_sound i : sys_wfb i = true -> sys_wf i.
Proof.
  destruct i as [[g prev] rs]. unfold sys_wfb, sys_wf. intros H. apply andb_prop in H. destruct H as [H1 H2]. split.
  - destruct (PS.exec_next (o_state prev)) as [s| | |]; try discriminate. apply N.eqb_eq in H1. now subst.
  - rewrite Forall_forall. rewrite forallb_forall in H2. intros r Hr. specialize (H2 r Hr). unfold round_wfb in H2.
    apply andb_prop in H2. destruct H2 as [H2 H5]. apply andb_prop in H2. destruct H2 as [H3 H4].
    split; [now apply nodupb_sound|]. split; [now apply fchain_wfb_sound|now apply obs_wfb_sound].
Qed.

(* non-vacuity: the premises hold on the two concrete cycles of JudgeSoundExecSysP.v (SysCase: one oracle deviating in
   every round; TokCase: agreed commit data that carry token data), and the theorem's conclusion is what vm_compute says *)
Example sys_wf_examples :
  sys_wf SysCase.i /\ sys_drop SysCase.i = false /\ X.sys_safe SysCase.i (X.sys_model SysCase.i) = true /\
  sys_wf TokCase.i /\ sys_drop TokCase.i = false /\ X.sys_safe TokCase.i (X.sys_model TokCase.i) = true.
Proof.
  split; [apply sys_wfb_sound; vm_compute; reflexivity|]. split; [vm_compute; reflexivity|].
  split; [vm_compute; reflexivity|].
  split; [apply sys_wfb_sound; vm_compute; reflexivity|]. split; vm_compute; reflexivity.
Qed.

(* ====================================================================================================== *)
(*  6b. the ground-truth clause noreexec_ok, under the assumption on the world it needs                     *)
(* ====================================================================================================== *)
(* the world's executed messages are known to every agreed commit report: a commit report that f_dest + 1 accepted
   observations of a round agree on lists every sequence number of its interval that the destination shows as executed *)
Definition world_ok (g : X.scfg) (fc : list (N * Z)) (aos : list sao) : Prop :=
  forall k x s, quorum (xcommits_of k) (f_plus_1 (EM.f_dest (X.s_dest g) fc)) aos x -> c_src (xc_cd x) = k ->
    PS.in_range (c_start (xc_cd x)) (c_end (xc_cd x)) s = true -> In (k, s) (X.s_executed g) ->
    memN s (c_exec (xc_cd x)) = true.
Definition out_noreexec (g : X.scfg) (x : outcome) : bool :=
  forallb (fun r => forallb (fun m => negb (existsb (fun cs => N.eqb (fst cs) (r_src r) && N.eqb (snd cs) (m_seq m))
                                                   (X.s_executed g))) (r_msgs r)) (o_report x).

Lemma report_noreexec g h a b fc3 aos3 x :
  NoDup (map fst (X.rc_aos a)) -> NoDup (map fst (X.rc_aos b)) -> NoDup (map fst aos3) ->
  X.report_ok g h (Some a) (Some b) fc3 aos3 x = true -> world_ok g (X.rc_fchain a) (X.rc_aos a) ->
  out_noreexec g x = true.
Proof.
  intros ND1 ND2 ND3 Hok Hw. unfold out_noreexec. apply forallb_forall. intros r Hr. apply forallb_forall. intros mm Hmm.
  destruct (report_ok_sound g h a b fc3 aos3 x ND1 ND2 ND3 Hok r mm Hr Hmm) as [[_ [x0 [cd2 [xm [fk Hc]]]]] _].
  destruct Hc as [Hq [_ [Hsrc [_ [_ [_ [_ [_ [_ [_ [_ [_ [Hnx [Hrg _]]]]]]]]]]]]]].
  apply negb_true_iff. destruct (existsb _ (X.s_executed g)) eqn:Ex; [|reflexivity]. exfalso.
  apply existsb_exists in Ex. destruct Ex as [[c s] [Hin He]]. cbn [fst snd] in He. apply andb_prop in He.
  destruct He as [Ec Es]. apply N.eqb_eq in Ec, Es. subst c s.
  rewrite (Hw (r_src r) x0 (m_seq mm) Hq Hsrc Hrg Hin) in Hnx. discriminate.
Qed.

Section WalkWorld.
  Variable g : X.scfg.
  Let h := C8.thash (C8.mk_htable (X.s_table g)).
  Notation Rnd := (exec_round h (X.s_zero g) C8.lhash (C8.codec_size (X.c8cfg g)) (C8.tgas (X.c8cfg g))
                              C8.plugin_max_report (X.s_batch_gas g) (X.nkey_of g) (X.s_bigF g) (X.s_dest g)).
  Definition round_world (r : X.sround_in) : Prop := world_ok g (fst r) (X.accepted (X.verdicts g r) (snd r)).

  Lemma noreexec_run : forall rs cur r1 r2,
    inv g cur r1 r2 -> (forall a, r1 = Some a -> world_ok g (X.rc_fchain a) (X.rc_aos a)) ->
    Forall (round_wf g) rs -> Forall round_world rs -> drop_run g cur rs = false ->
    forallb (fun vo : X.sround_out => match snd vo with Ok x => out_noreexec g x | _ => true end) (X.run_model g h cur rs) = true.
  Proof.
    induction rs as [|r rs IH]; intros cur r1 r2 Hinv Hw1 Hwf Hwo Hdrop; [reflexivity|].
    inversion Hwf as [|? ? Hr Hwf']; subst. inversion Hwo as [|? ? Hrw0 Hwo']; subst.
    cbn [X.run_model drop_run forallb snd] in *. cbv zeta in *.
    apply orb_false_iff in Hdrop. destruct Hdrop as [Hd1 Hd2].
    set (vals := X.verdicts g r) in *. set (aos := X.accepted vals (snd r)) in *.
    pose proof (rw_of_round_wf g r Hr) as Hrw. fold vals aos in Hrw. unfold round_world in Hrw0. fold vals aos in Hrw0.
    change (X.round_model g h cur r vals) with (Rnd (fst r) cur aos) in *.
    assert (Hd2' : drop_run g (match Rnd (fst r) cur aos with Ok x => x | _ => cur end) rs = false) by exact Hd2.
    clear Hd2. rename Hd2' into Hd2.
    destruct (Rnd (fst r) cur aos) as [x| | |] eqn:ER; cbn [andb];
      try (exact (IH _ _ _ Hinv Hw1 Hwf' Hwo' Hd2)).
    destruct (round_inv _ _ _ _ _ _ _ _ _ _ _ _ _ _ ER) as [s0 [m [st [o' [Hd [C [Hn [Ho Hoo]]]]]]]].
    unfold PS.exec_decode_state in Hd. destruct (PS.exec_state_valid (o_state cur)); [|discriminate].
    inversion Hd; subst s0; clear Hd. unfold PS.exec_next in Hn.
    assert (Hrx : o_report x = o_report o' \/ o_report x = []) by (destruct Hoo as [->|[-> _]]; [now left|now right]).
    destruct (N.eqb_spec (o_state cur) 2) as [E2|E2]; [|destruct (N.eqb_spec (o_state cur) 3) as [E3|E3]].
    - inversion Hn; subst st; clear Hn. change (N.eqb 3 2) with false in *. change (N.eqb 3 3) with true in *. cbv iota in *.
      destruct Hinv as [H2 _]. destruct (H2 E2) as [a [prev0 [-> [Eo [Hrwa Ra]]]]].
      destruct (messages_outcome_state _ _ _ Ho) as [So' Ro'].
      apply andb_true_intro. split; [unfold out_noreexec; destruct Hrx as [->| ->]; [now rewrite Ro'|reflexivity]|].
      apply (IH x (Some a) (Some (X.mkRC (fst r) aos x))); [|exact Hw1|exact Hwf'|exact Hwo'|exact Hd2]. split.
      + intros Sx. destruct (emptied_state o' x 3 So' Hoo) as [T|T]; rewrite T in Sx; discriminate.
      + intros Sx. exists a, (X.mkRC (fst r) aos x), prev0. cbn [X.rc_out X.rc_fchain X.rc_aos].
        rewrite Eo. split; [reflexivity|]. split; [reflexivity|]. split; [reflexivity|]. split; [exact Hrwa|].
        split; [exact Hrw|]. split; [exact Ra|]. split; [exact E2|exact ER].
    - inversion Hn; subst st; clear Hn. change (N.eqb 4 2) with false in *. change (N.eqb 4 3) with false in *. cbv iota in *.
      destruct Hinv as [_ H3]. destruct (H3 E3) as [a [b [prev0 [-> [-> [Eo [Hrwa [Hrwb [Ra [Sa Rb]]]]]]]]]].
      cbn [andb] in Hd1.
      pose proof (filter_outcome_state _ _ _ _ _ _ _ _ _ _ _ Ho) as So'.
      apply andb_true_intro. split.
      + pose proof (Hw1 a eq_refl) as Hwa.
        destruct a as [fa aosa oa], b as [fb aosb ob]. cbn [X.rc_out X.rc_fchain X.rc_aos] in *. subst ob.
        pose proof (filter_round_ok g fa fb (fst r) aosa aosb aos prev0 oa cur Hrwa Hrwb Hrw Ra Sa Rb E3 x ER Hd1) as Hok.
        exact (report_noreexec g _ (X.mkRC fa aosa oa) (X.mkRC fb aosb cur) (fst r) aos x
                 (proj1 Hrwa) (proj1 Hrwb) (proj1 Hrw) Hok Hwa).
      + apply (IH x None None); [|intros a0 Ha0; discriminate|exact Hwf'|exact Hwo'|exact Hd2].
        split; intros Sx; destruct (emptied_state o' x 4 So' Hoo) as [T|T]; rewrite T in Sx; discriminate.
    - destruct (N.eqb (o_state cur) 0 || N.eqb (o_state cur) 1 || N.eqb (o_state cur) 4); [|discriminate].
      inversion Hn; subst st; clear Hn. change (N.eqb 2 2) with true in *. cbv iota in *.
      inversion Ho; subst o'; clear Ho.
      apply andb_true_intro. split; [unfold out_noreexec; destruct Hrx as [->| ->]; reflexivity|].
      apply (IH x (Some (X.mkRC (fst r) aos x)) None); [|intros a0 Ha0; inversion Ha0; exact Hrw0|exact Hwf'|exact Hwo'|exact Hd2].
      split.
      + intros Sx. exists (X.mkRC (fst r) aos x), cur. cbn [X.rc_out X.rc_fchain X.rc_aos].
        split; [reflexivity|]. split; [reflexivity|]. split; [exact Hrw|exact ER].
      + intros Sx. destruct (emptied_state (commit_reports_outcome m) x 2 eq_refl Hoo) as [T|T]; rewrite T in Sx; discriminate.
  Qed.
End WalkWorld.

(* [sys_safe] accepts the model's own history when the world is consistent in the above sense (or is not claimed to be:
   s_live = false) *)
Theorem sys_safe_model_world g prev rs :
  sys_wf (g, prev, rs) -> sys_drop (g, prev, rs) = false ->
  (X.s_live g = true -> Forall (round_world g) rs) ->
  X.sys_safe (g, prev, rs) (X.sys_model (g, prev, rs)) = true.
Proof.
  intros Hwf Hd Hw. rewrite (sys_safe_model _ Hwf Hd). cbn [fst]. unfold X.noreexec_ok.
  destruct (X.s_live g) eqn:El; [|reflexivity]. destruct Hwf as [Hst Hwf]. unfold X.sys_model.
  apply (noreexec_run g rs prev None None); [|intros a Ha; discriminate|exact Hwf|now apply Hw|exact Hd].
  split; intros E; rewrite E in Hst; vm_compute in Hst; discriminate.
Qed.

(* ====================================================================================================== *)
(*  7. the two ground-truth clauses are not theorems about the model                                       *)
(* ====================================================================================================== *)
(* [noreexec_ok] and [sys_live] compare the history with s_executed / s_expect: what the harness's WORLD holds (the
   destination's executed messages when the cycle starts; the eligible pending messages).  These are free fields of
   the case - the model never reads them - so nothing about the model decides them: on the SAME rounds as SysCase
   (every premise of (a) holds) a world that shows message 5 as executed, or that expects a message 7 nobody
   observed, makes the model's own history fail them.
   What would have to be assumed of the world, for every cycle judged with s_live = true:
     noreexec: every (c, s) of s_executed is listed as executed (c_exec) by every commit report covering s that
               f_dest + 1 accepted observations of the GetCommitReports round agree on (then clause (c), i.e.
               C09_cycle_no_reexecution, gives it) - true when at least f_dest + 1 of the agreeing oracles read the
               destination's current state, which is what the harness's class bookkeeping (live) promises;
     live:     the hypotheses of C09_cycle_liveness (f + 1 honest oracles with one view of commit report, messages,
               token data, nonces; the report fits and is provable) for every message of s_expect. *)
Module WorldCase.
  Local Open Scope N_scope.
  Import SysCase.
  Definition g_exec : X.scfg :=
    X.mkSCfg table 999 1%Z 9 1000000 0 0 10 [((1, 7, 2), 1); ((1, 7, 9), 2)] true [(1, 5); (1, 6)] [(1, 5)].
  Definition g_more : X.scfg :=
    X.mkSCfg table 999 1%Z 9 1000000 0 0 10 [((1, 7, 2), 1); ((1, 7, 9), 2)] true [(1, 5); (1, 6); (1, 7)] [].
  Definition rounds : list X.sround_in :=
    [(SysEx.fc, four h1 b1); (SysEx.fc, four h2 b2); (SysEx.fc, four SysEx.h3 SysEx.b3)].
  Definition i_exec : X.sys_in := (g_exec, out_init, rounds).
  Definition i_more : X.sys_in := (g_more, out_init, rounds).
  Example ground_truth_not_about_the_model :
    sys_wf i_exec /\ sys_drop i_exec = false /\
    X.walk g_exec hh out_init None None rounds (X.sys_model i_exec) = true /\
    X.noreexec_ok g_exec (X.sys_model i_exec) = false /\ X.sys_safe i_exec (X.sys_model i_exec) = false /\
    sys_wf i_more /\ sys_drop i_more = false /\ X.sys_safe i_more (X.sys_model i_more) = true /\
    X.sys_live i_more (X.sys_model i_more) = false.
  Proof.
    split; [apply sys_wfb_sound; vm_compute; reflexivity|]. split; [vm_compute; reflexivity|].
    split; [vm_compute; reflexivity|]. split; [vm_compute; reflexivity|]. split; [vm_compute; reflexivity|].
    split; [apply sys_wfb_sound; vm_compute; reflexivity|]. repeat split; vm_compute; reflexivity.
  Qed.
End WorldCase.

(* non-vacuity of sys_safe_model_world: a world in which message (1, 5) is executed; all four oracles report the commit
   report with 5 in its executed list; the model's Filter round reports message 6 alone *)
Module ExecCase.
  Local Open Scope N_scope.
  Import SysCase.
  Definition gx : X.scfg :=
    X.mkSCfg table 999 1%Z 9 1000000 0 0 10 [((1, 7, 2), 1); ((1, 7, 9), 2)] true [(1, 6)] [(1, 5)].
  Definition c1x : sobs := mkSO [(1, [xv])] [] [] [] [].
  Definition t2x : sobs := mkSO [] [(1, [(5, SysEx.xm1); (6, SysEx.xm2)])] [(1, [(5, [SysEx.tokA]); (6, [])])] [] [].
  Definition rounds : list X.sround_in :=
    [(SysEx.fc, four c1x c1x); (SysEx.fc, four t2x t2x); (SysEx.fc, four SysEx.h3 SysEx.b3)].
  Definition i : X.sys_in := (gx, out_init, rounds).

  Lemma world : Forall (round_world gx) rounds.
  Proof.
    assert (Hpos : (0 < f_plus_1 (EM.f_dest (X.s_dest gx) SysEx.fc))) by (vm_compute; reflexivity).
    unfold rounds. apply Forall_cons; [|apply Forall_cons; [|apply Forall_cons; [|apply Forall_nil]]];
      unfold round_world; intros k x s Hq Hsrc Hrg Hin; clear Hsrc Hrg; cbn [fst] in Hq;
      destruct (quorum_witness _ _ _ _ Hq Hpos) as [o [ob [Hi Hx]]]; vm_compute in Hi;
      repeat (destruct Hi as [Hi|Hi]; [inversion Hi; subst o ob; clear Hi|]); try destruct Hi;
      destruct Hin as [Hin|[]]; inversion Hin; subst k s;
      vm_compute in Hx; first [destruct Hx as [Hx|[]]; subst x; vm_compute; reflexivity | destruct Hx].
  Qed.

  Example sys_safe_world_example :
    sys_wf i /\ sys_drop i = false /\ X.s_live gx = true /\ X.s_executed gx = [(1, 5)] /\ Forall (round_world gx) rounds /\
    X.sys_safe i (X.sys_model i) = true /\ X.sys_live i (X.sys_model i) = true /\
    map (fun vo => match snd vo with Ok o => map (fun r => map m_seq (r_msgs r)) (o_report o) | _ => [] end)
        (X.sys_model i) = [[]; []; [[6]]].
  Proof.
    split; [apply sys_wfb_sound; vm_compute; reflexivity|]. split; [vm_compute; reflexivity|].
    split; [reflexivity|]. split; [reflexivity|]. split; [exact world|]. repeat split; vm_compute; reflexivity.
  Qed.
End ExecCase.

(* DiscoveryP.v — the C01 theorems about the contract-discovery processor (Model/Discovery.v) *)
Require Import Verif.Model.Base Verif.Proofs.BaseP Verif.Model.Consensus Verif.Proofs.ConsensusP
               Verif.Model.CommitConsensus Verif.Proofs.CommitConsensusP Verif.Model.Discovery.
From Coq Require Import ZifyN ZifyNat ZifyBool.

(* Go maps: unique keys in every map of an observation *)
Definition dobs_wf (ob : dobs) : Prop :=
  NoDup (map fst (d_fchain_obs ob)) /\ NoDup (map fst (d_onramp ob)) /\ NoDup (map fst (d_nonce ob)) /\
  NoDup (map fst (d_rmn ob)) /\ NoDup (map fst (d_feeq ob)) /\ NoDup (map fst (d_router ob)).
Definition dvalid_input (aos : list (N * dobs)) : Prop :=
  NoDup (map fst aos) /\ forall o ob, In (o, ob) aos -> dobs_wf ob.

Lemma nonzero_keys_nodup m : NoDup (map fst m) -> NoDup (map fst (nonzero m)).
Proof.
  unfold nonzero. induction m as [|[k a] m IH]; cbn [filter map fst snd]; intros ND; [constructor|].
  inversion ND as [|? ? Hn ND']; subst.
  destruct (negb (N.eqb a 0)); cbn [map fst]; [|now apply IH].
  constructor; [|now apply IH]. intros Hi. apply Hn.
  apply in_map_iff in Hi. destruct Hi as [p [Hp Hf]]. apply filter_In in Hf. apply in_map_iff. exists p. tauto.
Qed.

Lemma only_dest_keys_nodup dest m : NoDup (map fst (only_dest dest m)).
Proof.
  unfold only_dest. destruct (alookup dest m) as [a|]; [|constructor].
  destruct (N.eqb a 0); cbn; repeat constructor. intros [].
Qed.

Lemma nonzero_in m k a : In (k, a) (nonzero m) <-> In (k, a) m /\ a <> 0%N.
Proof.
  unfold nonzero. rewrite filter_In. cbn [snd]. rewrite negb_true_iff, N.eqb_neq. tauto.
Qed.

Lemma only_dest_in dest m k a :
  In (k, a) (only_dest dest m) <-> k = dest /\ alookup dest m = Some a /\ a <> 0%N.
Proof.
  unfold only_dest. destruct (alookup dest m) as [a'|].
  - destruct (N.eqb_spec a' 0) as [->|Hne]; cbn [In].
    + split; [intros []|]. intros [_ [H Hn]]. inversion H; subst. congruence.
    + split.
      * intros [H|[]]. inversion H; subst. tauto.
      * intros [-> [H _]]. inversion H; subst. now left.
  - cbn [In]. split; [intros []|]. intros [_ [H _]]. discriminate.
Qed.

(* generic reading of one consensus map: k -> v present <=> threshold known and v is THE agreed value *)
Lemma map_field_iff {O V} (get : O -> list (N * V)) eqb (eqb_spec : forall x y, reflect (x = y) (eqb x y))
      thr_of (aos : list (N * O)) k v :
  NoDup (map fst aos) ->
  (forall o ob, In (o, ob) aos -> NoDup (map fst (get ob))) ->
  (forall k t, thr_of k = Some t -> (0 < t)%N) ->
  (alookup k (consensus_map eqb thr_of (agg_map get aos)) = Some v <->
   exists thr, thr_of k = Some thr /\ agreed_value get aos k thr v).
Proof.
  intros ND Hone Hpos.
  assert (Hin : alookup k (consensus_map eqb thr_of (agg_map get aos)) = Some v <->
                In (k, v) (consensus_map eqb thr_of (agg_map get aos))).
  { split; [apply alookup_In|apply alookup_NoDup_In, consensus_map_keys_nodup, agg_map_keys_nodup]. }
  rewrite Hin. apply (field_consensus_iff get eqb eqb_spec thr_of aos k v ND Hone Hpos).
Qed.

Section Disc.
  Variables (F : Z) (dest : N) (aos : list (N * dobs)).
  Hypothesis Hvalid : dvalid_input aos.
  Let fch := d_fchain_cons F aos.
  Let NDo : NoDup (map fst aos) := proj1 Hvalid.

  Lemma d_one_fchain : forall o ob, In (o, ob) aos -> NoDup (map fst (d_fchain_obs ob)).
  Proof. intros o ob Hi. destruct (proj2 Hvalid o ob Hi). tauto. Qed.
  Lemma d_one_onramp : forall o ob, In (o, ob) aos -> NoDup (map fst (onramp_dkv ob)).
  Proof. intros o ob Hi. apply nonzero_keys_nodup. destruct (proj2 Hvalid o ob Hi). tauto. Qed.
  Lemma d_one_feeq : forall o ob, In (o, ob) aos -> NoDup (map fst (feeq_dkv ob)).
  Proof. intros o ob Hi. apply nonzero_keys_nodup. destruct (proj2 Hvalid o ob Hi). tauto. Qed.
  Lemma d_one_router : forall o ob, In (o, ob) aos -> NoDup (map fst (router_dkv ob)).
  Proof. intros o ob Hi. apply nonzero_keys_nodup. destruct (proj2 Hvalid o ob Hi). tauto. Qed.
  Lemma d_one_nonce : forall o ob, In (o, ob) aos -> NoDup (map fst (nonce_dkv dest ob)).
  Proof. intros. apply only_dest_keys_nodup. Qed.
  Lemma d_one_rmn : forall o ob, In (o, ob) aos -> NoDup (map fst (rmn_dkv dest ob)).
  Proof. intros. apply only_dest_keys_nodup. Qed.

  Lemma d_thr_some k t : thr_2f1 fch k = Some t <-> exists f, alookup k fch = Some f /\ t = two_f_plus_1 f.
  Proof.
    unfold thr_2f1. destruct (alookup k fch) as [f|]; split.
    - intros H. inversion H. exists f. tauto.
    - intros [f' [H1 H2]]. inversion H1; subst. reflexivity.
    - discriminate.
    - intros [f' [H1 _]]. discriminate.
  Qed.

  Lemma d_keyf_iff get (Hone : forall o ob, In (o, ob) aos -> NoDup (map fst (get ob))) k a :
    alookup k (consensus_map N.eqb (thr_2f1 fch) (agg_map get aos)) = Some a <->
    exists f, alookup k fch = Some f /\ agreed_value get aos k (two_f_plus_1 f) a.
  Proof.
    rewrite (map_field_iff get N.eqb N_eqb_reflect _ aos k a NDo Hone (thr_2f1_pos fch)). split.
    - intros [thr [Ht H]]. apply d_thr_some in Ht. destruct Ht as [f [Hf ->]]. exists f. tauto.
    - intros [f [Hf H]]. exists (two_f_plus_1 f). split; [|exact H]. apply d_thr_some. exists f. tauto.
  Qed.

  (* ---- C01_discovery ---- *)
  Theorem discovery_iff k :
    (forall f, alookup k fch = Some f <-> agreed_value d_fchain_obs aos k (two_f_plus_1 F) f) /\
    (forall a, alookup k (dc_onramp (discovery_outcome F dest aos)) = Some a <->
       exists fd, alookup dest fch = Some fd /\ agreed_value onramp_dkv aos k (two_f_plus_1 fd) a) /\
    (forall a, alookup k (dc_nonce (discovery_outcome F dest aos)) = Some a <->
       exists f, alookup k fch = Some f /\ agreed_value (nonce_dkv dest) aos k (two_f_plus_1 f) a) /\
    (forall a, alookup k (dc_rmn (discovery_outcome F dest aos)) = Some a <->
       exists f, alookup k fch = Some f /\ agreed_value (rmn_dkv dest) aos k (two_f_plus_1 f) a) /\
    (forall a, alookup k (dc_feeq (discovery_outcome F dest aos)) = Some a <->
       exists f, alookup k fch = Some f /\ agreed_value feeq_dkv aos k (two_f_plus_1 f) a) /\
    (forall a, alookup k (dc_router (discovery_outcome F dest aos)) = Some a <->
       exists f, alookup k fch = Some f /\ agreed_value router_dkv aos k (two_f_plus_1 f) a).
  Proof.
    unfold discovery_outcome. fold fch. cbn [dc_onramp dc_nonce dc_rmn dc_feeq dc_router].
    split.
    { intros f. unfold fch, d_fchain_cons.
      rewrite (map_field_iff d_fchain_obs Z.eqb Z_eqb_reflect _ aos k f NDo d_one_fchain).
      - split.
        + intros [thr [Ht H]]. inversion Ht; subst. exact H.
        + intros H. exists (two_f_plus_1 F). split; [reflexivity|exact H].
      - intros k' t Ht. inversion Ht; subst. apply two_f_plus_1_positive. }
    split.
    { intros a. destruct (alookup dest fch) as [fd|] eqn:Ed.
      - rewrite (map_field_iff onramp_dkv N.eqb N_eqb_reflect _ aos k a NDo d_one_onramp).
        + split.
          * intros [thr [Ht H]]. inversion Ht; subst. exists fd. tauto.
          * intros [fd' [Hf H]]. inversion Hf; subst. exists (two_f_plus_1 fd'). tauto.
        + intros k' t Ht. inversion Ht; subst. apply two_f_plus_1_positive.
      - cbn [alookup]. split; [discriminate|]. intros [fd [Hf _]]. discriminate. }
    split; [intros a; apply d_keyf_iff, d_one_nonce|].
    split; [intros a; apply d_keyf_iff, d_one_rmn|].
    split; [intros a; apply d_keyf_iff, d_one_feeq|].
    intros a; apply d_keyf_iff, d_one_router.
  Qed.

  (* what "reported" means for the five address maps: zero addresses never count; the nonce manager and the
     RMN remote are read under the destination key only *)
  Theorem discovery_reported o k a :
    (reported onramp_dkv aos o k a <-> exists ob, In (o, ob) aos /\ In (k, a) (d_onramp ob) /\ a <> 0%N) /\
    (reported feeq_dkv aos o k a <-> exists ob, In (o, ob) aos /\ In (k, a) (d_feeq ob) /\ a <> 0%N) /\
    (reported router_dkv aos o k a <-> exists ob, In (o, ob) aos /\ In (k, a) (d_router ob) /\ a <> 0%N) /\
    (reported (nonce_dkv dest) aos o k a <->
       k = dest /\ exists ob, In (o, ob) aos /\ alookup dest (d_nonce ob) = Some a /\ a <> 0%N) /\
    (reported (rmn_dkv dest) aos o k a <->
       k = dest /\ exists ob, In (o, ob) aos /\ alookup dest (d_rmn ob) = Some a /\ a <> 0%N).
  Proof.
    unfold reported, onramp_dkv, feeq_dkv, router_dkv, nonce_dkv, rmn_dkv.
    repeat split.
    - intros [ob [Hi Hg]]. apply nonzero_in in Hg. exists ob. tauto.
    - intros [ob [Hi Hg]]. exists ob. split; [exact Hi|]. now apply nonzero_in.
    - intros [ob [Hi Hg]]. apply nonzero_in in Hg. exists ob. tauto.
    - intros [ob [Hi Hg]]. exists ob. split; [exact Hi|]. now apply nonzero_in.
    - intros [ob [Hi Hg]]. apply nonzero_in in Hg. exists ob. tauto.
    - intros [ob [Hi Hg]]. exists ob. split; [exact Hi|]. now apply nonzero_in.
    - destruct H as [ob [Hi Hg]]. apply only_dest_in in Hg. tauto.
    - destruct H as [ob [Hi Hg]]. apply only_dest_in in Hg. exists ob. tauto.
    - intros [-> [ob [Hi Hg]]]. exists ob. split; [exact Hi|]. apply only_dest_in. tauto.
    - destruct H as [ob [Hi Hg]]. apply only_dest_in in Hg. tauto.
    - destruct H as [ob [Hi Hg]]. apply only_dest_in in Hg. exists ob. tauto.
    - intros [-> [ob [Hi Hg]]]. exists ob. split; [exact Hi|]. apply only_dest_in. tauto.
  Qed.

  (* at most f oracles cannot account for a discovered address *)
  Theorem discovery_byzantine k B :
    NoDup B ->
    (forall a fd, alookup dest fch = Some fd -> (0 <= fd < 2^63)%Z -> (length B <= Z.to_nat fd)%nat ->
       alookup k (dc_onramp (discovery_outcome F dest aos)) = Some a ->
       honest_support (fun o => reported onramp_dkv aos o k a) B (Z.to_nat fd + 1)) /\
    (forall a f, alookup k fch = Some f -> (0 <= f < 2^63)%Z -> (length B <= Z.to_nat f)%nat ->
       (alookup k (dc_nonce (discovery_outcome F dest aos)) = Some a ->
          honest_support (fun o => reported (nonce_dkv dest) aos o k a) B (Z.to_nat f + 1)) /\
       (alookup k (dc_rmn (discovery_outcome F dest aos)) = Some a ->
          honest_support (fun o => reported (rmn_dkv dest) aos o k a) B (Z.to_nat f + 1)) /\
       (alookup k (dc_feeq (discovery_outcome F dest aos)) = Some a ->
          honest_support (fun o => reported feeq_dkv aos o k a) B (Z.to_nat f + 1)) /\
       (alookup k (dc_router (discovery_outcome F dest aos)) = Some a ->
          honest_support (fun o => reported router_dkv aos o k a) B (Z.to_nat f + 1))).
  Proof.
    intros NDB. destruct (discovery_iff k) as [_ [H1 [H2 [H3 [H4 H5]]]]]. split.
    - intros a fd Hfd Hr HB Ha. apply H1 in Ha. destruct Ha as [fd' [Hfd' [Hs _]]]. rewrite Hfd in Hfd'. inversion Hfd'; subst.
      now apply (supported_minus_byzantine _ fd' B).
    - intros a f Hf Hr HB. repeat split; intros Ha.
      + apply H2 in Ha. destruct Ha as [f' [Hf' [Hs _]]]. rewrite Hf in Hf'. inversion Hf'; subst.
        now apply (supported_minus_byzantine _ f' B).
      + apply H3 in Ha. destruct Ha as [f' [Hf' [Hs _]]]. rewrite Hf in Hf'. inversion Hf'; subst.
        now apply (supported_minus_byzantine _ f' B).
      + apply H4 in Ha. destruct Ha as [f' [Hf' [Hs _]]]. rewrite Hf in Hf'. inversion Hf'; subst.
        now apply (supported_minus_byzantine _ f' B).
      + apply H5 in Ha. destruct Ha as [f' [Hf' [Hs _]]]. rewrite Hf in Hf'. inversion Hf'; subst.
        now apply (supported_minus_byzantine _ f' B).
  Qed.
End Disc.

Definition dvalid_inputb (aos : list (N * dobs)) : bool :=
  nodupb N.eqb (map fst aos) &&
  forallb (fun ao => let ob := snd ao in
     nodupb N.eqb (map fst (d_fchain_obs ob)) && nodupb N.eqb (map fst (d_onramp ob)) &&
     nodupb N.eqb (map fst (d_nonce ob)) && nodupb N.eqb (map fst (d_rmn ob)) &&
     nodupb N.eqb (map fst (d_feeq ob)) && nodupb N.eqb (map fst (d_router ob))) aos.
Lemma dvalid_inputb_sound aos : dvalid_inputb aos = true -> dvalid_input aos.
Proof.
  unfold dvalid_inputb, dvalid_input. rewrite andb_true_iff, nodupb_NoDup, forallb_forall. intros [H1 H2].
  split; [exact H1|]. intros o ob Hi. specialize (H2 _ Hi). cbn [snd] in H2.
  rewrite !andb_true_iff, !nodupb_NoDup in H2. unfold dobs_wf. tauto.
Qed.

(* ---------- F03: the function before the repair adopts an on-ramp reported by ONE oracle when the
   destination's f is not agreed (fChain[dest] of a Go map reads as 0, threshold 2*0+1 = 1) ---------- *)
Definition ex_d_empty : dobs := mkDobs [] [] [] [] [] [].
Definition ex_d_aos : list (N * dobs) :=
  [ (0, ex_d_empty); (1, ex_d_empty); (2, ex_d_empty); (3, mkDobs [] [(5, 77)] [] [] [] []) ]%N.

Theorem discovery_onramp_unfixed_refuted :
  exists F dest aos k a,
    dvalid_input aos /\
    alookup dest (d_fchain_cons F aos) = None /\
    alookup k (dc_onramp (discovery_outcome_unfixed F dest aos)) = Some a /\
    (forall o, reported onramp_dkv aos o k a -> o = 3%N) /\
    alookup k (dc_onramp (discovery_outcome F dest aos)) = None.
Proof.
  exists 1%Z, 9%N, ex_d_aos, 5%N, 77%N.
  split; [apply dvalid_inputb_sound; vm_compute; reflexivity|].
  split; [vm_compute; reflexivity|]. split; [vm_compute; reflexivity|].
  split; [|vm_compute; reflexivity].
  intros o [ob [Hi Hg]]. cbn in Hi.
  destruct Hi as [Hi|[Hi|[Hi|[Hi|[]]]]]; inversion Hi; subst; try reflexivity; cbn in Hg; contradiction.
Qed.

(* Example: 4 oracles, F = 1, destination 9 with f = 1: on-ramp of chain 5 agreed by 3, router of chain 5 by only 2 *)
Definition ex_d_ok : list (N * dobs) :=
  [ (0, mkDobs [(9%N, 1%Z); (5%N, 1%Z)] [(5, 77)] [(9, 55)] [] [] [(5, 66)]);
    (1, mkDobs [(9%N, 1%Z); (5%N, 1%Z)] [(5, 77)] [(9, 55)] [] [] [(5, 66)]);
    (2, mkDobs [(9%N, 1%Z); (5%N, 1%Z)] [(5, 77)] [(9, 55)] [] [] [(5, 0)]);
    (3, mkDobs [] [(5, 78)] [(9, 0)] [] [] []) ]%N.
Example ex_d_valid : dvalid_input ex_d_ok.
Proof. apply dvalid_inputb_sound. vm_compute. reflexivity. Qed.
Example ex_d_outcome :
  discovery_outcome 1 9 ex_d_ok = mkDcons [(5, 77)]%N [(9, 55)]%N [] [] [].
Proof. vm_compute. reflexivity. Qed.

(* JudgeSoundC13P.v — the executable properties of Check/C13_check.v (sweep_ok, site_ok) are the C13 property:
   "the callback / site function returned (a value or an error); it neither panicked nor failed to return".
   (The third judge of the C13 spec, c06_judge, is the C06 one re-exported: see JudgeSoundC06P.v.) *)
Require Import Verif.Model.Base Verif.Model.PanicSites Verif.Model.PanicSites2.
Require Import Verif.Proofs.PanicSites2P.
Require Import Verif.Check.C13_check.

(* the termination code of a res value is 0 / 1 exactly when it is neither Panic nor Spin *)
Lemma res_code_ok_iff {A} (r : res A) :
  N.eqb (res_code r) 0 || N.eqb (res_code r) 1 = true <-> no_crash r.
Proof.
  unfold no_crash. destruct r; cbn [res_code]; split; intros H;
    try reflexivity; try (split; discriminate); try discriminate H.
  - destruct H as [H _]. exfalso. apply H. reflexivity.
  - destruct H as [_ H]. exfalso. apply H. reflexivity.
Qed.

(* ---------------- sink(s) C13_commit / C13_exec / C13_reader_commit / C13_reader_exec: sweep_judge ---------------- *)
Section Sweep.
  (* (a) premise-free *)
  Lemma sweep_model_passes : forall i, sweep_ok i (sweep_model i) = true.
  Proof. intros i. reflexivity. Qed.

  (* (b) the recorded termination code is "returned": not 2 (panicked), not 3 (watchdog) *)
  Lemma sweep_sound : forall i o, sweep_ok i o = true -> o = 0%N /\ o <> 2%N /\ o <> 3%N.
  Proof.
    intros i o H. unfold sweep_ok in H. apply N.eqb_eq in H. subst o.
    split; [reflexivity|]. split; discriminate.
  Qed.

  Example sweep_ok_example : sweep_ok (1, 3, 2, 77)%N 0%N = true /\ sweep_ok (1, 3, 2, 77)%N 2%N = false.
  Proof. vm_compute. split; reflexivity. Qed.
End Sweep.

(* ---------------- sinks C13_sites_*: site_judge ---------------- *)
Section Sites.
  (* what the never-panics theorems of Props/C13.v assume of the site input (7.2 idx >= 0, 7.4 two non-nil integers,
     7.5 index >= 0, 7.6 a byte string shorter than 2^64) *)
  Definition site_wf (i : site_in) : Prop :=
    match i with
    | SCheckMsg idx _ _ => (0 <= idx)%Z
    | SDeviates x1 x2 _ => x1 <> None /\ x2 <> None
    | SAppend idx _ => (0 <= idx)%Z
    | SKeepRight len _ => (N.of_nat len < two64)%N
    | _ => True
    end.

  (* the res-monad value behind the model's code is never Panic / Spin — straight from the C13 site theorems *)
  Lemma site_model_passes : forall i, site_wf i -> site_ok i (site_model i) = true.
  Proof.
    intros i W. unfold site_ok.
    destruct i; cbn [site_model site_wf] in *; try (apply res_code_ok_iff).
    - (* zip family *)
      destruct (N.eqb site 1); [apply res_code_ok_iff, validate_roots_state_no_crash|].
      destruct (N.eqb site 2); [apply res_code_ok_iff, observe_offramp_next_no_crash|].
      destruct (N.eqb site 3); [apply res_code_ok_iff, observe_feed_prices_no_crash|].
      destruct (N.eqb site 4); [apply res_code_ok_iff, all_source_configs_no_crash|].
      destruct (N.eqb site 5); [apply res_code_ok_iff, report_token_data_no_crash|].
      destruct (N.eqb site 6); [apply res_code_ok_iff, token_merge_no_crash|].
      apply res_code_ok_iff, fee_quoter_updates_no_crash.
    - apply check_message_no_crash. exact W.
    - apply builder_add_no_crash.
    - apply ecdsa_sig_from_pb_no_crash.
    - apply parse_bundle_no_crash.
    - apply verify_query_no_crash.
    - apply verify_query_no_crash.
    - apply build_report_bundle_no_crash.
    - destruct W as [W1 W2]. destruct x1 as [a|]; [|exfalso; apply W1; reflexivity].
      destruct x2 as [b|]; [|exfalso; apply W2; reflexivity]. apply deviates_no_crash.
    - apply append_at_no_crash. exact W.
    - apply merge_tok_all_no_crash. reflexivity.
    - apply root32_no_crash.
    - apply max_count_no_crash.
    - apply keep_n_right_no_crash. unfold units. rewrite repeat_length. exact W.
    - apply unpack_id_no_crash.
    - apply source_token_payload_no_crash.
    - apply exec_cost_no_crash.
    - apply packed_fee_no_crash.
    - apply msg_fee_no_crash.
    - apply filter_one_no_crash.
    - apply raw_price_no_crash.
    - apply fee_components_no_crash.
  Qed.

  (* (b) a termination code that passes is the code of a result that is no crash (the predicate of every
     C13_*_never_panics theorem), whatever the site *)
  Lemma site_sound : forall i o, site_ok i o = true ->
    (o = 0%N \/ o = 1%N) /\ forall (A : Type) (r : res A), res_code r = o -> no_crash r.
  Proof.
    intros i o H. unfold site_ok in H. split.
    - apply orb_true_iff in H. destruct H as [H|H]; apply N.eqb_eq in H; [left|right]; exact H.
    - intros A r E. apply res_code_ok_iff. rewrite E. exact H.
  Qed.

  (* together with code 1 of the judge (implementation = model) this is the site's theorem for the REAL function:
     representative transfer for 7.6 KeepNRightBytes — without any premise on the input *)
  Corollary site_sound_keep_right : forall len n o,
    site_ok (SKeepRight len n) o = true -> o = site_model (SKeepRight len n) -> no_crash (keep_n_right (units len) n).
  Proof.
    intros len n o H E. destruct (site_sound _ _ H) as [_ S]. apply S. symmetry. exact E.
  Qed.

  Example site_ok_example :
    site_ok (SCheckMsg 1 2 1) 1%N = true /\ site_model (SCheckMsg 1 2 1) = 1%N /\
    site_ok (SKeepRight 20 33) 0%N = true /\ site_model (SKeepRight 20 33) = 0%N /\
    site_ok (SDeviates (Some 5%Z) (Some 0%Z) 10000000) (site_model (SDeviates (Some 5%Z) (Some 0%Z) 10000000)) = true /\
    site_ok (SRoot32 31) 2%N = false.
  Proof. vm_compute. repeat split; reflexivity. Qed.

  (* the premise of (a) is needed: outside it the model itself crashes (nil operand of Deviates, negative index) —
     the harness never produces such inputs (it passes non-nil integers and skips negative indices) *)
  Example site_wf_needed :
    site_ok (SDeviates None (Some 1%Z) 1) (site_model (SDeviates None (Some 1%Z) 1)) = false /\
    site_ok (SAppend (-1) 2) (site_model (SAppend (-1) 2)) = false.
  Proof. vm_compute. split; reflexivity. Qed.
End Sites.

(* ---------------- sink C06_sweep judged by the re-exported c06_judge ---------------- *)
Require Import Verif.Proofs.JudgeSoundC06P.
(* C13's clause of the C06 executable property: the call returned (kind 10 = watchdog) and not by a recovered panic
   (kind 9) — the reading of C13_rmn_never_panics / C13_rmn_returns_by_deadline on an arbitrary output *)
Lemma c06_sound_no_panic_no_hang : forall i o,
  c06_ok i o = true -> exists x, o = [x] /\ o_kind x <> 9%N /\ o_kind x <> 10%N.
Proof.
  intros i o H. destruct (c06_sound i o H) as (x & E & K9 & K10 & _). exists x. auto.
Qed.
Example c06_no_panic_example :
  c06_ok (Ex.inp 105%N) [Ex.good_out] = true /\
  c06_ok (Ex.inp 105%N) [mkOut 9 [] [] Ex.log4 [] true] = false /\
  c06_ok (Ex.inp 105%N) [mkOut 10 [] [] Ex.log4 [] true] = false.
Proof. vm_compute. repeat split; reflexivity. Qed.

(* ---------------- borrowed parts: the panic-only judges p_* (pj_from bad) ---------------- *)
(* no model; the boolean tested is [bad o].  An empty verdict list means no recorded output is bad, and for the
   res-valued outputs "not bad" is no_crash *)
Lemma pj_from_sound {I O : Type} (bad : O -> bool) (cs : list (I * O)) : forall k,
  pj_from bad k cs = [] <-> Forall (fun c => bad (snd c) = false) cs.
Proof.
  induction cs as [|[i o] cs IH]; intros k; cbn [pj_from]; [split; [constructor|reflexivity]|].
  destruct (bad o) eqn:E; cbn [app].
  - split; [discriminate|]. intros F. inversion F as [|? ? H _]; subst. cbn [snd] in H. congruence.
  - rewrite IH. split; [intros F; constructor; [exact E|exact F]|]. intros F. now inversion F.
Qed.
Lemma res_bad_no_crash {A} (r : res A) : res_bad r = false <-> no_crash r.
Proof.
  unfold no_crash. destruct r; cbn [res_bad]; split; intros H; try reflexivity; try (split; discriminate);
    try discriminate H.
  - destruct H as [H _]. exfalso. now apply H.
  - destruct H as [_ H]. exfalso. now apply H.
Qed.
Corollary p_c09_ranges_sound cs :
  p_c09_ranges cs = [] -> Forall (fun c => no_crash (snd c)) cs.
Proof.
  intros H. apply (pj_from_sound res_bad cs 0%N) in H. eapply Forall_impl; [|exact H].
  intros c Hc. now apply res_bad_no_crash.
Qed.
Example pj_from_example :
  pj_from (@res_bad N) 0%N [(1%N, Ok 5%N); (2%N, Panic); (3%N, Err); (4%N, Spin)] = [(1, 2); (3, 2)]%N.
Proof. vm_compute. reflexivity. Qed.

Require Import Verif.Model.Base Verif.Proofs.BaseP Verif.Model.Transmit.
From Coq Require Import Sorting.Sorted.

(* ---------- collect: what the loop of GetTransmissionSchedule returns ---------- *)
Definition writers (sup : N -> sup_t) (ids : list N) : list N := filter (fun o => N.eqb (sup o) 1) ids.
Definition has_err (sup : N -> sup_t) (ids : list N) : bool :=
  existsb (fun o => negb (N.eqb (sup o) 0) && negb (N.eqb (sup o) 1)) ids.

Lemma collect_spec sup ids :
  collect sup ids = if has_err sup ids then None else Some (writers sup ids).
Proof.
  induction ids as [|o ids IH]; cbn [collect has_err writers existsb filter]; [reflexivity|].
  fold (has_err sup ids). fold (writers sup ids).
  destruct (sup o) as [|p] eqn:E; cbn [N.eqb negb andb orb].
  - exact IH.
  - destruct p; cbn [Pos.eqb negb andb orb]; try reflexivity.
    rewrite IH. destruct (has_err sup ids); reflexivity.
Qed.

Lemma has_err_perm sup l l' : Permutation l l' -> has_err sup l = has_err sup l'.
Proof.
  intros P. unfold has_err. apply eq_true_iff_eq. rewrite !existsb_exists.
  split; intros [x [Hx Hb]]; exists x; split; try assumption.
  - eapply Permutation_in; eauto.
  - eapply Permutation_in; [symmetry|]; eauto.
Qed.

Lemma delays_from_length m i n : length (delays_from m i n) = n.
Proof. revert i; induction n; intros; cbn; [reflexivity| now rewrite IHn]. Qed.

Lemma delays_from_nth m i n k : (k < n)%nat -> nth k (delays_from m i n) 0%Z = (m * (i + Z.of_nat k))%Z.
Proof.
  revert i k; induction n as [|n IH]; intros i k Hk; [lia|].
  destruct k as [|k]; cbn [delays_from nth].
  - f_equal. lia.
  - rewrite IH by lia. f_equal. lia.
Qed.

(* ---------- C16 schedule theorems ---------- *)

(* order independence: every oracle derives the same schedule whatever order the id list comes in *)
Theorem schedule_order_indep sup order order' mult :
  Permutation order order' -> schedule sup order mult = schedule sup order' mult.
Proof. intros P. unfold schedule. now rewrite (sortN_perm _ _ P). Qed.

(* error <-> some lookup fails or nobody can write the destination *)
Theorem schedule_none_iff sup order mult :
  schedule sup order mult = None <-> (has_err sup order = true \/ writers sup order = []).
Proof.
  unfold schedule. rewrite collect_spec.
  rewrite (has_err_perm sup _ _ (sortN_perm_self order)).
  destruct (has_err sup order) eqn:E.
  - split; [now left|reflexivity].
  - assert (Hw : writers sup (sortN order) = [] <-> writers sup order = []).
    { unfold writers. split; intros H; apply Permutation_nil; rewrite <- H.
      - apply Permutation_filter_compat. apply sortN_perm_self.
      - apply Permutation_filter_compat. symmetry. apply sortN_perm_self. }
    destruct (writers sup (sortN order)) eqn:W.
    + split; [intros _; right; now apply Hw|reflexivity].
    + split; [discriminate|]. intros [H|H]; [discriminate|]. apply Hw in H. discriminate.
Qed.

(* members: exactly the destination writers, each once; delays mult*1, mult*2, ...; ascending ids *)
Theorem schedule_members sup order mult t d :
  NoDup order ->
  schedule sup order mult = Some (t, d) ->
  Permutation t (writers sup order) /\ NoDup t /\ StronglySorted N.le t /\
  (forall o, In o t <-> In o order /\ sup o = 1%N) /\
  length d = length t /\
  (forall k, (k < length t)%nat -> nth k d 0%Z = (mult * (Z.of_nat k + 1))%Z).
Proof.
  intros ND H. unfold schedule in H. rewrite collect_spec in H.
  destruct (has_err sup (sortN order)); [discriminate|].
  destruct (writers sup (sortN order)) as [|w ws] eqn:W; [discriminate|].
  inversion H; subst t d; clear H. rewrite <- W.
  assert (P : Permutation (writers sup (sortN order)) (writers sup order)).
  { apply Permutation_filter_compat, sortN_perm_self. }
  split; [exact P|].
  assert (NDs : NoDup (sortN order)).
  { eapply Permutation_NoDup; [symmetry; apply sortN_perm_self| exact ND]. }
  split; [apply NoDup_filter; exact NDs|].
  split.
  { unfold writers. generalize (sortN_sorted order). generalize (sortN order). intros l S.
    induction S as [|x l S IH Hall]; cbn [filter]; [constructor|].
    destruct (N.eqb (sup x) 1); [|exact IH].
    constructor; [exact IH|]. rewrite Forall_forall in *. intros y Hy. apply filter_In in Hy. apply Hall, Hy. }
  split.
  { intros o. unfold writers. rewrite filter_In, N.eqb_eq.
    split; intros [Hi Hs]; split; try assumption.
    - eapply Permutation_in; [apply sortN_perm_self|exact Hi].
    - eapply Permutation_in; [symmetry; apply sortN_perm_self|exact Hi]. }
  rewrite W. cbn [length]. split; [unfold delays; now rewrite delays_from_length|].
  intros k Hk. unfold delays. rewrite delays_from_nth by exact Hk. f_equal. lia.
Qed.

(* delays strictly increasing and positive when the multiplier is positive *)
Theorem delays_increasing mult n k :
  (0 < mult)%Z -> (S k < n)%nat ->
  (0 < nth k (delays mult n) 0 < nth (S k) (delays mult n) 0)%Z.
Proof.
  intros Hm Hk. unfold delays. rewrite !delays_from_nth by lia. nia.
Qed.

(* The pre-repair function (iteration in the order given, i.e. Go map order) was order dependent. *)
Theorem schedule_unsorted_refuted :
  exists sup order order' mult,
    Permutation order order' /\ schedule_unsorted sup order mult <> schedule_unsorted sup order' mult.
Proof.
  exists (fun _ => 1%N), [1%N; 2%N], [2%N; 1%N], 3%Z.
  split; [apply perm_swap| vm_compute; discriminate].
Qed.

(* ---------- gates ---------- *)
Theorem candidate_never_transmits_commit my d r :
  commit_should_transmit my (Some my) d r = Ok false.
Proof. unfold commit_should_transmit. now rewrite N.eqb_refl. Qed.

Theorem commit_transmit_true_inv my cand d r :
  commit_should_transmit my cand d r = Ok true ->
  exists c, cand = Some c /\ c <> my /\ d = true /\ r = true.
Proof.
  unfold commit_should_transmit. destruct cand as [c|]; [|discriminate].
  destruct (N.eqb_spec c my); [discriminate|].
  destruct d, r; cbn; try discriminate. intros _. now exists c.
Qed.

Theorem exec_transmit_true_inv w my cand d :
  exec_should_transmit w my cand d = Ok true ->
  w = Some true /\ exists c, cand = Some c /\ c <> my /\ d = true.
Proof.
  unfold exec_should_transmit. destruct w as [[|]|]; try discriminate.
  destruct cand as [c|]; [|discriminate].
  destruct (N.eqb_spec c my); [discriminate|].
  destruct d; cbn; try discriminate. intros _. split; [reflexivity|now exists c].
Qed.

Theorem empty_commit_report_not_accepted d curse info rmn f :
  commit_should_accept d 0 0 0 0 curse info rmn f <> Ok true.
Proof. unfold commit_should_accept. destruct d; cbn; discriminate. Qed.

Theorem commit_accept_true_inv d r t g s curse info rmn f :
  commit_should_accept d r t g s curse info rmn f = Ok true ->
  d = true /\ commit_report_empty r t g s = false /\ curse <> 1%N /\ curse <> 2%N /\ info = true /\
  (rmn = true -> r <> 0%N -> (f + 1 <= s)%N).
Proof.
  unfold commit_should_accept. intros H.
  destruct d; cbn [negb] in H; [|discriminate].
  destruct (commit_report_empty r t g s); [discriminate|].
  destruct (N.eqb_spec curse 2); [discriminate|].
  destruct (N.eqb_spec curse 1); [discriminate|].
  destruct info; cbn [negb] in H; [|discriminate].
  repeat (split; [first [reflexivity|assumption]|]).
  intros -> Hr. cbn [andb] in H.
  destruct (N.eqb_spec r 0); [contradiction|]. cbn [negb andb] in H.
  destruct (N.ltb_spec s (f + 1)); [discriminate|lia].
Qed.

Theorem empty_exec_report_not_accepted n d curse :
  exec_should_accept n d 0 curse <> Ok true.
Proof.
  unfold exec_should_accept. destruct n, d; cbn; try discriminate.
  destruct (N.eqb curse 2); [discriminate|]. destruct (N.eqb curse 1); discriminate.
Qed.

(* non-vacuity *)
Example schedule_example :
  schedule (fun o => if N.eqb o 2 then 0 else 1)%N [3; 1; 2; 4]%N 3%Z = Some ([1; 3; 4]%N, [3; 6; 9]%Z).
Proof. reflexivity. Qed.

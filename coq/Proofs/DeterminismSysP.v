(* DeterminismSysP.v — whole-outcome determinism of the two plugins (C10): the canon functions of
   Model/DeterminismSys.v do not depend on the iteration order of any Go map, neither of the maps that arrive in
   the input nor of the maps built inside the function. *)
Require Import Verif.Model.Base Verif.Proofs.BaseP Verif.Model.Consensus Verif.Proofs.ConsensusP
               Verif.Model.Determinism Verif.Proofs.DeterminismP Verif.Model.DeterminismSys.
Require Import Verif.Proofs.CommitMerkleP Verif.Proofs.CommitConsensusP Verif.Proofs.PricesP.
Require Verif.Model.CommitConsensus Verif.Model.CommitSM Verif.Model.CommitLive Verif.Model.CommitMerkle
        Verif.Model.Prices Verif.Model.Discovery.
From Coq Require Import Sorting.Sorted.

(* ====================================================================================================
   generic facts about maps as association lists
   ==================================================================================================== *)
Lemma map_reorder_sym {V} (m m' : list (N * V)) : map_reorder m m' -> map_reorder m' m.
Proof.
  intros [ND P]. split; [|now symmetry].
  eapply Permutation_NoDup; [apply Permutation_map; exact P|exact ND].
Qed.

Lemma map_reorder_lookup {V} (m m' : list (N * V)) k : map_reorder m m' -> alookup k m = alookup k m'.
Proof. intros [ND P]. now apply alookup_perm. Qed.

Lemma filter_map_comm {A B} (f : B -> bool) (g : A -> B) l :
  filter f (map g l) = map g (filter (fun x => f (g x)) l).
Proof.
  induction l as [|x l IH]; cbn [map filter]; [reflexivity|].
  destruct (f (g x)); cbn [map]; now rewrite IH.
Qed.

(* a map holds at most one entry per key, so the entries of key k are the same list in every iteration order *)
Lemma le1_perm_eq {A} (l l' : list A) : (length l <= 1)%nat -> Permutation l l' -> l = l'.
Proof.
  destruct l as [|a [|b l]]; cbn [length]; intros Hl P.
  - apply Permutation_nil in P. now subst.
  - apply Permutation_length_1_inv in P. now subst.
  - lia.
Qed.

Lemma nodup_const_key_le1 {V} k (l : list (N * V)) :
  NoDup (map fst l) -> (forall x, In x l -> fst x = k) -> (length l <= 1)%nat.
Proof.
  destruct l as [|a [|b l]]; cbn [length]; intros ND H; try lia.
  exfalso. cbn [map] in ND. inversion ND as [|? ? Hn _]; subst. apply Hn. left.
  rewrite (H a), (H b); [reflexivity| right; now left| now left].
Qed.

Lemma filter_key_reorder {V} k (m m' : list (N * V)) :
  map_reorder m m' ->
  filter (fun e => N.eqb (fst e) k) m = filter (fun e => N.eqb (fst e) k) m'.
Proof.
  intros [ND P]. apply le1_perm_eq; [|now apply Permutation_filter_compat].
  apply (nodup_const_key_le1 k).
  - now apply filter_keys_nodup.
  - intros x Hx. apply filter_In in Hx. now apply N.eqb_eq.
Qed.

(* ---------- aggregated maps: map[K][]V built by appending ---------- *)
Section AggReorder.
  Context {O O' V : Type} (get : O -> list (N * V)) (get' : O' -> list (N * V)).
  Definition ao_field_rel (ao : N * O) (ao' : N * O') : Prop :=
    fst ao = fst ao' /\ field_reorder (get (snd ao)) (get' (snd ao')).

  Lemma vals_of_app {W} k (l1 l2 : list (N * W)) :
    CommitConsensus.vals_of k (l1 ++ l2) = CommitConsensus.vals_of k l1 ++ CommitConsensus.vals_of k l2.
  Proof. unfold CommitConsensus.vals_of. now rewrite filter_app, map_app. Qed.

  Lemma votes_reorder aos aos' k :
    Forall2 ao_field_rel aos aos' ->
    CommitConsensus.votes get aos k = CommitConsensus.votes get' aos' k.
  Proof.
    unfold CommitConsensus.votes, CommitConsensus.entries.
    induction 1 as [|ao ao' aos aos' [Ho Hf] _ IH]; cbn [flat_map]; [reflexivity|].
    rewrite !vals_of_app, IH. f_equal.
    unfold CommitConsensus.vals_of. rewrite !filter_map_comm. cbn [fst]. rewrite Ho.
    destruct Hf as [->|Hf]; [reflexivity|].
    now rewrite (filter_key_reorder k _ _ Hf).
  Qed.

  Lemma entries_key_iff {W} k (es : list (N * W)) :
    In k (map fst es) <-> CommitConsensus.vals_of k es <> [].
  Proof.
    split.
    - intros Hi Hn. apply in_map_iff in Hi. destruct Hi as [[k' v] [E Hi]]. cbn in E. subst k'.
      apply vals_of_in in Hi. rewrite Hn in Hi. contradiction.
    - intros Hn. destruct (CommitConsensus.vals_of k es) as [|v l] eqn:E; [congruence|].
      assert (Hv : In v (CommitConsensus.vals_of k es)) by (rewrite E; now left).
      apply vals_of_in in Hv. apply in_map_iff. now exists (k, v).
  Qed.

  (* the aggregated map: same keys, and under each key the same votes in the same order *)
  Theorem agg_map_reorder aos aos' :
    Forall2 ao_field_rel aos aos' ->
    Permutation (CommitConsensus.agg_map get aos) (CommitConsensus.agg_map get' aos').
  Proof.
    intros HR. apply NoDup_Permutation.
    - eapply NoDup_map_inv. apply agg_map_keys_nodup.
    - eapply NoDup_map_inv. apply agg_map_keys_nodup.
    - intros [k l]. rewrite !agg_map_in. rewrite (votes_reorder aos aos' k HR).
      rewrite !entries_key_iff.
      change (CommitConsensus.vals_of k (CommitConsensus.entries get aos)) with (CommitConsensus.votes get aos k).
      change (CommitConsensus.vals_of k (CommitConsensus.entries get' aos')) with (CommitConsensus.votes get' aos' k).
      rewrite (votes_reorder aos aos' k HR). tauto.
  Qed.
End AggReorder.

(* ---------- GetConsensusMap / GetConsensusMapAggregator as one pass over the map ---------- *)
Section ConsFlat.
  Context {T : Type} (eqb : T -> T -> bool).

  Definition cm_step (thr_of : N -> option N) (e : N * list T) : list (N * T) :=
    match thr_of (fst e) with
    | None => []
    | Some thr => match valid eqb thr (snd e) with [v] => [(fst e, v)] | _ => [] end
    end.
  Lemma consensus_map_flat thr_of (m : list (N * list T)) :
    consensus_map eqb thr_of m = flat_map (cm_step thr_of) m.
  Proof.
    induction m as [|[k items] m IH]; cbn [consensus_map flat_map]; [reflexivity|].
    unfold cm_step at 1. cbn [fst snd]. destruct (thr_of k) as [thr|]; [|exact IH].
    destruct (valid eqb thr items) as [|v [|v' l]]; cbn [app]; now rewrite IH.
  Qed.

  Lemma consensus_map_perm thr_of (m m' : list (N * list T)) :
    Permutation m m' -> Permutation (consensus_map eqb thr_of m) (consensus_map eqb thr_of m').
  Proof. intros P. rewrite !consensus_map_flat. now apply Permutation_flat_map_compat. Qed.

  Lemma consensus_map_ext thr_of thr_of' (m : list (N * list T)) :
    (forall k, thr_of k = thr_of' k) -> consensus_map eqb thr_of m = consensus_map eqb thr_of' m.
  Proof.
    intros H. rewrite !consensus_map_flat. apply flat_map_ext. intros e. unfold cm_step. now rewrite H.
  Qed.

  Lemma consensus_map_perm_ext thr_of thr_of' (m m' : list (N * list T)) :
    (forall k, thr_of k = thr_of' k) -> Permutation m m' ->
    Permutation (consensus_map eqb thr_of m) (consensus_map eqb thr_of' m').
  Proof. intros H P. rewrite (consensus_map_ext _ _ _ H). now apply consensus_map_perm. Qed.

  Definition ca_step {A} (thr_of : N -> option N) (agg : list A -> A) (e : N * list A) : list (N * A) :=
    match thr_of (fst e) with
    | None => []
    | Some thr => if N.ltb (N.of_nat (length (snd e))) thr then [] else [(fst e, agg (snd e))]
    end.
  Lemma consensus_agg_flat {A} thr_of (agg : list A -> A) (m : list (N * list A)) :
    consensus_agg thr_of agg m = flat_map (ca_step thr_of agg) m.
  Proof.
    induction m as [|[k vals] m IH]; cbn [consensus_agg flat_map]; [reflexivity|].
    unfold ca_step at 1. cbn [fst snd]. destruct (thr_of k) as [thr|]; [|exact IH].
    destruct (N.ltb (N.of_nat (length vals)) thr); cbn [app]; now rewrite IH.
  Qed.
  Lemma consensus_agg_perm_ext {A} thr_of thr_of' (agg : list A -> A) (m m' : list (N * list A)) :
    (forall k, thr_of k = thr_of' k) -> Permutation m m' ->
    Permutation (consensus_agg thr_of agg m) (consensus_agg thr_of' agg m').
  Proof.
    intros H P. rewrite !consensus_agg_flat.
    rewrite (flat_map_ext (ca_step thr_of agg) (ca_step thr_of' agg)) by (intros e; unfold ca_step; now rewrite H).
    now apply Permutation_flat_map_compat.
  Qed.
End ConsFlat.

Lemma perm_keys_nodup {V} (m m' : list (N * V)) : Permutation m m' -> NoDup (map fst m) -> NoDup (map fst m').
Proof. intros P ND. eapply Permutation_NoDup; [apply Permutation_map; exact P|exact ND]. Qed.

Lemma thr_2f1_perm fch fch' k : NoDup (map fst fch) -> Permutation fch fch' -> thr_2f1 fch k = thr_2f1 fch' k.
Proof. intros ND P. unfold thr_2f1. now rewrite (alookup_perm k fch fch' ND P). Qed.

(* ====================================================================================================
   A. commit
   ==================================================================================================== *)
Lemma aos_rel_field {O V} (R : O -> O -> Prop) (get : O -> list (N * V)) aos aos' :
  aos_rel R aos aos' -> (forall o o', R o o' -> field_reorder (get o) (get o')) ->
  Forall2 (ao_field_rel get get) aos aos'.
Proof.
  intros HR Hf. induction HR as [|ao ao' aos aos' [Ho Hr] _ IH]; constructor; [|exact IH].
  split; [exact Ho|now apply Hf].
Qed.

Lemma aos_rel_proj {O P} (R : O -> O -> Prop) (R' : P -> P -> Prop) (f : O -> P) aos aos' :
  (forall o o', R o o' -> R' (f o) (f o')) -> aos_rel R aos aos' ->
  aos_rel R' (map (fun ao => (fst ao, f (snd ao))) aos) (map (fun ao => (fst ao, f (snd ao))) aos').
Proof.
  intros Hf. induction 1 as [|ao ao' aos aos' [Ho Hr] _ IH]; cbn [map]; constructor; [|exact IH].
  cbn [fst snd]. split; [exact Ho|now apply Hf].
Qed.

(* ---------- A.1 merkle root ---------- *)
Module CC := Verif.Model.CommitConsensus.
Module SM := Verif.Model.CommitSM.

Lemma agg_perm_refl a : agg_perm a a.
Proof. repeat split; reflexivity. Qed.
Lemma agg_perm_sym a a' : agg_perm a a' -> agg_perm a' a.
Proof. intros (H1 & H2 & H3 & H4 & H5). repeat split; now symmetry. Qed.
Lemma agg_perm_trans a b c : agg_perm a b -> agg_perm b c -> agg_perm a c.
Proof.
  intros (H1 & H2 & H3 & H4 & H5) (G1 & G2 & G3 & G4 & G5).
  repeat split; etransitivity; eassumption.
Qed.
Lemma smcons_perm_sym c c' : smcons_perm c c' -> smcons_perm c' c.
Proof. intros (H1 & H2 & H3 & H4). repeat split; now symmetry. Qed.
Lemma smcons_perm_trans a b c : smcons_perm a b -> smcons_perm b c -> smcons_perm a c.
Proof.
  intros (H1 & H2 & H3 & H4) (G1 & G2 & G3 & G4).
  repeat split; etransitivity; eassumption.
Qed.

Lemma rmn_votes_reorder aos aos' : aos_rel mr_obs_reorder aos aos' -> CC.rmn_votes aos = CC.rmn_votes aos'.
Proof.
  unfold CC.rmn_votes. induction 1 as [|ao ao' aos aos' [Ho (_ & _ & _ & Hr & _)] _ IH]; cbn [flat_map]; [reflexivity|].
  now rewrite IH, Ho, Hr.
Qed.

Theorem mr_aggregate_reorder aos aos' :
  aos_rel mr_obs_reorder aos aos' -> agg_perm (CC.aggregate aos) (CC.aggregate aos').
Proof.
  intros HR. unfold CC.aggregate, agg_perm. cbn [CC.a_roots CC.a_onramp CC.a_offramp CC.a_rmn CC.a_fchain].
  repeat split.
  - apply agg_map_reorder. apply (aos_rel_field _ _ _ _ HR). intros o o' (H & _). left. unfold CC.roots_kv. now rewrite H.
  - apply agg_map_reorder. apply (aos_rel_field _ _ _ _ HR). intros o o' (_ & H & _). now left.
  - apply agg_map_reorder. apply (aos_rel_field _ _ _ _ HR). intros o o' (_ & _ & H & _). now left.
  - now rewrite (rmn_votes_reorder _ _ HR).
  - apply agg_map_reorder. apply (aos_rel_field _ _ _ _ HR). intros o o' (_ & _ & _ & _ & H). now right.
Qed.

(* keys of the aggregated maps are unique, and every root is filed under its own chain *)
Definition agg_wf (a : CC.agg) : Prop :=
  NoDup (map fst (CC.a_roots a)) /\ NoDup (map fst (CC.a_onramp a)) /\ NoDup (map fst (CC.a_offramp a)) /\
  NoDup (map fst (CC.a_fchain a)) /\
  (forall k items v, In (k, items) (CC.a_roots a) -> In v items -> CC.root_chain v = k).

Lemma aggregate_wf aos : agg_wf (CC.aggregate aos).
Proof.
  unfold agg_wf, CC.aggregate. cbn [CC.a_roots CC.a_onramp CC.a_offramp CC.a_rmn CC.a_fchain].
  repeat split; try apply agg_map_keys_nodup.
  intros k items v Hi Hv. apply agg_map_in in Hi. destruct Hi as [-> _].
  apply in_map_iff in Hv. destruct Hv as [[o v'] [E Hv]]. cbn in E. subst v'.
  unfold CC.votes in Hv. apply (proj1 (vals_of_in _ _ _)) in Hv. unfold CC.entries in Hv.
  apply in_flat_map in Hv. destruct Hv as [ao [_ Hv]]. apply in_map_iff in Hv.
  destruct Hv as [[k' r] [E Hr]]. cbn [fst snd] in E. inversion E; subst.
  unfold CC.roots_kv in Hr. apply in_map_iff in Hr. destruct Hr as [r' [E' _]]. now inversion E'.
Qed.

Lemma agg_wf_perm a a' : agg_perm a a' -> agg_wf a -> agg_wf a'.
Proof.
  intros (P1 & P2 & P3 & _ & P5) (N1 & N2 & N3 & N5 & Hk). repeat split.
  - eapply perm_keys_nodup; eassumption.
  - eapply perm_keys_nodup; eassumption.
  - eapply perm_keys_nodup; eassumption.
  - eapply perm_keys_nodup; eassumption.
  - intros k items v Hi Hv. apply (Hk k items v); [|exact Hv]. eapply Permutation_in; [symmetry; exact P1|exact Hi].
Qed.

Definition cons_perm (c c' : CC.cons) : Prop :=
  Permutation (CC.c_roots c) (CC.c_roots c') /\ Permutation (CC.c_onramp c) (CC.c_onramp c') /\
  Permutation (CC.c_offramp c) (CC.c_offramp c') /\ CC.c_rmn c = CC.c_rmn c' /\
  Permutation (CC.c_fchain c) (CC.c_fchain c').
Definition res_rel {A} (R : A -> A -> Prop) (x y : res A) : Prop :=
  match x, y with
  | Ok a, Ok b => R a b
  | Err, Err | Panic, Panic | Spin, Spin => True
  | _, _ => False
  end.

Lemma mr_cons_of_agg_perm oc F dest a a' :
  agg_perm a a' -> NoDup (map fst (CC.a_fchain a)) ->
  res_rel cons_perm (mr_cons_of_agg oc F dest a) (mr_cons_of_agg oc F dest a').
Proof.
  intros (P1 & P2 & P3 & P4 & P5) ND. unfold mr_cons_of_agg. cbn zeta.
  set (fch := consensus_map Z.eqb (fun _ : N => Some (two_f_plus_1 F)) (CC.a_fchain a)).
  set (fch' := consensus_map Z.eqb (fun _ : N => Some (two_f_plus_1 F)) (CC.a_fchain a')).
  assert (Pf : Permutation fch fch') by (apply consensus_map_perm; exact P5).
  assert (NDf : NoDup (map fst fch)) by (apply consensus_map_keys_nodup; exact ND).
  rewrite <- (alookup_perm dest fch fch' NDf Pf).
  destruct (alookup dest fch) as [fd|]; cbn [res_rel]; [|exact I].
  assert (Ht : forall k, thr_2f1 fch k = thr_2f1 fch' k) by (intros k; now apply thr_2f1_perm).
  unfold cons_perm. cbn [CC.c_roots CC.c_onramp CC.c_offramp CC.c_rmn CC.c_fchain]. repeat split.
  - now apply consensus_map_perm_ext.
  - now apply consensus_map_perm_ext.
  - destruct oc; [now apply consensus_map_perm|now apply consensus_map_perm_ext].
  - rewrite P4. now apply consensus_map_ext.
  - exact Pf.
Qed.

(* what the state machine needs of the consensus observation *)
Definition smcons_wf (c : SM.cons) : Prop :=
  NoDup (map SM.root_chain (SM.c_roots c)) /\ NoDup (map fst (SM.c_on c)) /\ NoDup (map fst (SM.c_off c)).

Lemma smcons_wf_perm c c' : smcons_perm c c' -> smcons_wf c -> smcons_wf c'.
Proof.
  intros (P1 & P2 & P3 & _) (N1 & N2 & N3). repeat split.
  - eapply Permutation_NoDup; [apply Permutation_map; exact P1|exact N1].
  - eapply perm_keys_nodup; eassumption.
  - eapply perm_keys_nodup; eassumption.
Qed.

Lemma conv_root_chain v : SM.root_chain (CommitLive.conv_root v) = CC.root_chain v.
Proof. destruct v as [[[c a] [s e]] r]. reflexivity. Qed.

Lemma mr_cons_wf oc F dest a c cfg_of :
  agg_wf a -> mr_cons_of_agg oc F dest a = Ok c -> smcons_wf (CommitLive.conv_cons cfg_of c).
Proof.
  intros (N1 & N2 & N3 & N5 & Hk). unfold mr_cons_of_agg. cbn zeta.
  destruct (alookup dest _) as [fd|]; [|discriminate]. intros E. inversion E; subst c. clear E.
  unfold smcons_wf, CommitLive.conv_cons. cbn [SM.c_roots SM.c_on SM.c_off CC.c_roots CC.c_onramp CC.c_offramp].
  repeat split; try (apply consensus_map_keys_nodup; assumption).
  rewrite map_map.
  match goal with |- NoDup (map _ ?l) => assert (Hl : NoDup (map fst l)) by (apply consensus_map_keys_nodup; exact N1);
    rewrite (map_ext_in _ fst l); [exact Hl|] end.
  intros [k v] Hi. cbn [fst snd]. rewrite conv_root_chain.
  apply CommitConsensusP.consensus_map_in in Hi. destruct Hi as [items [thr [Hi [_ Hv]]]].
  apply (Hk k items v Hi).
  assert (Hin : In v (valid CC.root_eqb thr items)) by (rewrite Hv; now left).
  apply (valid_spec CC.root_eqb root_eqb_reflect) in Hin. tauto.
Qed.

Lemma rmn_f_of_reorder aos aos' id : aos_rel mr_obs_reorder aos aos' -> rmn_f_of aos id = rmn_f_of aos' id.
Proof.
  unfold rmn_f_of. intros HR.
  induction HR as [|ao ao' aos aos' [Ho (_ & _ & _ & Hr & _)] _ IH]; cbn [find]; [reflexivity|].
  rewrite Hr. destruct (negb _ && _); [now rewrite Hr|exact IH].
Qed.

Lemma conv_cons_perm cfg_of cfg_of' c c' :
  cons_perm c c' -> cfg_of c = cfg_of' c' ->
  smcons_perm (CommitLive.conv_cons cfg_of c) (CommitLive.conv_cons cfg_of' c').
Proof.
  intros (P1 & P2 & P3 & _ & _) Hc. unfold smcons_perm, CommitLive.conv_cons.
  cbn [SM.c_roots SM.c_on SM.c_off SM.c_cfg]. repeat split; try assumption.
  now apply Permutation_map.
Qed.

(* the state machine: same value for every iteration order of the three maps of the consensus observation *)
Lemma root_le_kle : SM.root_le = kle SM.root_chain.
Proof. reflexivity. Qed.

Lemma off_updated_perm prev_off cur cur' :
  NoDup (map fst cur) -> Permutation cur cur' -> SM.off_updated prev_off cur = SM.off_updated prev_off cur'.
Proof.
  intros ND P. unfold SM.off_updated. induction prev_off as [|p l IH]; cbn [existsb]; [reflexivity|].
  now rewrite IH, (alookup_perm (fst p) cur cur' ND P).
Qed.

Theorem get_outcome_perm max n prev q c c' :
  smcons_perm c c' -> smcons_wf c ->
  SM.get_outcome max n prev q (Some c) = SM.get_outcome max n prev q (Some c').
Proof.
  intros (P1 & P2 & P3 & P4) (N1 & N2 & N3). unfold SM.get_outcome, SM.get_outcome_with.
  destruct (SM.state_eqb (SM.next_state (SM.o_type prev)) SM.Building && SM.q_retry q); [reflexivity|].
  destruct (SM.next_state (SM.o_type prev)).
  - unfold SM.select_outcome_with.
    change (CommitMerkle.report_ranges_with SeqRange.limit (SM.c_on c) (SM.c_off c) n)
      with (CommitMerkle.report_ranges (SM.c_on c) (SM.c_off c) n).
    change (CommitMerkle.report_ranges_with SeqRange.limit (SM.c_on c') (SM.c_off c') n)
      with (CommitMerkle.report_ranges (SM.c_on c') (SM.c_off c') n).
    rewrite (report_ranges_order_indep (SM.c_on c) (SM.c_on c') (SM.c_off c) (SM.c_off c') n N3 N2 P3 P2).
    now rewrite P4.
  - unfold SM.build_report. rewrite root_le_kle.
    now rewrite (sort_by_key_perm SM.root_chain (SM.c_roots c) (SM.c_roots c') N1 P1).
  - unfold SM.check_transmission. now rewrite (off_updated_perm (SM.o_off prev) _ _ N3 P3).
Qed.

Theorem mr_outcome_deterministic rt_agg rt_agg' rt_cons rt_cons' k prev q aos aos' :
  (forall a, agg_perm a (rt_agg a)) -> (forall a, agg_perm a (rt_agg' a)) ->
  (forall c, smcons_perm c (rt_cons c)) -> (forall c, smcons_perm c (rt_cons' c)) ->
  aos_rel mr_obs_reorder aos aos' ->
  mr_outcome_rt rt_agg rt_cons k prev q aos = mr_outcome_rt rt_agg' rt_cons' k prev q aos'.
Proof.
  intros Ha Ha' Hc Hc' HR. unfold mr_outcome_rt. f_equal.
  set (a := rt_agg (CC.aggregate aos)). set (a' := rt_agg' (CC.aggregate aos')).
  assert (Paa : agg_perm a a').
  { eapply agg_perm_trans; [apply agg_perm_sym, Ha|].
    eapply agg_perm_trans; [apply mr_aggregate_reorder; exact HR|apply Ha']. }
  assert (Wa : agg_wf a) by (eapply agg_wf_perm; [apply Ha|apply aggregate_wf]).
  pose proof (mr_cons_of_agg_perm (k_off_const k) (k_F k) (k_dest k) a a' Paa (proj1 (proj2 (proj2 (proj2 Wa))))) as Hcons.
  destruct (mr_cons_of_agg (k_off_const k) (k_F k) (k_dest k) a) as [c| | |] eqn:E;
    destruct (mr_cons_of_agg (k_off_const k) (k_F k) (k_dest k) a') as [c'| | |] eqn:E'; cbn [res_rel] in Hcons;
    try contradiction; try reflexivity.
  pose proof (mr_cons_wf _ _ _ _ _ (mr_cfg_of (k_dest k) aos) Wa E) as Wc.
  assert (Pc : smcons_perm (CommitLive.conv_cons (mr_cfg_of (k_dest k) aos) c)
                           (CommitLive.conv_cons (mr_cfg_of (k_dest k) aos') c')).
  { apply conv_cons_perm; [exact Hcons|]. unfold mr_cfg_of.
    destruct Hcons as (_ & _ & _ & Hr & _). rewrite Hr.
    destruct (alookup (k_dest k) (CC.c_rmn c')) as [id|]; [|reflexivity].
    now rewrite (rmn_f_of_reorder aos aos' id HR). }
  apply get_outcome_perm.
  - eapply smcons_perm_trans; [apply smcons_perm_sym, Hc|]. eapply smcons_perm_trans; [exact Pc|apply Hc'].
  - eapply smcons_wf_perm; [apply Hc|exact Wc].
Qed.

(* ---------- A.2 / A.3 prices ---------- *)
Module PR := Verif.Model.Prices.

Lemma flat_map_perm_ext {A B} (f g : A -> list B) l l' :
  (forall x, f x = g x) -> Permutation l l' -> Permutation (flat_map f l) (flat_map g l').
Proof. intros H P. rewrite (flat_map_ext f g H). now apply Permutation_flat_map_compat. Qed.

Lemma sort_keys_perm {V} (m m' : list (N * V)) :
  NoDup (map fst m) -> Permutation m m' -> PR.sort_keys m = PR.sort_keys m'.
Proof. intros ND P. exact (sort_by_key_perm fst m m' ND P). Qed.

Lemma ts_reorder {O} (R : O -> O -> Prop) (ts : O -> Z) aos aos' :
  (forall o o', R o o' -> ts o = ts o') -> aos_rel R aos aos' ->
  map (fun ao => ts (snd ao)) aos = map (fun ao => ts (snd ao)) aos'.
Proof.
  intros H. induction 1 as [|ao ao' aos aos' [_ Hr] _ IH]; cbn [map]; [reflexivity|].
  now rewrite IH, (H _ _ Hr).
Qed.

(* token prices *)
Theorem tp_aggregate_reorder aos aos' :
  aos_rel tp_obs_reorder aos aos' -> tp_agg_perm (tp_aggregate aos) (tp_aggregate aos').
Proof.
  intros HR. unfold tp_aggregate, tp_agg_perm. cbn [ta_fchain ta_feed ta_updates ta_ts]. repeat split.
  - apply agg_map_reorder. apply (aos_rel_field _ _ _ _ HR). intros o o' (_ & _ & H & _). now right.
  - apply agg_map_reorder. apply (aos_rel_field _ _ _ _ HR). intros o o' (H & _). now left.
  - apply agg_map_reorder. apply (aos_rel_field _ _ _ _ HR). intros o o' (_ & H & _). now right.
  - apply (ts_reorder _ _ _ _ (fun o o' H => proj2 (proj2 (proj2 H))) HR).
Qed.

Definition tp_agg_wf (a : tp_agg) : Prop :=
  NoDup (map fst (ta_fchain a)) /\ NoDup (map fst (ta_feed a)) /\ NoDup (map fst (ta_updates a)).
Lemma tp_aggregate_wf aos : tp_agg_wf (tp_aggregate aos).
Proof. repeat split; apply agg_map_keys_nodup. Qed.
Lemma tp_agg_wf_perm a a' : tp_agg_perm a a' -> tp_agg_wf a -> tp_agg_wf a'.
Proof. intros (P1 & P2 & P3 & _) (N1 & N2 & N3). repeat split; eapply perm_keys_nodup; eassumption. Qed.
Lemma tp_agg_perm_sym a a' : tp_agg_perm a a' -> tp_agg_perm a' a.
Proof. intros (H1 & H2 & H3 & H4). repeat split; now symmetry. Qed.
Lemma tp_agg_perm_trans a b c : tp_agg_perm a b -> tp_agg_perm b c -> tp_agg_perm a c.
Proof. intros (H1 & H2 & H3 & H4) (G1 & G2 & G3 & G4). repeat split; etransitivity; eassumption. Qed.
Lemma tp_cons_perm_sym c c' : tp_cons_perm c c' -> tp_cons_perm c' c.
Proof. intros (H1 & H2 & H3 & H4). repeat split; now symmetry. Qed.
Lemma tp_cons_perm_trans a b c : tp_cons_perm a b -> tp_cons_perm b c -> tp_cons_perm a c.
Proof. intros (H1 & H2 & H3 & H4) (G1 & G2 & G3 & G4). repeat split; etransitivity; eassumption. Qed.

Definition tp_cons_wf (c : PR.tp_cons) : Prop :=
  NoDup (map fst (PR.tc_feed c)) /\ NoDup (map fst (PR.tc_updates c)).
Lemma tp_cons_wf_perm c c' : tp_cons_perm c c' -> tp_cons_wf c -> tp_cons_wf c'.
Proof. intros (_ & P2 & P3 & _) (N2 & N3). split; eapply perm_keys_nodup; eassumption. Qed.

Lemma tp_cons_of_agg_perm feedchain F dest a a' :
  tp_agg_perm a a' -> tp_agg_wf a ->
  res_rel tp_cons_perm (tp_cons_of_agg feedchain F dest a) (tp_cons_of_agg feedchain F dest a') /\
  (forall c, tp_cons_of_agg feedchain F dest a = Ok c -> tp_cons_wf c).
Proof.
  intros (P1 & P2 & P3 & P4) (N1 & N2 & N3). unfold tp_cons_of_agg. cbn zeta.
  set (fch := consensus_map Z.eqb (fun _ : N => Some (two_f_plus_1 F)) (ta_fchain a)).
  set (fch' := consensus_map Z.eqb (fun _ : N => Some (two_f_plus_1 F)) (ta_fchain a')).
  assert (Pf : Permutation fch fch') by (apply consensus_map_perm; exact P1).
  assert (NDf : NoDup (map fst fch)) by (apply consensus_map_keys_nodup; exact N1).
  rewrite <- !(fun k => alookup_perm k fch fch' NDf Pf).
  destruct (alookup dest fch) as [fd|]; [|split; [exact I|discriminate]].
  destruct (alookup feedchain fch) as [ff|]; [|split; [exact I|discriminate]].
  split.
  - cbn [res_rel]. unfold tp_cons_perm. cbn [PR.tc_fchain PR.tc_feed PR.tc_updates PR.tc_ts]. repeat split.
    + exact Pf.
    + now apply consensus_agg_perm_ext.
    + now apply consensus_agg_perm_ext.
    + now rewrite P4.
  - intros c E. inversion E; subst c. split; cbn [PR.tc_feed PR.tc_updates]; now apply consensus_agg_keys_nodup.
Qed.

Lemma tokens_to_update_perm freq info info' c c' :
  map_reorder info info' -> tp_cons_perm c c' -> tp_cons_wf c ->
  PR.sort_keys (PR.tokens_to_update freq info c) = PR.sort_keys (PR.tokens_to_update freq info' c').
Proof.
  intros Hi (_ & P2 & P3 & P4) (N2 & N3). unfold PR.tokens_to_update. apply sort_keys_perm.
  - apply (flat_map_keys_nodup (fun kv : N * Z => fst kv)); [|exact N2].
    intros kv. destruct (PR.token_selected _ _ _ _ _ _); [right; exists (snd kv); now destruct kv|now left].
  - apply flat_map_perm_ext; [|exact P2]. intros kv. unfold PR.token_selected.
    now rewrite <- (alookup_perm (fst kv) _ _ N3 P3), <- (map_reorder_lookup _ _ (fst kv) Hi), P4.
Qed.

Definition tp_cfg_reorder (k k' : tp_cfg) : Prop :=
  t_freq k = t_freq k' /\ map_reorder (t_info k) (t_info k') /\ t_feedchain k = t_feedchain k' /\
  t_F k = t_F k' /\ t_dest k = t_dest k'.

Theorem tp_outcome_deterministic rt_agg rt_agg' rt_cons rt_cons' k k' aos aos' :
  (forall a, tp_agg_perm a (rt_agg a)) -> (forall a, tp_agg_perm a (rt_agg' a)) ->
  (forall c, tp_cons_perm c (rt_cons c)) -> (forall c, tp_cons_perm c (rt_cons' c)) ->
  tp_cfg_reorder k k' -> aos_rel tp_obs_reorder aos aos' ->
  tp_outcome_rt rt_agg rt_cons k aos = tp_outcome_rt rt_agg' rt_cons' k' aos'.
Proof.
  intros Ha Ha' Hc Hc' (K1 & K2 & K3 & K4 & K5) HR. unfold tp_outcome_rt. rewrite <- K1, <- K3, <- K4, <- K5.
  destruct (Z.eqb (t_freq k) 0); [reflexivity|].
  set (a := rt_agg (tp_aggregate aos)). set (a' := rt_agg' (tp_aggregate aos')).
  assert (Paa : tp_agg_perm a a').
  { eapply tp_agg_perm_trans; [apply tp_agg_perm_sym, Ha|].
    eapply tp_agg_perm_trans; [apply tp_aggregate_reorder; exact HR|apply Ha']. }
  assert (Wa : tp_agg_wf a) by (eapply tp_agg_wf_perm; [apply Ha|apply tp_aggregate_wf]).
  destruct (tp_cons_of_agg_perm (t_feedchain k) (t_F k) (t_dest k) a a' Paa Wa) as [Hcons Hwf].
  destruct (tp_cons_of_agg (t_feedchain k) (t_F k) (t_dest k) a) as [c| | |] eqn:E;
    destruct (tp_cons_of_agg (t_feedchain k) (t_F k) (t_dest k) a') as [c'| | |] eqn:E'; cbn [res_rel] in Hcons;
    try contradiction; try reflexivity.
  f_equal. apply tokens_to_update_perm; [exact K2| |].
  - eapply tp_cons_perm_trans; [apply tp_cons_perm_sym, Hc|]. eapply tp_cons_perm_trans; [exact Hcons|apply Hc'].
  - eapply tp_cons_wf_perm; [apply Hc|]. now apply Hwf.
Qed.

(* gas prices *)
Theorem cf_aggregate_reorder aos aos' :
  aos_rel cf_obs_reorder aos aos' -> cf_agg_perm (cf_aggregate aos) (cf_aggregate aos').
Proof.
  intros HR. unfold cf_aggregate, cf_agg_perm. cbn [fa_fchain fa_feecomp fa_native fa_updates fa_ts]. repeat split.
  - apply agg_map_reorder. apply (aos_rel_field _ _ _ _ HR). intros o o' (_ & _ & _ & H & _). now right.
  - apply agg_map_reorder. apply (aos_rel_field _ _ _ _ HR). intros o o' (H & _). now right.
  - apply agg_map_reorder. apply (aos_rel_field _ _ _ _ HR). intros o o' (_ & H & _). now right.
  - apply agg_map_reorder. apply (aos_rel_field _ _ _ _ HR). intros o o' (_ & _ & H & _). now right.
  - apply (ts_reorder _ _ _ _ (fun o o' H => proj2 (proj2 (proj2 (proj2 H)))) HR).
Qed.

Definition cf_agg_wf (a : cf_agg) : Prop :=
  NoDup (map fst (fa_fchain a)) /\ NoDup (map fst (fa_feecomp a)) /\ NoDup (map fst (fa_native a)) /\
  NoDup (map fst (fa_updates a)).
Lemma cf_aggregate_wf aos : cf_agg_wf (cf_aggregate aos).
Proof. repeat split; apply agg_map_keys_nodup. Qed.
Lemma cf_agg_wf_perm a a' : cf_agg_perm a a' -> cf_agg_wf a -> cf_agg_wf a'.
Proof. intros (P1 & P2 & P3 & P4 & _) (N1 & N2 & N3 & N4). repeat split; eapply perm_keys_nodup; eassumption. Qed.
Lemma cf_agg_perm_sym a a' : cf_agg_perm a a' -> cf_agg_perm a' a.
Proof. intros (H1 & H2 & H3 & H4 & H5). repeat split; now symmetry. Qed.
Lemma cf_agg_perm_trans a b c : cf_agg_perm a b -> cf_agg_perm b c -> cf_agg_perm a c.
Proof. intros (H1 & H2 & H3 & H4 & H5) (G1 & G2 & G3 & G4 & G5). repeat split; etransitivity; eassumption. Qed.
Lemma cf_cons_perm_sym c c' : cf_cons_perm c c' -> cf_cons_perm c' c.
Proof. intros (H1 & H2 & H3 & H4 & H5). repeat split; now symmetry. Qed.
Lemma cf_cons_perm_trans a b c : cf_cons_perm a b -> cf_cons_perm b c -> cf_cons_perm a c.
Proof. intros (H1 & H2 & H3 & H4 & H5) (G1 & G2 & G3 & G4 & G5). repeat split; etransitivity; eassumption. Qed.

Definition cf_cons_wf (c : PR.cf_cons) : Prop :=
  NoDup (map fst (PR.cc_feecomp c)) /\ NoDup (map fst (PR.cc_native c)) /\ NoDup (map fst (PR.cc_updates c)).
Lemma cf_cons_wf_perm c c' : cf_cons_perm c c' -> cf_cons_wf c -> cf_cons_wf c'.
Proof. intros (_ & P2 & P3 & P4 & _) (N2 & N3 & N4). repeat split; eapply perm_keys_nodup; eassumption. Qed.

Lemma key_thr_perm fch fch' k : NoDup (map fst fch) -> Permutation fch fch' -> PR.key_thr fch k = PR.key_thr fch' k.
Proof. intros ND P. unfold PR.key_thr. now rewrite (thr_2f1_perm fch fch' k ND P). Qed.

Lemma cf_cons_of_agg_perm F dest a a' :
  cf_agg_perm a a' -> cf_agg_wf a ->
  res_rel cf_cons_perm (cf_cons_of_agg F dest a) (cf_cons_of_agg F dest a') /\
  (forall c, cf_cons_of_agg F dest a = Ok c -> cf_cons_wf c).
Proof.
  intros (P1 & P2 & P3 & P4 & P5) (N1 & N2 & N3 & N4). unfold cf_cons_of_agg. cbn zeta.
  set (fch := consensus_map Z.eqb (fun _ : N => Some (two_f_plus_1 F)) (fa_fchain a)).
  set (fch' := consensus_map Z.eqb (fun _ : N => Some (two_f_plus_1 F)) (fa_fchain a')).
  assert (Pf : Permutation fch fch') by (apply consensus_map_perm; exact P1).
  assert (NDf : NoDup (map fst fch)) by (apply consensus_map_keys_nodup; exact N1).
  rewrite <- (alookup_perm dest fch fch' NDf Pf), <- P5.
  destruct (alookup dest fch) as [fd|]; [|split; [exact I|discriminate]].
  destruct (Z.ltb _ _); [split; [exact I|discriminate]|].
  assert (Ht : forall k, PR.key_thr fch k = PR.key_thr fch' k) by (intros k; now apply key_thr_perm).
  split.
  - cbn [res_rel]. unfold cf_cons_perm. cbn [PR.cc_fchain PR.cc_feecomp PR.cc_native PR.cc_updates PR.cc_ts].
    repeat split; try (now apply consensus_agg_perm_ext). exact Pf.
  - intros c E. inversion E; subst c. repeat split; cbn [PR.cc_feecomp PR.cc_native PR.cc_updates];
      now apply consensus_agg_keys_nodup.
Qed.

Lemma cf_usd_perm c c' : cf_cons_perm c c' -> cf_cons_wf c ->
  Permutation (PR.cf_usd c) (PR.cf_usd c') /\ NoDup (map fst (PR.cf_usd c)).
Proof.
  intros (_ & P2 & P3 & _) (N2 & N3 & _). unfold PR.cf_usd. split.
  - apply flat_map_perm_ext; [|exact P2]. intros kv. now rewrite (alookup_perm (fst kv) _ _ N3 P3).
  - apply (flat_map_keys_nodup (fun kv : N * (Z * Z) => fst kv)); [|exact N2].
    intros [k [fe fd']]. cbn [fst snd]. destruct (alookup k (PR.cc_native c)); [right; eexists; reflexivity|now left].
Qed.

Lemma gas_to_update_perm freq info info' usd usd' upd upd' now :
  map_reorder info info' -> Permutation usd usd' -> NoDup (map fst usd) ->
  Permutation upd upd' -> NoDup (map fst upd) ->
  PR.sort_keys (PR.gas_to_update freq info usd upd now) = PR.sort_keys (PR.gas_to_update freq info' usd' upd' now).
Proof.
  intros Hi Pu Nu Pp Np. unfold PR.gas_to_update. apply sort_keys_perm.
  - apply (flat_map_keys_nodup (fun kv : N * (Z * Z) => fst kv)); [|exact Nu].
    intros [k [ex da]]. cbn [fst]. destruct (PR.gas_selected _ _ _ _ _ _ _); [right; eexists; reflexivity|now left].
  - apply flat_map_perm_ext; [|exact Pu]. intros [k [ex da]]. unfold PR.gas_selected.
    now rewrite <- (alookup_perm k _ _ Np Pp), <- (map_reorder_lookup _ _ k Hi).
Qed.

Definition cf_cfg_reorder (k k' : cf_cfg) : Prop :=
  f_freq k = f_freq k' /\ map_reorder (f_info k) (f_info k') /\ f_F k = f_F k' /\ f_dest k = f_dest k'.

Lemma perm_nil_match {A B} (l l' : list A) (x y : B) :
  Permutation l l' -> match l with [] => x | _ => y end = match l' with [] => x | _ => y end.
Proof.
  intros P. destruct l as [|a l]; [apply Permutation_nil in P; now subst|].
  destruct l' as [|b l']; [symmetry in P; apply Permutation_nil in P; discriminate|reflexivity].
Qed.

Theorem cf_outcome_deterministic rt_agg rt_agg' rt_cons rt_cons' rt_usd rt_usd' k k' aos aos' :
  (forall a, cf_agg_perm a (rt_agg a)) -> (forall a, cf_agg_perm a (rt_agg' a)) ->
  (forall c, cf_cons_perm c (rt_cons c)) -> (forall c, cf_cons_perm c (rt_cons' c)) ->
  (forall m, Permutation m (rt_usd m)) -> (forall m, Permutation m (rt_usd' m)) ->
  cf_cfg_reorder k k' -> aos_rel cf_obs_reorder aos aos' ->
  cf_outcome_rt rt_agg rt_cons rt_usd k aos = cf_outcome_rt rt_agg' rt_cons' rt_usd' k' aos'.
Proof.
  intros Ha Ha' Hc Hc' Hu Hu' (K1 & K2 & K3 & K4) HR. unfold cf_outcome_rt. rewrite <- K1, <- K3, <- K4.
  set (a := rt_agg (cf_aggregate aos)). set (a' := rt_agg' (cf_aggregate aos')).
  assert (Paa : cf_agg_perm a a').
  { eapply cf_agg_perm_trans; [apply cf_agg_perm_sym, Ha|].
    eapply cf_agg_perm_trans; [apply cf_aggregate_reorder; exact HR|apply Ha']. }
  assert (Wa : cf_agg_wf a) by (eapply cf_agg_wf_perm; [apply Ha|apply cf_aggregate_wf]).
  destruct (cf_cons_of_agg_perm (f_F k) (f_dest k) a a' Paa Wa) as [Hcons Hwf].
  destruct (cf_cons_of_agg (f_F k) (f_dest k) a) as [c| | |] eqn:E;
    destruct (cf_cons_of_agg (f_F k) (f_dest k) a') as [c'| | |] eqn:E'; cbn [res_rel] in Hcons;
    try contradiction; try reflexivity.
  cbn zeta.
  assert (Pc : cf_cons_perm (rt_cons c) (rt_cons' c')).
  { eapply cf_cons_perm_trans; [apply cf_cons_perm_sym, Hc|]. eapply cf_cons_perm_trans; [exact Hcons|apply Hc']. }
  assert (Wc : cf_cons_wf (rt_cons c)) by (eapply cf_cons_wf_perm; [apply Hc|now apply Hwf]).
  destruct (cf_usd_perm _ _ Pc Wc) as [Pusd Nusd].
  destruct Pc as (_ & P2 & _ & P4 & P5). destruct Wc as (_ & _ & N4).
  rewrite <- P5.
  rewrite (perm_nil_match _ _ (Ok []) (Ok (PR.sort_keys (PR.gas_to_update (f_freq k) (f_info k) (rt_usd (PR.cf_usd (rt_cons c)))
              (PR.cc_updates (rt_cons c)) (PR.cc_ts (rt_cons c))))) P2).
  destruct (PR.cc_feecomp (rt_cons' c')); [reflexivity|]. f_equal.
  apply gas_to_update_perm; try assumption.
  - etransitivity; [symmetry; apply Hu|]. etransitivity; [exact Pusd|apply Hu'].
  - eapply perm_keys_nodup; [apply Hu|exact Nusd].
Qed.

(* ---------- A.4 discovery ---------- *)
Module DI := Verif.Model.Discovery.

Lemma map_reorder_filter {V} (f : N * V -> bool) (m m' : list (N * V)) :
  map_reorder m m' -> map_reorder (filter f m) (filter f m').
Proof. intros [ND P]. split; [now apply filter_keys_nodup|now apply Permutation_filter_compat]. Qed.

Lemma only_dest_reorder dest m m' : map_reorder m m' -> DI.only_dest dest m = DI.only_dest dest m'.
Proof. intros H. unfold DI.only_dest. now rewrite (map_reorder_lookup m m' dest H). Qed.

Theorem disc_aggregate_reorder dest aos aos' :
  aos_rel disc_obs_reorder aos aos' -> disc_agg_perm (disc_aggregate dest aos) (disc_aggregate dest aos').
Proof.
  intros HR. unfold disc_aggregate, disc_agg_perm. cbn [da_fchain da_onramp da_nonce da_rmn da_feeq da_router].
  repeat split.
  - apply agg_map_reorder. apply (aos_rel_field _ _ _ _ HR). intros o o' (H & _). now right.
  - apply agg_map_reorder. apply (aos_rel_field _ _ _ _ HR). intros o o' (_ & H & _). right. now apply map_reorder_filter.
  - apply agg_map_reorder. apply (aos_rel_field _ _ _ _ HR). intros o o' (_ & _ & H & _). left. now apply only_dest_reorder.
  - apply agg_map_reorder. apply (aos_rel_field _ _ _ _ HR). intros o o' (_ & _ & _ & H & _). left. now apply only_dest_reorder.
  - apply agg_map_reorder. apply (aos_rel_field _ _ _ _ HR). intros o o' (_ & _ & _ & _ & H & _). right. now apply map_reorder_filter.
  - apply agg_map_reorder. apply (aos_rel_field _ _ _ _ HR). intros o o' (_ & _ & _ & _ & _ & H). right. now apply map_reorder_filter.
Qed.

Definition disc_agg_wf (a : disc_agg) : Prop :=
  NoDup (map fst (da_fchain a)) /\ NoDup (map fst (da_onramp a)) /\ NoDup (map fst (da_nonce a)) /\
  NoDup (map fst (da_rmn a)) /\ NoDup (map fst (da_feeq a)) /\ NoDup (map fst (da_router a)).
Lemma disc_aggregate_wf dest aos : disc_agg_wf (disc_aggregate dest aos).
Proof. repeat split; apply agg_map_keys_nodup. Qed.
Lemma disc_agg_wf_perm a a' : disc_agg_perm a a' -> disc_agg_wf a -> disc_agg_wf a'.
Proof.
  intros (P1 & P2 & P3 & P4 & P5 & P6) (N1 & N2 & N3 & N4 & N5 & N6).
  repeat split; eapply perm_keys_nodup; eassumption.
Qed.
Lemma disc_agg_perm_sym a a' : disc_agg_perm a a' -> disc_agg_perm a' a.
Proof. intros (H1 & H2 & H3 & H4 & H5 & H6). repeat split; now symmetry. Qed.
Lemma disc_agg_perm_trans a b c : disc_agg_perm a b -> disc_agg_perm b c -> disc_agg_perm a c.
Proof.
  intros (H1 & H2 & H3 & H4 & H5 & H6) (G1 & G2 & G3 & G4 & G5 & G6). repeat split; etransitivity; eassumption.
Qed.

Lemma sorted_cons_map_perm thr thr' (m m' : list (N * list N)) :
  (forall k, thr k = thr' k) -> NoDup (map fst m) -> Permutation m m' ->
  PR.sort_keys (consensus_map N.eqb thr m) = PR.sort_keys (consensus_map N.eqb thr' m').
Proof.
  intros Ht ND P. apply sort_keys_perm; [now apply consensus_map_keys_nodup|now apply consensus_map_perm_ext].
Qed.

Theorem disc_of_agg_perm F dest a a' :
  disc_agg_perm a a' -> disc_agg_wf a -> disc_canon (disc_of_agg F dest a) = disc_canon (disc_of_agg F dest a').
Proof.
  intros (P1 & P2 & P3 & P4 & P5 & P6) (N1 & N2 & N3 & N4 & N5 & N6). unfold disc_of_agg, disc_canon. cbn zeta.
  cbn [DI.dc_onramp DI.dc_nonce DI.dc_rmn DI.dc_feeq DI.dc_router].
  set (fch := consensus_map Z.eqb (fun _ : N => Some (two_f_plus_1 F)) (da_fchain a)).
  set (fch' := consensus_map Z.eqb (fun _ : N => Some (two_f_plus_1 F)) (da_fchain a')).
  assert (Pf : Permutation fch fch') by (apply consensus_map_perm; exact P1).
  assert (NDf : NoDup (map fst fch)) by (apply consensus_map_keys_nodup; exact N1).
  assert (Ht : forall k, thr_2f1 fch k = thr_2f1 fch' k) by (intros k; now apply thr_2f1_perm).
  rewrite <- (alookup_perm dest fch fch' NDf Pf).
  f_equal; try (now apply sorted_cons_map_perm).
  destruct (alookup dest fch) as [fd|]; [|reflexivity]. now apply sorted_cons_map_perm.
Qed.

Theorem disc_outcome_deterministic rt_agg rt_agg' F dest aos aos' :
  (forall a, disc_agg_perm a (rt_agg a)) -> (forall a, disc_agg_perm a (rt_agg' a)) ->
  aos_rel disc_obs_reorder aos aos' ->
  disc_outcome_rt rt_agg F dest aos = disc_outcome_rt rt_agg' F dest aos'.
Proof.
  intros Ha Ha' HR. unfold disc_outcome_rt. apply disc_of_agg_perm.
  - eapply disc_agg_perm_trans; [apply disc_agg_perm_sym, Ha|].
    eapply disc_agg_perm_trans; [apply disc_aggregate_reorder; exact HR|apply Ha'].
  - eapply disc_agg_wf_perm; [apply Ha|apply disc_aggregate_wf].
Qed.

(* ---------- A.5 the commit plugin ---------- *)
Theorem commit_outcome_deterministic rt rt' i i' :
  commit_rt_ok rt -> commit_rt_ok rt' -> commit_reorder i i' ->
  commit_outcome_canon_rt rt i = commit_outcome_canon_rt rt' i'.
Proof.
  intros (A1 & A2 & A3 & A4 & A5 & A6 & A7 & A8) (B1 & B2 & B3 & B4 & B5 & B6 & B7 & B8)
         (Hp & Hq & Haos & (K1 & K2 & K3 & K4 & K5 & K6 & K7 & K8 & K9 & K10)).
  unfold commit_outcome_canon_rt. cbn zeta. rewrite <- Hp, <- Hq, <- K1, <- K2, <- K3, <- K4, <- K5, <- K6, <- K7, <- K10.
  f_equal.
  - apply mr_outcome_deterministic; try assumption.
    apply (aos_rel_proj cobs_reorder mr_obs_reorder co_mr); [|exact Haos]. now intros o o' (H & _).
  - apply tp_outcome_deterministic; try assumption.
    + repeat split; try reflexivity; apply K8.
    + apply (aos_rel_proj cobs_reorder tp_obs_reorder co_tp); [|exact Haos]. now intros o o' (_ & H & _).
  - apply cf_outcome_deterministic; try assumption.
    + repeat split; try reflexivity; apply K9.
    + apply (aos_rel_proj cobs_reorder cf_obs_reorder co_cf); [|exact Haos]. now intros o o' (_ & _ & H & _).
  - apply disc_outcome_deterministic; try assumption.
    apply (aos_rel_proj cobs_reorder disc_obs_reorder co_disc); [|exact Haos]. now intros o o' (_ & _ & _ & H).
Qed.

Lemma commit_rt_id_ok : commit_rt_ok commit_rt_id.
Proof.
  unfold commit_rt_ok, commit_rt_id. cbn.
  repeat split; intros; reflexivity.
Qed.

Corollary commit_outcome_canon_deterministic i i' :
  commit_reorder i i' -> commit_outcome_canon i = commit_outcome_canon i'.
Proof. apply commit_outcome_deterministic; apply commit_rt_id_ok. Qed.

(* with the insertion-order runtime the parts are the models of the other properties *)
(* which variant of the off-ramp threshold CommitConsensus.get_consensus has is found by computation *)
Lemma get_consensus_is_cons_of_agg :
  exists oc, forall F dest aos, CC.get_consensus F dest aos = mr_cons_of_agg oc F dest (CC.aggregate aos).
Proof. first [exists false; intros; reflexivity | exists true; intros; reflexivity]. Qed.

Lemma round_cons_unfold cfg F dest aos :
  CommitLive.round_cons cfg F dest aos =
  match CC.get_consensus F dest aos with Ok c => Some (CommitLive.conv_cons cfg c) | _ => None end.
Proof. reflexivity. Qed.

Lemma mr_outcome_rt_id :
  exists oc, forall k prev q aos, k_off_const k = oc ->
  mr_outcome_rt (fun a => a) (fun c => c) k prev q aos =
  mr_canon (SM.get_outcome (k_max k) (k_n k) prev q
              (CommitLive.round_cons (mr_cfg_of (k_dest k) aos) (k_F k) (k_dest k) aos)).
Proof.
  destruct get_consensus_is_cons_of_agg as [oc H]. exists oc. intros k prev q aos E.
  rewrite round_cons_unfold. unfold mr_outcome_rt. now rewrite H, E.
Qed.
Lemma tp_outcome_rt_id k aos :
  tp_outcome_rt (fun a => a) (fun c => c) k aos = PR.tp_outcome (t_freq k) (t_info k) (t_feedchain k) (t_F k) (t_dest k) aos.
Proof. reflexivity. Qed.
Lemma cf_outcome_rt_id k aos :
  cf_outcome_rt (fun a => a) (fun c => c) (fun m => m) k aos = PR.cf_outcome (f_freq k) (f_info k) (f_F k) (f_dest k) aos.
Proof.
  unfold cf_outcome_rt, PR.cf_outcome, cf_cons_of_agg, PR.cf_consensus, cf_aggregate. cbn [fa_ts fa_fchain fa_feecomp fa_native fa_updates].
  now rewrite map_length.
Qed.
Lemma disc_outcome_rt_id F dest aos :
  disc_outcome_rt (fun a => a) F dest aos = disc_canon (DI.discovery_outcome F dest aos).
Proof. reflexivity. Qed.

(* ====================================================================================================
   B. execute
   ==================================================================================================== *)
Require Verif.Model.ExecMerge Verif.Model.ExecReport Verif.Model.Codec.
Module EM := Verif.Model.ExecMerge.
Module ER := Verif.Model.ExecReport.

(* ---------- minObservation cache ---------- *)
Section Cache.
  Context {T : Type} (id : T -> N).
  Let e := id_eqb id.

  Lemma dedup_sub (l : list T) y : In y (dedup e l) -> In y l.
  Proof.
    induction l as [|x l IH]; cbn [dedup In]; [tauto|].
    intros [H|H]; [now left|]. apply filter_In in H. right. apply IH, H.
  Qed.

  Lemma dedup_key (l : list T) x : In x l -> exists y, In y (dedup e l) /\ id y = id x.
  Proof.
    induction l as [|a l IH]; cbn [dedup In]; [tauto|].
    intros [->|H]; [exists x; split; [now left|reflexivity]|].
    destruct (IH H) as [y [Hy E]].
    destruct (N.eqb_spec (id a) (id y)) as [Ea|Na].
    - exists a. split; [now left|congruence].
    - exists y. split; [|exact E]. right. apply filter_In. split; [exact Hy|].
      unfold e, id_eqb. apply negb_true_iff. now apply N.eqb_neq.
  Qed.

  Lemma nodup_map_filter {A} (f : A -> N) (p : A -> bool) l : NoDup (map f l) -> NoDup (map f (filter p l)).
  Proof.
    induction l as [|a l IH]; cbn [map filter]; intros ND; [constructor|].
    inversion ND as [|? ? Hn ND']; subst. destruct (p a); [|now apply IH].
    cbn [map]. constructor; [|now apply IH]. intros Hi. apply Hn.
    apply in_map_iff in Hi. destruct Hi as [b [E Hb]]. apply filter_In in Hb. apply in_map_iff. exists b. tauto.
  Qed.

  Lemma dedup_ids_nodup (l : list T) : NoDup (map id (dedup e l)).
  Proof.
    induction l as [|a l IH]; cbn [dedup map]; constructor.
    - intros Hi. apply in_map_iff in Hi. destruct Hi as [b [E Hb]]. apply filter_In in Hb. destruct Hb as [_ Hb].
      unfold e, id_eqb in Hb. rewrite E, N.eqb_refl in Hb. discriminate.
    - now apply nodup_map_filter.
  Qed.

  Lemma cache_of_keys (items : list T) : map fst (cache_of id items) = map id (dedup e items).
  Proof. unfold cache_of. rewrite map_map. reflexivity. Qed.

  Lemma cache_of_nodup (items : list T) : NoDup (map fst (cache_of id items)).
  Proof. rewrite cache_of_keys. apply dedup_ids_nodup. Qed.

  Lemma ids_faithful_perm (items items' : list T) :
    Permutation items items' -> ids_faithful id items -> ids_faithful id items'.
  Proof.
    intros P H x y Hx Hy. apply H; (eapply Permutation_in; [symmetry; exact P|assumption]).
  Qed.

  Lemma count_any_perm (eq : T -> T -> bool) x (l l' : list T) : Permutation l l' -> count eq x l = count eq x l'.
  Proof. induction 1 as [|y l l' P IH|y z l|l l' l'' P1 IH1 P2 IH2]; cbn [count]; try lia; congruence. Qed.

  Lemma cache_of_in (items : list T) i d n :
    ids_faithful id items ->
    (In (i, (d, n)) (cache_of id items) <-> In d items /\ i = id d /\ n = count e d items).
  Proof.
    intros Hf. unfold cache_of. rewrite in_map_iff. split.
    - intros [x [E Hx]]. inversion E; subst. split; [now apply dedup_sub|]. split; reflexivity.
    - intros [Hd [-> ->]]. destruct (dedup_key items d Hd) as [y [Hy Ey]].
      assert (y = d) by (apply Hf; [now apply dedup_sub|exact Hd|exact Ey]). subst y.
      exists d. split; [reflexivity|exact Hy].
  Qed.

  (* the content of the cache does not depend on the order of the Add calls *)
  Theorem cache_of_perm (items items' : list T) :
    ids_faithful id items -> Permutation items items' ->
    Permutation (cache_of id items) (cache_of id items').
  Proof.
    intros Hf P. pose proof (ids_faithful_perm _ _ P Hf) as Hf'.
    apply NoDup_Permutation.
    - eapply NoDup_map_inv. apply cache_of_nodup.
    - eapply NoDup_map_inv. apply cache_of_nodup.
    - intros [i [d n]]. rewrite (cache_of_in items i d n Hf), (cache_of_in items' i d n Hf').
      rewrite (count_any_perm e d items items' P).
      split; intros [H1 H2]; (split; [|exact H2]); eapply Permutation_in; try eassumption. now symmetry.
  Qed.

  Theorem mo_valid_perm (rtc rtc' : cache T -> cache T) thr (items items' : list T) :
    (forall c, Permutation c (rtc c)) -> (forall c, Permutation c (rtc' c)) ->
    ids_faithful id items -> Permutation items items' ->
    mo_valid rtc id thr items = mo_valid rtc' id thr items'.
  Proof.
    intros Hr Hr' Hf P. unfold mo_valid. apply get_valid_order_indep.
    - eapply perm_keys_nodup; [apply Hr|apply cache_of_nodup].
    - etransitivity; [symmetry; apply Hr|]. exact (perm_trans (cache_of_perm items items' Hf P) (Hr' _)).
  Qed.

  (* when the Add calls come in the same order nothing is assumed of the ids *)
  Theorem mo_valid_same (rtc rtc' : cache T -> cache T) thr (items : list T) :
    (forall c, Permutation c (rtc c)) -> (forall c, Permutation c (rtc' c)) ->
    mo_valid rtc id thr items = mo_valid rtc' id thr items.
  Proof.
    intros Hr Hr'. unfold mo_valid. apply get_valid_order_indep.
    - eapply perm_keys_nodup; [apply Hr|apply cache_of_nodup].
    - etransitivity; [symmetry; apply Hr|apply Hr'].
  Qed.
End Cache.

(* ---------- the report builder reads the nonce map through lookups only ---------- *)
Section BuilderExt.
  Variable hash : N -> N -> N.
  Variable zero : N.
  Variable leaf_hash : ER.msg -> option N.
  Variable enc_size : ER.creport -> option N.
  Variable tree_gas : N -> N.
  Variable max_size max_gas : N.
  Variables n n' : ER.nmap.
  Hypothesis Hn : forall c s, ER.nlookup c s n = ER.nlookup c s n'.

  Lemma check_nonce_ext exp cd m : ER.check_nonce n exp cd m = ER.check_nonce n' exp cd m.
  Proof. unfold ER.check_nonce. now rewrite Hn. Qed.
  Lemma check_message_ext exp cd idx m : ER.check_message n exp cd idx m = ER.check_message n' exp cd idx m.
  Proof. unfold ER.check_message. now rewrite check_nonce_ext. Qed.
  Lemma check_all_ext ms : forall exp cd i, ER.check_all n exp cd i ms = ER.check_all n' exp cd i ms.
  Proof.
    induction ms as [|m ms IH]; intros exp cd i; cbn [ER.check_all]; [reflexivity|].
    rewrite check_message_ext. destruct (ER.check_message n' exp cd i m) as [x| | |]; cbn [rbind]; try reflexivity.
    now rewrite IH.
  Qed.
  Lemma build_single_ext st cd :
    ER.build_single hash zero leaf_hash enc_size tree_gas n max_size max_gas st cd =
    ER.build_single hash zero leaf_hash enc_size tree_gas n' max_size max_gas st cd.
  Proof. unfold ER.build_single. now rewrite check_all_ext. Qed.
  Lemma add_ext st cd :
    ER.add hash zero leaf_hash enc_size tree_gas n max_size max_gas st cd =
    ER.add hash zero leaf_hash enc_size tree_gas n' max_size max_gas st cd.
  Proof. unfold ER.add. now rewrite build_single_ext. Qed.
  Lemma select_loop_with_ext {S} (f g : S -> ER.cdata -> res (S * ER.cdata)) cds :
    (forall st cd, f st cd = g st cd) -> forall st, ER.select_loop_with f st cds = ER.select_loop_with g st cds.
  Proof.
    intros H. induction cds as [|cd cds IH]; intros st; cbn [ER.select_loop_with]; [reflexivity|].
    destruct (ER.c_msgs cd); [now rewrite IH|].
    rewrite H. destruct (g st cd) as [y| | |]; cbn [rbind]; try reflexivity. now rewrite IH.
  Qed.
  Theorem select_report_ext cds :
    ER.select_report hash zero leaf_hash enc_size tree_gas n max_size max_gas cds =
    ER.select_report hash zero leaf_hash enc_size tree_gas n' max_size max_gas cds.
  Proof.
    unfold ER.select_report, ER.select_loop. now rewrite (select_loop_with_ext _ _ cds add_ext).
  Qed.
End BuilderExt.

(* ---------- one- and two-level maps ---------- *)
Lemma entries_notin {V} k (m : list (N * list V)) : ~ In k (map fst m) -> EM.entries k m = [].
Proof.
  unfold EM.entries. induction m as [|[k' l] m IH]; cbn [flat_map map fst snd In]; intros H; [reflexivity|].
  destruct (N.eqb_spec k' k) as [->|Hne]; [exfalso; apply H; now left|]. cbn [app]. apply IH. tauto.
Qed.

Lemma entries_lookup {V} k (m : list (N * list V)) : NoDup (map fst m) -> EM.entries k m = lookup1 k m.
Proof.
  unfold lookup1. induction m as [|[k' l] m IH]; cbn [map fst]; intros ND; [reflexivity|].
  inversion ND as [|? ? Hn ND']; subst. cbn [alookup]. unfold EM.entries. cbn [flat_map fst snd].
  rewrite (N.eqb_sym k k'). destruct (N.eqb_spec k' k) as [->|Hne].
  - fold (EM.entries k m). rewrite (entries_notin k m Hn). apply app_nil_r.
  - cbn [app]. now apply IH.
Qed.

Lemma lookup1_reorder {V} k (m m' : list (N * list V)) : map_reorder m m' -> lookup1 k m = lookup1 k m'.
Proof. intros H. unfold lookup1. now rewrite (map_reorder_lookup m m' k H). Qed.

Lemma map_reorder_nil {V} : map_reorder (@nil (N * V)) [].
Proof. split; constructor. Qed.

Definition inner_rel {V} (e e1 : N * list (N * V)) : Prop := fst e = fst e1 /\ map_reorder (snd e) (snd e1).

Lemma forall2_keys {V} (m m1 : list (N * list (N * V))) : Forall2 inner_rel m m1 -> map fst m = map fst m1.
Proof. induction 1 as [|e e1 m m1 [Hk _] _ IH]; cbn [map]; congruence. Qed.

Lemma lookup1_forall2 {V} k (m m1 : list (N * list (N * V))) :
  Forall2 inner_rel m m1 -> map_reorder (lookup1 k m) (lookup1 k m1).
Proof.
  unfold lookup1. induction 1 as [|[k0 l] [k1 l1] m m1 [Hk Hr] _ IH]; cbn [alookup]; [apply map_reorder_nil|].
  cbn [fst snd] in Hk, Hr. subst k1. destruct (N.eqb k k0); [exact Hr|exact IH].
Qed.

Lemma map2_reorder_lookup {V} k (m m' : list (N * list (N * V))) :
  map2_reorder m m' -> map_reorder (lookup1 k m) (lookup1 k m').
Proof.
  intros [m1 [ND [F P]]].
  assert (ND1 : NoDup (map fst m1)) by (rewrite <- (forall2_keys m m1 F); exact ND).
  rewrite <- (lookup1_reorder k m1 m' (conj ND1 P)). now apply lookup1_forall2.
Qed.

Lemma map2_reorder_keys {V} (m m' : list (N * list (N * V))) :
  map2_reorder m m' -> NoDup (map fst m) /\ Permutation (map fst m) (map fst m').
Proof.
  intros [m1 [ND [F P]]]. split; [exact ND|]. rewrite (forall2_keys m m1 F). now apply Permutation_map.
Qed.

Lemma existsb_perm {A} (f : A -> bool) l l' : Permutation l l' -> existsb f l = existsb f l'.
Proof.
  induction 1 as [|x l l' P IH|x y l|l l' l'' P1 IH1 P2 IH2]; cbn [existsb]; try congruence.
  destruct (f x), (f y); reflexivity.
Qed.
Lemma existsb_ext_eq {A} (f g : A -> bool) l : (forall x, f x = g x) -> existsb f l = existsb g l.
Proof. intros H. induction l as [|x l IH]; cbn [existsb]; [reflexivity|]. now rewrite H, IH. Qed.
Lemma memN_perm x l l' : Permutation l l' -> memN x l = memN x l'.
Proof. apply existsb_perm. Qed.

(* ---------- the Add sequences of the merges ---------- *)
Lemma citems_reorder k aos aos' : aos_rel eobs_reorder aos aos' -> citems k aos = citems k aos'.
Proof.
  unfold citems. induction 1 as [|a a' aos aos' [_ (Hc & _)] _ IH]; cbn [flat_map]; [reflexivity|].
  rewrite IH. f_equal. destruct Hc as [ND P].
  rewrite (entries_lookup k _ ND), (entries_lookup k _ (perm_keys_nodup _ _ P ND)).
  apply lookup1_reorder. now split.
Qed.

Lemma mitems_reorder k aos aos' : aos_rel eobs_reorder aos aos' -> Permutation (mitems k aos) (mitems k aos').
Proof.
  unfold mitems. induction 1 as [|a a' aos aos' [_ (_ & Hm & _)] _ IH]; cbn [flat_map]; [constructor|].
  apply Permutation_app; [|exact IH]. apply Permutation_map.
  destruct (map2_reorder_keys _ _ Hm) as [ND Pk].
  rewrite (entries_lookup k _ ND), (entries_lookup k _ (Permutation_NoDup Pk ND)).
  apply (map2_reorder_lookup k _ _ Hm).
Qed.

Lemma ntriples_forall2 (m m1 : list (N * list (N * N))) :
  Forall2 inner_rel m m1 ->
  Permutation (flat_map (fun kv => map (fun sn : N * N => (fst kv, fst sn, snd sn)) (snd kv)) m)
              (flat_map (fun kv => map (fun sn : N * N => (fst kv, fst sn, snd sn)) (snd kv)) m1).
Proof.
  induction 1 as [|e e1 m m1 [Hk [_ Hp]] _ IH]; cbn [flat_map]; [constructor|].
  apply Permutation_app; [|exact IH]. rewrite Hk. now apply Permutation_map.
Qed.

Lemma nitems_reorder aos aos' : aos_rel eobs_reorder aos aos' -> Permutation (nitems aos) (nitems aos').
Proof.
  unfold nitems. induction 1 as [|a a' aos aos' [_ (_ & _ & _ & _ & Hn)] _ IH]; cbn [flat_map]; [constructor|].
  apply Permutation_app; [|exact IH]. unfold ntriples. destruct Hn as [m1 [_ [F P]]].
  etransitivity; [apply ntriples_forall2; exact F|]. now apply Permutation_flat_map_compat.
Qed.

Lemma unknown_key_reorder {V} (proj : eobs -> list (N * V)) fchain fchain' aos aos' :
  Permutation (ekeys fchain) (ekeys fchain') ->
  (forall o o', eobs_reorder o o' -> Permutation (ekeys (proj o)) (ekeys (proj o'))) ->
  aos_rel eobs_reorder aos aos' ->
  unknown_key fchain proj aos = unknown_key fchain' proj aos'.
Proof.
  intros Pf Hp. unfold unknown_key.
  induction 1 as [|a a' aos aos' [_ Hr] _ IH]; cbn [existsb]; [reflexivity|]. rewrite IH. f_equal.
  rewrite (existsb_perm _ _ _ (Hp _ _ Hr)). apply existsb_ext_eq. intros k. now rewrite (memN_perm k _ _ Pf).
Qed.

(* ---------- from "same entries, other order" to "same lookups, same key set" ---------- *)
Lemma perm_same_keys {V} (m m' : list (N * V)) : NoDup (ekeys m) -> Permutation m m' -> same_keys m m'.
Proof.
  intros ND P. assert (Pk : Permutation (ekeys m) (ekeys m')) by now apply Permutation_map.
  split; [exact ND|]. split; [eapply Permutation_NoDup; eassumption|].
  intros k. split; apply Permutation_in; [exact Pk|now symmetry].
Qed.

Lemma perm_map1_equiv {V} (m m' : list (N * list V)) : NoDup (ekeys m) -> Permutation m m' -> map1_equiv m m'.
Proof. intros ND P. split; [now apply perm_same_keys|]. intros k. apply lookup1_reorder. now split. Qed.

Lemma lookup1_forall {V} (Q : list V -> Prop) k (m : list (N * list V)) :
  Q [] -> Forall (fun e => Q (snd e)) m -> Q (lookup1 k m).
Proof.
  intros Q0 HF. unfold lookup1. destruct (alookup k m) as [l|] eqn:E; [|exact Q0].
  apply alookup_In in E. rewrite Forall_forall in HF. exact (HF _ E).
Qed.

Lemma perm_map2_equiv {V} (m m' : list (N * list (N * V))) :
  NoDup (ekeys m) -> Forall (fun e => NoDup (map fst (snd e))) m -> Permutation m m' -> map2_equiv m m'.
Proof.
  intros ND HF P. split; [now apply perm_same_keys|]. intros k.
  rewrite <- (lookup1_reorder k m m' (conj ND P)). split; [|reflexivity].
  apply (lookup1_forall (fun l => NoDup (map fst l))); [constructor|exact HF].
Qed.

Lemma forall_flat_map {A B} (Q : B -> Prop) (g : A -> list B) l :
  (forall x, Forall Q (g x)) -> Forall Q (flat_map g l).
Proof. intros H. induction l as [|x l IH]; cbn [flat_map]; [constructor|]. apply Forall_app. split; [apply H|exact IH]. Qed.

Lemma keyed_flat_perm {A V} (g g' : N * A -> list (N * V)) (fch fch' : list (N * A)) :
  (forall kf, g kf = g' kf) -> (forall kf, g kf = [] \/ exists v, g kf = [(fst kf, v)]) ->
  map_reorder fch fch' ->
  Permutation (flat_map g fch) (flat_map g' fch') /\ NoDup (map fst (flat_map g fch)).
Proof.
  intros He Hs [ND P]. split; [now apply flat_map_perm_ext|].
  now apply (flat_map_keys_nodup (fun kf : N * A => fst kf)).
Qed.

Lemma last_writer_nodup {T} (key : T -> N) items : forall acc,
  NoDup (map fst acc) -> NoDup (map fst (last_writer key items acc)).
Proof.
  induction items as [|x items IH]; intros acc ND; cbn [last_writer]; [exact ND|].
  apply IH. cbn [map fst]. constructor; [|now apply filter_keys_nodup].
  intros Hi. apply in_map_iff in Hi. destruct Hi as [p [E Hp]]. apply filter_In in Hp. destruct Hp as [_ Hp].
  rewrite E, N.eqb_refl in Hp. discriminate.
Qed.

(* ---------- token data (the C07 model): same lookups, same key sets ---------- *)
Lemma tok_entries_reorder c s o o' :
  eobs_reorder o o' ->
  EM.entries s (EM.entries c (eo_tokens o)) = EM.entries s (EM.entries c (eo_tokens o')).
Proof.
  intros (_ & _ & Ht & _). destruct (map2_reorder_keys _ _ Ht) as [ND Pk].
  rewrite (entries_lookup c _ ND), (entries_lookup c _ (Permutation_NoDup Pk ND)).
  destruct (map2_reorder_lookup c _ _ Ht) as [NDi Pi].
  rewrite (entries_lookup s _ NDi), (entries_lookup s _ (perm_keys_nodup _ _ Pi NDi)).
  apply lookup1_reorder. now split.
Qed.

Lemma tok_votes_reorder c s i aos aos' :
  aos_rel eobs_reorder aos aos' -> EM.tok_votes c s i (map to_em aos) = EM.tok_votes c s i (map to_em aos').
Proof.
  unfold EM.tok_votes. induction 1 as [|a a' aos aos' [_ Hr] _ IH]; cbn [map flat_map]; [reflexivity|].
  rewrite IH. f_equal. cbn [to_em snd EM.o_tokens]. now rewrite (tok_entries_reorder c s _ _ Hr).
Qed.

Lemma tok_slots_reorder c s aos aos' :
  aos_rel eobs_reorder aos aos' -> EM.tok_slots c s (map to_em aos) = EM.tok_slots c s (map to_em aos').
Proof.
  unfold EM.tok_slots. induction 1 as [|a a' aos aos' [_ Hr] _ IH]; cbn [map fold_right]; [reflexivity|].
  rewrite IH. f_equal. cbn [to_em snd EM.o_tokens]. now rewrite (tok_entries_reorder c s _ _ Hr).
Qed.

Lemma dedupN_in x l : In x (EM.dedupN l) <-> In x l.
Proof. apply (dedup_in N.eqb N_eqb_reflect). Qed.
Lemma dedupN_nodup l : NoDup (EM.dedupN l).
Proof. apply (dedup_nodup N.eqb N_eqb_reflect). Qed.
Lemma dedupN_perm l l' : (forall x, In x l <-> In x l') -> Permutation (EM.dedupN l) (EM.dedupN l').
Proof.
  intros H. apply NoDup_Permutation; try apply dedupN_nodup. intros x. rewrite !dedupN_in. apply H.
Qed.

Lemma tok_chains_reorder aos aos' :
  aos_rel eobs_reorder aos aos' ->
  Permutation (EM.tok_chains (map to_em aos)) (EM.tok_chains (map to_em aos')).
Proof.
  intros HR. unfold EM.tok_chains. apply dedupN_perm. intros c.
  induction HR as [|a a' aos aos' [_ Hr] _ IH]; cbn [map flat_map]; [tauto|].
  rewrite !in_app_iff, IH. cbn [to_em snd EM.o_tokens]. unfold EM.keys.
  destruct Hr as (_ & _ & Ht & _). destruct (map2_reorder_keys _ _ Ht) as [_ Pk].
  split; (intros [H|H]; [left|now right]); eapply Permutation_in; try exact H; [exact Pk|now symmetry].
Qed.

Lemma tok_seqs_reorder c aos aos' :
  aos_rel eobs_reorder aos aos' ->
  Permutation (EM.tok_seqs c (map to_em aos)) (EM.tok_seqs c (map to_em aos')).
Proof.
  intros HR. unfold EM.tok_seqs. apply dedupN_perm. intros s.
  induction HR as [|a a' aos aos' [_ Hr] _ IH]; cbn [map flat_map]; [tauto|].
  rewrite !in_app_iff, IH. cbn [to_em snd EM.o_tokens]. unfold EM.keys.
  destruct Hr as (_ & _ & Ht & _). destruct (map2_reorder_keys _ _ Ht) as [ND Pk].
  rewrite (entries_lookup c _ ND), (entries_lookup c _ (Permutation_NoDup Pk ND)).
  destruct (map2_reorder_lookup c _ _ Ht) as [_ Pi].
  assert (Pm : Permutation (map fst (lookup1 c (eo_tokens (snd a)))) (map fst (lookup1 c (eo_tokens (snd a')))))
    by now apply Permutation_map.
  split; (intros [H|H]; [left|now right]); eapply Permutation_in; try exact H; [exact Pm|now symmetry].
Qed.

Lemma em_unknown_tokens_reorder fchain fchain' aos aos' :
  map_reorder fchain fchain' -> aos_rel eobs_reorder aos aos' ->
  EM.unknown_key fchain EM.o_tokens (map to_em aos) = EM.unknown_key fchain' EM.o_tokens (map to_em aos').
Proof.
  intros [_ Pf] HR. unfold EM.unknown_key.
  assert (Pk : Permutation (EM.keys fchain) (EM.keys fchain')) by now apply Permutation_map.
  induction HR as [|a a' aos aos' [_ Hr] _ IH]; cbn [map existsb]; [reflexivity|]. rewrite IH. f_equal.
  cbn [to_em snd EM.o_tokens]. destruct Hr as (_ & _ & Ht & _). destruct (map2_reorder_keys _ _ Ht) as [_ Pt].
  unfold EM.keys at 2 4. rewrite (existsb_perm _ _ _ Pt). apply existsb_ext_eq. intros k. now rewrite (memN_perm k _ _ Pk).
Qed.

Lemma alookup_map_key {V} (f : N -> V) l k :
  alookup k (map (fun c => (c, f c)) l) = if memN k l then Some (f k) else None.
Proof.
  unfold memN. induction l as [|c l IH]; cbn [map alookup existsb]; [reflexivity|].
  destruct (N.eqb_spec k c) as [->|Hne]; cbn [orb]; [reflexivity|exact IH].
Qed.

Lemma memN_iff_eq x l l' : (In x l <-> In x l') -> memN x l = memN x l'.
Proof.
  intros H. destruct (memN x l) eqn:E, (memN x l') eqn:E'; try reflexivity.
  - apply memN_In in E. apply H in E. apply memN_In in E. congruence.
  - apply memN_In in E'. apply H in E'. apply memN_In in E'. congruence.
Qed.

Theorem merge_tokens_reorder fchain fchain' aos aos' :
  map_reorder fchain fchain' -> aos_rel eobs_reorder aos aos' ->
  res_rel map2_equiv (EM.merge_tokens fchain (map to_em aos)) (EM.merge_tokens fchain' (map to_em aos')).
Proof.
  intros Hf HR. unfold EM.merge_tokens. rewrite <- (em_unknown_tokens_reorder _ _ _ _ Hf HR).
  destruct (EM.unknown_key fchain EM.o_tokens (map to_em aos)); [exact I|]. cbn [res_rel].
  set (inner := fun fch aos0 c =>
        map (fun s => (s, map (EM.tok_slot (match alookup c fch with Some f => f_plus_1 f | None => 0%N end) c s aos0)
                              (seq 0 (EM.tok_slots c s aos0)))) (EM.tok_seqs c aos0)).
  change (map2_equiv (map (fun c => (c, inner fchain (map to_em aos) c)) (EM.tok_chains (map to_em aos)))
                     (map (fun c => (c, inner fchain' (map to_em aos') c)) (EM.tok_chains (map to_em aos')))).
  pose proof (tok_chains_reorder _ _ HR) as Pc.
  assert (Hk : forall (g : N -> list (N * list EM.tok)) l, ekeys (map (fun c => (c, g c)) l) = l).
  { intros g l. unfold ekeys. rewrite map_map. apply map_id. }
  split.
  - split; [rewrite Hk; apply dedupN_nodup|]. split; [rewrite Hk; apply dedupN_nodup|].
    intros k. rewrite !Hk. split; apply Permutation_in; [exact Pc|now symmetry].
  - intros k. unfold lookup1. rewrite !alookup_map_key.
    rewrite <- (memN_iff_eq k _ _ (conj (Permutation_in k Pc) (Permutation_in k (Permutation_sym Pc)))).
    destruct (memN k (EM.tok_chains (map to_em aos))); [|apply map_reorder_nil].
    unfold inner. split.
    + rewrite map_map. cbn [fst]. rewrite map_id. apply dedupN_nodup.
    + rewrite <- (map_reorder_lookup _ _ k Hf).
      rewrite (map_ext (fun s => (s, map (EM.tok_slot (match alookup k fchain with Some f => f_plus_1 f | None => 0%N end) k s (map to_em aos'))
                                        (seq 0 (EM.tok_slots k s (map to_em aos')))))
                       (fun s => (s, map (EM.tok_slot (match alookup k fchain with Some f => f_plus_1 f | None => 0%N end) k s (map to_em aos))
                                        (seq 0 (EM.tok_slots k s (map to_em aos)))))).
      * apply Permutation_map. now apply tok_seqs_reorder.
      * intros s. f_equal. rewrite <- (tok_slots_reorder k s _ _ HR). apply map_ext. intros i.
        unfold EM.tok_slot. now rewrite (tok_votes_reorder k s i _ _ HR).
Qed.

(* ---------- getConsensusObservation ---------- *)
Section ExecMergeP.
  Variable nid : nonce3 -> N.
  Variables rt rt' : exec_rt.
  Hypothesis Hc : forall T (c : cache T), Permutation c (x_cache rt T c).
  Hypothesis Hc' : forall T (c : cache T), Permutation c (x_cache rt' T c).

  Lemma merge_commits_reorder fchain fchain' aos aos' :
    map_reorder fchain fchain' -> aos_rel eobs_reorder aos aos' ->
    map1_equiv (merge_commits_rt rt fchain aos) (merge_commits_rt rt' fchain' aos').
  Proof.
    intros Hf HR. unfold merge_commits_rt.
    match goal with |- map1_equiv (flat_map ?g _) (flat_map ?g' _) =>
      destruct (keyed_flat_perm g g' fchain fchain') as [P ND] end; [| |exact Hf|now apply perm_map1_equiv].
    - intros kf. rewrite <- (citems_reorder (fst kf) _ _ HR).
      now rewrite (mo_valid_same ec_id (x_cache rt ecommit) (x_cache rt' ecommit) _ _ (Hc _) (Hc' _)).
    - intros kf. destruct (mo_valid _ _ _ _); [now left|right; eexists; reflexivity].
  Qed.

  Lemma merge_msgs_reorder fchain fchain' aos aos' :
    map_reorder fchain fchain' -> aos_rel eobs_reorder aos aos' ->
    (forall k, ids_faithful em_hid (mitems k aos)) ->
    map2_equiv (merge_msgs_rt rt fchain aos) (merge_msgs_rt rt' fchain' aos').
  Proof.
    intros Hf HR Hfa. unfold merge_msgs_rt.
    match goal with |- map2_equiv (flat_map ?g _) (flat_map ?g' _) =>
      destruct (keyed_flat_perm g g' fchain fchain') as [P ND] end; [| |exact Hf|apply perm_map2_equiv; [exact ND| |exact P]].
    - intros kf.
      now rewrite (mo_valid_perm em_hid (x_cache rt emsg) (x_cache rt' emsg) (f_plus_1 (snd kf)) _ _ (Hc _) (Hc' _)
                                 (Hfa (fst kf)) (mitems_reorder (fst kf) _ _ HR)).
    - intros kf. destruct (mo_valid _ _ _ _); [now left|right; eexists; reflexivity].
    - apply forall_flat_map. intros kf. destruct (mo_valid _ _ _ _) as [|x v]; constructor; [|constructor].
      cbn [snd]. apply last_writer_nodup. constructor.
  Qed.

  Lemma merge_nonces_reorder fd aos aos' :
    aos_rel eobs_reorder aos aos' -> ids_faithful nid (nitems aos) ->
    merge_nonces_rt nid rt fd aos = merge_nonces_rt nid rt' fd aos'.
  Proof.
    intros HR Hfa. unfold merge_nonces_rt.
    now rewrite (mo_valid_perm nid (x_cache rt nonce3) (x_cache rt' nonce3) (f_plus_1 fd) _ _ (Hc _) (Hc' _)
                               Hfa (nitems_reorder _ _ HR)).
  Qed.

  Lemma merge_costly_reorder fd aos aos' :
    aos_rel eobs_reorder aos aos' -> EM.merge_costly fd (map to_em aos) = EM.merge_costly fd (map to_em aos').
  Proof.
    intros HR. unfold EM.merge_costly.
    assert (E : EM.costly_items (map to_em aos) = EM.costly_items (map to_em aos')).
    { unfold EM.costly_items. induction HR as [|a a' aos aos' [_ (_ & _ & _ & Hk & _)] _ IH]; cbn [map flat_map]; [reflexivity|].
      rewrite IH. cbn [to_em snd EM.o_costly]. now rewrite Hk. }
    now rewrite E.
  Qed.

  Lemma aos_rel_length {O} (R : O -> O -> Prop) (aos aos' : list (N * O)) : aos_rel R aos aos' -> length aos = length aos'.
  Proof. induction 1; cbn [length]; congruence. Qed.

  Lemma map1_equiv_refl_l {V} (m m' : list (N * list V)) : map1_equiv m m' -> map1_equiv m m.
  Proof. intros [(N1 & _ & _) _]. repeat split; tauto. Qed.

  Theorem exec_merge_reorder bigF dest fchain fchain' aos aos' :
    map_reorder fchain fchain' -> aos_rel eobs_reorder aos aos' ->
    (forall k, ids_faithful em_hid (mitems k aos)) -> ids_faithful nid (nitems aos) ->
    res_rel emerged_equiv (exec_merge_rt nid rt bigF dest fchain aos) (exec_merge_rt nid rt' bigF dest fchain' aos').
  Proof.
    intros Hf HR Hfm Hfn. unfold exec_merge_rt. rewrite <- (aos_rel_length _ _ _ HR).
    destruct (Z.ltb _ bigF); [exact I|].
    assert (Pk : Permutation (ekeys fchain) (ekeys fchain')) by (apply Permutation_map, Hf).
    rewrite <- (unknown_key_reorder eo_commits fchain fchain' aos aos' Pk); [|now intros o o' ([_ H] & _); apply Permutation_map|exact HR].
    destruct (unknown_key fchain eo_commits aos); [exact I|].
    rewrite <- (unknown_key_reorder eo_msgs fchain fchain' aos aos' Pk);
      [|now intros o o' (_ & H & _); apply (map2_reorder_keys _ _ H)|exact HR].
    destruct (unknown_key fchain eo_msgs aos); [exact I|].
    pose proof (merge_tokens_reorder fchain fchain' aos aos' Hf HR) as Ht.
    destruct (EM.merge_tokens fchain (map to_em aos)) as [ts| | |];
      destruct (EM.merge_tokens fchain' (map to_em aos')) as [ts'| | |]; cbn [res_rel] in Ht; try contradiction; try exact I.
    cbn [res_rel]. unfold emerged_equiv. cbn [em_commits em_msgs em_tokens em_costly em_nonces].
    assert (Efd : EM.f_dest dest fchain = EM.f_dest dest fchain').
    { unfold EM.f_dest. now rewrite (map_reorder_lookup _ _ dest Hf). }
    rewrite <- Efd. split; [|split; [|split; [|split]]].
    - apply merge_commits_reorder; [|exact HR]. destruct Hf as [NDf Pf]. split.
      + unfold EM.dest_fchain. rewrite map_map. exact NDf.
      + unfold EM.dest_fchain. rewrite <- Efd. now apply Permutation_map.
    - now apply merge_msgs_reorder.
    - exact Ht.
    - intros x. now rewrite (merge_costly_reorder _ _ _ HR).
    - intros c s. now rewrite (merge_nonces_reorder _ _ _ HR Hfn).
  Qed.
End ExecMergeP.

(* ---------- the equivalence of merged observations is a partial equivalence ---------- *)
Lemma same_keys_sym {V W} (m : list (N * V)) (m' : list (N * W)) : same_keys m m' -> same_keys m' m.
Proof. intros (A & B & C). split; [exact B|]. split; [exact A|]. intros k. symmetry. apply C. Qed.
Lemma same_keys_trans {U V W} (a : list (N * U)) (b : list (N * V)) (c : list (N * W)) :
  same_keys a b -> same_keys b c -> same_keys a c.
Proof.
  intros (A & B & C) (A' & B' & C'). split; [exact A|]. split; [exact B'|]. intros k. rewrite C. apply C'.
Qed.
Lemma map_reorder_trans {V} (a b c : list (N * V)) : map_reorder a b -> map_reorder b c -> map_reorder a c.
Proof. intros [N1 P1] [_ P2]. split; [exact N1|etransitivity; eassumption]. Qed.

Lemma map1_equiv_sym {V} (m m' : list (N * list V)) : map1_equiv m m' -> map1_equiv m' m.
Proof. intros [K L]. split; [now apply same_keys_sym|]. intros k. symmetry. apply L. Qed.
Lemma map1_equiv_trans {V} (a b c : list (N * list V)) : map1_equiv a b -> map1_equiv b c -> map1_equiv a c.
Proof.
  intros [K L] [K' L']. split; [eapply same_keys_trans; eassumption|]. intros k. rewrite L. apply L'.
Qed.
Lemma map2_equiv_sym {V} (m m' : list (N * list (N * V))) : map2_equiv m m' -> map2_equiv m' m.
Proof. intros [K L]. split; [now apply same_keys_sym|]. intros k. apply map_reorder_sym, L. Qed.
Lemma map2_equiv_trans {V} (a b c : list (N * list (N * V))) : map2_equiv a b -> map2_equiv b c -> map2_equiv a c.
Proof.
  intros [K L] [K' L']. split; [eapply same_keys_trans; eassumption|]. intros k.
  eapply map_reorder_trans; [apply L|apply L'].
Qed.

Lemma emerged_equiv_sym m m' : emerged_equiv m m' -> emerged_equiv m' m.
Proof.
  intros (A & B & C & D & E). split; [now apply map1_equiv_sym|]. split; [now apply map2_equiv_sym|].
  split; [now apply map2_equiv_sym|]. split; [intros x; symmetry; apply D|]. intros c s. symmetry. apply E.
Qed.
Lemma emerged_equiv_trans a b c : emerged_equiv a b -> emerged_equiv b c -> emerged_equiv a c.
Proof.
  intros (A & B & C & D & E) (A' & B' & C' & D' & E').
  split; [eapply map1_equiv_trans; eassumption|]. split; [eapply map2_equiv_trans; eassumption|].
  split; [eapply map2_equiv_trans; eassumption|]. split; [intros x; rewrite D; apply D'|].
  intros c0 s. rewrite E. apply E'.
Qed.
Lemma emerged_equiv_refl_l a b : emerged_equiv a b -> emerged_equiv a a.
Proof. intros H. eapply emerged_equiv_trans; [exact H|now apply emerged_equiv_sym]. Qed.

(* ---------- the three states read the merged observation through lookups and sorted key ranges only ---------- *)
Lemma same_keys_sorted {V W} (m : list (N * V)) (m' : list (N * W)) : same_keys m m' -> sortN (ekeys m) = sortN (ekeys m').
Proof. intros (A & B & C). apply sortN_perm. now apply NoDup_Permutation. Qed.

Lemma get_commit_reports_equiv m m' : emerged_equiv m m' -> get_commit_reports m = get_commit_reports m'.
Proof.
  intros ([K L] & _). unfold get_commit_reports. cbn zeta. rewrite (same_keys_sorted _ _ K).
  f_equal. f_equal. f_equal. apply flat_map_ext. intros c. apply L.
Qed.

Lemma observed_seqs_equiv m m' c lo hi : emerged_equiv m m' -> observed_seqs m c lo hi = observed_seqs m' c lo hi.
Proof.
  intros (_ & [_ Lm] & [_ Lt] & _). unfold observed_seqs. apply sortN_perm. apply dedupN_perm. intros s.
  destruct (Lm c) as [_ Pm]. destruct (Lt c) as [_ Pt].
  assert (P : Permutation (filter (in_rng lo hi) (ekeys (lookup1 c (em_msgs m))) ++ filter (in_rng lo hi) (ekeys (lookup1 c (em_tokens m))))
                          (filter (in_rng lo hi) (ekeys (lookup1 c (em_msgs m'))) ++ filter (in_rng lo hi) (ekeys (lookup1 c (em_tokens m'))))).
  { apply Permutation_app; apply Permutation_filter_compat; now apply Permutation_map. }
  split; apply Permutation_in; [exact P|now symmetry].
Qed.

Lemma fill_report_equiv m m' cd : emerged_equiv m m' -> fill_report m cd = fill_report m' cd.
Proof.
  intros H. pose proof H as (_ & [_ Lm] & [_ Lt] & Hk & _). unfold fill_report. cbn zeta.
  rewrite (observed_seqs_equiv m m' _ _ _ H).
  assert (Em : forall j, alookup j (lookup1 (ER.c_src cd) (em_msgs m)) = alookup j (lookup1 (ER.c_src cd) (em_msgs m')))
    by (intros j; apply map_reorder_lookup, Lm).
  assert (Et : forall j, alookup j (lookup1 (ER.c_src cd) (em_tokens m)) = alookup j (lookup1 (ER.c_src cd) (em_tokens m')))
    by (intros j; apply map_reorder_lookup, Lt).
  rewrite (flat_map_ext _ (fun j => match alookup j (lookup1 (ER.c_src cd) (em_msgs m')) with Some x => [snd x] | None => [] end))
    by (intros j; now rewrite Em).
  rewrite (flat_map_ext (fun j => match alookup j (lookup1 (ER.c_src cd) (em_tokens m)) with Some t => [map tok_pair t] | None => [] end)
                        (fun j => match alookup j (lookup1 (ER.c_src cd) (em_tokens m')) with Some t => [map tok_pair t] | None => [] end))
    by (intros j; now rewrite Et).
  f_equal. apply flat_map_ext. intros mg. now rewrite (memN_iff_eq (ER.m_id mg) _ _ (Hk _)).
Qed.

Section ExecStateP.
  Variable hash : N -> N -> N.
  Variable zero : N.
  Variable leaf_hash : ER.msg -> option N.
  Variable enc_size : ER.creport -> option N.
  Variable tree_gas : N -> N.
  Variable max_size max_gas : N.

  Theorem state_outcome_equiv m m' st prev :
    emerged_equiv m m' ->
    state_outcome hash zero leaf_hash enc_size tree_gas max_size max_gas m st prev =
    state_outcome hash zero leaf_hash enc_size tree_gas max_size max_gas m' st prev.
  Proof.
    intros H. unfold state_outcome.
    destruct (N.eqb st 1); [now rewrite (get_commit_reports_equiv m m' H)|].
    destruct (N.eqb st 2).
    - f_equal. f_equal. apply map_ext. intros cd. now apply fill_report_equiv.
    - destruct H as (_ & _ & _ & _ & Hn).
      now rewrite (select_report_ext hash zero leaf_hash enc_size tree_gas max_size max_gas _ _ Hn prev).
  Qed.

  Variable nid : nonce3 -> N.

  Theorem exec_outcome_deterministic rt rt' i i' :
    exec_rt_ok rt -> exec_rt_ok rt' -> exec_reorder i i' -> exec_ids_faithful nid i ->
    exec_outcome_canon_rt nid hash zero leaf_hash enc_size tree_gas max_size max_gas rt i =
    exec_outcome_canon_rt nid hash zero leaf_hash enc_size tree_gas max_size max_gas rt' i'.
  Proof.
    intros [Hc Hm] [Hc' Hm'] (Hs & Hp & HR & HF & Hd & Hf & Hi) [Hfm Hfn]. unfold exec_outcome_canon_rt. cbn zeta.
    rewrite <- Hs, <- Hp, <- HF, <- Hd, <- Hi.
    pose proof (exec_merge_reorder nid rt rt' Hc Hc' (x_F (xi_cfg i)) (x_dest (xi_cfg i)) _ _ _ _ Hf HR Hfm Hfn) as Hmerge.
    destruct (exec_merge_rt nid rt _ _ _ (xi_aos i)) as [m0| | |];
      destruct (exec_merge_rt nid rt' _ _ _ (xi_aos i')) as [m0'| | |]; cbn [res_rel] in Hmerge; try contradiction; try reflexivity.
    cbn [rbind].
    assert (He : emerged_equiv (x_merged rt m0) (x_merged rt' m0')).
    { eapply emerged_equiv_trans; [apply emerged_equiv_sym, Hm; eapply emerged_equiv_refl_l; exact Hmerge|].
      eapply emerged_equiv_trans; [exact Hmerge|].
      apply Hm'. eapply emerged_equiv_refl_l. apply emerged_equiv_sym. exact Hmerge. }
    destruct (next_exec_state (xi_state i)) as [st| | |]; cbn [rbind]; try reflexivity.
    now rewrite (state_outcome_equiv _ _ st (xi_pending i) He).
  Qed.

  Lemma exec_rt_id_ok : exec_rt_ok exec_rt_id.
  Proof. split; [intros; reflexivity|intros m H; exact H]. Qed.

  Corollary exec_outcome_canon_deterministic i i' :
    exec_reorder i i' -> exec_ids_faithful nid i ->
    exec_outcome_canon nid hash zero leaf_hash enc_size tree_gas max_size max_gas i =
    exec_outcome_canon nid hash zero leaf_hash enc_size tree_gas max_size max_gas i'.
  Proof. apply exec_outcome_deterministic; apply exec_rt_id_ok. Qed.
End ExecStateP.

(* ====================================================================================================
   C. reports
   ==================================================================================================== *)
Require Verif.Model.Transmit Verif.Proofs.TransmitP.

Lemma collect_ext sup sup' ids : (forall o, sup o = sup' o) -> Transmit.collect sup ids = Transmit.collect sup' ids.
Proof. intros H. induction ids as [|o ids IH]; cbn [Transmit.collect]; [reflexivity|]. now rewrite H, IH. Qed.

Lemma roles_lookup_reorder roles roles' dest :
  roles_reorder roles roles' ->
  match alookup dest roles, alookup dest roles' with
  | Some l, Some l' => Permutation l l'
  | None, None => True
  | _, _ => False
  end.
Proof.
  intros [r1 [ND [F P]]].
  assert (K : map fst roles = map fst r1) by (clear -F; induction F as [|e e1 m m1 [Hk _] _ IH]; cbn [map]; congruence).
  assert (ND1 : NoDup (map fst r1)) by (rewrite <- K; exact ND).
  rewrite <- (alookup_perm dest r1 roles' ND1 P). clear -F.
  induction F as [|[k l] [k1 l1] m m1 [Hk Hp] _ IH]; cbn [alookup]; [exact I|].
  cbn [fst snd] in Hk, Hp. subst k1. destruct (N.eqb dest k); [exact Hp|exact IH].
Qed.

Lemma sup_of_roles_reorder roles roles' dest o :
  roles_reorder roles roles' -> sup_of_roles roles dest o = sup_of_roles roles' dest o.
Proof.
  intros H. pose proof (roles_lookup_reorder roles roles' dest H) as L.
  unfold sup_of_roles, CommitConsensus.supports_dest.
  destruct (alookup dest roles) as [l|], (alookup dest roles') as [l'|]; try contradiction; [|reflexivity].
  now rewrite (memN_perm o l l' L).
Qed.

Theorem schedule_deterministic roles roles' dest order order' mult :
  roles_reorder roles roles' -> Permutation order order' ->
  transmission_schedule roles dest order mult = transmission_schedule roles' dest order' mult.
Proof.
  intros Hr P. unfold transmission_schedule.
  rewrite (TransmitP.schedule_order_indep _ order order' mult P). unfold Transmit.schedule.
  now rewrite (collect_ext _ (sup_of_roles roles' dest) (sortN order') (fun o => sup_of_roles_reorder roles roles' dest o Hr)).
Qed.

Theorem commit_reports_deterministic rt rt' i i' roles roles' order order' mult :
  commit_rt_ok rt -> commit_rt_ok rt' -> commit_reorder i i' ->
  roles_reorder roles roles' -> Permutation order order' ->
  commit_reports_canon_rt rt i roles order mult = commit_reports_canon_rt rt' i' roles' order' mult.
Proof.
  intros Hrt Hrt' Hi Hr P. unfold commit_reports_canon_rt. f_equal.
  - now apply commit_outcome_deterministic.
  - destruct Hi as (_ & _ & _ & (_ & Hd & _)). rewrite <- Hd. now apply schedule_deterministic.
Qed.

(* ====================================================================================================
   Non-vacuity: every input whose maps are maps has another iteration order (all maps reversed), there is a runtime
   other than insertion order (all internal maps reversed), and concrete 4-oracle rounds with non-empty outcomes.
   ==================================================================================================== *)
Definition keys_ok {V} (m : list (N * V)) : bool := nodupb N.eqb (map fst m).
Lemma keys_ok_rev {V} (m : list (N * V)) : keys_ok m = true -> map_reorder m (rev m).
Proof. intros H. split; [now apply nodupb_NoDup|apply Permutation_rev]. Qed.

Definition mr_obs_rev (o : CC.obs) : CC.obs :=
  CC.mkObs (CC.o_roots o) (CC.o_onramp o) (CC.o_offramp o) (CC.o_rmn o) (rev (CC.o_fchain o)).
Definition tp_obs_rev (o : PR.tp_obs) : PR.tp_obs :=
  PR.mkTpObs (PR.tp_feed o) (rev (PR.tp_updates o)) (rev (PR.tp_fchain o)) (PR.tp_ts o).
Definition cf_obs_rev (o : PR.cf_obs) : PR.cf_obs :=
  PR.mkCfObs (rev (PR.cf_feecomp o)) (rev (PR.cf_native o)) (rev (PR.cf_updates o)) (rev (PR.cf_fchain o)) (PR.cf_ts o).
Definition disc_obs_rev (o : DI.dobs) : DI.dobs :=
  DI.mkDobs (rev (DI.d_fchain_obs o)) (rev (DI.d_onramp o)) (rev (DI.d_nonce o)) (rev (DI.d_rmn o))
            (rev (DI.d_feeq o)) (rev (DI.d_router o)).
Definition cobs_rev (o : cobs) : cobs :=
  mkCobs (mr_obs_rev (co_mr o)) (tp_obs_rev (co_tp o)) (cf_obs_rev (co_cf o)) (disc_obs_rev (co_disc o)).
Definition cobs_ok (o : cobs) : bool :=
  keys_ok (CC.o_fchain (co_mr o)) &&
  (keys_ok (PR.tp_updates (co_tp o)) && keys_ok (PR.tp_fchain (co_tp o))) &&
  (keys_ok (PR.cf_feecomp (co_cf o)) && keys_ok (PR.cf_native (co_cf o)) && keys_ok (PR.cf_updates (co_cf o)) &&
   keys_ok (PR.cf_fchain (co_cf o))) &&
  (keys_ok (DI.d_fchain_obs (co_disc o)) && keys_ok (DI.d_onramp (co_disc o)) && keys_ok (DI.d_nonce (co_disc o)) &&
   keys_ok (DI.d_rmn (co_disc o)) && keys_ok (DI.d_feeq (co_disc o)) && keys_ok (DI.d_router (co_disc o))).
Definition commit_cfg_rev (k : commit_cfg) : commit_cfg :=
  mkCommitCfg (g_F k) (g_dest k) (g_max k) (g_n k) (g_feedchain k) (g_tp_freq k) (rev (g_tokeninfo k))
              (g_cf_freq k) (rev (g_feeinfo k)) (g_off_const k).
Definition commit_in_rev (i : commit_in) : commit_in :=
  mkCommitIn (ci_prev i) (ci_query i) (map (fun ao => (fst ao, cobs_rev (snd ao))) (ci_aos i)) (commit_cfg_rev (ci_cfg i)).
Definition commit_in_ok (i : commit_in) : bool :=
  forallb (fun ao => cobs_ok (snd ao)) (ci_aos i) && keys_ok (g_tokeninfo (ci_cfg i)) && keys_ok (g_feeinfo (ci_cfg i)).

Lemma cobs_rev_reorder o : cobs_ok o = true -> cobs_reorder o (cobs_rev o).
Proof.
  unfold cobs_ok. rewrite !andb_true_iff.
  intros [[[H1 [H2 H3]] [[[H4 H5] H6] H7]] [[[[[H8 H9] H10] H11] H12] H13]].
  unfold cobs_reorder, cobs_rev, mr_obs_reorder, tp_obs_reorder, cf_obs_reorder, disc_obs_reorder.
  cbn. repeat split; try reflexivity; try (now apply nodupb_NoDup); apply Permutation_rev.
Qed.

Theorem commit_in_rev_reorder i : commit_in_ok i = true -> commit_reorder i (commit_in_rev i).
Proof.
  unfold commit_in_ok. rewrite !andb_true_iff. intros [[Ha Ht] Hf].
  unfold commit_reorder, commit_in_rev. cbn [ci_prev ci_query ci_aos ci_cfg]. repeat split.
  - rewrite forallb_forall in Ha. unfold aos_rel. induction (ci_aos i) as [|ao aos IH]; cbn [map]; constructor.
    + cbn [fst snd]. split; [reflexivity|]. apply cobs_rev_reorder, Ha. now left.
    + apply IH. intros x Hx. apply Ha. now right.
  - now apply nodupb_NoDup.
  - cbn. apply Permutation_rev.
  - now apply nodupb_NoDup.
  - cbn. apply Permutation_rev.
Qed.

(* a runtime that ranges over every internal map backwards *)
Definition commit_rt_rev : commit_rt :=
  mkCommitRt
    (fun a => CC.mkAgg (rev (CC.a_roots a)) (rev (CC.a_onramp a)) (rev (CC.a_offramp a)) (CC.a_rmn a) (rev (CC.a_fchain a)))
    (fun c => SM.mkCons (rev (SM.c_roots c)) (rev (SM.c_on c)) (rev (SM.c_off c)) (SM.c_cfg c))
    (fun a => mkTpAgg (rev (ta_fchain a)) (rev (ta_feed a)) (rev (ta_updates a)) (ta_ts a))
    (fun c => PR.mkTpCons (rev (PR.tc_fchain c)) (rev (PR.tc_feed c)) (rev (PR.tc_updates c)) (PR.tc_ts c))
    (fun a => mkCfAgg (rev (fa_fchain a)) (rev (fa_feecomp a)) (rev (fa_native a)) (rev (fa_updates a)) (fa_ts a))
    (fun c => PR.mkCfCons (rev (PR.cc_fchain c)) (rev (PR.cc_feecomp c)) (rev (PR.cc_native c)) (rev (PR.cc_updates c)) (PR.cc_ts c))
    (fun m => rev m)
    (fun a => mkDiscAgg (rev (da_fchain a)) (rev (da_onramp a)) (rev (da_nonce a)) (rev (da_rmn a)) (rev (da_feeq a)) (rev (da_router a))).
Lemma commit_rt_rev_ok : commit_rt_ok commit_rt_rev.
Proof.
  unfold commit_rt_ok, commit_rt_rev, agg_perm, smcons_perm, tp_agg_perm, tp_cons_perm, cf_agg_perm, cf_cons_perm, disc_agg_perm.
  cbn. repeat split; intros; try reflexivity; apply Permutation_rev.
Qed.

Local Open Scope N_scope.
Definition ex_fch : list (N * Z) := [(1, 1%Z); (2, 1%Z); (9, 1%Z)].
Definition ex_fch2 : list (N * Z) := [(9, 1%Z); (1, 1%Z); (2, 1%Z)].
Definition ex_rmn_none : CC.rmn_cfg := CC.mkRmn 0 true true [] 0 0 true.
Definition ex_mr (on2 : N) (fch : list (N * Z)) : CC.obs :=
  CC.mkObs [] [(1, 20); (2, on2)] [(2, 31); (1, 11)] ex_rmn_none fch.
Definition ex_tp (fch : list (N * Z)) : PR.tp_obs :=
  PR.mkTpObs [(100, 5000%Z); (101, 7000%Z)] [(101, (10%Z, 7000%Z)); (100, (10%Z, 4000%Z))] fch 1000%Z.
Definition ex_cf (fch : list (N * Z)) : PR.cf_obs :=
  PR.mkCfObs [(2, (20%Z, 3%Z)); (1, (10%Z, 2%Z))] [(1, 1000000000000000000%Z); (2, 2000000000000000000%Z)] [] fch 1000%Z.
Definition ex_disc (fch : list (N * Z)) : DI.dobs :=
  DI.mkDobs fch [(2, 78); (1, 77)] [(9, 5)] [(9, 6)] [(9, 9); (1, 8)] [(1, 3)].
Definition ex_cobs (on2 : N) (fch : list (N * Z)) : cobs := mkCobs (ex_mr on2 fch) (ex_tp fch) (ex_cf fch) (ex_disc fch).
(* four oracles; oracle 3 disagrees on the on-ramp number of chain 2; oracles 1 and 3 range over fChain in another order *)
Definition ex_caos : list (N * cobs) :=
  [(0, ex_cobs 30 ex_fch); (1, ex_cobs 30 ex_fch2); (2, ex_cobs 30 ex_fch); (3, ex_cobs 29 ex_fch2)].
Definition ex_ccfg : commit_cfg :=
  mkCommitCfg 1 9 3 256 1 50 [(102, 5%Z); (100, 1000000%Z)] 50 [(2, (1000000%Z, 1000000%Z)); (1, (1000000%Z, 1000000%Z))] true.
Definition ex_ci : commit_in := mkCommitIn SM.empty_outcome (SM.mkQuery false None) ex_caos ex_ccfg.
Definition ex_cout : commit_out :=
  mkCommitOut (SM.mkOutcome 1 [(1, (11, 20))] [] [(1, 11); (2, 31)] 0 [] (0, 0))
              (Ok [(100, 5000%Z)])
              (Ok [(1, 10384593717069655257060992658440202%Z); (2, 31153781151208965771182977975320616%Z)])
              (DI.mkDcons [(1, 77); (2, 78)] [(9, 5)] [(9, 6)] [(1, 8); (9, 9)] [(1, 3)]).

Example commit_example :
  commit_reorder ex_ci (commit_in_rev ex_ci) /\ ex_ci <> commit_in_rev ex_ci /\
  commit_outcome_canon ex_ci = ex_cout /\
  commit_outcome_canon_rt commit_rt_rev (commit_in_rev ex_ci) = ex_cout.
Proof.
  split; [apply commit_in_rev_reorder; vm_compute; reflexivity|].
  split; [intros E; apply (f_equal (fun i => g_tokeninfo (ci_cfg i))) in E; vm_compute in E; discriminate|].
  split; vm_compute; reflexivity.
Qed.

(* an association list with a repeated key is not a Go map: the statement fails for it (a lookup sees the first entry) *)
Theorem commit_outcome_nonmap_refuted :
  exists i info',
    Permutation (g_tokeninfo (ci_cfg i)) info' /\
    let k := ci_cfg i in
    let i' := mkCommitIn (ci_prev i) (ci_query i) (ci_aos i)
                (mkCommitCfg (g_F k) (g_dest k) (g_max k) (g_n k) (g_feedchain k) (g_tp_freq k) info' (g_cf_freq k) (g_feeinfo k) (g_off_const k)) in
    commit_outcome_canon i <> commit_outcome_canon i'.
Proof.
  exists (mkCommitIn SM.empty_outcome (SM.mkQuery false None) ex_caos
            (mkCommitCfg 1 9 3 256 1 2000 [(100, 1000000000%Z); (100, 5%Z)] 50 [] true)),
         [(100, 5%Z); (100, 1000000000%Z)].
  split; [apply perm_swap|]. vm_compute. discriminate.
Qed.

(* ---------- execute: another iteration order of every input map, another runtime, concrete rounds ---------- *)
Definition rev2 {V} (m : list (N * list (N * V))) : list (N * list (N * V)) := map (fun e => (fst e, rev (snd e))) (rev m).
Definition keys2_ok {V} (m : list (N * list (N * V))) : bool := keys_ok m && forallb (fun e => keys_ok (snd e)) m.

Lemma rev2_reorder {V} (m : list (N * list (N * V))) : keys2_ok m = true -> map2_reorder m (rev2 m).
Proof.
  unfold keys2_ok. rewrite andb_true_iff. intros [Hk Hi].
  exists (map (fun e => (fst e, rev (snd e))) m). split; [now apply nodupb_NoDup|]. split.
  - rewrite forallb_forall in Hi. clear Hk. induction m as [|e m IH]; cbn [map]; constructor.
    + split; [reflexivity|]. cbn [snd]. apply keys_ok_rev, Hi. now left.
    + apply IH. intros x Hx. apply Hi. now right.
  - unfold rev2. rewrite map_rev. apply Permutation_rev.
Qed.

Definition eobs_rev (o : eobs) : eobs :=
  mkEobs (rev (eo_commits o)) (rev2 (eo_msgs o)) (rev2 (eo_tokens o)) (eo_costly o) (rev2 (eo_nonces o)).
Definition eobs_ok (o : eobs) : bool :=
  keys_ok (eo_commits o) && keys2_ok (eo_msgs o) && keys2_ok (eo_tokens o) && keys2_ok (eo_nonces o).
Definition exec_in_rev (i : exec_in) : exec_in :=
  mkExecIn (xi_state i) (xi_pending i) (map (fun ao => (fst ao, eobs_rev (snd ao))) (xi_aos i))
           (mkExecCfg (x_F (xi_cfg i)) (x_dest (xi_cfg i)) (rev (x_fchain (xi_cfg i))) (x_init (xi_cfg i))).
Definition exec_in_ok (i : exec_in) : bool :=
  forallb (fun ao => eobs_ok (snd ao)) (xi_aos i) && keys_ok (x_fchain (xi_cfg i)).

Theorem exec_in_rev_reorder i : exec_in_ok i = true -> exec_reorder i (exec_in_rev i).
Proof.
  unfold exec_in_ok. rewrite andb_true_iff. intros [Ha Hf].
  unfold exec_reorder, exec_in_rev. cbn [xi_state xi_pending xi_aos xi_cfg x_F x_dest x_fchain x_init].
  repeat split; try (now apply nodupb_NoDup); try apply Permutation_rev.
  rewrite forallb_forall in Ha. unfold aos_rel. induction (xi_aos i) as [|ao aos IH]; cbn [map]; constructor.
  - cbn [fst snd]. split; [reflexivity|]. assert (Ho : eobs_ok (snd ao) = true) by (apply Ha; now left).
    unfold eobs_ok in Ho. rewrite !andb_true_iff in Ho. destruct Ho as [[[H1 H2] H3] H4].
    unfold eobs_reorder, eobs_rev. cbn [eo_commits eo_msgs eo_tokens eo_costly eo_nonces].
    split; [now apply keys_ok_rev|]. split; [now apply rev2_reorder|]. split; [now apply rev2_reorder|].
    split; [reflexivity|now apply rev2_reorder].
  - apply IH. intros x Hx. apply Ha. now right.
Qed.

(* a runtime that ranges over every cache and over the outer maps of the merged observation backwards *)
Definition exec_rt_rev : exec_rt :=
  mkExecRt (fun T c => rev c)
           (fun m => mkEmerged (rev (em_commits m)) (rev (em_msgs m)) (rev (em_tokens m)) (rev (em_costly m)) (em_nonces m)).

Lemma map2_equiv_inner_nodup {V} (m : list (N * list (N * V))) :
  map2_equiv m m -> Forall (fun e => NoDup (map fst (snd e))) m.
Proof.
  intros [(ND & _ & _) L]. apply Forall_forall. intros [k l] Hi. cbn [snd].
  destruct (L k) as [NDi _]. unfold lookup1 in NDi. now rewrite (alookup_NoDup_In k m l ND Hi) in NDi.
Qed.

Lemma exec_rt_rev_ok : exec_rt_ok exec_rt_rev.
Proof.
  split; [intros T c; apply Permutation_rev|].
  intros m (A & B & C & D & E). unfold exec_rt_rev, emerged_equiv. cbn [x_merged em_commits em_msgs em_tokens em_costly em_nonces].
  split; [|split; [|split; [|split]]].
  - apply perm_map1_equiv; [apply A|apply Permutation_rev].
  - apply perm_map2_equiv; [apply B|now apply map2_equiv_inner_nodup|apply Permutation_rev].
  - apply perm_map2_equiv; [apply C|now apply map2_equiv_inner_nodup|apply Permutation_rev].
  - intros x. apply in_rev.
  - intros c s. reflexivity.
Qed.

(* ids are faithful when a table from ids to items exists *)
Lemma faithful_by_table {T} (id : T -> N) (items : list T) :
  Forall (fun x => alookup (id x) (map (fun y => (id y, y)) items) = Some x) items -> ids_faithful id items.
Proof.
  intros H x y Hx Hy E. rewrite Forall_forall in H. pose proof (H x Hx) as H1. pose proof (H y Hy) as H2.
  rewrite E in H1. congruence.
Qed.
Lemma faithful_incl {T} (id : T -> N) (l l' : list T) : incl l l' -> ids_faithful id l' -> ids_faithful id l.
Proof. intros Hi H x y Hx Hy. apply H; now apply Hi. Qed.

Definition all_msgs (aos : list (N * eobs)) : list emsg :=
  flat_map (fun a => flat_map (fun e => map snd (snd e)) (eo_msgs (snd a))) aos.
Lemma mitems_incl k aos : incl (mitems k aos) (all_msgs aos).
Proof.
  unfold mitems, all_msgs. intros x Hx. apply in_flat_map in Hx. destruct Hx as [a [Ha Hx]].
  apply in_flat_map. exists a. split; [exact Ha|].
  apply in_map_iff in Hx. destruct Hx as [p [Ep Hp]]. unfold EM.entries in Hp. apply in_flat_map in Hp.
  destruct Hp as [e [He Hp]]. destruct (N.eqb (fst e) k); [|contradiction].
  apply in_flat_map. exists e. split; [exact He|]. apply in_map_iff. now exists p.
Qed.

Definition ex_nid (t : nonce3) : N := fst (fst t) * 1000000 + snd (fst t) * 1000 + snd t.
Definition ex_hash (a b : N) : N := a + b.
Definition ex_leaf (m : ER.msg) : option N := Some (ER.m_id m).
Definition ex_size (r : ER.creport) : option N := Some 10.
Definition ex_gas (n : N) : N := 0.
Definition ex_xcanon_rt := exec_outcome_canon_rt ex_nid ex_hash 0 ex_leaf ex_size ex_gas 1000 1000.
Definition ex_xcanon := exec_outcome_canon ex_nid ex_hash 0 ex_leaf ex_size ex_gas 1000 1000.

(* chain 1: oracles 0,1 saw the report with nothing executed (A), oracles 2,3 saw it with message 10 executed (B):
   with f = 1 both reach f+1, so TWO commit data with the same sort key (source 1, start 10) are valid *)
Definition ex_cdA : ER.cdata := ER.mkCD 1 71 10 10 [] [] [] [].
Definition ex_cdB : ER.cdata := ER.mkCD 1 71 10 10 [10] [] [] [].
Definition ex_cdC : ER.cdata := ER.mkCD 2 600 1 2 [] [] [] [].
Definition ex_ecA : ecommit := (50, 100%Z, ex_cdA).
Definition ex_ecB : ecommit := (40, 100%Z, ex_cdB).
Definition ex_ecC : ecommit := (60, 90%Z, ex_cdC).
Definition ex_m10 : ER.msg := ER.mkMsg 71 1 10 5 33 1 1.
Definition ex_m1 : ER.msg := ER.mkMsg 81 2 1 0 34 1 1.
Definition ex_msgs : list (N * list (N * emsg)) := [(2, [(1, (8, ex_m1))]); (1, [(10, (7, ex_m10))])].
Definition ex_toks : list (N * list (N * list EM.tok)) := [(1, [(10, [EM.mkTok true 1])]); (2, [(1, [])])].
Definition ex_nonces : list (N * list (N * N)) := [(1, [(33, 4); (35, 9)]); (2, [(34, 1)])].
Definition ex_eobs (cs : list (N * list ecommit)) : eobs := mkEobs cs ex_msgs ex_toks [81] ex_nonces.
Definition ex_xaos : list (N * eobs) :=
  [(0, ex_eobs [(1, [ex_ecA]); (2, [ex_ecC])]); (1, ex_eobs [(2, [ex_ecC]); (1, [ex_ecA])]);
   (2, ex_eobs [(1, [ex_ecB]); (2, [ex_ecC])]); (3, ex_eobs [(1, [ex_ecB])])].
Definition ex_xcfg : exec_cfg := mkExecCfg 1 9 [(1, 1%Z); (9, 1%Z); (2, 1%Z)] true.
(* the three states *)
Definition ex_x1 : exec_in := mkExecIn 0 [] ex_xaos ex_xcfg.
Definition ex_x2 : exec_in := mkExecIn 1 [ex_cdB; ex_cdA; ex_cdC] ex_xaos ex_xcfg.
Definition ex_x3 : exec_in :=
  mkExecIn 2 [ER.mkCD 1 71 10 10 [] [ex_m10] [] [[(true, 1)]]; ER.mkCD 2 600 1 2 [] [ex_m1] [81] [[]]] ex_xaos ex_xcfg.

Lemma ex_faithful st pend : exec_ids_faithful ex_nid (mkExecIn st pend ex_xaos ex_xcfg).
Proof.
  split.
  - intros k. apply (faithful_incl em_hid _ _ (mitems_incl k _)). apply faithful_by_table.
    vm_compute. repeat constructor.
  - apply faithful_by_table. vm_compute. repeat constructor.
Qed.

Definition eout_shape (r : res eout) : option (N * list (N * N * list N * nat) * nat) :=
  match r with
  | Ok o => Some (eo_state o, map (fun cd => (ER.c_src cd, ER.c_start cd, ER.c_exec cd, length (ER.c_msgs cd))) (eo_pending o),
                  length (eo_reports o))
  | _ => None
  end.

Example exec_example :
  (exec_reorder ex_x1 (exec_in_rev ex_x1) /\ ex_x1 <> exec_in_rev ex_x1 /\ exec_ids_faithful ex_nid ex_x1 /\
   (* the two agreed versions of report (1, 10) - executed list [10] and [] - conflict and are dropped (repair of F76) *)
   eout_shape (ex_xcanon ex_x1) = Some (1, [(2, 1, [], 0%nat)], 0%nat) /\
   ex_xcanon_rt exec_rt_rev (exec_in_rev ex_x1) = ex_xcanon ex_x1) /\
  (exec_reorder ex_x2 (exec_in_rev ex_x2) /\ exec_ids_faithful ex_nid ex_x2 /\
   eout_shape (ex_xcanon ex_x2) = Some (2, [(1, 10, [10], 1%nat); (1, 10, [], 1%nat); (2, 1, [], 1%nat)], 0%nat) /\
   ex_xcanon_rt exec_rt_rev (exec_in_rev ex_x2) = ex_xcanon ex_x2) /\
  (exec_reorder ex_x3 (exec_in_rev ex_x3) /\ exec_ids_faithful ex_nid ex_x3 /\
   eout_shape (ex_xcanon ex_x3) = Some (3, [(2, 1, [], 1%nat)], 1%nat) /\
   ex_xcanon_rt exec_rt_rev (exec_in_rev ex_x3) = ex_xcanon ex_x3).
Proof.
  repeat split; try (apply exec_in_rev_reorder; vm_compute; reflexivity); try apply ex_faithful;
    try (vm_compute; reflexivity).
  intros E. apply (f_equal (fun i => x_fchain (xi_cfg i))) in E. vm_compute in E. discriminate.
Qed.

Theorem exec_reports_deterministic nid hash zero leaf_hash enc_size tree_gas max_size max_gas
        rt rt' i i' roles roles' order order' mult :
  exec_rt_ok rt -> exec_rt_ok rt' -> exec_reorder i i' -> exec_ids_faithful nid i ->
  roles_reorder roles roles' -> Permutation order order' ->
  exec_reports_canon_rt nid hash zero leaf_hash enc_size tree_gas max_size max_gas rt i roles order mult =
  exec_reports_canon_rt nid hash zero leaf_hash enc_size tree_gas max_size max_gas rt' i' roles' order' mult.
Proof.
  intros Hrt Hrt' Hi Hf Hr P. unfold exec_reports_canon_rt. f_equal.
  - now apply exec_outcome_deterministic.
  - destruct Hi as (_ & _ & _ & _ & Hd & _). rewrite <- Hd. now apply schedule_deterministic.
Qed.

Example reports_schedule_example :
  let roles := [(1, [0; 1; 2]); (9, [3; 1; 0])] in
  let roles' := [(9, [0; 1; 3]); (1, [2; 1; 0])] in
  roles_reorder roles roles' /\
  transmission_schedule roles 9 [0; 1; 2; 3] 10 = Some ([0; 1; 3], [10; 20; 30]%Z) /\
  transmission_schedule roles' 9 [3; 2; 1; 0] 10 = Some ([0; 1; 3], [10; 20; 30]%Z).
Proof.
  cbn zeta. split; [|split; vm_compute; reflexivity].
  exists [(1, [2; 1; 0]); (9, [0; 1; 3])]. split; [repeat constructor; cbn; intuition discriminate|]. split.
  - constructor; [split; [reflexivity|]; cbn [snd]; apply (Permutation_rev [0; 1; 2])|].
    constructor; [|constructor]. split; [reflexivity|]. cbn [snd].
    change [0; 1; 3] with ([0; 1] ++ [3]). change [3; 1; 0] with ([3] ++ [1; 0]).
    etransitivity; [apply Permutation_app_comm|]. apply Permutation_app_tail. apply perm_swap.
  - apply perm_swap.
Qed.

(* ---------- tie to the composed model judged by sink C04_round (RMN disabled: every observed remote config empty):
   the merkle-root part of the canon outcome is that model's outcome, sorted ---------- *)
Lemma rmn_votes_empty aos :
  (forall ao, In ao aos -> CC.rmn_is_empty (CC.o_rmn (snd ao)) = true) -> CC.rmn_votes aos = [].
Proof.
  unfold CC.rmn_votes. induction aos as [|ao aos IH]; cbn [flat_map]; intros H; [reflexivity|].
  rewrite (H ao) by now left. cbn [app]. apply IH. intros x Hx. apply H. now right.
Qed.

Lemma rmn_empty_cfg oc F dest aos c :
  (forall ao, In ao aos -> CC.rmn_is_empty (CC.o_rmn (snd ao)) = true) ->
  mr_cons_of_agg oc F dest (CC.aggregate aos) = Ok c -> mr_cfg_of dest aos c = SM.cfg_empty.
Proof.
  intros He. unfold mr_cons_of_agg. cbn zeta. destruct (alookup dest _) as [fd|]; [|discriminate].
  intros E. inversion E; subst c. unfold mr_cfg_of. cbn [CC.c_rmn CC.aggregate CC.a_rmn].
  rewrite (rmn_votes_empty aos He). cbn [map consensus_map].
  destruct (thr_2f1 _ dest) as [t|]; reflexivity.
Qed.

Theorem mr_outcome_rmn_disabled :
  exists oc, forall k prev q aos, k_off_const k = oc ->
  (forall ao, In ao aos -> CC.rmn_is_empty (CC.o_rmn (snd ao)) = true) ->
  mr_outcome_rt (fun a => a) (fun c => c) k prev q aos =
  mr_canon (SM.get_outcome (k_max k) (k_n k) prev q
              (CommitLive.round_cons (fun _ => SM.cfg_empty) (k_F k) (k_dest k) aos)).
Proof.
  destruct get_consensus_is_cons_of_agg as [oc H]. exists oc. intros k prev q aos E He.
  rewrite round_cons_unfold. unfold mr_outcome_rt. rewrite H, E. f_equal. f_equal.
  destruct (mr_cons_of_agg oc (k_F k) (k_dest k) (CC.aggregate aos)) as [c| | |] eqn:Ec; try reflexivity.
  f_equal. unfold CommitLive.conv_cons. f_equal. exact (rmn_empty_cfg oc _ _ _ _ He Ec).
Qed.

(* ---------- what is needed, what is not ---------- *)
(* (a) colliding message ids (two different messages filed under one id): the cache keeps the first one added, and
   the order of the Add calls follows the iteration order of the observation's inner map *)
Definition ex_mX : ER.msg := ER.mkMsg 71 1 5 0 33 1 1.
Definition ex_mY : ER.msg := ER.mkMsg 72 1 6 0 33 1 1.
Definition ex_coll_obs : eobs := mkEobs [] [(1, [(5, (7, ex_mX)); (6, (7, ex_mY))])] [] [] [].
Definition ex_coll : exec_in :=
  mkExecIn 1 [ER.mkCD 1 71 5 6 [] [] [] []] [(0, ex_coll_obs); (1, ex_coll_obs)] (mkExecCfg 1 9 [(1, 1%Z)] true).
Theorem exec_msg_id_collision_refuted :
  exists i i', exec_reorder i i' /\ ids_faithful ex_nid (nitems (xi_aos i)) /\ ex_xcanon i <> ex_xcanon i'.
Proof.
  exists ex_coll, (exec_in_rev ex_coll). split; [apply exec_in_rev_reorder; vm_compute; reflexivity|].
  split; [intros x y []|]. vm_compute. discriminate.
Qed.

(* (b) colliding nonce-triplet ids: the merged nonce map, and with it the report, depends on the iteration order *)
Theorem exec_nonce_id_collision_refuted :
  exists i i', exec_reorder i i' /\ (forall k, ids_faithful em_hid (mitems k (xi_aos i))) /\
    exec_outcome_canon (fun _ => 0) ex_hash 0 ex_leaf ex_size ex_gas 1000 1000 i <>
    exec_outcome_canon (fun _ => 0) ex_hash 0 ex_leaf ex_size ex_gas 1000 1000 i'.
Proof.
  exists ex_x3, (exec_in_rev ex_x3). split; [apply exec_in_rev_reorder; vm_compute; reflexivity|].
  split; [apply (ex_faithful 2 (xi_pending ex_x3))|]. vm_compute. discriminate.
Qed.

(* (c) unique sort keys are NOT guaranteed by consensus (two conflicting commit data for one (source, start), each
   with f+1 votes, are both valid).  Since the repair of F76 getCommitReportsOutcome drops such conflicting reports, so
   the pending list of the GetCommitReports outcome has unique keys again; before it the ties were kept in GetValid
   order by the stable sorts, and GetValid iterates in ascending id order.  With the iteration order of the cache
   instead (GetValid before the repair of F17, or any caller handing newSortedOutcome a permuted list: F29) the two
   range orders gave two outcomes. *)
Theorem exec_consensus_dupkey_example :
  exec_ids_faithful ex_nid ex_x1 /\
  exists m, exec_merge_rt ex_nid exec_rt_id 1 9 (x_fchain ex_xcfg) ex_xaos = Ok m /\
            ~ NoDup (map (fun cd => (ER.c_src cd, ER.c_start cd)) (get_commit_reports_unfixed m)) /\
            NoDup (map (fun cd => (ER.c_src cd, ER.c_start cd)) (get_commit_reports m)).
Proof.
  split; [apply ex_faithful|]. eexists. split; [vm_compute; reflexivity|]. split.
  - vm_compute. intros H. inversion H as [|? ? _ H']. inversion H' as [|? ? Hn _]. apply Hn. now left.
  - vm_compute. repeat constructor. intros [].
Qed.

Theorem exec_dupkey_unfixed_refuted :
  let c := cache_of ec_id (citems 1 ex_xaos) in
  let out := fun l => new_outcome 1 (get_commit_reports_unfixed (mkEmerged [(1, l)] [] [] [] [])) [] in
  Permutation c (rev c) /\ NoDup (map fst c) /\
  out (get_valid_unfixed 2 c) <> out (get_valid_unfixed 2 (rev c)) /\
  out (get_valid 2 c) = out (get_valid 2 (rev c)).
Proof.
  cbn zeta. split; [apply Permutation_rev|]. split; [apply cache_of_nodup|]. split; vm_compute; [discriminate|reflexivity].
Qed.

(* ---------- tie to the C07 model: the id-ordered GetValid returns exactly the items that C07's [valid] returns
   (those filed at least thr times), C10 only adds the order ---------- *)
Theorem mo_valid_spec {T} (id : T -> N) (rtc : cache T -> cache T) thr (items : list T) x :
  (forall c, Permutation c (rtc c)) -> ids_faithful id items ->
  (In x (mo_valid rtc id thr items) <-> In x items /\ (thr <= count (id_eqb id) x items)%N).
Proof.
  intros Hr Hf. unfold mo_valid. rewrite get_valid_members. split.
  - intros [i [n [Hi Hn]]]. apply (Permutation_in _ (Permutation_sym (Hr _))) in Hi.
    apply (cache_of_in id items i x n Hf) in Hi. destruct Hi as [Hx [_ ->]]. now split.
  - intros [Hx Hn]. exists (id x), (count (id_eqb id) x items). split; [|exact Hn].
    apply (Permutation_in _ (Hr _)). apply (cache_of_in id items _ x _ Hf). now repeat split.
Qed.

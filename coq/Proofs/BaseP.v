(* BaseP.v — lemmas about the shared definitions of Model/Base.v *)
Require Import Verif.Model.Base.
From Coq Require Import Sorting.Sorted.

(* ---------- insertion sort: permutation, sortedness, canonicity ---------- *)
Lemma insert_by_perm {A} (le : A -> A -> bool) x l : Permutation (insert_by le x l) (x :: l).
Proof.
  induction l as [|y l IH]; cbn [insert_by]; [reflexivity|].
  destruct (le x y); [reflexivity|].
  etransitivity; [apply perm_skip, IH| apply perm_swap].
Qed.

Lemma sort_by_perm {A} (le : A -> A -> bool) l : Permutation (sort_by le l) l.
Proof.
  induction l as [|x l IH]; cbn [sort_by]; [reflexivity|].
  etransitivity; [apply insert_by_perm| apply perm_skip, IH].
Qed.

Lemma sort_by_length {A} (le : A -> A -> bool) l : length (sort_by le l) = length l.
Proof. apply Permutation_length, sort_by_perm. Qed.

Lemma sort_by_in {A} (le : A -> A -> bool) l x : In x (sort_by le l) <-> In x l.
Proof. split; apply Permutation_in; [|symmetry]; apply sort_by_perm. Qed.

Section SortedKey.
  (* sorting on an N-valued key; stable, and canonical when keys are unique *)
  Context {A : Type} (key : A -> N).
  Definition kle (a b : A) : bool := N.leb (key a) (key b).
  Definition KSorted := StronglySorted (fun a b => (key a <= key b)%N).

  Lemma insert_ksorted x l : KSorted l -> KSorted (insert_by kle x l).
  Proof.
    induction 1 as [|y l Hs IH Hall]; cbn [insert_by].
    - constructor; constructor.
    - unfold kle at 1. destruct (N.leb_spec (key x) (key y)) as [Hle|Hlt].
      + constructor; [constructor; assumption|].
        constructor; [exact Hle|].
        eapply Forall_impl; [|exact Hall]. cbn. intros; lia.
      + constructor; [exact IH|].
        eapply Permutation_Forall; [symmetry; apply insert_by_perm|].
        constructor; [lia|exact Hall].
  Qed.

  Lemma sort_ksorted l : KSorted (sort_by kle l).
  Proof. induction l; cbn [sort_by]; [constructor| apply insert_ksorted; assumption]. Qed.

  Lemma ksorted_perm_eq l1 :
    forall l2, KSorted l1 -> KSorted l2 -> NoDup (map key l1) -> Permutation l1 l2 -> l1 = l2.
  Proof.
    induction l1 as [|x l1 IH]; intros l2 S1 S2 ND P.
    - apply Permutation_nil in P. now subst.
    - destruct l2 as [|y l2]; [symmetry in P; apply Permutation_nil in P; discriminate|].
      inversion S1 as [|? ? S1' H1]; subst. inversion S2 as [|? ? S2' H2]; subst.
      assert (Hxy : key x = key y).
      { assert (Hx : In x (y :: l2)) by (eapply Permutation_in; [exact P|left; reflexivity]).
        assert (Hy : In y (x :: l1)) by (eapply Permutation_in; [symmetry; exact P|left; reflexivity]).
        destruct Hx as [->|Hx]; [reflexivity|]. destruct Hy as [->|Hy]; [reflexivity|].
        rewrite Forall_forall in H1, H2. specialize (H1 _ Hy). specialize (H2 _ Hx). cbn in *. lia. }
      assert (x = y).
      { assert (Hy : In y (x :: l1)) by (eapply Permutation_in; [symmetry; exact P|left; reflexivity]).
        destruct Hy as [->|Hy]; [reflexivity|].
        exfalso. inversion ND as [|? ? Hn _]; subst. apply Hn. rewrite Hxy. now apply in_map. }
      subst y. f_equal. apply IH; try assumption.
      + now inversion ND.
      + eapply Permutation_cons_inv; exact P.
  Qed.

  (* sorting is a function of the multiset when keys are unique *)
  Theorem sort_by_key_perm l l' :
    NoDup (map key l) -> Permutation l l' -> sort_by kle l = sort_by kle l'.
  Proof.
    intros ND P. apply ksorted_perm_eq; try apply sort_ksorted.
    - eapply Permutation_NoDup; [|exact ND]. apply Permutation_map. symmetry. apply sort_by_perm.
    - etransitivity; [apply sort_by_perm|]. etransitivity; [exact P|]. symmetry. apply sort_by_perm.
  Qed.
End SortedKey.

(* On N itself no uniqueness is needed: equal keys are equal elements. *)
Lemma sortN_sorted l : StronglySorted N.le (sortN l).
Proof. exact (sort_ksorted (fun x : N => x) l). Qed.

Lemma nsorted_perm_eq l1 : forall l2,
  StronglySorted N.le l1 -> StronglySorted N.le l2 -> Permutation l1 l2 -> l1 = l2.
Proof.
  induction l1 as [|x l1 IH]; intros l2 S1 S2 P.
  - apply Permutation_nil in P. now subst.
  - destruct l2 as [|y l2]; [symmetry in P; apply Permutation_nil in P; discriminate|].
    inversion S1 as [|? ? S1' H1]; subst. inversion S2 as [|? ? S2' H2]; subst.
    assert (x = y).
    { assert (Hx : In x (y :: l2)) by (eapply Permutation_in; [exact P|left; reflexivity]).
      assert (Hy : In y (x :: l1)) by (eapply Permutation_in; [symmetry; exact P|left; reflexivity]).
      destruct Hx as [->|Hx]; [reflexivity|]. destruct Hy as [->|Hy]; [reflexivity|].
      rewrite Forall_forall in H1, H2. specialize (H1 _ Hy). specialize (H2 _ Hx). lia. }
    subst y. f_equal. apply IH; try assumption. eapply Permutation_cons_inv; exact P.
Qed.

Theorem sortN_perm l l' : Permutation l l' -> sortN l = sortN l'.
Proof.
  intros P. apply nsorted_perm_eq; try apply sortN_sorted.
  unfold sortN. etransitivity; [apply sort_by_perm|]. etransitivity; [exact P|]. symmetry. apply sort_by_perm.
Qed.

Lemma sortN_perm_self l : Permutation (sortN l) l.
Proof. apply sort_by_perm. Qed.

(* ---------- reflection of the boolean helpers ---------- *)
Lemma memN_In x l : memN x l = true <-> In x l.
Proof.
  unfold memN. rewrite existsb_exists. split.
  - intros [y [Hy He]]. apply N.eqb_eq in He. now subst.
  - intros H. exists x. split; [assumption| apply N.eqb_refl].
Qed.

Lemma alookup_In {V} k (m : list (N * V)) v : alookup k m = Some v -> In (k, v) m.
Proof.
  induction m as [|[k' v'] m IH]; cbn [alookup]; [discriminate|].
  destruct (N.eqb_spec k k') as [->|Hne]; intros H.
  - inversion H; subst. now left.
  - right. now apply IH.
Qed.

Lemma alookup_NoDup_In {V} k (m : list (N * V)) v :
  NoDup (map fst m) -> In (k, v) m -> alookup k m = Some v.
Proof.
  induction m as [|[k' v'] m IH]; cbn [alookup map fst]; intros ND HI; [contradiction|].
  inversion ND as [|? ? Hn ND']; subst.
  destruct HI as [HI|HI].
  - inversion HI; subst. now rewrite N.eqb_refl.
  - destruct (N.eqb_spec k k') as [->|Hne].
    + exfalso. apply Hn. change k' with (fst (k', v)). now apply in_map.
    + now apply IH.
Qed.

Lemma Permutation_filter_compat {A} (f : A -> bool) l l' :
  Permutation l l' -> Permutation (filter f l) (filter f l').
Proof.
  induction 1 as [|x l l' P IH|x y l|l l' l'' P1 IH1 P2 IH2]; cbn [filter].
  - constructor.
  - destruct (f x); [now constructor|exact IH].
  - destruct (f x), (f y); try reflexivity. apply perm_swap.
  - etransitivity; eassumption.
Qed.

(* JsonTextP.v — the JSON text layer (Model/JsonText.v): parse after print is the identity on the trees of the
   modelled subset, parse only yields such trees, the fuel [parse] supplies always suffices, and the byte-level
   versions of the structure-level round trip of CodecP.v (C20). *)
Require Import Verif.Model.Base Verif.Proofs.BaseP Verif.Model.Codec Verif.Proofs.CodecP Verif.Model.JsonText.
From Coq Require Import ZifyN ZifyNat ZifyBool.
Ltac Zify.zify_post_hook ::= Z.div_mod_to_equations.

(* evaluate comparisons between numerals *)
Ltac gnd :=
  repeat match goal with
         | |- context [N.eqb ?a ?b] =>
             let v := eval vm_compute in (N.eqb a b) in
             first [constr_eq v true | constr_eq v false]; change (N.eqb a b) with v
         | |- context [N.ltb ?a ?b] =>
             let v := eval vm_compute in (N.ltb a b) in
             first [constr_eq v true | constr_eq v false]; change (N.ltb a b) with v
         | |- context [N.leb ?a ?b] =>
             let v := eval vm_compute in (N.leb a b) in
             first [constr_eq v true | constr_eq v false]; change (N.leb a b) with v
         end;
  cbn [andb orb negb].

Lemma eqb_false a b : a <> b -> N.eqb a b = false.
Proof. intros H. now apply N.eqb_neq. Qed.

(* ====================================================================================================== *)
(* ---------- white space ---------- *)
Lemma skip_ws_length s : (length (skip_ws s) <= length s)%nat.
Proof.
  induction s as [|c s IH]; cbn [skip_ws length]; [lia|].
  destruct (is_ws c); cbn [length]; lia.
Qed.

Lemma skip_ws_cons c r : is_ws c = false -> skip_ws (c :: r) = c :: r.
Proof. intros H. cbn [skip_ws]. now rewrite H. Qed.

(* ====================================================================================================== *)
(* ---------- strings ---------- *)
Lemma hex4_byte c : (c < 256)%N -> hex4 48 48 (hexdigit (c / 16)) (hexdigit (c mod 16)) = Some c.
Proof.
  intros Hc. unfold hex4. change (hexval 48) with (Some 0%N).
  rewrite !hexval_hexdigit by lia. f_equal. lia.
Qed.

Lemma parse_str_esc c r : (c < 128)%N -> parse_str (esc_char c ++ r) = ocons c (parse_str r).
Proof.
  intros Hc. unfold esc_char.
  destruct (N.eqb_spec c 34) as [->|H34]; [cbn [app parse_str]; gnd; reflexivity|].
  destruct (N.eqb_spec c 92) as [->|H92]; [cbn [app parse_str]; gnd; reflexivity|].
  destruct (N.eqb_spec c 8) as [->|H8]; [cbn [app parse_str]; unfold unesc; gnd; reflexivity|].
  destruct (N.eqb_spec c 12) as [->|H12]; [cbn [app parse_str]; unfold unesc; gnd; reflexivity|].
  destruct (N.eqb_spec c 10) as [->|H10]; [cbn [app parse_str]; unfold unesc; gnd; reflexivity|].
  destruct (N.eqb_spec c 13) as [->|H13]; [cbn [app parse_str]; unfold unesc; gnd; reflexivity|].
  destruct (N.eqb_spec c 9) as [->|H9]; [cbn [app parse_str]; unfold unesc; gnd; reflexivity|].
  destruct (N.ltb c 32 || N.eqb c 60 || N.eqb c 62 || N.eqb c 38) eqn:E.
  - cbn [app parse_str]. gnd. rewrite hex4_byte by lia.
    replace (N.ltb c 128) with true by (symmetry; apply N.ltb_lt; exact Hc). reflexivity.
  - apply orb_false_iff in E as [E E38]. apply orb_false_iff in E as [E E62]. apply orb_false_iff in E as [E32 E60].
    cbn [app parse_str]. rewrite (eqb_false _ _ H34), (eqb_false _ _ H92), E32.
    replace (N.ltb c 128) with true by (symmetry; apply N.ltb_lt; exact Hc). reflexivity.
Qed.

Lemma ascii_cons c s : ascii (c :: s) = true -> (c < 128)%N /\ ascii s = true.
Proof. unfold ascii. cbn [forallb]. intros H. apply andb_true_iff in H as [H1 H2]. apply N.ltb_lt in H1. now split. Qed.

Lemma parse_str_flat s r : ascii s = true -> parse_str (flat_map esc_char s ++ quote :: r) = Some (s, r).
Proof.
  induction s as [|c s IH]; intros Ha.
  - cbn [flat_map app parse_str]. unfold quote. gnd. reflexivity.
  - apply ascii_cons in Ha as [Hc Hs]. cbn [flat_map]. rewrite <- app_assoc, parse_str_esc by exact Hc.
    rewrite (IH Hs). reflexivity.
Qed.

Lemma print_str_app s rest : print_str s ++ rest = quote :: (flat_map esc_char s ++ quote :: rest).
Proof. unfold print_str. rewrite <- app_assoc. reflexivity. Qed.

(* whatever parse_str returns is ASCII, and it consumes the closing quote *)
Lemma parse_str_sound : forall n s x r, (length s <= n)%nat -> parse_str s = Some (x, r) ->
  ascii x = true /\ (length r < length s)%nat.
Proof.
  induction n as [|n IH]; intros s x r Hn H.
  - destruct s; [discriminate H| cbn in Hn; lia].
  - destruct s as [|c s]; [discriminate H|]. cbn [parse_str] in H. cbn [length] in Hn.
    destruct (N.eqb c 34).
    + inversion H; subst. split; [reflexivity| cbn [length]; lia].
    + destruct (N.eqb c 92).
      * destruct s as [|e r1]; [discriminate H|].
        destruct (N.eqb e 117).
        -- destruct r1 as [|h1 [|h2 [|h3 [|h4 r2]]]]; try discriminate H.
           destruct (hex4 h1 h2 h3 h4) as [u|]; [|discriminate H].
           destruct (N.ltb u 128) eqn:Eu; [|discriminate H].
           destruct (parse_str r2) as [[x' r']|] eqn:E; [|discriminate H].
           cbn [ocons] in H. inversion H; subst.
           destruct (IH r2 x' r ltac:(cbn [length] in Hn; lia) E) as [Hx Hl].
           split; [unfold ascii in *; cbn [forallb]; now rewrite Eu| cbn [length]; lia].
        -- destruct (unesc e) as [y|] eqn:Ey; [|discriminate H].
           destruct (parse_str r1) as [[x' r']|] eqn:E; [|discriminate H].
           cbn [ocons] in H. inversion H; subst.
           destruct (IH r1 x' r ltac:(cbn [length] in Hn; lia) E) as [Hx Hl].
           split; [|cbn [length]; lia].
           assert (Hy : N.ltb y 128 = true).
           { unfold unesc in Ey.
             repeat match type of Ey with
                    | (if ?b then _ else _) = _ => destruct b; [inversion Ey; reflexivity|]
                    end. discriminate Ey. }
           unfold ascii in *. cbn [forallb]. now rewrite Hy.
      * destruct (N.ltb c 32); [discriminate H|].
        destruct (N.ltb c 128) eqn:Ec; [|discriminate H].
        destruct (parse_str s) as [[x' r']|] eqn:E; [|discriminate H].
        cbn [ocons] in H. inversion H; subst.
        destruct (IH s x' r ltac:(lia) E) as [Hx Hl].
        split; [unfold ascii in *; cbn [forallb]; now rewrite Ec| cbn [length]; lia].
Qed.

(* ====================================================================================================== *)
(* ---------- numbers ---------- *)
Lemma num_final_stop sf c r : num_final sf = true -> num_stop (c :: r) = true -> num_step sf c = None.
Proof.
  cbn [num_stop]. intros Hf Hs. apply negb_true_iff in Hs.
  apply orb_false_iff in Hs as [Hs He]. apply orb_false_iff in Hs as [Hd Hp].
  destruct sf; try discriminate Hf; cbn [num_step]; now rewrite ?Hd, ?Hp, ?He.
Qed.

Lemma num_run_split : forall s st t r sf, num_run st s = (t, r, sf) -> s = t ++ r.
Proof.
  induction s as [|c s IH]; intros st t r sf H; cbn [num_run] in H.
  - inversion H; reflexivity.
  - destruct (num_step st c) as [st'|]; [|inversion H; reflexivity].
    destruct (num_run st' s) as [[t' r'] sf'] eqn:E. inversion H; subst.
    cbn [app]. f_equal. eapply IH; eauto.
Qed.

(* the consumed token, scanned on its own, is consumed entirely and ends in the same state *)
Lemma num_run_prefix : forall s st t r sf, num_run st s = (t, r, sf) -> num_run st t = (t, [], sf).
Proof.
  induction s as [|c s IH]; intros st t r sf H; cbn [num_run] in H.
  - inversion H; reflexivity.
  - destruct (num_step st c) as [st'|] eqn:Es; [|inversion H; reflexivity].
    destruct (num_run st' s) as [[t' r'] sf'] eqn:E. inversion H; subst.
    cbn [num_run]. rewrite Es, (IH _ _ _ _ E). reflexivity.
Qed.

Lemma num_run_app : forall t st sf rest,
  num_run st t = (t, [], sf) ->
  match rest with [] => True | c :: _ => num_step sf c = None end ->
  num_run st (t ++ rest) = (t, rest, sf).
Proof.
  induction t as [|c t IH]; intros st sf rest H Hr.
  - cbn [num_run] in H. inversion H; subst. cbn [app].
    destruct rest as [|c r]; [reflexivity|]. cbn [num_run]. now rewrite Hr.
  - cbn [num_run] in H. destruct (num_step st c) as [st'|] eqn:Es; [|discriminate H].
    destruct (num_run st' t) as [[t' r'] sf'] eqn:E. inversion H; subst.
    cbn [app num_run]. rewrite Es, (IH _ _ rest E Hr). reflexivity.
Qed.

Lemma num_run_nil st s r sf : num_run st s = ([], r, sf) -> sf = st.
Proof.
  destruct s as [|c s]; cbn [num_run]; [intros H; now inversion H|].
  destruct (num_step st c) as [st'|]; [|intros H; now inversion H].
  destruct (num_run st' s) as [[t' r'] sf']. discriminate.
Qed.

Lemma scan_num_sound s t r : scan_num s = Some (t, r) -> wf_num t = true /\ s = t ++ r /\ t <> [].
Proof.
  unfold scan_num. destruct (num_run NBegin s) as [[t' r'] sf] eqn:E.
  destruct (num_final sf) eqn:Ef; [|discriminate]. intros H; inversion H; subst.
  split; [|split].
  - unfold wf_num, scan_num. rewrite (num_run_prefix _ _ _ _ _ E), Ef. reflexivity.
  - eapply num_run_split; eauto.
  - intros ->. apply num_run_nil in E. subst. discriminate Ef.
Qed.

Lemma wf_num_app s rest : wf_num s = true -> num_stop rest = true -> scan_num (s ++ rest) = Some (s, rest).
Proof.
  unfold wf_num, scan_num. destruct (num_run NBegin s) as [[t r] sf] eqn:E.
  destruct (num_final sf) eqn:Ef; [|discriminate]. destruct r; [|discriminate]. intros _ Hs.
  pose proof (num_run_split _ _ _ _ _ E) as Hsp. rewrite app_nil_r in Hsp. subst t.
  rewrite (num_run_app s NBegin sf rest E).
  - now rewrite Ef.
  - destruct rest as [|c r]; [exact I|]. now apply num_final_stop with (r := r).
Qed.

(* a number token starts with a minus sign or a digit *)
Lemma wf_num_head s : wf_num s = true -> exists c r, s = c :: r /\ (c = 45 \/ 48 <= c <= 57)%N.
Proof.
  unfold wf_num, scan_num. destruct s as [|c r].
  - cbn [num_run num_final]. discriminate.
  - intros H. exists c, r. split; [reflexivity|]. cbn [num_run] in H.
    destruct (num_step NBegin c) eqn:Es; [|cbn [num_final] in H; discriminate H].
    cbn [num_step] in Es. destruct (N.eqb_spec c 45); [now left|].
    destruct (N.eqb_spec c 48); [right; lia|].
    unfold is_digit19 in Es. destruct (N.leb_spec 49 c); destruct (N.leb_spec c 57); cbn [andb] in Es;
      try discriminate Es. right; lia.
Qed.

(* ====================================================================================================== *)
(* ---------- names for the local recursions of the model ---------- *)
Definition arr_tail :=
  fix tail (l : list json) : text :=
    match l with
    | [] => [93%N]
    | y :: l' => 44%N :: print y ++ tail l'
    end.
Definition obj_tail :=
  fix tail (l : list (text * json)) : text :=
    match l with
    | [] => [125%N]
    | kv' :: l' => 44%N :: print_str (fst kv') ++ 58%N :: print (snd kv') ++ tail l'
    end.
Definition wf_elems (d : N) :=
  fix go (l : list json) : bool :=
    match l with [] => true | x :: l' => wf_at d x && go l' end.
Definition wf_members (d : N) :=
  fix go (l : list (text * json)) : bool :=
    match l with [] => true | kv :: l' => ascii (fst kv) && wf_at d (snd kv) && go l' end.

Lemma print_arr_cons x l : print (JArr (x :: l)) = 91%N :: print x ++ arr_tail l.
Proof. reflexivity. Qed.
Lemma print_obj_cons kv l :
  print (JObj (kv :: l)) = 123%N :: print_str (fst kv) ++ 58%N :: print (snd kv) ++ obj_tail l.
Proof. reflexivity. Qed.
Lemma wf_at_arr d l : wf_at d (JArr l) = N.ltb d max_depth && wf_elems (d + 1) l.
Proof. reflexivity. Qed.
Lemma wf_at_obj d l : wf_at d (JObj l) = N.ltb d max_depth && wf_members (d + 1) l.
Proof. reflexivity. Qed.

Lemma json_ind' (P : json -> Prop) :
  P JNull -> P JTrue -> P JFalse -> (forall s, P (JNum s)) -> (forall s, P (JStr s)) ->
  (forall l, Forall P l -> P (JArr l)) ->
  (forall l, Forall (fun kv => P (snd kv)) l -> P (JObj l)) ->
  forall j, P j.
Proof.
  intros H1 H2 H3 H4 H5 H6 H7. fix IH 1. intros j. destruct j as [| | |s|s|l|l].
  - exact H1.
  - exact H2.
  - exact H3.
  - apply H4.
  - apply H5.
  - apply H6. induction l as [|x l IHl]; constructor; [apply IH|exact IHl].
  - apply H7. induction l as [|x l IHl]; constructor; [apply IH|exact IHl].
Qed.

(* ====================================================================================================== *)
(* ---------- parse yields trees of the modelled subset and consumes input ---------- *)
Lemma lit_length w : forall s r, lit w s = Some r -> (length r <= length s)%nat.
Proof.
  induction w as [|a w IH]; intros s r H; cbn [lit] in H.
  - inversion H; lia.
  - destruct s as [|c s]; [discriminate H|]. destruct (N.eqb a c); [|discriminate H].
    apply IH in H. cbn [length]. lia.
Qed.

Definition pv_sound (d : N) (pv : text -> option (json * text)) : Prop :=
  forall s j r, pv s = Some (j, r) -> wf_at d j = true /\ (length r < length s)%nat.

Lemma elems_loop_sound d pv : pv_sound d pv ->
  forall n s l r, elems_loop pv n s = Some (l, r) -> wf_elems d l = true /\ (length r < length s)%nat.
Proof.
  intros Hpv. induction n as [|n IH]; intros s l r H; cbn [elems_loop] in H; [discriminate H|].
  destruct (pv s) as [[v r0]|] eqn:Ev; [|discriminate H].
  destruct (Hpv _ _ _ Ev) as [Hv Hl0].
  pose proof (skip_ws_length r0) as Hw.
  destruct (skip_ws r0) as [|c r1] eqn:Es; [discriminate H|]. cbn [length] in Hw.
  destruct (N.eqb c 44).
  - destruct (elems_loop pv n (skip_ws r1)) as [[vs r2]|] eqn:E; [|discriminate H].
    inversion H; subst. destruct (IH _ _ _ E) as [Hvs Hl2].
    pose proof (skip_ws_length r1). split; [cbn [wf_elems]; now rewrite Hv|lia].
  - destruct (N.eqb c 93); [|discriminate H]. inversion H; subst.
    split; [cbn [wf_elems]; now rewrite Hv|lia].
Qed.

Lemma members_loop_sound d pv : pv_sound d pv ->
  forall n s l r, members_loop pv n s = Some (l, r) -> wf_members d l = true /\ (length r < length s)%nat.
Proof.
  intros Hpv. induction n as [|n IH]; intros s l r H; cbn [members_loop] in H; [discriminate H|].
  destruct s as [|q r0]; [discriminate H|].
  destruct (N.eqb q 34); cbn [negb] in H; [|discriminate H].
  destruct (parse_str r0) as [[k r1]|] eqn:Ek; [|discriminate H].
  destruct (parse_str_sound _ _ _ _ (le_n _) Ek) as [Hk Hl1].
  pose proof (skip_ws_length r1) as Hw1.
  destruct (skip_ws r1) as [|c1 r2] eqn:Es1; [discriminate H|]. cbn [length] in Hw1.
  destruct (N.eqb c1 58); cbn [negb] in H; [|discriminate H].
  pose proof (skip_ws_length r2) as Hw2.
  destruct (pv (skip_ws r2)) as [[v r3]|] eqn:Ev; [|discriminate H].
  destruct (Hpv _ _ _ Ev) as [Hv Hl3].
  pose proof (skip_ws_length r3) as Hw3.
  destruct (skip_ws r3) as [|c r4] eqn:Es3; [discriminate H|]. cbn [length] in Hw3.
  destruct (N.eqb c 44).
  - destruct (members_loop pv n (skip_ws r4)) as [[kvs r5]|] eqn:E; [|discriminate H].
    inversion H; subst. destruct (IH _ _ _ E) as [Hkvs Hl5].
    pose proof (skip_ws_length r4).
    split; [cbn [wf_members fst snd]; now rewrite Hk, Hv| cbn [length]; lia].
  - destruct (N.eqb c 125); [|discriminate H]. inversion H; subst.
    split; [cbn [wf_members fst snd]; now rewrite Hk, Hv| cbn [length]; lia].
Qed.

Theorem parse_value_sound : forall fuel d, pv_sound d (parse_value fuel d).
Proof.
  induction fuel as [|f IH]; intros d s j r H; [discriminate H|].
  cbn [parse_value] in H. destruct s as [|c s]; [discriminate H|].
  destruct (N.eqb c 34).
  { destruct (parse_str s) as [[x r']|] eqn:E; [|discriminate H]. inversion H; subst.
    destruct (parse_str_sound _ _ _ _ (le_n _) E) as [Hx Hl]. split; [exact Hx| cbn [length]; lia]. }
  destruct (N.eqb c 91).
  { destruct (N.leb_spec max_depth d) as [Hd|Hd]; [discriminate H|].
    pose proof (skip_ws_length s) as Hw.
    destruct (skip_ws s) as [|c2 r2] eqn:Es; [discriminate H|].
    assert (Hlt : N.ltb d max_depth = true) by (apply N.ltb_lt; exact Hd).
    destruct (N.eqb c2 93).
    - inversion H; subst. split; [rewrite wf_at_arr, Hlt; reflexivity| cbn [length] in *; lia].
    - destruct (elems_loop (parse_value f (d + 1)) f (c2 :: r2)) as [[l r']|] eqn:E; [|discriminate H].
      inversion H; subst. destruct (elems_loop_sound _ _ (IH (d + 1)%N) _ _ _ _ E) as [Hl Hr].
      split; [rewrite wf_at_arr, Hlt; exact Hl| cbn [length] in *; lia]. }
  destruct (N.eqb c 123).
  { destruct (N.leb_spec max_depth d) as [Hd|Hd]; [discriminate H|].
    pose proof (skip_ws_length s) as Hw.
    destruct (skip_ws s) as [|c2 r2] eqn:Es; [discriminate H|].
    assert (Hlt : N.ltb d max_depth = true) by (apply N.ltb_lt; exact Hd).
    destruct (N.eqb c2 125).
    - inversion H; subst. split; [rewrite wf_at_obj, Hlt; reflexivity| cbn [length] in *; lia].
    - destruct (members_loop (parse_value f (d + 1)) f (c2 :: r2)) as [[l r']|] eqn:E; [|discriminate H].
      inversion H; subst. destruct (members_loop_sound _ _ (IH (d + 1)%N) _ _ _ _ E) as [Hl Hr].
      split; [rewrite wf_at_obj, Hlt; exact Hl| cbn [length] in *; lia]. }
  destruct (N.eqb c 116).
  { destruct (lit _ s) as [r'|] eqn:E; [|discriminate H]. inversion H; subst.
    apply lit_length in E. split; [reflexivity| cbn [length]; lia]. }
  destruct (N.eqb c 102).
  { destruct (lit _ s) as [r'|] eqn:E; [|discriminate H]. inversion H; subst.
    apply lit_length in E. split; [reflexivity| cbn [length]; lia]. }
  destruct (N.eqb c 110).
  { destruct (lit _ s) as [r'|] eqn:E; [|discriminate H]. inversion H; subst.
    apply lit_length in E. split; [reflexivity| cbn [length]; lia]. }
  destruct (scan_num (c :: s)) as [[t r']|] eqn:E; [|discriminate H]. inversion H; subst.
  destruct (scan_num_sound _ _ _ E) as [Hw [Hs Hne]].
  split; [exact Hw|]. rewrite Hs, app_length. destruct t; [congruence| cbn [length]; lia].
Qed.

Theorem parse_wf s j : parse s = Some j -> wf_json j = true.
Proof.
  unfold parse. destruct (parse_value (length s) 0 (skip_ws s)) as [[j' r]|] eqn:E; [|discriminate].
  destruct (skip_ws r); [|discriminate]. intros H; inversion H; subst.
  exact (proj1 (parse_value_sound _ _ _ _ _ E)).
Qed.

(* ====================================================================================================== *)
(* ---------- the fuel never decides: any two fuels not below the length of the input agree ---------- *)
Definition pv_consumes (pv : text -> option (json * text)) : Prop :=
  forall s j r, pv s = Some (j, r) -> (length r < length s)%nat.

Lemma pv_consumes_nil pv : pv_consumes pv -> pv [] = None.
Proof.
  intros Hc. destruct (pv []) as [[j r]|] eqn:E; [|reflexivity]. apply Hc in E. cbn in E. lia.
Qed.

Lemma elems_loop_ext pv1 pv2 : pv_consumes pv1 ->
  forall n1 n2 s,
    (forall s', (length s' <= length s)%nat -> pv1 s' = pv2 s') ->
    (length s <= n1)%nat -> (length s <= n2)%nat ->
    elems_loop pv1 n1 s = elems_loop pv2 n2 s.
Proof.
  intros Hc. induction n1 as [|n1 IH]; intros n2 s Hext H1 H2.
  - destruct s; [|cbn in H1; lia]. destruct n2; [reflexivity|]. cbn [elems_loop].
    rewrite <- (Hext [] (le_n _)), (pv_consumes_nil _ Hc). reflexivity.
  - destruct n2 as [|n2].
    + destruct s; [|cbn in H2; lia]. cbn [elems_loop]. now rewrite (pv_consumes_nil _ Hc).
    + cbn [elems_loop]. rewrite <- (Hext s (le_n _)).
      destruct (pv1 s) as [[v r0]|] eqn:Ev; [|reflexivity]. apply Hc in Ev.
      pose proof (skip_ws_length r0) as Hw.
      destruct (skip_ws r0) as [|c r1]; [reflexivity|]. cbn [length] in Hw.
      destruct (N.eqb c 44); [|reflexivity].
      pose proof (skip_ws_length r1) as Hw1.
      rewrite (IH n2 (skip_ws r1)); [reflexivity| | lia | lia].
      intros s' Hs'. apply Hext. lia.
Qed.

Lemma members_loop_ext pv1 pv2 : pv_consumes pv1 ->
  forall n1 n2 s,
    (forall s', (length s' <= length s)%nat -> pv1 s' = pv2 s') ->
    (length s <= n1)%nat -> (length s <= n2)%nat ->
    members_loop pv1 n1 s = members_loop pv2 n2 s.
Proof.
  intros Hc. induction n1 as [|n1 IH]; intros n2 s Hext H1 H2.
  - destruct s; [|cbn in H1; lia]. destruct n2; reflexivity.
  - destruct n2 as [|n2].
    + destruct s; [|cbn in H2; lia]. reflexivity.
    + cbn [members_loop]. destruct s as [|q r0]; [reflexivity|].
      destruct (N.eqb q 34); cbn [negb]; [|reflexivity].
      destruct (parse_str r0) as [[k r1]|] eqn:Ek; [|reflexivity].
      destruct (parse_str_sound _ _ _ _ (le_n _) Ek) as [_ Hl1].
      pose proof (skip_ws_length r1) as Hw1.
      destruct (skip_ws r1) as [|c1 r2]; [reflexivity|]. cbn [length] in Hw1.
      destruct (N.eqb c1 58); cbn [negb]; [|reflexivity].
      pose proof (skip_ws_length r2) as Hw2.
      rewrite <- (Hext (skip_ws r2)) by (cbn [length]; lia).
      destruct (pv1 (skip_ws r2)) as [[v r3]|] eqn:Ev; [|reflexivity]. apply Hc in Ev.
      pose proof (skip_ws_length r3) as Hw3.
      destruct (skip_ws r3) as [|c r4]; [reflexivity|]. cbn [length] in Hw3.
      destruct (N.eqb c 44); [|reflexivity].
      pose proof (skip_ws_length r4) as Hw4. cbn [length] in H1, H2.
      rewrite (IH n2 (skip_ws r4)); [reflexivity| | lia | lia].
      intros s' Hs'. apply Hext. cbn [length]. lia.
Qed.

Lemma parse_value_consumes fuel d : pv_consumes (parse_value fuel d).
Proof. intros s j r H. exact (proj2 (parse_value_sound fuel d s j r H)). Qed.

Theorem parse_value_fuel : forall f1 f2 d s,
  (length s <= f1)%nat -> (length s <= f2)%nat -> parse_value f1 d s = parse_value f2 d s.
Proof.
  induction f1 as [|f1 IH]; intros f2 d s H1 H2.
  - destruct s; [|cbn in H1; lia]. destruct f2; reflexivity.
  - destruct f2 as [|f2].
    + destruct s; [|cbn in H2; lia]. reflexivity.
    + cbn [parse_value]. destruct s as [|c s]; [reflexivity|]. cbn [length] in H1, H2.
      pose proof (skip_ws_length s) as Hw.
      destruct (N.eqb c 34); [reflexivity|].
      destruct (N.eqb c 91).
      { destruct (N.leb max_depth d); [reflexivity|].
        destruct (skip_ws s) as [|c2 r2]; [reflexivity|].
        destruct (N.eqb c2 93); [reflexivity|].
        rewrite (elems_loop_ext _ (parse_value f2 (d + 1)) (parse_value_consumes f1 (d + 1)%N) f1 f2 (c2 :: r2));
          [reflexivity| |lia|lia].
        intros s' Hs'. apply IH; lia. }
      destruct (N.eqb c 123).
      { destruct (N.leb max_depth d); [reflexivity|].
        destruct (skip_ws s) as [|c2 r2]; [reflexivity|].
        destruct (N.eqb c2 125); [reflexivity|].
        rewrite (members_loop_ext _ (parse_value f2 (d + 1)) (parse_value_consumes f1 (d + 1)%N) f1 f2 (c2 :: r2));
          [reflexivity| |lia|lia].
        intros s' Hs'. apply IH; lia. }
      reflexivity.
Qed.

(* [parse] with any larger fuel gives the same answer: running out of fuel is never the reason for a None *)
Theorem parse_fuel_enough s fuel : (length s <= fuel)%nat ->
  parse_value fuel 0 (skip_ws s) = parse_value (length s) 0 (skip_ws s).
Proof.
  intros H. pose proof (skip_ws_length s). apply parse_value_fuel; lia.
Qed.

(* ====================================================================================================== *)
(* ---------- parse after print ---------- *)
(* the first byte of a printed value *)
Lemma print_head j d : wf_at d j = true ->
  exists c r, print j = c :: r /\ is_ws c = false /\ c <> 93%N /\ c <> 125%N.
Proof.
  intros Hw. destruct j as [| | |s|s|l|l].
  - exists 110%N, [117; 108; 108]%N. repeat split; discriminate.
  - exists 116%N, [114; 117; 101]%N. repeat split; discriminate.
  - exists 102%N, [97; 108; 115; 101]%N. repeat split; discriminate.
  - cbn [wf_at] in Hw. destruct (wf_num_head _ Hw) as [c [r [-> Hc]]]. exists c, r. cbn [print].
    split; [reflexivity|]. unfold is_ws.
    destruct (N.eqb_spec c 32); [lia|]. destruct (N.eqb_spec c 9); [lia|].
    destruct (N.eqb_spec c 13); [lia|]. destruct (N.eqb_spec c 10); [lia|].
    repeat split; lia.
  - exists quote, (flat_map esc_char s ++ [quote]). repeat split; discriminate.
  - destruct l as [|x l].
    + exists 91%N, [93%N]. repeat split; discriminate.
    + rewrite print_arr_cons. eexists _, _. repeat split; discriminate.
  - destruct l as [|x l].
    + exists 123%N, [125%N]. repeat split; discriminate.
    + rewrite print_obj_cons. eexists _, _. repeat split; discriminate.
Qed.

Lemma skip_ws_print j d rest : wf_at d j = true -> skip_ws (print j ++ rest) = print j ++ rest.
Proof.
  intros Hw. destruct (print_head j d Hw) as [c [r [E [Hc _]]]]. rewrite E. cbn [app]. now apply skip_ws_cons.
Qed.

(* what may follow a printed value inside a container or at the end *)
Lemma num_stop_arr_tail l rest : num_stop (arr_tail l ++ rest) = true.
Proof. destruct l; reflexivity. Qed.
Lemma num_stop_obj_tail l rest : num_stop (obj_tail l ++ rest) = true.
Proof. destruct l; reflexivity. Qed.

Definition pp_at (j : json) : Prop :=
  forall d fuel rest, wf_at d j = true -> num_stop rest = true ->
    (length (print j ++ rest) <= fuel)%nat ->
    parse_value fuel d (print j ++ rest) = Some (j, rest).

Lemma elems_print f d : forall l x n rest,
  pp_at x -> Forall pp_at l -> wf_at d x = true -> wf_elems d l = true ->
  (length (print x ++ arr_tail l ++ rest) <= n)%nat ->
  (length (print x ++ arr_tail l ++ rest) <= f)%nat ->
  elems_loop (parse_value f d) n (print x ++ arr_tail l ++ rest) = Some (x :: l, rest).
Proof.
  induction l as [|y l IH]; intros x n rest Hx Hl Hwx Hwl Hn Hf.
  - destruct n as [|n]; [destruct (print_head x d Hwx) as [c [r [E _]]]; rewrite E in Hn; cbn in Hn; lia|].
    cbn [elems_loop]. rewrite (Hx d f _ Hwx (num_stop_arr_tail [] rest) Hf).
    cbn [arr_tail app skip_ws]. gnd. reflexivity.
  - destruct n as [|n]; [destruct (print_head x d Hwx) as [c [r [E _]]]; rewrite E in Hn; cbn in Hn; lia|].
    cbn [wf_elems] in Hwl. apply andb_true_iff in Hwl as [Hwy Hwl]. inversion Hl as [|? ? Hy Hl']; subst.
    cbn [elems_loop]. rewrite (Hx d f _ Hwx (num_stop_arr_tail (y :: l) rest) Hf).
    cbn [arr_tail]. fold arr_tail. rewrite <- !app_comm_cons. rewrite <- app_assoc.
    rewrite (skip_ws_cons 44) by reflexivity. gnd.
    rewrite (skip_ws_print y d _ Hwy).
    rewrite app_length in Hn, Hf. cbn [arr_tail] in Hn, Hf. fold arr_tail in Hn, Hf.
    rewrite <- !app_comm_cons, <- app_assoc in Hn, Hf. cbn [length] in Hn, Hf.
    rewrite (IH y n rest Hy Hl' Hwy Hwl); [reflexivity|lia|lia].
Qed.

Lemma members_print f d : forall l k x n rest,
  pp_at x -> Forall (fun kv => pp_at (snd kv)) l ->
  ascii k = true -> wf_at d x = true -> wf_members d l = true ->
  (length (print_str k ++ 58%N :: print x ++ obj_tail l ++ rest) <= n)%nat ->
  (length (print_str k ++ 58%N :: print x ++ obj_tail l ++ rest) <= f)%nat ->
  members_loop (parse_value f d) n (print_str k ++ 58%N :: print x ++ obj_tail l ++ rest)
  = Some ((k, x) :: l, rest).
Proof.
  induction l as [|[k' y] l IH]; intros k x n rest Hx Hl Hk Hwx Hwl Hn Hf.
  - rewrite print_str_app in *. destruct n as [|n]; [cbn in Hn; lia|].
    cbn [members_loop]. unfold quote at 1. gnd. rewrite (parse_str_flat k _ Hk).
    rewrite (skip_ws_cons 58) by reflexivity. gnd.
    rewrite (skip_ws_print x d _ Hwx).
    cbn [length] in Hf. rewrite app_length in Hf. cbn [length] in Hf.
    rewrite (Hx d f _ Hwx (num_stop_obj_tail [] rest)) by lia.
    cbn [obj_tail app skip_ws]. gnd. reflexivity.
  - rewrite print_str_app in *. destruct n as [|n]; [cbn in Hn; lia|].
    cbn [wf_members fst snd] in Hwl. apply andb_true_iff in Hwl as [Hwy Hwl]. apply andb_true_iff in Hwy as [Hk' Hwy].
    inversion Hl as [|? ? Hy Hl']; subst. cbn [snd] in Hy.
    cbn [members_loop]. unfold quote at 1. gnd. rewrite (parse_str_flat k _ Hk).
    rewrite (skip_ws_cons 58) by reflexivity. gnd.
    rewrite (skip_ws_print x d _ Hwx).
    cbn [length] in Hf, Hn. rewrite app_length in Hf, Hn. cbn [length] in Hf, Hn.
    rewrite (Hx d f _ Hwx (num_stop_obj_tail ((k', y) :: l) rest)) by lia.
    cbn [obj_tail fst snd]. fold obj_tail. rewrite <- !app_comm_cons.
    rewrite (skip_ws_cons 44) by reflexivity. gnd.
    replace ((print_str k' ++ 58%N :: print y ++ obj_tail l) ++ rest)
      with (print_str k' ++ 58%N :: print y ++ obj_tail l ++ rest)
      by (rewrite <- app_assoc, <- app_comm_cons, <- app_assoc; reflexivity).
    rewrite app_length in Hf, Hn. cbn [obj_tail fst snd] in Hf, Hn. fold obj_tail in Hf, Hn.
    rewrite <- !app_comm_cons in Hf, Hn. cbn [length] in Hf, Hn.
    replace ((print_str k' ++ 58%N :: print y ++ obj_tail l) ++ rest)
      with (print_str k' ++ 58%N :: print y ++ obj_tail l ++ rest) in Hf, Hn
      by (rewrite <- app_assoc, <- app_comm_cons, <- app_assoc; reflexivity).
    assert (Hsk : skip_ws (print_str k' ++ 58%N :: print y ++ obj_tail l ++ rest)
                  = print_str k' ++ 58%N :: print y ++ obj_tail l ++ rest).
    { rewrite print_str_app. now apply skip_ws_cons. }
    rewrite Hsk.
    rewrite (IH k' y n rest Hy Hl' Hk' Hwy Hwl); [reflexivity|lia|lia].
Qed.

Theorem parse_value_print : forall j, pp_at j.
Proof.
  induction j as [| | |s|s|l IHl|l IHl] using json_ind'; intros d fuel rest Hw Hs Hf.
  - destruct fuel as [|f]; [cbn in Hf; lia|]. cbn [print null_tok app parse_value lit]. gnd. reflexivity.
  - destruct fuel as [|f]; [cbn in Hf; lia|]. cbn [print true_tok app parse_value lit]. gnd. reflexivity.
  - destruct fuel as [|f]; [cbn in Hf; lia|]. cbn [print false_tok app parse_value lit]. gnd. reflexivity.
  - cbn [wf_at] in Hw. destruct (wf_num_head _ Hw) as [c [r [E Hc]]].
    cbn [print] in *. destruct fuel as [|f]; [rewrite E in Hf; cbn in Hf; lia|].
    pose proof (wf_num_app s rest Hw Hs) as Hsc. rewrite E in *. cbn [app] in *. cbn [parse_value].
    rewrite !eqb_false by lia. now rewrite Hsc.
  - cbn [wf_at] in Hw. cbn [print] in *. rewrite print_str_app in *.
    destruct fuel as [|f]; [cbn in Hf; lia|]. cbn [parse_value]. unfold quote at 1. gnd.
    now rewrite (parse_str_flat s rest Hw).
  - rewrite wf_at_arr in Hw. apply andb_true_iff in Hw as [Hd Hwl].
    assert (Hd' : N.leb max_depth d = false) by (apply N.leb_gt; apply N.ltb_lt; exact Hd).
    destruct l as [|x l].
    + destruct fuel as [|f]; [cbn in Hf; lia|]. cbn [print app parse_value skip_ws]. gnd. rewrite Hd'. gnd. reflexivity.
    + rewrite print_arr_cons in *. rewrite <- app_comm_cons, <- app_assoc in *.
      destruct fuel as [|f]; [cbn in Hf; lia|]. cbn [length] in Hf.
      cbn [wf_elems] in Hwl. apply andb_true_iff in Hwl as [Hwx Hwl]. inversion IHl as [|? ? Hx Hl']; subst.
      cbn [parse_value]. gnd. rewrite Hd'.
      rewrite (skip_ws_print x _ _ Hwx).
      destruct (print_head x _ Hwx) as [c [r [E [_ [Hc _]]]]].
      pose proof (elems_print f (d + 1)%N l x f rest Hx Hl' Hwx Hwl ltac:(lia) ltac:(lia)) as He.
      rewrite E in *. cbn [app] in *. rewrite (eqb_false _ _ Hc). now rewrite He.
  - rewrite wf_at_obj in Hw. apply andb_true_iff in Hw as [Hd Hwl].
    assert (Hd' : N.leb max_depth d = false) by (apply N.leb_gt; apply N.ltb_lt; exact Hd).
    destruct l as [|[k x] l].
    + destruct fuel as [|f]; [cbn in Hf; lia|]. cbn [print app parse_value skip_ws]. gnd. rewrite Hd'. gnd. reflexivity.
    + rewrite print_obj_cons in *. cbn [fst snd] in *.
      replace ((123%N :: print_str k ++ 58%N :: print x ++ obj_tail l) ++ rest)
        with (123%N :: (print_str k ++ 58%N :: print x ++ obj_tail l ++ rest)) in *
        by (rewrite <- !app_comm_cons, <- app_assoc, <- app_comm_cons, <- app_assoc; reflexivity).
      destruct fuel as [|f]; [cbn in Hf; lia|]. cbn [length] in Hf.
      cbn [wf_members fst snd] in Hwl. apply andb_true_iff in Hwl as [Hwx Hwl]. apply andb_true_iff in Hwx as [Hk Hwx].
      inversion IHl as [|? ? Hx Hl']; subst. cbn [snd] in Hx.
      cbn [parse_value]. gnd. rewrite Hd'.
      pose proof (members_print f (d + 1)%N l k x f rest Hx Hl' Hk Hwx Hwl ltac:(lia) ltac:(lia)) as He.
      rewrite print_str_app in *. rewrite (skip_ws_cons quote) by reflexivity.
      rewrite He. change (N.eqb quote 125) with false. reflexivity.
Qed.

(* (a) every tree of the modelled subset is recovered from its bytes *)
Theorem parse_print j : wf_json j = true -> parse (print j) = Some j.
Proof.
  intros Hw. unfold parse. rewrite <- (app_nil_r (print j)) at 2.
  rewrite (skip_ws_print j 0 [] Hw).
  rewrite (parse_value_print j 0%N (length (print j)) [] Hw eq_refl); [reflexivity|].
  rewrite app_nil_r. lia.
Qed.

(* (b) decode-then-encode is idempotent on every accepted byte string *)
Theorem print_parse_idem s j : parse s = Some j -> parse (print j) = Some j.
Proof. intros H. apply parse_print. eapply parse_wf; eauto. Qed.

(* the printed form is canonical: trees with the same bytes are the same tree *)
Theorem print_inj j j' : wf_json j = true -> wf_json j' = true -> print j = print j' -> j = j'.
Proof.
  intros H H' E. apply parse_print in H, H'. rewrite E in H. congruence.
Qed.

(* parse ignores white space around the value *)
Theorem parse_ws_around j pre post :
  wf_json j = true -> forallb is_ws pre = true -> forallb is_ws post = true ->
  parse (pre ++ print j ++ post) = Some j.
Proof.
  intros Hw Hpre Hpost. unfold parse.
  assert (Hskip : forall a b, forallb is_ws a = true -> skip_ws (a ++ b) = skip_ws b).
  { induction a as [|c a IH]; intros b Ha; [reflexivity|]. cbn [forallb] in Ha. apply andb_true_iff in Ha as [Hc Ha].
    cbn [app skip_ws]. rewrite Hc. now apply IH. }
  rewrite Hskip by exact Hpre. rewrite (skip_ws_print j 0 post Hw).
  assert (Hstop : num_stop post = true).
  { destruct post as [|c post]; [reflexivity|]. cbn [forallb] in Hpost. apply andb_true_iff in Hpost as [Hc _].
    cbn [num_stop]. unfold is_ws in Hc. unfold is_digit, is_e.
    destruct (N.eqb_spec c 32) as [->|]; [reflexivity|]. destruct (N.eqb_spec c 9) as [->|]; [reflexivity|].
    destruct (N.eqb_spec c 13) as [->|]; [reflexivity|]. destruct (N.eqb_spec c 10) as [->|]; [reflexivity|].
    discriminate Hc. }
  rewrite (parse_value_print j 0%N _ post Hw Hstop) by (rewrite !app_length; lia).
  rewrite <- (app_nil_r post), Hskip by exact Hpost. reflexivity.
Qed.

(* ====================================================================================================== *)
(* ---------- the tokens Codec.enc produces lie in the modelled subset ---------- *)
Definition all_digits (l : text) : Prop := Forall (fun x => is_digit x = true) l.
(* decimal without leading zeros: "0", or a non-zero digit followed by digits *)
Definition lead_ok (l : text) : Prop :=
  match l with
  | [] => False
  | c :: r => is_digit c = true /\ (c = 48%N -> r = []) /\ all_digits r
  end.

Lemma is_digit_add n : (n < 10)%N -> is_digit (48 + n) = true.
Proof. intros H. unfold is_digit. apply andb_true_iff; split; apply N.leb_le; lia. Qed.

Lemma digits_fuel_lead : forall fuel n acc,
  (n < 2 ^ N.of_nat fuel)%N -> all_digits acc -> (n = 0%N -> acc = [] /\ fuel <> O) ->
  lead_ok (digits_fuel fuel n acc).
Proof.
  induction fuel as [|f IH]; intros n acc Hn Ha H0.
  - change (2 ^ N.of_nat 0)%N with 1%N in Hn. assert (n = 0%N) by lia. destruct (H0 H) as [_ C]. congruence.
  - cbn [digits_fuel]. destruct (N.ltb_spec n 10) as [H|H].
    + cbn [lead_ok]. split; [now apply is_digit_add|]. split; [|exact Ha].
      intros E. assert (n = 0%N) by lia. now destruct (H0 H1).
    + apply IH.
      * rewrite Nnat.Nat2N.inj_succ, N.pow_succ_r' in Hn. lia.
      * constructor; [apply is_digit_add; lia|exact Ha].
      * intros E. lia.
Qed.

Lemma dec_enc_lead n : lead_ok (dec_enc n).
Proof.
  unfold dec_enc. apply digits_fuel_lead; [apply log2_fuel|constructor|].
  intros _. split; [reflexivity|discriminate].
Qed.

Lemma digits_run r : all_digits r -> num_run N1 r = (r, [], N1).
Proof.
  induction 1 as [|c r Hc _ IH]; [reflexivity|]. cbn [num_run num_step]. now rewrite Hc, IH.
Qed.

Lemma lead_run st l : st = NBegin \/ st = NNeg -> lead_ok l ->
  exists sf, num_run st l = (l, [], sf) /\ num_final sf = true.
Proof.
  intros Hst Hl. destruct l as [|c r]; [contradiction|]. destruct Hl as [Hd [H0 Hr]].
  destruct (N.eqb_spec c 48) as [->|Hc].
  - rewrite (H0 eq_refl). exists N0. destruct Hst as [->| ->]; split; reflexivity.
  - exists N1. split; [|reflexivity].
    assert (H19 : is_digit19 c = true).
    { unfold is_digit in Hd. unfold is_digit19. apply andb_true_iff in Hd as [H1 H2].
      apply N.leb_le in H1. apply andb_true_iff; split; [apply N.leb_le; lia|exact H2]. }
    assert (H45 : N.eqb c 45 = false).
    { apply eqb_false. intros ->. discriminate Hd. }
    destruct Hst as [->| ->]; cbn [num_run num_step];
      rewrite ?H45, (eqb_false _ _ Hc), H19, (digits_run r Hr); reflexivity.
Qed.

Lemma wf_num_dec_enc n : wf_num (dec_enc n) = true.
Proof.
  destruct (lead_run NBegin _ (or_introl eq_refl) (dec_enc_lead n)) as [sf [E Hf]].
  unfold wf_num, scan_num. now rewrite E, Hf.
Qed.

Lemma wf_num_int_enc z : wf_num (int_enc z) = true.
Proof.
  unfold int_enc. destruct (Z.ltb z 0); cbn [app]; [|apply wf_num_dec_enc].
  destruct (lead_run NNeg _ (or_intror eq_refl) (dec_enc_lead (Z.abs_N z))) as [sf [E Hf]].
  unfold wf_num, scan_num. cbn [num_run num_step]. change (N.eqb 45 45) with true. cbn iota.
  now rewrite E, Hf.
Qed.

Lemma digits_ascii l : all_digits l -> ascii l = true.
Proof.
  induction 1 as [|c r Hc _ IH]; [reflexivity|]. unfold ascii in *. cbn [forallb]. rewrite IH, andb_true_r.
  unfold is_digit in Hc. apply andb_true_iff in Hc as [_ H2]. apply N.leb_le in H2. apply N.ltb_lt. lia.
Qed.

Lemma ascii_app a b : ascii (a ++ b) = ascii a && ascii b.
Proof. unfold ascii. apply forallb_app. Qed.

Lemma ascii_dec_enc n : ascii (dec_enc n) = true.
Proof.
  pose proof (dec_enc_lead n) as H. destruct (dec_enc n) as [|c r]; [contradiction|].
  destruct H as [Hc [_ Hr]]. apply digits_ascii. now constructor.
Qed.

Lemma ascii_int_enc z : ascii (int_enc z) = true.
Proof.
  unfold int_enc. rewrite ascii_app, ascii_dec_enc. now destruct (Z.ltb z 0).
Qed.

Lemma ascii_hex_enc bs : byte_list bs = true -> ascii (hex_enc bs) = true.
Proof.
  induction bs as [|b bs IH]; intros H; [reflexivity|]. unfold byte_list in H. cbn [forallb] in H.
  apply andb_true_iff in H as [Hb Hbs]. apply N.ltb_lt in Hb. cbn [hex_enc]. unfold ascii in *. cbn [forallb].
  rewrite (IH Hbs), andb_true_r.
  assert (Hd : forall d, (d < 16)%N -> N.ltb (hexdigit d) 128 = true).
  { intros d Hd. unfold hexdigit. destruct (N.ltb d 10); apply N.ltb_lt; lia. }
  rewrite !Hd by lia. reflexivity.
Qed.

Lemma wf_at_scalar d j : is_container j = false -> wf_at d j = wf_at 0 j.
Proof. destruct j; intros H; try reflexivity; discriminate H. Qed.

Definition txt_fields :=
  fix go (fs : list (text * ty)) (vs : list val) : bool :=
    match fs, vs with
    | f :: fs', x :: vs' => ascii (fst f) && txt_ok (snd f) x && go fs' vs'
    | _, _ => true
    end.
Definition fields_depth :=
  fix go (fs : list (text * ty)) : N :=
    match fs with [] => 0%N | f :: fs' => N.max (ty_depth (snd f)) (go fs') end.
Lemma txt_struct fs vs : txt_ok (TStruct fs) (VRec vs) = txt_fields fs vs.
Proof. reflexivity. Qed.
Lemma depth_struct fs : ty_depth (TStruct fs) = (1 + fields_depth fs)%N.
Proof. reflexivity. Qed.

Definition enc_in_subset (t : ty) : Prop :=
  forall v d, wt t v = true -> txt_ok t v = true -> (d + ty_depth t <= max_depth)%N -> wf_at d (enc t v) = true.

Lemma enc_elems_wf e d l : enc_in_subset e -> (d + ty_depth e <= max_depth)%N ->
  forallb (wt e) l = true -> forallb (txt_ok e) l = true -> wf_elems d (map (enc e) l) = true.
Proof.
  intros IH Hd. induction l as [|x l IHl]; intros Hw Ht; [reflexivity|].
  cbn [forallb] in Hw, Ht. apply andb_true_iff in Hw as [Hwx Hw]. apply andb_true_iff in Ht as [Htx Ht].
  cbn [map wf_elems]. now rewrite (IH x d Hwx Htx Hd), (IHl Hw Ht).
Qed.

Lemma enc_fields_wf d : forall fs vs,
  Forall enc_in_subset (map snd fs) -> (d + fields_depth fs <= max_depth)%N ->
  wt_fields fs vs = true -> txt_fields fs vs = true -> wf_members d (enc_fields fs vs) = true.
Proof.
  induction fs as [|f fs IH]; intros vs HF Hd Hw Ht.
  - destruct vs; reflexivity.
  - destruct vs as [|x vs]; [discriminate Hw|].
    cbn [wt_fields] in Hw. fold wt_fields in Hw. apply andb_true_iff in Hw as [Hwx Hw].
    cbn [txt_fields] in Ht. fold txt_fields in Ht. apply andb_true_iff in Ht as [Htx Ht].
    apply andb_true_iff in Htx as [Hk Htx].
    cbn [fields_depth] in Hd. fold fields_depth in Hd.
    cbn [map] in HF. inversion HF as [|? ? Hf HF']; subst.
    cbn [enc_fields wf_members fst snd]. fold enc_fields.
    rewrite Hk, (Hf x d Hwx Htx ltac:(lia)), (IH vs HF' ltac:(lia) Hw Ht). reflexivity.
Qed.

Theorem enc_wf : forall t, enc_in_subset t.
Proof.
  induction t as [t IHc] using ty_ind'. intros v d Hwt Htx Hd.
  destruct t as [m|m| | | | | | | |z|e|n e|km e|e|fs]; cbn [ty_children] in IHc.
  - destruct v; try discriminate Hwt. cbn [enc wf_at]. apply wf_num_dec_enc.
  - destruct v; try discriminate Hwt. cbn [enc wf_at]. apply ascii_dec_enc.
  - destruct v; try discriminate Hwt. cbn [enc wf_at]. apply wf_num_int_enc.
  - destruct v as [| |b| | | | | | | | | |]; try discriminate Hwt. destruct b; reflexivity.
  - destruct v; try discriminate Hwt. exact Htx.
  - destruct v; try discriminate Hwt. cbn [wt] in Hwt. cbn [enc wf_at]. unfold bytes_string.
    rewrite ascii_app, (ascii_hex_enc _ Hwt). reflexivity.
  - destruct v; try discriminate Hwt. cbn [wt] in Hwt. apply andb_true_iff in Hwt as [_ Hb].
    cbn [enc wf_at]. unfold bytes32_string. rewrite ascii_app, (ascii_hex_enc _ Hb). reflexivity.
  - destruct v as [| | | | | |z| | | | | |]; try discriminate Hwt. destruct z as [z|]; [|reflexivity].
    cbn [enc wf_at]. apply ascii_int_enc.
  - destruct v as [| | | | | |z| | | | | |]; try discriminate Hwt. destruct z as [z|]; [|reflexivity].
    cbn [enc wf_at]. apply wf_num_int_enc.
  - destruct v as [| | | | | | |j| | | | |]; try discriminate Hwt. cbn [wt] in Hwt. cbn [txt_ok] in Htx. cbn [enc].
    rewrite wf_at_scalar; [exact Htx|]. destruct j; try reflexivity; discriminate Hwt.
  - inversion IHc as [|? ? IHe _]; subst. cbn [ty_depth] in Hd.
    destruct v as [| | | | | | | |l| | | |]; try discriminate Hwt. destruct l as [l|]; [|reflexivity].
    cbn [wt] in Hwt. cbn [txt_ok] in Htx. cbn [enc]. rewrite wf_at_arr.
    replace (N.ltb d max_depth) with true by (symmetry; apply N.ltb_lt; lia).
    apply (enc_elems_wf e (d + 1)%N l IHe); [lia|exact Hwt|exact Htx].
  - inversion IHc as [|? ? IHe _]; subst. cbn [ty_depth] in Hd.
    destruct v as [| | | | | | | | |l| | |]; try discriminate Hwt.
    cbn [wt] in Hwt. apply andb_true_iff in Hwt as [_ Hwt]. cbn [txt_ok] in Htx. cbn [enc]. rewrite wf_at_arr.
    replace (N.ltb d max_depth) with true by (symmetry; apply N.ltb_lt; lia).
    apply (enc_elems_wf e (d + 1)%N l IHe); [lia|exact Hwt|exact Htx].
  - inversion IHc as [|? ? IHe _]; subst. cbn [ty_depth] in Hd.
    destruct v as [| | | | | | | | | |mm| |]; try discriminate Hwt. destruct mm as [mm|]; [|reflexivity].
    cbn [wt] in Hwt. apply andb_true_iff in Hwt as [_ Hwt]. cbn [txt_ok] in Htx. cbn [enc]. rewrite wf_at_obj.
    replace (N.ltb d max_depth) with true by (symmetry; apply N.ltb_lt; lia). cbn [andb].
    induction mm as [|[k x] mm IHm]; [reflexivity|].
    cbn [forallb fst snd] in Hwt, Htx. apply andb_true_iff in Hwt as [Hkx Hwt]. apply andb_true_iff in Htx as [Hkt Htx].
    apply andb_true_iff in Hkx as [Hk Hwx]. apply andb_true_iff in Hkt as [Hka Htxx].
    cbn [map wf_members fst snd]. rewrite (IHe x (d + 1)%N Hwx Htxx ltac:(lia)), (IHm Hwt Htx), !andb_true_r.
    destruct km as [maxv|]; [|exact Hka].
    destruct (uint_parse maxv k) as [kk|]; [|discriminate Hk]. apply text_eqb_eq in Hk. rewrite <- Hk.
    apply ascii_dec_enc.
  - inversion IHc as [|? ? IHe _]; subst. cbn [ty_depth] in Hd.
    destruct v as [| | | | | | | | | | |p|]; try discriminate Hwt. destruct p as [x|]; [|reflexivity].
    cbn [wt] in Hwt. apply andb_true_iff in Hwt as [Hw _]. cbn [txt_ok] in Htx. cbn [enc].
    apply IHe; assumption.
  - destruct v as [| | | | | | | | | | | |vs]; try discriminate Hwt.
    rewrite wt_struct in Hwt. rewrite txt_struct in Htx. rewrite depth_struct in Hd.
    rewrite enc_struct, wf_at_obj.
    replace (N.ltb d max_depth) with true by (symmetry; apply N.ltb_lt; lia).
    apply enc_fields_wf; [exact IHc|lia|exact Hwt|exact Htx].
Qed.

Theorem enc_wf_json t v :
  wt t v = true -> txt_ok t v = true -> (ty_depth t <= max_depth)%N -> wf_json (enc t v) = true.
Proof. intros Hw Ht Hd. apply enc_wf; [exact Hw|exact Ht|lia]. Qed.

(* ====================================================================================================== *)
(* ---------- (c) byte-level round trip of every Go type built from the modelled kinds ---------- *)
Theorem text_roundtrip t v :
  wf_ty t = true -> wt t v = true -> wf_json (enc t v) = true ->
  decode_text t (encode_text t v) = Some (norm t v).
Proof.
  intros Hwf Hwt Hj. unfold decode_text, encode_text. rewrite (parse_print _ Hj). cbn [obind].
  now apply struct_roundtrip_all.
Qed.

(* the same with the side condition on the tree replaced by conditions on the value *)
Theorem text_roundtrip_val t v :
  wf_ty t = true -> wt t v = true -> txt_ok t v = true -> (ty_depth t <= max_depth)%N ->
  decode_text t (encode_text t v) = Some (norm t v).
Proof. intros Hwf Hwt Ht Hd. apply text_roundtrip; [exact Hwf|exact Hwt|now apply enc_wf_json]. Qed.

(* the decoded value re-encodes to the same bytes, and decoding those gives the same value again *)
Theorem text_reencode t v :
  wf_ty t = true -> wt t v = true -> wf_json (enc t v) = true ->
  exists v', decode_text t (encode_text t v) = Some v' /\ encode_text t v' = encode_text t v /\
             decode_text t (encode_text t v') = Some v'.
Proof.
  intros Hwf Hwt Hj. exists (norm t v). pose proof (text_roundtrip t v Hwf Hwt Hj) as R.
  split; [exact R|]. unfold encode_text in *. rewrite enc_norm. split; [reflexivity|exact R].
Qed.

(* accepted foreign bytes: encode (decode s) is a fixed point of decode-then-encode *)
Theorem text_idempotent t s v :
  wf_ty t = true -> decode_text t s = Some v -> wt t v = true -> wf_json (enc t v) = true ->
  exists v', decode_text t (encode_text t v) = Some v' /\ encode_text t v' = encode_text t v.
Proof.
  intros Hwf _ Hwt Hj. destruct (text_reencode t v Hwf Hwt Hj) as [v' [H1 [H2 _]]]. now exists v'.
Qed.

(* equal bytes, equal trees: two values of one type with the same encoding decode to the same value *)
Theorem text_canonical t v w :
  wf_json (enc t v) = true -> wf_json (enc t w) = true -> encode_text t v = encode_text t w -> enc t v = enc t w.
Proof. intros Hv Hw E. now apply print_inj. Qed.

(* ---------- concrete instances ---------- *)
(* an outcome-shaped tree: nested members, an empty object / array / string, every kind of escape, 0 -0 max 1e3 1.5 *)
Definition ex_tree : json :=
  JObj [ ([111; 117; 116]%N,                                   (* "out" *)
          JArr [ JObj [ ([107; 34; 92]%N, JStr [9; 10; 13; 8; 12; 0; 31; 127; 60; 62; 38; 47; 34; 92]%N);
                        ([]%list, JNull) ];
                 JArr []; JObj []; JStr []; JTrue; JFalse ]);
         ([110]%N, JArr [ JNum [48]%N; JNum [45; 48]%N; JNum (dec_enc max64); JNum [49; 101; 51]%N;
                          JNum [49; 46; 53]%N ]);
         ([111; 117; 116]%N, JNull) ].                         (* a repeated member name is kept *)
Definition ex_tree_bytes : text :=
  [123; 34; 111; 117; 116; 34; 58; 91; 123; 34; 107; 92; 34; 92; 92; 34; 58; 34; 92; 116; 92; 110; 92; 114; 92;
   98; 92; 102; 92; 117; 48; 48; 48; 48; 92; 117; 48; 48; 49; 102; 127; 92; 117; 48; 48; 51; 99; 92; 117; 48;
   48; 51; 101; 92; 117; 48; 48; 50; 54; 47; 92; 34; 92; 92; 34; 44; 34; 34; 58; 110; 117; 108; 108; 125; 44;
   91; 93; 44; 123; 125; 44; 34; 34; 44; 116; 114; 117; 101; 44; 102; 97; 108; 115; 101; 93; 44; 34; 110; 34;
   58; 91; 48; 44; 45; 48; 44; 49; 56; 52; 52; 54; 55; 52; 52; 48; 55; 51; 55; 48; 57; 53; 53; 49; 54; 49; 53;
   44; 49; 101; 51; 44; 49; 46; 53; 93; 44; 34; 111; 117; 116; 34; 58; 110; 117; 108; 108; 125]%N.
(* {"out":[{"k\"\\":"\t\n\r\b\f\u0000\u001f<DEL>\u003c\u003e\u0026/\"\\","":null},[],{},"",true,false],
    "n":[0,-0,18446744073709551615,1e3,1.5],"out":null} *)
Example parse_print_example :
  wf_json ex_tree = true /\ print ex_tree = ex_tree_bytes /\ parse ex_tree_bytes = Some ex_tree.
Proof. vm_compute. repeat split; reflexivity. Qed.

(* foreign spellings of the same tree: white space everywhere, \/ and \u0041 escapes, upper-case hex *)
Example parse_foreign_example :
  parse [32; 91; 9; 34; 92; 47; 92; 117; 48; 48; 52; 49; 92; 117; 48; 48; 55; 70; 92; 117; 48; 48; 55; 102; 34; 10;
         44; 13; 123; 32; 34; 97; 34; 32; 58; 32; 49; 32; 44; 34; 97; 34; 58; 50; 125; 32; 93; 10]%N
  = Some (JArr [JStr [47; 65; 127; 127]%N; JObj [([97]%N, JNum [49]%N); ([97]%N, JNum [50]%N)]]) /\
  (* rejected: trailing comma, leading zero, lone minus, bad escape, raw control character, trailing garbage,
     truncated input, single quotes, upper-case literal, + sign, .5, 1. *)
  map parse [ [91; 49; 44; 93]; [48; 49]; [45]; [34; 92; 120; 34]; [34; 10; 34]; [49; 32; 50]; [91; 49];
              [39; 97; 39]; [84; 114; 117; 101]; [43; 49]; [46; 53]; [49; 46]; [] ]%N
  = repeat None 13.
Proof. vm_compute. split; reflexivity. Qed.

Example text_roundtrip_example :
  wf_ty ex_ty = true /\ wt ex_ty ex_val = true /\ txt_ok ex_ty ex_val = true /\
  wf_json (enc ex_ty ex_val) = true /\ (ty_depth ex_ty <= max_depth)%N /\
  decode_text ex_ty (encode_text ex_ty ex_val) = Some (norm ex_ty ex_val) /\
  encode_text ex_ty (norm ex_ty ex_val) = encode_text ex_ty ex_val /\
  (length (encode_text ex_ty ex_val) > 200)%nat.
Proof. vm_compute. repeat split; try reflexivity; try discriminate. lia. Qed.

(* CodecDecP.v — what the model decoder [Codec.dec] yields for ANY accepted tree (C20): a well-typed value whose
   texts lie in the modelled subset, so that the wire theorems (C20_wire_roundtrip, C20_wire_idempotent) apply to every
   accepted byte string and not only to re-encodings.
   Side conditions are facts of the Go type descriptor alone ([ty_ok]: the zero token of an opaque leaf is a scalar
   token of the subset, member names are ASCII; nesting below the scanner's limit). *)
Require Import Verif.Model.Base Verif.Proofs.BaseP Verif.Model.Codec Verif.Proofs.CodecP.
Require Import Verif.Model.JsonText Verif.Proofs.JsonTextP.
From Coq Require Import ZifyN ZifyNat ZifyBool.

(* ---------- descriptors ---------- *)
Fixpoint ty_ok (t : ty) : bool :=
  match t with
  | TOpaque z => scalar_token z z && wf_at 0 z
  | TSlice e | TArray _ e | TMap _ e | TPtr e => ty_ok e
  | TStruct fs =>
      (fix go (fs : list (text * ty)) : bool :=
         match fs with [] => true | f :: fs' => ascii (fst f) && ty_ok (snd f) && go fs' end) fs
  | _ => true
  end.
Definition ok_fields :=
  fix go (fs : list (text * ty)) : bool :=
    match fs with [] => true | f :: fs' => ascii (fst f) && ty_ok (snd f) && go fs' end.
Lemma ty_ok_struct fs : ty_ok (TStruct fs) = ok_fields fs.
Proof. reflexivity. Qed.

(* ---------- small facts ---------- *)
Lemma cd_forallb_repeat {A} (p : A -> bool) x n : p x = true -> forallb p (repeat x n) = true.
Proof. intros H. induction n as [|n IH]; cbn [repeat forallb]; [reflexivity|]. now rewrite H, IH. Qed.
Lemma cd_Forall_forallb {A} (p : A -> bool) l : Forall (fun x => p x = true) l -> forallb p l = true.
Proof. intros H. apply forallb_forall. now apply Forall_forall. Qed.
Lemma cd_forallb_Forall {A} (p : A -> bool) l : forallb p l = true -> Forall (fun x => p x = true) l.
Proof. intros H. apply Forall_forall. now apply forallb_forall. Qed.
Lemma cd_bytes_ok_list l : bytes_ok l -> byte_list l = true.
Proof.
  unfold byte_list, bytes_ok. intros H. apply forallb_forall. intros x Hx. apply N.ltb_lt.
  rewrite Forall_forall in H. now apply H.
Qed.
Lemma cd_uint_parse_le maxv s n : uint_parse maxv s = Some n -> (n <= maxv)%N.
Proof.
  unfold uint_parse. destruct (parse_digits s) as [k|]; [|discriminate].
  destruct (N.leb_spec k maxv); [intros H0; inversion H0; now subst|discriminate].
Qed.
Lemma cd_int_parse_range s z : int_parse s = Some z -> Z.leb min_int64 z && Z.leb z max_int64 = true.
Proof.
  unfold int_parse. destruct (signed_parse true s) as [z'|]; [|discriminate].
  destruct (Z.leb min_int64 z' && Z.leb z' max_int64) eqn:E; [|discriminate]. intros H; inversion H; now subst.
Qed.
Lemma wf_elems_in d l x : wf_elems d l = true -> In x l -> wf_at d x = true.
Proof.
  induction l as [|y l IH]; intros H Hx; [contradiction|]. cbn [wf_elems] in H. fold (wf_elems d) in H.
  apply andb_true_iff in H as [Hy Hl]. destruct Hx as [->|Hx]; [exact Hy|now apply IH].
Qed.
Lemma wf_members_in d l kv : wf_members d l = true -> In kv l -> ascii (fst kv) = true /\ wf_at d (snd kv) = true.
Proof.
  induction l as [|y l IH]; intros H Hx; [contradiction|]. cbn [wf_members] in H. fold (wf_members d) in H.
  apply andb_true_iff in H as [Hy Hl]. apply andb_true_iff in Hy as [Hk Hv].
  destruct Hx as [->|Hx]; [now split|now apply IH].
Qed.
Lemma wf_num_not_null s : wf_num s = true -> text_eqb s null_tok = false.
Proof.
  intros H. destruct (wf_num_head s H) as (c & r & -> & Hc). unfold null_tok, text_eqb. cbn [list_eqb].
  destruct (N.eqb_spec c 110) as [->|]; [lia|reflexivity].
Qed.

(* ---------- the zero value ---------- *)
Lemma zero_wt : forall t, ty_ok t = true -> wt t (zero t) = true.
Proof.
  induction t as [t IHc] using ty_ind'. intros Hok.
  destruct t as [m|m| | | | | | | |z|e|n e|km e|e|fs]; cbn [ty_children] in IHc; try reflexivity.
  - cbn [zero wt]. apply N.leb_le. lia.
  - cbn [zero wt]. apply N.leb_le. lia.
  - cbn [ty_ok] in Hok. apply andb_true_iff in Hok as [Hs _]. exact Hs.
  - inversion IHc as [|? ? IHe _]; subst. cbn [ty_ok] in Hok. cbn [zero wt]. rewrite repeat_length, Nat.eqb_refl.
    cbn [andb]. apply cd_forallb_repeat. now apply IHe.
  - rewrite ty_ok_struct in Hok. cbn [zero]. rewrite wt_struct.
    induction fs as [|f fs IHf]; [reflexivity|]. cbn [ok_fields] in Hok. fold ok_fields in Hok.
    apply andb_true_iff in Hok as [Hf Hfs]. apply andb_true_iff in Hf as [_ Hf].
    cbn [map] in IHc. inversion IHc as [|? ? IHx IHr]; subst.
    cbn [map wt_fields]. fold wt_fields. now rewrite (IHx Hf), (IHf IHr Hfs).
Qed.

Lemma zero_txt : forall t, ty_ok t = true -> txt_ok t (zero t) = true.
Proof.
  induction t as [t IHc] using ty_ind'. intros Hok.
  destruct t as [m|m| | | | | | | |z|e|n e|km e|e|fs]; cbn [ty_children] in IHc; try reflexivity.
  - cbn [ty_ok] in Hok. apply andb_true_iff in Hok as [_ Hs]. exact Hs.
  - inversion IHc as [|? ? IHe _]; subst. cbn [ty_ok] in Hok. cbn [zero txt_ok].
    apply cd_forallb_repeat. now apply IHe.
  - rewrite ty_ok_struct in Hok. cbn [zero]. rewrite txt_struct.
    induction fs as [|f fs IHf]; [reflexivity|]. cbn [ok_fields] in Hok. fold ok_fields in Hok.
    apply andb_true_iff in Hok as [Hf Hfs]. apply andb_true_iff in Hf as [Hn Hf].
    cbn [map] in IHc. inversion IHc as [|? ? IHx IHr]; subst.
    cbn [map txt_fields]. fold txt_fields. now rewrite Hn, (IHx Hf), (IHf IHr Hfs).
Qed.

(* ---------- order facts for the map representation ---------- *)
Lemma text_ltb_total a : forall b, text_ltb a b = false -> text_eqb a b = false -> text_ltb b a = true.
Proof.
  induction a as [|x a IH]; intros [|y b] H1 H2; cbn in *; try discriminate; try reflexivity.
  destruct (N.ltb_spec x y) as [Hxy|Hxy]; [discriminate|].
  destruct (N.eqb_spec x y) as [->|Hne].
  - rewrite N.ltb_irrefl, N.eqb_refl. cbn [andb] in H2. now apply IH.
  - replace (N.ltb y x) with true by (symmetry; apply N.ltb_lt; lia). reflexivity.
Qed.
Lemma asc_cons k l :
  strictly_asc_text l = true -> (forall k', In k' l -> text_ltb k k' = true) -> strictly_asc_text (k :: l) = true.
Proof.
  intros Hs Hk. destruct l as [|k1 l]; [reflexivity|]. cbn [strictly_asc_text]. rewrite (Hk k1) by now left.
  exact Hs.
Qed.
Lemma sinsert_keys {V} k (v : V) m x : In x (map fst (sinsert k v m)) -> x = k \/ In x (map fst m).
Proof.
  induction m as [|[k' v'] m IH]; cbn [sinsert map fst].
  - intros [<-|[]]. now left.
  - destruct (text_ltb k k'); [|destruct (text_eqb k k')]; cbn [map fst In].
    + intros [<-|[<-|H]]; [now left|right; now left|right; now right].
    + intros [<-|H]; [now left|right; now right].
    + intros [<-|H]; [right; now left|]. destruct (IH H) as [->|H']; [now left|right; now right].
Qed.
Lemma sinsert_asc {V} k (v : V) m :
  strictly_asc_text (map fst m) = true -> strictly_asc_text (map fst (sinsert k v m)) = true.
Proof.
  induction m as [|[k' v'] m IH]; intros Hs; [reflexivity|]. cbn [sinsert].
  cbn [map fst] in Hs. destruct (strictly_asc_head _ _ Hs) as [Hs' Hlt].
  destruct (text_ltb k k') eqn:E1; [|destruct (text_eqb k k') eqn:E2].
  - cbn [map fst]. apply asc_cons; [exact Hs|]. intros x [<-|Hx]; [exact E1|].
    eapply text_ltb_trans; [exact E1|now apply Hlt].
  - apply text_eqb_eq in E2. subst k'. exact Hs.
  - cbn [map fst]. apply asc_cons; [now apply IH|]. intros x Hx.
    destruct (sinsert_keys _ _ _ _ Hx) as [->|Hx']; [now apply text_ltb_total|now apply Hlt].
Qed.
Lemma sinsert_forallb {V} (p : text * V -> bool) k v m :
  p (k, v) = true -> forallb p m = true -> forallb p (sinsert k v m) = true.
Proof.
  intros Hp. induction m as [|[k' v'] m IH]; intros Hm; cbn [sinsert forallb]; [now rewrite Hp|].
  cbn [forallb] in Hm. apply andb_true_iff in Hm as [H1 H2].
  destruct (text_ltb k k'); [|destruct (text_eqb k k')]; cbn [forallb].
  - now rewrite Hp, H1, H2.
  - now rewrite Hp, H2.
  - now rewrite H1, (IH H2).
Qed.

(* ---------- invariants of the local recursions of [dec] ---------- *)
Lemma field_fold_none f kvs : field_fold f None kvs = None.
Proof.
  unfold field_fold. induction kvs as [|kj kvs IH]; cbn [fold_left]; [reflexivity|].
  destruct (key_match (fst f) (fst kj)); exact IH.
Qed.
Lemma field_fold_inv (P : val -> Prop) f kvs :
  (forall p kj v, In kj kvs -> P p -> dec (snd f) p (snd kj) = Some v -> P v) ->
  forall p v, P p -> field_fold f (Some p) kvs = Some v -> P v.
Proof.
  unfold field_fold. induction kvs as [|kj kvs IH]; intros Hstep p v Hp H; cbn [fold_left] in H.
  - inversion H; now subst.
  - destruct (key_match (fst f) (fst kj)).
    + destruct (dec (snd f) p (snd kj)) as [p'|] eqn:E.
      * apply (IH (fun p0 kj0 v0 Hin => Hstep p0 kj0 v0 (or_intror Hin)) p' v); [|exact H].
        apply (Hstep p kj p'); [now left|exact Hp|exact E].
      * change (field_fold f None kvs = Some v) in H. rewrite field_fold_none in H. discriminate.
    + apply (IH (fun p0 kj0 v0 Hin => Hstep p0 kj0 v0 (or_intror Hin)) p v Hp H).
Qed.
Lemma dec_elems_inv (P : val -> Prop) e : P (zero e) ->
  forall js, (forall p x v, In x js -> P p -> dec e p x = Some v -> P v) ->
  forall ps l, Forall P ps -> dec_elems e js ps = Some l -> Forall P l.
Proof.
  intros Hz. induction js as [|x js IH]; intros Hstep ps l Hps H; cbn [dec_elems] in H.
  - inversion H; constructor.
  - fold (dec_elems e) in H.
    destruct (dec e (match ps with p :: _ => p | [] => zero e end) x) as [v|] eqn:E; [|discriminate].
    destruct (dec_elems e js (tl ps)) as [r|] eqn:Er; [|discriminate]. inversion H; subst l. constructor.
    + eapply Hstep; [now left| |exact E]. destruct Hps; [exact Hz|assumption].
    + apply (IH (fun p0 x0 v0 Hin => Hstep p0 x0 v0 (or_intror Hin)) (tl ps) r); [|exact Er].
      destruct Hps; [constructor|assumption].
Qed.
Lemma dec_array_inv (P : val -> Prop) e : P (zero e) ->
  forall n js, (forall p x v, In x js -> P p -> dec e p x = Some v -> P v) ->
  forall ps l, Forall P ps -> dec_array e n js ps = Some l -> Forall P l /\ length l = n.
Proof.
  intros Hz. induction n as [|n IH]; intros js Hstep ps l Hps H; cbn [dec_array] in H.
  - inversion H; split; [constructor|reflexivity].
  - fold (dec_array e) in H. destruct js as [|x js].
    + assert (Hl : l = repeat (zero e) (S n)) by congruence. clear H. subst l.
      split; [|apply repeat_length]. apply Forall_forall. intros y Hy.
      apply repeat_spec in Hy. now subst.
    + destruct (dec e (match ps with p :: _ => p | [] => zero e end) x) as [v|] eqn:E; [|discriminate].
      destruct (dec_array e n js (tl ps)) as [r|] eqn:Er; [|discriminate]. inversion H; subst l.
      destruct (IH js (fun p0 x0 v0 Hin => Hstep p0 x0 v0 (or_intror Hin)) (tl ps) r) as [Hr Hl]; [|exact Er|].
      * destruct Hps; [constructor|assumption].
      * split; [|cbn [length]; now rewrite Hl]. constructor; [|exact Hr].
        eapply Hstep; [now left| |exact E]. destruct Hps; [exact Hz|assumption].
Qed.
Lemma map_fold_none km e kvs : fold_left (map_step km e) kvs None = None.
Proof. induction kvs as [|kj kvs IH]; cbn [fold_left map_step]; [reflexivity|exact IH]. Qed.
Lemma map_fold_inv (Q : list (text * val) -> Prop) km e kvs :
  (forall m kj k v, In kj kvs -> Q m ->
     match km with Some maxv => option_map dec_enc (uint_parse maxv (fst kj)) | None => Some (fst kj) end = Some k ->
     dec e (zero e) (snd kj) = Some v -> Q (sinsert k v m)) ->
  forall m0 m, Q m0 -> fold_left (map_step km e) kvs (Some m0) = Some m -> Q m.
Proof.
  induction kvs as [|kj kvs IH]; intros Hstep m0 m H0 H; cbn [fold_left] in H.
  - inversion H; now subst.
  - unfold map_step at 2 in H.
    destruct (match km with Some maxv => option_map dec_enc (uint_parse maxv (fst kj)) | None => Some (fst kj) end)
      as [k|] eqn:Ek; [|rewrite map_fold_none in H; discriminate].
    destruct (dec e (zero e) (snd kj)) as [v|] eqn:Ev; [|rewrite map_fold_none in H; discriminate].
    apply (IH (fun m1 kj1 k1 v1 Hin => Hstep m1 kj1 k1 v1 (or_intror Hin)) (sinsert k v m0) m); [|exact H].
    apply (Hstep m0 kj k v); [now left|exact H0|exact Ek|exact Ev].
Qed.
Lemma dec_fields_inv (R : ty -> val -> Prop) kvs :
  forall fs ps l,
    Forall (fun f => R (snd f) (zero (snd f))) fs ->
    Forall (fun f => forall p kj v, In kj kvs -> R (snd f) p -> dec (snd f) p (snd kj) = Some v -> R (snd f) v) fs ->
    Forall2 (fun f p => R (snd f) p) (firstn (length ps) fs) (firstn (length fs) ps) ->
    dec_fields kvs fs ps = Some l -> Forall2 (fun f v => R (snd f) v) fs l.
Proof.
  induction fs as [|f fs IH]; intros ps l Hz Hstep Hps H; cbn [dec_fields] in H.
  - inversion H; constructor.
  - fold (dec_fields kvs) in H.
    destruct (field_fold f (Some (match ps with p :: _ => p | [] => zero (snd f) end)) kvs) as [v|] eqn:E; [|discriminate].
    destruct (dec_fields kvs fs (tl ps)) as [r|] eqn:Er; [|discriminate]. inversion H; subst l.
    inversion Hz as [|? ? Hzf Hzr]; subst. inversion Hstep as [|? ? Hsf Hsr]; subst.
    constructor.
    + eapply (field_fold_inv (R (snd f)) f kvs Hsf); [|exact E].
      destruct ps as [|p ps]; [exact Hzf|]. cbn [length firstn] in Hps. now inversion Hps.
    + apply (IH (tl ps) r Hzr Hsr); [|exact Er]. destruct ps as [|p ps]; [cbn; destruct (length fs); constructor|].
      cbn [length firstn tl] in Hps |- *. now inversion Hps.
Qed.

(* ---------- an accepted non-null token never yields a value that encodes as null ---------- *)
Lemma dec_nonnull : forall t prev j v d,
  wf_at d j = true -> j <> JNull -> dec t prev j = Some v -> enc t v <> JNull.
Proof.
  induction t as [t IHc] using ty_ind'. intros prev j v d Hw Hn H.
  destruct t as [m|m| | | | | | | |z|e|n e|km e|e|fs]; cbn [ty_children] in IHc.
  - destruct j; try discriminate H; [congruence|]. cbn [dec] in H.
    destruct (uint_parse m s); [|discriminate]. inversion H; subst. discriminate.
  - destruct j; try discriminate H; [congruence|]. cbn [dec] in H.
    destruct (uint_dec m _ s); [|discriminate]. inversion H; subst. discriminate.
  - destruct j; try discriminate H; [congruence|]. cbn [dec] in H.
    destruct (int_parse s); [|discriminate]. inversion H; subst. discriminate.
  - destruct j; try discriminate H; [congruence| |]; inversion H; subst; discriminate.
  - destruct j; try discriminate H; [congruence|]. inversion H; subst. discriminate.
  - cbn [dec] in H. destruct (raw_tok j) as [tok|]; [|discriminate]. cbn [obind] in H.
    destruct (bytes_dec tok); [|discriminate]. inversion H; subst. discriminate.
  - cbn [dec] in H. destruct (raw_tok j) as [tok|]; [|discriminate]. cbn [obind] in H.
    destruct (bytes32_dec _ tok); [|discriminate]. inversion H; subst. discriminate.
  - cbn [dec] in H. destruct (raw_tok j) as [tok|] eqn:Et; [|discriminate]. cbn [obind] in H.
    unfold bigint_dec in H.
    assert (Hnn : text_eqb tok null_tok = false).
    { destruct j; cbn [raw_tok] in Et; inversion Et; subst; try reflexivity; [congruence|].
      cbn [wf_at] in Hw. now apply wf_num_not_null. }
    rewrite Hnn in H. destruct (Nat.ltb (length tok) 2); [discriminate|].
    destruct (signed_parse true (strip tok)); [|discriminate]. inversion H; subst. discriminate.
  - destruct j; try discriminate H; [congruence|]. cbn [dec] in H. unfold bigptr_dec in H.
    cbn [wf_at] in Hw. rewrite (wf_num_not_null _ Hw) in H.
    destruct (signed_parse false s); [|discriminate]. inversion H; subst. discriminate.
  - destruct j; try discriminate H; [congruence| | | |]; inversion H; subst; discriminate.
  - destruct j; try discriminate H; [congruence|]. rewrite dec_slice_arr in H.
    destruct (dec_elems e l _); [|discriminate]. inversion H; subst. discriminate.
  - destruct j; try discriminate H; [congruence|]. rewrite dec_array_arr in H.
    destruct (dec_array e n l _); [|discriminate]. inversion H; subst. discriminate.
  - destruct j; try discriminate H; [congruence|]. rewrite dec_map_obj in H.
    destruct (fold_left _ l _); [|discriminate]. inversion H; subst. discriminate.
  - inversion IHc as [|? ? IHe _]; subst.
    assert (G : forall p, option_map (fun x => VPtr (Some x)) (dec e p j) = Some v -> enc (TPtr e) v <> JNull).
    { intros p Hp. destruct (dec e p j) as [x|] eqn:E; [|discriminate]. inversion Hp; subst. cbn [enc].
      exact (IHe p j x d Hw Hn E). }
    destruct j; try congruence; exact (G _ H).
  - destruct j; try discriminate H; [congruence|]. rewrite dec_struct_obj in H.
    destruct (dec_fields l fs _); [|discriminate]. inversion H; subst. rewrite enc_struct. discriminate.
Qed.

(* ---------- decoding keeps values well typed ---------- *)
Definition dec_keeps_wt (t : ty) : Prop :=
  ty_ok t = true -> forall prev j v d,
    wt t prev = true -> wf_at d j = true -> dec t prev j = Some v -> wt t v = true.

Theorem dec_wt_all : forall t, dec_keeps_wt t.
Proof.
  induction t as [t IHc] using ty_ind'. unfold dec_keeps_wt. intros Hok prev j v d Hp Hw H.
  destruct t as [m|m| | | | | | | |z|e|n e|km e|e|fs]; cbn [ty_children] in IHc.
  - (* TUint *) destruct j; try discriminate H; [inversion H; now subst|]. cbn [dec] in H.
    destruct (uint_parse m s) as [k|] eqn:E; [|discriminate]. inversion H; subst. cbn [wt].
    apply N.leb_le. eapply cd_uint_parse_le; exact E.
  - (* TUintS *) destruct j; try discriminate H; [inversion H; now subst|]. cbn [dec] in H.
    destruct prev as [p| | | | | | | | | | | |]; try discriminate Hp. cbn [wt] in Hp.
    unfold uint_dec in H. destruct (text_eqb s null_tok).
    + inversion H; subst. exact Hp.
    + destruct (uint_parse m s) as [k|] eqn:E; [|discriminate]. inversion H; subst. cbn [wt].
      apply N.leb_le. eapply cd_uint_parse_le; exact E.
  - (* TInt *) destruct j; try discriminate H; [inversion H; now subst|]. cbn [dec] in H.
    destruct (int_parse s) as [k|] eqn:E; [|discriminate]. inversion H; subst. cbn [wt].
    now apply cd_int_parse_range with (s := s).
  - (* TBool *) destruct j; try discriminate H; inversion H; subst; [exact Hp|reflexivity|reflexivity].
  - (* TString *) destruct j; try discriminate H; inversion H; subst; [exact Hp|reflexivity].
  - (* TBytes *) cbn [dec] in H. destruct (raw_tok j) as [tok|]; [|discriminate]. cbn [obind] in H.
    destruct (bytes_dec tok) as [l|] eqn:E; [|discriminate]. inversion H; subst. cbn [wt bytes_content].
    apply cd_bytes_ok_list. eapply bytes_dec_ok; exact E.
  - (* TBytes32 *) cbn [dec] in H. destruct (raw_tok j) as [tok|]; [|discriminate]. cbn [obind] in H.
    destruct prev as [| | | | |p| | | | | | |]; try discriminate Hp. cbn [wt] in Hp.
    apply andb_true_iff in Hp as [Hl Hb]. apply Nat.eqb_eq in Hl. apply forallb_Forall_bytes in Hb.
    destruct (bytes32_dec p tok) as [l|] eqn:E; [|discriminate]. inversion H; subst.
    destruct (bytes32_dec_shape _ _ _ Hb E) as [Hv Hn]. cbn [wt]. rewrite Hn, Hl, Nat.eqb_refl.
    cbn [andb]. now apply cd_bytes_ok_list.
  - (* TBigInt *) cbn [dec] in H. destruct (raw_tok j) as [tok|]; [|discriminate]. cbn [obind] in H.
    destruct (bigint_dec _ tok); [|discriminate]. inversion H; subst. reflexivity.
  - (* TBigPtr *) destruct j; try discriminate H; [inversion H; subst; reflexivity|]. cbn [dec] in H.
    destruct (bigptr_dec s); [|discriminate]. inversion H; subst. reflexivity.
  - (* TOpaque *) destruct j; try discriminate H; inversion H; subst; try exact Hp; reflexivity.
  - (* TSlice *) inversion IHc as [|? ? IHe _]; subst. cbn [ty_ok] in Hok.
    destruct j; try discriminate H; [inversion H; subst; reflexivity|]. rewrite dec_slice_arr in H.
    rewrite wf_at_arr in Hw. apply andb_true_iff in Hw as [_ Hw].
    destruct (dec_elems e l _) as [r|] eqn:E; [|discriminate]. inversion H; subst. cbn [wt].
    apply cd_Forall_forallb.
    apply (dec_elems_inv (fun x => wt e x = true) e (zero_wt e Hok) l) with (3 := E).
    + intros p x v0 Hin Hpp Hd. exact (IHe Hok p x v0 _ Hpp (wf_elems_in _ _ _ Hw Hin) Hd).
    + destruct prev as [| | | | | | | |pl| | | |]; try discriminate Hp. destruct pl as [pl|]; [|constructor].
      cbn [wt] in Hp. now apply cd_forallb_Forall.
  - (* TArray *) inversion IHc as [|? ? IHe _]; subst. cbn [ty_ok] in Hok.
    destruct j; try discriminate H; [inversion H; now subst|]. rewrite dec_array_arr in H.
    rewrite wf_at_arr in Hw. apply andb_true_iff in Hw as [_ Hw].
    destruct (dec_array e n l _) as [r|] eqn:E; [|discriminate]. inversion H; subst. cbn [wt].
    destruct (dec_array_inv (fun x => wt e x = true) e (zero_wt e Hok) n l) with (3 := E) as [Hr Hl].
    + intros p x v0 Hin Hpp Hd. exact (IHe Hok p x v0 _ Hpp (wf_elems_in _ _ _ Hw Hin) Hd).
    + destruct prev as [| | | | | | | | |pl| | |]; try discriminate Hp.
      cbn [wt] in Hp. apply andb_true_iff in Hp as [_ Hp]. now apply cd_forallb_Forall.
    + rewrite Hl, Nat.eqb_refl. cbn [andb]. now apply cd_Forall_forallb.
  - (* TMap *) inversion IHc as [|? ? IHe _]; subst. cbn [ty_ok] in Hok.
    destruct j; try discriminate H; [inversion H; subst; reflexivity|]. rewrite dec_map_obj in H.
    rewrite wf_at_obj in Hw. apply andb_true_iff in Hw as [_ Hw].
    destruct (fold_left _ l _) as [r|] eqn:E; [|discriminate]. inversion H; subst. cbn [wt].
    set (pk := fun kv : text * val =>
      match km with
      | Some maxv => match uint_parse maxv (fst kv) with
                     | Some k => text_eqb (dec_enc k) (fst kv)
                     | None => false
                     end
      | None => true
      end && wt e (snd kv)).
    apply (map_fold_inv (fun m => strictly_asc_text (map fst m) && forallb pk m = true) km e l) with (3 := E).
    + intros m0 kj k v0 Hin Hm Hk Hd. apply andb_true_iff in Hm as [Hs Hf]. apply andb_true_iff. split.
      * now apply sinsert_asc.
      * apply sinsert_forallb; [|exact Hf]. unfold pk. cbn [fst snd].
        rewrite (IHe Hok (zero e) (snd kj) v0 _ (zero_wt e Hok) (proj2 (wf_members_in _ _ _ Hw Hin)) Hd), andb_true_r.
        destruct km as [maxv|]; [|reflexivity].
        destruct (uint_parse maxv (fst kj)) as [kn|] eqn:Eu; [|discriminate]. cbn [option_map] in Hk.
        inversion Hk; subst k. rewrite (uint_roundtrip maxv kn (cd_uint_parse_le _ _ _ Eu)). apply text_eqb_refl.
    + destruct prev as [| | | | | | | | | |pm| |]; try discriminate Hp. destruct pm as [pm|]; [|reflexivity].
      exact Hp.
  - (* TPtr *) inversion IHc as [|? ? IHe _]; subst. cbn [ty_ok] in Hok.
    assert (G : j <> JNull ->
                option_map (fun x => VPtr (Some x)) (dec e (match prev with VPtr (Some p) => p | _ => zero e end) j) = Some v ->
                wt (TPtr e) v = true).
    { intros Hn Hd. destruct (dec e _ j) as [x|] eqn:E; [|discriminate]. inversion Hd; subst. cbn [wt].
      apply andb_true_iff. split.
      - apply (IHe Hok _ j x d) with (3 := E); [|exact Hw].
        destruct prev as [| | | | | | | | | | |pp|]; try discriminate Hp. destruct pp as [pp|]; [|now apply zero_wt].
        cbn [wt] in Hp. now apply andb_true_iff in Hp as [Hp _].
      - pose proof (dec_nonnull e _ j x d Hw Hn E) as Hnn. destruct (enc e x); try reflexivity. congruence. }
    destruct j; [inversion H; subst; reflexivity| | | | | |]; (apply G; [discriminate|exact H]).
  - (* TStruct *) rewrite ty_ok_struct in Hok.
    destruct j; try discriminate H; [inversion H; now subst|]. rewrite dec_struct_obj in H.
    rewrite wf_at_obj in Hw. apply andb_true_iff in Hw as [_ Hw].
    destruct prev as [| | | | | | | | | | | |ps]; try discriminate Hp. rewrite wt_struct in Hp.
    destruct (dec_fields l fs ps) as [r|] eqn:E; [|discriminate]. inversion H; subst. rewrite wt_struct.
    assert (F2 : Forall2 (fun f x => wt (snd f) x = true) fs r).
    { apply (dec_fields_inv (fun t x => wt t x = true) l fs ps r); [| | |exact E].
      - clear -IHc Hok. induction fs as [|f fs IHf]; [constructor|]. cbn [ok_fields] in Hok. fold ok_fields in Hok.
        apply andb_true_iff in Hok as [Hf Hfs]. apply andb_true_iff in Hf as [_ Hf].
        cbn [map] in IHc. inversion IHc as [|? ? IHx IHr]; subst. constructor; [now apply zero_wt|now apply IHf].
      - clear -IHc Hok Hw. induction fs as [|f fs IHf]; [constructor|]. cbn [ok_fields] in Hok. fold ok_fields in Hok.
        apply andb_true_iff in Hok as [Hf Hfs]. apply andb_true_iff in Hf as [_ Hf].
        cbn [map] in IHc. inversion IHc as [|? ? IHx IHr]; subst. constructor; [|now apply IHf].
        intros p kj v0 Hin Hpp Hd. exact (IHx Hf p (snd kj) v0 _ Hpp (proj2 (wf_members_in _ _ _ Hw Hin)) Hd).
      - clear -Hp. revert ps Hp. induction fs as [|f fs IHf]; intros [|p ps] Hp; try discriminate Hp; [constructor|].
        cbn [wt_fields] in Hp. fold wt_fields in Hp. apply andb_true_iff in Hp as [Hx Hr].
        cbn [length firstn]. constructor; [exact Hx|now apply IHf]. }
    clear -F2. induction F2 as [|f x fs r Hx _ IH]; [reflexivity|]. cbn [wt_fields]. fold wt_fields. now rewrite Hx, IH.
Qed.

(* ---------- decoding keeps the texts of a value inside the modelled subset ---------- *)
Definition dec_keeps_txt (t : ty) : Prop :=
  ty_ok t = true -> forall prev j v d,
    txt_ok t prev = true -> wf_at d j = true -> dec t prev j = Some v -> txt_ok t v = true.

Lemma txt_fields_firstn : forall fs ps, txt_fields fs ps = true ->
  Forall2 (fun (f : text * ty) p => txt_ok (snd f) p = true) (firstn (length ps) fs) (firstn (length fs) ps).
Proof.
  induction fs as [|f fs IH]; intros [|p ps] H; cbn [length firstn]; try constructor.
  - cbn [txt_fields] in H. fold txt_fields in H. apply andb_true_iff in H as [H1 _].
    now apply andb_true_iff in H1 as [_ H1].
  - apply IH. cbn [txt_fields] in H. fold txt_fields in H. now apply andb_true_iff in H as [_ H].
Qed.

Theorem dec_txt_all : forall t, dec_keeps_txt t.
Proof.
  induction t as [t IHc] using ty_ind'. unfold dec_keeps_txt. intros Hok prev j v d Hp Hw H.
  destruct t as [m|m| | | | | | | |z|e|n e|km e|e|fs]; cbn [ty_children] in IHc;
    try (destruct v; reflexivity).
  - (* TString *) destruct j; try discriminate H; inversion H; subst; [exact Hp|exact Hw].
  - (* TOpaque *) destruct j; try discriminate H; inversion H; subst; try exact Hp; cbn [txt_ok];
      (rewrite <- (wf_at_scalar d); [exact Hw|reflexivity]).
  - (* TSlice *) inversion IHc as [|? ? IHe _]; subst. cbn [ty_ok] in Hok.
    destruct j; try discriminate H; [inversion H; subst; reflexivity|]. rewrite dec_slice_arr in H.
    rewrite wf_at_arr in Hw. apply andb_true_iff in Hw as [_ Hw].
    destruct (dec_elems e l _) as [r|] eqn:E; [|discriminate]. inversion H; subst. cbn [txt_ok].
    apply cd_Forall_forallb.
    apply (dec_elems_inv (fun x => txt_ok e x = true) e (zero_txt e Hok) l) with (3 := E).
    + intros p x v0 Hin Hpp Hd. exact (IHe Hok p x v0 _ Hpp (wf_elems_in _ _ _ Hw Hin) Hd).
    + destruct prev as [| | | | | | | |pl| | | |]; try constructor. destruct pl as [pl|]; [|constructor].
      cbn [txt_ok] in Hp. now apply cd_forallb_Forall.
  - (* TArray *) inversion IHc as [|? ? IHe _]; subst. cbn [ty_ok] in Hok.
    destruct j; try discriminate H; [inversion H; now subst|]. rewrite dec_array_arr in H.
    rewrite wf_at_arr in Hw. apply andb_true_iff in Hw as [_ Hw].
    destruct (dec_array e n l _) as [r|] eqn:E; [|discriminate]. inversion H; subst. cbn [txt_ok].
    apply cd_Forall_forallb.
    apply (dec_array_inv (fun x => txt_ok e x = true) e (zero_txt e Hok) n l) with (3 := E).
    + intros p x v0 Hin Hpp Hd. exact (IHe Hok p x v0 _ Hpp (wf_elems_in _ _ _ Hw Hin) Hd).
    + destruct prev as [| | | | | | | | |pl| | |]; try constructor.
      cbn [txt_ok] in Hp. now apply cd_forallb_Forall.
  - (* TMap *) inversion IHc as [|? ? IHe _]; subst. cbn [ty_ok] in Hok.
    destruct j; try discriminate H; [inversion H; subst; reflexivity|]. rewrite dec_map_obj in H.
    rewrite wf_at_obj in Hw. apply andb_true_iff in Hw as [_ Hw].
    destruct (fold_left _ l _) as [r|] eqn:E; [|discriminate]. inversion H; subst. cbn [txt_ok].
    set (pk := fun kv : text * val =>
      (match km with Some _ => true | None => ascii (fst kv) end) && txt_ok e (snd kv)).
    apply (map_fold_inv (fun m => forallb pk m = true) km e l) with (3 := E).
    + intros m0 kj k v0 Hin Hm Hk Hd. apply sinsert_forallb; [|exact Hm]. unfold pk. cbn [fst snd].
      destruct (wf_members_in _ _ _ Hw Hin) as [Hka Hkw].
      rewrite (IHe Hok (zero e) (snd kj) v0 _ (zero_txt e Hok) Hkw Hd), andb_true_r.
      destruct km as [maxv|]; [reflexivity|]. inversion Hk; subst k. exact Hka.
    + destruct prev as [| | | | | | | | | |pm| |]; try reflexivity. destruct pm as [pm|]; [|reflexivity].
      exact Hp.
  - (* TPtr *) inversion IHc as [|? ? IHe _]; subst. cbn [ty_ok] in Hok.
    assert (G : option_map (fun x => VPtr (Some x)) (dec e (match prev with VPtr (Some p) => p | _ => zero e end) j) = Some v ->
                txt_ok (TPtr e) v = true).
    { intros Hd. destruct (dec e _ j) as [x|] eqn:E; [|discriminate]. inversion Hd; subst. cbn [txt_ok].
      apply (IHe Hok _ j x d) with (3 := E); [|exact Hw].
      destruct prev as [| | | | | | | | | | |pp|]; try (now apply zero_txt). destruct pp as [pp|]; [|now apply zero_txt].
      exact Hp. }
    destruct j; [inversion H; subst; reflexivity| | | | | |]; exact (G H).
  - (* TStruct *) rewrite ty_ok_struct in Hok.
    destruct j; try discriminate H; [inversion H; now subst|]. rewrite dec_struct_obj in H.
    rewrite wf_at_obj in Hw. apply andb_true_iff in Hw as [_ Hw].
    set (ps := match prev with VRec l0 => l0 | _ => [] end) in H.
    assert (Hps : txt_fields fs ps = true).
    { subst ps. destruct prev; try (destruct fs; reflexivity). exact Hp. }
    destruct (dec_fields l fs ps) as [r|] eqn:E; [|discriminate]. inversion H; subst v. rewrite txt_struct.
    assert (F2 : Forall2 (fun (f : text * ty) x => txt_ok (snd f) x = true) fs r).
    { apply (dec_fields_inv (fun t x => txt_ok t x = true) l fs ps r); [| | |exact E].
      - clear -IHc Hok. induction fs as [|f fs IHf]; [constructor|]. cbn [ok_fields] in Hok. fold ok_fields in Hok.
        apply andb_true_iff in Hok as [Hf Hfs]. apply andb_true_iff in Hf as [_ Hf].
        cbn [map] in IHc. inversion IHc as [|? ? IHx IHr]; subst. constructor; [now apply zero_txt|now apply IHf].
      - clear -IHc Hok Hw. induction fs as [|f fs IHf]; [constructor|]. cbn [ok_fields] in Hok. fold ok_fields in Hok.
        apply andb_true_iff in Hok as [Hf Hfs]. apply andb_true_iff in Hf as [_ Hf].
        cbn [map] in IHc. inversion IHc as [|? ? IHx IHr]; subst. constructor; [|now apply IHf].
        intros p kj v0 Hin Hpp Hd. exact (IHx Hf p (snd kj) v0 _ Hpp (proj2 (wf_members_in _ _ _ Hw Hin)) Hd).
      - now apply txt_fields_firstn. }
    clear -F2 Hok. induction F2 as [|f x fs r Hx _ IH]; [reflexivity|]. cbn [ok_fields] in Hok. fold ok_fields in Hok.
    apply andb_true_iff in Hok as [Hf Hfs]. apply andb_true_iff in Hf as [Hn _].
    cbn [txt_fields]. fold txt_fields. now rewrite Hn, Hx, (IH Hfs).
Qed.

(* ====================================================================================================== *)
(* ---------- the statements used by C20 ---------- *)
(* decoding any tree of the subset into any Go type descriptor yields a well-typed value *)
Theorem dec_wt t prev j v :
  ty_ok t = true -> wt t prev = true -> wf_json j = true -> dec t prev j = Some v -> wt t v = true.
Proof. intros Hok Hp Hw H. exact (dec_wt_all t Hok prev j v 0%N Hp Hw H). Qed.

(* ... whose own encoding is again a tree of the subset *)
Theorem dec_in_subset t prev j v :
  ty_ok t = true -> (ty_depth t <= max_depth)%N -> wt t prev = true -> txt_ok t prev = true -> wf_json j = true ->
  dec t prev j = Some v -> wt t v = true /\ txt_ok t v = true /\ wf_json (enc t v) = true.
Proof.
  intros Hok Hd Hp Ht Hw H. pose proof (dec_wt t prev j v Hok Hp Hw H) as W.
  pose proof (dec_txt_all t Hok prev j v 0%N Ht Hw H) as T. split; [exact W|]. split; [exact T|].
  now apply enc_wf_json.
Qed.

(* byte level: EVERY byte string the model decoder accepts gives a well-typed value inside the text subset *)
Theorem decode_text_wt t s v :
  ty_ok t = true -> (ty_depth t <= max_depth)%N -> decode_text t s = Some v ->
  wt t v = true /\ txt_ok t v = true /\ wf_json (enc t v) = true.
Proof.
  intros Hok Hd H. unfold decode_text in H. destruct (parse s) as [j|] eqn:E; [|discriminate]. cbn [obind] in H.
  apply (dec_in_subset t (zero t) j v Hok Hd (zero_wt t Hok) (zero_txt t Hok) (parse_wf s j E) H).
Qed.

(* C20_wire_idempotent without side conditions on the accepted value: for every accepted byte string, encoding the
   decoded value and decoding again is the identity up to [norm], and re-encoding gives the same bytes *)
Theorem text_idempotent_all t s v :
  wf_ty t = true -> ty_ok t = true -> (ty_depth t <= max_depth)%N -> decode_text t s = Some v ->
  decode_text t (encode_text t v) = Some (norm t v) /\ encode_text t (norm t v) = encode_text t v.
Proof.
  intros Hwf Hok Hd H. destruct (decode_text_wt t s v Hok Hd H) as (W & _ & J).
  split; [now apply text_roundtrip|]. unfold encode_text. now rewrite enc_norm.
Qed.

(* the side conditions are necessary: an opaque leaf whose zero token is a container decodes "null" to an ill-typed
   value; a number token spelled "null" (not a tree of the subset) makes a pointer hold a value that encodes as null *)
Example dec_wt_needs_ty_ok :
  dec (TSlice (TOpaque (JArr []))) (VList None) (JArr [JNull]) = Some (VList (Some [VOpq (JArr [])])) /\
  wt (TSlice (TOpaque (JArr []))) (VList (Some [VOpq (JArr [])])) = false.
Proof. vm_compute. split; reflexivity. Qed.
Example dec_wt_needs_subset :
  dec (TPtr TBigPtr) (VPtr None) (JNum null_tok) = Some (VPtr (Some (VBig None))) /\
  wt (TPtr TBigPtr) (VPtr (Some (VBig None))) = false /\ wf_json (JNum null_tok) = false.
Proof. vm_compute. repeat split; reflexivity. Qed.
(* hypotheses satisfiable on a non-trivial descriptor and a foreign spelling (white space, duplicate member, upper-case
   member name, null member) *)
Example decode_text_wt_example :
  let t := TStruct [([97]%N, TUint 255); ([98]%N, TSlice (TPtr TBool)); ([99]%N, TMap (Some 9%N) TString)] in
  let s := [123; 32; 34; 65; 34; 58; 55; 44; 34; 98; 34; 58; 91; 116; 114; 117; 101; 44; 110; 117; 108; 108; 93; 44;
            34; 99; 34; 58; 123; 34; 48; 55; 34; 58; 34; 120; 34; 125; 44; 34; 97; 34; 58; 110; 117; 108; 108; 125]%N in
  wf_ty t = true /\ ty_ok t = true /\ (ty_depth t <= max_depth)%N /\
  decode_text t s = Some (VRec [VU 7; VList (Some [VPtr (Some (VBool true)); VPtr None]); VMap (Some [([55]%N, VStr [120]%N)])]).
Proof. vm_compute. repeat split; try reflexivity. discriminate. Qed.

(* PollersP.v — lemmas and theorems about Model/Pollers.v (property C18). *)
Require Import Verif.Model.Base Verif.Proofs.BaseP Verif.Model.Pollers.
From Coq Require Import ZifyN ZifyNat ZifyBool.

(* ====================== canonical maps and sets ====================== *)
Lemma alookup_minsert_eq {V} k (v : V) m : alookup k (minsert k v m) = Some v.
Proof.
  induction m as [|[k' v'] m IH]; cbn [minsert alookup].
  - now rewrite N.eqb_refl.
  - destruct (N.ltb_spec k k') as [Hlt|Hge]; cbn [alookup].
    + now rewrite N.eqb_refl.
    + destruct (N.eqb_spec k k') as [->|Hne]; cbn [alookup].
      * now rewrite N.eqb_refl.
      * destruct (N.eqb_spec k k') as [E|_]; [contradiction|exact IH].
Qed.

Lemma alookup_minsert_neq {V} k k2 (v : V) m : k <> k2 -> alookup k2 (minsert k v m) = alookup k2 m.
Proof.
  intros Hne. induction m as [|[k' v'] m IH]; cbn [minsert alookup].
  - destruct (N.eqb_spec k2 k) as [E|_]; [subst; contradiction|reflexivity].
  - destruct (N.ltb_spec k k') as [Hlt|Hge]; cbn [alookup].
    + destruct (N.eqb_spec k2 k) as [E|_]; [subst; contradiction|reflexivity].
    + destruct (N.eqb_spec k k') as [->|Hne']; cbn [alookup].
      * destruct (N.eqb_spec k2 k') as [E|_]; [subst; contradiction|reflexivity].
      * destruct (N.eqb_spec k2 k'); [reflexivity|exact IH].
Qed.

Lemma keys_minsert {V} k (v : V) m x : In x (map fst (minsert k v m)) <-> x = k \/ In x (map fst m).
Proof.
  induction m as [|[k' v'] m IH]; cbn [minsert map fst In].
  - intuition.
  - destruct (N.ltb_spec k k') as [Hlt|Hge]; cbn [map fst In].
    + intuition.
    + destruct (N.eqb_spec k k') as [->|Hne]; cbn [map fst In].
      * intuition.
      * rewrite IH. intuition.
Qed.

Lemma sinsert_In x y s : In y (sinsert x s) <-> y = x \/ In y s.
Proof.
  induction s as [|z s IH]; cbn [sinsert In].
  - intuition.
  - destruct (N.ltb_spec x z) as [Hlt|Hge]; cbn [In].
    + intuition.
    + destruct (N.eqb_spec x z) as [->|Hne]; cbn [In].
      * intuition.
      * rewrite IH. intuition.
Qed.

Lemma set_of_In_gen l : forall acc y, In y (fold_left (fun s x => sinsert x s) l acc) <-> In y l \/ In y acc.
Proof.
  induction l as [|x l IH]; intros acc y; cbn [fold_left In].
  - intuition.
  - rewrite IH, sinsert_In. intuition.
Qed.
Lemma set_of_In l y : In y (set_of l) <-> In y l.
Proof. unfold set_of. rewrite set_of_In_gen. cbn [In]. intuition. Qed.

(* keys strictly ascending *)
Fixpoint ksorted {V} (m : list (N * V)) : Prop :=
  match m with
  | [] => True
  | (k, _) :: m' => (forall k', In k' (map fst m') -> (k < k')%N) /\ ksorted m'
  end.

Lemma minsert_ksorted {V} k (v : V) m : ksorted m -> ksorted (minsert k v m).
Proof.
  induction m as [|[k' v'] m IH]; cbn [minsert ksorted].
  - intros _. split; [intros x []|exact I].
  - intros [Hlt Hs]. destruct (N.ltb_spec k k') as [Hk|Hk]; cbn [ksorted map fst In].
    + split; [|split; assumption]. intros x [<-|Hx]; [exact Hk|]. specialize (Hlt _ Hx). lia.
    + destruct (N.eqb_spec k k') as [->|Hne]; cbn [ksorted].
      * split; assumption.
      * split; [|apply IH; exact Hs]. intros x Hx. apply keys_minsert in Hx.
        destruct Hx as [->|Hx]; [lia|apply Hlt; exact Hx].
Qed.

Lemma ksorted_NoDup {V} (m : list (N * V)) : ksorted m -> NoDup (map fst m).
Proof.
  induction m as [|[k v] m IH]; cbn [ksorted map fst]; intros H; [constructor|].
  destruct H as [Hlt Hs]. constructor; [|apply IH; exact Hs].
  intros Hin. specialize (Hlt _ Hin). lia.
Qed.

Lemma ksorted_lookup {V} (m : list (N * V)) k v : ksorted m -> (alookup k m = Some v <-> In (k, v) m).
Proof.
  intros Hs. split; [apply alookup_In|apply alookup_NoDup_In, ksorted_NoDup, Hs].
Qed.

Lemma find_snoc {A} (f : A -> bool) l x :
  find f (l ++ [x]) = match find f l with Some y => Some y | None => if f x then Some x else None end.
Proof. induction l as [|y l IH]; cbn [app find]; [reflexivity|]. destruct (f y); [reflexivity|exact IH]. Qed.

(* ====================== home chain: the fetched configuration and its derived views ====================== *)

(* --- paging: the fetched list is the concatenation of the pages up to and including the first short page --- *)
Theorem fetch_pages_ok psz fulls : forall short rest acc,
  Forall (fun l : list entry => (psz <= length l)%nat) fulls -> (length short < psz)%nat ->
  home_fetch_pages psz (map Some fulls ++ Some short :: rest) acc = Ok (acc ++ concat fulls ++ short).
Proof.
  induction fulls as [|pg fulls IH]; intros short rest acc Hf Hs; cbn [map app home_fetch_pages concat].
  - destruct (Nat.ltb_spec (length short) psz); [reflexivity|lia].
  - inversion Hf as [|? ? Hpg Hf']; subst.
    destruct (Nat.ltb_spec (length pg) psz); [lia|].
    rewrite IH by assumption. now rewrite <- !app_assoc.
Qed.

Theorem fetch_pages_inv psz pages : forall acc es,
  home_fetch_pages psz pages acc = Ok es ->
  exists fulls short rest,
    pages = map Some fulls ++ Some short :: rest /\
    Forall (fun l : list entry => (psz <= length l)%nat) fulls /\ (length short < psz)%nat /\
    es = acc ++ concat fulls ++ short.
Proof.
  induction pages as [|[pg|] pages IH]; intros acc es H; cbn [home_fetch_pages] in H; try discriminate.
  destruct (Nat.ltb_spec (length pg) psz) as [Hlt|Hge].
  - inversion H; subst. exists [], pg, pages. cbn [map app concat]. repeat split; [constructor|exact Hlt].
  - apply IH in H. destruct H as (fulls & short & rest & Hp & Hf & Hs & He). subst pages es.
    exists (pg :: fulls), short, rest. cbn [map app concat]. repeat split.
    + constructor; assumption.
    + exact Hs.
    + now rewrite <- !app_assoc.
Qed.

(* a failed or unfinished page sequence never yields a configuration; the fetch itself cannot crash *)
Theorem fetch_pages_fail psz fulls rest acc :
  Forall (fun l : list entry => (psz <= length l)%nat) fulls ->
  home_fetch_pages psz (map Some fulls ++ None :: rest) acc = Err /\
  home_fetch_pages psz (map Some fulls) acc = Err.
Proof.
  revert acc. induction fulls as [|pg fulls IH]; intros acc Hf; cbn [map app home_fetch_pages].
  - split; reflexivity.
  - inversion Hf as [|? ? Hpg Hf']; subst. destruct (Nat.ltb_spec (length pg) psz); [lia|]. apply IH; assumption.
Qed.

Lemma fetch_pages_ok_or_err psz pages : forall acc,
  (exists es, home_fetch_pages psz pages acc = Ok es) \/ home_fetch_pages psz pages acc = Err.
Proof.
  induction pages as [|[pg|] pages IH]; intros acc; cbn [home_fetch_pages]; try (right; reflexivity).
  destruct (Nat.ltb (length pg) psz); [left; eexists; reflexivity|apply IH].
Qed.

Lemma home_fetch_ok_or_err pages : (exists c, home_fetch pages = Ok c) \/ home_fetch pages = Err.
Proof.
  unfold home_fetch. destruct (fetch_pages_ok_or_err home_page_size pages []) as [[es ->] | ->];
    [left; eexists; reflexivity|right; reflexivity].
Qed.

(* --- convert: per selector the last decodable entry wins --- *)
Definition entry_cc (e : entry) : option chaincfg :=
  match e_cfg e with Some c => Some (mkCC (e_f e) (set_of (e_readers e)) c) | None => None end.
Definition entry_for (ch : N) (e : entry) : bool :=
  N.eqb (e_sel e) ch && match e_cfg e with Some _ => true | None => false end.

Lemma home_convert_lookup_gen ch es : forall acc,
  alookup ch (fold_left home_convert_step es acc) =
  match find (entry_for ch) (rev es) with Some e => entry_cc e | None => alookup ch acc end.
Proof.
  induction es as [|e es IH]; intros acc; cbn [fold_left rev find]; [reflexivity|].
  rewrite IH, find_snoc. destruct (find (entry_for ch) (rev es)) as [e'|]; [reflexivity|].
  unfold home_convert_step, entry_for. destruct (e_cfg e) as [c|] eqn:Ec; cbn [andb].
  - destruct (N.eqb_spec (e_sel e) ch) as [<-|Hne]; cbn [andb].
    + unfold entry_cc. rewrite Ec. apply alookup_minsert_eq.
    + now apply alookup_minsert_neq.
  - now rewrite Bool.andb_false_r.
Qed.

Theorem home_convert_lookup ch es :
  alookup ch (home_convert es) =
  match find (entry_for ch) (rev es) with Some e => entry_cc e | None => None end.
Proof. unfold home_convert. now rewrite home_convert_lookup_gen. Qed.

Lemma home_convert_ksorted es : ksorted (home_convert es).
Proof.
  unfold home_convert. assert (H : ksorted (@nil (N * chaincfg))) by exact I. revert H.
  generalize (@nil (N * chaincfg)). induction es as [|e es IH]; intros acc Ha; cbn [fold_left]; [exact Ha|].
  apply IH. unfold home_convert_step. destruct (e_cfg e); [apply minsert_ksorted|]; exact Ha.
Qed.

(* --- derived views --- *)
Theorem known_spec c ch : In ch (create_known c) <-> exists cc, In (ch, cc) c.
Proof.
  unfold create_known. rewrite set_of_In, in_map_iff. split.
  - intros [[k cc] [<- Hin]]. now exists cc.
  - intros [cc Hin]. now exists (ch, cc).
Qed.

Lemma fchain_gen c : forall acc ch, NoDup (map fst c) ->
  alookup ch (fold_left (fun m (kv : N * chaincfg) => minsert (fst kv) (cc_f (snd kv)) m) c acc) =
  match alookup ch c with Some cc => Some (cc_f cc) | None => alookup ch acc end.
Proof.
  induction c as [|[k cc] c IH]; intros acc ch ND; cbn [fold_left alookup fst snd]; [reflexivity|].
  inversion ND as [|? ? Hn ND']; subst. rewrite IH by exact ND'.
  destruct (N.eqb_spec ch k) as [->|Hne].
  - destruct (alookup k c) as [cc'|] eqn:E.
    + exfalso. apply Hn. apply alookup_In in E. change k with (fst (k, cc')). now apply in_map.
    + apply alookup_minsert_eq.
  - destruct (alookup ch c); [reflexivity|]. apply alookup_minsert_neq. congruence.
Qed.

Theorem fchain_spec c ch : ksorted c ->
  alookup ch (create_fchain c) = match alookup ch c with Some cc => Some (cc_f cc) | None => None end.
Proof. intros Hs. unfold create_fchain. now rewrite fchain_gen by (apply ksorted_NoDup, Hs). Qed.

Definition supp_of (m : list (N * list N)) (p : N) : list N :=
  match alookup p m with Some s => s | None => [] end.

Lemma add_supported_spec ch m q p x :
  In x (supp_of (add_supported ch m q) p) <-> (p = q /\ x = ch) \/ In x (supp_of m p).
Proof.
  unfold supp_of, add_supported. destruct (N.eq_dec q p) as [->|Hne].
  - rewrite alookup_minsert_eq, sinsert_In. intuition.
  - rewrite alookup_minsert_neq by exact Hne. intuition. congruence.
Qed.

Lemma add_nodes_spec ch nodes : forall m p x,
  In x (supp_of (fold_left (add_supported ch) nodes m) p) <-> (x = ch /\ In p nodes) \/ In x (supp_of m p).
Proof.
  induction nodes as [|q nodes IH]; intros m p x; cbn [fold_left In].
  - intuition.
  - rewrite IH, add_supported_spec. intuition.
Qed.

Lemma nsup_gen c : forall m p x,
  In x (supp_of (fold_left (fun m (kv : N * chaincfg) => fold_left (add_supported (fst kv)) (cc_nodes (snd kv)) m) c m) p)
  <-> (exists cc, In (x, cc) c /\ In p (cc_nodes cc)) \/ In x (supp_of m p).
Proof.
  induction c as [|[k cc] c IH]; intros m p x; cbn [fold_left In fst snd].
  - split; [intros H; now right|intros [[cc [[] _]]|H]; exact H].
  - rewrite IH, add_nodes_spec. split.
    + intros [[cc' [Hin Hp]]|[[-> Hp]|H]].
      * left. exists cc'. split; [now right|exact Hp].
      * left. exists cc. split; [now left|exact Hp].
      * now right.
    + intros [[cc' [[Heq|Hin] Hp]]|H].
      * inversion Heq; subst. right. left. split; [reflexivity|exact Hp].
      * left. exists cc'. split; assumption.
      * right. now right.
Qed.

(* a peer supports exactly the chains whose configuration lists it *)
Theorem nsup_spec c p x :
  In x (get_supported_chains (home_derive c) p) <-> exists cc, In (x, cc) c /\ In p (cc_nodes cc).
Proof.
  unfold get_supported_chains, home_derive, create_nsup. cbn [hv_nsup].
  change (match alookup p ?m with Some s => s | None => [] end) with (supp_of m p).
  rewrite nsup_gen. unfold supp_of. cbn [alookup In]. intuition.
Qed.

(* the known-chains getter (computed from chainConfigs at read time) agrees with the stored known set *)
Lemma get_known_is_field c : get_known_chains (home_derive c) = hv_known (home_derive c).
Proof. reflexivity. Qed.

(* ====================== the generic poller ====================== *)
Ltac Zify.zify_post_hook ::= Z.div_mod_to_equations.

Section PollerP.
  Variables P C V : Type.
  Variable fetchf : P -> res C.
  Variable derive : C -> V.
  Variable reset : bool.
  Variable v0 : V.
  Notation step := (pstep fetchf derive reset).
  Notation run := (prun fetchf derive reset v0).
  Notation stopb := (is_stop fetchf).

  Lemma run_snoc evs e : run (evs ++ [e]) = step (run evs) e.
  Proof. unfold prun. now rewrite fold_left_app. Qed.

  (* ---- how the history-level functions grow by one event ---- *)
  Lemma after_start_nostart (evs : list (pev P)) : existsb is_start evs = false -> after_start evs = [].
  Proof.
    induction evs as [|x evs IH]; cbn [existsb after_start]; [reflexivity|].
    destruct x; cbn [is_start orb]; try exact IH. discriminate.
  Qed.

  Lemma after_start_snoc (evs : list (pev P)) e :
    after_start (evs ++ [e]) = if existsb is_start evs then after_start evs ++ [e] else [].
  Proof.
    induction evs as [|x evs IH]; cbn [app existsb after_start].
    - destruct e; reflexivity.
    - destruct x; cbn [is_start orb]; try exact IH. reflexivity.
  Qed.

  Lemma until_stop_snoc l e :
    until_stop fetchf (l ++ [e]) =
    if existsb stopb l then until_stop fetchf l
    else if stopb e then until_stop fetchf l else until_stop fetchf l ++ [e].
  Proof.
    induction l as [|x l IH]; cbn [app existsb until_stop].
    - destruct (stopb e); reflexivity.
    - destruct (stopb x) eqn:Ex; cbn [orb]; [reflexivity|]. rewrite IH.
      destruct (existsb stopb l); [reflexivity|]. destruct (stopb e); reflexivity.
  Qed.

  Lemma until_stop_nostop l : existsb stopb l = false -> until_stop fetchf l = l.
  Proof.
    induction l as [|x l IH]; cbn [existsb until_stop]; [reflexivity|].
    destruct (stopb x); cbn [orb]; [discriminate|]. intros H. now rewrite IH.
  Qed.

  Lemma live_snoc evs e :
    live fetchf (evs ++ [e]) =
    if running fetchf evs && negb (stopb e) then live fetchf evs ++ [e] else live fetchf evs.
  Proof.
    unfold live, running. rewrite after_start_snoc.
    destruct (existsb is_start evs) eqn:Hs; cbn [andb].
    - rewrite until_stop_snoc. destruct (existsb stopb (after_start evs)); cbn [negb andb]; [reflexivity|].
      destruct (stopb e); reflexivity.
    - now rewrite (after_start_nostart _ Hs).
  Qed.

  Lemma running_snoc evs e :
    running fetchf (evs ++ [e]) =
    if existsb is_start evs then running fetchf evs && negb (stopb e) else is_start e.
  Proof.
    unfold running. rewrite existsb_app, after_start_snoc. cbn [existsb].
    destruct (existsb is_start evs) eqn:Hs; cbn [orb andb].
    - rewrite existsb_app. cbn [existsb]. rewrite Bool.orb_false_r, Bool.negb_orb. reflexivity.
    - rewrite Bool.orb_false_r. cbn [existsb negb]. now rewrite Bool.andb_true_r.
  Qed.

  Definition results_of (e : pev P) : list (option C) :=
    match e with
    | EPoll p => match fetchf p with Ok c => [Some c] | _ => [None] end
    | _ => []
    end.

  Lemma poll_results_eq evs : poll_results fetchf evs = flat_map results_of (live fetchf evs).
  Proof. reflexivity. Qed.

  Lemma poll_results_snoc evs e :
    poll_results fetchf (evs ++ [e]) =
    if running fetchf evs && negb (stopb e) then poll_results fetchf evs ++ results_of e
    else poll_results fetchf evs.
  Proof.
    rewrite !poll_results_eq, live_snoc. destruct (running fetchf evs && negb (stopb e)); [|reflexivity].
    rewrite flat_map_app. cbn [flat_map]. now rewrite app_nil_r.
  Qed.

  Lemma find_none_existsb {A} (f : A -> bool) l : find f l = None <-> existsb f l = false.
  Proof.
    induction l as [|x l IH]; cbn [find existsb]; [tauto|].
    destruct (f x); cbn [orb]; [split; discriminate|exact IH].
  Qed.

  Lemma closed_snoc evs e :
    closed fetchf (evs ++ [e]) =
    if existsb is_start evs then
      (if existsb stopb (after_start evs) then closed fetchf evs
       else match e with EClose => true | _ => false end)
    else false.
  Proof.
    unfold closed. rewrite after_start_snoc. destruct (existsb is_start evs) eqn:Hs; [|reflexivity].
    rewrite find_snoc. destruct (find stopb (after_start evs)) as [y|] eqn:Hf.
    - assert (existsb stopb (after_start evs) = true) as ->; [|reflexivity].
      destruct (existsb stopb (after_start evs)) eqn:E; [reflexivity|].
      apply find_none_existsb in E. congruence.
    - apply find_none_existsb in Hf. rewrite Hf. destruct e; cbn [is_stop]; try reflexivity.
      destruct (fetchf p); reflexivity.
  Qed.

  (* phase of the poller, read off the history *)
  Definition spec_phase (evs : list (pev P)) : N :=
    if negb (existsb is_start evs) then 0%N
    else if running fetchf evs then 1%N else if closed fetchf evs then 2%N else 3%N.

  Definition count_of (evs : list (pev P)) : nat :=
    if reset then trailing_failures fetchf evs else total_failures fetchf evs.

  Lemma spec_failed_running evs : running fetchf evs = true ->
    spec_failed fetchf reset evs = (N.of_nat (count_of evs) mod two64)%N.
  Proof. unfold spec_failed, count_of. now intros ->. Qed.

  Lemma tl_snoc {A} (l : list A) x : l <> [] -> tl (l ++ [x]) = tl l ++ [x].
  Proof. destruct l; [congruence|reflexivity]. Qed.

  Definition no_results (evs : list (pev P)) : bool :=
    match poll_results fetchf evs with [] => true | _ => false end.

  (* counting, one fetch later *)
  Lemma count_snoc_fail (rs : list (option C)) :
    rs <> [] ->
    (if reset then leading_failures (rev (tl (rs ++ [@None C])))
     else length (filter (fun r => negb (is_some r)) (tl (rs ++ [@None C])))) =
    S (if reset then leading_failures (rev (tl rs)) else length (filter (fun r => negb (is_some r)) (tl rs))).
  Proof.
    intros Hne. rewrite tl_snoc by exact Hne. destruct reset.
    - rewrite rev_app_distr. reflexivity.
    - rewrite filter_app, app_length. cbn. lia.
  Qed.

  Lemma count_snoc_ok (rs : list (option C)) c :
    rs <> [] ->
    (if reset then leading_failures (rev (tl (rs ++ [Some c])))
     else length (filter (fun r => negb (is_some r)) (tl (rs ++ [Some c])))) =
    (if reset then O else length (filter (fun r => negb (is_some r)) (tl rs))).
  Proof.
    intros Hne. rewrite tl_snoc by exact Hne. destruct reset.
    - rewrite rev_app_distr. reflexivity.
    - rewrite filter_app, app_length. cbn. lia.
  Qed.

  Lemma succ64_count k : succ64 (N.of_nat k mod two64) = (N.of_nat (S k) mod two64)%N.
  Proof. unfold succ64, add64, two64. lia. Qed.

  Lemma last_good_snoc_rs (rs : list (option C)) (r : option C) :
    match find is_some (rev (rs ++ [r])) with Some (Some c) => Some c | _ => None end =
    match r with
    | Some c => Some c
    | None => match find is_some (rev rs) with Some (Some c) => Some c | _ => None end
    end.
  Proof. rewrite rev_app_distr. cbn [rev app find]. destruct r; reflexivity. Qed.

  (* ---- the invariant tying the state machine to the history ---- *)
  Definition inv (evs : list (pev P)) (s : pst V) : Prop :=
    phase s = spec_phase evs /\
    views s = spec_views fetchf derive v0 evs /\
    first_done s = negb (no_results evs) /\
    (spec_phase evs = 1%N -> failed s = spec_failed fetchf reset evs) /\
    (spec_phase evs = 0%N \/ spec_phase evs = 2%N -> failed s = 0%N).

  Lemma inv_nil : inv [] (pinit v0).
  Proof.
    unfold inv, spec_phase, spec_views, last_good, no_results. cbn.
    repeat split; try reflexivity; intros; try reflexivity.
  Qed.

  Lemma spec_phase_cases evs :
    (spec_phase evs = 0%N /\ existsb is_start evs = false /\ running fetchf evs = false) \/
    (spec_phase evs = 1%N /\ existsb is_start evs = true /\ running fetchf evs = true) \/
    (spec_phase evs = 2%N /\ existsb is_start evs = true /\ running fetchf evs = false /\ closed fetchf evs = true) \/
    (spec_phase evs = 3%N /\ existsb is_start evs = true /\ running fetchf evs = false /\ closed fetchf evs = false).
  Proof.
    unfold spec_phase. destruct (existsb is_start evs) eqn:Hs; cbn [negb].
    - destruct (running fetchf evs) eqn:Hr; [right; left; auto|].
      destruct (closed fetchf evs); [right; right; left; auto|right; right; right; auto].
    - left. repeat split. unfold running. now rewrite Hs.
  Qed.

  Lemma running_stops evs : existsb is_start evs = true -> running fetchf evs = false ->
    existsb stopb (after_start evs) = true.
  Proof. unfold running. intros ->. cbn [andb]. now destruct (existsb stopb (after_start evs)). Qed.
  Lemma running_nostop evs : running fetchf evs = true -> existsb stopb (after_start evs) = false.
  Proof. unfold running. destruct (existsb is_start evs); cbn [andb]; [|discriminate]. now destruct (existsb stopb (after_start evs)). Qed.

  Lemma spec_phase_snoc_dead evs e :
    existsb is_start evs = true -> running fetchf evs = false ->
    spec_phase (evs ++ [e]) = spec_phase evs /\
    poll_results fetchf (evs ++ [e]) = poll_results fetchf evs.
  Proof.
    intros Hs Hr. split.
    - unfold spec_phase. rewrite existsb_app, Hs, running_snoc, Hs, Hr, closed_snoc, Hs.
      now rewrite (running_stops _ Hs Hr).
    - rewrite poll_results_snoc, Hr. reflexivity.
  Qed.

  Lemma inv_step evs e s : inv evs s -> inv (evs ++ [e]) (step s e).
  Proof.
    intros (Hph & Hv & Hfd & Hf1 & Hf0).
    destruct (spec_phase_cases evs) as [(Hp & Hs & Hr)|[(Hp & Hs & Hr)|[(Hp & Hs & Hr & Hc)|(Hp & Hs & Hr & Hc)]]].
    - (* not started *)
      assert (Hres : poll_results fetchf (evs ++ [e]) = poll_results fetchf evs)
        by (rewrite poll_results_snoc, Hr; reflexivity).
      assert (Hsv : spec_views fetchf derive v0 (evs ++ [e]) = spec_views fetchf derive v0 evs)
        by (unfold spec_views, last_good; now rewrite Hres).
      assert (Hnr : no_results (evs ++ [e]) = no_results evs) by (unfold no_results; now rewrite Hres).
      assert (Hrun : running fetchf (evs ++ [e]) = is_start e) by (rewrite running_snoc, Hs; reflexivity).
      assert (Hres0 : poll_results fetchf evs = []).
      { rewrite poll_results_eq. unfold live. now rewrite (after_start_nostart _ Hs). }
      assert (Hph' : spec_phase (evs ++ [e]) = if is_start e then 1%N else 0%N).
      { unfold spec_phase. rewrite existsb_app, Hs, Hrun. cbn [existsb orb].
        rewrite Bool.orb_false_r. destruct (is_start e); reflexivity. }
      rewrite Hp in Hph.
      destruct e; cbn [pstep is_start] in *; rewrite ?Hph; cbn [N.eqb].
      + unfold inv. cbn [phase views first_done failed]. rewrite Hph', Hsv, Hnr.
        repeat split; try assumption.
        * intros _. rewrite spec_failed_running by exact Hrun.
          rewrite Hf0 by (left; exact Hp).
          unfold count_of, trailing_failures, total_failures. rewrite Hres, Hres0.
          destruct reset; reflexivity.
        * intros [H|H]; discriminate.
      + unfold inv. rewrite Hph', Hsv, Hnr, Hph. repeat split; try assumption.
        * discriminate.
        * intros _. apply Hf0. now left.
      + unfold inv. rewrite Hph', Hsv, Hnr, Hph. repeat split; try assumption.
        * discriminate.
        * intros _. apply Hf0. now left.
      + unfold inv. rewrite Hph', Hsv, Hnr, Hph. repeat split; try assumption.
        * discriminate.
        * intros _. apply Hf0. now left.
    - (* polling *)
      rewrite Hp in Hph. specialize (Hf1 Hp). rewrite spec_failed_running in Hf1 by exact Hr.
      assert (Hns := running_nostop _ Hr).
      assert (Hrun : running fetchf (evs ++ [e]) = negb (stopb e)) by (rewrite running_snoc, Hs, Hr; reflexivity).
      assert (Hres : poll_results fetchf (evs ++ [e]) =
                     if negb (stopb e) then poll_results fetchf evs ++ results_of e else poll_results fetchf evs)
        by (rewrite poll_results_snoc, Hr; reflexivity).
      assert (Hcl : closed fetchf (evs ++ [e]) = match e with EClose => true | _ => false end)
        by (rewrite closed_snoc, Hs, Hns; reflexivity).
      assert (Hph' : spec_phase (evs ++ [e]) =
                     if negb (stopb e) then 1%N else match e with EClose => 2%N | _ => 3%N end).
      { unfold spec_phase. rewrite existsb_app, Hs, Hrun, Hcl. cbn [orb negb].
        destruct (stopb e); cbn [negb]; [|reflexivity]. destruct e; reflexivity. }
      destruct e as [|p| |]; cbn [pstep]; rewrite ?Hph; cbn [N.eqb Pos.eqb is_stop negb results_of] in *.
      + (* a second Start: refused *)
        rewrite app_nil_r in Hres.
        unfold inv. rewrite Hph', Hph. unfold spec_views, last_good, no_results. rewrite Hres.
        repeat split; try assumption.
        * intros _. rewrite spec_failed_running by exact Hrun.
          unfold count_of, trailing_failures, total_failures. rewrite Hres. exact Hf1.
        * intros [H|H]; discriminate.
      + (* a fetch completes *)
        destruct (fetchf p) as [c| | |] eqn:Ef; cbn [negb] in *.
        * (* fetched *)
          unfold inv. cbn [phase views first_done failed]. rewrite Hph'.
          repeat split.
          -- unfold spec_views, last_good. rewrite Hres, last_good_snoc_rs. reflexivity.
          -- unfold no_results. rewrite Hres. now destruct (poll_results fetchf evs).
          -- intros _. rewrite spec_failed_running by exact Hrun.
             unfold count_of, trailing_failures, total_failures. rewrite Hres.
             rewrite Hfd. unfold no_results.
             destruct (poll_results fetchf evs) as [|r0 rs] eqn:Hrs; cbn [negb].
             ++ rewrite Hf1. unfold count_of, trailing_failures, total_failures. rewrite Hrs.
                destruct reset; reflexivity.
             ++ rewrite (count_snoc_ok (r0 :: rs) c) by discriminate.
                rewrite Hf1. unfold count_of, total_failures. rewrite Hrs.
                destruct reset; reflexivity.
          -- intros [H|H]; discriminate.
        * (* failed *)
          unfold inv. cbn [phase views first_done failed]. rewrite Hph'.
          repeat split.
          -- unfold spec_views, last_good. rewrite Hres, last_good_snoc_rs. exact Hv.
          -- unfold no_results. rewrite Hres. now destruct (poll_results fetchf evs).
          -- intros _. rewrite spec_failed_running by exact Hrun.
             unfold count_of, trailing_failures, total_failures. rewrite Hres.
             rewrite Hfd. unfold no_results.
             destruct (poll_results fetchf evs) as [|r0 rs] eqn:Hrs; cbn [negb].
             ++ rewrite Hf1. unfold count_of, trailing_failures, total_failures. rewrite Hrs.
                destruct reset; reflexivity.
             ++ rewrite (count_snoc_fail (r0 :: rs)) by discriminate.
                rewrite Hf1, succ64_count. unfold count_of, trailing_failures, total_failures. now rewrite Hrs.
          -- intros [H|H]; discriminate.
        * (* the goroutine dies *)
          unfold inv. cbn [phase views first_done failed]. rewrite Hph'.
          unfold spec_views, last_good, no_results. rewrite Hres.
          repeat split; try assumption; try discriminate. intros [H|H]; discriminate.
        * unfold inv. cbn [phase views first_done failed]. rewrite Hph'.
          unfold spec_views, last_good, no_results. rewrite Hres.
          repeat split; try assumption; try discriminate. intros [H|H]; discriminate.
      + (* a read *)
        rewrite app_nil_r in Hres.
        unfold inv. rewrite Hph', Hph. unfold spec_views, last_good, no_results. rewrite Hres.
        repeat split; try assumption.
        * intros _. rewrite spec_failed_running by exact Hrun.
          unfold count_of, trailing_failures, total_failures. rewrite Hres. exact Hf1.
        * intros [H|H]; discriminate.
      + (* Close *)
        unfold inv. cbn [phase views first_done failed]. rewrite Hph'.
        unfold spec_views, last_good, no_results. rewrite Hres.
        repeat split; try assumption; try discriminate.
    - (* closed: nothing changes any more *)
      destruct (spec_phase_snoc_dead evs e Hs Hr) as [Hph' Hres].
      assert (Hst : step s e = s).
      { rewrite Hp in Hph. destruct e; cbn [pstep]; rewrite ?Hph; reflexivity. }
      rewrite Hst. unfold inv. rewrite Hph'. unfold spec_views, last_good, no_results. rewrite Hres.
      repeat split; try assumption.
      rewrite Hp. discriminate.
    - destruct (spec_phase_snoc_dead evs e Hs Hr) as [Hph' Hres].
      assert (Hst : step s e = s).
      { rewrite Hp in Hph. destruct e; cbn [pstep]; rewrite ?Hph; reflexivity. }
      rewrite Hst. unfold inv. rewrite Hph'. unfold spec_views, last_good, no_results. rewrite Hres.
      repeat split; try assumption.
      rewrite Hp. discriminate.
  Qed.

  Theorem run_inv evs : inv evs (run evs).
  Proof.
    induction evs as [|e evs IH] using rev_ind; [exact inv_nil|].
    rewrite run_snoc. apply inv_step. exact IH.
  Qed.

  (* ---- the theorems read off the invariant ---- *)
  (* every read sees the views of ONE configuration: that of the most recent successful fetch (or the initial state) *)
  Theorem snapshot evs : views (run evs) = spec_views fetchf derive v0 evs.
  Proof. apply run_inv. Qed.

  Lemma running_phase1 evs : running fetchf evs = true -> spec_phase evs = 1%N.
  Proof.
    intros Hr.
    destruct (spec_phase_cases evs) as [(Hp & _ & H)|[(Hp & _ & H)|[(Hp & _ & H & _)|(Hp & _ & H & _)]]];
      congruence.
  Qed.

  Theorem ready_spec evs : ready (run evs) = running fetchf evs.
  Proof.
    destruct (run_inv evs) as (Hph & _). unfold ready. rewrite Hph.
    destruct (spec_phase_cases evs) as [(Hp & _ & H)|[(Hp & _ & H)|[(Hp & _ & H & _)|(Hp & _ & H & _)]]];
      rewrite Hp, H; reflexivity.
  Qed.

  Theorem failed_spec evs : running fetchf evs = true -> failed (run evs) = spec_failed fetchf reset evs.
  Proof. intros Hr. destruct (run_inv evs) as (_ & _ & _ & Hf & _). apply Hf, running_phase1, Hr. Qed.

  Theorem healthy_spec evs : healthy (run evs) = spec_healthy fetchf reset evs.
  Proof.
    unfold healthy, spec_healthy. fold (ready (run evs)). rewrite ready_spec.
    destruct (running fetchf evs) eqn:Hr; [|reflexivity]. cbn [andb]. now rewrite failed_spec.
  Qed.

  Lemma leading_le (rs : list (option C)) : (leading_failures rs <= length rs)%nat.
  Proof. induction rs as [|[c|] rs IH]; cbn [leading_failures length]; lia. Qed.
  Lemma until_stop_len l : (length (until_stop fetchf l) <= length l)%nat.
  Proof. induction l as [|x l IH]; cbn [until_stop length]; [lia|]. destruct (stopb x); cbn [length]; lia. Qed.
  Lemma after_start_len (evs : list (pev P)) : (length (after_start evs) <= length evs)%nat.
  Proof. induction evs as [|x l IH]; cbn [after_start length]; [lia|]. destruct x; cbn [length]; lia. Qed.
  Lemma results_len l : (length (flat_map results_of l) <= length l)%nat.
  Proof.
    induction l as [|x l IH]; cbn [flat_map length]; [lia|]. rewrite app_length.
    destruct x; cbn [results_of length]; try lia. destruct (fetchf p); cbn [length]; lia.
  Qed.
  Lemma tl_len {A} (l : list A) : (length (tl l) <= length l)%nat.
  Proof. destruct l; cbn [tl length]; lia. Qed.
  Lemma filter_len {A} (f : A -> bool) l : (length (filter f l) <= length l)%nat.
  Proof. induction l as [|x l IH]; cbn [filter length]; [lia|]. destruct (f x); cbn [length]; lia. Qed.
  Lemma count_le evs : (count_of evs <= length evs)%nat.
  Proof.
    assert (H : (length (tl (poll_results fetchf evs)) <= length evs)%nat).
    { etransitivity; [apply tl_len|]. rewrite poll_results_eq. etransitivity; [apply results_len|].
      unfold live. etransitivity; [apply until_stop_len|apply after_start_len]. }
    unfold count_of, trailing_failures, total_failures. destruct reset.
    - etransitivity; [apply leading_le|]. now rewrite rev_length.
    - etransitivity; [apply filter_len|exact H].
  Qed.

  (* health without the wrap-around: any history shorter than 2^64 events *)
  Theorem healthy_count evs : (N.of_nat (length evs) < two64)%N ->
    healthy (run evs) = running fetchf evs && Nat.ltb (count_of evs) 10.
  Proof.
    intros Hlen. rewrite healthy_spec. unfold spec_healthy.
    destruct (running fetchf evs) eqn:Hr; [|reflexivity]. cbn [andb].
    rewrite spec_failed_running by exact Hr. pose proof (count_le evs) as Hc.
    rewrite N.mod_small by lia. unfold max_failed_polls.
    destruct (Nat.ltb_spec (count_of evs) 10); destruct (N.ltb_spec (N.of_nat (count_of evs)) 10); try reflexivity; lia.
  Qed.

  (* a failed or partial fetch and a read leave the snapshot as it is *)
  Theorem failed_poll_keeps_views s p : (forall c, fetchf p <> Ok c) -> views (step s (EPoll p)) = views s.
  Proof.
    intros H. cbn [pstep]. destruct (N.eqb (phase s) 1); [|reflexivity].
    destruct (fetchf p) as [c| | |]; try reflexivity. now destruct (H c).
  Qed.
  Theorem read_keeps_state s : step s ERead = s.
  Proof. reflexivity. Qed.

  (* Close: no state change ever after *)
  Lemma dead_absorbing s : phase s = 2%N \/ phase s = 3%N -> forall evs, fold_left step evs s = s.
  Proof.
    intros Hd evs. induction evs as [|e evs IH]; cbn [fold_left]; [reflexivity|].
    assert (Hst : step s e = s) by (destruct Hd as [Hd|Hd]; destruct e; cbn [pstep]; rewrite ?Hd; reflexivity).
    now rewrite Hst.
  Qed.

  Theorem close_stops evs evs' : phase (run evs) <> 0%N ->
    run (evs ++ EClose :: evs') = run (evs ++ [EClose]) /\
    ready (run (evs ++ [EClose])) = false /\
    views (run (evs ++ [EClose])) = views (run evs).
  Proof.
    intros Hne. change (EClose :: evs') with ([@EClose P] ++ evs'). rewrite app_assoc.
    unfold prun at 1. rewrite fold_left_app. fold (run (evs ++ [EClose])).
    rewrite run_snoc.
    destruct (run_inv evs) as (Hph & _).
    destruct (spec_phase_cases evs) as [(Hp & _)|[(Hp & _)|[(Hp & _)|(Hp & _)]]]; rewrite Hp in Hph.
    - congruence.
    - cbn [pstep]. rewrite Hph. cbn [N.eqb Pos.eqb]. split; [|split; reflexivity].
      apply dead_absorbing. now left.
    - cbn [pstep]. rewrite Hph. cbn [N.eqb Pos.eqb]. split; [|split; [unfold ready; now rewrite Hph|reflexivity]].
      apply dead_absorbing. now left.
    - cbn [pstep]. rewrite Hph. cbn [N.eqb Pos.eqb]. split; [|split; [unfold ready; now rewrite Hph|reflexivity]].
      apply dead_absorbing. now right.
  Qed.
End PollerP.

(* ====================== instances: home chain ====================== *)
Definition home_cfg_of (evs : list home_ev) : hcfgs :=
  match last_good home_fetch evs with Some c => c | None => [] end.

Lemma home_init_derive : home_init = home_derive [].
Proof. reflexivity. Qed.

(* all four stored views (and therefore every getter) are those of one configuration: the most recent successfully
   fetched one, or the empty one before the first success; this holds after every history, whatever reads, failures,
   partial page sequences, Start / Close events it contains, and for the repaired as well as the original counter *)
Theorem home_snapshot reset evs :
  views (prun home_fetch home_derive reset home_init evs) = home_derive (home_cfg_of evs).
Proof.
  rewrite snapshot. unfold spec_views, home_cfg_of. destruct (last_good home_fetch evs); reflexivity.
Qed.

Lemma last_good_fetched {P C} (f : P -> res C) evs c :
  last_good f evs = Some c -> exists p, In (EPoll p) evs /\ f p = Ok c.
Proof.
  unfold last_good. destruct (find is_some (rev (poll_results f evs))) as [[c'|]|] eqn:Hf; try discriminate.
  intros H; inversion H; subst c'. apply find_some in Hf. destruct Hf as [Hin _].
  apply in_rev in Hin. unfold poll_results in Hin. apply in_flat_map in Hin.
  destruct Hin as [e [He Hr]]. destruct e as [|p| |]; cbn in Hr; try contradiction.
  assert (Hev : In (EPoll p) evs).
  { clear -He. unfold live in He.
    assert (H1 : forall l x, In x (until_stop f l) -> In x l).
    { induction l as [|y l IH]; cbn [until_stop]; [tauto|]. destruct (is_stop f y); cbn [In]; [tauto|].
      intros x [->|Hx]; [now left|right; now apply IH]. }
    assert (H2 : forall (l : list (pev P)) x, In x (after_start l) -> In x l).
    { induction l as [|y l IH]; cbn [after_start]; [tauto|]. destruct y; cbn [In]; intros x Hx; auto. }
    apply H2, H1, He. }
  exists p. split; [exact Hev|]. destruct (f p) as [c'| | |]; cbn in Hr; destruct Hr as [Hr|[]]; congruence.
Qed.

(* the configuration behind the snapshot really was fetched: complete page sequence, concatenated in order *)
Theorem home_cfg_fetched evs c :
  last_good home_fetch evs = Some c ->
  exists pages fulls short rest,
    In (EPoll pages) evs /\
    pages = map Some fulls ++ Some short :: rest /\
    Forall (fun l : list entry => (home_page_size <= length l)%nat) fulls /\ (length short < home_page_size)%nat /\
    c = home_convert (concat fulls ++ short) /\ ksorted c.
Proof.
  intros H. apply last_good_fetched in H. destruct H as [pages [Hin Hf]].
  unfold home_fetch in Hf. destruct (home_fetch_pages home_page_size pages []) as [es| | |] eqn:E; try discriminate.
  inversion Hf; subst c. apply fetch_pages_inv in E. destruct E as (fulls & short & rest & Hp & Hfu & Hs & He).
  exists pages, fulls, short, rest. cbn [app] in He. subst es.
  repeat split; try assumption. apply home_convert_ksorted.
Qed.

(* health: bad exactly when not polling, or MaxFailedPolls (10) or more ticker polls failed in a row *)
Theorem home_health evs : (N.of_nat (length evs) < two64)%N ->
  healthy (home_run evs) = running home_fetch evs && Nat.ltb (trailing_failures home_fetch evs) 10.
Proof. intros H. unfold home_run. now rewrite healthy_count. Qed.

(* the counter as it was before the repair: never reset, so failures that are not consecutive add up *)
Theorem home_health_unfixed evs : (N.of_nat (length evs) < two64)%N ->
  healthy (home_run_unfixed evs) = running home_fetch evs && Nat.ltb (total_failures home_fetch evs) 10.
Proof. intros H. unfold home_run_unfixed. now rewrite healthy_count. Qed.

Local Open Scope N_scope.
Definition ok_page : list (option (list entry)) := [Some [mkE 1 [1; 2] 1 (Some 1)]].
Definition bad_page : list (option (list entry)) := [None].
Definition refute_history : list home_ev :=
  [EStart; EPoll ok_page] ++ repeat (EPoll bad_page) 5%nat ++ [EPoll ok_page] ++ repeat (EPoll bad_page) 5%nat.

Theorem home_health_unfixed_refuted :
  exists evs, running home_fetch evs = true /\ (trailing_failures home_fetch evs < 10)%nat /\
              healthy (home_run_unfixed evs) = false.
Proof. exists refute_history. vm_compute. repeat split. lia. Qed.

Example home_health_fixed_on_witness :
  healthy (home_run refute_history) = true /\ trailing_failures home_fetch refute_history = 5%nat.
Proof. vm_compute. split; reflexivity. Qed.

Example home_health_bad_after_ten :
  healthy (home_run ([EStart; EPoll ok_page] ++ repeat (EPoll bad_page) 9%nat)) = true /\
  healthy (home_run ([EStart; EPoll ok_page] ++ repeat (EPoll bad_page) 10%nat)) = false /\
  healthy (home_run ([EStart; EPoll bad_page] ++ repeat (EPoll bad_page) 9%nat)) = true.
Proof. vm_compute. repeat split. Qed.

Example fetch_pages_example :
  let e k := mkE k [1] 1 (Some 1) in
  home_fetch_pages 2%nat [Some [e 1; e 2]; Some [e 3; e 4]; Some [e 5]; Some [e 6]] [] = Ok [e 1; e 2; e 3; e 4; e 5].
Proof. reflexivity. Qed.

Example home_snapshot_example :
  let evs := [EStart; EPoll ok_page; ERead; EPoll bad_page; ERead] : list home_ev in
  last_good home_fetch evs = Some [(1, mkCC 1 [1; 2] 1)]%N /\
  get_supported_chains (views (home_run evs)) 2 = [1%N] /\ get_fchain (views (home_run evs)) = [(1, 1)]%N.
Proof. vm_compute. repeat split. Qed.

Example close_stops_example :
  phase (home_run [EStart; EPoll ok_page]) <> 0%N.
Proof. vm_compute. discriminate. Qed.
Local Close Scope N_scope.

(* ====================== instances: RMN home ====================== *)
Theorem rmn_snapshot evs :
  views (rmn_run evs) = match last_good rmn_fetch evs with Some v => v | None => rmn_init end.
Proof. unfold rmn_run. now rewrite snapshot. Qed.

Theorem rmn_health evs : (N.of_nat (length evs) < two64)%N ->
  healthy (rmn_run evs) = running rmn_fetch evs && Nat.ltb (trailing_failures rmn_fetch evs) 10.
Proof. intros H. unfold rmn_run. now rewrite healthy_count. Qed.

(* both digests empty: the poll counts as failed and the snapshot stays *)
Theorem rmn_both_empty_fails a c s :
  vc_digest a = 0%N -> vc_digest c = 0%N ->
  rmn_fetch (Some (a, c)) = Err /\ views (rmn_step s (EPoll (Some (a, c)))) = views s.
Proof.
  intros Ha Hc. assert (E : rmn_fetch (Some (a, c)) = Err) by (unfold rmn_fetch; now rewrite Ha, Hc).
  split; [exact E|]. apply failed_poll_keeps_views. intros v. rewrite E. discriminate.
Qed.

Theorem rmn_fetch_digests a c v :
  rmn_fetch (Some (a, c)) = Ok v -> get_digests v = (vc_digest a, vc_digest c) /\
  (vc_digest a <> 0%N \/ vc_digest c <> 0%N).
Proof.
  unfold rmn_fetch. destruct (N.eqb_spec (vc_digest a) 0) as [Ea|Ea]; destruct (N.eqb_spec (vc_digest c) 0) as [Ec|Ec];
    cbn [andb]; try discriminate; destruct (rmn_convert a c); cbn [rbind]; try discriminate;
    intros H; inversion H; subst v; (split; [reflexivity|tauto]).
Qed.

(* ====================== observer bitmaps ====================== *)
Lemma land_pow2 b j : (0 <= j)%Z ->
  Z.land b (Z.shiftl 1 j) = if Z.testbit b j then Z.shiftl 1 j else 0%Z.
Proof.
  intros Hj. rewrite Z.shiftl_1_l. apply Z.bits_inj'. intros i Hi.
  rewrite Z.land_spec, Z.pow2_bits_eqb by exact Hj.
  destruct (Z.eqb_spec j i) as [<-|Hne].
  - destruct (Z.testbit b j); [now rewrite Z.pow2_bits_true|now rewrite Z.bits_0].
  - rewrite Bool.andb_false_r. destruct (Z.testbit b j).
    + rewrite Z.pow2_bits_eqb by exact Hj. symmetry. now apply Z.eqb_neq.
    + now rewrite Z.bits_0.
Qed.

(* a valid committee size, index and bitmap: the answer is bit j of the bitmap *)
Theorem bitmap_spec b j n :
  (1 <= n <= 256)%Z -> (0 <= j < n)%Z -> (0 <= b < 2 ^ n)%Z ->
  is_node_observer (Some b) j n = Ok (Z.testbit b j).
Proof.
  intros Hn Hj Hb. unfold is_node_observer, rmn_max_committee.
  destruct (Z.gtb_spec n 256); [lia|]. destruct (Z.leb_spec n 0); [lia|]. cbn [orb].
  destruct (Z.ltb_spec j 0); [lia|]. destruct (Z.geb_spec j n); [lia|]. cbn [orb].
  rewrite (Z.shiftl_1_l n). destruct (Z.gtb_spec b (2 ^ n - 1)); [lia|].
  rewrite land_pow2 by lia. destruct (Z.testbit b j).
  - now rewrite Z.eqb_refl.
  - rewrite Z.shiftl_1_l. assert (0 < 2 ^ j)%Z by (apply Z.pow_pos_nonneg; lia).
    destruct (Z.eqb_spec 0 (2 ^ j)); [lia|reflexivity].
Qed.

(* everything else is refused: committee too large or empty, index outside, bitmap with bits beyond the committee;
   a missing bitmap crashes (F21b) *)
Theorem bitmap_refusals b j n :
  ((n > 256 \/ n <= 0)%Z -> is_node_observer b j n = Err) /\
  ((1 <= n <= 256)%Z -> (j < 0 \/ j >= n)%Z -> is_node_observer b j n = Err) /\
  ((1 <= n <= 256)%Z -> (0 <= j < n)%Z -> b = None -> is_node_observer b j n = Panic) /\
  (forall z, (1 <= n <= 256)%Z -> (0 <= j < n)%Z -> b = Some z -> (2 ^ n <= z)%Z -> is_node_observer b j n = Err).
Proof.
  unfold is_node_observer, rmn_max_committee. repeat split.
  - intros H. destruct (Z.gtb_spec n 256); destruct (Z.leb_spec n 0); cbn [orb]; try reflexivity; lia.
  - intros Hn Hj. destruct (Z.gtb_spec n 256); [lia|]. destruct (Z.leb_spec n 0); [lia|]. cbn [orb].
    destruct (Z.ltb_spec j 0); destruct (Z.geb_spec j n); cbn [orb]; try reflexivity; lia.
  - intros Hn Hj ->. destruct (Z.gtb_spec n 256); [lia|]. destruct (Z.leb_spec n 0); [lia|]. cbn [orb].
    destruct (Z.ltb_spec j 0); [lia|]. destruct (Z.geb_spec j n); [lia|]. reflexivity.
  - intros z Hn Hj -> Hz. destruct (Z.gtb_spec n 256); [lia|]. destruct (Z.leb_spec n 0); [lia|]. cbn [orb].
    destruct (Z.ltb_spec j 0); [lia|]. destruct (Z.geb_spec j n); [lia|]. cbn [orb].
    rewrite (Z.shiftl_1_l n). destruct (Z.gtb_spec z (2 ^ n - 1)); [reflexivity|lia].
Qed.

Example bitmap_example : is_node_observer (Some 5%Z) 2 3 = Ok true /\ is_node_observer (Some 5%Z) 1 3 = Ok false /\
                         is_node_observer (Some 8%Z) 1 3 = Err /\ is_node_observer None 1 3 = Panic.
Proof. vm_compute. repeat split. Qed.

(* ---------- convert: node id = position, supported chains = the chains whose bitmap has the node's bit ---------- *)
Definition observes (ch : rchain) (j : nat) (n : Z) : Prop :=
  is_node_observer (rc_bitmap ch) (Z.of_nat j) n = Ok true.

Lemma mark_nodes_spec ch n : forall supp j0 r,
  mark_nodes ch n j0 supp = Ok r ->
  length r = length supp /\
  forall k s, nth_error supp k = Some s ->
    exists s', nth_error r k = Some s' /\
      forall x, In x s' <-> In x s \/ (x = rc_sel ch /\ observes ch (j0 + k) n).
Proof.
  induction supp as [|s0 supp IH]; intros j0 r H; cbn [mark_nodes] in H.
  - inversion H; subst. split; [reflexivity|]. intros [|k] s Hk; discriminate.
  - unfold observes.
    destruct (is_node_observer (rc_bitmap ch) (Z.of_nat j0) n) as [[|]| | |] eqn:E; try discriminate;
      (destruct (mark_nodes ch n (S j0) supp) as [r'| | |] eqn:E'; cbn [rbind] in H; try discriminate;
       inversion H; subst r; destruct (IH _ _ E') as [Hlen Hnth]; split; [cbn [length]; now rewrite Hlen|];
       intros [|k] s Hk; cbn [nth_error] in *;
       [inversion Hk; subst s0; eexists; split; [reflexivity|]; intros x; rewrite ?sinsert_In, Nat.add_0_r, E
       |destruct (Hnth k s Hk) as [s' [Hs' Hx]]; exists s'; split; [exact Hs'|];
        intros x; rewrite Hx; replace (j0 + S k)%nat with (S j0 + k)%nat by lia; reflexivity]).
    + intuition.
    + intuition. discriminate.
    + intuition. discriminate.
Qed.

Lemma mark_chains_spec chains n : forall supp r,
  mark_chains chains n supp = Ok r ->
  length r = length supp /\
  forall k s, nth_error supp k = Some s ->
    exists s', nth_error r k = Some s' /\
      forall x, In x s' <-> In x s \/ exists ch, In ch chains /\ rc_sel ch = x /\ observes ch k n.
Proof.
  induction chains as [|ch chains IH]; intros supp r H; cbn [mark_chains] in H.
  - inversion H; subst. split; [reflexivity|]. intros k s Hk. exists s. split; [exact Hk|].
    intros x. split; [now left|]. intros [Hx|[ch [[] _]]]. exact Hx.
  - destruct (mark_nodes ch n 0 supp) as [r1| | |] eqn:E1; cbn [rbind] in H; try discriminate.
    destruct (mark_nodes_spec _ _ _ _ _ E1) as [L1 N1]. destruct (IH _ _ H) as [L2 N2].
    split; [congruence|]. intros k s Hk.
    destruct (N1 k s Hk) as [s1 [Hs1 Hx1]]. destruct (N2 k s1 Hs1) as [s2 [Hs2 Hx2]].
    exists s2. split; [exact Hs2|]. intros x. rewrite Hx2, Hx1. cbn [plus In]. split.
    + intros [[H0|[-> Ho]]|[ch' [Hin [Hsel Ho]]]].
      * now left.
      * right. exists ch. auto.
      * right. exists ch'. auto.
    + intros [H0|[ch' [[<-|Hin] [Hsel Ho]]]].
      * left. now left.
      * left. right. auto.
      * right. exists ch'. auto.
Qed.

Lemma mk_nodes_spec nodes : forall j0 supp k nd,
  nth_error (mk_nodes j0 nodes supp) k = Some nd ->
  exists rn s, nth_error nodes k = Some rn /\ nth_error supp k = Some s /\
               nd = mkHN (N.of_nat (j0 + k)) (rn_peer rn) (rn_key rn) s.
Proof.
  induction nodes as [|rn nodes IH]; intros j0 supp k nd H; cbn [mk_nodes] in H.
  - destruct k; discriminate.
  - destruct supp as [|s supp]; [destruct k; discriminate|].
    destruct k as [|k]; cbn [nth_error] in *.
    + inversion H; subst. exists rn, s. rewrite Nat.add_0_r. auto.
    + destruct (IH _ _ _ _ H) as (rn' & s' & H1 & H2 & ->). exists rn', s'.
      replace (j0 + S k)%nat with (S j0 + k)%nat by lia. auto.
Qed.

Lemma mk_nodes_length nodes : forall j0 supp, length supp = length nodes ->
  length (mk_nodes j0 nodes supp) = length nodes.
Proof.
  induction nodes as [|rn nodes IH]; intros j0 [|s supp] H; cbn [mk_nodes length] in *; try lia.
  now rewrite IH by lia.
Qed.

Lemma nth_error_repeat {A} (x : A) n k : (k < n)%nat -> nth_error (repeat x n) k = Some x.
Proof. revert k; induction n as [|n IH]; intros [|k] H; cbn; try lia; [reflexivity|apply IH; lia]. Qed.

(* the converted committee: same length, node j carries id j and the on-chain peer / key of position j, and observes
   exactly the source chains whose bitmap has bit j (as decided by IsNodeObserver) *)
Theorem convert_one_spec vc hc :
  convert_one vc = Ok hc ->
  length (hc_nodes hc) = length (vc_nodes vc) /\ hc_digest hc = vc_digest vc /\ hc_off hc = vc_off vc /\
  forall j nd, nth_error (hc_nodes hc) j = Some nd ->
    hn_id nd = N.of_nat j /\
    (exists rn, nth_error (vc_nodes vc) j = Some rn /\ hn_peer nd = rn_peer rn /\ hn_key nd = rn_key rn) /\
    forall x, In x (hn_chains nd) <->
              exists ch, In ch (vc_chains vc) /\ rc_sel ch = x /\ observes ch j (Z.of_nat (length (vc_nodes vc))).
Proof.
  unfold convert_one. set (n := length (vc_nodes vc)).
  destruct (mark_chains (vc_chains vc) (Z.of_nat n) (repeat [] n)) as [supp| | |] eqn:E; cbn [rbind]; try discriminate.
  intros H; inversion H; subst hc; clear H. cbn [hc_nodes hc_digest hc_off].
  destruct (mark_chains_spec _ _ _ _ E) as [L Nn]. rewrite repeat_length in L.
  split; [apply mk_nodes_length; exact L|]. split; [reflexivity|]. split; [reflexivity|].
  intros j nd Hj. destruct (mk_nodes_spec _ _ _ _ _ Hj) as (rn & s & H1 & H2 & ->). cbn [hn_id hn_peer hn_key hn_chains plus].
  split; [reflexivity|]. split; [exists rn; auto|].
  assert (Hlt : (j < n)%nat) by (apply nth_error_Some; unfold n; congruence).
  destruct (Nn j [] (nth_error_repeat _ _ _ Hlt)) as [s' [Hs' Hx]].
  assert (s' = s) by congruence. subst s'. intros x. rewrite Hx. cbn [In]. tauto.
Qed.

(* with a valid committee and valid bitmaps: bit for bit *)
Theorem convert_one_bits vc hc :
  convert_one vc = Ok hc ->
  (1 <= length (vc_nodes vc) <= 256)%nat ->
  (forall ch, In ch (vc_chains vc) -> exists b, rc_bitmap ch = Some b /\ (0 <= b < 2 ^ Z.of_nat (length (vc_nodes vc)))%Z) ->
  forall j nd, nth_error (hc_nodes hc) j = Some nd ->
    hn_id nd = N.of_nat j /\
    forall x, In x (hn_chains nd) <->
              exists ch b, In ch (vc_chains vc) /\ rc_sel ch = x /\ rc_bitmap ch = Some b /\ Z.testbit b (Z.of_nat j) = true.
Proof.
  intros Hc Hn Hv j nd Hj. destruct (convert_one_spec _ _ Hc) as (Hlen & _ & _ & Hs).
  destruct (Hs j nd Hj) as (Hid & _ & Hx). split; [exact Hid|].
  assert (Hlt : (j < length (vc_nodes vc))%nat) by (rewrite <- Hlen; apply nth_error_Some; congruence).
  intros x. rewrite Hx. split.
  - intros [ch [Hin [Hsel Ho]]]. destruct (Hv ch Hin) as [b [Hb Hr]]. exists ch, b. repeat split; try assumption.
    unfold observes in Ho. rewrite Hb, bitmap_spec in Ho by lia. congruence.
  - intros (ch & b & Hin & Hsel & Hb & Ht). exists ch. repeat split; try assumption.
    destruct (Hv ch Hin) as [b' [Hb' Hr]]. assert (b' = b) by congruence. subst b'.
    unfold observes. rewrite Hb, bitmap_spec by lia. now rewrite Ht.
Qed.

Local Open Scope N_scope.
Example convert_one_example :
  let vc := mkVC 9 [mkRN 11 21; mkRN 12 22; mkRN 13 23] [mkRC 100 1 (Some 5%Z); mkRC 200 2 (Some 2%Z)] 4 in
  convert_one vc = Ok (mkHC [mkHN 0 11 21 [100]; mkHN 1 12 22 [200]; mkHN 2 13 23 [100]] [(100, 1%Z); (200, 2%Z)] 9 4).
Proof. vm_compute. reflexivity. Qed.
Local Close Scope N_scope.

(* ====================== what the four home-chain views say about the configuration they come from ====================== *)
Theorem home_views_spec c : ksorted c ->
  (forall ch, get_chain_config (home_derive c) ch = alookup ch c) /\
  (forall ch, In ch (get_known_chains (home_derive c)) <-> exists cc, alookup ch c = Some cc) /\
  (forall ch, alookup ch (get_fchain (home_derive c)) =
              match alookup ch c with Some cc => Some (cc_f cc) | None => None end) /\
  (forall p ch, In ch (get_supported_chains (home_derive c) p) <->
                exists cc, alookup ch c = Some cc /\ In p (cc_nodes cc)).
Proof.
  intros Hs. repeat split.
  - rewrite get_known_is_field. cbn [home_derive hv_known]. rewrite known_spec.
    intros [cc H]. exists cc. now apply ksorted_lookup.
  - rewrite get_known_is_field. cbn [home_derive hv_known]. rewrite known_spec.
    intros [cc H]. exists cc. now apply ksorted_lookup.
  - intros ch. unfold get_fchain. cbn [home_derive hv_fch]. now apply fchain_spec.
  - rewrite nsup_spec. intros [cc [H1 H2]]. exists cc. split; [now apply ksorted_lookup|exact H2].
  - rewrite nsup_spec. intros [cc [H1 H2]]. exists cc. split; [now apply ksorted_lookup|exact H2].
Qed.

Example home_views_example : ksorted (home_convert [mkE 2 [1%N] 1 (Some 1%N); mkE 1 [2%N] 0 (Some 1%N)]).
Proof. apply home_convert_ksorted. Qed.

(* instances of the generic step theorems *)
Theorem home_failed_poll_unchanged s pages :
  home_fetch pages = Err -> views (home_step s (EPoll pages)) = views s /\ home_step s ERead = s.
Proof.
  intros E. split; [|reflexivity]. apply failed_poll_keeps_views. intros c. rewrite E. discriminate.
Qed.
Example home_failed_poll_example : home_fetch [Some (repeat (mkE 1 [] 0 (Some 1%N)) 100); None] = Err.
Proof. vm_compute. reflexivity. Qed.

Theorem home_close_stops evs evs' : phase (home_run evs) <> 0%N ->
  home_run (evs ++ EClose :: evs') = home_run (evs ++ [EClose]) /\
  ready (home_run (evs ++ [EClose])) = false /\ views (home_run (evs ++ [EClose])) = views (home_run evs).
Proof. apply close_stops. Qed.
Theorem rmn_close_stops evs evs' : phase (rmn_run evs) <> 0%N ->
  rmn_run (evs ++ EClose :: evs') = rmn_run (evs ++ [EClose]) /\
  ready (rmn_run (evs ++ [EClose])) = false /\ views (rmn_run (evs ++ [EClose])) = views (rmn_run evs).
Proof. apply close_stops. Qed.
Example rmn_close_example : phase (rmn_run [EStart; EPoll None]) <> 0%N.
Proof. vm_compute. discriminate. Qed.

Theorem home_health_exact evs : healthy (home_run evs) = spec_healthy home_fetch true evs /\
                                ready (home_run evs) = running home_fetch evs.
Proof. split; [apply healthy_spec|apply ready_spec]. Qed.
Theorem rmn_health_exact evs : healthy (rmn_run evs) = spec_healthy rmn_fetch true evs /\
                               ready (rmn_run evs) = running rmn_fetch evs.
Proof. split; [apply healthy_spec|apply ready_spec]. Qed.

(* ExecHistoryP.v — C09 across the two halves of an execute cycle: the executed set recorded by the pending-report
   filter (ExecPending, GetCommitReports phase) is what the report builder consults (ExecReport, Filter phase), so a
   message the destination reported as executed when the cycle started is never placed in that cycle's report. *)
Require Import Verif.Model.Base Verif.Proofs.BaseP Verif.Model.ExecPending Verif.Proofs.ExecPendingP
               Verif.Model.ExecReport Verif.Proofs.ExecReportP.
Local Open Scope N_scope.

Theorem executed_never_included reports executed out r' (cd : cdata) :
  layout (by_start reports) ->
  (forall r, In r reports -> p_exec r = [] /\ p_hi r < max64) ->
  Forall (fun e => fst e <= snd e /\ snd e < max64) executed ->
  no_overlap 0 (ranges_by_start executed) = true ->
  filter_executed reports executed = Ok out ->
  In r' out ->
  (* the commit data of the Filter round carries the executed list the filter recorded for this report
     (PendingCommitReports travel unchanged through the GetMessages outcome) *)
  (forall s, in_runs (p_exec r') s -> memN s (c_exec cd) = true) ->
  forall i m, eligible cd i -> nth_error (c_msgs cd) i = Some m ->
    p_lo r' <= m_seq m <= p_hi r' -> ~ in_union executed (m_seq m).
Proof.
  intros H1 H2 H3 H4 H5 Hin Hcarry i m [m' [td [Hm [_ [Hex _]]]]] Hnth Hrange Hu.
  rewrite Hnth in Hm. inversion Hm; subst m'.
  pose proof (executed_recorded reports executed H1 H2 H3 H4 out H5 r' (m_seq m) Hin Hrange Hu) as Hr.
  apply Hcarry in Hr. congruence.
Qed.

Require Import Verif.Model.Base Verif.Proofs.BaseP Verif.Model.Consensus Verif.Proofs.ConsensusP Verif.Model.Determinism.
From Coq Require Import Sorting.Sorted.

(* ---------- GetValid after the repair does not depend on the map iteration order ---------- *)
Theorem get_valid_order_indep {T} thr (c c' : cache T) :
  NoDup (map fst c) -> Permutation c c' -> get_valid thr c = get_valid thr c'.
Proof.
  intros ND P. unfold get_valid. f_equal.
  exact (sort_by_key_perm (fun e : N * (T * N) => fst e) c c' ND P).
Qed.

(* ... and still returns exactly the items at or above the threshold *)
Theorem get_valid_members {T} thr (c : cache T) x :
  In x (get_valid thr c) <-> exists id n, In (id, (x, n)) c /\ (thr <= n)%N.
Proof.
  unfold get_valid, get_valid_unfixed. rewrite in_map_iff. split.
  - intros [[id [y n]] [E H]]. cbn in E. subst y. apply filter_In in H. destruct H as [Hi Hn].
    cbn in Hn. apply N.leb_le in Hn. apply sort_by_in in Hi. now exists id, n.
  - intros [id [n [Hi Hn]]]. exists (id, (x, n)). split; [reflexivity|]. apply filter_In. split.
    + now apply sort_by_in.
    + cbn. now apply N.leb_le.
Qed.

(* ---------- before the repair: two iteration orders, two different last-writer-wins results ---------- *)
Theorem get_valid_unfixed_refuted :
  exists (c c' : cache N) thr k,
    Permutation c c' /\ NoDup (map fst c) /\
    lww_lookup (fun _ => 7%N) (get_valid_unfixed thr c) k <> lww_lookup (fun _ => 7%N) (get_valid_unfixed thr c') k.
Proof.
  exists [(1, (100, 2)); (2, (200, 2))]%N, [(2, (200, 2)); (1, (100, 2))]%N, 2%N, 7%N.
  split; [apply perm_swap|]. split; [repeat constructor; cbn; intuition discriminate|].
  vm_compute. discriminate.
Qed.

(* ---------- consensus maps: independent of map iteration order and of the order votes arrive in ---------- *)
Section ConsMapPerm.
  Context {T : Type} (eqb : T -> T -> bool).
  Hypothesis eqb_spec : forall x y, reflect (x = y) (eqb x y).

  Lemma consensus_map_in thr_of (m : list (N * list T)) k v :
    In (k, v) (consensus_map eqb thr_of m) <->
    exists items thr, In (k, items) m /\ thr_of k = Some thr /\ valid eqb thr items = [v].
  Proof.
    induction m as [|[k' items'] m IH]; cbn [consensus_map In].
    - split; [tauto|]. intros [? [? [[] _]]].
    - destruct (thr_of k') as [thr|] eqn:Et.
      + destruct (valid eqb thr items') as [|v' [|v'' l]] eqn:Ev.
        * rewrite IH. split.
          -- intros [items [t [Hi H]]]. exists items, t. split; [now right|exact H].
          -- intros [items [t [[Hi|Hi] [Ht Hv]]]].
             ++ inversion Hi; subst. rewrite Et in Ht. inversion Ht; subst. rewrite Ev in Hv. discriminate.
             ++ exists items, t. tauto.
        * cbn [In]. rewrite IH. split.
          -- intros [E|[items [t [Hi H]]]].
             ++ inversion E; subst. exists items', thr. split; [now left|]. split; assumption.
             ++ exists items, t. split; [now right|exact H].
          -- intros [items [t [[Hi|Hi] [Ht Hv]]]].
             ++ inversion Hi; subst. rewrite Et in Ht. inversion Ht; subst. rewrite Ev in Hv. inversion Hv. now left.
             ++ right. exists items, t. tauto.
        * rewrite IH. split.
          -- intros [items [t [Hi H]]]. exists items, t. split; [now right|exact H].
          -- intros [items [t [[Hi|Hi] [Ht Hv]]]].
             ++ inversion Hi; subst. rewrite Et in Ht. inversion Ht; subst. rewrite Ev in Hv. discriminate.
             ++ exists items, t. tauto.
      + rewrite IH. split.
        * intros [items [t [Hi H]]]. exists items, t. split; [now right|exact H].
        * intros [items [t [[Hi|Hi] [Ht Hv]]]].
          -- inversion Hi; subst. rewrite Et in Ht. discriminate.
          -- exists items, t. tauto.
  Qed.

  Lemma consensus_map_keys_sub thr_of (m : list (N * list T)) :
    forall k, In k (map fst (consensus_map eqb thr_of m)) -> In k (map fst m).
  Proof.
    intros k H. apply in_map_iff in H. destruct H as [[k' v] [E H]]. cbn in E. subst k'.
    apply consensus_map_in in H. destruct H as [items [t [Hi _]]].
    apply in_map_iff. now exists (k, items).
  Qed.

  Lemma consensus_map_nodup thr_of (m : list (N * list T)) :
    NoDup (map fst m) -> NoDup (map fst (consensus_map eqb thr_of m)).
  Proof.
    induction m as [|[k items] m IH]; cbn [consensus_map map fst]; intros ND; [constructor|].
    inversion ND as [|? ? Hn ND']; subst.
    destruct (thr_of k) as [thr|]; [|now apply IH].
    destruct (valid eqb thr items) as [|v [|v' l]]; try now apply IH.
    cbn [map fst]. constructor; [|now apply IH].
    intros H. apply Hn. now apply consensus_map_keys_sub in H.
  Qed.

  (* map entries visited in any order, and the votes of each key added in any order *)
  Inductive same_votes : list (N * list T) -> list (N * list T) -> Prop :=
  | sv_nil : same_votes [] []
  | sv_cons k items items' m m' :
      Permutation items items' -> same_votes m m' -> same_votes ((k, items) :: m) ((k, items') :: m').

  Lemma same_votes_in m m' : same_votes m m' ->
    forall k items, In (k, items) m -> exists items', In (k, items') m' /\ Permutation items items'.
  Proof.
    induction 1 as [|k0 i0 i0' m m' P S IH]; intros k items Hi; [contradiction|].
    destruct Hi as [Hi|Hi].
    - inversion Hi; subst. exists i0'. split; [now left|exact P].
    - destruct (IH _ _ Hi) as [items' [H1 H2]]. exists items'. split; [now right|exact H2].
  Qed.

  Lemma same_votes_sym m m' : same_votes m m' -> same_votes m' m.
  Proof. induction 1; constructor; [now symmetry|assumption]. Qed.

  Lemma same_votes_keys m m' : same_votes m m' -> map fst m = map fst m'.
  Proof. induction 1; cbn; congruence. Qed.

  Theorem consensus_map_order_indep (thr_of : N -> option N) m m1 m' :
    (forall k t, thr_of k = Some t -> (0 < t)%N) ->
    NoDup (map fst m) ->
    same_votes m m1 -> Permutation m1 m' ->
    sort_by (kle (fun p : N * T => fst p)) (consensus_map eqb thr_of m) =
    sort_by (kle (fun p : N * T => fst p)) (consensus_map eqb thr_of m').
  Proof.
    intros Hpos ND SV P.
    assert (ND1 : NoDup (map fst m1)) by (rewrite <- (same_votes_keys _ _ SV); exact ND).
    assert (ND' : NoDup (map fst m')).
    { eapply Permutation_NoDup; [apply Permutation_map; exact P|exact ND1]. }
    apply sort_by_key_perm.
    - now apply consensus_map_nodup.
    - apply NoDup_Permutation.
      + eapply NoDup_map_inv. apply consensus_map_nodup. exact ND.
      + eapply NoDup_map_inv. apply consensus_map_nodup. exact ND'.
      + intros [k v]. rewrite !consensus_map_in. split.
        * intros [items [t [Hi [Ht Hv]]]].
          destruct (same_votes_in _ _ SV _ _ Hi) as [items' [Hi' Pi]].
          exists items', t. split; [eapply Permutation_in; [exact P|exact Hi']|].
          split; [exact Ht|]. eapply valid_single_perm; eauto.
        * intros [items' [t [Hi' [Ht Hv]]]].
          assert (Hi1 : In (k, items') m1) by (eapply Permutation_in; [symmetry; exact P|exact Hi']).
          destruct (same_votes_in _ _ (same_votes_sym _ _ SV) _ _ Hi1) as [items [Hi Pi]].
          exists items, t. split; [exact Hi|]. split; [exact Ht|].
          eapply valid_single_perm; eauto.
  Qed.
End ConsMapPerm.

(* ---------- sort-before-encode is canonical on unique keys ---------- *)
Theorem sorted_output_canonical {A} (key : A -> N) (l l' : list A) :
  NoDup (map key l) -> Permutation l l' -> sort_by (kle key) l = sort_by (kle key) l'.
Proof. exact (sort_by_key_perm key l l'). Qed.

(* ---------- %v identity of timestamps ---------- *)
Theorem utc_identity_zone_indep loc loc' t1 t2 :
  render_eqb (render loc (to_utc t1)) (render loc (to_utc t2)) =
  render_eqb (render loc' (to_utc t1)) (render loc' (to_utc t2)).
Proof. reflexivity. Qed.

Theorem utc_identity_is_instant loc t1 t2 :
  render_eqb (render loc (to_utc t1)) (render loc (to_utc t2)) = Z.eqb (instant t1) (instant t2).
Proof.
  unfold render_eqb, render, to_utc, rendered_name. cbn. now rewrite !andb_true_r.
Qed.

(* before the repair the partition of votes into identical items depended on the process zone *)
Theorem raw_identity_zone_dependent_refuted :
  exists loc loc' t1 t2,
    render_eqb (render loc t1) (render loc t2) <> render_eqb (render loc' t1) (render loc' t2).
Proof.
  exists {| zone_offset := fun _ => 0%Z; zone_name := 1%N |},        (* TZ=UTC *)
         {| zone_offset := fun _ => 7200%Z; zone_name := 5%N |},     (* e.g. Europe/Athens *)
         {| instant := 1000; offset := 0; spelled_z := true |},      (* ...Z *)
         {| instant := 1000; offset := 0; spelled_z := false |}.     (* ...+00:00 *)
  vm_compute. discriminate.
Qed.

Example consensus_map_example :
  sort_by (kle (fun p : N * N => fst p)) (consensus_map N.eqb (fun _ => Some 2%N) [(5, [1; 1; 2]); (3, [4; 4; 4]); (9, [7; 8])]%N)
  = [(3, 4); (5, 1)]%N.
Proof. reflexivity. Qed.

(* C05LifeP.v — history-level theorems about the long-lived merkle-root Processor (Model/C05Life.v). *)
Require Import Verif.Model.Base Verif.Proofs.BaseP Verif.Model.SeqRange Verif.Model.CommitMerkle Verif.Model.CommitSM
               Verif.Model.Transmit Verif.Model.CommitRmnGate Verif.Proofs.CommitSMP Verif.Proofs.CommitRmnGateP
               Verif.Model.C05Life.

(* ---------- verifyQuery: the call handed to the crypto oracle is a function of this round's inputs ---------- *)
Lemma verify_args_call_form enabled st cfg_e d dest init known off q c :
  verify_args enabled st cfg_e d dest init known off q = Ok (Some c) ->
  enabled = true /\ st = Building /\ cfg_e = false /\ q_retry q = false /\
  exists b offa, q_sigs q = Some b /\ off = Some offa /\ expected_call d dest offa b = Some c.
Proof.
  unfold verify_args, expected_call.
  destruct (enabled && negb cfg_e && N.eqb init 2)%bool; [discriminate|].
  destruct enabled; cbn [negb]; [|discriminate].
  destruct (q_sigs q) as [b|].
  - destruct st; cbn [state_eqb andb negb]; try (destruct cfg_e; discriminate).
    destruct (q_retry q); [discriminate|].
    destruct cfg_e; [discriminate|]. destruct known; cbn [negb]; [|discriminate].
    destruct off as [offa|]; [|discriminate].
    destruct (parse_sigs (b_sigs b)) as [sigs|] eqn:PS; [|discriminate].
    destruct (parse_lanes (b_lanes b)) as [lanes|] eqn:PL; [|discriminate].
    intros H. inversion H; subst. repeat split. exists b, offa. rewrite PS, PL. repeat split.
  - destruct st; cbn [state_eqb negb]; try discriminate. destruct (q_retry q); discriminate.
Qed.

Lemma verify_args_init_irrelevant enabled st cfg_e d dest i1 i2 known off q :
  i1 <> 2%N -> i2 <> 2%N ->
  verify_args enabled st cfg_e d dest i1 known off q = verify_args enabled st cfg_e d dest i2 known off q.
Proof.
  intros H1 H2. unfold verify_args.
  destruct (N.eqb_spec i1 2); [contradiction|]. destruct (N.eqb_spec i2 2); [contradiction|]. reflexivity.
Qed.

Lemma init_code_nofail conn dg : init_code conn dg 0 <> 2%N.
Proof. unfold init_code. destruct (N.eqb conn dg); cbn; discriminate. Qed.

Lemma observation_full_fst v enabled st cfg_e d dest init known off q w :
  fst (observation_full v enabled st cfg_e d dest init known off q w) = observation v enabled st cfg_e d dest init known off q.
Proof. unfold observation_full. destruct (observation v enabled st cfg_e d dest init known off q) as [[]| | |]; reflexivity. Qed.

Section LifeP.
  Variable verify_sigs : verify_call -> bool.
  Variable detail_of : rmn_cfg -> cfg_detail.
  Variable enabled : bool.
  Variables max n dest : N.

  Notation hstep := (hstep verify_sigs detail_of enabled max n dest).
  Notation htrace := (htrace verify_sigs detail_of enabled max n dest).
  Notation hfinal := (hfinal verify_sigs detail_of enabled max n dest).

  (* the projections of one step, spelled out *)
  Lemma hstep_fields s r :
    let prev := fst s in
    let st := next_state (o_type prev) in
    let cfg_e := cfg_is_empty (o_cfg prev) in
    let d := detail_of (o_cfg prev) in
    let ic := init_code (snd s) (cd_digest d) (e_ifail (h_env r)) in
    let ev := fst (hstep s r) in
    ev_prev ev = prev /\ ev_q ev = h_q r /\ ev_env ev = h_env r /\ ev_co ev = h_co r /\
    ev_call ev = match verify_args enabled st cfg_e d dest ic true (e_off (h_env r)) (h_q r) with Ok c => c | _ => None end /\
    ev_res ev = observation verify_sigs enabled st cfg_e d dest ic true (e_off (h_env r)) (h_q r) /\
    ev_out ev = (if h_quorum r then get_outcome max n prev (h_q r) (h_co r) else prev) /\
    fst (snd (hstep s r)) = ev_out ev.
  Proof.
    cbv zeta. unfold C05Life.hstep, oracle_obs.
    destruct (init_step enabled (cfg_is_empty (o_cfg (fst s))) (snd s) (cd_digest (detail_of (o_cfg (fst s))))
                        (e_ifail (h_env r)) (e_nodes (h_env r))) as [icall conn'].
    rewrite <- observation_full_fst with (w := e_world (h_env r)).
    destruct (observation_full verify_sigs enabled (next_state (o_type (fst s))) (cfg_is_empty (o_cfg (fst s)))
                (detail_of (o_cfg (fst s))) dest
                (init_code (snd s) (cd_digest (detail_of (o_cfg (fst s)))) (e_ifail (h_env r))) true
                (e_off (h_env r)) (h_q r) (e_world (h_env r))) as [rr ob].
    cbn. repeat split.
  Qed.

  (* every event of a trace is one step from SOME state on one of the rounds: whatever holds of every step from
     every state holds of every round of every history *)
  Lemma htrace_In : forall rs s ev, In ev (htrace s rs) -> exists s' r, In r rs /\ ev = fst (hstep s' r).
  Proof.
    induction rs as [|r rs IH]; intros s ev H; cbn [C05Life.htrace] in H; [contradiction|].
    destruct H as [H|H].
    - exists s, r. split; [left; reflexivity|now symmetry].
    - destruct (IH _ _ H) as [s' [r' [I E]]]. exists s', r'. split; [right; exact I|exact E].
  Qed.

  (* the history is a chain: the previous outcome of the first round is the initial one, the previous outcome of
     every later round is the outcome of the round before it *)
  Theorem htrace_chained : forall rs s,
    (forall ev, nth_error (htrace s rs) 0 = Some ev -> ev_prev ev = fst s) /\
    (forall k ev1 ev2, nth_error (htrace s rs) k = Some ev1 -> nth_error (htrace s rs) (S k) = Some ev2 ->
                       ev_prev ev2 = ev_out ev1).
  Proof.
    induction rs as [|r rs IH]; intros s; cbn [C05Life.htrace].
    - split; [intros ev H; discriminate|intros k ev1 ev2 H; destruct k; discriminate].
    - destruct (hstep_fields s r) as [P [_ [_ [_ [_ [_ [_ F]]]]]]]. cbv zeta in P, F.
      split.
      + intros ev H. cbn in H. inversion H; subst. exact P.
      + intros k ev1 ev2 H1 H2. destruct (IH (snd (hstep s r))) as [I0 IS].
        destruct k as [|k].
        * cbn in H1. inversion H1; subst ev1. cbn [nth_error] in H2. rewrite (I0 _ H2). exact F.
        * cbn [nth_error] in H1, H2. exact (IS _ _ _ H1 H2).
  Qed.

  (* ---------- THE history theorem: what round k's bundle is verified against ----------
     For every history, every round of it: if the crypto oracle is consulted, then the round is a building round
     whose previous outcome carries an RMN remote config, and the call is exactly expected_call on THAT outcome's
     config: the signer addresses are its Signers, the report carries its RmnReportVersion, ContractAddress and
     ConfigDigest. The initial state, the earlier rounds and the controller connection do not occur. *)
  Theorem life_call_is_prev_cfg s rs ev c :
    In ev (htrace s rs) -> ev_call ev = Some c ->
    let d := detail_of (o_cfg (ev_prev ev)) in
    next_state (o_type (ev_prev ev)) = Building /\ cfg_is_empty (o_cfg (ev_prev ev)) = false /\ enabled = true /\
    q_retry (ev_q ev) = false /\
    exists b offa, q_sigs (ev_q ev) = Some b /\ e_off (ev_env ev) = Some offa /\
                   expected_call d dest offa b = Some c /\ snd c = cd_signers d.
  Proof.
    intros I C. destruct (htrace_In _ _ _ I) as [s' [r [_ ->]]].
    destruct (hstep_fields s' r) as [P [Q [E [_ [CL _]]]]]. cbv zeta in *.
    rewrite P, Q, E. rewrite CL in C.
    destruct (verify_args enabled (next_state (o_type (fst s'))) (cfg_is_empty (o_cfg (fst s')))
                (detail_of (o_cfg (fst s'))) dest
                (init_code (snd s') (cd_digest (detail_of (o_cfg (fst s')))) (e_ifail (h_env r))) true
                (e_off (h_env r)) (h_q r)) as [oc| | |] eqn:V; try discriminate.
    subst oc. destruct (verify_args_call_form _ _ _ _ _ _ _ _ _ _ V) as [He [Hs [Hc [Hr [b [offa [B [O X]]]]]]]].
    repeat split; try assumption.
    exists b, offa. repeat split; try assumption.
    unfold expected_call in X. destruct (parse_sigs (b_sigs b)); [|discriminate].
    destruct (parse_lanes (b_lanes b)); [|discriminate]. inversion X. reflexivity.
  Qed.

  (* ---------- a root enters an outcome only under a bundle verified against that set ----------
     Premise quorum_sound (libocr + honest oracles behaving alike, see the spec's trusted list): in a round whose
     query this honest oracle refused there is no consensus over the observations. *)
  Definition quorum_sound (ev : hevent) : Prop := ev_res ev <> Ok tt -> ev_co ev = None.

  Lemma select_outcome_no_roots c : o_roots (select_outcome_with limit c n) = [].
  Proof. unfold select_outcome_with. destruct (report_ranges_with limit (c_on c) (c_off c) n). reflexivity. Qed.
  Lemma check_transmission_no_roots prev c : o_roots (check_transmission max prev c) = [].
  Proof.
    unfold check_transmission. destruct (off_updated (o_off prev) (c_off c)); [reflexivity|].
    destruct (N.leb max (add64 (o_attempts prev) 1)); reflexivity.
  Qed.

  Theorem life_roots_need_verified_bundle s rs ev :
    enabled = true -> In ev (htrace s rs) -> quorum_sound ev ->
    ev_out ev <> ev_prev ev -> o_roots (ev_out ev) <> [] ->
    let d := detail_of (o_cfg (ev_prev ev)) in
    next_state (o_type (ev_prev ev)) = Building /\ q_retry (ev_q ev) = false /\
    exists sigs lanes off,
      verify_sigs (sigs, (cd_version d, dest, cd_contract d, off, cd_digest d, lanes), cd_signers d) = true /\
      (forall r, In r (o_roots (ev_out ev)) -> In r lanes) /\ o_sigs (ev_out ev) = sigs /\
      o_cfg (ev_out ev) = o_cfg (ev_prev ev).
  Proof.
    intros EN I QS NE NR. destruct (htrace_In _ _ _ I) as [s' [r [_ ->]]].
    destruct (hstep_fields s' r) as [P [Q [_ [CO [_ [RS [OUT _]]]]]]]. cbv zeta in *.
    unfold quorum_sound in QS. rewrite P, Q in *. rewrite CO, RS in QS. rewrite OUT in NE, NR |- *. subst enabled.
    destruct (h_quorum r); [|congruence].
    set (prev := fst s') in *. set (q := h_q r) in *.
    unfold get_outcome, get_outcome_with in NE, NR.
    destruct (next_state (o_type prev)) eqn:ST; cbn [state_eqb andb] in NE, NR.
    - exfalso. destruct (h_co r) as [c|]; [|apply NR; reflexivity]. apply NR. apply select_outcome_no_roots.
    - destruct (q_retry q) eqn:R; [congruence|].
      destruct (h_co r) as [c|] eqn:HC; [|exfalso; apply NR; reflexivity].
      destruct (observation verify_sigs true Building (cfg_is_empty (o_cfg prev)) (detail_of (o_cfg prev)) dest
                  (init_code (snd s') (cd_digest (detail_of (o_cfg prev))) (e_ifail (h_env r))) true
                  (e_off (h_env r)) q) as [[]| | |] eqn:OB;
        try (assert (X : Some c = None) by (apply QS; discriminate); discriminate).
      split; [reflexivity|]. split; [reflexivity|].
      pose proof (reported_roots_verified verify_sigs prev (cfg_is_empty (o_cfg prev)) (detail_of (o_cfg prev)) dest
                    (init_code (snd s') (cd_digest (detail_of (o_cfg prev))) (e_ifail (h_env r))) true
                    (e_off (h_env r)) q c max n ST R) as RV.
      rewrite ST in RV. specialize (RV OB). cbv zeta in RV.
      destruct RV as [sigs [lanes [off [V [K1 K2]]]]].
      assert (GO : get_outcome max n prev q (Some c) = build_report q c prev).
      { unfold get_outcome, get_outcome_with. rewrite ST, R. reflexivity. }
      rewrite GO in K1, K2. rewrite GO.
      exists sigs, lanes, off. split; [exact V|]. split; [intros x Hx; now apply K1|]. split; [now apply K2|].
      (* the RMN config (and with it F_rmn of the report) is carried over from the previous outcome *)
      unfold build_report in NR |- *.
      assert (F : forall roots sg, o_roots (finish_report prev roots sg) <> [] -> o_cfg (finish_report prev roots sg) = o_cfg prev).
      { intros roots sg. destruct roots; cbn; [congruence|reflexivity]. }
      destruct (q_sigs q) as [b|]; [|now apply F].
      destruct (parse_sigs (b_sigs b)); [|exfalso; apply NR; reflexivity].
      destruct (parse_lanes (b_lanes b)); [|exfalso; apply NR; reflexivity]. now apply F.
    - exfalso. destruct (h_co r) as [c|]; [|apply NR; reflexivity]. apply NR. apply check_transmission_no_roots.
  Qed.

  (* ---------- no dependence on earlier rounds ----------
     Two instances that reached the same previous outcome by ANY two histories from ANY two initial states (so with
     any controller connection, any memory) behave alike in the next round: same crypto call, same result, same
     observation, same outcome — provided the RMNHome reader / controller do not fail in that round (a failing
     initialisation is the one thing that depends on whether the controller is already connected). *)
  Theorem life_round_memoryless s1 s2 rs1 rs2 r :
    fst (hfinal s1 rs1) = fst (hfinal s2 rs2) -> e_ifail (h_env r) = 0%N ->
    fst (hstep (hfinal s1 rs1) r) = fst (hstep (hfinal s2 rs2) r).
  Proof.
    generalize (hfinal s1 rs1) (hfinal s2 rs2). clear s1 s2 rs1 rs2. intros s1 s2 E F.
    unfold C05Life.hstep, oracle_obs. rewrite E, F.
    destruct (init_step enabled (cfg_is_empty (o_cfg (fst s2))) (snd s1) (cd_digest (detail_of (o_cfg (fst s2)))) 0 (e_nodes (h_env r))) as [i1 c1].
    destruct (init_step enabled (cfg_is_empty (o_cfg (fst s2))) (snd s2) (cd_digest (detail_of (o_cfg (fst s2)))) 0 (e_nodes (h_env r))) as [i2 c2].
    assert (V : forall q, verify_args enabled (next_state (o_type (fst s2))) (cfg_is_empty (o_cfg (fst s2))) (detail_of (o_cfg (fst s2))) dest
                    (init_code (snd s1) (cd_digest (detail_of (o_cfg (fst s2)))) 0) true (e_off (h_env r)) q =
                  verify_args enabled (next_state (o_type (fst s2))) (cfg_is_empty (o_cfg (fst s2))) (detail_of (o_cfg (fst s2))) dest
                    (init_code (snd s2) (cd_digest (detail_of (o_cfg (fst s2)))) 0) true (e_off (h_env r)) q).
    { intros q. apply verify_args_init_irrelevant; apply init_code_nofail. }
    unfold observation_full, observation. rewrite V.
    destruct (verify_args enabled (next_state (o_type (fst s2))) (cfg_is_empty (o_cfg (fst s2))) (detail_of (o_cfg (fst s2))) dest
                (init_code (snd s2) (cd_digest (detail_of (o_cfg (fst s2)))) 0) true (e_off (h_env r)) (h_q r)) as [[cl|]| | |];
      try reflexivity.
    destruct (verify_sigs cl); reflexivity.
  Qed.

  (* also with failing initialisations: whenever both instances do consult the crypto oracle, with the same call *)
  Theorem life_call_memoryless s1 s2 rs1 rs2 r c1 c2 :
    fst (hfinal s1 rs1) = fst (hfinal s2 rs2) ->
    ev_call (fst (hstep (hfinal s1 rs1) r)) = Some c1 -> ev_call (fst (hstep (hfinal s2 rs2) r)) = Some c2 -> c1 = c2.
  Proof.
    generalize (hfinal s1 rs1) (hfinal s2 rs2). clear s1 s2 rs1 rs2. intros s1 s2 E C1 C2.
    assert (I1 : In (fst (hstep s1 r)) (htrace s1 [r])) by (left; reflexivity).
    assert (I2 : In (fst (hstep s2 r)) (htrace s2 [r])) by (left; reflexivity).
    destruct (life_call_is_prev_cfg _ _ _ _ I1 C1) as [_ [_ [_ [_ [b1 [o1 [B1 [O1 [X1 _]]]]]]]]].
    destruct (life_call_is_prev_cfg _ _ _ _ I2 C2) as [_ [_ [_ [_ [b2 [o2 [B2 [O2 [X2 _]]]]]]]]].
    destruct (hstep_fields s1 r) as [P1 [Q1 [E1 _]]]. destruct (hstep_fields s2 r) as [P2 [Q2 [E2 _]]]. cbv zeta in *.
    rewrite P1, Q1, E1 in *. rewrite P2, Q2, E2 in *. rewrite E in *.
    assert (b1 = b2) by congruence. assert (o1 = o2) by congruence. subst. congruence.
  Qed.
End LifeP.

(* ---------- non-vacuity: a history in which the signer set is rotated under an unchanged RMNHome digest ----------
   config 1 = signers [11;12], config 2 = signers [21;22], both with digest 7 (what changes on chain is the RMNRemote
   signer set and its version). Cycle 1 builds a report under config 1; in cycle 2 config 2 is agreed; the leader's
   bundle signed by the removed signers is refused and nothing is reported, the bundle of the current signers is
   verified against [21;22] and its root is reported. *)
Definition ex_detail (c : rmn_cfg) : cfg_detail :=
  if N.eqb (fst c) 1 then mkDetail [11; 12]%N 3 7 5 else mkDetail [21; 22]%N 3 7 5.
Definition ex_root1 : root := (1, (5, 10), 8, 91)%N.
Definition ex_root2 : root := (1, (11, 12), 8, 92)%N.
Definition ex_rep (r : root) : rmn_report := (5, 900, 3, 6, 7, [r])%N.
(* signatures 101,102 by keys 11,12 over the first report; 103,104 by the removed keys 11,12 over the second report;
   105,106 by the current keys 21,22 over the second report *)
Definition ex_tab : sig_table :=
  [(101, (11, Some (ex_rep ex_root1))); (102, (12, Some (ex_rep ex_root1)));
   (103, (11, Some (ex_rep ex_root2))); (104, (12, Some (ex_rep ex_root2)));
   (105, (21, Some (ex_rep ex_root2))); (106, (22, Some (ex_rep ex_root2)))]%N.
Definition ex_env (roots : list root) : renv := mkREnv (Some 6%N) 0 77 (mkWorld roots [(1, 12)]%N [(1, 5)]%N (2, 1)%N true).
Definition ex_bundle (s1 s2 : N) (r : root) : query :=
  let '(k, (a, b), ad, rt) := r in mkQuery false (Some (mkBundle [SigOk s1; SigOk s2] [LaneOk k a b ad rt])).
Definition ex_history (second : query) (co2 : option cons) : list hround :=
  [ mkHRound (mkQuery false None) (ex_env []) (Some (mkCons [] [(1, 10)]%N [(1, 5)]%N (1, 1)%N)) true;      (* select, config 1 *)
    mkHRound (ex_bundle 101 102 ex_root1) (ex_env [ex_root1]) (Some (mkCons [ex_root1] [] [] cfg_empty)) true;  (* build *)
    mkHRound (mkQuery false None) (ex_env []) (Some (mkCons [] [] [(1, 11)]%N cfg_empty)) true;              (* transmitted *)
    mkHRound (mkQuery false None) (ex_env []) (Some (mkCons [] [(1, 12)]%N [(1, 11)]%N (2, 1)%N)) true;     (* select, config 2 *)
    mkHRound second (ex_env [ex_root2]) co2 true ].
Definition ex_trace second co2 :=
  htrace (toy_verify ex_tab) ex_detail true 3 256 900 (empty_outcome, 0%N) (ex_history second co2).

Example life_history_nonvacuous :
  (* honest bundle of the current signers: verified against [21;22], root reported *)
  (match nth_error (ex_trace (ex_bundle 105 106 ex_root2) (Some (mkCons [ex_root2] [] [] cfg_empty))) 4 with
   | Some ev => ev_call ev = Some ([105; 106]%N, ex_rep ex_root2, [21; 22]%N) /\ ev_res ev = Ok tt /\
                o_roots (ev_out ev) = [ex_root2] /\ ev_out ev <> ev_prev ev /\ o_cfg (ev_prev ev) = (2, 1)%N
   | None => False end) /\
  (* bundle of the removed signers: verified against the same set, refused, nothing observed *)
  (match nth_error (ex_trace (ex_bundle 103 104 ex_root2) None) 4 with
   | Some ev => ev_call ev = Some ([103; 104]%N, ex_rep ex_root2, [21; 22]%N) /\ ev_res ev = Err /\
                ob_roots (ev_obs ev) = [] /\ o_roots (ev_out ev) = []
   | None => False end) /\
  (* the first cycle used the other set *)
  (match nth_error (ex_trace (ex_bundle 105 106 ex_root2) None) 1 with
   | Some ev => ev_call ev = Some ([101; 102]%N, ex_rep ex_root1, [11; 12]%N) /\ o_roots (ev_out ev) = [ex_root1]
   | None => False end).
Proof.
  vm_compute. repeat split; try reflexivity. discriminate.
Qed.

(* every event of that trace satisfies quorum_sound, so life_roots_need_verified_bundle applies to it *)
Example life_history_quorum_sound :
  forall ev, In ev (ex_trace (ex_bundle 105 106 ex_root2) (Some (mkCons [ex_root2] [] [] cfg_empty))) -> ev_res ev = Ok tt.
Proof.
  intros ev H. vm_compute in H. repeat (destruct H as [H|H]; [subst ev; reflexivity|]). contradiction.
Qed.

(* two different histories reaching the same previous outcome: a fresh instance started on that outcome and the
   long-lived one of the example agree on the next round (instance of life_round_memoryless) *)
Example life_memoryless_nonvacuous :
  let h := firstn 4 (ex_history (mkQuery false None) None) in
  let s_long := hfinal (toy_verify ex_tab) ex_detail true 3 256 900 (empty_outcome, 0%N) h in
  let s_fresh := (fst s_long, 0%N) in
  snd s_long = 7%N /\ snd s_fresh <> snd s_long /\
  fst (hstep (toy_verify ex_tab) ex_detail true 3 256 900 s_long
             (mkHRound (ex_bundle 103 104 ex_root2) (ex_env [ex_root2]) None true)) =
  fst (hstep (toy_verify ex_tab) ex_detail true 3 256 900 s_fresh
             (mkHRound (ex_bundle 103 104 ex_root2) (ex_env [ex_root2]) None true)).
Proof. vm_compute. repeat split; try reflexivity. discriminate. Qed.

(* SortSpecP.v — why a stable insertion sort may stand for Go's sort.Slice / slices.SortFunc in the models.
   Go does not promise stability (pdqsort above twelve elements), so the model's [sort_by] is the model of those calls
   ON UNIQUE KEYS only: with unique keys the result of ANY correct sorting algorithm — any permutation of the input
   that is ascending in the key — is the list [sort_by] returns.  Where keys can repeat, the judges either treat the
   tie as outside the compared domain (C09: Check/C09_check.v, pend_sort_tie / filter_sort_tie) or the tie is the
   finding (C20: F29). *)
Require Import Verif.Model.Base Verif.Proofs.BaseP.

Theorem any_sort_is_sort_by {A} (key : A -> N) (l s : list A) :
  NoDup (map key l) -> Permutation s l -> KSorted key s -> s = sort_by (kle key) l.
Proof.
  intros ND P S. apply (ksorted_perm_eq key); [exact S|apply sort_ksorted| |].
  - eapply Permutation_NoDup; [|exact ND]. apply Permutation_map. symmetry. exact P.
  - etransitivity; [exact P|]. symmetry. apply sort_by_perm.
Qed.
Print Assumptions any_sort_is_sort_by.

(* non-vacuity, and the reason for the hypothesis: with a repeated key two different ascending permutations exist *)
Example any_sort_example :
  any_sort_is_sort_by fst [(3, 1); (1, 2); (2, 3)]%N [(1, 2); (2, 3); (3, 1)]%N = any_sort_is_sort_by fst _ _ /\
  sort_by (kle fst) [(3, 1); (1, 2); (2, 3)]%N = [(1, 2); (2, 3); (3, 1)]%N /\
  KSorted fst [(5, 7); (5, 9)]%N /\ KSorted fst [(5, 9); (5, 7)]%N.
Proof.
  split; [reflexivity|]. split; [reflexivity|].
  split; repeat constructor; cbn; lia.
Qed.

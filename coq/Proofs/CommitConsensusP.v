(* CommitConsensusP.v — lemmas and the C01 theorems about Model/CommitConsensus.v *)
Require Import Verif.Model.Base Verif.Proofs.BaseP Verif.Model.Consensus Verif.Proofs.ConsensusP
               Verif.Model.CommitConsensus.
From Coq Require Import ZifyN ZifyNat ZifyBool.

(* ---------- reflection helpers ---------- *)
Lemma N_eqb_reflect : forall x y : N, reflect (x = y) (N.eqb x y).
Proof. exact N.eqb_spec. Qed.
Lemma Z_eqb_reflect : forall x y : Z, reflect (x = y) (Z.eqb x y).
Proof. exact Z.eqb_spec. Qed.

Lemma root_eqb_reflect : forall x y : root_t, reflect (x = y) (root_eqb x y).
Proof.
  intros [[[c1 a1] [s1 e1]] r1] [[[c2 a2] [s2 e2]] r2]. cbn [root_eqb].
  destruct (N.eqb_spec c1 c2) as [->|H]; cbn [andb]; [|constructor; congruence].
  destruct (N.eqb_spec a1 a2) as [->|H]; cbn [andb]; [|constructor; congruence].
  destruct (N.eqb_spec s1 s2) as [->|H]; cbn [andb]; [|constructor; congruence].
  destruct (N.eqb_spec e1 e2) as [->|H]; cbn [andb]; [|constructor; congruence].
  destruct (N.eqb_spec r1 r2) as [->|H]; constructor; congruence.
Qed.

Lemma existsb_N_In x l : existsb (N.eqb x) l = true <-> In x l.
Proof. exact (memN_In x l). Qed.

Lemma nodupb_NoDup (l : list N) : nodupb N.eqb l = true <-> NoDup l.
Proof.
  induction l as [|x l IH]; cbn [nodupb].
  - split; [constructor|reflexivity].
  - rewrite andb_true_iff, negb_true_iff, IH. split.
    + intros [Hn Hd]. constructor; [|exact Hd]. intros Hi. apply existsb_N_In in Hi. congruence.
    + intros ND. inversion ND as [|? ? Hn Hd]; subst. split; [|exact Hd].
      destruct (existsb (N.eqb x) l) eqn:E; [|reflexivity]. apply existsb_N_In in E. contradiction.
Qed.

(* ---------- vals_of / group ---------- *)
Lemma vals_of_in {V} k (es : list (N * V)) v : In v (vals_of k es) <-> In (k, v) es.
Proof.
  unfold vals_of. rewrite in_map_iff. split.
  - intros [[k' v'] [Hv Hf]]. cbn in Hv. subst v'. apply filter_In in Hf. destruct Hf as [Hi He]. cbn in He.
    apply N.eqb_eq in He. now subst.
  - intros Hi. exists (k, v). split; [reflexivity|]. apply filter_In. split; [exact Hi|]. cbn. apply N.eqb_refl.
Qed.

Lemma group_keys {V} (es : list (N * V)) : map fst (group es) = dedup N.eqb (map fst es).
Proof. unfold group. rewrite map_map. cbn [fst]. apply map_id. Qed.

Lemma group_keys_nodup {V} (es : list (N * V)) : NoDup (map fst (group es)).
Proof. rewrite group_keys. apply dedup_nodup. exact N_eqb_reflect. Qed.

Lemma group_in {V} k l (es : list (N * V)) :
  In (k, l) (group es) <-> l = vals_of k es /\ In k (map fst es).
Proof.
  unfold group. rewrite in_map_iff. split.
  - intros [k' [He Hi]]. inversion He; subst. split; [reflexivity|].
    exact (proj1 (dedup_in N.eqb N_eqb_reflect _ _) Hi).
  - intros [-> Hi]. exists k. split; [reflexivity|]. exact (proj2 (dedup_in N.eqb N_eqb_reflect _ _) Hi).
Qed.

(* ---------- consensus_map: what is in the result ---------- *)
Section ConsMap.
  Context {K T : Type}.
  Variable eqb : T -> T -> bool.
  Variable thr_of : K -> option N.

  Lemma consensus_map_in (m : list (K * list T)) k v :
    In (k, v) (consensus_map eqb thr_of m) <->
    exists items thr, In (k, items) m /\ thr_of k = Some thr /\ valid eqb thr items = [v].
  Proof.
    induction m as [|[k' items'] m IH]; cbn [consensus_map].
    - split; [intros []|intros [? [? [[] _]]]].
    - assert (Hskip : In (k, v) (consensus_map eqb thr_of m) <->
                      (exists items thr, In (k, items) m /\ thr_of k = Some thr /\ valid eqb thr items = [v])) by exact IH.
      destruct (thr_of k') as [thr'|] eqn:Et.
      + destruct (valid eqb thr' items') as [|x [|y l]] eqn:Ev.
        * rewrite Hskip. split.
          -- intros [it [th [Hi H]]]. exists it, th. split; [now right|exact H].
          -- intros [it [th [[Hi|Hi] [H1 H2]]]]; [|exists it, th; tauto].
             inversion Hi; subst. rewrite Et in H1. inversion H1; subst. rewrite Ev in H2. discriminate.
        * cbn [In]. rewrite Hskip. split.
          -- intros [He|[it [th [Hi H]]]].
             ++ inversion He; subst. exists items', thr'. split; [now left|]. split; [exact Et|exact Ev].
             ++ exists it, th. split; [now right|exact H].
          -- intros [it [th [[Hi|Hi] [H1 H2]]]]; [|right; exists it, th; tauto].
             inversion Hi; subst. rewrite Et in H1. inversion H1; subst. rewrite Ev in H2. inversion H2; subst. now left.
        * rewrite Hskip. split.
          -- intros [it [th [Hi H]]]. exists it, th. split; [now right|exact H].
          -- intros [it [th [[Hi|Hi] [H1 H2]]]]; [|exists it, th; tauto].
             inversion Hi; subst. rewrite Et in H1. inversion H1; subst. rewrite Ev in H2. discriminate.
      + rewrite Hskip. split.
        * intros [it [th [Hi H]]]. exists it, th. split; [now right|exact H].
        * intros [it [th [[Hi|Hi] [H1 H2]]]]; [|exists it, th; tauto].
          inversion Hi; subst. rewrite Et in H1. discriminate.
  Qed.

  Lemma consensus_map_keys_incl (m : list (K * list T)) k :
    In k (map fst (consensus_map eqb thr_of m)) -> In k (map fst m).
  Proof.
    intros Hi. apply in_map_iff in Hi. destruct Hi as [[k' v] [He Hi]]. cbn in He. subst k'.
    apply consensus_map_in in Hi. destruct Hi as [items [thr [Hi _]]].
    apply in_map_iff. exists (k, items). split; [reflexivity|exact Hi].
  Qed.

  Lemma consensus_map_keys_nodup (m : list (K * list T)) :
    NoDup (map fst m) -> NoDup (map fst (consensus_map eqb thr_of m)).
  Proof.
    induction m as [|[k items] m IH]; cbn [consensus_map map fst]; intros ND; [constructor|].
    inversion ND as [|? ? Hn ND']; subst.
    destruct (thr_of k) as [thr|]; [|now apply IH].
    destruct (valid eqb thr items) as [|x [|y l]]; try now apply IH.
    cbn [map fst]. constructor; [|now apply IH].
    intros Hi. apply Hn. now apply consensus_map_keys_incl.
  Qed.
End ConsMap.

(* ---------- "at least thr distinct oracles satisfy P" ---------- *)
Definition supported_by (P : N -> Prop) (thr : N) : Prop :=
  exists rs, NoDup rs /\ (thr <= N.of_nat (length rs))%N /\ forall o, In o rs <-> P o.

Lemma supported_by_ext (P Q : N -> Prop) thr :
  (forall o, P o <-> Q o) -> supported_by P thr -> supported_by Q thr.
Proof.
  intros HPQ [rs [ND [Hl Hin]]]. exists rs. split; [exact ND|]. split; [exact Hl|].
  intros o. rewrite Hin. apply HPQ.
Qed.

Section Votes.
  Context {T : Type}.
  Variable eqb : T -> T -> bool.
  Hypothesis eqb_spec : forall x y, reflect (x = y) (eqb x y).

  (* with one vote per oracle, "count >= thr" is "thr distinct oracles voted exactly v" *)
  Lemma count_supported (vs : list (N * T)) thr v :
    NoDup (map fst vs) ->
    ((thr <= count eqb v (map snd vs))%N <-> supported_by (fun o => In (o, v) vs) thr).
  Proof.
    intros ND. split.
    - intros Hc. exists (reporters eqb v vs). split; [now apply reporters_nodup|].
      split; [now rewrite (reporters_length eqb eqb_spec)|]. intros o. now apply reporters_in.
    - intros [rs [NDr [Hl Hin]]].
      assert (P : Permutation rs (reporters eqb v vs)).
      { apply NoDup_Permutation; [exact NDr|now apply reporters_nodup|].
        intros o. rewrite Hin. symmetry. now apply reporters_in. }
      rewrite <- (reporters_length eqb eqb_spec). rewrite <- (Permutation_length P). exact Hl.
  Qed.

  Theorem valid_votes_iff (vs : list (N * T)) thr v :
    NoDup (map fst vs) -> (0 < thr)%N ->
    (valid eqb thr (map snd vs) = [v] <->
     supported_by (fun o => In (o, v) vs) thr /\
     forall v', supported_by (fun o => In (o, v') vs) thr -> v' = v).
  Proof.
    intros ND Hthr. rewrite (valid_single_iff eqb eqb_spec thr _ v Hthr).
    rewrite (count_supported vs thr v ND). split; intros [H1 H2]; (split; [exact H1|]).
    - intros v' Hs. apply H2. now apply (count_supported vs thr v' ND).
    - intros x Hc. apply H2. now apply (count_supported vs thr x ND).
  Qed.
End Votes.

(* ---------- entries / votes / agg_map ---------- *)
Section Field.
  Context {O V : Type}.
  Variable get : O -> list (N * V).

  (* oracle o put the entry (k, v) into this field of its observation *)
  Definition reported (aos : list (N * O)) (o k : N) (v : V) : Prop :=
    exists ob, In (o, ob) aos /\ In (k, v) (get ob).

  Lemma entries_in aos k o v : In (k, (o, v)) (entries get aos) <-> reported aos o k v.
  Proof.
    unfold entries, reported. rewrite in_flat_map. split.
    - intros [[o' ob] [Hi He]]. apply in_map_iff in He. destruct He as [[k' v'] [He Hg]].
      cbn in He. inversion He; subst. exists ob. tauto.
    - intros [ob [Hi Hg]]. exists (o, ob). split; [exact Hi|]. apply in_map_iff. exists (k, v). tauto.
  Qed.

  Lemma votes_in aos k o v : In (o, v) (votes get aos k) <-> reported aos o k v.
  Proof. unfold votes. rewrite vals_of_in. apply entries_in. Qed.

  Lemma votes_cons ao aos k :
    votes get (ao :: aos) k =
    map (fun e => (fst ao, snd e)) (filter (fun e => N.eqb (fst e) k) (get (snd ao))) ++ votes get aos k.
  Proof.
    unfold votes, vals_of, entries. cbn [flat_map]. rewrite filter_app, map_app. f_equal.
    induction (get (snd ao)) as [|[k' v'] l IH]; cbn [map filter fst snd]; [reflexivity|].
    destruct (N.eqb k' k); cbn [map snd fst]; now rewrite IH.
  Qed.

  (* one oracle = one vote: distinct oracles, and no observation lists a key twice *)
  Theorem votes_one_per_oracle aos k :
    NoDup (map fst aos) ->
    (forall o ob, In (o, ob) aos -> NoDup (map fst (get ob))) ->
    NoDup (map fst (votes get aos k)).
  Proof.
    induction aos as [|[o ob] aos IH]; intros ND Hk; [constructor|].
    rewrite votes_cons. cbn [fst snd]. rewrite map_app, map_map. cbn [fst].
    inversion ND as [|? ? Hn ND']; subst.
    assert (Hk' : forall o' ob', In (o', ob') aos -> NoDup (map fst (get ob'))) by (intros; eapply Hk; right; eassumption).
    specialize (IH ND' Hk').
    assert (Hone : NoDup (map fst (get ob))) by (eapply Hk; left; reflexivity).
    assert (Hle : forall l : list (N * V), NoDup (map fst l) ->
                  (length (filter (fun e => N.eqb (fst e) k) l) <= 1)%nat).
    { induction l as [|[k' v'] l IHl]; cbn [filter map fst length]; intros NDl; [lia|].
      inversion NDl as [|? ? Hnl NDl']; subst. specialize (IHl NDl').
      destruct (N.eqb_spec k' k) as [->|Hne]; cbn [length]; [|exact IHl].
      destruct (filter (fun e => N.eqb (fst e) k) l) as [|[k2 v2] r] eqn:Ef; [cbn; lia|].
      exfalso. apply Hnl. assert (Hin : In (k2, v2) (filter (fun e => N.eqb (fst e) k) l)) by (rewrite Ef; now left).
      apply filter_In in Hin. destruct Hin as [Hin He]. cbn in He. apply N.eqb_eq in He. subst k2.
      apply in_map_iff. exists (k, v2). tauto. }
    specialize (Hle _ Hone).
    destruct (filter (fun e => N.eqb (fst e) k) (get ob)) as [|e [|e' r]]; cbn [map app length] in *; try lia.
    - exact IH.
    - constructor; [|exact IH]. intros Hi. apply Hn.
      apply in_map_iff in Hi. destruct Hi as [[o' v'] [Ho Hv]]. cbn in Ho. subst o'.
      apply votes_in in Hv. destruct Hv as [ob' [Hi' _]].
      apply in_map_iff. exists (o, ob'). tauto.
  Qed.

  Lemma agg_map_in aos k l :
    In (k, l) (agg_map get aos) <-> l = map snd (votes get aos k) /\ In k (map fst (entries get aos)).
  Proof.
    unfold agg_map. rewrite in_map_iff. split.
    - intros [[k' l'] [He Hi]]. cbn in He. inversion He; subst. apply group_in in Hi. destruct Hi as [-> Hk].
      split; [reflexivity|exact Hk].
    - intros [-> Hk]. exists (k, votes get aos k). split; [reflexivity|]. apply group_in. split; [reflexivity|exact Hk].
  Qed.

  Lemma agg_map_keys_nodup aos : NoDup (map fst (agg_map get aos)).
  Proof.
    unfold agg_map. rewrite map_map. cbn [fst].
    replace (map (fun x : N * list (N * V) => fst x) (group (entries get aos))) with (map fst (group (entries get aos))) by reflexivity.
    apply group_keys_nodup.
  Qed.

  (* ===== the consensus rule of one field: in the result <=> threshold known and unique 'thr'-supported value ===== *)
  Variable eqb : V -> V -> bool.
  Hypothesis eqb_spec : forall x y, reflect (x = y) (eqb x y).

  Theorem field_consensus_iff thr_of aos k v :
    NoDup (map fst aos) ->
    (forall o ob, In (o, ob) aos -> NoDup (map fst (get ob))) ->
    (forall k t, thr_of k = Some t -> (0 < t)%N) ->
    (In (k, v) (consensus_map eqb thr_of (agg_map get aos)) <->
     exists thr, thr_of k = Some thr /\
       supported_by (fun o => reported aos o k v) thr /\
       forall v', supported_by (fun o => reported aos o k v') thr -> v' = v).
  Proof.
    intros ND Hone Hpos.
    pose proof (votes_one_per_oracle aos k ND Hone) as NDv.
    rewrite consensus_map_in. split.
    - intros [items [thr [Hi [Ht Hv]]]]. apply agg_map_in in Hi. destruct Hi as [-> _].
      exists thr. split; [exact Ht|].
      apply (valid_votes_iff eqb eqb_spec _ _ _ NDv (Hpos _ _ Ht)) in Hv. destruct Hv as [Hs Hu]. split.
      + eapply supported_by_ext; [|exact Hs]. intros o. apply votes_in.
      + intros v' Hs'. apply Hu. eapply supported_by_ext; [|exact Hs']. intros o. symmetry. apply votes_in.
    - intros [thr [Ht [Hs Hu]]]. exists (map snd (votes get aos k)), thr. split; [|split; [exact Ht|]].
      + apply agg_map_in. split; [reflexivity|].
        destruct Hs as [rs [_ [Hl Hin]]]. specialize (Hpos _ _ Ht).
        destruct rs as [|o rs]; [cbn in Hl; lia|].
        assert (Hr : reported aos o k v) by (apply Hin; now left).
        apply entries_in in Hr. apply in_map_iff. exists (k, (o, v)). tauto.
      + apply (valid_votes_iff eqb eqb_spec _ _ _ NDv (Hpos _ _ Ht)). split.
        * eapply supported_by_ext; [|exact Hs]. intros o. symmetry. apply votes_in.
        * intros v' Hs'. apply Hu. eapply supported_by_ext; [|exact Hs']. intros o. apply votes_in.
  Qed.

  (* every agreed value is one somebody reported *)
  Lemma consensus_value_reported thr_of aos k v :
    In (k, v) (consensus_map eqb thr_of (agg_map get aos)) -> exists o, reported aos o k v.
  Proof.
    intros Hi. apply consensus_map_in in Hi. destruct Hi as [items [thr [Hi [_ Hv]]]].
    apply agg_map_in in Hi. destruct Hi as [-> _].
    assert (Hin : In v (valid eqb thr (map snd (votes get aos k)))) by (rewrite Hv; now left).
    apply (valid_spec eqb eqb_spec) in Hin. destruct Hin as [Hin _].
    apply in_map_iff in Hin. destruct Hin as [[o v'] [He Hin]]. cbn in He. subst v'.
    exists o. now apply votes_in.
  Qed.
End Field.

Lemma two_f_plus_1_positive f : (0 < two_f_plus_1 f)%N.
Proof.
  unfold two_f_plus_1, to_uint.
  assert (H : ((2 * f + 1) mod 18446744073709551616 <> 0)%Z).
  { intros H. apply Z.mod_divide in H; [|lia]. destruct H as [q Hq]. lia. }
  pose proof (Z.mod_pos_bound (2 * f + 1) 18446744073709551616 ltac:(lia)). lia.
Qed.

Lemma two_f_plus_1_int f : (0 <= f < 2^63)%Z -> two_f_plus_1 f = Z.to_N (2 * f + 1).
Proof. intros H. unfold two_f_plus_1, to_uint. rewrite Z.mod_small; [reflexivity|lia]. Qed.

Lemma thr_2f1_pos fch k t : thr_2f1 fch k = Some t -> (0 < t)%N.
Proof.
  unfold thr_2f1. destruct (alookup k fch); intros H; inversion H; subst. apply two_f_plus_1_positive.
Qed.

(* ====================================================================================================== *)
(*                               C01 — the merkle-root processor                                          *)
(* ====================================================================================================== *)

(* Go maps have unique keys: the only well-formedness fact about an observation not established by validation *)
Definition obs_wf (ob : obs) : Prop := NoDup (map fst (o_fchain ob)).

(* what libocr + ValidateObservation hand to Outcome: distinct oracles, every observation validated *)
Definition valid_input (retry : bool) (roles : roles_t) (known : list N) (dest : N) (aos : list aobs) : Prop :=
  NoDup (map fst aos) /\
  forall o ob, In (o, ob) aos -> obs_wf ob /\ validate_obs retry roles known dest (o, ob) = true.

(* v is THE value of key k at threshold thr: thr distinct oracles reported exactly v, and no other value has that support *)
Definition agreed_value {O V} (get : O -> list (N * V)) (aos : list (N * O)) (k : N) (thr : N) (v : V) : Prop :=
  supported_by (fun o => reported get aos o k v) thr /\
  forall v', supported_by (fun o => reported get aos o k v') thr -> v' = v.

(* o is designated for chain k by the role assignment *)
Definition designated (roles : roles_t) (k o : N) : Prop := exists l, In (k, l) roles /\ In o l.

Lemma supported_in roles o k : In k (supported roles o) <-> designated roles k o.
Proof.
  unfold supported, designated. rewrite in_map_iff. split.
  - intros [[k' l] [He Hf]]. cbn in He. subst k'. apply filter_In in Hf. destruct Hf as [Hi Hm]. cbn in Hm.
    exists l. split; [exact Hi|]. now apply memN_In.
  - intros [l [Hi Ho]]. exists (k, l). split; [reflexivity|]. apply filter_In. split; [exact Hi|]. cbn. now apply memN_In.
Qed.

Lemma supports_dest_true roles dest o : supports_dest roles dest o = Some true -> designated roles dest o.
Proof.
  unfold supports_dest. destruct (alookup dest roles) as [l|] eqn:E; [|discriminate].
  intros H. inversion H as [Hm]. exists l. split; [now apply alookup_In|now apply memN_In].
Qed.

Lemma chains_ok_inv sup cs : chains_ok sup cs = true -> (forall c, In c cs -> In c sup) /\ NoDup cs.
Proof.
  unfold chains_ok. rewrite andb_true_iff, forallb_forall, nodupb_NoDup. intros [H1 H2]. split; [|exact H2].
  intros c Hc. apply memN_In. now apply H1.
Qed.

Lemma validate_obs_inv retry roles known dest o ob :
  validate_obs retry roles known dest (o, ob) = true ->
  (forall e, In e (o_fchain ob) -> (0 < snd e)%Z) /\
  In o known /\
  (forall r, In r (o_roots ob) -> designated roles (root_chain r) o) /\ NoDup (map root_chain (o_roots ob)) /\
  (forall e, In e (o_onramp ob) -> designated roles (fst e) o) /\ NoDup (map fst (o_onramp ob)) /\
  (o_offramp ob <> [] -> designated roles dest o) /\ NoDup (map fst (o_offramp ob)) /\
  (rmn_is_empty (o_rmn ob) = false -> designated roles dest o).
Proof.
  unfold validate_obs. cbn [fst snd].
  destruct (retry && negb (obs_is_empty ob)); [discriminate|].
  destruct (supports_dest roles dest o) as [sd|] eqn:Esd; [|rewrite andb_false_r; discriminate].
  rewrite !andb_true_iff. intros [[Hf Hk] [[[Hr Hon] Hoff] Hrmn]].
  apply chains_ok_inv in Hr. destruct Hr as [Hr1 Hr2]. apply chains_ok_inv in Hon. destruct Hon as [Hon1 Hon2].
  split; [|split; [now apply memN_In|]].
  { intros e He. rewrite forallb_forall in Hf. specialize (Hf e He). lia. }
  split. { intros r Hi. apply supported_in. apply Hr1. now apply in_map. }
  split; [exact Hr2|].
  split. { intros e Hi. apply supported_in. apply Hon1. now apply in_map. }
  split; [exact Hon2|].
  split. { intros Hne. destruct (o_offramp ob) as [|e l]; [congruence|]. apply andb_true_iff in Hoff.
           destruct Hoff as [Hs _]. subst sd. now apply supports_dest_true. }
  split. { destruct (o_offramp ob) as [|e l]; [constructor|]. apply andb_true_iff in Hoff. destruct Hoff as [_ Hn].
           now apply nodupb_NoDup. }
  intros Hne. unfold rmn_valid in Hrmn. rewrite Hne in Hrmn. rewrite !andb_true_iff in Hrmn.
  destruct Hrmn as [[[[[[Hs _] _] _] _] _] _]. subst sd. now apply supports_dest_true.
Qed.

Lemma roots_kv_keys ob : map fst (roots_kv ob) = map root_chain (o_roots ob).
Proof. unfold roots_kv. rewrite map_map. reflexivity. Qed.

Lemma rmn_kv_keys_nodup dest ob : NoDup (map fst (rmn_kv dest ob)).
Proof. unfold rmn_kv. destruct (rmn_is_empty (o_rmn ob)); cbn; repeat constructor. intros []. Qed.

Lemma rmn_votes_votes dest (aos : list (N * obs)) : rmn_votes aos = votes (rmn_kv dest) aos dest.
Proof.
  induction aos as [|[o ob] l IH]; [reflexivity|].
  rewrite (votes_cons (rmn_kv dest) (o, ob) l dest). cbn [rmn_votes flat_map fst snd]. unfold rmn_kv at 1.
  destruct (rmn_is_empty (o_rmn ob)); cbn [filter map app fst snd].
  - exact IH.
  - rewrite N.eqb_refl. cbn [map app fst snd]. f_equal. exact IH.
Qed.

Section C01.
  Variables (retry : bool) (roles : roles_t) (known : list N) (dest : N) (aos : list aobs).
  Hypothesis Hvalid : valid_input retry roles known dest aos.

  Let NDo : NoDup (map fst aos) := proj1 Hvalid.

  Lemma one_roots : forall o ob, In (o, ob) aos -> NoDup (map fst (roots_kv ob)).
  Proof. intros o ob Hi. rewrite roots_kv_keys. destruct (proj2 Hvalid o ob Hi) as [_ Hv]. apply validate_obs_inv in Hv. tauto. Qed.
  Lemma one_onramp : forall o ob, In (o, ob) aos -> NoDup (map fst (onramp_kv ob)).
  Proof. intros o ob Hi. destruct (proj2 Hvalid o ob Hi) as [_ Hv]. apply validate_obs_inv in Hv. unfold onramp_kv. tauto. Qed.
  Lemma one_offramp : forall o ob, In (o, ob) aos -> NoDup (map fst (offramp_kv ob)).
  Proof. intros o ob Hi. destruct (proj2 Hvalid o ob Hi) as [_ Hv]. apply validate_obs_inv in Hv. unfold offramp_kv. tauto. Qed.
  Lemma one_fchain : forall o ob, In (o, ob) aos -> NoDup (map fst (fchain_kv ob)).
  Proof. intros o ob Hi. destruct (proj2 Hvalid o ob Hi) as [Hw _]. exact Hw. Qed.
  Lemma one_rmn : forall o ob, In (o, ob) aos -> NoDup (map fst (rmn_kv dest ob)).
  Proof. intros. apply rmn_kv_keys_nodup. Qed.

  (* ---- C01_one_vote ---- *)
  Theorem one_vote k :
    NoDup (map fst (votes roots_kv aos k)) /\
    NoDup (map fst (votes onramp_kv aos k)) /\
    NoDup (map fst (votes offramp_kv aos k)) /\
    NoDup (map fst (votes (rmn_kv dest) aos k)) /\
    NoDup (map fst (votes fchain_kv aos k)) /\
    (forall l, In (k, l) (a_roots (aggregate aos)) -> l = map snd (votes roots_kv aos k)) /\
    (forall l, In (k, l) (a_onramp (aggregate aos)) -> l = map snd (votes onramp_kv aos k)) /\
    (forall l, In (k, l) (a_offramp (aggregate aos)) -> l = map snd (votes offramp_kv aos k)) /\
    (forall l, In (k, l) (a_fchain (aggregate aos)) -> l = map snd (votes fchain_kv aos k)) /\
    a_rmn (aggregate aos) = map snd (votes (rmn_kv dest) aos dest).
  Proof.
    repeat split.
    - apply votes_one_per_oracle; [exact NDo|exact one_roots].
    - apply votes_one_per_oracle; [exact NDo|exact one_onramp].
    - apply votes_one_per_oracle; [exact NDo|exact one_offramp].
    - apply votes_one_per_oracle; [exact NDo|exact one_rmn].
    - apply votes_one_per_oracle; [exact NDo|exact one_fchain].
    - intros l Hi. cbn [aggregate a_roots] in Hi. now apply agg_map_in in Hi.
    - intros l Hi. cbn [aggregate a_onramp] in Hi. now apply agg_map_in in Hi.
    - intros l Hi. cbn [aggregate a_offramp] in Hi. now apply agg_map_in in Hi.
    - intros l Hi. cbn [aggregate a_fchain] in Hi. now apply agg_map_in in Hi.
    - cbn [aggregate a_rmn]. f_equal. apply rmn_votes_votes.
  Qed.

  (* ---- C01_designated ---- *)
  Theorem reporters_designated o k :
    (forall v, reported roots_kv aos o k v -> designated roles k o) /\
    (forall v, reported onramp_kv aos o k v -> designated roles k o) /\
    (forall v, reported offramp_kv aos o k v -> designated roles dest o) /\
    (forall v, reported (rmn_kv dest) aos o k v -> k = dest /\ designated roles dest o).
  Proof.
    repeat split.
    - intros v [ob [Hi Hg]]. destruct (proj2 Hvalid o ob Hi) as [_ Hv]. apply validate_obs_inv in Hv.
      unfold roots_kv in Hg. apply in_map_iff in Hg. destruct Hg as [r [He Hr]]. inversion He; subst.
      destruct Hv as [_ [_ [H _]]]. now apply H.
    - intros v [ob [Hi Hg]]. destruct (proj2 Hvalid o ob Hi) as [_ Hv]. apply validate_obs_inv in Hv.
      destruct Hv as [_ [_ [_ [_ [H _]]]]]. exact (H _ Hg).
    - intros v [ob [Hi Hg]]. destruct (proj2 Hvalid o ob Hi) as [_ Hv]. apply validate_obs_inv in Hv.
      destruct Hv as [_ [_ [_ [_ [_ [_ [H _]]]]]]]. apply H. unfold offramp_kv in Hg. intros E. rewrite E in Hg. contradiction.
    - destruct H as [ob [Hi Hg]]. unfold rmn_kv in Hg. destruct (rmn_is_empty (o_rmn ob)); [contradiction|].
      destruct Hg as [Hg|[]]. now inversion Hg.
    - destruct H as [ob [Hi Hg]]. destruct (proj2 Hvalid o ob Hi) as [_ Hv]. apply validate_obs_inv in Hv.
      destruct Hv as [_ [_ [_ [_ [_ [_ [_ [_ H]]]]]]]]. apply H. unfold rmn_kv in Hg.
      destruct (rmn_is_empty (o_rmn ob)); [contradiction|reflexivity].
  Qed.

  Variables (F : Z) (c : cons).
  Hypothesis Hcons : get_consensus F dest aos = Ok c.

  Let fch := consensus_map Z.eqb (fun _ : N => Some (two_f_plus_1 F)) (agg_map fchain_kv aos).

  (* the off-ramp map is agreed at the destination's f for every key (fixes/F26.patch) *)
  Lemma get_consensus_inv :
    c_fchain c = fch /\
    (exists fd, alookup dest fch = Some fd /\
       c_offramp c = consensus_map N.eqb (fun _ : N => Some (two_f_plus_1 fd)) (agg_map offramp_kv aos)) /\
    c_roots c = consensus_map root_eqb (thr_2f1 fch) (agg_map roots_kv aos) /\
    c_onramp c = consensus_map N.eqb (thr_2f1 fch) (agg_map onramp_kv aos) /\
    c_rmn c = consensus_map N.eqb (thr_2f1 fch) [(dest, map snd (votes (rmn_kv dest) aos dest))].
  Proof.
    pose proof (one_vote dest) as OV. destruct OV as [_ [_ [_ [_ [_ [_ [_ [_ [_ Hr]]]]]]]]].
    unfold get_consensus in Hcons. fold fch in Hcons. cbn [aggregate a_fchain] in Hcons. fold fch in Hcons.
    destruct (alookup dest fch) as [fd|] eqn:E; [|discriminate].
    inversion Hcons; subst c. cbn [c_fchain c_roots c_onramp c_offramp c_rmn aggregate a_roots a_onramp a_offramp a_rmn].
    cbn [aggregate a_rmn] in Hr. rewrite Hr.
    split; [reflexivity|]. split; [exists fd; split; reflexivity|]. repeat split.
  Qed.

  Lemma fch_keys_nodup : NoDup (map fst fch).
  Proof. apply consensus_map_keys_nodup, agg_map_keys_nodup. Qed.

  (* ---- C01_fchain ---- *)
  Theorem fchain_iff k f :
    alookup k (c_fchain c) = Some f <-> agreed_value fchain_kv aos k (two_f_plus_1 F) f.
  Proof.
    destruct get_consensus_inv as [-> _].
    assert (Hin : alookup k fch = Some f <-> In (k, f) fch).
    { split; [apply alookup_In|apply alookup_NoDup_In, fch_keys_nodup]. }
    rewrite Hin. unfold fch.
    rewrite (field_consensus_iff fchain_kv Z.eqb Z_eqb_reflect _ aos k f NDo one_fchain).
    - unfold agreed_value. split.
      + intros [thr [Ht H]]. inversion Ht; subst. exact H.
      + intros H. exists (two_f_plus_1 F). split; [reflexivity|exact H].
    - intros k' t Ht. inversion Ht; subst. apply two_f_plus_1_positive.
  Qed.

  Theorem fchain_positive k f : alookup k (c_fchain c) = Some f -> (0 < f)%Z.
  Proof.
    destruct get_consensus_inv as [-> _]. intros H. apply alookup_In in H. unfold fch in H.
    apply (consensus_value_reported fchain_kv Z.eqb Z_eqb_reflect) in H. destruct H as [o [ob [Hi Hg]]].
    destruct (proj2 Hvalid o ob Hi) as [_ Hv]. apply validate_obs_inv in Hv. destruct Hv as [Hp _].
    exact (Hp _ Hg).
  Qed.

  Lemma thr_2f1_some k t : thr_2f1 fch k = Some t <-> exists f, alookup k fch = Some f /\ t = two_f_plus_1 f.
  Proof.
    unfold thr_2f1. destruct (alookup k fch) as [f|]; split.
    - intros H. inversion H. exists f. tauto.
    - intros [f' [H1 H2]]. inversion H1; subst. reflexivity.
    - discriminate.
    - intros [f' [H1 _]]. discriminate.
  Qed.

  Lemma field_iff {V} (get : obs -> list (N * V)) eqb (eqb_spec : forall x y, reflect (x = y) (eqb x y)) k v :
    (forall o ob, In (o, ob) aos -> NoDup (map fst (get ob))) ->
    (alookup k (consensus_map eqb (thr_2f1 fch) (agg_map get aos)) = Some v <->
     exists f, alookup k (c_fchain c) = Some f /\ agreed_value get aos k (two_f_plus_1 f) v).
  Proof.
    intros Hone. destruct get_consensus_inv as [-> _].
    assert (Hin : alookup k (consensus_map eqb (thr_2f1 fch) (agg_map get aos)) = Some v <->
                  In (k, v) (consensus_map eqb (thr_2f1 fch) (agg_map get aos))).
    { split; [apply alookup_In|apply alookup_NoDup_In, consensus_map_keys_nodup, agg_map_keys_nodup]. }
    rewrite Hin. rewrite (field_consensus_iff get eqb eqb_spec _ aos k v NDo Hone (thr_2f1_pos fch)).
    unfold agreed_value. split.
    - intros [thr [Ht H]]. apply thr_2f1_some in Ht. destruct Ht as [f [Hf ->]]. exists f. tauto.
    - intros [f [Hf H]]. exists (two_f_plus_1 f). split; [|exact H]. apply thr_2f1_some. exists f. tauto.
  Qed.

  (* ---- C01_per_chain ---- *)
  Theorem per_chain_iff k :
    (forall v, alookup k (c_roots c) = Some v <->
       exists f, alookup k (c_fchain c) = Some f /\ agreed_value roots_kv aos k (two_f_plus_1 f) v) /\
    (forall v, alookup k (c_onramp c) = Some v <->
       exists f, alookup k (c_fchain c) = Some f /\ agreed_value onramp_kv aos k (two_f_plus_1 f) v) /\
    (forall v, alookup k (c_offramp c) = Some v <->
       exists fd, alookup dest (c_fchain c) = Some fd /\ agreed_value offramp_kv aos k (two_f_plus_1 fd) v) /\
    (forall v, alookup k (c_rmn c) = Some v <->
       exists f, alookup k (c_fchain c) = Some f /\ agreed_value (rmn_kv dest) aos k (two_f_plus_1 f) v).
  Proof.
    destruct get_consensus_inv as [Hf [[fdd [Hdd Hoff]] [-> [-> Hr]]]].
    split; [intros v; apply (field_iff roots_kv root_eqb root_eqb_reflect); exact one_roots|].
    split; [intros v; apply (field_iff onramp_kv N.eqb N_eqb_reflect); exact one_onramp|].
    split.
    { intros v. rewrite Hoff, Hf.
      assert (Hin : alookup k (consensus_map N.eqb (fun _ : N => Some (two_f_plus_1 fdd)) (agg_map offramp_kv aos)) = Some v <->
                    In (k, v) (consensus_map N.eqb (fun _ : N => Some (two_f_plus_1 fdd)) (agg_map offramp_kv aos))).
      { split; [apply alookup_In|apply alookup_NoDup_In, consensus_map_keys_nodup, agg_map_keys_nodup]. }
      rewrite Hin. rewrite (field_consensus_iff offramp_kv N.eqb N_eqb_reflect _ aos k v NDo one_offramp).
      - unfold agreed_value. split.
        + intros [thr [Ht H]]. inversion Ht; subst. exists fdd. split; [exact Hdd|exact H].
        + intros [fd' [Hfd' H]]. rewrite Hdd in Hfd'. inversion Hfd'; subst fd'.
          exists (two_f_plus_1 fdd). split; [reflexivity|exact H].
      - intros k' t Ht. inversion Ht; subst. apply two_f_plus_1_positive. }
    intros v. rewrite Hr, Hf. cbn [consensus_map].
    pose proof (votes_one_per_oracle (rmn_kv dest) aos dest NDo one_rmn) as NDv.
    assert (Hk : forall o k' v', reported (rmn_kv dest) aos o k' v' -> k' = dest).
    { intros o k' v' [ob [_ Hg]]. unfold rmn_kv in Hg. destruct (rmn_is_empty (o_rmn ob)); [contradiction|].
      destruct Hg as [Hg|[]]. now inversion Hg. }
    assert (Hsup : forall k' thr v', (0 < thr)%N -> supported_by (fun o => reported (rmn_kv dest) aos o k' v') thr -> k' = dest).
    { intros k' thr v' Hp [rs [_ [Hl Hin]]]. destruct rs as [|o rs]; [cbn in Hl; lia|].
      eapply Hk. apply Hin. now left. }
    unfold agreed_value. split.
    - intros H. destruct (thr_2f1 fch dest) as [thr|] eqn:Et; [|discriminate].
      destruct (valid N.eqb thr (map snd (votes (rmn_kv dest) aos dest))) as [|x [|y l]] eqn:Ev; try discriminate.
      cbn [alookup] in H. destruct (N.eqb_spec k dest) as [->|Hne]; [|discriminate]. inversion H; subst x.
      apply thr_2f1_some in Et. destruct Et as [f [Hfd ->]]. exists f. split; [exact Hfd|].
      apply (valid_votes_iff N.eqb N_eqb_reflect _ _ _ NDv (two_f_plus_1_positive f)) in Ev. destruct Ev as [Hs Hu]. split.
      + eapply supported_by_ext; [|exact Hs]. intros o. apply votes_in.
      + intros v' Hs'. apply Hu. eapply supported_by_ext; [|exact Hs']. intros o. symmetry. apply votes_in.
    - intros [f [Hfd [Hs Hu]]].
      assert (k = dest) by (eapply Hsup; [apply (two_f_plus_1_positive f)|exact Hs]). subst k.
      assert (Et : thr_2f1 fch dest = Some (two_f_plus_1 f)) by (apply thr_2f1_some; exists f; tauto).
      rewrite Et.
      assert (Ev : valid N.eqb (two_f_plus_1 f) (map snd (votes (rmn_kv dest) aos dest)) = [v]).
      { apply (valid_votes_iff N.eqb N_eqb_reflect _ _ _ NDv (two_f_plus_1_positive f)). split.
        - eapply supported_by_ext; [|exact Hs]. intros o. symmetry. apply votes_in.
        - intros v' Hs'. apply Hu. eapply supported_by_ext; [|exact Hs']. intros o. apply votes_in. }
      rewrite Ev. cbn [alookup]. now rewrite N.eqb_refl.
  Qed.
End C01.

(* get_consensus fails exactly when the destination's f is not agreed *)
Theorem dest_required F dest aos :
  get_consensus F dest aos = Err <->
  alookup dest (consensus_map Z.eqb (fun _ : N => Some (two_f_plus_1 F)) (agg_map fchain_kv aos)) = None.
Proof.
  unfold get_consensus. cbn [aggregate a_fchain].
  destruct (alookup dest _); split; intros H; try discriminate; reflexivity.
Qed.

(* ---------- at most f oracles cannot account for a 2f+1 support ---------- *)
Definition honest_support (P : N -> Prop) (B : list N) (n : nat) : Prop :=
  exists hs, NoDup hs /\ (n <= length hs)%nat /\ forall o, In o hs -> P o /\ ~ In o B.

Lemma supported_minus_byzantine P f B :
  (0 <= f < 2^63)%Z -> supported_by P (two_f_plus_1 f) ->
  NoDup B -> (length B <= Z.to_nat f)%nat ->
  honest_support P B (Z.to_nat f + 1).
Proof.
  intros Hf [rs [ND [Hl Hin]]] NDB HB. rewrite (two_f_plus_1_int f Hf) in Hl.
  exists (filter (fun o => negb (memN o B)) rs). split; [now apply NoDup_filter|]. split.
  - pose proof (honest_reporters rs B (Z.to_nat (2 * f + 1)) (Z.to_nat f) ND NDB ltac:(lia) HB). lia.
  - intros o Ho. apply filter_In in Ho. destruct Ho as [Ho Hn]. split; [now apply Hin|].
    intros HiB. apply memN_In in HiB. rewrite HiB in Hn. discriminate.
Qed.

Section C01_byz.
  Variables (retry : bool) (roles : roles_t) (known : list N) (dest : N) (aos : list aobs) (F : Z) (c : cons).
  Hypothesis Hvalid : valid_input retry roles known dest aos.
  Hypothesis Hcons : get_consensus F dest aos = Ok c.

  (* ---- C01_byzantine ---- *)
  Theorem byzantine k f B :
    alookup k (c_fchain c) = Some f -> (f < 2^63)%Z -> NoDup B -> (length B <= Z.to_nat f)%nat ->
    (forall v, alookup k (c_roots c) = Some v ->
       honest_support (fun o => reported roots_kv aos o k v) B (Z.to_nat f + 1)) /\
    (forall v, alookup k (c_onramp c) = Some v ->
       honest_support (fun o => reported onramp_kv aos o k v) B (Z.to_nat f + 1)) /\
    (forall v, alookup k (c_rmn c) = Some v ->
       honest_support (fun o => reported (rmn_kv dest) aos o k v) B (Z.to_nat f + 1)).
  Proof.
    intros Hf Hlt NDB HB.
    pose proof (fchain_positive retry roles known dest aos Hvalid F c Hcons k f Hf) as Hpos.
    destruct (per_chain_iff retry roles known dest aos Hvalid F c Hcons k) as [H1 [H2 [_ H4]]].
    repeat split; intros v Hv.
    - apply H1 in Hv. destruct Hv as [f' [Hf' [Hs _]]]. rewrite Hf in Hf'. inversion Hf'; subst f'.
      apply (supported_minus_byzantine _ f B); try assumption; lia.
    - apply H2 in Hv. destruct Hv as [f' [Hf' [Hs _]]]. rewrite Hf in Hf'. inversion Hf'; subst f'.
      apply (supported_minus_byzantine _ f B); try assumption; lia.
    - apply H4 in Hv. destruct Hv as [f' [Hf' [Hs _]]]. rewrite Hf in Hf'. inversion Hf'; subst f'.
      apply (supported_minus_byzantine _ f B); try assumption; lia.
  Qed.

  (* off-ramp next numbers (destination data, fixes/F26.patch): at the DESTINATION's f, for every source key k —
     any B of at most f_dest oracles leaves f_dest + 1 reporters outside B *)
  Theorem byzantine_offramp fd B :
    alookup dest (c_fchain c) = Some fd -> (fd < 2^63)%Z -> NoDup B -> (length B <= Z.to_nat fd)%nat ->
    forall k v, alookup k (c_offramp c) = Some v ->
      honest_support (fun o => reported offramp_kv aos o k v) B (Z.to_nat fd + 1).
  Proof.
    intros Hf Hlt NDB HB k v Hv.
    pose proof (fchain_positive retry roles known dest aos Hvalid F c Hcons dest fd Hf) as Hpos.
    destruct (per_chain_iff retry roles known dest aos Hvalid F c Hcons k) as [_ [_ [H3 _]]].
    apply H3 in Hv. destruct Hv as [f' [Hf' [Hs _]]]. rewrite Hf in Hf'. inversion Hf'; subst f'.
    apply (supported_minus_byzantine _ fd B); try assumption; lia.
  Qed.

  (* hence: if every oracle outside B that reports a root for k reports h, the agreed root (if any) is h *)
  Corollary byzantine_cannot_alter k f B h :
    alookup k (c_fchain c) = Some f -> (f < 2^63)%Z -> NoDup B -> (length B <= Z.to_nat f)%nat ->
    (forall o v, ~ In o B -> reported roots_kv aos o k v -> v = h) ->
    forall v, alookup k (c_roots c) = Some v -> v = h.
  Proof.
    intros Hf Hlt NDB HB Hh v Hv.
    destruct (byzantine k f B Hf Hlt NDB HB) as [H1 _]. destruct (H1 v Hv) as [hs [_ [Hl Hin]]].
    destruct hs as [|o hs]; [cbn in Hl; lia|].
    destruct (Hin o (or_introl eq_refl)) as [Hr Hn]. exact (Hh o v Hn Hr).
  Qed.
End C01_byz.

(* ---------- executable check of valid_input, for the Examples ---------- *)
Definition valid_inputb (retry : bool) roles known dest (aos : list aobs) : bool :=
  nodupb N.eqb (map fst aos) &&
  forallb (fun ao => nodupb N.eqb (map fst (o_fchain (snd ao))) && validate_obs retry roles known dest ao) aos.

Lemma valid_inputb_sound retry roles known dest aos :
  valid_inputb retry roles known dest aos = true -> valid_input retry roles known dest aos.
Proof.
  unfold valid_inputb, valid_input. rewrite andb_true_iff, nodupb_NoDup, forallb_forall. intros [H1 H2].
  split; [exact H1|]. intros o ob Hi. specialize (H2 _ Hi). apply andb_true_iff in H2. cbn [snd] in H2.
  destruct H2 as [Hn Hv]. split; [now apply nodupb_NoDup|exact Hv].
Qed.

(* ---------- Example: 7 oracles (F = 2), destination 9 (f = 1), sources 1 (f = 2), 2 (f = 1), 3 (f = 1) ----------
   chain 1: five oracles report root A (2*2+1 = 5: agreed); chain 2: two values with 3 and 3 votes (conflict, left out);
   chain 3: only two votes (under-supported, left out); off-ramp next of chain 1: four votes for 10, agreed at the
   destination's 2*1+1 = 3 (fixes/F26.patch; at chain 1's own 2*2+1 = 5 it was left out). *)
Definition ex_rmn0 : rmn_cfg := mkRmn 0 true true [] 0 0 true.
Definition ex_fch : list (N * Z) := [(1%N, 2%Z); (2%N, 1%Z); (3%N, 1%Z); (9%N, 1%Z)].
Definition ex_rootA : root_t := (1, 7, (10, 20), 100)%N.
Definition ex_rootB : root_t := (2, 7, (5, 6), 200)%N.
Definition ex_rootB' : root_t := (2, 7, (5, 7), 201)%N.
Definition ex_rootC : root_t := (3, 7, (1, 1), 300)%N.
Definition ex_roles : roles_t := [(1, [0;1;2;3;4;5;6]); (2, [0;1;2;3;4;5]); (3, [0;1]); (9, [0;1;2;3;4;5;6])]%N.
Definition ex_aos : list aobs :=
  [ (0, mkObs [ex_rootA; ex_rootB; ex_rootC] [(1, 20)] [(1, 10)] ex_rmn0 ex_fch);
    (1, mkObs [ex_rootA; ex_rootB; ex_rootC] [(1, 20)] [(1, 10)] ex_rmn0 ex_fch);
    (2, mkObs [ex_rootA; ex_rootB] [(1, 20)] [(1, 10)] ex_rmn0 ex_fch);
    (3, mkObs [ex_rootA; ex_rootB'] [(1, 20)] [(1, 10)] ex_rmn0 ex_fch);
    (4, mkObs [ex_rootA; ex_rootB'] [(1, 20)] [(1, 9)] ex_rmn0 ex_fch);
    (5, mkObs [ex_rootB'] [] [] ex_rmn0 ex_fch);
    (6, mkObs [] [] [] ex_rmn0 [(9%N, 1%Z)]) ]%N.

Example ex_valid_input : valid_input false ex_roles [0;1;2;3;4;5;6]%N 9 ex_aos.
Proof. apply valid_inputb_sound. vm_compute. reflexivity. Qed.

Example ex_consensus :
  get_consensus 2 9 ex_aos =
  Ok (mkCons [(1%N, ex_rootA)] [(1, 20)]%N [(1, 10)]%N [] [(1%N, 2%Z); (2%N, 1%Z); (3%N, 1%Z); (9%N, 1%Z)]).
Proof. vm_compute. reflexivity. Qed.

(* without validation the one-vote theorem is false: one oracle listing a root three times makes it "agreed" alone *)
Definition ex_dup_aos : list aobs :=
  [ (0, mkObs [ex_rootC; ex_rootC; ex_rootC] [] [] ex_rmn0 ex_fch);
    (1, mkObs [] [] [] ex_rmn0 ex_fch); (2, mkObs [] [] [] ex_rmn0 ex_fch);
    (3, mkObs [] [] [] ex_rmn0 ex_fch); (4, mkObs [] [] [] ex_rmn0 ex_fch) ]%N.

Theorem one_vote_unvalidated_refuted :
  exists F dest aos c k v,
    NoDup (map fst aos) /\ get_consensus F dest aos = Ok c /\ alookup k (c_roots c) = Some v /\
    forall o, reported roots_kv aos o k v -> o = 0%N.
Proof.
  exists 2%Z, 9%N, ex_dup_aos, (mkCons [(3%N, ex_rootC)] [] [] [] ex_fch), 3%N, ex_rootC.
  split. { apply nodupb_NoDup. vm_compute. reflexivity. }
  split; [vm_compute; reflexivity|]. split; [vm_compute; reflexivity|].
  intros o [ob [Hi Hg]]. cbn in Hi.
  destruct Hi as [Hi|[Hi|[Hi|[Hi|[Hi|[]]]]]]; inversion Hi; subst; try reflexivity; cbn in Hg; contradiction.
Qed.

(* ---------- F26: before fixes/F26.patch the off-ramp number of source chain k was agreed at 2*f_k+1 ----------
   although only destination readers report it and up to f_dest of them may be Byzantine. 10 oracles, F = 3,
   destination 9 with f = 3 (all ten read it), source 1 with f = 1; B = {7,8,9}, |B| = f_dest.
   (a) B alone gets a number agreed: the honest oracles' off-ramp reads fail this round, 7,8,9 report 999;
   (b) B blocks the honest agreement: 0..6 (2*f_dest+1 oracles) report 10, 7,8,9 report 999 — two values reach 3.
   The repaired function leaves (a) out and agrees 10 in (b). *)
Definition f26_fch : list (N * Z) := [(1%N, 1%Z); (9%N, 3%Z)].
Definition f26_roles : roles_t := [(1, [0;1;2;3]); (9, [0;1;2;3;4;5;6;7;8;9])]%N.
Definition f26_known : list N := [0;1;2;3;4;5;6;7;8;9]%N.
Definition f26_obs (off : list (N * N)) : obs := mkObs [] [] off ex_rmn0 f26_fch.
Definition f26_aos (honest byz : list (N * N)) : list aobs :=
  [ (0, f26_obs honest); (1, f26_obs honest); (2, f26_obs honest); (3, f26_obs honest); (4, f26_obs honest);
    (5, f26_obs honest); (6, f26_obs honest); (7, f26_obs byz); (8, f26_obs byz); (9, f26_obs byz) ]%N.

Theorem offramp_key_f_unfixed_refuted :
  exists F dest roles known k fd B aos_a aos_b,
    NoDup B /\ (length B <= Z.to_nat fd)%nat /\
    valid_input false roles known dest aos_a /\ valid_input false roles known dest aos_b /\
    (* (a) an off-ramp number all of whose reporters are in B is agreed *)
    (exists c, get_consensus_unfixed F dest aos_a = Ok c /\ alookup dest (c_fchain c) = Some fd /\
               alookup k (c_offramp c) = Some 999%N /\
               forall o v, reported offramp_kv aos_a o k v -> In o B) /\
    (exists c, get_consensus F dest aos_a = Ok c /\ alookup k (c_offramp c) = None) /\
    (* (b) 2*fd+1 oracles outside B report 10, only B says otherwise, and nothing is agreed *)
    (exists H, NoDup H /\ length H = Z.to_nat (2 * fd + 1) /\
               forall o, In o H -> ~ In o B /\ reported offramp_kv aos_b o k 10%N) /\
    (forall o v, reported offramp_kv aos_b o k v -> v <> 10%N -> In o B) /\
    (exists c, get_consensus_unfixed F dest aos_b = Ok c /\ alookup dest (c_fchain c) = Some fd /\
               alookup k (c_offramp c) = None) /\
    (exists c, get_consensus F dest aos_b = Ok c /\ alookup k (c_offramp c) = Some 10%N).
Proof.
  exists 3%Z, 9%N, f26_roles, f26_known, 1%N, 3%Z, [7;8;9]%N,
         (f26_aos [] [(1, 999)]%N), (f26_aos [(1, 10)]%N [(1, 999)]%N).
  split; [apply nodupb_NoDup; vm_compute; reflexivity|]. split; [vm_compute; lia|].
  split; [apply valid_inputb_sound; vm_compute; reflexivity|].
  split; [apply valid_inputb_sound; vm_compute; reflexivity|].
  split.
  { eexists. split; [vm_compute; reflexivity|]. split; [vm_compute; reflexivity|]. split; [vm_compute; reflexivity|].
    intros o v [ob [Hi Hg]]. cbn in Hi.
    destruct Hi as [E|[E|[E|[E|[E|[E|[E|[E|[E|[E|[]]]]]]]]]]]; inversion E; subst o ob; cbn in Hg;
      try contradiction; cbn; tauto. }
  split; [eexists; split; vm_compute; reflexivity|].
  split.
  { exists [0;1;2;3;4;5;6]%N. split; [apply nodupb_NoDup; vm_compute; reflexivity|]. split; [vm_compute; reflexivity|].
    intros o Ho. split.
    - cbn in Ho |- *. intros Hb. destruct Ho as [<-|[<-|[<-|[<-|[<-|[<-|[<-|[]]]]]]]];
        destruct Hb as [Hb|[Hb|[Hb|[]]]]; discriminate.
    - exists (f26_obs [(1, 10)]%N). cbn in Ho |- *.
      destruct Ho as [<-|[<-|[<-|[<-|[<-|[<-|[<-|[]]]]]]]]; tauto. }
  split.
  { intros o v [ob [Hi Hg]] Hne. cbn in Hi.
    destruct Hi as [E|[E|[E|[E|[E|[E|[E|[E|[E|[E|[]]]]]]]]]]]; inversion E; subst o ob; cbn in Hg;
      destruct Hg as [Hg|[]]; inversion Hg; subst v; try congruence; cbn; tauto. }
  split; [eexists; split; [vm_compute; reflexivity|split; vm_compute; reflexivity]|].
  eexists; split; vm_compute; reflexivity.
Qed.

(* CommitMerkleP.v — theorems about interval selection and merkle-root observation (Model/CommitMerkle.v). *)
Require Import Verif.Model.Base Verif.Proofs.BaseP Verif.Model.SeqRange Verif.Proofs.SeqRangeP
               Verif.Model.CommitMerkle.
From Coq Require Import Sorting.Sorted.

(* ====================================================================================================
   Part A — reportRangesOutcome
   ==================================================================================================== *)

(* what one off-ramp entry contributes *)
Definition sel_range (lim : N -> N -> N -> N * N) (on : list seq_chain) (n : N) (p : seq_chain)
  : list chain_range :=
  match alookup (fst p) on with
  | Some m => if N.leb (snd p) m then [(fst p, lim (snd p) m n)] else []
  | None => []
  end.
Definition has_on (on : list seq_chain) (p : seq_chain) : bool :=
  match alookup (fst p) on with Some _ => true | None => false end.

Lemma rr_loop_spec lim on n off :
  rr_loop lim on n off = (flat_map (sel_range lim on n) off, filter (has_on on) off).
Proof.
  induction off as [|[k o] off IH]; cbn [rr_loop flat_map filter]; [reflexivity|].
  rewrite IH. unfold sel_range, has_on. cbn [fst snd].
  destruct (alookup k on) as [m|]; reflexivity.
Qed.

Lemma report_ranges_with_spec lim on off n :
  report_ranges_with lim on off n =
  (sort_by fst_le (flat_map (sel_range lim on n) off), sort_by fst_le (filter (has_on on) off)).
Proof. unfold report_ranges_with. rewrite rr_loop_spec. reflexivity. Qed.

(* generic list facts *)
Lemma Permutation_flat_map_compat {A B} (f : A -> list B) l l' :
  Permutation l l' -> Permutation (flat_map f l) (flat_map f l').
Proof.
  induction 1 as [|x l l' P IH|x y l|l l' l'' P1 IH1 P2 IH2]; cbn [flat_map].
  - constructor.
  - now apply Permutation_app_head.
  - rewrite !app_assoc. apply Permutation_app_tail, Permutation_app_comm.
  - etransitivity; eassumption.
Qed.

Lemma sel_range_keys lim on n p x : In x (sel_range lim on n p) -> fst x = fst p.
Proof.
  unfold sel_range. destruct (alookup (fst p) on) as [m|]; [|contradiction].
  destruct (N.leb (snd p) m); [|contradiction].
  intros [<-|[]]. reflexivity.
Qed.

Lemma flat_sel_keys_in lim on n off k :
  In k (map fst (flat_map (sel_range lim on n) off)) -> In k (map fst off).
Proof.
  rewrite !in_map_iff. intros [x [Hk Hx]]. apply in_flat_map in Hx. destruct Hx as [p [Hp Hx]].
  exists p. split; [|exact Hp]. apply sel_range_keys in Hx. congruence.
Qed.

Lemma flat_sel_nodup lim on n off :
  NoDup (map fst off) -> NoDup (map fst (flat_map (sel_range lim on n) off)).
Proof.
  induction off as [|p off IH]; cbn [flat_map map]; intros ND; [constructor|].
  inversion ND as [|? ? Hn ND']; subst. rewrite map_app.
  assert (Hs : forall x, In x (sel_range lim on n p) -> fst x = fst p) by (intros; eapply sel_range_keys; eauto).
  unfold sel_range in *. destruct (alookup (fst p) on) as [m|]; [|now apply IH].
  destruct (N.leb (snd p) m); [|now apply IH].
  cbn [map app fst]. constructor; [|now apply IH].
  intros HI. apply Hn. eapply flat_sel_keys_in; exact HI.
Qed.

Lemma filter_keys_nodup {V} (f : N * V -> bool) l : NoDup (map fst l) -> NoDup (map fst (filter f l)).
Proof.
  induction l as [|p l IH]; cbn [filter map]; intros ND; [constructor|].
  inversion ND as [|? ? Hn ND']; subst.
  destruct (f p); [|now apply IH]. cbn [map]. constructor; [|now apply IH].
  intros HI. apply Hn. apply in_map_iff in HI. destruct HI as [x [Hx HI]]. apply filter_In in HI.
  apply in_map_iff. exists x. tauto.
Qed.

Lemma alookup_perm {V} k (m m' : list (N * V)) :
  NoDup (map fst m) -> Permutation m m' -> alookup k m = alookup k m'.
Proof.
  intros ND P.
  assert (ND' : NoDup (map fst m')) by (eapply Permutation_NoDup; [apply Permutation_map; exact P|exact ND]).
  destruct (alookup k m) as [v|] eqn:E.
  - symmetry. apply alookup_NoDup_In; [exact ND'|]. eapply Permutation_in; [exact P|]. now apply alookup_In.
  - destruct (alookup k m') as [v'|] eqn:E'; [|reflexivity].
    apply alookup_In in E'. assert (HI : In (k, v') m) by (eapply Permutation_in; [symmetry; exact P|exact E']).
    rewrite (alookup_NoDup_In k m v' ND HI) in E. discriminate.
Qed.

Lemma ksorted_fst_sort {V} (l : list (N * V)) : KSorted fst (sort_by fst_le l).
Proof. exact (sort_ksorted fst l). Qed.

(* ---------- C02, interval part ---------- *)

(* The selected intervals are exactly [off, min(on, off+n-1)] for the chains that have both values agreed and
   something pending (off <= on); sorted by chain, no chain twice, each of size <= n; the carried off-ramp
   cursor is exactly the off-ramp map restricted to chains with an agreed on-ramp value, sorted. *)
Theorem report_ranges_exact on off n rs os :
  NoDup (map fst off) ->
  (forall k m, alookup k on = Some m -> u64 m) ->
  (1 <= n)%N ->
  report_ranges on off n = (rs, os) ->
  (forall k a b, In (k, (a, b)) rs <->
     exists m, In (k, a) off /\ alookup k on = Some m /\ (a <= m)%N /\ b = N.min m (a + n - 1)) /\
  KSorted fst rs /\ NoDup (map fst rs) /\
  (forall k a b, In (k, (a, b)) rs -> (a <= b)%N /\ (range_size (a, b) <= n)%N) /\
  (forall k o, In (k, o) os <-> In (k, o) off /\ alookup k on <> None) /\
  KSorted fst os /\ NoDup (map fst os).
Proof.
  intros ND Hon Hn H. unfold report_ranges in H. rewrite report_ranges_with_spec in H.
  inversion H; subst rs os; clear H.
  assert (Hin : forall k a b, In (k, (a, b)) (sort_by fst_le (flat_map (sel_range limit on n) off)) <->
     exists m, In (k, a) off /\ alookup k on = Some m /\ (a <= m)%N /\ b = N.min m (a + n - 1)).
  { intros k a b. rewrite sort_by_in, in_flat_map. split.
    - intros [[k' o] [Hp Hx]]. unfold sel_range in Hx. cbn [fst snd] in Hx.
      destruct (alookup k' on) as [m|] eqn:E; [|contradiction].
      destruct (N.leb_spec o m) as [Hle|Hgt]; [|contradiction].
      destruct Hx as [Hx|[]]. rewrite (limit_spec o m n Hle (Hon _ _ E) Hn) in Hx.
      inversion Hx; subst. exists m. repeat split; assumption.
    - intros [m [Hp [E [Hle Hb]]]]. exists (k, a). split; [exact Hp|].
      unfold sel_range. cbn [fst snd]. rewrite E.
      destruct (N.leb_spec a m) as [_|Hgt]; [|lia].
      left. rewrite (limit_spec a m n Hle (Hon _ _ E) Hn). now subst. }
  split; [exact Hin|].
  split; [apply ksorted_fst_sort|].
  split.
  { eapply Permutation_NoDup; [apply Permutation_map; symmetry; apply sort_by_perm|].
    apply flat_sel_nodup; exact ND. }
  split.
  { intros k a b HI. apply Hin in HI. destruct HI as [m [_ [E [Hle Hb]]]]. subst b.
    unfold range_size. cbn [fst snd]. lia. }
  split.
  { intros k o. rewrite sort_by_in, filter_In. unfold has_on. cbn [fst].
    destruct (alookup k on); split; intros [? ?]; split; congruence. }
  split; [apply ksorted_fst_sort|].
  eapply Permutation_NoDup; [apply Permutation_map; symmetry; apply sort_by_perm|].
  apply filter_keys_nodup; exact ND.
Qed.

(* omitted when nothing is pending, and when either value is not agreed *)
Corollary report_ranges_omitted on off n rs os k :
  NoDup (map fst off) -> (forall k m, alookup k on = Some m -> u64 m) -> (1 <= n)%N ->
  report_ranges on off n = (rs, os) ->
  (forall o m, In (k, o) off -> alookup k on = Some m -> (m < o)%N) \/ alookup k on = None \/ ~ In k (map fst off) ->
  ~ In k (map fst rs).
Proof.
  intros ND Hon Hn H Hc HI.
  destruct (report_ranges_exact on off n rs os ND Hon Hn H) as [Hin _].
  apply in_map_iff in HI. destruct HI as [[k' [a b]] [Hk HI]]. cbn [fst] in Hk. subst k'.
  apply Hin in HI. destruct HI as [m [Hp [E [Hle _]]]].
  destruct Hc as [Hc|[Hc|Hc]].
  - specialize (Hc _ _ Hp E). lia.
  - congruence.
  - apply Hc. apply in_map_iff. exists (k, a). split; [reflexivity|exact Hp].
Qed.

(* the outcome does not depend on the iteration order of either Go map *)
Theorem report_ranges_order_indep on on' off off' n :
  NoDup (map fst off) -> NoDup (map fst on) ->
  Permutation off off' -> Permutation on on' ->
  report_ranges on off n = report_ranges on' off' n.
Proof.
  intros ND NDon P Pon. unfold report_ranges. rewrite !report_ranges_with_spec.
  assert (Hl : forall k, alookup k on = alookup k on') by (intros; now apply alookup_perm).
  assert (Hf : forall l, flat_map (sel_range limit on n) l = flat_map (sel_range limit on' n) l).
  { intros l. apply flat_map_ext. intros p. unfold sel_range. now rewrite Hl. }
  assert (Hg : forall l, filter (has_on on) l = filter (has_on on') l).
  { intros l. apply filter_ext. intros p. unfold has_on. now rewrite Hl. }
  rewrite <- Hf, <- Hg. f_equal.
  - change (@fst_le (N * N)) with (kle (fst (B := N * N))). apply sort_by_key_perm.
    + apply flat_sel_nodup; exact ND.
    + apply Permutation_flat_map_compat; exact P.
  - change (@fst_le N) with (kle (fst (B := N))). apply sort_by_key_perm.
    + apply filter_keys_nodup; exact ND.
    + apply Permutation_filter_compat; exact P.
Qed.

Example report_ranges_nonvacuous :
  report_ranges [(5, 20); (3, 400); (9, 7)]%N [(9, 8); (3, 100); (5, 20); (4, 1)]%N 256
  = ([(3, (100, 355)); (5, (20, 20))], [(3, 100); (5, 20); (9, 8)])%N.
Proof. vm_compute. reflexivity. Qed.

(* before fixes/F02.patch the interval of a chain with off = 0 and on = 2^64-1 was not bounded *)
Theorem report_ranges_unfixed_refuted :
  exists on off n rs os,
    NoDup (map fst off) /\ (forall k m, alookup k on = Some m -> u64 m) /\ (1 <= n)%N /\
    report_ranges_unfixed on off n = (rs, os) /\
    exists k a b, In (k, (a, b)) rs /\ ~ (range_size (a, b) <= n)%N.
Proof.
  exists [(1, max64)]%N, [(1, 0)]%N, 256%N, [(1, (0, max64))]%N, [(1, 0)]%N.
  split; [repeat constructor; intros []|].
  split.
  { intros k m. cbn [alookup]. destruct (N.eqb k 1); [|discriminate]. intros E. inversion E. vm_compute. reflexivity. }
  split; [lia|]. split; [vm_compute; reflexivity|].
  exists 1%N, 0%N, max64. split; [left; reflexivity|]. vm_compute. intros H. apply H. reflexivity.
Qed.

(* ====================================================================================================
   Part B — the merkle tree: a non-empty leaf list always has a root (the fuel of mroot is sufficient)
   ==================================================================================================== *)
Section TreeP.
  Variable h : N -> N -> N.
  Variable zero : N.

  Lemma next_layer_len l :
    (length (next_layer h zero l) <= length l)%nat /\
    forall a, (length (next_layer h zero (a :: l)) <= S (length l))%nat.
  Proof.
    induction l as [|b l [IH1 IH2]].
    - split; [cbn; lia|]. intros a. cbn. lia.
    - split; [apply IH2|]. intros a. cbn [next_layer length]. lia.
  Qed.

  Lemma mroot_fuel_some fuel : forall l, l <> [] -> (length l <= fuel)%nat ->
    exists r, mroot_fuel h zero fuel l = Some r.
  Proof.
    induction fuel as [|f IH]; intros l Hne Hlen.
    - destruct l; [congruence|cbn in Hlen; lia].
    - destruct l as [|a [|b l]]; [congruence| exists a; reflexivity|].
      cbn [mroot_fuel]. apply IH.
      + cbn [next_layer]. discriminate.
      + cbn [next_layer length] in *. pose proof (proj1 (next_layer_len l)). lia.
  Qed.

  Lemma mroot_some l : l <> [] -> exists r, mroot h zero l = Some r.
  Proof. intros Hne. unfold mroot. apply mroot_fuel_some; [exact Hne|lia]. Qed.

  Lemma mroot_nil : mroot h zero [] = None.
  Proof. reflexivity. Qed.
End TreeP.

(* ====================================================================================================
   Part C — ObserveMerkleRoots: a root is reported only for a completely read interval
   ==================================================================================================== *)

(* [s; s+1; ...; s+len-1] in unbounded arithmetic *)
Fixpoint iotaN (s : N) (len : nat) : list N :=
  match len with O => [] | S l => s :: iotaN (s + 1) l end.

Lemma iotaN_length s len : length (iotaN s len) = len.
Proof. revert s; induction len; intros; cbn; [reflexivity|now rewrite IHlen]. Qed.

Lemma iotaN_In s len x : In x (iotaN s len) <-> (s <= x < s + N.of_nat len)%N.
Proof.
  revert s; induction len as [|len IH]; intros s; cbn [iotaN In].
  - lia.
  - rewrite IH. lia.
Qed.

Lemma iotaN_sorted s len : StronglySorted N.le (iotaN s len).
Proof.
  revert s; induction len as [|len IH]; intros s; cbn [iotaN]; constructor; [apply IH|].
  apply Forall_forall. intros x Hx. apply iotaN_In in Hx. lia.
Qed.

Lemma iotaN_NoDup s len : NoDup (iotaN s len).
Proof.
  revert s; induction len as [|len IH]; intros s; cbn [iotaN]; constructor; [|apply IH].
  rewrite iotaN_In. lia.
Qed.

(* consecutive under the uint64 successor *)
Fixpoint chain_ok (prev : option N) (l : list N) : Prop :=
  match l with
  | [] => True
  | x :: l' => match prev with None => True | Some p => x = succ64 p end /\ chain_ok (Some x) l'
  end.

Lemma hash_consecutive_iff ms : forall prev hs,
  hash_consecutive prev ms = Some hs <->
  (map m_hash ms = map Some hs /\ chain_ok prev (map m_seq ms)).
Proof.
  induction ms as [|m ms IH]; intros prev hs; cbn [hash_consecutive map chain_ok].
  - split.
    + intros H. inversion H. split; [reflexivity|exact I].
    + intros [H _]. destruct hs; [reflexivity|discriminate].
  - assert (Hgap : (match prev with None => false | Some p => negb (N.eqb (m_seq m) (succ64 p)) end) = false
                   <-> match prev with None => True | Some p => m_seq m = succ64 p end).
    { destruct prev as [p|]; [|tauto]. destruct (N.eqb_spec (m_seq m) (succ64 p)); cbn; split; congruence. }
    destruct (match prev with None => false | Some p => negb (N.eqb (m_seq m) (succ64 p)) end) eqn:G.
    + split; [discriminate|]. intros [_ [Hc _]]. apply Hgap in Hc. discriminate.
    + destruct (m_hash m) as [x|] eqn:Hm.
      * destruct (hash_consecutive (Some (m_seq m)) ms) as [hs'|] eqn:R.
        -- apply IH in R. destruct R as [R1 R2]. split.
           ++ intros H. inversion H; subst. cbn [map]. rewrite R1. repeat split; try assumption. now apply Hgap.
           ++ intros [H1 [_ H2]]. destruct hs as [|y hs]; [discriminate|]. cbn [map] in H1.
              inversion H1; subst. f_equal. f_equal.
              rewrite R1 in H3. clear - H3. revert hs H3. induction hs' as [|a hs' IHh]; intros [|b hs] E; try discriminate; [reflexivity|].
              cbn [map] in E. inversion E; subst. f_equal. now apply IHh.
        -- split; [discriminate|]. intros [H1 [_ H2]]. destruct hs as [|y hs]; [discriminate|].
           cbn [map] in H1. inversion H1; subst.
           assert (X : hash_consecutive (Some (m_seq m)) ms = Some hs) by (apply IH; split; assumption).
           congruence.
      * split; [discriminate|]. intros [H1 _]. destruct hs; discriminate.
Qed.

(* sorted + consecutive under succ64 = really consecutive: the wrap 2^64-1 -> 0 would break sortedness *)
Lemma chain_sorted_iota l : forall p,
  chain_ok (Some p) l -> StronglySorted N.le (p :: l) -> Forall u64 (p :: l) ->
  l = iotaN (p + 1) (length l).
Proof.
  induction l as [|x l IH]; intros p Hc Hs Hu; [reflexivity|].
  cbn [chain_ok] in Hc. destruct Hc as [Hx Hc].
  inversion Hs as [|? ? Hs' Hall]; subst. inversion Hall as [|? ? Hpx _]; subst.
  inversion Hu as [|? ? Hup Hu']; subst.
  assert (Hx' : succ64 p = (p + 1)%N).
  { destruct (N.eq_dec p max64) as [->|Hne].
    - rewrite succ64_max in Hpx. vm_compute in Hpx. exfalso. apply Hpx. reflexivity.
    - apply succ64_small. unfold u64, two64, max64 in *. lia. }
  cbn [length iotaN]. rewrite Hx' in Hc, Hs', Hu' |- *. f_equal. apply IH; assumption.
Qed.

Lemma chain_iota s len : (s + N.of_nat len <= two64)%N -> forall prev,
  match prev with None => True | Some p => s = succ64 p end -> chain_ok prev (iotaN s len).
Proof.
  revert s; induction len as [|len IH]; intros s Hb prev Hp; cbn [iotaN chain_ok]; [exact I|].
  split; [exact Hp|]. destruct len as [|len']; [exact I|].
  apply IH; [lia|]. symmetry. apply succ64_small. unfold max64, two64 in *. lia.
Qed.

Lemma covers_iff ms s e : u64 e ->
  (covers ms s e = true <->
   (s <= e)%N /\ N.of_nat (length ms) = (e - s + 1)%N /\ Forall (fun m => (s <= m_seq m <= e)%N) ms).
Proof.
  intros He. unfold covers.
  destruct (N.ltb_spec e s) as [H1|H1]; [split; [discriminate|lia]|].
  destruct ms as [|m ms].
  - split; [discriminate|]. cbn [length]. lia.
  - rewrite (sub64_small e s H1 He). rewrite andb_true_iff, N.eqb_eq, forallb_forall, Forall_forall.
    cbn [length]. split.
    + intros [HL HF]. repeat split; try lia; apply HF in H; apply andb_true_iff in H; destruct H as [A B];
        apply N.leb_le in A, B; assumption.
    + intros [_ [HL HF]]. split; [lia|]. intros x Hx. apply HF in Hx. apply andb_true_iff. split; apply N.leb_le; lia.
Qed.

Lemma sorted_seqs (ms : list msg) : StronglySorted N.le (map m_seq (sort_by seq_le ms)).
Proof.
  change (@sort_by msg seq_le ms) with (sort_by (kle m_seq) ms).
  pose proof (sort_ksorted m_seq ms) as H. induction H as [|a l Hs IH Hall]; cbn [map]; constructor; [exact IH|].
  rewrite Forall_map. exact Hall.
Qed.

  (* what "the oracle read exactly the messages of [s,e], one per sequence number" means *)
  Definition complete_read (ms : list msg) (s e : N) (hs : list N) : Prop :=
    (s <= e)%N /\ N.of_nat (length ms) = (e - s + 1)%N /\
    map m_seq (sort_by seq_le ms) = iotaN s (length ms) /\
    map m_hash (sort_by seq_le ms) = map Some hs.

  (* "exactly one message for every sequence number of the interval, none outside" *)
  Lemma complete_read_counts ms s e hs :
    complete_read ms s e hs ->
    forall q, length (filter (fun m => N.eqb (m_seq m) q) ms) =
              if (N.leb s q && N.leb q e)%bool then 1%nat else 0%nat.
  Proof.
    intros [Hse [Hlen [Hseq _]]] q.
    assert (P : Permutation (filter (fun m => N.eqb (m_seq m) q) (sort_by seq_le ms))
                            (filter (fun m => N.eqb (m_seq m) q) ms))
      by (apply Permutation_filter_compat, sort_by_perm).
    rewrite <- (Permutation_length P).
    assert (G : forall l : list msg, length (filter (fun m => N.eqb (m_seq m) q) l)
                               = length (filter (fun x => N.eqb x q) (map m_seq l))).
    { induction l as [|m l IH]; cbn [filter map]; [reflexivity|].
      destruct (N.eqb (m_seq m) q); cbn [length]; now rewrite IH. }
    rewrite G, Hseq.
    assert (C : forall len s0, length (filter (fun x => N.eqb x q) (iotaN s0 len)) =
                               if (N.leb s0 q && N.ltb q (s0 + N.of_nat len))%bool then 1%nat else 0%nat).
    { induction len as [|len IH]; intros s0; cbn [iotaN filter].
      - destruct (N.leb_spec s0 q), (N.ltb_spec q (s0 + N.of_nat 0)); cbn; try reflexivity; lia.
      - destruct (N.eqb_spec s0 q) as [->|Hne]; cbn [length]; rewrite IH.
        + destruct (N.leb_spec (q + 1) q); [lia|]. cbn [andb].
          destruct (N.leb_spec q q); [|lia]. destruct (N.ltb_spec q (q + N.of_nat (S len))); [reflexivity|lia].
        + destruct (N.leb_spec (s0 + 1) q), (N.leb_spec s0 q), (N.ltb_spec q (s0 + 1 + N.of_nat len)),
            (N.ltb_spec q (s0 + N.of_nat (S len))); cbn; try reflexivity; lia. }
    rewrite C.
    destruct (N.leb_spec s q), (N.leb_spec q e), (N.ltb_spec q (s + N.of_nat (length ms))); cbn; try reflexivity; lia.
  Qed.

Section ObserveP.
  Variable h : N -> N -> N.
  Variable zero : N.

  (* ---------- C02, root part: reported <-> complete read, hashed in sequence order, bound address ---------- *)
  Theorem observe_one_iff k s e ms addr k' s' e' a r :
    u64 e ->
    (observe_one h zero k s e (Some ms) addr = Some (k', (s', e'), a, r) <->
     k' = k /\ s' = s /\ e' = e /\ addr = Some a /\
     exists hs, complete_read ms s e hs /\ mroot h zero hs = Some r).
  Proof.
    intros He. unfold observe_one, observe_one_with. cbn [andb].
    destruct (covers ms s e) eqn:C; cbn [negb].
    - apply (covers_iff ms s e He) in C. destruct C as [Hse [Hlen Hrng]].
      unfold compute_root.
      destruct (hash_consecutive None (sort_by seq_le ms)) as [hs|] eqn:HC.
      + apply hash_consecutive_iff in HC. destruct HC as [Hh Hc].
        assert (Hcr : complete_read ms s e hs).
        { split; [exact Hse|]. split; [exact Hlen|]. split; [|exact Hh].
          pose proof (sorted_seqs ms) as Hsorted.
          assert (Hrs : Forall (fun x => (s <= x <= e)%N) (map m_seq (sort_by seq_le ms))).
          { rewrite Forall_map. eapply Permutation_Forall; [symmetry; apply sort_by_perm|exact Hrng]. }
          assert (Hl : length (map m_seq (sort_by seq_le ms)) = length ms) by (rewrite map_length; apply sort_by_length).
          destruct (map m_seq (sort_by seq_le ms)) as [|x l] eqn:EL.
          { cbn in Hl. rewrite <- Hl in Hlen. cbn in Hlen. lia. }
          cbn [chain_ok] in Hc. destruct Hc as [_ Hc].
          assert (Hu : Forall u64 (x :: l)).
          { eapply Forall_impl; [|exact Hrs]. cbn. unfold u64 in *. intros; lia. }
          pose proof (chain_sorted_iota l x Hc Hsorted Hu) as Hl'.
          cbn [length] in Hl. rewrite <- Hl. cbn [iotaN].
          assert (Hx : x = s).
          { inversion Hrs as [|? ? Hx Hrl]; subst.
            assert (Hle : (x + N.of_nat (length l) <= e)%N).
            { destruct (length l) as [|n0] eqn:LL; [lia|].
              assert (Hlast : In (x + N.of_nat (S n0))%N l).
              { rewrite Hl'. apply iotaN_In. lia. }
              rewrite Forall_forall in Hrl. specialize (Hrl _ Hlast). lia. }
            rewrite <- Hl in Hlen. lia. }
          subst x. f_equal. exact Hl'. }
        split.
        * destruct (mroot h zero hs) as [r0|] eqn:MR; [|discriminate].
          destruct addr as [a0|]; [|discriminate]. intros H. inversion H; subst.
          repeat split; try reflexivity. exists hs. split; assumption.
        * intros [-> [-> [-> [-> [hs' [[_ [_ [_ Hh']]] MR]]]]]].
          assert (hs' = hs).
          { rewrite Hh in Hh'. clear - Hh'. revert hs' Hh'. induction hs as [|x hs IH]; intros [|y hs'] E; try discriminate; [reflexivity|].
            cbn [map] in E. inversion E; subst. f_equal. now apply IH. }
          subst hs'. rewrite MR. reflexivity.
      + split; [discriminate|].
        intros [_ [_ [_ [_ [hs [[_ [_ [Hseq Hh]]] _]]]]]].
        assert (X : hash_consecutive None (sort_by seq_le ms) = Some hs).
        { apply hash_consecutive_iff. split; [exact Hh|]. rewrite Hseq. apply chain_iota; [|exact I].
          unfold u64 in He. lia. }
        congruence.
    - split; [discriminate|].
      intros [_ [_ [_ [_ [hs [[Hse [Hlen [Hseq _]]] _]]]]]].
      assert (X : covers ms s e = true).
      { apply (covers_iff ms s e He). split; [exact Hse|]. split; [exact Hlen|].
        eapply Permutation_Forall; [apply sort_by_perm|].
        apply (proj1 (Forall_map m_seq (fun x => (s <= x <= e)%N) (sort_by seq_le ms))). rewrite Hseq.
        apply Forall_forall. intros x Hx. apply iotaN_In in Hx. lia. }
      congruence.
  Qed.

  (* reader error, hasher error, missing address: nothing is reported *)
  Lemma observe_one_reader_err k s e addr : observe_one h zero k s e None addr = None.
  Proof. reflexivity. Qed.

  (* the reported root does not depend on the order in which the reader lists the messages *)
  Theorem observe_one_order_indep k s e ms ms' addr r :
    u64 e -> Permutation ms ms' ->
    observe_one h zero k s e (Some ms) addr = Some r ->
    observe_one h zero k s e (Some ms') addr = Some r.
  Proof.
    intros He P H. destruct r as [[[k' [s' e']] a] r].
    apply (observe_one_iff k s e ms addr k' s' e' a r He) in H.
    destruct H as [-> [-> [-> [-> [hs [[Hse [Hlen [Hseq Hh]]] MR]]]]]].
    apply (observe_one_iff k s e ms' (Some a) k s e a r He). repeat split; try reflexivity.
    assert (ND : NoDup (map m_seq ms)).
    { eapply Permutation_NoDup; [apply Permutation_map, sort_by_perm|]. rewrite Hseq. apply iotaN_NoDup. }
    assert (E : sort_by seq_le ms = sort_by seq_le ms').
    { change (@sort_by msg seq_le) with (@sort_by msg (kle m_seq)). apply sort_by_key_perm; assumption. }
    exists hs. split; [|exact MR].
    unfold complete_read. rewrite <- (Permutation_length P), <- E. repeat split; assumption.
  Qed.

  (* every complete read with working hasher and bound address IS reported (hypotheses of the iff are satisfiable) *)
  Example observe_one_nonvacuous :
    observe_one (fun a b => a * 1000 + b)%N 999 7 10 12
      (Some [(12, 7, Some 33); (10, 7, Some 31); (11, 7, Some 32)]%N) (Some 5%N)
    = Some (7, (10, 12), 5, (31 * 1000 + 32) * 1000 + (33 * 1000 + 999))%N.
  Proof. vm_compute. reflexivity. Qed.

  (* ---------- ObserveMerkleRoots as a whole ---------- *)
  Theorem observe_roots_sound supported ranges reader addr k s e a r :
    (forall k s e, In (k, (s, e)) ranges -> u64 e) ->
    In (k, (s, e), a, r) (observe_roots h zero supported ranges reader addr) ->
    exists sup ms hs,
      supported = Some sup /\ In k sup /\ In (k, (s, e)) ranges /\
      reader k (s, e) = Some ms /\ addr k = Some a /\
      complete_read ms s e hs /\ mroot h zero hs = Some r.
  Proof.
    intros Hu HI. unfold observe_roots, observe_roots_with in HI.
    destruct supported as [sup|]; [|contradiction].
    apply in_flat_map in HI. destruct HI as [[k0 [s0 e0]] [Hr HI]].
    destruct (memN k0 sup) eqn:M; [|contradiction]. apply memN_In in M.
    destruct (reader k0 (s0, e0)) as [ms|] eqn:R; [|contradiction].
    destruct (observe_one_with h zero true k0 s0 e0 (Some ms) (addr k0)) as [[[[k1 [s1 e1]] a1] r1]|] eqn:O; [|contradiction].
    destruct HI as [HI|[]]. inversion HI; subst k1 s1 e1 a1 r1.
    apply (observe_one_iff k0 s0 e0 ms (addr k0) k s e a r (Hu _ _ _ Hr)) in O.
    destruct O as [-> [-> [-> [Ha [hs [Hc MR]]]]]].
    exists sup, ms, hs. split; [reflexivity|]. repeat (split; [assumption|]). assumption.
  Qed.
End ObserveP.

(* ---------- F01: before the repair a consecutive prefix of the interval was enough ---------- *)
Theorem observe_one_unfixed_refuted :
  exists h zero k s e ms addr r,
    u64 e /\ observe_one_unfixed h zero k s e (Some ms) addr = Some r /\
    ~ (exists hs, complete_read ms s e hs).
Proof.
  exists (fun a b => a * 1000 + b)%N, 999%N, 7%N, 10%N, 15%N,
         [(10, 7, Some 31); (11, 7, Some 32)]%N, (Some 5%N), (7, (10, 15), 5, 31032)%N.
  split; [vm_compute; reflexivity|]. split; [vm_compute; reflexivity|].
  intros [hs [_ [Hlen _]]]. vm_compute in Hlen. discriminate.
Qed.

(* The header's source chain selector is not compared with the chain that was queried (finding F01b):
   the model (= the code) reports a root for messages that all claim another source chain. *)
Theorem observe_one_wrong_chain_refuted :
  exists h zero k s e ms addr r,
    u64 e /\ observe_one h zero k s e (Some ms) addr = Some r /\
    ~ Forall (fun m => m_src m = k) ms.
Proof.
  exists (fun a b => a * 1000 + b)%N, 999%N, 7%N, 10%N, 11%N,
         [(10, 8, Some 31); (11, 8, Some 32)]%N, (Some 5%N), (7, (10, 11), 5, 31032)%N.
  split; [vm_compute; reflexivity|]. split; [vm_compute; reflexivity|].
  intros H. inversion H as [|? ? Hx _]; subst. vm_compute in Hx. discriminate.
Qed.

(* Full statement of the root clause, outside the recorded class (every message's header names the chain
   that was queried): reported -> exactly one message per sequence number of the interval, none outside, all
   from that chain, root = tree over their hashes in sequence order, with the bound address. *)
Theorem observe_one_exact_except_known h zero k s e ms addr k' s' e' a r :
  u64 e ->
  Forall (fun m => m_src m = k) ms ->
  observe_one h zero k s e (Some ms) addr = Some (k', (s', e'), a, r) ->
  k' = k /\ s' = s /\ e' = e /\ addr = Some a /\
  Forall (fun m => m_src m = k) ms /\
  (forall q, length (filter (fun m => N.eqb (m_seq m) q) ms) = if (N.leb s q && N.leb q e)%bool then 1%nat else 0%nat) /\
  exists hs, map m_hash (sort_by seq_le ms) = map Some hs /\
             map m_seq (sort_by seq_le ms) = iotaN s (length ms) /\
             mroot h zero hs = Some r.
Proof.
  intros He Hsrc H. apply (observe_one_iff h zero k s e ms addr k' s' e' a r He) in H.
  destruct H as [-> [-> [-> [-> [hs [Hc MR]]]]]].
  repeat split; try assumption.
  - intros q. exact (complete_read_counts ms s e hs Hc q).
  - destruct Hc as [_ [_ [Hseq Hh]]]. exists hs. repeat split; assumption.
Qed.

(* ExecMergeP.v — theorems about the execute merges (C07). *)
Require Import Verif.Model.Base Verif.Proofs.BaseP Verif.Model.Consensus Verif.Proofs.ConsensusP Verif.Model.ExecMerge.
From Coq Require Import ZifyN ZifyNat ZifyBool.

(* ---------- reflection of the item equalities ---------- *)
Lemma list_eqb_N_spec l1 : forall l2, reflect (l1 = l2) (list_eqb N.eqb l1 l2).
Proof.
  induction l1 as [|x l1 IH]; intros [|y l2]; cbn [list_eqb]; try (constructor; congruence).
  destruct (N.eqb_spec x y) as [->|Hne]; cbn [andb].
  - destruct (IH l2) as [->|Hne]; constructor; congruence.
  - constructor; congruence.
Qed.

Lemma commit_eqb_spec a b : reflect (a = b) (commit_eqb a b).
Proof.
  destruct a as [i1 s1 r1 l1 h1 e1], b as [i2 s2 r2 l2 h2 e2]. unfold commit_eqb. cbn [c_id c_src c_root c_lo c_hi c_exec].
  destruct (N.eqb_spec i1 i2) as [->|H]; [|constructor; congruence].
  destruct (N.eqb_spec s1 s2) as [->|H]; [|constructor; congruence].
  destruct (N.eqb_spec r1 r2) as [->|H]; [|constructor; congruence].
  destruct (N.eqb_spec l1 l2) as [->|H]; [|constructor; congruence].
  destruct (N.eqb_spec h1 h2) as [->|H]; [|constructor; congruence].
  destruct (list_eqb_N_spec e1 e2) as [->|H]; constructor; congruence.
Qed.

Lemma msg_eqb_spec a b : reflect (a = b) (msg_eqb a b).
Proof.
  destruct a as [i1 s1 d1], b as [i2 s2 d2]. unfold msg_eqb. cbn [m_id m_seq m_mid].
  destruct (N.eqb_spec i1 i2) as [->|H]; [|constructor; congruence].
  destruct (N.eqb_spec s1 s2) as [->|H]; [|constructor; congruence].
  destruct (N.eqb_spec d1 d2) as [->|H]; constructor; congruence.
Qed.

Lemma tok_eqb_spec a b : reflect (a = b) (tok_eqb a b).
Proof.
  destruct a as [r1 d1], b as [r2 d2]. unfold tok_eqb. cbn [t_ready t_data].
  destruct (Bool.eqb_spec r1 r2) as [->|H]; [|constructor; congruence].
  destruct (N.eqb_spec d1 d2) as [->|H]; constructor; congruence.
Qed.

Lemma nonce_eqb_spec a b : reflect (a = b) (nonce_eqb a b).
Proof.
  destruct a as [[c1 s1] n1], b as [[c2 s2] n2]. unfold nonce_eqb. cbn [fst snd].
  destruct (N.eqb_spec c1 c2) as [->|H]; [|constructor; congruence].
  destruct (N.eqb_spec s1 s2) as [->|H]; [|constructor; congruence].
  destruct (N.eqb_spec n1 n2) as [->|H]; constructor; congruence.
Qed.

(* ---------- votes of attributed observations: the counting argument ---------- *)
Section Support.
  Context {T : Type}.
  Variable eqb : T -> T -> bool.
  Hypothesis eqb_spec : forall x y, reflect (x = y) (eqb x y).
  Variable f : obs -> list T.      (* the items one observation puts into one validator *)

  Definition items_of (aos : list ao) : list T := flat_map (fun a => f (snd a)) aos.
  (* the oracles whose observation contains x *)
  Definition supporters (x : T) (aos : list ao) : list N :=
    map fst (filter (fun a => existsb (eqb x) (f (snd a))) aos).
  (* x is reported (identically) by at least thr distinct oracles; rs = exactly the oracles reporting it *)
  Definition supported_by (thr : N) (aos : list ao) (x : T) : Prop :=
    exists rs, NoDup rs /\ (thr <= N.of_nat (length rs))%N /\
               forall o, In o rs <-> exists ob, In (o, ob) aos /\ In x (f ob).

  Lemma existsb_eqb_in x l : existsb (eqb x) l = true <-> In x l.
  Proof.
    rewrite existsb_exists. split.
    - intros [y [Hy He]]. destruct (eqb_spec x y); [now subst|discriminate].
    - intros H. exists x. split; [exact H|]. destruct (eqb_spec x x); congruence.
  Qed.

  Lemma count_nodup x l : NoDup l -> count eqb x l = if existsb (eqb x) l then 1%N else 0%N.
  Proof.
    induction 1 as [|y l Hn ND IH]; cbn [count existsb]; [reflexivity|].
    destruct (eqb_spec x y) as [->|Hne]; cbn [orb].
    - rewrite IH. destruct (existsb (eqb y) l) eqn:E; [|reflexivity].
      apply existsb_eqb_in in E. contradiction.
    - rewrite IH. reflexivity.
  Qed.

  Lemma count_items x aos :
    (forall a, In a aos -> NoDup (f (snd a))) ->
    count eqb x (items_of aos) = N.of_nat (length (supporters x aos)).
  Proof.
    unfold items_of, supporters. induction aos as [|a aos IH]; intros Hnd; cbn [flat_map filter map length]; [reflexivity|].
    rewrite (count_app eqb eqb_spec), IH by (intros; apply Hnd; now right).
    rewrite count_nodup by (apply Hnd; now left).
    destruct (existsb (eqb x) (f (snd a))); cbn [map length]; lia.
  Qed.

  Lemma supporters_nodup x aos : NoDup (map fst aos) -> NoDup (supporters x aos).
  Proof.
    unfold supporters. induction aos as [|a aos IH]; cbn [map filter]; intros ND; [constructor|].
    inversion ND as [|? ? Hn ND']; subst.
    destruct (existsb (eqb x) (f (snd a))); cbn [map]; [|now apply IH].
    constructor; [|now apply IH]. intros Hi. apply Hn.
    apply in_map_iff in Hi. destruct Hi as [b [Hb Hf]]. apply filter_In in Hf.
    apply in_map_iff. exists b. tauto.
  Qed.

  Lemma supporters_in x aos o : In o (supporters x aos) <-> exists ob, In (o, ob) aos /\ In x (f ob).
  Proof.
    unfold supporters. rewrite in_map_iff. split.
    - intros [[o' ob] [Ho Hf]]. cbn in Ho. subst o'. apply filter_In in Hf. destruct Hf as [Hi He]. cbn in He.
      exists ob. split; [exact Hi|]. now apply existsb_eqb_in.
    - intros [ob [Hi Hx]]. exists (o, ob). split; [reflexivity|]. apply filter_In. split; [exact Hi|].
      cbn. now apply existsb_eqb_in.
  Qed.

  Lemma items_of_in x aos : In x (items_of aos) <-> exists o ob, In (o, ob) aos /\ In x (f ob).
  Proof.
    unfold items_of. rewrite in_flat_map. split.
    - intros [[o ob] [Hi Hx]]. now exists o, ob.
    - intros [o [ob [Hi Hx]]]. now exists (o, ob).
  Qed.

  (* validity = reported, and reported by at least thr distinct oracles *)
  Theorem valid_supporters thr aos x :
    (forall a, In a aos -> NoDup (f (snd a))) ->
    (In x (valid eqb thr (items_of aos)) <->
     In x (items_of aos) /\ (thr <= N.of_nat (length (supporters x aos)))%N).
  Proof. intros Hnd. rewrite (valid_spec eqb eqb_spec), count_items by exact Hnd. tauto. Qed.

  Theorem valid_supported thr aos x :
    NoDup (map fst aos) -> (forall a, In a aos -> NoDup (f (snd a))) ->
    In x (valid eqb thr (items_of aos)) -> supported_by thr aos x.
  Proof.
    intros ND Hnd Hx. apply valid_supporters in Hx; [|exact Hnd]. destruct Hx as [_ Hc].
    exists (supporters x aos). split; [now apply supporters_nodup|]. split; [exact Hc|].
    intros o. apply supporters_in.
  Qed.

  (* converse: any set of distinct reporters of size >= thr makes the item valid *)
  Theorem supported_valid thr aos x rs :
    NoDup (map fst aos) -> (forall a, In a aos -> NoDup (f (snd a))) ->
    NoDup rs -> (forall o, In o rs -> exists ob, In (o, ob) aos /\ In x (f ob)) ->
    (thr <= N.of_nat (length rs))%N -> rs <> [] ->
    In x (valid eqb thr (items_of aos)).
  Proof.
    intros ND Hnd NDr Hrs Hthr Hne. apply valid_supporters; [exact Hnd|]. split.
    - destruct rs as [|o rs']; [congruence|]. destruct (Hrs o (or_introl eq_refl)) as [ob [Hi Hx]].
      apply items_of_in. now exists o, ob.
    - assert (Hincl : incl rs (supporters x aos)) by (intros o Ho; apply supporters_in; now apply Hrs).
      pose proof (NoDup_incl_length NDr Hincl). lia.
  Qed.
End Support.

(* ---------- Go-map well-formedness and validation ---------- *)
Definition wf_obs (o : obs) : Prop :=
  NoDup (keys (o_commits o)) /\
  NoDup (keys (o_msgs o)) /\ (forall k l, In (k, l) (o_msgs o) -> NoDup (keys l)) /\
  NoDup (keys (o_nonces o)) /\ (forall k l, In (k, l) (o_nonces o) -> NoDup (keys l)).

(* every observation is a well-formed map structure and passed ValidateObservation for its oracle *)
Definition validated (sup : N -> list N) (dest : N) (fchain : list (N * Z)) (aos : list ao) : Prop :=
  forall o ob, In (o, ob) aos -> wf_obs ob /\ validate (sup o) dest fchain ob = true.
Definition validated_unfixed (sup : N -> list N) (dest : N) (fchain : list (N * Z)) (aos : list ao) : Prop :=
  forall o ob, In (o, ob) aos -> wf_obs ob /\ validate_unfixed (sup o) dest fchain ob = true.
Definition validated_nochains (sup : N -> list N) (dest : N) (aos : list ao) : Prop :=
  forall o ob, In (o, ob) aos -> wf_obs ob /\ validate_nochains (sup o) dest ob = true.

Lemma nodup_app {A} (l1 l2 : list A) :
  NoDup l1 -> NoDup l2 -> (forall x, In x l1 -> In x l2 -> False) -> NoDup (l1 ++ l2).
Proof.
  induction l1 as [|a l1 IH]; cbn [app]; intros N1 N2 Hd; [exact N2|].
  inversion N1 as [|? ? Hn N1']; subst. constructor.
  - rewrite in_app_iff. intros [H|H]; [contradiction|]. apply (Hd a); [now left|exact H].
  - apply IH; try assumption. intros x H1 H2. apply (Hd x); [now right|exact H2].
Qed.

Lemma entries_cases {V} k (m : list (N * list V)) :
  NoDup (keys m) -> entries k m = [] \/ exists l, In (k, l) m /\ entries k m = l.
Proof.
  unfold entries, keys. induction m as [|[k' l'] m IH]; cbn [map flat_map fst snd]; intros ND; [now left|].
  inversion ND as [|? ? Hn ND']; subst.
  destruct (N.eqb_spec k' k) as [->|Hne].
  - right. exists l'. split; [now left|].
    assert (E : flat_map (fun kv : N * list V => if N.eqb (fst kv) k then snd kv else []) m = []).
    { clear IH ND ND'. induction m as [|[k2 l2] m IH]; cbn [flat_map fst snd]; [reflexivity|].
      destruct (N.eqb_spec k2 k) as [->|H2].
      - exfalso. apply Hn. cbn. now left.
      - apply IH. intros Hi. apply Hn. cbn. now right. }
    rewrite E. apply app_nil_r.
  - cbn [app]. destruct (IH ND') as [E|[l [Hi E]]]; [now left|]. right. exists l. split; [now right|exact E].
Qed.

Lemma val_reports_nodup roots ranges l :
  val_reports roots ranges l = true ->
  NoDup (map c_root l) /\ forall d, In d l -> ~ In (c_root d) roots.
Proof.
  revert roots ranges. induction l as [|d l IH]; intros roots ranges H; cbn [val_reports map] in *.
  - split; [constructor|intros d []].
  - destruct (memN (c_root d) roots) eqn:Em; [discriminate|].
    destruct (existsb _ ranges); [discriminate|].
    destruct (negb _); [discriminate|].
    destruct (IH _ _ H) as [ND Hout]. split.
    + constructor; [|exact ND]. intros Hi. apply in_map_iff in Hi. destruct Hi as [d' [Hr Hd']].
      apply (Hout d' Hd'). rewrite Hr. now left.
    + intros d' [<-|Hd'].
      * intros Hi. apply memN_In in Hi. congruence.
      * intros Hi. apply (Hout d' Hd'). now right.
Qed.

Lemma validated_commits_nodup sup dest fchain o k :
  wf_obs o -> validate sup dest fchain o = true -> NoDup (entries k (o_commits o)).
Proof.
  intros [NDk _] Hv. unfold validate in Hv. apply andb_prop in Hv. destruct Hv as [Hv _].
  apply andb_prop in Hv. destruct Hv as [Hv _].
  apply andb_prop in Hv. destruct Hv as [Hv _].
  apply andb_prop in Hv. destruct Hv as [_ Hs].
  destruct (entries_cases k _ NDk) as [->|[l [Hi ->]]]; [constructor|].
  unfold validate_seqnums in Hs. rewrite forallb_forall in Hs. specialize (Hs _ Hi). cbn [snd] in Hs.
  apply val_reports_nodup in Hs. eapply NoDup_map_inv. apply Hs.
Qed.

Lemma validated_msgs_nodup sup dest fchain o k :
  wf_obs o -> validate sup dest fchain o = true -> NoDup (map snd (entries k (o_msgs o))).
Proof.
  intros [_ [NDk [NDl _]]] Hv. unfold validate in Hv. apply andb_prop in Hv. destruct Hv as [Hv _].
  apply andb_prop in Hv. destruct Hv as [Hv _].
  apply andb_prop in Hv. destruct Hv as [_ Hm].
  destruct (entries_cases k _ NDk) as [->|[l [Hi ->]]]; [constructor|].
  unfold validate_msg_keys in Hm. rewrite forallb_forall in Hm. specialize (Hm _ Hi). cbn [snd] in Hm.
  rewrite forallb_forall in Hm. specialize (NDl _ _ Hi). unfold keys in NDl.
  apply (NoDup_map_inv m_seq). rewrite map_map.
  erewrite map_ext_in; [exact NDl|]. intros sm Hsm. specialize (Hm _ Hsm). now apply N.eqb_eq in Hm.
Qed.

Lemma nonce_triples_nodup o : wf_obs o -> NoDup (nonce_triples o).
Proof.
  intros [_ [_ [_ [NDk NDl]]]]. unfold nonce_triples, keys in *.
  induction (o_nonces o) as [|[c l] m IH]; cbn [flat_map fst snd]; [constructor|].
  cbn [map fst] in NDk. inversion NDk as [|? ? Hn NDk']; subst.
  assert (ND1 : NoDup (map (fun sn : N * N => (c, fst sn, snd sn)) l)).
  { specialize (NDl c l (or_introl eq_refl)). apply (NoDup_map_inv (fun t : nonce_t => snd (fst t))).
    rewrite map_map. cbn [fst snd]. exact NDl. }
  assert (ND2 : NoDup (flat_map (fun kv : N * list (N * N) => map (fun sn => (fst kv, fst sn, snd sn)) (snd kv)) m)).
  { apply IH; [exact NDk'|]. intros k l' Hi. apply (NDl k l'). now right. }
  apply nodup_app; [exact ND1|exact ND2|].
  intros t H1 H2. apply in_map_iff in H1. destruct H1 as [sn [<- _]].
  apply in_flat_map in H2. destruct H2 as [[c' l'] [Hi Ht]]. apply in_map_iff in Ht. destruct Ht as [sn' [E _]].
  cbn [fst snd] in E. inversion E; subst. apply Hn. apply in_map_iff. exists (c, l'). split; [reflexivity|exact Hi].
Qed.

(* after the repair of F13d a validated observation list has no chain key that fChain lacks *)
Lemma validated_no_unknown sup dest fchain aos :
  validated sup dest fchain aos ->
  unknown_key fchain o_commits aos = false /\ unknown_key fchain o_msgs aos = false /\
  unknown_key fchain o_tokens aos = false.
Proof.
  intros Hv.
  assert (H : forall {V} (proj : obs -> list (N * V)),
             (forall ob k, In k (keys (proj ob)) -> In k (keys (o_commits ob) ++ keys (o_msgs ob) ++ keys (o_tokens ob))) ->
             unknown_key fchain proj aos = false).
  { intros V proj Hsub. destruct (unknown_key fchain proj aos) eqn:E; [|reflexivity]. exfalso. unfold unknown_key in E.
    apply existsb_exists in E. destruct E as [[o ob] [Hi E]]. apply existsb_exists in E. destruct E as [k [Hk E]].
    cbn [snd] in *. destruct (Hv o ob Hi) as [_ Hval]. unfold validate in Hval.
    apply andb_prop in Hval. destruct Hval as [Hval _].
    apply andb_prop in Hval. destruct Hval as [_ Hc]. unfold validate_chains in Hc.
    rewrite forallb_forall in Hc. rewrite (Hc k (Hsub ob k Hk)) in E. discriminate. }
  repeat split; apply H; intros ob k Hk; rewrite !in_app_iff; tauto.
Qed.

(* ---------- per-chain validators ---------- *)
Lemma per_chain_in {T} (eqb : T -> T -> bool) items fchain k (l : list T) :
  In (k, l) (per_chain eqb items fchain) <->
  exists f, In (k, f) fchain /\ l = valid eqb (f_plus_1 f) (items k) /\ l <> [].
Proof.
  unfold per_chain. rewrite in_flat_map. split.
  - intros [[k' f] [Hi H]]. cbn [fst snd] in H.
    destruct (valid eqb (f_plus_1 f) (items k')) as [|v vs] eqn:E; [contradiction|].
    destruct H as [H|[]]. inversion H; subst. exists f. rewrite E. repeat split; [exact Hi|discriminate].
  - intros [f [Hi [-> Hne]]]. exists (k, f). split; [exact Hi|]. cbn [fst snd].
    destruct (valid eqb (f_plus_1 f) (items k)); [congruence|now left].
Qed.

Definition commits_at (k : N) (ob : obs) : list commit := entries k (o_commits ob).
Definition msgs_at (k : N) (ob : obs) : list msg := map snd (entries k (o_msgs ob)).
Definition tok_at (c s : N) (i : nat) (ob : obs) : list tok :=
  match nth_error (entries s (entries c (o_tokens ob))) i with Some t => [t] | None => [] end.

(* ---------- C07_commit (after the repair of F75: threshold of the destination, key = source chain) ---------- *)
Lemma dest_fchain_in dest fchain k f :
  In (k, f) (dest_fchain dest fchain) <-> In k (keys fchain) /\ f = f_dest dest fchain.
Proof.
  unfold dest_fchain, keys. rewrite in_map_iff. split.
  - intros [[k' f'] [E Hi]]. cbn in E. inversion E; subst. split; [|reflexivity]. apply in_map_iff. now exists (k, f').
  - intros [Hk ->]. apply in_map_iff in Hk. destruct Hk as [[k' f'] [E Hi]]. cbn in E. subst k'. now exists (k, f').
Qed.

Lemma validated_commit_key sup dest fchain o k x :
  validate sup dest fchain o = true -> In x (commits_at k o) -> c_src x = k.
Proof.
  intros Hv Hx. unfold validate in Hv. apply andb_prop in Hv. destruct Hv as [_ Hk].
  unfold validate_commit_keys in Hk. rewrite forallb_forall in Hk.
  unfold commits_at, entries in Hx. apply in_flat_map in Hx. destruct Hx as [[k' l] [Hi Hx]]. cbn [fst snd] in Hx.
  destruct (N.eqb_spec k' k) as [->|]; [|destruct Hx]. specialize (Hk _ Hi). cbn [fst snd] in Hk.
  rewrite forallb_forall in Hk. now apply N.eqb_eq, Hk.
Qed.

Theorem merge_commits_sound sup dest fchain aos r k l x :
  NoDup (map fst aos) -> validated sup dest fchain aos ->
  merge_commits dest fchain aos = Ok r -> In (k, l) r -> In x l ->
  In k (keys fchain) /\ c_src x = k /\
  supported_by (commits_at k) (f_plus_1 (f_dest dest fchain)) aos x /\
  (forall o ob, In (o, ob) aos -> NoDup (commits_at k ob)).
Proof.
  intros ND Hv Hm Hk Hx. unfold merge_commits in Hm.
  destruct (unknown_key fchain o_commits aos); [discriminate|]. inversion Hm; subst r; clear Hm.
  apply per_chain_in in Hk. destruct Hk as [f [Hf [-> _]]]. apply dest_fchain_in in Hf. destruct Hf as [Hkk ->].
  assert (Hnd : forall a, In a aos -> NoDup (commits_at k (snd a))).
  { intros [o ob] Hi. destruct (Hv o ob Hi) as [Hw Hval]. eapply validated_commits_nodup; eassumption. }
  split; [exact Hkk|]. split; [|split].
  - apply (valid_spec commit_eqb commit_eqb_spec) in Hx. destruct Hx as [Hx _].
    change (commit_items k aos) with (items_of (commits_at k) aos) in Hx.
    apply items_of_in in Hx. destruct Hx as [o [ob [Hi Hin]]]. destruct (Hv o ob Hi) as [_ Hval].
    eapply validated_commit_key; eassumption.
  - eapply (valid_supported commit_eqb commit_eqb_spec (commits_at k)); eassumption.
  - intros o ob Hi. apply (Hnd (o, ob) Hi).
Qed.

Theorem merge_commits_complete sup dest fchain aos k x rs :
  NoDup (map fst aos) -> validated sup dest fchain aos ->
  In k (keys fchain) ->
  NoDup rs -> rs <> [] -> (forall o, In o rs -> exists ob, In (o, ob) aos /\ In x (commits_at k ob)) ->
  (f_plus_1 (f_dest dest fchain) <= N.of_nat (length rs))%N ->
  exists r l, merge_commits dest fchain aos = Ok r /\ In (k, l) r /\ In x l.
Proof.
  intros ND Hv Hf NDr Hne Hrs Hthr. unfold merge_commits.
  destruct (validated_no_unknown _ _ _ _ Hv) as [Hu _]. rewrite Hu.
  assert (Hnd : forall a, In a aos -> NoDup (commits_at k (snd a))).
  { intros [o ob] Hi. destruct (Hv o ob Hi) as [Hw Hval]. eapply validated_commits_nodup; eassumption. }
  pose proof (supported_valid commit_eqb commit_eqb_spec (commits_at k) _ aos x rs ND Hnd NDr Hrs Hthr Hne) as Hx.
  eexists. exists (valid commit_eqb (f_plus_1 (f_dest dest fchain)) (commit_items k aos)). split; [reflexivity|]. split; [|exact Hx].
  apply per_chain_in. exists (f_dest dest fchain). repeat split; [now apply dest_fchain_in|]. intros E. unfold commit_items in E.
  unfold items_of, commits_at in Hx. rewrite E in Hx. contradiction.
Qed.

(* ---------- C07_message (after the repair of F13a) ---------- *)
Theorem merge_msgs_sound sup dest fchain aos r k l x :
  NoDup (map fst aos) -> validated sup dest fchain aos ->
  merge_msgs fchain aos = Ok r -> In (k, l) r -> In x l ->
  exists f, In (k, f) fchain /\ supported_by (msgs_at k) (f_plus_1 f) aos x /\
            (forall o ob, In (o, ob) aos -> NoDup (msgs_at k ob)).
Proof.
  intros ND Hv Hm Hk Hx. unfold merge_msgs in Hm.
  destruct (unknown_key fchain o_msgs aos); [discriminate|]. inversion Hm; subst r; clear Hm.
  apply per_chain_in in Hk. destruct Hk as [f [Hf [-> _]]].
  assert (Hnd : forall a, In a aos -> NoDup (msgs_at k (snd a))).
  { intros [o ob] Hi. destruct (Hv o ob Hi) as [Hw Hval]. eapply validated_msgs_nodup; eassumption. }
  exists f. split; [exact Hf|]. split.
  - eapply (valid_supported msg_eqb msg_eqb_spec (msgs_at k)); eassumption.
  - intros o ob Hi. apply (Hnd (o, ob) Hi).
Qed.

Theorem merge_msgs_complete sup dest fchain aos k f x rs :
  NoDup (map fst aos) -> validated sup dest fchain aos ->
  In (k, f) fchain ->
  NoDup rs -> rs <> [] -> (forall o, In o rs -> exists ob, In (o, ob) aos /\ In x (msgs_at k ob)) ->
  (f_plus_1 f <= N.of_nat (length rs))%N ->
  exists r l, merge_msgs fchain aos = Ok r /\ In (k, l) r /\ In x l.
Proof.
  intros ND Hv Hf NDr Hne Hrs Hthr. unfold merge_msgs.
  destruct (validated_no_unknown _ _ _ _ Hv) as [_ [Hu _]]. rewrite Hu.
  assert (Hnd : forall a, In a aos -> NoDup (msgs_at k (snd a))).
  { intros [o ob] Hi. destruct (Hv o ob Hi) as [Hw Hval]. eapply validated_msgs_nodup; eassumption. }
  pose proof (supported_valid msg_eqb msg_eqb_spec (msgs_at k) _ aos x rs ND Hnd NDr Hrs Hthr Hne) as Hx.
  eexists. exists (valid msg_eqb (f_plus_1 f) (msg_items k aos)). split; [reflexivity|]. split; [|exact Hx].
  apply per_chain_in. exists f. repeat split; [exact Hf|]. intros E. unfold msg_items in E.
  unfold items_of, msgs_at in Hx. rewrite E in Hx. contradiction.
Qed.

(* ---------- C07_token ---------- *)
Lemma unknown_key_false {V} fchain (proj : obs -> list (N * V)) aos a k :
  unknown_key fchain proj aos = false -> In a aos -> In k (keys (proj (snd a))) ->
  exists f, alookup k fchain = Some f.
Proof.
  intros Hu Ha Hk. unfold unknown_key in Hu.
  assert (Hm : memN k (keys fchain) = true).
  { destruct (memN k (keys fchain)) eqn:E; [reflexivity|]. exfalso.
    assert (Ht : existsb (fun a => existsb (fun k => negb (memN k (keys fchain))) (keys (proj (snd a)))) aos = true).
    { apply existsb_exists. exists a. split; [exact Ha|]. apply existsb_exists. exists k. split; [exact Hk|].
      now rewrite E. }
    congruence. }
  apply memN_In in Hm. unfold keys in Hm. clear Hu.
  induction fchain as [|[k' f'] m IH]; cbn [map fst In alookup] in *; [contradiction|].
  destruct (N.eqb_spec k k') as [->|Hne]; [now exists f'|]. apply IH. destruct Hm as [E|Hm]; [congruence|exact Hm].
Qed.

Lemma nth_error_map_seq {A} (g : nat -> A) n : forall a i t,
  nth_error (map g (seq a n)) i = Some t -> t = g (a + i)%nat /\ (i < n)%nat.
Proof.
  induction n as [|n IH]; intros a i t H; cbn [seq map] in H.
  - destruct i; discriminate.
  - destruct i as [|i]; cbn [nth_error] in H.
    + inversion H. split; [f_equal; lia|lia].
    + apply IH in H. destruct H as [-> Hlt]. split; [f_equal; lia|lia].
Qed.

Lemma tok_at_nodup c s i ob : NoDup (tok_at c s i ob).
Proof. unfold tok_at. destruct (nth_error _ i); repeat constructor. intros []. Qed.

Theorem merge_tokens_sound fchain aos r c sl s slots i t :
  NoDup (map fst aos) ->
  merge_tokens fchain aos = Ok r -> In (c, sl) r -> In (s, slots) sl ->
  nth_error slots i = Some t -> t_ready t = true ->
  exists f, alookup c fchain = Some f /\ supported_by (tok_at c s i) (f_plus_1 f) aos t.
Proof.
  intros ND Hm Hc Hs Hn Hr. unfold merge_tokens in Hm.
  destruct (unknown_key fchain o_tokens aos) eqn:Hu; [discriminate|]. inversion Hm; subst r; clear Hm.
  apply in_map_iff in Hc. destruct Hc as [c' [E Hc]]. inversion E; subst c' sl; clear E.
  apply in_map_iff in Hs. destruct Hs as [s' [E Hs]]. inversion E; subst s' slots; clear E.
  apply nth_error_map_seq in Hn. destruct Hn as [-> _]. cbn [Nat.add] in Hr |- *.
  unfold tok_chains, dedupN in Hc. rewrite (dedup_in N.eqb N.eqb_spec) in Hc. apply in_flat_map in Hc.
  destruct Hc as [a [Ha Hk]].
  destruct (unknown_key_false _ _ _ _ _ Hu Ha Hk) as [f Hf]. exists f. split; [exact Hf|].
  rewrite Hf in Hr |- *. unfold tok_slot in Hr |- *.
  destruct (valid tok_eqb (f_plus_1 f) (tok_votes c s i aos)) as [|v [|w vs]] eqn:Ev; try discriminate Hr.
  eapply (valid_supported tok_eqb tok_eqb_spec (tok_at c s i)); [exact ND|intros; apply tok_at_nodup|].
  unfold tok_votes in Ev. unfold items_of, tok_at. rewrite Ev. now left.
Qed.

(* ---------- C07_nonce ---------- *)
Theorem merge_nonces_sound sup dest fchain fdest aos x :
  NoDup (map fst aos) -> validated sup dest fchain aos ->
  In x (merge_nonces fdest aos) ->
  supported_by nonce_triples (f_plus_1 fdest) aos x /\
  (forall o ob, In (o, ob) aos -> NoDup (nonce_triples ob)).
Proof.
  intros ND Hv Hx.
  assert (Hnd : forall a, In a aos -> NoDup (nonce_triples (snd a))).
  { intros [o ob] Hi. destruct (Hv o ob Hi) as [Hw _]. now apply nonce_triples_nodup. }
  split.
  - eapply (valid_supported nonce_eqb nonce_eqb_spec nonce_triples); eassumption.
  - intros o ob Hi. apply (Hnd (o, ob) Hi).
Qed.

Theorem merge_nonces_complete sup dest fchain fdest aos x rs :
  NoDup (map fst aos) -> validated sup dest fchain aos ->
  NoDup rs -> rs <> [] -> (forall o, In o rs -> exists ob, In (o, ob) aos /\ In x (nonce_triples ob)) ->
  (f_plus_1 fdest <= N.of_nat (length rs))%N ->
  In x (merge_nonces fdest aos).
Proof.
  intros ND Hv NDr Hne Hrs Hthr.
  assert (Hnd : forall a, In a aos -> NoDup (nonce_triples (snd a))).
  { intros [o ob] Hi. destruct (Hv o ob Hi) as [Hw _]. now apply nonce_triples_nodup. }
  exact (supported_valid nonce_eqb nonce_eqb_spec nonce_triples _ aos x rs ND Hnd NDr Hrs Hthr Hne).
Qed.

(* ---------- C07_costly (after the repair of F13c) ---------- *)
Definition costly_of (ob : obs) : list N := dedupN (o_costly ob).

Theorem merge_costly_iff fdest aos x :
  In x (merge_costly fdest aos) <->
  In x (items_of costly_of aos) /\
  (fdest + 1 <= Z.of_nat (length (supporters N.eqb costly_of x aos)))%Z.
Proof.
  unfold merge_costly, gte_f_plus_one. rewrite filter_In.
  change (costly_items aos) with (items_of costly_of aos).
  unfold dedupN at 1. rewrite (dedup_in N.eqb N.eqb_spec).
  rewrite (count_items N.eqb N.eqb_spec costly_of x aos)
    by (intros; unfold costly_of, dedupN; apply (dedup_nodup N.eqb N.eqb_spec)).
  rewrite Z.leb_le. split; intros [H1 H2]; (split; [exact H1|lia]).
Qed.

Theorem merge_costly_sound fdest aos x :
  NoDup (map fst aos) -> In x (merge_costly fdest aos) ->
  exists rs, NoDup rs /\ (fdest + 1 <= Z.of_nat (length rs))%Z /\
             forall o, In o rs <-> exists ob, In (o, ob) aos /\ In x (o_costly ob).
Proof.
  intros ND Hx. apply merge_costly_iff in Hx. destruct Hx as [_ Hc].
  exists (supporters N.eqb costly_of x aos). split; [now apply supporters_nodup|]. split; [exact Hc|].
  intros o. rewrite (supporters_in N.eqb N.eqb_spec). unfold costly_of, dedupN.
  split; intros [ob [Hi Hx]]; exists ob; (split; [exact Hi|]); now apply (dedup_in N.eqb N.eqb_spec).
Qed.

Theorem merge_costly_complete fdest aos x rs :
  NoDup (map fst aos) ->
  NoDup rs -> rs <> [] -> (forall o, In o rs -> exists ob, In (o, ob) aos /\ In x (o_costly ob)) ->
  (fdest + 1 <= Z.of_nat (length rs))%Z ->
  In x (merge_costly fdest aos).
Proof.
  intros ND NDr Hne Hrs Hthr. apply merge_costly_iff.
  assert (Hrs' : forall o, In o rs -> exists ob, In (o, ob) aos /\ In x (costly_of ob)).
  { intros o Ho. destruct (Hrs o Ho) as [ob [Hi Hx]]. exists ob. split; [exact Hi|].
    unfold costly_of, dedupN. now apply (dedup_in N.eqb N.eqb_spec). }
  split.
  - destruct rs as [|o rs']; [congruence|]. destruct (Hrs' o (or_introl eq_refl)) as [ob [Hi Hx]].
    apply items_of_in. now exists o, ob.
  - assert (Hincl : incl rs (supporters N.eqb costly_of x aos)).
    { intros o Ho. apply (supporters_in N.eqb N.eqb_spec). now apply Hrs'. }
    pose proof (NoDup_incl_length NDr Hincl). lia.
Qed.

(* ---------- C07_non_blocking ---------- *)
(* recorded finding F13d: a chain key that fChain lacks, in commit reports, messages or token data of one
   validated observation, makes getConsensusObservation fail for everybody *)
Definition any_unknown_key (fchain : list (N * Z)) (aos : list ao) : bool :=
  unknown_key fchain o_commits aos || unknown_key fchain o_msgs aos || unknown_key fchain o_tokens aos.

Theorem get_consensus_ok_except_known bigF dest fchain aos :
  any_unknown_key fchain aos = false -> (bigF <= Z.of_nat (length aos))%Z ->
  exists cs ms ts,
    merge_commits dest fchain aos = Ok cs /\ merge_msgs fchain aos = Ok ms /\ merge_tokens fchain aos = Ok ts /\
    get_consensus bigF dest fchain aos =
      Ok (mkMerged cs ms ts (merge_costly (f_dest dest fchain) aos) (merge_nonces (f_dest dest fchain) aos)).
Proof.
  unfold any_unknown_key. intros Hu HF.
  apply orb_false_elim in Hu. destruct Hu as [Hu Ht]. apply orb_false_elim in Hu. destruct Hu as [Hc Hm].
  unfold get_consensus, merge_commits, merge_msgs, merge_tokens. rewrite Hc, Hm, Ht.
  destruct (Z.ltb_spec (Z.of_nat (length aos)) bigF); [lia|]. cbn [rbind].
  do 3 eexists. repeat split.
Qed.

Definition wf_obsb (o : obs) : bool :=
  nodupb N.eqb (keys (o_commits o)) &&
  nodupb N.eqb (keys (o_msgs o)) && forallb (fun kv => nodupb N.eqb (keys (snd kv))) (o_msgs o) &&
  nodupb N.eqb (keys (o_nonces o)) && forallb (fun kv => nodupb N.eqb (keys (snd kv))) (o_nonces o).

Lemma nodupb_N l : nodupb N.eqb l = true -> NoDup l.
Proof.
  induction l as [|x l IH]; cbn [nodupb]; intros H; [constructor|].
  apply andb_prop in H. destruct H as [H1 H2]. constructor; [|now apply IH].
  intros Hi. apply memN_In in Hi. unfold memN in Hi. rewrite Hi in H1. discriminate.
Qed.

Lemma wf_obsb_sound o : wf_obsb o = true -> wf_obs o.
Proof.
  unfold wf_obsb, wf_obs. intros H.
  repeat (apply andb_prop in H; let H' := fresh "H" in destruct H as [H H']).
  repeat split; try (now apply nodupb_N).
  - intros k l Hi. rewrite forallb_forall in H2. apply nodupb_N. apply (H2 (k, l) Hi).
  - intros k l Hi. rewrite forallb_forall in H0. apply nodupb_N. apply (H0 (k, l) Hi).
Qed.

Lemma validated_of_bool sup dest fchain aos :
  forallb (fun a => wf_obsb (snd a) && validate (sup (fst a)) dest fchain (snd a)) aos = true -> validated sup dest fchain aos.
Proof.
  intros H o ob Hi. rewrite forallb_forall in H. specialize (H _ Hi). cbn [fst snd] in H.
  apply andb_prop in H. destruct H as [H1 H2]. split; [now apply wf_obsb_sound|exact H2].
Qed.
Definition validated_nokeys (sup : N -> list N) (dest : N) (fchain : list (N * Z)) (aos : list ao) : Prop :=
  forall o ob, In (o, ob) aos -> wf_obs ob /\ validate_nokeys (sup o) dest fchain ob = true.
Lemma validated_nokeys_of_bool sup dest fchain aos :
  forallb (fun a => wf_obsb (snd a) && validate_nokeys (sup (fst a)) dest fchain (snd a)) aos = true -> validated_nokeys sup dest fchain aos.
Proof.
  intros H o ob Hi. rewrite forallb_forall in H. specialize (H _ Hi). cbn [fst snd] in H.
  apply andb_prop in H. destruct H as [H1 H2]. split; [now apply wf_obsb_sound|exact H2].
Qed.
Lemma validated_unfixed_of_bool sup dest fchain aos :
  forallb (fun a => wf_obsb (snd a) && validate_unfixed (sup (fst a)) dest fchain (snd a)) aos = true -> validated_unfixed sup dest fchain aos.
Proof.
  intros H o ob Hi. rewrite forallb_forall in H. specialize (H _ Hi). cbn [fst snd] in H.
  apply andb_prop in H. destruct H as [H1 H2]. split; [now apply wf_obsb_sound|exact H2].
Qed.

(* ---------- refutations (findings F13a, F13c, F13d, F13e) and non-vacuity ---------- *)
Local Open Scope N_scope.
Definition ex_c : commit := mkCommit 1 1 1 10 12 [11].
Definition ex_m : msg := mkMsg 7 10 9.
Definition ex_t : tok := mkTok true 3.
Definition ex_obs : obs :=
  mkObs [(1, [ex_c])] [(1, [(10, ex_m)])] [(1, [(10, [ex_t])])] [9] [(1, [(4, 6)])].
Definition ex_sup (_ : N) : list N := [1; 2].
Definition ex_aos : list ao := [(0, ex_obs); (1, ex_obs)].
Definition ex_fchain : list (N * Z) := [(1, 1%Z); (2, 1%Z)].

(* the hypotheses of the soundness theorems are met by a non-trivial value, and every kind of item is merged *)
Example c07_example :
  NoDup (map fst ex_aos) /\ validated ex_sup 2 ex_fchain ex_aos /\
  get_consensus 1 2 ex_fchain ex_aos =
    Ok (mkMerged [(1, [ex_c])] [(1, [ex_m])] [(1, [(10, [ex_t])])] [9] [(1, 4, 6)]).
Proof.
  split; [repeat constructor; cbn; intuition discriminate|].
  split; [apply validated_of_bool; vm_compute; reflexivity| vm_compute; reflexivity].
Qed.

(* F13a: with the validation as it was, one oracle filing one message under two sequence-number keys makes it
   valid at threshold 2 all by itself *)
Theorem merge_msgs_unfixed_refuted :
  exists sup dest fchain aos r k l x f,
    NoDup (map fst aos) /\ validated_unfixed sup dest fchain aos /\
    merge_msgs fchain aos = Ok r /\ In (k, l) r /\ In x l /\ In (k, f) fchain /\
    (N.of_nat (length (supporters msg_eqb (msgs_at k) x aos)) < f_plus_1 f)%N.
Proof.
  exists ex_sup, 2%N, ex_fchain, [(0%N, mkObs [] [(1, [(10, ex_m); (11, ex_m)])] [] [] [])], [(1%N, [ex_m])], 1%N, [ex_m], ex_m, 1%Z.
  split; [repeat constructor; intros []|].
  split; [apply validated_unfixed_of_bool; vm_compute; reflexivity|].
  split; [vm_compute; reflexivity|].
  split; [now left|]. split; [now left|]. split; [now left|]. vm_compute. reflexivity.
Qed.

(* F75: before the repair (validateCommitReportKeys, destination threshold in mergeCommitObservations) a commit
   report was agreed at the f of the chain key it was FILED under, whatever its SourceChain: with f(chain 2) = 1 two
   oracles that do not read chain 2 - fewer than f(dest) + 1 = 3 - get a report of chain 1 agreed under key 2 *)
Theorem merge_commits_unfixed_refuted :
  exists sup dest fchain aos r k l x,
    NoDup (map fst aos) /\ validated_nokeys sup dest fchain aos /\
    (forall o ob, In (o, ob) aos -> ~ In k (sup o)) /\
    merge_commits_unfixed fchain aos = Ok r /\ In (k, l) r /\ In x l /\ c_src x <> k /\
    (N.of_nat (length (supporters commit_eqb (commits_at k) x aos)) < f_plus_1 (f_dest dest fchain))%N /\
    merge_commits dest fchain aos = Ok [] /\
    forallb (fun a => validate (sup (fst a)) dest fchain (snd a)) aos = false.
Proof.
  exists (fun _ => [1; 9]%N), 9%N, [(1%N, 2%Z); (2%N, 1%Z); (9%N, 2%Z)],
         [(5%N, mkObs [(2%N, [mkCommit 7 1 666 5 6 []])] [] [] [] []); (6%N, mkObs [(2%N, [mkCommit 7 1 666 5 6 []])] [] [] [] [])],
         [(2%N, [mkCommit 7 1 666 5 6 []])], 2%N, [mkCommit 7 1 666 5 6 []], (mkCommit 7 1 666 5 6 []).
  split; [repeat constructor; cbn; intuition discriminate|].
  split; [apply validated_nokeys_of_bool; vm_compute; reflexivity|].
  split; [intros o ob _; cbn; intuition discriminate|].
  split; [vm_compute; reflexivity|]. split; [now left|]. split; [now left|]. split; [cbn; discriminate|].
  split; [vm_compute; reflexivity|]. split; vm_compute; reflexivity.
Qed.

(* F13c: before the repair a costly id repeated by one oracle was flagged at f = 1 *)
Theorem merge_costly_unfixed_refuted :
  exists fdest aos x,
    NoDup (map fst aos) /\ In x (merge_costly_unfixed fdest aos) /\
    (Z.of_nat (length (supporters N.eqb o_costly x aos)) < fdest + 1)%Z.
Proof.
  exists 1%Z, [(0%N, mkObs [] [] [] [9; 9] [])], 9%N.
  split; [repeat constructor; intros []|]. split; [vm_compute; now left|vm_compute; reflexivity].
Qed.

(* F13d: before the repair (validateObservedChains) one accepted observation with an empty message map under a chain
   key that fChain lacks turned a successful merge into an error for everybody *)
Lemma validated_nochains_of_bool sup dest aos :
  forallb (fun a => wf_obsb (snd a) && validate_nochains (sup (fst a)) dest (snd a)) aos = true -> validated_nochains sup dest aos.
Proof.
  intros H o ob Hi. rewrite forallb_forall in H. specialize (H _ Hi). cbn [fst snd] in H.
  apply andb_prop in H. destruct H as [H1 H2]. split; [now apply wf_obsb_sound|exact H2].
Qed.

Theorem non_blocking_unfixed_refuted :
  exists sup bigF dest fchain aos a,
    NoDup (map fst (a :: aos)) /\ validated_nochains sup dest (a :: aos) /\
    is_ok (get_consensus bigF dest fchain aos) = true /\
    get_consensus bigF dest fchain (a :: aos) = Err.
Proof.
  exists ex_sup, 1%Z, 2%N, ex_fchain, ex_aos, (2%N, mkObs [] [(99, [])] [] [] []).
  split; [repeat constructor; cbn; intuition discriminate|].
  split; [apply validated_nochains_of_bool; vm_compute; reflexivity|].
  split; vm_compute; reflexivity.
Qed.

(* C07_non_blocking at full strength: on validated observations the merge never fails (unless there are fewer than F
   of them); together with the *_complete theorems every item with f+1 reporters is delivered whatever else any
   observation holds *)
Theorem get_consensus_ok sup bigF dest fchain aos :
  validated sup dest fchain aos -> (bigF <= Z.of_nat (length aos))%Z ->
  exists cs ms ts,
    merge_commits dest fchain aos = Ok cs /\ merge_msgs fchain aos = Ok ms /\ merge_tokens fchain aos = Ok ts /\
    get_consensus bigF dest fchain aos =
      Ok (mkMerged cs ms ts (merge_costly (f_dest dest fchain) aos) (merge_nonces (f_dest dest fchain) aos)).
Proof.
  intros Hv HF. apply get_consensus_ok_except_known; [|exact HF].
  destruct (validated_no_unknown _ _ _ _ Hv) as [H1 [H2 H3]]. unfold any_unknown_key. now rewrite H1, H2, H3.
Qed.

(* F13e (recorded): one oracle claiming an extra token slot for a message makes its merged token data not ready *)
Definition slots_ready (r : res (list (N * list (N * list tok)))) (c s : N) : bool :=
  match r with
  | Ok m => forallb t_ready (entries s (entries c m))
  | _ => false
  end.
Theorem token_non_blocking_refuted :
  exists fchain aos a c s,
    NoDup (map fst (a :: aos)) /\
    slots_ready (merge_tokens fchain aos) c s = true /\
    slots_ready (merge_tokens fchain (a :: aos)) c s = false /\
    N.of_nat (length (supporters tok_eqb (tok_at c s 1) (mkTok true 4) (a :: aos))) = 1%N.
Proof.
  exists ex_fchain, ex_aos, (2%N, mkObs [] [] [(1, [(10, [ex_t; mkTok true 4])])] [] []), 1%N, 10%N.
  split; [repeat constructor; cbn; intuition discriminate|]. repeat split; vm_compute; reflexivity.
Qed.

(* ---------- C07_token, the other direction: a slot value with f+1 agreeing reporters and no rival is delivered ---------- *)
Theorem tok_slot_consensus thr c s i aos t :
  (0 < thr)%N ->
  (thr <= N.of_nat (length (supporters tok_eqb (tok_at c s i) t aos)))%N ->
  (forall t', (thr <= N.of_nat (length (supporters tok_eqb (tok_at c s i) t' aos)))%N -> t' = t) ->
  tok_slot thr c s aos i = t.
Proof.
  intros Hthr Hs Huniq. unfold tok_slot.
  assert (Hnd : forall a, In a aos -> NoDup (tok_at c s i (snd a))) by (intros; apply tok_at_nodup).
  assert (E : valid tok_eqb thr (tok_votes c s i aos) = [t]).
  { apply (valid_single_iff tok_eqb tok_eqb_spec); [exact Hthr|].
    change (tok_votes c s i aos) with (items_of (tok_at c s i) aos).
    split.
    - now rewrite (count_items tok_eqb tok_eqb_spec (tok_at c s i) t aos Hnd).
    - intros x Hx. apply Huniq. now rewrite <- (count_items tok_eqb tok_eqb_spec (tok_at c s i) x aos Hnd). }
  now rewrite E.
Qed.

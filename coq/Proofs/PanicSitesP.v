Require Import Verif.Model.Base Verif.Proofs.BaseP Verif.Model.PanicSites.
From Coq Require Import Sorting.Sorted.

(* ---------- 1. unmarshalers never panic ---------- *)
Lemma gslice_ok {A} (l : list A) lo hi : (lo <= hi)%nat -> (hi <= length l)%nat ->
  gslice l lo hi = Ok (firstn (hi - lo) (skipn lo l)).
Proof.
  intros H1 H2. unfold gslice.
  destruct (Nat.leb_spec lo hi); [|lia]. destruct (Nat.leb_spec hi (length l)); [|lia]. reflexivity.
Qed.

Lemma has_prefix_length p l : has_prefix p l = true -> (length p <= length l)%nat.
Proof.
  revert l; induction p as [|x p IH]; intros l H; cbn [length]; [lia|].
  destruct l as [|y l]; cbn [has_prefix] in H; [discriminate|].
  apply andb_prop in H. destruct H as [_ H]. apply IH in H. cbn [length]. lia.
Qed.

Section UnmarshalP.
  Variable hex_decode : list N -> option (list N).
  Variable parse_decimal : list N -> option Z.

  Theorem bytes_unmarshal_no_panic data :
    bytes_unmarshal hex_decode data <> Panic /\ bytes_unmarshal hex_decode data <> Spin.
  Proof.
    unfold bytes_unmarshal.
    destruct (Nat.ltb_spec (length data) 2) as [Hl|Hl]; [split; discriminate|].
    rewrite gslice_ok by lia. cbn [rbind].
    set (v := firstn (length data - 1 - 1) (skipn 1 data)).
    destruct (has_prefix zero_x v) eqn:Hp; cbn [negb]; [|split; discriminate].
    apply has_prefix_length in Hp. cbn [zero_x length] in Hp.
    unfold gslice_from. rewrite gslice_ok by lia. cbn [rbind].
    destruct (hex_decode _); split; discriminate.
  Qed.

  Theorem bytes32_unmarshal_no_panic data :
    bytes32_unmarshal hex_decode data <> Panic /\ bytes32_unmarshal hex_decode data <> Spin.
  Proof.
    unfold bytes32_unmarshal.
    destruct (Nat.ltb_spec (length data) 4) as [Hl|Hl]; [split; discriminate|].
    rewrite gslice_ok by lia. cbn [rbind].
    unfold gslice_from. rewrite gslice_ok.
    - cbn [rbind]. destruct (hex_decode _); split; discriminate.
    - rewrite firstn_length, skipn_length. lia.
    - lia.
  Qed.

  Theorem bigint_unmarshal_no_panic p :
    bigint_unmarshal parse_decimal p <> Panic /\ bigint_unmarshal parse_decimal p <> Spin.
  Proof.
    unfold bigint_unmarshal.
    destruct (list_eqb N.eqb p null_lit); [split; discriminate|].
    destruct (Nat.ltb_spec (length p) 2) as [Hl|Hl]; [split; discriminate|].
    rewrite gslice_ok by lia. cbn [rbind]. destruct (parse_decimal _); split; discriminate.
  Qed.

  (* the guards are exactly sufficient: one byte less and the unguarded slice would panic *)
  Example bytes32_guard_needed : gslice_from (firstn (3 - 1 - 1) (skipn 1 [34; 48; 34]%N)) 2 = Panic.
  Proof. reflexivity. Qed.
End UnmarshalP.

(* ---------- 2. execute state ---------- *)
Theorem exec_callback_next_no_panic s :
  exec_callback_next s <> Panic /\ exec_callback_next s <> Spin.
Proof.
  unfold exec_callback_next, exec_decode_state, exec_state_valid.
  destruct (N.leb_spec s 4) as [H|H]; cbn [rbind]; [|split; discriminate].
  unfold exec_next.
  destruct (N.eqb_spec s 2); [split; discriminate|].
  destruct (N.eqb_spec s 3); [split; discriminate|].
  destruct (N.eqb_spec s 0); cbn [orb]; [split; discriminate|].
  destruct (N.eqb_spec s 1); cbn [orb]; [split; discriminate|].
  destruct (N.eqb_spec s 4); cbn [orb]; [split; discriminate|]. lia.
Qed.

Theorem exec_callback_next_cycle s t :
  exec_callback_next s = Ok t -> (t = 2 \/ t = 3 \/ t = 4)%N.
Proof.
  unfold exec_callback_next, exec_decode_state. destruct (exec_state_valid s); cbn [rbind]; [|discriminate].
  unfold exec_next.
  destruct (N.eqb s 2); [intros H; inversion H; tauto|].
  destruct (N.eqb s 3); [intros H; inversion H; tauto|].
  destruct (N.eqb s 0 || N.eqb s 1 || N.eqb s 4); [intros H; inversion H; tauto|discriminate].
Qed.

Theorem exec_callback_next_unfixed_refuted : exists s, exec_callback_next_unfixed s = Panic.
Proof. exists 9%N. reflexivity. Qed.

(* ---------- 3. getMessagesOutcome loop ---------- *)
Lemma nrange_in s len k : In k (nrange s len) <-> (s <= k /\ k < s + N.of_nat len)%N.
Proof.
  revert s; induction len as [|n IH]; intros s; cbn [nrange In].
  - lia.
  - rewrite IH. lia.
Qed.

Lemma nrange_sorted s len : StronglySorted N.lt (nrange s len).
Proof.
  revert s; induction len as [|n IH]; intros s; cbn [nrange]; constructor; [apply IH|].
  apply Forall_forall. intros k Hk. apply nrange_in in Hk. lia.
Qed.

Lemma sorted_lt_filter (f : N -> bool) l : StronglySorted N.lt l -> StronglySorted N.lt (filter f l).
Proof.
  induction 1 as [|x l S IH Hall]; cbn [filter]; [constructor|].
  destruct (f x); [|exact IH]. constructor; [exact IH|].
  rewrite Forall_forall in *. intros y Hy. apply filter_In in Hy. apply Hall, Hy.
Qed.

Lemma sorted_lt_le l : StronglySorted N.lt l -> StronglySorted N.le l.
Proof.
  induction 1 as [|x l S IH Hall]; constructor; [exact IH|].
  eapply Forall_impl; [|exact Hall]. cbn. intros; lia.
Qed.

Lemma sorted_lt_nodup l : StronglySorted N.lt l -> NoDup l.
Proof.
  induction 1 as [|x l S IH Hall]; constructor; [|exact IH].
  intros Hin. rewrite Forall_forall in Hall. specialize (Hall _ Hin). lia.
Qed.

(* the repaired loop never spins or panics ... *)
Theorem range_loop_total observed s e : exists l, range_loop observed s e = Ok l.
Proof. eexists. reflexivity. Qed.

(* ... and attaches data for exactly the same sequence numbers, in the same order, as the original loop whenever
   that one terminated *)
Theorem range_loop_same_as_unfixed observed s e l :
  NoDup observed ->
  range_loop_unfixed observed s e = Ok l -> range_loop observed s e = Ok l.
Proof.
  intros ND. unfold range_loop_unfixed, range_loop.
  destruct (N.ltb_spec e s) as [Hlt|Hge].
  - intros H. inversion H; subst. f_equal.
    assert (E : filter (in_range s e) observed = []).
    { induction observed as [|k obs IH]; cbn [filter]; [reflexivity|].
      inversion ND; subst. unfold in_range at 1.
      destruct (N.leb_spec s k), (N.leb_spec k e); cbn [andb]; try (now apply IH); lia. }
    now rewrite E.
  - destruct (N.eqb_spec e max64); [discriminate|]. intros H. inversion H; subst. f_equal.
    apply nsorted_perm_eq.
    + apply sortN_sorted.
    + apply sorted_lt_le, sorted_lt_filter, nrange_sorted.
    + etransitivity; [apply sortN_perm_self|].
      apply NoDup_Permutation.
      * now apply NoDup_filter.
      * apply sorted_lt_nodup, sorted_lt_filter, nrange_sorted.
      * intros k. rewrite !filter_In, nrange_in, memN_In. unfold in_range.
        rewrite andb_true_iff, !N.leb_le. rewrite N2Nat.id. split.
        -- intros [Hi [H1 H2]]. split; [lia|exact Hi].
        -- intros [[H1 H2] Hi]. split; [exact Hi|lia].
Qed.

Theorem range_loop_unfixed_spins_refuted : exists observed s, range_loop_unfixed observed s max64 = Spin.
Proof. exists [], 5%N. reflexivity. Qed.

(* ---------- 4. medians over validated values ---------- *)
Theorem median_res_no_panic vals : all_some vals = true -> exists v, median_res vals = Ok v.
Proof.
  intros H. unfold median_res. destruct vals as [|x [|y l]]; try (eexists; reflexivity).
  rewrite H. eexists; reflexivity.
Qed.

Theorem validated_aggregate_no_panic xs ys :
  validate_updates xs = Ok tt -> validate_updates ys = Ok tt -> exists v, agg2_res xs ys = Ok v.
Proof.
  unfold validate_updates, agg2_res. intros Hx Hy.
  destruct (all_some xs) eqn:Ex; [|discriminate]. destruct (all_some ys) eqn:Ey; [|discriminate].
  destruct (median_res_no_panic xs Ex) as [a ->]. destruct (median_res_no_panic ys Ey) as [b ->].
  eexists. reflexivity.
Qed.

(* without the validation a single nil among >= 2 values panics the aggregator (F09) *)
Theorem median_res_nil_refuted : exists vals, median_res vals = Panic.
Proof. exists [Some 1%Z; None; Some 3%Z]. reflexivity. Qed.

Example median_example : median_res [Some 5; Some 1; Some 9]%Z = Ok (Some 5%Z).
Proof. reflexivity. Qed.

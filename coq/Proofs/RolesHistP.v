(* RolesHistP.v — C11 / C12 over histories (model: Model/RolesHist.v).
   The C18 snapshot theorem (every stored view of the home-chain poller is derived from the configuration of the most
   recent successful fetch, after EVERY event list) composed with the memoryless Roles model: whatever was polled,
   looked up or validated before, a round is decided by the latest successfully fetched configuration alone. *)
Require Import Verif.Model.Base Verif.Model.Roles Verif.Model.Pollers Verif.Model.RolesHist.
Require Import Verif.Proofs.BaseP Verif.Proofs.RolesP Verif.Proofs.PollersP.

(* ---------- one configuration explains every getter ---------- *)
Lemma alookup_chains_of_home c ch : alookup ch (chains_of_home c) = option_map cc_pair (alookup ch c).
Proof.
  induction c as [|[k v] c IH]; cbn [chains_of_home map alookup fst snd option_map]; [reflexivity|].
  destruct (N.eqb ch k); [reflexivity|exact IH].
Qed.

Lemma home_chains_of_home O d f c : home_chains (cfg_of_home O d f c) = map fst c.
Proof.
  unfold home_chains, cfg_of_home, chains_of_home. cbn [c_chains]. rewrite map_map. reflexivity.
Qed.

Lemma alookup_home_fchain O d f c ch :
  alookup ch (home_fchain (cfg_of_home O d f c)) = option_map (fun cc => Z.of_N (cc_f cc)) (alookup ch c).
Proof.
  unfold home_fchain, cfg_of_home, chains_of_home. cbn [c_chains]. rewrite map_map.
  induction c as [|[k v] c IH]; cbn [map alookup fst snd option_map]; [reflexivity|].
  destruct (N.eqb ch k); [reflexivity|exact IH].
Qed.

Lemma alookup_map_snd {A B} (h : A -> B) (m : list (N * A)) ch :
  alookup ch (map (fun kv => (fst kv, h (snd kv))) m) = option_map h (alookup ch m).
Proof.
  induction m as [|[k v] m IH]; cbn [map alookup fst snd option_map]; [reflexivity|].
  destruct (N.eqb ch k); [reflexivity|exact IH].
Qed.

Lemma alookup_some_in_keys {V} (m : list (N * V)) ch : In ch (map fst m) <-> exists v, alookup ch m = Some v.
Proof.
  induction m as [|[k v] m IH]; cbn [map fst In alookup].
  - split; [tauto|intros [v H]; discriminate].
  - destruct (N.eqb_spec ch k) as [->|Hne].
    + split; [intros _; now exists v|now left].
    + rewrite <- IH. split; [intros [H|H]; [congruence|exact H]|now right].
Qed.

Lemma bool_eq_iff (a b : bool) : (a = true <-> b = true) -> a = b.
Proof. destruct a, b; intros [H1 H2]; try reflexivity; [symmetry; now apply H1|now apply H2]. Qed.

Lemma reads_of_home O d f c p ch :
  reads (cfg_of_home O d f c) p ch =
  match alookup ch c with Some cc => memN p (cc_nodes cc) | None => false end.
Proof.
  unfold reads, cfg_of_home. cbn [c_chains]. rewrite alookup_chains_of_home.
  destruct (alookup ch c) as [cc|]; reflexivity.
Qed.

(* the getters of the views of ONE sorted configuration answer exactly what the Roles accessors say *)
Theorem one_config_api O d f c : ksorted c ->
  let v := home_derive c in
  let g := cfg_of_home O d f c in
  (forall p ch, memN ch (get_supported_chains v p) = reads g p ch) /\
  (forall o, match get_chain_config v d with
             | None => None
             | Some cc => if memN o O then Some (memN o (cc_nodes cc)) else None
             end = supports_dest g o) /\
  (forall ch, memN ch (get_known_chains v) = memN ch (home_chains g)) /\
  (forall ch, option_map Z.of_N (alookup ch (get_fchain v)) = alookup ch (home_fchain g)) /\
  (forall ch, option_map cc_pair (get_chain_config v ch) = alookup ch (c_chains g)).
Proof.
  intros Hs v g. destruct (home_views_spec c Hs) as (Hcc & Hkn & Hfc & Hsup). repeat split.
  - intros p ch. apply bool_eq_iff. rewrite memN_In. subst v g. rewrite Hsup, reads_of_home.
    split.
    + intros [cc [H1 H2]]. rewrite H1. now apply memN_In.
    + destruct (alookup ch c) as [cc|]; [|discriminate]. intros H. exists cc. split; [reflexivity|now apply memN_In].
  - intros o. subst v g. rewrite Hcc. unfold supports_dest, known_oracle, cfg_of_home. cbn [c_chains c_dest c_oracles].
    rewrite alookup_chains_of_home. destruct (alookup d c) as [cc|]; reflexivity.
  - intros ch. apply bool_eq_iff. rewrite !memN_In. subst v g. rewrite Hkn, home_chains_of_home.
    symmetry. apply alookup_some_in_keys.
  - intros ch. subst v g. rewrite Hfc, alookup_home_fchain. destruct (alookup ch c); reflexivity.
  - intros ch. subst v g. rewrite Hcc. unfold cfg_of_home. cbn [c_chains]. now rewrite alookup_chains_of_home.
Qed.

(* ---------- after every history of the poller ---------- *)
Lemma home_cfg_of_ksorted evs : ksorted (home_cfg_of evs).
Proof.
  unfold home_cfg_of. destruct (last_good home_fetch evs) as [c|] eqn:E; [|exact I].
  apply home_cfg_fetched in E. destruct E as (pages & fulls & short & rest & _ & _ & _ & _ & _ & Hs). exact Hs.
Qed.

(* the role map a plugin derives from the poller is the one of the latest successfully fetched configuration *)
Theorem views_latest reset evs O d f :
  cfg_of_views O d f (views (prun home_fetch home_derive reset home_init evs)) = cfg_of_home O d f (home_cfg_of evs).
Proof. unfold cfg_of_views. now rewrite home_snapshot. Qed.

(* every getter / ChainSupport answer after any event list = the Roles accessor on that configuration *)
Theorem api_latest reset evs O d f :
  let v := views (prun home_fetch home_derive reset home_init evs) in
  let g := cfg_of_home O d f (home_cfg_of evs) in
  (forall p ch, memN ch (get_supported_chains v p) = reads g p ch) /\
  (forall o, match get_chain_config v d with
             | None => None
             | Some cc => if memN o O then Some (memN o (cc_nodes cc)) else None
             end = supports_dest g o) /\
  (forall ch, memN ch (get_known_chains v) = memN ch (home_chains g)) /\
  (forall ch, option_map Z.of_N (alookup ch (get_fchain v)) = alookup ch (home_fchain g)) /\
  (forall ch, option_map cc_pair (get_chain_config v ch) = alookup ch (c_chains g)).
Proof.
  intros v g. subst v. rewrite home_snapshot. exact (one_config_api O d f _ (home_cfg_of_ksorted evs)).
Qed.

(* ---------- histories of poller events and rounds ---------- *)
Section HistP.
  Variables (O : list N) (d f : N).

  (* the specification: a round is answered from the latest successfully fetched configuration of the poller events
     that precede it, nothing else of the past enters *)
  Fixpoint hspec_from (pre : list home_ev) (evs : list hev) : list (option hout) :=
    match evs with
    | [] => []
    | e :: r =>
        round_out (cfg_of_home O d f (home_cfg_of pre)) e ::
        hspec_from (match e with HPoller e' => pre ++ [e'] | _ => pre end) r
    end.

  Lemma home_run_snoc pre e : home_step (home_run pre) e = home_run (pre ++ [e]).
  Proof. unfold home_run, home_step, prun. now rewrite fold_left_app. Qed.

  Lemma hrun_spec_gen evs : forall pre, hrun_from O d f (home_run pre) evs = hspec_from pre evs.
  Proof.
    induction evs as [|e evs IH]; intros pre; cbn [hrun_from hspec_from]; [reflexivity|].
    f_equal.
    - unfold home_run. now rewrite views_latest.
    - destruct e as [e'| | | |]; cbn [hstep]; try apply IH.
      rewrite home_run_snoc. apply IH.
  Qed.

  Theorem hrun_spec evs : hrun O d f evs = hspec_from [] evs.
  Proof. unfold hrun. exact (hrun_spec_gen evs []). Qed.

  Lemma polls_of_cons e l :
    polls_of (e :: l) = (match e with HPoller e' => [e'] | _ => [] end) ++ polls_of l.
  Proof. reflexivity. Qed.

  Lemma hspec_nth evs : forall pre k e, nth_error evs k = Some e ->
    nth_error (hspec_from pre evs) k =
    Some (round_out (cfg_of_home O d f (home_cfg_of (pre ++ polls_of (firstn k evs)))) e).
  Proof.
    induction evs as [|a evs IH]; intros pre k e Hk; [destruct k; discriminate|].
    destruct k as [|k]; cbn [nth_error hspec_from firstn] in *.
    - inversion Hk; subst a. cbn [polls_of flat_map]. now rewrite app_nil_r.
    - rewrite (IH _ k e Hk). rewrite polls_of_cons. destruct a; cbn [app]; try reflexivity.
      now rewrite <- app_assoc.
  Qed.

  (* the k-th event of ANY history, if it is a round, is answered with the role map of the latest successfully
     fetched configuration among the poller events before it *)
  Definition cfg_at (evs : list hev) (k : nat) : cfg := cfg_of_home O d f (home_cfg_of (polls_of (firstn k evs))).

  Theorem hist_round evs k e : nth_error evs k = Some e ->
    nth_error (hrun O d f evs) k = Some (round_out (cfg_at evs k) e).
  Proof. intros Hk. rewrite hrun_spec. exact (hspec_nth evs [] k e Hk). Qed.

  (* ----- C12 over histories ----- *)
  Theorem hist_commit_verdict evs k retry o ob : nth_error evs k = Some (HValC retry o ob) ->
    let g := cfg_at evs k in
    nth_error (hrun O d f evs) k =
    Some (Some (OVerdict (known_oracle g o && dest_configured g && wf_commit retry ob &&
                          forallb (field_pass g o) (cfields g ob)))).
  Proof.
    intros Hk g. rewrite (hist_round evs k _ Hk). cbn [round_out]. fold g. now rewrite validate_commit_factor.
  Qed.

  Theorem hist_exec_verdict evs k o ob : nth_error evs k = Some (HValE o ob) ->
    let g := cfg_at evs k in
    nth_error (hrun O d f evs) k =
    Some (Some (OVerdict (known_oracle g o && wf_exec ob && forallb (field_pass g o) (efields g ob) &&
                          chains_known g ob))).
  Proof.
    intros Hk g. rewrite (hist_round evs k _ Hk). cbn [round_out]. fold g. now rewrite validate_exec_factor.
  Qed.

  (* accepted in round k => every field outside the recorded class is about a chain the observer is designated for
     in the configuration fetched last before round k (in particular: not a designation that was removed since) *)
  Theorem hist_commit_accepted_designated evs k retry o ob : nth_error evs k = Some (HValC retry o ob) ->
    nth_error (hrun O d f evs) k = Some (Some (OVerdict true)) ->
    forall cl c, In (cl, c) (cfields (cfg_at evs k) ob) -> known_class cl = false ->
                 designated (cfg_at evs k) o c = true.
  Proof.
    intros Hk Hv. rewrite (hist_round evs k _ Hk) in Hv. cbn [round_out] in Hv.
    apply commit_accepted_designated with (retry := retry). congruence.
  Qed.

  Theorem hist_exec_accepted_designated evs k o ob : nth_error evs k = Some (HValE o ob) ->
    nth_error (hrun O d f evs) k = Some (Some (OVerdict true)) ->
    forall cl c, In (cl, c) (efields (cfg_at evs k) ob) -> known_class cl = false ->
                 designated (cfg_at evs k) o c = true.
  Proof.
    intros Hk Hv. rewrite (hist_round evs k _ Hk) in Hv. cbn [round_out] in Hv.
    apply exec_accepted_designated. congruence.
  Qed.

  (* role-conformant data (w.r.t. the configuration fetched last, e.g. right after a designation was added) is accepted *)
  Theorem hist_commit_accept evs k retry o ob : nth_error evs k = Some (HValC retry o ob) ->
    let g := cfg_at evs k in
    known_oracle g o = true -> dest_configured g = true -> wf_commit retry ob = true ->
    (forall cl c, In (cl, c) (cfields g ob) -> designated g o c = true) ->
    nth_error (hrun O d f evs) k = Some (Some (OVerdict true)).
  Proof.
    intros Hk g H1 H2 H3 H4. rewrite (hist_round evs k _ Hk). cbn [round_out]. fold g.
    now rewrite (accept_commit g retry o ob H1 H2 H3 H4).
  Qed.

  Theorem hist_exec_accept evs k o ob : nth_error evs k = Some (HValE o ob) ->
    let g := cfg_at evs k in
    known_oracle g o = true -> wf_exec ob = true -> chains_known g ob = true ->
    (forall cl c, In (cl, c) (efields g ob) -> designated g o c = true) ->
    nth_error (hrun O d f evs) k = Some (Some (OVerdict true)).
  Proof.
    intros Hk g H1 H2 H3 H4. rewrite (hist_round evs k _ Hk). cbn [round_out]. fold g.
    now rewrite (accept_exec g o ob H1 H2 H3 H4).
  Qed.

  (* ----- C11 over histories ----- *)
  (* the honest commit observation of round k is produced, and every later validation round m that still sees the same
     latest configuration (failed polls, re-polls of an unchanged configuration, other rounds may lie between) accepts it *)
  Theorem hist_commit_honest evs k i st phase retry : nth_error evs k = Some (HObsC i st phase retry) ->
    cfg_ok (cfg_at evs k) i = true -> values_ok st = true -> (retry = true -> phase = 1%N) ->
    exists ob,
      nth_error (hrun O d f evs) k = Some (Some (OCommit (Ok ob))) /\
      forall m, nth_error evs m = Some (HValC retry i ob) -> cfg_at evs m = cfg_at evs k ->
                nth_error (hrun O d f evs) m = Some (Some (OVerdict true)).
  Proof.
    intros Hk Hc Hv Hr. destruct (commit_honest_valid _ i st Hc Hv phase retry Hr) as [ob [Hob Hval]].
    exists ob. split.
    - rewrite (hist_round evs k _ Hk). cbn [round_out]. now rewrite Hob.
    - intros m Hm Hsame. rewrite (hist_round evs m _ Hm). cbn [round_out]. rewrite Hsame. now rewrite Hval.
  Qed.

  Theorem hist_exec_honest evs k i st phase ob : nth_error evs k = Some (HObsE i st phase) ->
    cfg_ok (cfg_at evs k) i = true -> values_ok st = true -> pending_known (cfg_at evs k) st = true ->
    nth_error (hrun O d f evs) k = Some (Some (OExec (Ok ob))) ->
    forall m, nth_error evs m = Some (HValE i ob) -> cfg_at evs m = cfg_at evs k ->
              nth_error (hrun O d f evs) m = Some (Some (OVerdict true)).
  Proof.
    intros Hk Hc Hv Hp Hob m Hm Hsame. rewrite (hist_round evs k _ Hk) in Hob. cbn [round_out] in Hob.
    assert (Ho : observe_exec (cfg_at evs k) i st phase = Ok ob) by congruence.
    rewrite (hist_round evs m _ Hm). cbn [round_out]. rewrite Hsame.
    now rewrite (exec_honest_valid _ i st Hc Hv phase ob Hp Ho).
  Qed.
End HistP.

(* ---------- the scripted polls of the harness: state machine = specification ---------- *)
Lemma last_some_app {A} (l : list (option A)) : forall acc x,
  last_some (l ++ [x]) acc = match x with Some y => Some y | None => last_some l acc end.
Proof.
  induction l as [|[y|] l IH]; intros acc x; cbn [app last_some]; [destruct x; reflexivity| |]; apply IH.
Qed.

Lemma home_fetch_poll_pages (p : hpoll) :
  (length (match p with Some l => l | None => [] end) < home_page_size)%nat ->
  home_fetch (poll_pages p) = match p with Some l => Ok (home_convert (entries_of l)) | None => Err end.
Proof.
  destruct p as [l|]; cbn [poll_pages]; intros Hlen; [|reflexivity].
  unfold home_fetch. cbn [home_fetch_pages]. unfold entries_of. rewrite map_length.
  match goal with
  | |- context [Nat.ltb ?a ?b] => replace (Nat.ltb a b) with true by (symmetry; apply Nat.ltb_lt; exact Hlen)
  end.
  reflexivity.
Qed.

Definition short_poll (p : hpoll) : Prop :=
  (length (match p with Some l => l | None => [] end) < home_page_size)%nat.
Definition conv_poll (p : hpoll) : option hcfgs := option_map (fun l => home_convert (entries_of l)) p.

Lemma is_stop_poll p : short_poll p -> is_stop home_fetch (EPoll (poll_pages p)) = false.
Proof. intros H. cbn [is_stop]. rewrite (home_fetch_poll_pages p H). destruct p; reflexivity. Qed.

Lemma until_stop_polls polls : Forall short_poll polls ->
  until_stop home_fetch (map (fun p => EPoll (poll_pages p)) polls) = map (fun p => EPoll (poll_pages p)) polls.
Proof.
  induction 1 as [|p l Hp Hl IH]; cbn [map until_stop]; [reflexivity|].
  rewrite (is_stop_poll p Hp). now f_equal.
Qed.

Lemma poll_results_hist polls : Forall short_poll polls ->
  poll_results home_fetch (hist_events polls) = map conv_poll polls.
Proof.
  intros H. unfold poll_results, live, hist_events. cbn [after_start]. rewrite (until_stop_polls polls H).
  induction H as [|p l Hp Hl IH]; cbn [map flat_map]; [reflexivity|].
  rewrite (home_fetch_poll_pages p Hp), IH. destruct p; reflexivity.
Qed.

Lemma last_good_hist polls : Forall short_poll polls ->
  last_good home_fetch (hist_events polls) =
  match last_some polls None with Some l => Some (home_convert (entries_of l)) | None => None end.
Proof.
  intros H. unfold last_good. rewrite (poll_results_hist polls H). clear H.
  induction polls as [|x polls IH] using rev_ind; [reflexivity|].
  rewrite map_app, rev_app_distr. cbn [map rev app find]. unfold hpoll in *. rewrite (last_some_app polls None x).
  destruct x as [l|]; cbn [conv_poll option_map is_some]; [reflexivity|exact IH].
Qed.

(* for every sequence of scripted poll results (each below the page size): the role map a plugin holds after the poller
   went through them = the role map of the most recent successful one *)
Theorem hist_cfg_spec O d f polls : Forall short_poll polls -> hist_cfg O d f polls = spec_cfg O d f polls.
Proof.
  intros H. unfold hist_cfg, hist_views, home_run. rewrite views_latest.
  unfold spec_cfg, spec_home, home_cfg_of. rewrite (last_good_hist polls H).
  destruct (last_some polls None); reflexivity.
Qed.

(* a SUCCESSFUL poll that answers with no chain config at all replaces the role map by the empty one (nobody is
   designated for anything, no known chain, no fChain) — it is not treated like a failed poll *)
Theorem hist_cfg_empty_poll O d f polls : Forall short_poll polls ->
  hist_cfg O d f (polls ++ [Some []]) = cfg_of_home O d f [].
Proof.
  intros H. rewrite hist_cfg_spec.
  - unfold spec_cfg, spec_home. unfold hpoll in *. rewrite (last_some_app polls None (Some [])). reflexivity.
  - apply Forall_app. split; [exact H|]. constructor; [|constructor]. unfold short_poll, home_page_size. cbn [length]. lia.
Qed.

Theorem empty_cfg_rejects_commit O d f retry o ob : validate_commit (cfg_of_home O d f []) retry o ob = false.
Proof.
  rewrite validate_commit_factor. unfold dest_configured, cfg_of_home, chains_of_home. cbn [c_chains map alookup].
  now rewrite andb_false_r.
Qed.

(* non-vacuity / worked history: oracle 2 reads source chain 5 and the destination 9; chain 5 is then taken away from it
   (it keeps 9), a poll fails, chain 5 is given back.  Its merkle root for chain 5 is accepted, rejected, rejected again
   after the failed poll (the last good map stays), accepted. *)
Local Open Scope N_scope.
Definition ex_O : list N := [0; 1; 2; 3].
Definition ex_cfgA : hpoll := Some [(5, (1, [0; 1; 2; 3])); (9, (1, [0; 1; 2; 3]))].
Definition ex_cfgB : hpoll := Some [(5, (1, [0; 1; 3])); (9, (1, [0; 1; 2; 3]))].
Definition ex_ob : cobs :=
  mkCobs (mkMobs [5] [] [] rmn_none [(5, 1%Z); (9, 1%Z)]) (mkTobs [] [] []) (mkFobs [] [] [] []) [] [].
Definition ex_poll (p : hpoll) : hev := HPoller (EPoll (poll_pages p)).
Definition ex_hist : list hev :=
  [HPoller EStart; ex_poll ex_cfgA; HValC false 2 ex_ob; ex_poll ex_cfgB; HValC false 2 ex_ob;
   ex_poll None; HValC false 2 ex_ob; ex_poll ex_cfgA; HValC false 2 ex_ob].

Example hist_example :
  hrun ex_O 9 9 ex_hist =
  [None; None; Some (OVerdict true); None; Some (OVerdict false); None; Some (OVerdict false); None;
   Some (OVerdict true)].
Proof. vm_compute. reflexivity. Qed.

(* the hypotheses of the acceptance theorems are satisfiable in a history with a change *)
Example hist_commit_honest_example :
  let evs := [HPoller EStart; ex_poll ex_cfgA; ex_poll ex_cfgB;
              HObsC 2 (mkRs true (fun _ _ => false) false [] [5] rmn_none [] [] [] [] [] [] [] [] [] []) 0 false] in
  nth_error evs 3 = Some (HObsC 2 (mkRs true (fun _ _ => false) false [] [5] rmn_none [] [] [] [] [] [] [] [] [] []) 0 false) /\
  cfg_ok (cfg_at ex_O 9 9 evs 3) 2 = true /\ reads (cfg_at ex_O 9 9 evs 3) 2 5 = false /\
  reads (cfg_at ex_O 9 9 evs 2) 2 5 = true.
Proof. vm_compute. repeat split; reflexivity. Qed.
Local Close Scope N_scope.

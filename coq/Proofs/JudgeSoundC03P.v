(* JudgeSoundC03P.v — the executable property of Check/C03_check.v (step_ok per round; steps_ok / recov_ok / hist_ok
   per history) tied to the Prop-level clauses of Props/C03.v.
   (a) the model's own history passes the judge (code 2 never fires on an agreeing case);
   (b) an ARBITRARY history of outcomes that passes the judge satisfies, round by round, the clauses of C03_edges,
       C03_wait_exit, C03_build_carries_cursor, C03_retry_identity and C03_progress, and as a whole the
       clause of C03_recovery — each stated with the implementation's outcome in the place of get_outcome. *)
Require Import Verif.Model.Base Verif.Proofs.BaseP Verif.Model.SeqRange Verif.Proofs.SeqRangeP Verif.Model.CommitMerkle Verif.Model.CommitSM
               Verif.Proofs.CommitSMP.
Require Import Verif.Check.C03_check.

(* ---------- the boolean equalities of the case types decide equality ---------- *)
Lemma js03_list_eqb_eq {A} (e : A -> A -> bool) :
  (forall a b, e a b = true -> a = b) -> forall l1 l2, list_eqb e l1 l2 = true -> l1 = l2.
Proof.
  intros He. induction l1 as [|x l1 IH]; intros [|y l2] H; cbn [list_eqb] in H; try discriminate; [reflexivity|].
  apply andb_true_iff in H. destruct H as [H1 H2]. f_equal; [now apply He|now apply IH].
Qed.
Lemma js03_list_eqb_refl {A} (e : A -> A -> bool) : (forall a, e a a = true) -> forall l, list_eqb e l l = true.
Proof. intros He. induction l as [|x l IH]; cbn [list_eqb]; [reflexivity|]. now rewrite He, IH. Qed.

Lemma sc_eqb_eq a b : sc_eqb a b = true -> a = b.
Proof.
  destruct a as [a1 a2], b as [b1 b2]. unfold sc_eqb, pair_eqb. cbn [fst snd].
  rewrite andb_true_iff, !N.eqb_eq. intros [-> ->]. reflexivity.
Qed.
Lemma sc_eqb_refl a : sc_eqb a a = true.
Proof. unfold sc_eqb, pair_eqb. now rewrite !N.eqb_refl. Qed.
Lemma cr_eqb_eq a b : cr_eqb a b = true -> a = b.
Proof.
  destruct a as [a1 [a2 a3]], b as [b1 [b2 b3]]. unfold cr_eqb, pair_eqb. cbn [fst snd].
  rewrite !andb_true_iff, !N.eqb_eq. intros [-> [-> ->]]. reflexivity.
Qed.
Lemma cr_eqb_refl a : cr_eqb a a = true.
Proof. unfold cr_eqb, pair_eqb. now rewrite !N.eqb_refl. Qed.
Lemma root_eqb_eq a b : root_eqb a b = true -> a = b.
Proof.
  destruct a as [[[k [s e]] ad] r], b as [[[k' [s' e']] ad'] r']. unfold root_eqb.
  rewrite !andb_true_iff, !N.eqb_eq. intros [[[[-> ->] ->] ->] ->]. reflexivity.
Qed.
Lemma root_eqb_refl a : root_eqb a a = true.
Proof. destruct a as [[[k [s e]] ad] r]. unfold root_eqb. now rewrite !N.eqb_refl. Qed.
Lemma cfg_eqb_eq a b : cfg_eqb a b = true -> a = b.
Proof. exact (sc_eqb_eq a b). Qed.
Lemma cfg_eqb_refl a : cfg_eqb a a = true.
Proof. exact (sc_eqb_refl a). Qed.

Lemma outcome_eqb_eq a b : outcome_eqb a b = true -> a = b.
Proof.
  destruct a as [t1 r1 ro1 of1 at1 s1 c1], b as [t2 r2 ro2 of2 at2 s2 c2]. unfold outcome_eqb.
  cbn [o_type o_ranges o_roots o_off o_attempts o_sigs o_cfg]. rewrite !andb_true_iff.
  intros [[[[[[H1 H2] H3] H4] H5] H6] H7].
  apply Z.eqb_eq in H1. apply (js03_list_eqb_eq _ cr_eqb_eq) in H2. apply (js03_list_eqb_eq _ root_eqb_eq) in H3.
  apply (js03_list_eqb_eq _ sc_eqb_eq) in H4. apply N.eqb_eq in H5.
  apply (js03_list_eqb_eq N.eqb (fun a b => proj1 (N.eqb_eq a b))) in H6. apply cfg_eqb_eq in H7.
  subst. reflexivity.
Qed.
Lemma outcome_eqb_refl a : outcome_eqb a a = true.
Proof.
  unfold outcome_eqb. rewrite Z.eqb_refl, N.eqb_refl, cfg_eqb_refl.
  rewrite (js03_list_eqb_refl _ cr_eqb_refl), (js03_list_eqb_refl _ root_eqb_refl), (js03_list_eqb_refl _ sc_eqb_refl),
          (js03_list_eqb_refl _ N.eqb_refl). reflexivity.
Qed.

(* the judge compares histories with hist_oeqb: agreement is equality *)
Lemma hist_oeqb_eq a b : hist_oeqb a b = true -> a = b.
Proof. exact (js03_list_eqb_eq _ outcome_eqb_eq a b). Qed.

(* ---------- the clauses of Props/C03.v with an arbitrary outcome o in the place of get_outcome ---------- *)
(* C03_edges *)
Definition edge_P (prev : outcome) (q : query) (co : option cons) (o : outcome) : Prop :=
  let st := next_state (o_type prev) in
  let st' := next_state (o_type o) in
  match st with
  | Selecting =>
      (exists c, co = Some c /\ o_type o = T_selected /\ st' = Building) \/
      (co = None /\ o = empty_outcome /\ st' = Selecting)
  | Building =>
      (q_retry q = true /\ o = prev /\ st' = Building) \/
      (q_retry q = false /\
       ((o = empty_outcome /\ st' = Selecting) \/
        (o_type o = T_empty /\ st' = Selecting) \/
        (o_type o = T_generated /\ st' = Waiting /\ co <> None)))
  | Waiting =>
      (o = empty_outcome /\ co = None /\ st' = Selecting) \/
      (o_type o = T_transmitted /\ st' = Selecting) \/
      (o_type o = T_failed /\ st' = Selecting) \/
      (o_type o = T_inflight /\ st' = Waiting)
  end.
(* C03_wait_exit *)
Definition wait_exit_P (max : N) (prev : outcome) (c : cons) (o : outcome) : Prop :=
  let upd := exists k s cur, In (k, s) (o_off prev) /\ alookup k (c_off c) = Some cur /\ s <> cur in
  (o_type o = T_transmitted <-> upd) /\
  (o_type o = T_failed <-> ~ upd /\ (max <= add64 (o_attempts prev) 1)%N) /\
  (o_type o = T_inflight <-> ~ upd /\ (add64 (o_attempts prev) 1 < max)%N) /\
  (o_type o = T_inflight -> o_off o = o_off prev /\ o_attempts o = add64 (o_attempts prev) 1) /\
  (o_type o = T_transmitted \/ o_type o = T_failed \/ o_type o = T_inflight).

(* one round: edges, the waiting exits, the cursor carried by a generated report, retry identity, progress *)
Definition round_P (max : N) (prev : outcome) (r : round_in) (o : outcome) : Prop :=
  edge_P prev (fst r) (snd r) o /\
  (next_state (o_type prev) = Waiting -> forall c, snd r = Some c -> wait_exit_P max prev c o) /\
  (next_state (o_type prev) = Building -> o_type o = T_generated -> o_off o = o_off prev) /\
  (next_state (o_type prev) = Building -> q_retry (fst r) = true -> o = prev) /\
  (u64 max -> is_retry prev r = false -> (0 < rounds_left max prev)%N ->
   (rounds_left max o < rounds_left max prev)%N).

(* the clauses are the theorems: at the model's outcome they are C03_edges / C03_wait_exit / ... verbatim *)
Lemma edge_P_at_model max n prev q co : edge_P prev q co (get_outcome max n prev q co).
Proof. exact (edges max n prev q co). Qed.
Lemma wait_exit_P_at_model max n prev q c :
  next_state (o_type prev) = Waiting -> wait_exit_P max prev c (get_outcome max n prev q (Some c)).
Proof. exact (wait_exit max n prev q c). Qed.

(* ---------- (b) one round: step_ok is sound ---------- *)
Lemma step_ok_edge max prev q co o : step_ok max prev (q, co) o = true -> edge_P prev q co o.
Proof.
  unfold step_ok, edge_P. cbn [fst snd]. cbv zeta.
  destruct (next_state (o_type prev)) eqn:ST.
  - destruct co as [c|]; intros H.
    + apply Z.eqb_eq in H. left. exists c. split; [reflexivity|]. split; [exact H|]. rewrite H. reflexivity.
    + apply outcome_eqb_eq in H. right. subst o. repeat split; reflexivity.
  - destruct (q_retry q) eqn:R; intros H.
    + apply outcome_eqb_eq in H. left. subst o. split; [reflexivity|]. split; [reflexivity|exact ST].
    + right. split; [reflexivity|].
      apply orb_true_iff in H. destruct H as [H|H]; [apply orb_true_iff in H; destruct H as [H|H]|].
      * apply outcome_eqb_eq in H. left. subst o. split; reflexivity.
      * apply Z.eqb_eq in H. right; left. split; [exact H|]. rewrite H. reflexivity.
      * apply andb_true_iff in H. destruct H as [H _]. apply andb_true_iff in H. destruct H as [H _].
        apply andb_true_iff in H. destruct H as [H HS]. apply Z.eqb_eq in H. right; right.
        split; [exact H|]. split; [rewrite H; reflexivity|]. destruct co; [discriminate|discriminate].
  - destruct co as [c|]; intros H.
    + right. destruct (off_updated (o_off prev) (c_off c)).
      * apply Z.eqb_eq in H. left. split; [exact H|]. rewrite H. reflexivity.
      * destruct (N.leb max (add64 (o_attempts prev) 1)).
        -- apply Z.eqb_eq in H. right; left. split; [exact H|]. rewrite H. reflexivity.
        -- apply andb_true_iff in H. destruct H as [H _]. apply andb_true_iff in H. destruct H as [H _].
           apply Z.eqb_eq in H. right; right. split; [exact H|]. rewrite H. reflexivity.
    + apply outcome_eqb_eq in H. left. subst o. repeat split; reflexivity.
Qed.

Lemma step_ok_wait_exit max prev q c o :
  next_state (o_type prev) = Waiting -> step_ok max prev (q, Some c) o = true -> wait_exit_P max prev c o.
Proof.
  intros ST. unfold step_ok, wait_exit_P. cbn [fst snd]. cbv zeta. rewrite ST. rewrite <- off_updated_iff.
  intros H.
  assert (TY : o_type o = (if off_updated (o_off prev) (c_off c) then T_transmitted
                           else if N.leb max (add64 (o_attempts prev) 1) then T_failed else T_inflight) /\
               (off_updated (o_off prev) (c_off c) = false -> N.leb max (add64 (o_attempts prev) 1) = false ->
                o_off o = o_off prev /\ o_attempts o = add64 (o_attempts prev) 1)).
  { destruct (off_updated (o_off prev) (c_off c)); [split; [now apply Z.eqb_eq|discriminate]|].
    destruct (N.leb max (add64 (o_attempts prev) 1)); [split; [now apply Z.eqb_eq|discriminate]|].
    apply andb_true_iff in H. destruct H as [H HA]. apply andb_true_iff in H. destruct H as [H HO].
    apply Z.eqb_eq in H. apply N.eqb_eq in HA. apply (js03_list_eqb_eq _ sc_eqb_eq) in HO.
    split; [exact H|]. intros _ _. split; assumption. }
  destruct TY as [TY CA]. rewrite TY.
  split; [|split; [|split; [|split]]].
  - destruct (off_updated (o_off prev) (c_off c)); [tauto|].
    destruct (N.leb max (add64 (o_attempts prev) 1)); split; intros H0; discriminate.
  - destruct (off_updated (o_off prev) (c_off c)).
    + split; [discriminate|]. intros [H0 _]. exfalso. apply H0. reflexivity.
    + destruct (N.leb_spec max (add64 (o_attempts prev) 1)) as [L|L].
      * split; [intros _; split; [discriminate|exact L]|reflexivity].
      * split; [discriminate|]. intros [_ H0]. lia.
  - destruct (off_updated (o_off prev) (c_off c)).
    + split; [discriminate|]. intros [H0 _]. exfalso. apply H0. reflexivity.
    + destruct (N.leb_spec max (add64 (o_attempts prev) 1)) as [L|L].
      * split; [discriminate|]. intros [_ H0]. lia.
      * split; [intros _; split; [discriminate|exact L]|reflexivity].
  - destruct (off_updated (o_off prev) (c_off c)); [discriminate|].
    destruct (N.leb max (add64 (o_attempts prev) 1)); [discriminate|]. intros _. apply CA; reflexivity.
  - destruct (off_updated (o_off prev) (c_off c)); [left; reflexivity|].
    destruct (N.leb max (add64 (o_attempts prev) 1)); [right; left|right; right]; reflexivity.
Qed.

Lemma step_ok_build_carries max prev r o :
  step_ok max prev r o = true ->
  next_state (o_type prev) = Building -> o_type o = T_generated -> o_off o = o_off prev.
Proof.
  unfold step_ok. intros H ST TG. rewrite ST in H.
  destruct (q_retry (fst r)); [apply outcome_eqb_eq in H; now subst o|].
  apply orb_true_iff in H. destruct H as [H|H]; [apply orb_true_iff in H; destruct H as [H|H]|].
  - apply outcome_eqb_eq in H. subst o. discriminate.
  - apply Z.eqb_eq in H. rewrite H in TG. discriminate.
  - apply andb_true_iff in H. destruct H as [H _]. apply andb_true_iff in H. destruct H as [_ H].
    now apply (js03_list_eqb_eq _ sc_eqb_eq) in H.
Qed.

Lemma step_ok_retry_identity max prev r o :
  step_ok max prev r o = true ->
  next_state (o_type prev) = Building -> q_retry (fst r) = true -> o = prev.
Proof. unfold step_ok. intros H ST R. rewrite ST, R in H. now apply outcome_eqb_eq. Qed.

(* C03_progress on the implementation's outcome *)
Lemma step_ok_progress max prev r o :
  step_ok max prev r o = true ->
  u64 max -> is_retry prev r = false -> (0 < rounds_left max prev)%N ->
  (rounds_left max o < rounds_left max prev)%N.
Proof.
  intros H Hm NR Pos. destruct r as [q co].
  pose proof (step_ok_edge max prev q co o H) as E. unfold edge_P in E. cbv zeta in E.
  unfold is_retry in NR. cbn [fst] in NR. unfold rounds_left in *.
  destruct (next_state (o_type prev)) eqn:ST; cbn [state_eqb andb] in NR.
  - lia.
  - rewrite NR in E. destruct E as [[E _]|[_ E]]; [discriminate|].
    destruct E as [[_ E]|[[_ E]|[T [E _]]]]; rewrite E; try lia.
    assert (A : o_attempts o = 0%N).
    { unfold step_ok in H. cbn [fst snd] in H. rewrite ST, NR in H.
      apply orb_true_iff in H. destruct H as [H|H]; [apply orb_true_iff in H; destruct H as [H|H]|].
      - apply outcome_eqb_eq in H. subst o. reflexivity.
      - apply Z.eqb_eq in H. rewrite H in T. discriminate.
      - apply andb_true_iff in H. destruct H as [_ H]. now apply N.eqb_eq in H. }
    rewrite A. lia.
  - destruct co as [c|].
    + destruct (step_ok_wait_exit max prev q c o ST H) as [_ [_ [HI [HC HT]]]].
      destruct HT as [T|[T|T]].
      * assert (S' : next_state (o_type o) = Selecting) by (rewrite T; reflexivity). rewrite S'. lia.
      * assert (S' : next_state (o_type o) = Selecting) by (rewrite T; reflexivity). rewrite S'. lia.
      * assert (S' : next_state (o_type o) = Waiting) by (rewrite T; reflexivity).
        rewrite S'. destruct (HC T) as [_ A]. rewrite A. apply HI in T. destruct T as [_ L].
        unfold wait_left. set (a1 := add64 (o_attempts prev) 1) in *.
        destruct (N.ltb_spec a1 max) as [_|]; [|lia].
        assert (A1 : add64 a1 1 = (a1 + 1)%N).
        { apply add64_small. unfold u64, two64 in *. lia. }
        rewrite A1. destruct (N.ltb_spec (a1 + 1) max); lia.
    + destruct E as [[E _]|[[E _]|[[E _]|[E _]]]].
      * subst o. cbn. lia.
      * exfalso. unfold step_ok in H. cbn [fst snd] in H. rewrite ST in H. apply outcome_eqb_eq in H.
        subst o. discriminate.
      * exfalso. unfold step_ok in H. cbn [fst snd] in H. rewrite ST in H. apply outcome_eqb_eq in H.
        subst o. discriminate.
      * exfalso. unfold step_ok in H. cbn [fst snd] in H. rewrite ST in H. apply outcome_eqb_eq in H.
        subst o. discriminate.
Qed.

Theorem step_ok_sound max prev r o : step_ok max prev r o = true -> round_P max prev r o.
Proof.
  intros H. unfold round_P. split; [|split; [|split; [|split]]].
  - destruct r as [q co]. now apply (step_ok_edge max).
  - intros ST c Hc. destruct r as [q co]. cbn [snd] in Hc. subst co. now apply (step_ok_wait_exit max prev q).
  - now apply (step_ok_build_carries max prev r).
  - now apply (step_ok_retry_identity max prev r).
  - now apply step_ok_progress.
Qed.

(* ---------- (a) one round: the model's outcome passes ---------- *)
Theorem step_model_passes max n prev r : step_ok max prev r (run_step max n prev r) = true.
Proof.
  destruct r as [q co]. unfold step_ok, run_step, get_outcome, get_outcome_with. cbn [fst snd].
  destruct (next_state (o_type prev)) eqn:ST; cbn [state_eqb andb].
  - destruct co as [c|]; [|apply outcome_eqb_refl].
    unfold select_outcome_with. destruct (report_ranges_with limit (c_on c) (c_off c) n). reflexivity.
  - destruct (q_retry q); [apply outcome_eqb_refl|].
    destruct co as [c|]; [|rewrite outcome_eqb_refl; reflexivity].
    destruct (build_report_type q c prev) as [H|[H|H]].
    + rewrite H. reflexivity.
    + destruct H as [H _]. apply orb_true_iff. left. apply orb_true_iff. right. rewrite H. reflexivity.
    + destruct H as [HT [_ [HO [_ HA]]]]. apply orb_true_iff. right. rewrite HT, HO, HA.
      cbn [is_some]. rewrite (js03_list_eqb_refl _ sc_eqb_refl). reflexivity.
  - destruct co as [c|]; [|apply outcome_eqb_refl]. unfold check_transmission.
    destruct (off_updated (o_off prev) (c_off c)); [reflexivity|].
    destruct (N.leb max (add64 (o_attempts prev) 1)); [reflexivity|].
    cbn [o_type o_off o_attempts]. rewrite (js03_list_eqb_refl _ sc_eqb_refl), N.eqb_refl. reflexivity.
Qed.

(* ---------- histories ---------- *)
(* every round of the history legal, each taken with the outcome that precedes it *)
Fixpoint legal_hist (max : N) (prev : outcome) (rs : list round_in) (os : list outcome) : Prop :=
  match rs, os with
  | [], [] => True
  | r :: rs', o :: os' => round_P max prev r o /\ legal_hist max o rs' os'
  | _, _ => False
  end.

(* the vocabulary of C03_recovery along a history of implementation outcomes: the outcome after the history and the
   number of non-retry rounds in it *)
Fixpoint final (prev : outcome) (os : list outcome) : outcome :=
  match os with [] => prev | o :: os' => final o os' end.
Fixpoint eff_count_tr (prev : outcome) (rs : list round_in) (os : list outcome) : N :=
  match rs, os with
  | r :: rs', o :: os' => ((if is_retry prev r then 0 else 1) + eff_count_tr o rs' os')%N
  | _, _ => 0%N
  end.
(* C03_recovery *)
Definition recovery_P (max : N) (prev : outcome) (rs : list round_in) (os : list outcome) : Prop :=
  (max + 2 <= eff_count_tr prev rs os)%N ->
  exists k, (k <= length rs)%nat /\
    (eff_count_tr prev (firstn k rs) (firstn k os) <= max + 2)%N /\
    next_state (o_type (final prev (firstn k os))) = Selecting.

Definition hist_P (i : hist_in) (os : hist_out) : Prop :=
  let '(max, n, prev, rs) := i in
  length os = length rs /\ legal_hist max prev rs os /\ recovery_P max prev rs os.

(* on the model's own history this vocabulary is that of C03_recovery *)
Lemma scan_length max n rs : forall prev, length (scan max n prev rs) = length rs.
Proof. induction rs as [|r rs IH]; intros prev; cbn [scan length]; [reflexivity|]. now rewrite IH. Qed.
Lemma scan_final max n rs : forall prev, final prev (scan max n prev rs) = run max n prev rs.
Proof. induction rs as [|r rs IH]; intros prev; cbn [scan final]; [reflexivity|]. rewrite IH. reflexivity. Qed.
Lemma scan_eff_count max n rs : forall prev, eff_count_tr prev rs (scan max n prev rs) = eff_count max n prev rs.
Proof. induction rs as [|r rs IH]; intros prev; cbn [scan eff_count_tr eff_count]; [reflexivity|]. now rewrite IH. Qed.
Lemma scan_firstn max n rs : forall k prev, firstn k (scan max n prev rs) = scan max n prev (firstn k rs).
Proof.
  induction rs as [|r rs IH]; intros [|k] prev; cbn [scan firstn]; try reflexivity. now rewrite IH.
Qed.

Lemma recovery_P_at_model max n prev rs :
  recovery_P max prev rs (scan max n prev rs) <->
  ((max + 2 <= eff_count max n prev rs)%N ->
   exists k, (k <= length rs)%nat /\
     (eff_count max n prev (firstn k rs) <= max + 2)%N /\
     next_state (o_type (run max n prev (firstn k rs))) = Selecting).
Proof.
  unfold recovery_P. rewrite scan_eff_count.
  split; intros H L; destruct (H L) as [k [K1 [K2 K3]]]; exists k; (split; [exact K1|]).
  - rewrite scan_firstn, scan_eff_count in K2. rewrite scan_firstn, scan_final in K3. split; assumption.
  - rewrite scan_firstn, scan_eff_count, scan_final. split; assumption.
Qed.

(* ---------- (b) histories: hist_ok is sound ---------- *)
Lemma steps_ok_sound max : forall rs prev os,
  steps_ok max prev rs os = true -> length os = length rs /\ legal_hist max prev rs os.
Proof.
  induction rs as [|r rs IH]; intros prev [|o os] H; cbn [steps_ok] in H; try discriminate.
  - split; [reflexivity|exact I].
  - apply andb_true_iff in H. destruct H as [H1 H2]. destruct (IH o os H2) as [L G].
    split; [cbn [length]; now rewrite L|]. cbn [legal_hist]. split; [now apply step_ok_sound|exact G].
Qed.

Lemma state_eqb_Selecting s : state_eqb s Selecting = true <-> s = Selecting.
Proof. destruct s; cbn; split; congruence. Qed.

Lemma recov_ok_sound max : forall rs prev os cnt,
  recov_ok max prev rs os cnt = true -> (cnt + 1 <= max + 2)%N ->
  (max + 2 <= cnt + eff_count_tr prev rs os)%N ->
  exists k, (k <= length rs)%nat /\
    (cnt + eff_count_tr prev (firstn k rs) (firstn k os) <= max + 2)%N /\
    next_state (o_type (final prev (firstn k os))) = Selecting.
Proof.
  induction rs as [|r rs IH]; intros prev os cnt H C L.
  - cbn [eff_count_tr] in L. lia.
  - destruct (state_eqb (next_state (o_type prev)) Selecting) eqn:SE.
    + exists 0%nat. split; [lia|]. cbn [firstn eff_count_tr final]. split; [lia|]. now apply state_eqb_Selecting.
    + destruct os as [|o os]; [cbn [eff_count_tr] in L; lia|].
      cbn [recov_ok] in H. rewrite SE in H. cbn [eff_count_tr] in L.
      change (is_retry_b prev r) with (is_retry prev r) in H.
      destruct (is_retry prev r) eqn:R.
      * destruct (IH o os cnt H C) as [k [K1 [K2 K3]]]; [lia|].
        exists (S k). split; [cbn [length]; lia|]. cbn [firstn eff_count_tr final]. rewrite R. split; [lia|exact K3].
      * destruct (state_eqb (next_state (o_type o)) Selecting) eqn:SO.
        -- exists 1%nat. split; [cbn [length]; lia|]. cbn [firstn eff_count_tr final]. rewrite R.
           split; [destruct rs, os; cbn [eff_count_tr]; lia|]. now apply state_eqb_Selecting.
        -- destruct (N.leb_spec (max + 2) (cnt + 1)) as [|C']; [discriminate|].
           destruct (IH o os (cnt + 1)%N H) as [k [K1 [K2 K3]]]; [lia|lia|].
           exists (S k). split; [cbn [length]; lia|]. cbn [firstn eff_count_tr final]. rewrite R.
           split; [lia|exact K3].
Qed.

Theorem hist_ok_sound i os : hist_ok i os = true -> hist_P i os.
Proof.
  destruct i as [[[max n] prev] rs]. unfold hist_ok, hist_P. intros H.
  apply andb_true_iff in H. destruct H as [H1 H2].
  destruct (steps_ok_sound max rs prev os H1) as [L G]. split; [exact L|]. split; [exact G|].
  intros LE. destruct (recov_ok_sound max rs prev os 0%N H2) as [k [K1 [K2 K3]]]; [lia|lia|].
  exists k. split; [exact K1|]. split; [lia|exact K3].
Qed.

(* ---------- (a) histories: the model's history passes; max is a Go uint ---------- *)
Lemma steps_model_passes max n : forall rs prev, steps_ok max prev rs (scan max n prev rs) = true.
Proof.
  induction rs as [|r rs IH]; intros prev; cbn [scan steps_ok]; [reflexivity|].
  rewrite step_model_passes, IH. reflexivity.
Qed.

Lemma rounds_left_pos max o :
  state_eqb (next_state (o_type o)) Selecting = false -> (0 < rounds_left max o)%N.
Proof.
  unfold rounds_left, wait_left. destruct (next_state (o_type o)); cbn [state_eqb]; [discriminate| |]; intros _.
  - destruct (N.ltb (add64 0 1) max); lia.
  - destruct (N.ltb (add64 (o_attempts o) 1) max); lia.
Qed.

Lemma recov_model_passes max n : u64 max -> forall rs prev cnt,
  (cnt + rounds_left max prev <= max + 2)%N -> recov_ok max prev rs (scan max n prev rs) cnt = true.
Proof.
  intros Hm. induction rs as [|r rs IH]; intros prev cnt B.
  - cbn [scan recov_ok]. destruct (state_eqb _ _); reflexivity.
  - cbn [scan recov_ok]. destruct (state_eqb (next_state (o_type prev)) Selecting) eqn:SE; [reflexivity|].
    change (is_retry_b prev r) with (is_retry prev r).
    destruct (is_retry prev r) eqn:R.
    + rewrite (retry_step_identity max n prev r R). now apply IH.
    + pose proof (step_decreases max n prev r Hm R (rounds_left_pos max prev SE)) as D.
      destruct (state_eqb (next_state (o_type (run_step max n prev r))) Selecting) eqn:SO; [reflexivity|].
      pose proof (rounds_left_pos max _ SO) as P.
      destruct (N.leb_spec (max + 2) (cnt + 1)) as [C|C]; [lia|]. apply IH. lia.
Qed.

Theorem hist_model_passes max n prev rs :
  u64 max -> hist_ok (max, n, prev, rs) (hist_model (max, n, prev, rs)) = true.
Proof.
  intros Hm. unfold hist_ok, hist_model. rewrite steps_model_passes. cbn [andb].
  apply (recov_model_passes max n Hm). pose proof (rounds_left_bound max prev). lia.
Qed.

(* the premise is needed: with max beyond uint64 the attempt counter wraps before it reaches max, the model itself
   stays in the waiting state for ever and recov_ok rejects its history after max+2 rounds (no Go uint is that large) *)

(* ---------- the properties are satisfiable on a non-trivial history ---------- *)
(* build -> wait (report generated), wait -> wait (in flight), wait -> select (cursor moved), select -> build *)
Example hist_ok_nonvacuous :
  let c := mkCons [(7, (10, 12), 5, 99)%N] [(7, 12)%N] [(7, 10)%N] cfg_empty in
  let prev := mkOutcome T_selected [(7, (10, 12))%N] [] [(7, 10)%N] 0 [] cfg_empty in
  let q := mkQuery false None in
  let i := (5%N, 256%N, prev, [(q, Some c); (q, Some c); (q, Some (mkCons [] [] [(7, 13)%N] cfg_empty)); (q, Some c)]) in
  hist_ok i (hist_model i) = true /\
  map o_type (hist_model i) = [T_generated; T_inflight; T_transmitted; T_selected].
Proof. vm_compute. split; reflexivity. Qed.

(* an outcome history that is NOT the model's (extra signatures in the generated report) still passes: the
   executable property is the state-machine property, not equality with the model *)
Example hist_ok_not_equality :
  let c := mkCons [(7, (10, 12), 5, 99)%N] [(7, 12)%N] [(7, 10)%N] cfg_empty in
  let prev := mkOutcome T_selected [(7, (10, 12))%N] [] [(7, 10)%N] 0 [] cfg_empty in
  let q := mkQuery false None in
  let i := (5%N, 256%N, prev, [(q, Some c)]) in
  let o := mkOutcome T_generated [] [(7, (10, 12), 5, 99)%N] [(7, 10)%N] 0 [42%N] cfg_empty in
  hist_ok i [o] = true /\ hist_oeqb (hist_model i) [o] = false.
Proof. vm_compute. split; reflexivity. Qed.

(* and it does reject: a report generated with a moved cursor; staying in flight at the attempt bound *)
Example hist_ok_rejects :
  let c := mkCons [(7, (10, 12), 5, 99)%N] [(7, 12)%N] [(7, 10)%N] cfg_empty in
  let prev := mkOutcome T_selected [(7, (10, 12))%N] [] [(7, 10)%N] 0 [] cfg_empty in
  let q := mkQuery false None in
  hist_ok (5%N, 256%N, prev, [(q, Some c)])
          [mkOutcome T_generated [] [(7, (10, 12), 5, 99)%N] [(7, 11)%N] 0 [] cfg_empty] = false /\
  hist_ok (1%N, 256%N, mkOutcome T_generated [] [] [(7, 10)%N] 0 [] cfg_empty, [(q, Some c)])
          [mkOutcome T_inflight [] [] [(7, 10)%N] 1 [] cfg_empty] = false.
Proof. vm_compute. split; reflexivity. Qed.

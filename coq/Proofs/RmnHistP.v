(* RmnHistP.v — histories of ComputeReportSignatures calls on one long-lived controller (Model/RmnHist.v). *)
Require Import Verif.Model.Base Verif.Model.Rmn Verif.Model.RmnHist Verif.Proofs.BaseP Verif.Proofs.RmnP.
From Coq Require Import Lia.

(* ---------- the multi-call machine over the concatenated history = the single-call machine per call ---------- *)
Section Memoryless.
  Variable edv : N -> observation -> N -> bool.
  Variable vrs : N -> N -> report -> bool.
  Variable fx : fixes.
  Variable gid : nat -> reqid.

  Notation hstepF := (hstep edv vrs fx gid).

  Lemma fold_HEv evs : forall d cfg sc off g,
    fold_left hstepF (map HEv evs) (mkH d (Some (mkCur cfg sc off g))) =
    mkH d (Some (mkCur cfg sc off (fold_left (gstep edv vrs fx cfg sc) evs g))).
  Proof.
    induction evs as [|e evs IH]; intros d cfg sc off g; cbn [map fold_left]; [reflexivity|].
    cbn [hstep h_cur h_done hc_cfg hc_sc hc_off hc_g]. apply IH.
  Qed.

  Lemma hrun_from calls : forall h,
    hresults (fold_left hstepF (flatten calls) h) = fst (hclose h) ++ hmap edv vrs fx gid (snd (hclose h)) calls.
  Proof.
    induction calls as [|c rest IH]; intros h.
    - cbn. unfold hresults. now rewrite app_nil_r.
    - unfold flatten. cbn [flat_map]. fold (flatten rest).
      rewrite <- app_comm_cons. cbn [fold_left]. rewrite fold_left_app.
      cbn [hstep]. rewrite fold_HEv. rewrite IH.
      cbn [hclose h_cur h_done hc_off hc_g fst snd hmap]. unfold run.
      rewrite <- app_assoc. reflexivity.
  Qed.

  Theorem history_memoryless calls :
    hresults (hrun edv vrs fx gid (flatten calls)) = hmap edv vrs fx gid 0 calls.
  Proof. unfold hrun. rewrite hrun_from. reflexivity. Qed.

  (* every entry of the mapped list is the single-call run of its own call *)
  Lemma hmap_entry calls : forall o c off g,
    In (c, (off, g)) (combine calls (hmap edv vrs fx gid o calls)) ->
    g = run edv vrs fx (cl_cfg c) (with_ids gid off (cl_sc c)) (cl_evs c).
  Proof.
    induction calls as [|c0 rest IH]; intros o c off g H; [destruct H|].
    cbn [hmap combine] in H. destruct H as [H|H].
    - inversion H; subst. reflexivity.
    - eapply IH; eauto.
  Qed.

  Lemma hmap_length calls : forall o, length (hmap edv vrs fx gid o calls) = length calls.
  Proof. induction calls as [|c rest IH]; intros o; cbn; [reflexivity|]. now rewrite IH. Qed.
End Memoryless.

(* ---------- answers under request ids that this call never issued change nothing ---------- *)
Section Stale.
  Variable edv : N -> observation -> N -> bool.
  Variable vrs : N -> N -> report -> bool.
  Variable fx : fixes.
  Variable cfg : config.
  Variable sc : sched.

  (* every outstanding request id was drawn from this call's own id stream *)
  Definition ids_from (ids : ids_t) : Prop := forall id n, In (id, n) ids -> exists k, id = s_id sc k.

  Lemma ids_from_nil : ids_from [].
  Proof. intros id n []. Qed.

  Lemma ids_add_from k n ids : ids_from ids -> ids_from (ids_add (s_id sc k) n ids).
  Proof.
    intros H id m Hin. apply ids_add_in in Hin as [Hin|E]; [eauto|]. inversion E; subst. eauto.
  Qed.

  Lemma send_obs_from nodes pairs : forall st, ids_from (ss_ids st) -> ids_from (ss_ids (send_obs sc nodes pairs st)).
  Proof.
    induction nodes as [|n rest IH]; intros st H; cbn [send_obs]; [exact H|].
    destruct (s_fail sc (ss_k st)); apply IH; cbn [ss_ids]; [exact H|now apply ids_add_from].
  Qed.

  Lemma send_sigs_first_from order : forall st,
    ids_from (gs_ids st) -> ids_from (gs_ids (send_sigs_first cfg sc order st)).
  Proof.
    induction order as [|n rest IH]; intros st H; cbn [send_sigs_first]; [exact H|].
    destruct (gte_f_plus_one _ _); [exact H|].
    destruct (negb (is_home cfg n)); [now apply IH|].
    destruct (s_fail sc (gs_k st)); apply IH; cbn [gs_ids]; [exact H|now apply ids_add_from].
  Qed.

  Lemma send_sigs_more_from order : forall st,
    ids_from (gs_ids st) -> ids_from (gs_ids (send_sigs_more cfg sc order st)).
  Proof.
    induction order as [|n rest IH]; intros st H; cbn [send_sigs_more]; [exact H|].
    destruct (memN n (gs_asked st)); [now apply IH|].
    destruct (negb (is_home cfg n)); [now apply IH|].
    destruct (s_fail sc (gs_k st)); apply IH; cbn [gs_ids]; [exact H|now apply ids_add_from].
  Qed.

  Definition gids_from (g : gstate) : Prop :=
    match g with
    | GA _ s => ids_from (a_ids s)
    | GB s => ids_from (b_ids s)
    | GFinal _ _ => True
    end.

  Lemma ginit_from : gids_from (ginit cfg sc).
  Proof.
    unfold ginit. destruct (prepare cfg) as [[us| | |]|f]; cbn [gids_from]; auto.
    unfold initA. cbn [a_ids]. apply send_obs_from. exact ids_from_nil.
  Qed.

  Lemma gstep_from g e : gids_from g -> gids_from (gstep edv vrs fx cfg sc g e).
  Proof.
    destruct g as [us s|s|f l]; cbn [gstep gids_from]; intros H; [| |exact I].
    - destruct (stepA edv fx cfg sc us s e) as [s'|[acc|f]] eqn:Es; cbn [gids_from]; [| |exact I].
      + destruct e as [n b| |]; cbn [stepA] in Es; [| |discriminate].
        * destruct (parse fx (a_ids s) (a_fin s) n b) as [[id p]|]; [|inversion Es; subst; exact H].
          destruct (validate_obs edv fx cfg n us p) as [v| | |]; try discriminate;
            (destruct (sufficient us _) as [[|]| | |]; try discriminate;
             destruct (_ && _); [discriminate|]; inversion Es; subst; exact H).
        * destruct (a_exp s); inversion Es; subst; cbn [a_ids]; [exact H|].
          apply send_obs_from. exact H.
      + unfold enterB, startB.
        destruct (all_votes acc); cbn [gids_from]; try exact I.
        destruct (select_roots sc _ us); [|exact I].
        destruct (negb (c_dest_known cfg)); [exact I|].
        destruct (tas_panics acc); [exact I|].
        destruct (lt_f_plus_one _ _); [exact I|]. cbn [gids_from b_ids].
        apply send_sigs_first_from. exact ids_from_nil.
    - destruct (stepB vrs fx cfg sc s e) as [s'|f] eqn:Es; cbn [gids_from]; [|exact I].
      destruct e as [n b| |]; cbn [stepB] in Es; [| |discriminate].
      + destruct (parse fx (b_ids s) (b_fin s) n b) as [[id p]|]; [|inversion Es; subst; exact H].
        destruct (validate_sig vrs cfg (b_rep s) n p) as [[a g]| | |]; try discriminate;
          (destruct (gte_f_plus_one _ _); [discriminate|]; destruct (_ && _); [discriminate|];
           inversion Es; subst; exact H).
      + destruct (b_exp s); inversion Es; subst; cbn [b_ids]; [exact H|].
        apply send_sigs_more_from. exact H.
  Qed.

  Variable stale : reqid -> bool.
  Hypothesis own_ids_not_stale : forall k, stale (s_id sc k) = false.

  Definition is_stale (e : event) : bool :=
    match e with Resp _ (BMsg id _) => stale id | _ => false end.

  Lemma stale_not_member ids id : ids_from ids -> stale id = true -> ids_mem id ids = false.
  Proof.
    intros H S. unfold ids_mem. apply memN_false. intros Hin.
    apply in_map_iff in Hin as ([i n] & E & Hin). cbn in E. subst i.
    destruct (H _ _ Hin) as [k ->]. rewrite own_ids_not_stale in S. discriminate.
  Qed.

  Lemma stale_step g e : gids_from g -> is_stale e = true -> gstep edv vrs fx cfg sc g e = g.
  Proof.
    intros H S. destruct e as [n [|id p]| |]; try discriminate. cbn [is_stale] in S.
    destruct g as [us s|s|f l]; cbn [gstep gids_from] in *; [| |reflexivity].
    - cbn [stepA]. unfold parse. now rewrite (stale_not_member _ _ H S).
    - cbn [stepB]. unfold parse. now rewrite (stale_not_member _ _ H S).
  Qed.

  Lemma stale_fold evs : forall g, gids_from g ->
    fold_left (gstep edv vrs fx cfg sc) evs g =
    fold_left (gstep edv vrs fx cfg sc) (filter (fun e => negb (is_stale e)) evs) g.
  Proof.
    induction evs as [|e evs IH]; intros g H; cbn [fold_left filter]; [reflexivity|].
    destruct (is_stale e) eqn:S; cbn [negb fold_left].
    - rewrite (stale_step g e H S). now apply IH.
    - apply IH. now apply gstep_from.
  Qed.

  Theorem stale_ignored evs :
    run edv vrs fx cfg sc evs = run edv vrs fx cfg sc (filter (fun e => negb (is_stale e)) evs).
  Proof. unfold run. apply stale_fold, ginit_from. Qed.
End Stale.

(* with request ids that never repeat, answers to EARLIER calls do not influence a later call *)
Lemma issued_before_own (gid : nat -> reqid) off k :
  (forall i j, gid i = gid j -> i = j) -> issued_before gid off (gid (off + k)) = false.
Proof.
  intros Inj. unfold issued_before. destruct (existsb _ _) eqn:E; [|reflexivity].
  apply existsb_exists in E as (m & Hm & Eq). apply in_seq in Hm. apply N.eqb_eq in Eq. apply Inj in Eq. lia.
Qed.

Theorem leftover_ignored edv vrs fx (gid : nat -> reqid) calls :
  (forall i j, gid i = gid j -> i = j) ->
  forall c off g, In (c, (off, g)) (combine calls (hresults (hrun edv vrs fx gid (flatten calls)))) ->
  g = run edv vrs fx (cl_cfg c) (with_ids gid off (cl_sc c)) (filter (not_leftover gid off) (cl_evs c)).
Proof.
  intros Inj c off g H. rewrite history_memoryless in H. apply hmap_entry in H. subst g.
  rewrite (stale_ignored edv vrs fx (cl_cfg c) (with_ids gid off (cl_sc c)) (issued_before gid off)).
  - f_equal. apply filter_ext. intros [n [|id p]| |]; reflexivity.
  - intros k. cbn [with_ids s_id]. now apply issued_before_own.
Qed.

(* ---------- the C06 thresholds hold for every call of every history, against that call's own configuration and
   that call's own events ---------- *)
Theorem history_call_alone edv vrs fx gid calls c off g :
  In (c, (off, g)) (combine calls (hresults (hrun edv vrs fx gid (flatten calls)))) ->
  g = run edv vrs fx (cl_cfg c) (with_ids gid off (cl_sc c)) (cl_evs c).
Proof. intros H. rewrite history_memoryless in H. now apply hmap_entry in H. Qed.

Theorem history_sig_threshold edv vrs gid calls c off g :
  In (c, (off, g)) (combine calls (hresults (hrun edv vrs fixed gid (flatten calls)))) ->
  NoDup (map sg_node (c_signers (cl_cfg c))) ->
  forall sigs rep log, g = GFinal (Success sigs rep) log ->
  exists us, prepare (cl_cfg c) = inl (Ok us) /\ success_spec edv vrs (cl_cfg c) (cl_evs c) us sigs rep.
Proof.
  intros H ND sigs rep log E. apply history_call_alone in H. subst g.
  eapply success_sound; eauto.
Qed.

Theorem history_obs_threshold edv vrs gid calls c off g :
  In (c, (off, g)) (combine calls (hresults (hrun edv vrs fixed gid (flatten calls)))) ->
  NoDup (map sg_node (c_signers (cl_cfg c))) ->
  forall us s e acc, g = GA us s ->
  stepA edv fixed (cl_cfg c) (with_ids gid off (cl_sc c)) us s e = Done (inl acc) ->
  forall u, In u us -> exists r, lane_backed edv (cl_cfg c) (cl_evs c ++ [e]) (u_req u) (u_F u) r.
Proof.
  intros H ND us s e acc E Es u Hu. apply history_call_alone in H. subst g.
  eapply obs_threshold; eauto.
Qed.

(* ---------- a concrete history: the observer set shrinks between two calls under the SAME config digest ---------- *)
Module HistWitness.
  Import Witness.
  (* call 2: nodes 2 and 3 are no longer observers of lane 5 (F_home is still 1) *)
  Definition cfg2 : config :=
    mkConfig [mkHomeNode 1 [5] 21; mkHomeNode 2 [] 22; mkHomeNode 3 [] 23]%N [(5%N, 1%Z)]
             1 7 true 3 [mkLaneReq 5 w_onr32 10 20]%N
             [mkSigner 1 11; mkSigner 2 12; mkSigner 3 13]%N 1%Z false false.
  Definition gid (k : nat) : reqid := N.of_nat (S k).
  (* the second call sees the very same answers again (now late answers to the first call) *)
  Definition two_calls : list call := [mkCall cfg sc good_run; mkCall cfg2 sc good_run].

  Example two_calls_results :
    exists log,
      hresults (hrun edv vrs fixed gid (flatten two_calls)) =
      [(0%nat, GFinal (Success [1101; 1201]%N [(mkLaneReq 5 w_onr32 10 20, 105)]%N) log);
       (4%nat, GFinal (Failure FNothingToDo) [])].
  Proof. eexists. vm_compute. reflexivity. Qed.

  (* the same observers stay, the first call's answers arrive again during the second call: they carry ids 1..4, the
     second call issued 5..8, so it keeps waiting *)
  Definition replayed : list call := [mkCall cfg sc good_run; mkCall cfg sc good_run].
  Example replayed_second_call_waits :
    exists log us s,
      hresults (hrun edv vrs fixed gid (flatten replayed)) =
      [(0%nat, GFinal (Success [1101; 1201]%N [(mkLaneReq 5 w_onr32 10 20, 105)]%N) log); (4%nat, GA us s)] /\
      a_acc s = [] /\ filter (not_leftover gid 4) good_run = [].
  Proof. do 3 eexists. split; [vm_compute; reflexivity|split; vm_compute; reflexivity]. Qed.

  Lemma gid_injective : forall i j, gid i = gid j -> i = j.
  Proof. unfold gid. intros i j H. apply Nat2N.inj in H. now inversion H. Qed.
End HistWitness.

(* LocksP.v — the general theorem about Model/Locks.v, proved once for all programs:
   threads whose programs pass the check, in every interleaving: no unlock of an unlocked mutex, no data race,
   every group of the store is one version whenever no write section is open, every strictly checked thread's
   observations are of one version per group, terminated threads hold nothing, and whenever a thread waits for the
   mutex some thread that holds it can move.  Plus explicit interleavings refuting three ill-locked programs. *)
Require Import Verif.Model.Base Verif.Proofs.BaseP Verif.Model.Locks.

(* ------------------------------------------------------------------ reflection *)
Lemma list_eqb_N_eq : forall s s', list_eqb N.eqb s s' = true -> s = s'.
Proof.
  induction s as [|x s IH]; intros [|y s'] H; simpl in H; try discriminate; auto.
  apply andb_true_iff in H. destruct H as [H1 H2]. apply N.eqb_eq in H1. f_equal; auto.
Qed.

Lemma memL_In : forall s ll, memL s ll = true -> In s ll.
Proof.
  unfold memL. intros s ll H. apply existsb_exists in H. destruct H as [x [Hx He]].
  apply list_eqb_N_eq in He. subst. exact Hx.
Qed.

Lemma inclb_incl : forall l1 l2, inclb l1 l2 = true -> incl l1 l2.
Proof.
  unfold inclb. intros l1 l2 H x Hx. rewrite forallb_forall in H. apply memN_In. auto.
Qed.

Lemma inclLb_incl : forall l1 l2, inclLb l1 l2 = true -> incl l1 l2.
Proof.
  unfold inclLb. intros l1 l2 H x Hx. rewrite forallb_forall in H. apply memL_In. auto.
Qed.

Lemma mode_eqb_eq : forall a b, mode_eqb a b = true -> a = b.
Proof. intros [] []; simpl; intro H; try discriminate; reflexivity. Qed.

Definition Le (a b : ast) : Prop :=
  a_strict a = a_strict b /\ a_mode a = a_mode b /\ incl (a_wr a) (a_wr b) /\
  incl (a_cur a) (a_cur b) /\ incl (a_stale a) (a_stale b).

Lemma leb_Le : forall a b, leb a b = true -> Le a b.
Proof.
  unfold leb, Le. intros a b H.
  repeat (apply andb_true_iff in H; destruct H as [H ?]).
  repeat split.
  - apply Bool.eqb_prop. assumption.
  - apply mode_eqb_eq. assumption.
  - apply inclLb_incl. assumption.
  - apply inclb_incl. assumption.
  - apply inclb_incl. assumption.
Qed.

Lemma Le_refl : forall a, Le a a.
Proof. intro a. unfold Le. repeat split; apply incl_refl. Qed.

Lemma Le_trans : forall a b c, Le a b -> Le b c -> Le a c.
Proof.
  unfold Le. intros a b c (H1 & H2 & H3 & H4 & H5) (G1 & G2 & G3 & G4 & G5).
  repeat split; try congruence; eapply incl_tran; eassumption.
Qed.

Lemma In_addN : forall x f s, In x (addN f s) <-> x = f \/ In x s.
Proof.
  intros x f s. unfold addN. destruct (memN f s) eqn:E; simpl.
  - apply memN_In in E. split; [auto | intros [H | H]; [subst; assumption | assumption]].
  - split; intros [H | H]; auto.
Qed.

Definition AllOrNone (lay : layout) (wr : list (list N)) : Prop :=
  forall s, In s wr -> forall g, In g lay -> (forall f, In f g -> ~ In f s) \/ (forall f, In f g -> In f s).

Lemma all_or_none_spec : forall lay wr, all_or_none lay wr = true <-> AllOrNone lay wr.
Proof.
  unfold all_or_none, AllOrNone. intros lay wr. rewrite forallb_forall. split.
  - intros H s Hs g Hg. specialize (H s Hs). rewrite forallb_forall in H. specialize (H g Hg).
    apply orb_true_iff in H. destruct H as [H | H]; rewrite forallb_forall in H.
    + left. intros f Hf Hin. specialize (H f Hf). apply negb_true_iff in H.
      apply memN_In in Hin. congruence.
    + right. intros f Hf. apply memN_In. auto.
  - intros H s Hs. rewrite forallb_forall. intros g Hg. apply orb_true_iff.
    destruct (H s Hs g Hg) as [Hn | Ha].
    + left. rewrite forallb_forall. intros f Hf. apply negb_true_iff.
      destruct (memN f s) eqn:E; auto. apply memN_In in E. exfalso. eapply Hn; eauto.
    + right. rewrite forallb_forall. intros f Hf. apply memN_In. auto.
Qed.

Definition FreshGroup (lay : layout) (stale : list N) (f : N) : Prop :=
  forall g, In g lay -> In f g -> forall f', In f' g -> f' = f \/ ~ In f' stale.

Lemma fresh_group_spec : forall lay stale f, fresh_group lay stale f = true <-> FreshGroup lay stale f.
Proof.
  unfold fresh_group, FreshGroup. intros lay stale f. rewrite forallb_forall. split.
  - intros H g Hg Hf f' Hf'. specialize (H g Hg). apply orb_true_iff in H. destruct H as [H | H].
    + apply negb_true_iff in H. apply memN_In in Hf. congruence.
    + rewrite forallb_forall in H. specialize (H f' Hf'). apply orb_true_iff in H. destruct H as [H | H].
      * left. apply N.eqb_eq. assumption.
      * right. intro Hin. apply negb_true_iff in H. apply memN_In in Hin. congruence.
  - intros H g Hg. apply orb_true_iff. destruct (memN f g) eqn:E; [right | left; reflexivity].
    apply memN_In in E. rewrite forallb_forall. intros f' Hf'. apply orb_true_iff.
    destruct (H g Hg E f' Hf') as [He | Hn].
    + left. apply N.eqb_eq. assumption.
    + right. apply negb_true_iff. destruct (memN f' stale) eqn:E'; auto. apply memN_In in E'. contradiction.
Qed.

(* ------------------------------------------------------------------ the check as a derivation, with any loop invariant *)
Inductive WL (lay : layout) (Q : ast -> Prop) : ast -> prog -> Prop :=
| WL_ret : forall a, a_mode a = MN -> WL lay Q a Ret
| WL_cont : forall a, Q a -> WL lay Q a Cont
| WL_brk : forall a, Q a -> WL lay Q a Brk
| WL_act : forall a x a' k, tr lay a x = Some a' -> WL lay Q a' k -> WL lay Q a (Act x k)
| WL_choice : forall a p q, WL lay Q a p -> WL lay Q a q -> WL lay Q a (Choice p q)
| WL_loop : forall a inv b k, Le a inv -> WL lay (fun l => Le l inv) inv b -> WL lay Q inv k ->
    WL lay Q a (Loop b k).

Lemma WL_weaken : forall lay (Q Q' : ast -> Prop) a p,
  (forall l, Q l -> Q' l) -> WL lay Q a p -> WL lay Q' a p.
Proof.
  intros lay Q Q' a p HQ H. induction H.
  - apply WL_ret; assumption.
  - apply WL_cont; auto.
  - apply WL_brk; auto.
  - eapply WL_act; eauto.
  - apply WL_choice; auto.
  - eapply WL_loop; eauto.
Qed.

Lemma ax_WL : forall lay p a ls, ax lay a p = Some ls -> WL lay (fun l => In l ls) a p.
Proof.
  intros lay p. induction p as [ | | | x k IH | p IHp q IHq | b IHb k IHk]; intros a ls H;
    [simpl in H | simpl in H | simpl in H | simpl in H | simpl in H | cbn [ax] in H].
  - destruct (a_mode a) eqn:E; try discriminate. apply WL_ret. assumption.
  - inversion H. apply WL_cont. simpl. auto.
  - inversion H. apply WL_brk. simpl. auto.
  - destruct (tr lay a x) as [a'|] eqn:E; try discriminate. eapply WL_act; eauto.
  - destruct (ax lay a p) as [l1|] eqn:E1; try discriminate.
    destruct (ax lay a q) as [l2|] eqn:E2; try discriminate. inversion H; subst.
    apply WL_choice.
    + eapply WL_weaken; [| apply IHp; eassumption]. intros l Hl. apply in_or_app. auto.
    + eapply WL_weaken; [| apply IHq; eassumption]. intros l Hl. apply in_or_app. auto.
  - set (inv := iter loop_fuel
                  (fun i => match ax lay i b with Some ls0 => fold_left join ls0 i | None => i end) a) in *.
    destruct (ax lay inv b) as [lb|] eqn:Eb; try discriminate.
    destruct (leb a inv && forallb (fun l => leb l inv) lb) eqn:Ec; try discriminate.
    apply andb_true_iff in Ec. destruct Ec as [Ea Ef].
    eapply WL_loop with (inv := inv).
    + apply leb_Le. assumption.
    + eapply WL_weaken; [| apply IHb; eassumption]. intros l Hl. apply leb_Le.
      rewrite forallb_forall in Ef. auto.
    + apply IHk. assumption.
Qed.

Lemma checked_WL : forall strict lay p, checked strict lay p = true ->
  WL lay (fun _ => False) (a0 strict) (desugar lay p).
Proof.
  unfold checked. intros strict lay p H.
  destruct (ax lay (a0 strict) (desugar lay p)) as [[|x l]|] eqn:E; try discriminate.
  eapply WL_weaken; [| apply ax_WL; eassumption]. simpl. auto.
Qed.

(* ------------------------------------------------------------------ monotonicity *)
Lemma tr_mono : forall lay a1 a2 x a2', Le a1 a2 -> tr lay a2 x = Some a2' ->
  exists a1', tr lay a1 x = Some a1' /\ Le a1' a2'.
Proof.
  intros lay [s1 m1 w1 c1 t1] [s2 m2 w2 c2 t2] x a2' Hle H. unfold Le in Hle. simpl in Hle.
  destruct Hle as (Hs & Hm & Hw & Hc & Ht). subst s1 m1.
  assert (Hfg : forall f, negb s2 || fresh_group lay t2 f = true -> negb s2 || fresh_group lay t1 f = true).
  { intros f Ef. apply orb_true_iff in Ef. apply orb_true_iff. destruct Ef as [Ef | Ef]; [left; assumption | right].
    apply fresh_group_spec. apply fresh_group_spec in Ef. intros g Hg Hf f' Hf'.
    destruct (Ef g Hg Hf f' Hf') as [He | Hn]; [left; assumption | right]. intro Hin. apply Hn. apply Ht. assumption. }
  destruct x; destruct m2; simpl in H |- *; try discriminate.
  all: try (inversion H; subst; clear H; eexists; split; [reflexivity |];
            unfold Le; simpl; repeat split; auto using incl_refl, incl_app, incl_appl, incl_appr; fail).
  - (* Unlock *)
    destruct (all_or_none lay w2) eqn:Ea; try discriminate. inversion H; subst; clear H.
    assert (Ea1 : all_or_none lay w1 = true).
    { apply all_or_none_spec. apply all_or_none_spec in Ea. intros s Hs1. apply Ea. apply Hw. assumption. }
    rewrite Ea1. eexists; split; [reflexivity |].
    unfold Le; simpl; repeat split; auto using incl_refl, incl_app, incl_appl, incl_appr.
  - (* Read, MR *)
    destruct (negb s2 || fresh_group lay t2 f) eqn:Ef; try discriminate.
    inversion H; subst; clear H. rewrite (Hfg f Ef). eexists; split; [reflexivity |].
    unfold Le; simpl; repeat split; auto. intros y [Hy | Hy]; [left; assumption | right; apply Hc; assumption].
  - (* Read, MW *)
    destruct (negb s2 || fresh_group lay t2 f) eqn:Ef; try discriminate.
    inversion H; subst; clear H. rewrite (Hfg f Ef). eexists; split; [reflexivity |].
    unfold Le; simpl; repeat split; auto. intros y [Hy | Hy]; [left; assumption | right; apply Hc; assumption].
  - (* Write *)
    inversion H; subst; clear H. eexists; split; [reflexivity |].
    unfold Le; simpl; repeat split; auto. intros s Hs1. apply in_map_iff in Hs1. destruct Hs1 as [s0 [He Hs0]].
    subst. apply in_map. apply Hw. assumption.
Qed.

Definition down_closed (Q : ast -> Prop) : Prop := forall l l', Le l l' -> Q l' -> Q l.

Lemma WL_anti : forall lay Q a2 p, WL lay Q a2 p -> down_closed Q -> forall a1, Le a1 a2 -> WL lay Q a1 p.
Proof.
  intros lay Q a2 p H. induction H; intros HQ a1 Hle.
  - apply WL_ret. destruct Hle as (_ & Hm & _). congruence.
  - apply WL_cont. eapply HQ; eauto.
  - apply WL_brk. eapply HQ; eauto.
  - destruct (tr_mono _ _ _ _ _ Hle H) as [a1' [Ht Hle']]. eapply WL_act; eauto.
  - apply WL_choice; auto.
  - eapply WL_loop with (inv := inv); [eapply Le_trans; eauto | assumption | assumption].
Qed.

Lemma down_closed_Le : forall inv, down_closed (fun l => Le l inv).
Proof. intros inv l l' H1 H2. eapply Le_trans; eauto. Qed.

Lemma down_closed_False : down_closed (fun _ => False).
Proof. intros l l' _ H. exact H. Qed.

(* unfolding a loop keeps the derivation *)
Lemma WL_subst : forall lay Q inv again after, down_closed Q ->
  WL lay Q inv again -> WL lay Q inv after ->
  forall a p, WL lay (fun l => Le l inv) a p -> WL lay Q a (subst p again after).
Proof.
  intros lay Q inv again after HQ Hag Haf a p H.
  remember (fun l => Le l inv) as Q0 eqn:EQ. induction H; simpl.
  - apply WL_ret. assumption.
  - subst Q0. eapply WL_anti; eauto.
  - subst Q0. eapply WL_anti; eauto.
  - eapply WL_act; eauto.
  - apply WL_choice; auto.
  - eapply WL_loop; eauto.
Qed.

Lemma WL_loop_inv : forall lay Q a b k, WL lay Q a (Loop b k) ->
  exists inv, Le a inv /\ WL lay (fun l => Le l inv) inv b /\ WL lay Q inv k.
Proof. intros lay Q a b k H. inversion H; subst. eauto. Qed.

Lemma WL_unfold : forall lay Q a b k, down_closed Q -> WL lay Q a (Loop b k) ->
  exists inv, Le a inv /\ WL lay Q inv (subst b (Loop b k) k) /\ WL lay Q inv k.
Proof.
  intros lay Q a b k HQ H. destruct (WL_loop_inv _ _ _ _ _ H) as [inv (Hle & Hb & Hk)].
  exists inv. split; [assumption |]. split; [| assumption].
  apply WL_subst with (inv := inv);
    [assumption | eapply WL_loop with (inv := inv); [apply Le_refl | assumption | assumption] | assumption | assumption].
Qed.

(* ------------------------------------------------------------------ the invariant *)
Definition unwritten (sh : shared) (f : N) : Prop :=
  match lk_w sh with Some v => store sh f <> v | None => True end.

(* what the abstract state [a] of the check says about thread [t] in the shared state [sh] *)
Definition G (lay : layout) (sh : shared) (a : ast) (t : thread) : Prop :=
  a_strict a = t_label t /\
  (t_ver t < next sh)%N /\
  (a_mode a = MW -> lk_w sh = Some (t_ver t) /\
                    exists s, In s (a_wr a) /\ forall f, In f s <-> store sh f = t_ver t) /\
  (forall f v, lookup f (t_obs t) = Some v -> In f (a_stale a ++ a_cur a)) /\
  (a_strict a = true -> a_mode a <> MN ->
     forall f v, lookup f (t_obs t) = Some v -> ~ In f (a_stale a) ->
     forall f', same_group lay f f' -> unwritten sh f' -> v = store sh f') /\
  (a_strict a = true -> obs_consistent lay (t_obs t)).

Definition cnt (m : mode) (l : list ast) : nat := length (filter (fun a => mode_eqb (a_mode a) m) l).

Definition LockInv (sh : shared) (l : list ast) : Prop :=
  cnt MR l = lk_r sh /\
  match lk_w sh with None => cnt MW l = 0 | Some _ => cnt MW l = 1 /\ lk_r sh = 0 end.

Definition StoreInv (lay : layout) (sh : shared) : Prop :=
  (forall f, (store sh f < next sh)%N) /\
  (forall f f', same_group lay f f' -> unwritten sh f -> unwritten sh f' -> store sh f = store sh f').

Definition TOK (lay : layout) (sh : shared) (a : ast) (t : thread) : Prop :=
  G lay sh a t /\ WL lay (fun _ => False) a (t_prog t).

Definition Inv (lay : layout) (s : state) : Prop :=
  fault (st_sh s) = false /\
  exists l, Forall2 (TOK lay (st_sh s)) l (st_ths s) /\ LockInv (st_sh s) l /\ StoreInv lay (st_sh s).

Lemma cnt_mid : forall m l1 a l2,
  cnt m (l1 ++ a :: l2) = cnt m l1 + (if mode_eqb (a_mode a) m then 1 else 0) + cnt m l2.
Proof.
  intros m l1 a l2. unfold cnt. rewrite filter_app, app_length. simpl.
  destruct (mode_eqb (a_mode a) m); simpl; lia.
Qed.

Lemma cnt_zero : forall m l, cnt m l = 0 -> forall a, In a l -> a_mode a <> m.
Proof.
  intros m l. induction l as [|x l IH]; intros H a Ha; [contradiction |].
  unfold cnt in H. simpl in H. destruct (mode_eqb (a_mode x) m) eqn:E; simpl in H; try discriminate.
  destruct Ha as [Ha | Ha].
  - subst. intro Hm. rewrite Hm in E. destruct m; discriminate.
  - apply IH; assumption.
Qed.

Lemma cnt_app_zero : forall m l1 l2, cnt m l1 = 0 -> cnt m l2 = 0 -> forall a, In a (l1 ++ l2) -> a_mode a <> m.
Proof.
  intros m l1 l2 H1 H2 a Ha. apply in_app_or in Ha. destruct Ha as [Ha | Ha]; [apply (cnt_zero m l1 H1 a Ha) | apply (cnt_zero m l2 H2 a Ha)].
Qed.

Lemma Forall2_impl_In : forall A B (P P' : A -> B -> Prop) l1 l2,
  Forall2 P l1 l2 -> (forall a b, In a l1 -> P a b -> P' a b) -> Forall2 P' l1 l2.
Proof.
  intros A B P P' l1 l2 H. induction H; intros Himp; constructor.
  - apply Himp; simpl; auto.
  - apply IHForall2. intros a b Ha. apply Himp. simpl; auto.
Qed.

Lemma not_MN_cases : forall m, m <> MR -> m <> MW -> m = MN.
Proof. intros [] H1 H2; congruence. Qed.

(* another thread's state description survives a step that leaves lock word and store alone whenever that thread
   is inside a section *)
Lemma G_frame : forall lay sh sh' ao to,
  G lay sh ao to -> (next sh <= next sh')%N ->
  (a_mode ao <> MN -> lk_w sh' = lk_w sh /\ forall f, store sh' f = store sh f) ->
  G lay sh' ao to.
Proof.
  intros lay sh sh' ao to (H1 & H2 & H3 & H4 & H5 & H6) Hn Hf.
  unfold G. repeat split; auto.
  - lia.
  - destruct (Hf ltac:(rewrite H; discriminate)) as [Hw _]. rewrite Hw. apply H3. assumption.
  - destruct (Hf ltac:(rewrite H; discriminate)) as [Hw Hs].
    destruct (H3 H) as [_ [s [Hs1 Hs2]]]. exists s. split; [assumption |].
    intro f. rewrite Hs. apply Hs2.
  - intros Hst Hm f v Hl Hns f' Hg Hu. destruct (Hf Hm) as [Hw Hs]. rewrite Hs.
    eapply H5; eauto. unfold unwritten in *. rewrite Hw in Hu. rewrite Hs in Hu. exact Hu.
Qed.

Lemma G_le : forall lay sh a a' t, G lay sh a t -> Le a a' -> G lay sh a' t.
Proof.
  intros lay sh a a' t (H1 & H2 & H3 & H4 & H5 & H6) (L1 & L2 & L3 & L4 & L5).
  unfold G. rewrite <- L1, <- L2. repeat split; auto.
  - apply H3. assumption.
  - destruct (H3 H) as [_ [s [Hs1 Hs2]]]. exists s. split; auto.
  - intros f v Hl. specialize (H4 f v Hl). apply in_app_or in H4. apply in_or_app. destruct H4; auto.
  - intros Hst Hm f v Hl Hns. eapply H5; eauto.
Qed.

Lemma lookup_cons : forall f v l f', lookup f' ((f, v) :: l) = if N.eqb f f' then Some v else lookup f' l.
Proof. reflexivity. Qed.

Lemma same_group_sym : forall lay f f', same_group lay f f' -> same_group lay f' f.
Proof. intros lay f f' [g (H1 & H2 & H3)]. exists g. auto. Qed.

(* ------------------------------------------------------------------ one step of one thread *)
Definition Post (lay : layout) (sh : shared) (apre apost : list ast) (sh' : shared) (t' : thread) : Prop :=
  exists a', fault sh' = false /\ TOK lay sh' a' t' /\ LockInv sh' (apre ++ a' :: apost) /\ StoreInv lay sh' /\
    (forall ao to, In ao (apre ++ apost) -> G lay sh ao to -> G lay sh' ao to).

Lemma LockInv_same_mode : forall sh l1 a a' l2, a_mode a' = a_mode a ->
  LockInv sh (l1 ++ a :: l2) -> LockInv sh (l1 ++ a' :: l2).
Proof.
  unfold LockInv. intros sh l1 a a' l2 Hm H. rewrite !cnt_mid in *. rewrite Hm. exact H.
Qed.

Lemma Post_same : forall lay sh a apre apost t' a',
  fault sh = false -> LockInv sh (apre ++ a :: apost) -> StoreInv lay sh ->
  a_mode a' = a_mode a -> TOK lay sh a' t' -> Post lay sh apre apost sh t'.
Proof.
  intros lay sh a apre apost t' a' Hf HL HS Hm HT. exists a'.
  split; [exact Hf |]. split; [exact HT |]. split; [eapply LockInv_same_mode; [exact Hm | exact HL] |].
  split; [exact HS | auto].
Qed.

(* all other threads are outside any section when this one holds the write lock, or when nobody holds anything *)
Lemma others_MN_of_MW : forall sh apre a apost, a_mode a = MW -> LockInv sh (apre ++ a :: apost) ->
  lk_w sh <> None -> forall ao, In ao (apre ++ apost) -> a_mode ao = MN.
Proof.
  intros sh apre a apost Hm [HR HW] Hw ao Hin. rewrite !cnt_mid in *. rewrite Hm in *. simpl in *.
  destruct (lk_w sh) as [v|]; [| congruence]. destruct HW as [HW Hr0].
  apply not_MN_cases.
  - apply (cnt_app_zero MR apre apost); [lia | lia | assumption].
  - apply (cnt_app_zero MW apre apost); [lia | lia | assumption].
Qed.

Lemma others_MN_of_free : forall sh apre a apost, a_mode a = MN -> LockInv sh (apre ++ a :: apost) ->
  lk_w sh = None -> lk_r sh = 0 -> forall ao, In ao (apre ++ apost) -> a_mode ao = MN.
Proof.
  intros sh apre a apost Hm [HR HW] Hw Hr ao Hin. rewrite !cnt_mid in *. rewrite Hm in *. simpl in *.
  rewrite Hw in HW. apply not_MN_cases.
  - apply (cnt_app_zero MR apre apost); [lia | lia | assumption].
  - apply (cnt_app_zero MW apre apost); [lia | lia | assumption].
Qed.

Lemma step_lock : forall lay sh apre a apost a' k ver obs lab,
  fault sh = false -> G lay sh a (mkTh (Act ALock k) ver obs lab) -> tr lay a ALock = Some a' ->
  WL lay (fun _ => False) a' k ->
  LockInv sh (apre ++ a :: apost) -> StoreInv lay sh -> lk_w sh = None -> lk_r sh = 0 ->
  Post lay sh apre apost (mkSh (Some (next sh)) 0 (store sh) (N.succ (next sh)) (fault sh))
       (mkTh k (next sh) obs lab).
Proof.
  intros lay sh apre a apost a' k ver obs lab Hf (G1 & G2 & G3 & G4 & G5 & G6) Htr HW HL [S1 S2] Hw Hr.
  simpl in *. destruct (a_mode a) eqn:Em; try discriminate. inversion Htr; subst a'; clear Htr.
  pose proof (others_MN_of_free _ _ _ _ Em HL Hw Hr) as Hoth.
  eexists. split; [exact Hf |]. split; [split; [| exact HW] |]; [| split; [| split]].
  - unfold G; simpl. repeat split; auto.
    + lia.
    + exists []. split; [left; reflexivity |]. intro f. split; [intros [] |].
      intro He. specialize (S1 f). lia.
    + intros f v Hl. rewrite app_nil_r. eauto.
    + intros _ _ f v Hl Hn. exfalso. apply Hn. eauto.
  - destruct HL as [HR HWc]. rewrite Hw in HWc. rewrite !cnt_mid in *. rewrite Em in *. simpl in *.
    unfold LockInv. simpl. rewrite !cnt_mid. simpl. lia.
  - split; simpl.
    + intro f. specialize (S1 f). lia.
    + intros f f' Hg _ _. apply S2; auto; unfold unwritten; rewrite Hw; exact I.
  - intros ao to Hin HG. apply G_frame with (sh := sh);
      [assumption | simpl; lia | intro Hm; exfalso; apply Hm; apply Hoth; assumption].
Qed.

Lemma step_unlock : forall lay sh apre a apost a' k ver obs lab,
  fault sh = false -> G lay sh a (mkTh (Act AUnlock k) ver obs lab) -> tr lay a AUnlock = Some a' ->
  WL lay (fun _ => False) a' k ->
  LockInv sh (apre ++ a :: apost) -> StoreInv lay sh ->
  lk_w sh <> None /\
  Post lay sh apre apost (mkSh None (lk_r sh) (store sh) (next sh) (fault sh)) (mkTh k ver obs lab).
Proof.
  intros lay sh apre a apost a' k ver obs lab Hf (G1 & G2 & G3 & G4 & G5 & G6) Htr HW HL [S1 S2].
  simpl in *. destruct (a_mode a) eqn:Em; try discriminate.
  destruct (all_or_none lay (a_wr a)) eqn:Ea; try discriminate. inversion Htr; subst a'; clear Htr.
  destruct (G3 eq_refl) as [Hw [s [Hs1 Hs2]]].
  assert (Hwn : lk_w sh <> None) by (rewrite Hw; discriminate).
  split; [exact Hwn |].
  pose proof (others_MN_of_MW _ _ _ _ Em HL Hwn) as Hoth.
  eexists. split; [exact Hf |]. split; [split; [| exact HW] |]; [| split; [| split]].
  - unfold G; simpl. repeat split; auto.
    + discriminate.
    + discriminate.
    + intros f v Hl. rewrite app_nil_r. eauto.
    + intros _ Hm. exfalso. apply Hm. reflexivity.
  - destruct HL as [HR HWc]. rewrite Hw in HWc. rewrite !cnt_mid in *. rewrite Em in *. simpl in *.
    unfold LockInv. simpl. rewrite !cnt_mid. simpl. lia.
  - split; simpl; [exact S1 |].
    intros f f' [g (Hg & Hfg & Hfg')] _ _. apply all_or_none_spec in Ea.
    destruct (Ea s Hs1 g Hg) as [Hnone | Hall].
    + apply S2; [exists g; auto | |]; unfold unwritten; rewrite Hw; intro He.
      * apply (Hnone f Hfg). apply Hs2. exact He.
      * apply (Hnone f' Hfg'). apply Hs2. exact He.
    + pose proof (proj1 (Hs2 f) (Hall f Hfg)). pose proof (proj1 (Hs2 f') (Hall f' Hfg')). congruence.
  - intros ao to Hin HG. apply G_frame with (sh := sh);
      [assumption | simpl; lia | intro Hm; exfalso; apply Hm; apply Hoth; assumption].
Qed.

Lemma step_rlock : forall lay sh apre a apost a' k ver obs lab,
  fault sh = false -> G lay sh a (mkTh (Act ARLock k) ver obs lab) -> tr lay a ARLock = Some a' ->
  WL lay (fun _ => False) a' k ->
  LockInv sh (apre ++ a :: apost) -> StoreInv lay sh -> lk_w sh = None ->
  Post lay sh apre apost (mkSh None (S (lk_r sh)) (store sh) (next sh) (fault sh)) (mkTh k ver obs lab).
Proof.
  intros lay sh apre a apost a' k ver obs lab Hf (G1 & G2 & G3 & G4 & G5 & G6) Htr HW HL [S1 S2] Hw.
  simpl in *. destruct (a_mode a) eqn:Em; try discriminate. inversion Htr; subst a'; clear Htr.
  eexists. split; [exact Hf |]. split; [split; [| exact HW] |]; [| split; [| split]].
  - unfold G; simpl. repeat split; auto.
    + discriminate.
    + discriminate.
    + intros f v Hl. rewrite app_nil_r. eauto.
    + intros _ _ f v Hl Hn. exfalso. apply Hn. eauto.
  - destruct HL as [HR HWc]. rewrite Hw in HWc. rewrite !cnt_mid in *. rewrite Em in *. simpl in *.
    unfold LockInv. simpl. rewrite !cnt_mid. simpl. lia.
  - split; simpl; [exact S1 |]. intros f f' Hg _ _. apply S2; auto; unfold unwritten; rewrite Hw; exact I.
  - intros ao to Hin HG. apply G_frame with (sh := sh); [assumption | simpl; lia | intros _; simpl; auto].
Qed.

Lemma step_runlock : forall lay sh apre a apost a' k ver obs lab,
  fault sh = false -> G lay sh a (mkTh (Act ARUnlock k) ver obs lab) -> tr lay a ARUnlock = Some a' ->
  WL lay (fun _ => False) a' k ->
  LockInv sh (apre ++ a :: apost) -> StoreInv lay sh ->
  exists n, lk_r sh = S n /\
  Post lay sh apre apost (mkSh (lk_w sh) n (store sh) (next sh) (fault sh)) (mkTh k ver obs lab).
Proof.
  intros lay sh apre a apost a' k ver obs lab Hf (G1 & G2 & G3 & G4 & G5 & G6) Htr HW HL [S1 S2].
  simpl in *. destruct (a_mode a) eqn:Em; try discriminate. inversion Htr; subst a'; clear Htr.
  destruct HL as [HR HWc]. rewrite !cnt_mid in *. rewrite Em in *. simpl in *.
  destruct (lk_r sh) as [|n] eqn:Er; [lia |]. exists n. split; [reflexivity |].
  assert (Hw : lk_w sh = None). { destruct (lk_w sh); [destruct HWc; discriminate | reflexivity]. }
  eexists. split; [exact Hf |]. split; [split; [| exact HW] |]; [| split; [| split]].
  - unfold G; simpl. repeat split; auto.
    + discriminate.
    + discriminate.
    + intros f v Hl. rewrite app_nil_r. eauto.
    + intros _ Hm. exfalso. apply Hm. reflexivity.
  - rewrite Hw in *. unfold LockInv. simpl. rewrite !cnt_mid. simpl. lia.
  - split; simpl; [exact S1 |]. intros f f' Hg Hu Hu'. apply S2; auto.
  - intros ao to Hin HG. apply G_frame with (sh := sh); [assumption | simpl; lia | intros _; simpl; auto].
Qed.

Lemma unwritten_of_not_own : forall sh apre a apost t f,
  a_mode a <> MN -> LockInv sh (apre ++ a :: apost) -> (a_mode a = MW -> lk_w sh = Some (t_ver t)) ->
  own_write sh t f = false -> unwritten sh f.
Proof.
  intros sh apre a apost t f Hm [HR HW] H3 Ho. unfold unwritten, own_write in *.
  destruct (lk_w sh) as [w|] eqn:Ew; [| exact I].
  destruct (a_mode a) eqn:Em; [congruence | |].
  - rewrite !cnt_mid in *. rewrite Em in *. simpl in *. destruct HW. lia.
  - specialize (H3 eq_refl). inversion H3; subst w. rewrite N.eqb_refl in Ho. simpl in Ho.
    apply N.eqb_neq. exact Ho.
Qed.

Lemma step_read : forall lay sh apre a apost a' k ver obs lab f,
  fault sh = false -> G lay sh a (mkTh (Act (ARead f) k) ver obs lab) -> tr lay a (ARead f) = Some a' ->
  WL lay (fun _ => False) a' k ->
  LockInv sh (apre ++ a :: apost) -> StoreInv lay sh ->
  Post lay sh apre apost sh
    (if own_write sh (mkTh (Act (ARead f) k) ver obs lab) f then mkTh k ver obs lab
     else mkTh k ver ((f, store sh f) :: obs) lab).
Proof.
  intros lay sh apre a apost a' k ver obs lab f Hf (G1 & G2 & G3 & G4 & G5 & G6) Htr HW HL HS.
  simpl in *.
  assert (Hmn : a_mode a <> MN) by (destruct (a_mode a); [discriminate | discriminate | discriminate]).
  assert (Ha' : (negb (a_strict a) || fresh_group lay (a_stale a) f = true) /\
                a' = mkA (a_strict a) (a_mode a) (a_wr a) (f :: a_cur a) (a_stale a)).
  { destruct (a_mode a); try discriminate;
      destruct (negb (a_strict a) || fresh_group lay (a_stale a) f); try discriminate;
      inversion Htr; auto. }
  destruct Ha' as [Hfr Ha']. subst a'. clear Htr.
  assert (Hcur : forall f0, In f0 (a_stale a ++ a_cur a) -> In f0 (a_stale a ++ f :: a_cur a)).
  { intros f0 Hin. apply in_app_or in Hin. apply in_or_app. destruct Hin; [left | right; right]; assumption. }
  destruct (own_write sh (mkTh (Act (ARead f) k) ver obs lab) f) eqn:Eo.
  - eapply Post_same with (a := a) (a' := mkA (a_strict a) (a_mode a) (a_wr a) (f :: a_cur a) (a_stale a));
      [assumption | exact HL | exact HS | reflexivity |]. split; [| exact HW].
    unfold G; simpl. repeat split; auto.
    + apply G3. assumption.
    + apply G3. assumption.
    + intros f0 v Hl. apply Hcur. eauto.
  - pose proof (unwritten_of_not_own sh apre a apost (mkTh (Act (ARead f) k) ver obs lab) f Hmn HL (fun Hx => proj1 (G3 Hx)) Eo) as Hun.
    eapply Post_same with (a := a) (a' := mkA (a_strict a) (a_mode a) (a_wr a) (f :: a_cur a) (a_stale a));
      [assumption | exact HL | exact HS | reflexivity |]. split; [| exact HW].
    unfold G; simpl. repeat split; auto.
    + apply G3. assumption.
    + apply G3. assumption.
    + intros f0 v Hl. destruct (N.eqb_spec f f0) as [He | Hne].
      * subst f0. apply in_or_app. right. left. reflexivity.
      * apply Hcur. eauto.
    + intros Hst _ f0 v Hl Hns f' Hg Hu. destruct (N.eqb_spec f f0) as [He | Hne].
      * subst f0. inversion Hl; subst v. apply (proj2 HS); assumption.
      * eapply G5; eauto.
    + intro Hst. rewrite Hst in Hfr. simpl in Hfr. apply fresh_group_spec in Hfr.
      intros f1 f2 v1 v2 Hg H1 H2. simpl in H1, H2.
      destruct (N.eqb_spec f f1) as [E1 | N1]; destruct (N.eqb_spec f f2) as [E2 | N2].
      * congruence.
      * subst f1. inversion H1; subst v1. destruct Hg as [g (Hg & Hg1 & Hg2)].
        destruct (Hfr g Hg Hg1 f2 Hg2) as [He | Hns]; [congruence |].
        symmetry. eapply (G5 Hst Hmn f2 v2 H2 Hns f); [exists g; auto | exact Hun].
      * subst f2. inversion H2; subst v2. destruct Hg as [g (Hg & Hg1 & Hg2)].
        destruct (Hfr g Hg Hg2 f1 Hg1) as [He | Hns]; [congruence |].
        eapply (G5 Hst Hmn f1 v1 H1 Hns f); [exists g; auto | exact Hun].
      * eapply (G6 Hst); eauto.
Qed.

Lemma step_write : forall lay sh apre a apost a' k ver obs lab f,
  fault sh = false -> G lay sh a (mkTh (Act (AWrite f) k) ver obs lab) -> tr lay a (AWrite f) = Some a' ->
  WL lay (fun _ => False) a' k ->
  LockInv sh (apre ++ a :: apost) -> StoreInv lay sh ->
  Post lay sh apre apost (mkSh (lk_w sh) (lk_r sh) (upd (store sh) f ver) (next sh) (fault sh)) (mkTh k ver obs lab).
Proof.
  intros lay sh apre a apost a' k ver obs lab f Hf (G1 & G2 & G3 & G4 & G5 & G6) Htr HW HL [S1 S2].
  simpl in *. destruct (a_mode a) eqn:Em; try discriminate. inversion Htr; subst a'; clear Htr.
  destruct (G3 eq_refl) as [Hw [s [Hs1 Hs2]]].
  assert (Hwn : lk_w sh <> None) by (rewrite Hw; discriminate).
  pose proof (others_MN_of_MW _ _ _ _ Em HL Hwn) as Hoth.
  assert (Hupd : forall f', upd (store sh) f ver f' <> ver -> f' <> f /\ upd (store sh) f ver f' = store sh f').
  { intros f' Hne. unfold upd in *. destruct (N.eqb_spec f' f); [congruence | auto]. }
  eexists. split; [exact Hf |]. split; [split; [| exact HW] |]; [| split; [| split]].
  - unfold G; simpl. repeat split; auto.
    + exists (addN f s). split; [apply in_map; assumption |]. intro f0. rewrite In_addN. unfold upd.
      destruct (N.eqb_spec f0 f) as [He | Hne].
      * subst. split; auto.
      * rewrite <- Hs2. split; [intros [Hx | Hx]; [congruence | assumption] | intro Hx; right; assumption].
    + intros Hst _ f0 v Hl Hns f' Hg Hu. unfold unwritten in Hu. simpl in Hu. rewrite Hw in Hu.
      destruct (Hupd f' Hu) as [Hne Heq]. rewrite Heq. eapply (G5 Hst ltac:(discriminate) f0 v Hl Hns f' Hg).
      unfold unwritten. rewrite Hw. congruence.
  - eapply LockInv_same_mode with (a := a); [simpl; congruence |]. exact HL.
  - split; simpl.
    + intro f0. unfold upd. destruct (N.eqb f0 f); [assumption | apply S1].
    + intros f1 f2 Hg Hu1 Hu2. unfold unwritten in Hu1, Hu2. simpl in Hu1, Hu2. rewrite Hw in Hu1, Hu2.
      destruct (Hupd f1 Hu1) as [Hn1 He1]. destruct (Hupd f2 Hu2) as [Hn2 He2]. rewrite He1, He2.
      apply S2; [assumption | |]; unfold unwritten; rewrite Hw; congruence.
  - intros ao to Hin HG. apply G_frame with (sh := sh);
      [assumption | simpl; lia | intro Hm; exfalso; apply Hm; apply Hoth; assumption].
Qed.

Lemma tstep_pres : forall lay sh apre a apost t c sh' t',
  fault sh = false -> TOK lay sh a t -> LockInv sh (apre ++ a :: apost) -> StoreInv lay sh ->
  tstep c sh t = Some (sh', t') -> Post lay sh apre apost sh' t'.
Proof.
  intros lay sh apre a apost [p ver obs lab] c sh' t' Hf [HG HW] HL HS H.
  unfold tstep in H. simpl in *.
  destruct p as [ | | | x k | p q | b k]; try discriminate.
  - inversion HW as [ | | | a1 x1 a' k1 Htr HWk | | ]; subst.
    destruct x.
    + destruct (lk_w sh) eqn:Ew; try discriminate. destruct (lk_r sh) eqn:Er; try discriminate.
      inversion H; subst. eapply step_lock; eauto.
    + destruct (step_unlock lay sh apre a apost a' k ver obs lab Hf HG Htr HWk HL HS) as [Hwn HP].
      destruct (lk_w sh); [inversion H; subst; exact HP | congruence].
    + destruct (lk_w sh) eqn:Ew; try discriminate. inversion H; subst. eapply step_rlock; eauto.
    + destruct (step_runlock lay sh apre a apost a' k ver obs lab Hf HG Htr HWk HL HS) as [n [Er HP]].
      rewrite Er in H. inversion H; subst. exact HP.
    + simpl in Htr. inversion Htr; subst a'. inversion H; subst.
      eapply Post_same with (a := a) (a' := a); eauto. split; assumption.
    + simpl in Htr. inversion Htr; subst a'. inversion H; subst.
      eapply Post_same with (a := a) (a' := a); eauto. split; assumption.
    + pose proof (step_read lay sh apre a apost a' k ver obs lab f Hf HG Htr HWk HL HS) as HP.
      destruct (own_write sh {| t_prog := Act (ARead f) k; t_ver := ver; t_obs := obs; t_label := lab |} f);
        inversion H; subst; exact HP.
    + inversion H; subst. eapply step_write; eauto.
    + simpl in Htr. discriminate.
    + simpl in Htr. discriminate.
    + simpl in Htr. discriminate.
    + simpl in Htr. inversion Htr; subst a'. inversion H; subst.
      eapply Post_same with (a := a) (a' := a); eauto. split; assumption.
    + simpl in Htr. destruct (a_mode a); try discriminate. inversion Htr; subst a'. inversion H; subst.
      eapply Post_same with (a := a) (a' := a); eauto. split; assumption.
    + simpl in Htr. destruct (a_mode a); try discriminate. inversion Htr; subst a'. inversion H; subst.
      eapply Post_same with (a := a) (a' := a); eauto. split; assumption.
    + simpl in Htr. destruct (a_mode a); try discriminate. inversion Htr; subst a'. inversion H; subst.
      eapply Post_same with (a := a) (a' := a); eauto. split; assumption.
    + simpl in Htr. destruct (a_mode a); try discriminate. inversion Htr; subst a'. inversion H; subst.
      eapply Post_same with (a := a) (a' := a); eauto. split; assumption.
  - inversion HW; subst. inversion H; subst.
    eapply Post_same with (a := a) (a' := a); eauto. split; [exact HG |]. simpl. destruct c; assumption.
  - destruct (WL_unfold _ _ _ _ _ down_closed_False HW) as [inv (Hle & Hu & Hk)]. inversion H; subst.
    eapply Post_same with (a := a) (a' := inv); eauto.
    + symmetry. apply Hle.
    + split; [eapply G_le; [exact HG | exact Hle] |]. simpl. destruct c; assumption.
Qed.

Lemma step_Inv : forall lay s s', Inv lay s -> step s s' -> Inv lay s'.
Proof.
  intros lay s s' (Hf & l & HF & HL & HS) (pre & t & post & c & sh' & t' & Hths & Hst & Hs').
  rewrite Hths in HF. apply Forall2_app_inv_r in HF. destruct HF as (apre & l2 & Hpre & H2 & Hl).
  inversion H2 as [| a t0 apost post0 HT Hpost]; subst.
  destruct (tstep_pres lay (st_sh s) apre a apost t c sh' t' Hf HT HL HS Hst)
    as (a' & Hf' & HT' & HL' & HS' & Hfr).
  unfold Inv. simpl. split; [exact Hf' |]. exists (apre ++ a' :: apost).
  split; [| split; assumption].
  apply Forall2_app.
  - eapply Forall2_impl_In; [exact Hpre |]. intros ao to Hin [HGo HWo]. split; [| exact HWo].
    apply Hfr; [apply in_or_app; left; exact Hin | exact HGo].
  - constructor; [exact HT' |].
    eapply Forall2_impl_In; [exact Hpost |]. intros ao to Hin [HGo HWo]. split; [| exact HWo].
    apply Hfr; [apply in_or_app; right; exact Hin | exact HGo].
Qed.

Definition checked_thread (lay : layout) (lp : bool * prog) : Prop :=
  WL lay (fun _ => False) (a0 (fst lp)) (snd lp).

Lemma cnt_init : forall m (lps : list (bool * prog)), m <> MN -> cnt m (map (fun lp => a0 (fst lp)) lps) = 0.
Proof.
  intros m lps Hm. induction lps as [|x lps IH]; [reflexivity |].
  unfold cnt in *. simpl. destruct m; [congruence | simpl; exact IH | simpl; exact IH].
Qed.

Lemma init_Inv : forall lay lps, Forall (checked_thread lay) lps -> Inv lay (init lps).
Proof.
  intros lay lps H. unfold Inv, init. simpl. split; [reflexivity |].
  exists (map (fun lp => a0 (fst lp)) lps). split; [| split].
  - induction H as [|[b p] lps Hx Hl IH]; simpl; constructor; [| exact IH].
    split; [| exact Hx]. unfold G, th0, a0; simpl. repeat split; try discriminate.
  - unfold LockInv. simpl. rewrite !cnt_init by discriminate. auto.
  - unfold StoreInv. simpl. split; [intro; reflexivity | auto].
Qed.

Lemma reachable_Inv : forall lay lps s, Forall (checked_thread lay) lps -> reachable (init lps) s -> Inv lay s.
Proof.
  intros lay lps s H Hr. induction Hr; [apply init_Inv; exact H | eapply step_Inv; eauto].
Qed.

(* ------------------------------------------------------------------ what the invariant gives *)
Lemma Forall2_In_r : forall A B (P : A -> B -> Prop) l1 l2 b,
  Forall2 P l1 l2 -> In b l2 -> exists a, In a l1 /\ P a b.
Proof.
  intros A B P l1 l2 b H. induction H; intros Hin; [contradiction |].
  destruct Hin as [Hin | Hin].
  - subst. exists x. simpl; auto.
  - destruct (IHForall2 Hin) as [a [Ha HP]]. exists a. simpl; auto.
Qed.

Lemma Forall2_In_l : forall A B (P : A -> B -> Prop) l1 l2 a,
  Forall2 P l1 l2 -> In a l1 -> exists b, In b l2 /\ P a b.
Proof.
  intros A B P l1 l2 a H. induction H; intros Hin; [contradiction |].
  destruct Hin as [Hin | Hin].
  - subst. exists y. simpl; auto.
  - destruct (IHForall2 Hin) as [b [Hb HP]]. exists b. simpl; auto.
Qed.

Lemma cnt_pos : forall m l, cnt m l > 0 -> exists a, In a l /\ a_mode a = m.
Proof.
  intros m l. induction l as [|x l IH]; unfold cnt; simpl; intro H; [lia |].
  destruct (mode_eqb (a_mode x) m) eqn:E.
  - exists x. split; [left; reflexivity | apply mode_eqb_eq; exact E].
  - destruct (IH H) as [a [Ha Hm]]. exists a. split; [right; exact Ha | exact Hm].
Qed.

Lemma mode_of_write : forall lay sh a t f, TOK lay sh a t -> writes t f -> a_mode a = MW.
Proof.
  intros lay sh a [p ver obs lab] f [_ HW] H. unfold writes, head_act in H. simpl in *.
  destruct p; try discriminate. inversion H; subst. inversion HW; subst.
  simpl in *. destruct (a_mode a); try discriminate. reflexivity.
Qed.

Lemma mode_of_access : forall lay sh a t f, TOK lay sh a t -> accesses t f -> a_mode a <> MN.
Proof.
  intros lay sh a t f HT [H | H].
  - destruct t as [p ver obs lab]. destruct HT as [_ HW]. unfold head_act in H. simpl in *.
    destruct p; try discriminate. inversion H; subst. inversion HW; subst.
    simpl in *. destruct (a_mode a); try discriminate.
  - rewrite (mode_of_write lay sh a t f HT H). discriminate.
Qed.

Lemma Inv_no_race : forall lay s, Inv lay s -> ~ race s.
Proof.
  intros lay s (Hf & l & HF & [HR HWc] & HS) (l1 & t1 & l2 & t2 & l3 & f & Hths & Hc).
  rewrite Hths in HF. apply Forall2_app_inv_r in HF. destruct HF as (la & r1 & _ & H1 & El).
  inversion H1 as [| a1 t1' r2 r2' HT1 H2]; subst.
  apply Forall2_app_inv_r in H2. destruct H2 as (lb & r3 & _ & H3 & El2).
  inversion H3 as [| a2 t2' lc lc' HT2 _]; subst.
  rewrite !cnt_mid in *.
  assert (Hbad : (a_mode a1 = MW /\ a_mode a2 <> MN) \/ (a_mode a1 <> MN /\ a_mode a2 = MW)).
  { destruct Hc as [[Hw Ha] | [Ha Hw]].
    - left. split; [eapply mode_of_write; eauto | eapply mode_of_access; eauto].
    - right. split; [eapply mode_of_access; eauto | eapply mode_of_write; eauto]. }
  destruct (lk_w (st_sh s)); destruct Hbad as [[E1 E2] | [E1 E2]];
    destruct (a_mode a1); destruct (a_mode a2); simpl in *; try congruence; try lia.
Qed.

Lemma Inv_store : forall lay s, Inv lay s -> store_consistent lay (st_sh s).
Proof.
  intros lay s (_ & _ & _ & _ & [_ S2]) Hw f f' Hg. apply S2; auto; unfold unwritten; rewrite Hw; exact I.
Qed.

Lemma Inv_obs : forall lay s t, Inv lay s -> In t (st_ths s) -> t_label t = true -> obs_consistent lay (t_obs t).
Proof.
  intros lay s t (_ & l & HF & _) Hin Hl. destruct (Forall2_In_r _ _ _ _ _ _ HF Hin) as [a [_ [HG _]]].
  destruct HG as (G1 & _ & _ & _ & _ & G6). apply G6. congruence.
Qed.

Lemma Inv_finished_free : forall lay s, Inv lay s -> (forall t, In t (st_ths s) -> finished t) ->
  lk_w (st_sh s) = None /\ lk_r (st_sh s) = 0.
Proof.
  intros lay s (_ & l & HF & [HR HWc] & _) Hfin.
  assert (Hall : forall a, In a l -> a_mode a = MN).
  { intros a Ha. destruct (Forall2_In_l _ _ _ _ _ _ HF Ha) as [t [Ht [_ HW]]].
    specialize (Hfin t Ht). unfold finished in Hfin. rewrite Hfin in HW. inversion HW. assumption. }
  assert (Hz : forall m, m <> MN -> cnt m l = 0).
  { intros m Hm. destruct (cnt m l) eqn:E; [reflexivity |].
    destruct (cnt_pos m l ltac:(lia)) as [a [Ha Hma]]. rewrite (Hall a Ha) in Hma. congruence. }
  rewrite (Hz MR ltac:(discriminate)) in HR. rewrite (Hz MW ltac:(discriminate)) in HWc.
  split; [| auto]. destruct (lk_w (st_sh s)); [destruct HWc; discriminate | reflexivity].
Qed.

Lemma holder_runnable : forall lay sh a t, TOK lay sh a t -> a_mode a <> MN -> runnable sh t.
Proof.
  intros lay sh a [p ver obs lab] [_ HW] Hm. unfold runnable, may_block, head_act, tstep. simpl in *.
  destruct p as [ | | | x k | p q | b k].
  - inversion HW. contradiction.
  - inversion HW. contradiction.
  - inversion HW. contradiction.
  - inversion HW as [ | | | a1 x1 a' k1 Htr HWk | | ]; subst.
    destruct x; simpl in Htr; destruct (a_mode a) eqn:Em; try discriminate; try congruence.
    all: split; [exists true | intros [c0 [Hc | [Hc | Hc]]]; discriminate].
    all: try (eexists; reflexivity).
    all: try (destruct (lk_w sh); eexists; reflexivity).
    all: try (destruct (lk_r sh); eexists; reflexivity).
    all: try (match goal with |- context [own_write ?s ?t ?f] => destruct (own_write s t f) end; eexists; reflexivity).
  - split; [exists true; eexists; reflexivity | intros [c0 [Hc | [Hc | Hc]]]; discriminate].
  - split; [exists true; eexists; reflexivity | intros [c0 [Hc | [Hc | Hc]]]; discriminate].
Qed.

Lemma Inv_held_runnable : forall lay s, Inv lay s ->
  (lk_w (st_sh s) <> None \/ lk_r (st_sh s) <> 0) -> exists t', In t' (st_ths s) /\ runnable (st_sh s) t'.
Proof.
  intros lay s (_ & l & HF & [HR HWc] & _) Hheld.
  assert (Hex : exists a, In a l /\ a_mode a <> MN).
  { destruct Hheld as [Hw | Hr].
    - destruct (lk_w (st_sh s)); [| congruence]. destruct HWc as [HWc _].
      destruct (cnt_pos MW l ltac:(lia)) as [a [Ha Hm]]. exists a. split; [exact Ha | rewrite Hm; discriminate].
    - destruct (cnt_pos MR l ltac:(lia)) as [a [Ha Hm]]. exists a. split; [exact Ha | rewrite Hm; discriminate]. }
  destruct Hex as [a [Ha Hm]]. destruct (Forall2_In_l _ _ _ _ _ _ HF Ha) as [t' [Ht' HT]].
  exists t'. split; [exact Ht' | eapply holder_runnable; eauto].
Qed.

Lemma Inv_progress : forall lay s, Inv lay s ->
  (exists t, In t (st_ths s) /\ waiting (st_sh s) t) -> exists t', In t' (st_ths s) /\ runnable (st_sh s) t'.
Proof.
  intros lay s HI (t & Hin & [Hh Hblk]). apply (Inv_held_runnable lay s HI).
  specialize (Hblk true). destruct t as [p ver obs lab]. unfold tstep, head_act in *. simpl in *.
  destruct p; try (destruct Hh; discriminate).
  destruct Hh as [Hh | Hh]; inversion Hh; subst; simpl in Hblk.
  - destruct (lk_w (st_sh s)); [left; discriminate |]. destruct (lk_r (st_sh s)); [discriminate | right; discriminate].
  - destruct (lk_w (st_sh s)); [left; discriminate | discriminate].
Qed.

(* ------------------------------------------------------------------ the general theorem *)
Theorem locks_general : forall lay lps s,
  Forall (checked_thread lay) lps -> reachable (init lps) s -> locks_safe lay s.
Proof.
  intros lay lps s H Hr. pose proof (reachable_Inv lay lps s H Hr) as HI. unfold locks_safe.
  split; [apply HI |]. split; [eapply Inv_no_race; eauto |]. split; [eapply Inv_store; eauto |].
  split; [intros t Ht Hl; eapply Inv_obs; eauto |].
  split; [eapply Inv_finished_free; eauto |].
  split; [eapply Inv_held_runnable; eauto | eapply Inv_progress; eauto].
Qed.

(* the same for the methods of an extracted object: any number of threads, each running any of the methods *)
Lemma threads_of_checked : forall ex o, well_locked_except ex o = true ->
  Forall (checked_thread (o_layout o)) (threads_of ex o).
Proof.
  intros ex o H. unfold well_locked_except in H. rewrite forallb_forall in H.
  unfold threads_of. apply Forall_forall. intros lp Hin. apply in_map_iff in Hin.
  destruct Hin as [m [Hm Hin]]. subst lp. specialize (H m Hin). unfold checked_thread. simpl.
  destruct (memN (fst m) ex); simpl; apply checked_WL; exact H.
Qed.

Theorem locks_object : forall ex o lps s,
  well_locked_except ex o = true ->
  (forall lp, In lp lps -> In lp (threads_of ex o)) ->
  reachable (init lps) s -> locks_safe (o_layout o) s.
Proof.
  intros ex o lps s H Hsub Hr. apply locks_general with (lps := lps); [| exact Hr].
  pose proof (threads_of_checked ex o H) as HF. rewrite Forall_forall in HF.
  apply Forall_forall. intros lp Hin. apply HF. apply Hsub. exact Hin.
Qed.

(* the same, stated for programs given directly: every thread runs a program that passes the check
   (label true: the strict one) *)
Theorem locks_programs : forall lay (lps : list (bool * prog)) s,
  (forall b p, In (b, p) lps -> checked b lay p = true) ->
  reachable (init (map (fun lp => (fst lp, desugar lay (snd lp))) lps)) s -> locks_safe lay s.
Proof.
  intros lay lps s H Hr. eapply locks_general; [| exact Hr].
  apply Forall_forall. intros lp Hin. apply in_map_iff in Hin. destruct Hin as [[b p] [He Hin]]. subst lp.
  unfold checked_thread. simpl. apply checked_WL. apply H. exact Hin.
Qed.

Lemma well_locked_obj_except : forall o, well_locked_obj o = true -> well_locked_except [] o = true.
Proof. intros o H. exact H. Qed.

(* ------------------------------------------------------------------ explicit interleavings *)
Lemma nth_error_split_at : forall A (l : list A) i t, nth_error l i = Some t -> l = firstn i l ++ t :: skipn (S i) l.
Proof.
  intros A l. induction l as [|x l IH]; intros [|i] t H; simpl in *; try discriminate.
  - inversion H. reflexivity.
  - f_equal. apply IH. exact H.
Qed.

Lemma gstep_step : forall s ic s', gstep s ic = Some s' -> step s s'.
Proof.
  intros s [i c] s' H. unfold gstep in H. simpl in H.
  destruct (nth_error (st_ths s) i) as [t|] eqn:En; try discriminate.
  destruct (tstep c (st_sh s) t) as [[sh' t']|] eqn:Et; try discriminate. inversion H; subst.
  exists (firstn i (st_ths s)), t, (skipn (S i) (st_ths s)), c, sh', t'.
  split; [apply nth_error_split_at; exact En | split; [exact Et | reflexivity]].
Qed.

Lemma grun_reachable : forall sched s0 s s', reachable s0 s -> grun s sched = Some s' -> reachable s0 s'.
Proof.
  induction sched as [|ic sched IH]; intros s0 s s' Hr H; simpl in H.
  - inversion H; subst. exact Hr.
  - destruct (gstep s ic) as [s1|] eqn:E; try discriminate.
    eapply IH; [| exact H]. eapply reach_step; [exact Hr | apply gstep_step with (ic := ic); exact E].
Qed.

Lemma obs_consistentb_complete : forall lay obs, obs_consistent lay obs -> obs_consistentb lay obs = true.
Proof.
  intros lay obs H. unfold obs_consistentb. apply forallb_forall. intros g Hg.
  apply forallb_forall. intros f1 H1. apply forallb_forall. intros f2 H2.
  destruct (lookup f1 obs) as [v1|] eqn:E1; [| reflexivity].
  destruct (lookup f2 obs) as [v2|] eqn:E2; [| reflexivity].
  apply N.eqb_eq. apply (H f1 f2 v1 v2); [exists g; auto | exact E1 | exact E2].
Qed.

Lemma mixed_view : forall lay obs, obs_consistentb lay obs = false -> ~ obs_consistent lay obs.
Proof. intros lay obs H Hc. rewrite (obs_consistentb_complete lay obs Hc) in H. discriminate. Qed.

(* the hypotheses of the general theorem are met by concrete programs, and their runs are not trivial *)
Example locks_nonvacuous :
  well_locked lay2 w_good = true /\ well_locked lay2 r_good = true /\ well_locked lay2 r_copy = true /\
  well_locked lay3 p_loop = true /\
  exists s, reachable (init [(true, desugar lay2 w_good); (true, desugar lay2 r_good)]) s /\
            (forall t, In t (st_ths s) -> finished t) /\
            exists t, In t (st_ths s) /\ lookup 1%N (t_obs t) = Some 1%N /\ lookup 2%N (t_obs t) = Some 1%N.
Proof.
  split; [vm_compute; reflexivity |]. split; [vm_compute; reflexivity |]. split; [vm_compute; reflexivity |].
  split; [vm_compute; reflexivity |].
  eexists. split.
  - eapply grun_reachable with
      (sched := [(0, true); (0, true); (0, true); (0, true); (1, true); (1, true); (1, true); (1, true)]);
      [apply reach_refl | vm_compute; reflexivity].
  - split.
    + simpl. intros t [Ht | [Ht | []]]; subst; reflexivity.
    + eexists. split; [right; left; reflexivity |]. split; vm_compute; reflexivity.
Qed.

(* (a) the writer assigns the second field after Unlock: rejected; a reader sees a mixture, and a race exists *)
Theorem write_after_unlock_refuted :
  locks_ok lay2 w_late = false /\
  (exists s t, reachable (init [(true, desugar lay2 w_late); (true, desugar lay2 r_good)]) s /\
               In t (st_ths s) /\ ~ obs_consistent lay2 (t_obs t)) /\
  (exists s, reachable (init [(true, desugar lay2 w_late); (true, desugar lay2 r_good)]) s /\ race s).
Proof.
  split; [vm_compute; reflexivity |]. split.
  - eexists. eexists. split.
    + eapply grun_reachable with
        (sched := [(0, true); (0, true); (0, true); (1, true); (1, true); (1, true)]);
        [apply reach_refl | vm_compute; reflexivity].
    + split; [right; left; reflexivity |]. apply mixed_view. vm_compute. reflexivity.
  - eexists. split.
    + eapply grun_reachable with (sched := [(0, true); (0, true); (0, true); (1, true); (1, true)]);
        [apply reach_refl | vm_compute; reflexivity].
    + eexists [], _, [], _, [], 2%N. split; [reflexivity |]. left. split; [reflexivity | left; reflexivity].
Qed.

(* (b) a read without the read lock: rejected; it races with the writer *)
Theorem bare_read_refuted :
  locks_ok lay2 r_bare = false /\
  exists s, reachable (init [(true, desugar lay2 w_good); (true, desugar lay2 r_bare)]) s /\ race s.
Proof.
  split; [vm_compute; reflexivity |].
  eexists. split.
  - eapply grun_reachable with (sched := [(0, true)]); [apply reach_refl | vm_compute; reflexivity].
  - eexists [], _, [], _, [], 1%N. split; [reflexivity |]. left. split; [reflexivity | left; reflexivity].
Qed.

(* (c) two read sections for the two fields: passes the lock discipline, is not a consistent reader; a writer in
   between gives a mixture *)
Theorem two_read_sections_refuted :
  locks_ok lay2 r_twice = true /\ well_locked lay2 r_twice = false /\
  exists s t, reachable (init [(true, desugar lay2 w_good); (true, desugar lay2 r_twice)]) s /\
              In t (st_ths s) /\ ~ obs_consistent lay2 (t_obs t).
Proof.
  split; [vm_compute; reflexivity |]. split; [vm_compute; reflexivity |].
  eexists. eexists. split.
  - eapply grun_reachable with
      (sched := [(1, true); (1, true); (1, true); (0, true); (0, true); (0, true); (0, true);
                 (1, true); (1, true); (1, true)]);
      [apply reach_refl | vm_compute; reflexivity].
  - split; [right; left; reflexivity |]. apply mixed_view. vm_compute. reflexivity.
Qed.

(* (f) a writer that splits one group over two write sections: a reader between the sections sees a mixture *)
Theorem split_write_refuted :
  locks_ok lay2 w_split = false /\
  exists s t, reachable (init [(true, desugar lay2 w_split); (true, desugar lay2 r_good)]) s /\
              In t (st_ths s) /\ ~ obs_consistent lay2 (t_obs t).
Proof.
  split; [vm_compute; reflexivity |].
  eexists. eexists. split.
  - eapply grun_reachable with
      (sched := [(0, true); (0, true); (0, true); (1, true); (1, true); (1, true); (1, true)]);
      [apply reach_refl | vm_compute; reflexivity].
  - split; [right; left; reflexivity |]. apply mixed_view. vm_compute. reflexivity.
Qed.

(* (d) writing under the read lock, (e) a path that returns holding the lock: rejected; (d) races, (e) leaves
   every later writer waiting with nobody able to move *)
Theorem rlock_writer_refuted :
  locks_ok lay2 w_rlock = false /\
  exists s, reachable (init [(true, desugar lay2 w_rlock); (true, desugar lay2 r_good)]) s /\ race s.
Proof.
  split; [vm_compute; reflexivity |].
  eexists. split.
  - eapply grun_reachable with (sched := [(0, true); (1, true)]); [apply reach_refl | vm_compute; reflexivity].
  - eexists [], _, [], _, [], 1%N. split; [reflexivity |]. left. split; [reflexivity | left; reflexivity].
Qed.

Theorem leaked_lock_refuted :
  locks_ok lay2 r_leak = false /\
  exists s, reachable (init [(true, desugar lay2 r_leak); (true, desugar lay2 w_good)]) s /\
            (exists t, In t (st_ths s) /\ waiting (st_sh s) t) /\
            forall t', In t' (st_ths s) -> ~ runnable (st_sh s) t'.
Proof.
  split; [vm_compute; reflexivity |].
  eexists. split.
  - eapply grun_reachable with (sched := [(0, true); (0, true); (0, true)]);
      [apply reach_refl | vm_compute; reflexivity].
  - split.
    + eexists. split; [right; left; reflexivity |]. split; [left; reflexivity | intro c; reflexivity].
    + intros t' [Ht | [Ht | []]]; subst; intros [[c [r Hr]] _]; vm_compute in Hr; discriminate.
Qed.

(* check-then-act: lock discipline fine, not a consistent reader; a full update by another thread between the two
   sections leaves this thread deciding on a stale id set while it appends to a newer queue *)
Theorem check_then_act_refuted :
  locks_ok lay2 q_enq = true /\ well_locked lay2 q_enq = false /\
  exists s t, reachable (init [(true, desugar lay2 q_enq); (true, desugar lay2 q_enq)]) s /\
              In t (st_ths s) /\ ~ obs_consistent lay2 (t_obs t).
Proof.
  split; [vm_compute; reflexivity |]. split; [vm_compute; reflexivity |].
  eexists. eexists. split.
  - eapply grun_reachable with
      (sched := [(0, true); (0, true); (0, true);
                 (1, true); (1, true); (1, true); (1, true); (1, true); (1, true); (1, true); (1, true); (1, true);
                 (0, true); (0, true)]);
      [apply reach_refl | vm_compute; reflexivity].
  - split; [left; reflexivity |]. apply mixed_view. vm_compute. reflexivity.
Qed.

(* CodecP.v — round-trip, idempotence and canonical-order theorems for Model/Codec.v (C20). *)
Require Import Verif.Model.Base Verif.Proofs.BaseP Verif.Model.Codec.
From Coq Require Import ZifyN ZifyNat ZifyBool.
Ltac Zify.zify_post_hook ::= Z.div_mod_to_equations.

Definition bytes_ok (l : list N) : Prop := Forall (fun b => (b < 256)%N) l.

(* ---------- small list facts ---------- *)
Lemma strip_quoted q1 q2 s : strip (q1 :: s ++ [q2]) = s.
Proof. unfold strip. cbn [tl]. apply removelast_last. Qed.

Lemma text_eqb_refl s : text_eqb s s = true.
Proof. induction s as [|c s IH]; cbn; [reflexivity|]. now rewrite N.eqb_refl, IH. Qed.

Lemma text_eqb_eq s s' : text_eqb s s' = true <-> s = s'.
Proof.
  revert s'; induction s as [|c s IH]; intros [|c' s']; cbn; split; intros H; try reflexivity; try discriminate.
  - apply andb_true_iff in H as [H1 H2]. apply N.eqb_eq in H1. apply IH in H2. now subst.
  - inversion H; subst. now rewrite N.eqb_refl, text_eqb_refl.
Qed.

(* ---------- hex ---------- *)
Lemma hexval_hexdigit d : (d < 16)%N -> hexval (hexdigit d) = Some d.
Proof.
  intros Hd. unfold hexdigit, hexval.
  destruct (N.ltb_spec d 10) as [H|H].
  - replace (N.leb 48 (48 + d) && N.leb (48 + d) 57) with true by (symmetry; apply andb_true_iff; split; apply N.leb_le; lia).
    f_equal. lia.
  - replace (N.leb 48 (87 + d) && N.leb (87 + d) 57) with false by (symmetry; apply andb_false_iff; right; apply N.leb_gt; lia).
    replace (N.leb 97 (87 + d) && N.leb (87 + d) 102) with true by (symmetry; apply andb_true_iff; split; apply N.leb_le; lia).
    f_equal. lia.
Qed.

Theorem hex_roundtrip bs : bytes_ok bs -> hex_dec (hex_enc bs) = Some bs.
Proof.
  induction 1 as [|b bs Hb _ IH]; [reflexivity|].
  cbn [hex_enc hex_dec]. rewrite !hexval_hexdigit by lia. rewrite IH. do 2 f_equal. lia.
Qed.

Lemma hex_enc_length bs : length (hex_enc bs) = (2 * length bs)%nat.
Proof. induction bs as [|b bs IH]; cbn [hex_enc length]; lia. Qed.

Lemma hexval_range c d : hexval c = Some d -> (d < 16)%N.
Proof.
  unfold hexval. intros H.
  destruct (N.leb 48 c && N.leb c 57) eqn:E1; [inversion H; lia|].
  destruct (N.leb 97 c && N.leb c 102) eqn:E2; [inversion H; lia|].
  destruct (N.leb 65 c && N.leb c 70) eqn:E3; [inversion H; lia|discriminate].
Qed.

Lemma hex_dec_cons2 h l r :
  hex_dec (h :: l :: r) =
  match hexval h, hexval l, hex_dec r with
  | Some a, Some b, Some t => Some ((16 * a + b)%N :: t)
  | _, _, _ => None
  end.
Proof. reflexivity. Qed.

(* whatever hex_dec accepts is a list of bytes, two characters each *)
Lemma hex_dec_bytes : forall n s bs, (length s <= n)%nat -> hex_dec s = Some bs ->
  bytes_ok bs /\ length s = (2 * length bs)%nat.
Proof.
  induction n as [|n IH]; intros s bs Hn H.
  - destruct s; [|cbn in Hn; lia]. inversion H. split; [constructor|reflexivity].
  - destruct s as [|h [|l r]].
    + inversion H. split; [constructor|reflexivity].
    + discriminate.
    + rewrite hex_dec_cons2 in H. destruct (hexval h) as [a|] eqn:Ea; [|discriminate].
      destruct (hexval l) as [b|] eqn:Eb; [|discriminate].
      destruct (hex_dec r) as [t|] eqn:Er; [|discriminate].
      assert (Hbs : bs = (16 * a + b)%N :: t) by congruence. clear H. subst bs. cbn [length] in Hn.
      destruct (IH r t ltac:(lia) Er) as [Ht Hl].
      apply hexval_range in Ea. apply hexval_range in Eb.
      split; [constructor; [lia|exact Ht]| cbn [length]; lia].
Qed.

(* ---------- Bytes / UnknownAddress ---------- *)
Theorem bytes_roundtrip b : bytes_ok (bytes_content b) -> bytes_dec (bytes_enc b) = Some (bytes_content b).
Proof.
  intros Hb. unfold bytes_dec, bytes_enc, bytes_string.
  rewrite strip_quoted.
  replace (Nat.ltb (length (quote :: (pre0x ++ hex_enc (bytes_content b)) ++ [quote])) 2) with false.
  - cbn [pre0x app has0x]. rewrite !N.eqb_refl. cbn [andb skipn]. now apply hex_roundtrip.
  - symmetry. apply Nat.ltb_ge. cbn [length]. rewrite app_length. cbn. lia.
Qed.

Theorem bytes_string_roundtrip b :
  bytes_ok (bytes_content b) -> bytes_from_string (bytes_string b) = Some (bytes_content b).
Proof.
  intros Hb. unfold bytes_from_string, bytes_string. cbn [pre0x app length Nat.ltb Nat.leb has0x].
  rewrite !N.eqb_refl. cbn [andb skipn]. now apply hex_roundtrip.
Qed.

(* decoded byte strings are byte strings *)
Lemma bytes_dec_ok tok l : bytes_dec tok = Some l -> bytes_ok l.
Proof.
  unfold bytes_dec. destruct (Nat.ltb (length tok) 2); [discriminate|].
  destruct (has0x (strip tok)); [|discriminate].
  intros H. eapply hex_dec_bytes in H; [tauto|reflexivity].
Qed.

(* decode, encode, decode = decode: every accepted token re-encodes to a token that decodes to the same value *)
Theorem bytes_idempotent tok l : bytes_dec tok = Some l -> bytes_dec (bytes_enc (Some l)) = Some l.
Proof. intros H. apply (bytes_roundtrip (Some l)). cbn. eapply bytes_dec_ok; eauto. Qed.

(* ---------- Bytes32 ---------- *)
Lemma copy_over_full dst src : length src = length dst -> copy_over dst src = src.
Proof.
  revert src; induction dst as [|d dst IH]; intros [|s src] H; cbn in *; try reflexivity; try discriminate.
  f_equal. apply IH. lia.
Qed.

Lemma copy_over_length dst src : length (copy_over dst src) = length dst.
Proof. revert src; induction dst as [|d dst IH]; intros [|s src]; cbn; try reflexivity. now rewrite IH. Qed.

Lemma copy_over_ok dst src : bytes_ok dst -> bytes_ok src -> bytes_ok (copy_over dst src).
Proof.
  intros Hd; revert src; induction Hd as [|d dst Hd1 Hd IH]; intros [|s src] Hs; cbn.
  - constructor.
  - constructor.
  - now constructor.
  - inversion Hs; subst. constructor; [assumption| now apply IH].
Qed.

Theorem bytes32_roundtrip prev b :
  bytes_ok b -> length b = length prev -> bytes32_dec prev (bytes32_enc b) = Some b.
Proof.
  intros Hb Hl. unfold bytes32_dec, bytes32_enc. rewrite strip_quoted.
  replace (Nat.ltb (length (quote :: bytes32_string b ++ [quote])) 4) with false.
  - unfold bytes32_string. cbn [pre0x app skipn]. rewrite hex_roundtrip by assumption. now rewrite copy_over_full.
  - symmetry. apply Nat.ltb_ge. unfold bytes32_string. cbn [length pre0x app]. rewrite app_length. cbn. lia.
Qed.

Lemma bytes32_dec_shape prev tok v :
  bytes_ok prev -> bytes32_dec prev tok = Some v -> bytes_ok v /\ length v = length prev.
Proof.
  unfold bytes32_dec. intros Hp. destruct (Nat.ltb (length tok) 4); [discriminate|].
  destruct (hex_dec (skipn 2 (strip tok))) as [bs|] eqn:E; [|discriminate].
  intros H; inversion H; subst v. split; [|apply copy_over_length].
  apply copy_over_ok; [assumption|]. eapply hex_dec_bytes in E; [tauto|reflexivity].
Qed.

(* the lenient decoder (no prefix check, short / long / non-string tokens) is still idempotent *)
Theorem bytes32_idempotent prev tok v :
  bytes_ok prev -> bytes32_dec prev tok = Some v -> bytes32_dec prev (bytes32_enc v) = Some v.
Proof.
  intros Hp H. destruct (bytes32_dec_shape _ _ _ Hp H) as [Hv Hl]. now apply bytes32_roundtrip.
Qed.

Lemma zero32_ok : bytes_ok zero32.
Proof. unfold zero32. apply Forall_forall. intros x Hx. apply repeat_spec in Hx. subst. lia. Qed.

(* ---------- decimal ---------- *)
Lemma parse_digits_fuel : forall fuel n acc, (n < 2 ^ N.of_nat fuel)%N ->
  parse_acc 0 (digits_fuel fuel n acc) = parse_acc n acc.
Proof.
  induction fuel as [|f IH]; intros n acc Hn.
  - cbn [digits_fuel]. change (2 ^ N.of_nat 0)%N with 1%N in Hn. now replace n with 0%N by lia.
  - cbn [digits_fuel]. destruct (N.ltb_spec n 10) as [H|H].
    + cbn [parse_acc]. unfold is_digit.
      replace (N.leb 48 (48 + n) && N.leb (48 + n) 57) with true
        by (symmetry; apply andb_true_iff; split; apply N.leb_le; lia).
      f_equal. lia.
    + rewrite IH.
      * cbn [parse_acc]. unfold is_digit.
        replace (N.leb 48 (48 + n mod 10) && N.leb (48 + n mod 10) 57) with true
          by (symmetry; apply andb_true_iff; split; apply N.leb_le; lia).
        f_equal. lia.
      * rewrite Nnat.Nat2N.inj_succ, N.pow_succ_r' in Hn. lia.
Qed.

Lemma digits_fuel_nonempty fuel n acc : acc <> [] -> digits_fuel fuel n acc <> [].
Proof.
  revert n acc; induction fuel as [|f IH]; intros n acc Ha; cbn [digits_fuel]; [assumption|].
  destruct (N.ltb n 10); [discriminate| apply IH; discriminate].
Qed.

Lemma dec_enc_nonempty n : dec_enc n <> [].
Proof.
  unfold dec_enc. cbn [digits_fuel]. destruct (N.ltb n 10); [discriminate|].
  apply digits_fuel_nonempty. discriminate.
Qed.

Lemma log2_fuel n : (n < 2 ^ N.of_nat (S (N.to_nat (N.log2 n))))%N.
Proof.
  rewrite Nnat.Nat2N.inj_succ, Nnat.N2Nat.id.
  destruct (N.eq_dec n 0) as [->|Hn]; [cbn; lia|].
  apply N.log2_spec. lia.
Qed.

Theorem parse_dec_enc n : parse_digits (dec_enc n) = Some n.
Proof.
  unfold parse_digits. destruct (dec_enc n) eqn:E; [now apply dec_enc_nonempty in E|].
  rewrite <- E. unfold dec_enc. rewrite parse_digits_fuel by apply log2_fuel. reflexivity.
Qed.

Lemma digits_fuel_digits fuel n acc :
  Forall (fun c => is_digit c = true) acc -> Forall (fun c => is_digit c = true) (digits_fuel fuel n acc).
Proof.
  revert n acc; induction fuel as [|f IH]; intros n acc Ha; cbn [digits_fuel]; [assumption|].
  destruct (N.ltb_spec n 10) as [H|H].
  - constructor; [|assumption]. unfold is_digit. apply andb_true_iff; split; apply N.leb_le; lia.
  - apply IH. constructor; [|assumption]. unfold is_digit. apply andb_true_iff; split; apply N.leb_le; lia.
Qed.

Lemma dec_enc_head n : exists c r, dec_enc n = c :: r /\ is_digit c = true.
Proof.
  pose proof (digits_fuel_digits (S (N.to_nat (N.log2 n))) n [] (Forall_nil _)) as HF.
  fold (dec_enc n) in HF. destruct (dec_enc n) as [|c r] eqn:E; [now apply dec_enc_nonempty in E|].
  exists c, r. split; [reflexivity| now inversion HF].
Qed.

(* sequence numbers, selectors, counters: every value below the type's maximum survives, including 0 and max *)
Theorem uint_roundtrip maxv n : (n <= maxv)%N -> uint_parse maxv (dec_enc n) = Some n.
Proof.
  intros H. unfold uint_parse. rewrite parse_dec_enc.
  now replace (N.leb n maxv) with true by (symmetry; apply N.leb_le; exact H).
Qed.

Lemma dec_enc_not_null n : text_eqb (dec_enc n) null_tok = false.
Proof.
  destruct (dec_enc_head n) as [c [r [E Hc]]]. rewrite E. unfold null_tok. cbn [text_eqb list_eqb].
  destruct (N.eqb_spec c 110) as [->|]; [discriminate Hc|reflexivity].
Qed.

Theorem uint_dec_roundtrip maxv prev n : (n <= maxv)%N -> uint_dec maxv prev (dec_enc n) = Some n.
Proof. intros H. unfold uint_dec. rewrite dec_enc_not_null. now apply uint_roundtrip. Qed.

Theorem uint_dec_idempotent maxv prev s n :
  (prev <= maxv)%N -> uint_dec maxv prev s = Some n -> uint_dec maxv prev (dec_enc n) = Some n.
Proof.
  intros Hp H. apply uint_dec_roundtrip. unfold uint_dec in H.
  destruct (text_eqb s null_tok); [inversion H; now subst|].
  unfold uint_parse in H. destruct (parse_digits s) as [k|]; [|discriminate].
  destruct (N.leb_spec k maxv); [inversion H; now subst|discriminate].
Qed.

Theorem signed_roundtrip p z : signed_parse p (int_enc z) = Some z.
Proof.
  unfold int_enc. destruct (Z.ltb_spec z 0) as [H|H]; cbn [app].
  - cbn [signed_parse]. rewrite N.eqb_refl, parse_dec_enc. f_equal. lia.
  - destruct (dec_enc_head (Z.abs_N z)) as [c [r [E Hc]]]. rewrite E. cbn [signed_parse].
    destruct (N.eqb_spec c 45) as [->|_]; [discriminate Hc|].
    destruct (N.eqb_spec c 43) as [->|_]; [discriminate Hc|].
    rewrite andb_false_r. rewrite <- E, parse_dec_enc. f_equal. lia.
Qed.

Lemma int_enc_not_null z : text_eqb (int_enc z) null_tok = false.
Proof.
  unfold int_enc. destruct (Z.ltb z 0); cbn [app]; [reflexivity|]. apply dec_enc_not_null.
Qed.

Theorem int_roundtrip prev z : (min_int64 <= z <= max_int64)%Z -> int_dec prev (int_enc z) = Some z.
Proof.
  intros H. unfold int_dec, int_parse. rewrite int_enc_not_null, signed_roundtrip.
  replace (Z.leb min_int64 z && Z.leb z max_int64) with true; [reflexivity|].
  symmetry. apply andb_true_iff. split; apply Z.leb_le; lia.
Qed.

(* ---------- BigInt ---------- *)
(* every integer (any sign, any size) and the nil value survive; decoding "null" into a fresh value gives nil *)
Theorem bigint_roundtrip b : bigint_dec None (bigint_enc b) = Some b.
Proof.
  destruct b as [z|]; [|reflexivity].
  unfold bigint_dec, bigint_enc.
  replace (text_eqb (quote :: int_enc z ++ [quote]) null_tok) with false by reflexivity.
  replace (Nat.ltb (length (quote :: int_enc z ++ [quote])) 2) with false.
  - now rewrite strip_quoted, signed_roundtrip.
  - symmetry. apply Nat.ltb_ge. cbn [length]. rewrite app_length. cbn. lia.
Qed.

(* decoding an honest non-nil token overwrites whatever was there *)
Theorem bigint_roundtrip_some prev z : bigint_dec prev (bigint_enc (Some z)) = Some (Some z).
Proof.
  unfold bigint_dec, bigint_enc.
  replace (text_eqb (quote :: int_enc z ++ [quote]) null_tok) with false by reflexivity.
  replace (Nat.ltb (length (quote :: int_enc z ++ [quote])) 2) with false.
  - now rewrite strip_quoted, signed_roundtrip.
  - symmetry. apply Nat.ltb_ge. cbn [length]. rewrite app_length. cbn. lia.
Qed.

(* accepted foreign tokens ("+5", "007", "-0", unquoted digits between any two bytes) re-encode canonically *)
Theorem bigint_idempotent tok b : bigint_dec None tok = Some b -> bigint_dec None (bigint_enc b) = Some b.
Proof. intros _. apply bigint_roundtrip. Qed.

Theorem bigptr_roundtrip b : bigptr_dec (bigptr_enc b) = Some b.
Proof.
  destruct b as [z|]; [|reflexivity]. unfold bigptr_dec, bigptr_enc.
  now rewrite int_enc_not_null, signed_roundtrip.
Qed.

Theorem int_parse_roundtrip z : (min_int64 <= z <= max_int64)%Z -> int_parse (int_enc z) = Some z.
Proof.
  intros H. unfold int_parse. rewrite signed_roundtrip.
  replace (Z.leb min_int64 z && Z.leb z max_int64) with true; [reflexivity|].
  symmetry. apply andb_true_iff. split; apply Z.leb_le; lia.
Qed.

(* ====================================================================================================== *)
(* ---------- sorting level: canonical order ---------- *)
Lemma sort_by_chain_kle {P} (l : list (N * P)) : sort_by_chain l = sort_by (kle fst) l.
Proof. reflexivity. Qed.

Theorem sort_by_chain_canonical {P} (l l' : list (N * P)) :
  NoDup (map fst l) -> Permutation l l' -> sort_by_chain l = sort_by_chain l'.
Proof. intros ND Pm. rewrite !sort_by_chain_kle. now apply sort_by_key_perm. Qed.

Theorem sort_by_chain_idem {P} (l : list (N * P)) :
  NoDup (map fst l) -> sort_by_chain (sort_by_chain l) = sort_by_chain l.
Proof.
  intros ND. apply sort_by_chain_canonical.
  - eapply Permutation_NoDup; [|exact ND]. apply Permutation_map. symmetry. apply sort_by_perm.
  - apply sort_by_perm.
Qed.

Theorem mr_sort_canonical {P Q R} (o o' : mr_lists P Q R) :
  NoDup (map fst (mr_ranges o)) -> NoDup (map fst (mr_roots o)) -> NoDup (map fst (mr_offramp o)) ->
  Permutation (mr_ranges o) (mr_ranges o') -> Permutation (mr_roots o) (mr_roots o') ->
  Permutation (mr_offramp o) (mr_offramp o') ->
  mr_sort o = mr_sort o'.
Proof.
  intros N1 N2 N3 P1 P2 P3. unfold mr_sort. f_equal; now apply sort_by_chain_canonical.
Qed.

Lemma insert_by_ext_in {A} (le1 le2 : A -> A -> bool) x l :
  (forall b, In b l -> le1 x b = le2 x b) -> insert_by le1 x l = insert_by le2 x l.
Proof.
  induction l as [|y l IH]; intros H; cbn [insert_by]; [reflexivity|].
  rewrite (H y) by now left. destruct (le2 x y); [reflexivity|]. f_equal. apply IH. intros b Hb. apply H. now right.
Qed.

Lemma sort_by_ext_in {A} (le1 le2 : A -> A -> bool) l :
  (forall a b, In a l -> In b l -> le1 a b = le2 a b) -> sort_by le1 l = sort_by le2 l.
Proof.
  induction l as [|x l IH]; intros H; cbn [sort_by]; [reflexivity|].
  rewrite IH by (intros a b Ha Hb; apply H; now right).
  apply insert_by_ext_in. intros b Hb. apply sort_by_in in Hb. apply H; [now left| now right].
Qed.

(* pending commit data: the pair (source chain, range start) as one key *)
Definition cd_key {P} (x : N * N * P) : N := (fst (fst x) * two64 + snd (fst x))%N.
Definition cd_bounded {P} (x : N * N * P) : Prop := (fst (fst x) < two64 /\ snd (fst x) < two64)%N.

Lemma cd_le_kle {P} (a b : N * N * P) : cd_bounded a -> cd_bounded b -> cd_le a b = kle cd_key a b.
Proof.
  unfold cd_bounded, cd_le, kle, cd_key, two64. intros [Ha1 Ha2] [Hb1 Hb2].
  destruct (N.eqb_spec (fst (fst a)) (fst (fst b))) as [E|E]; cbn [negb].
  - rewrite E. apply eq_true_iff_eq. rewrite !N.leb_le. lia.
  - apply eq_true_iff_eq. rewrite !N.leb_le. nia.
Qed.

Lemma cd_key_inj {P} (a b : N * N * P) :
  cd_bounded a -> cd_bounded b -> cd_key a = cd_key b -> fst a = fst b.
Proof.
  unfold cd_bounded, cd_key, two64. destruct a as [[a1 a2] pa], b as [[b1 b2] pb]. cbn [fst snd].
  intros [Ha1 Ha2] [Hb1 Hb2] H. assert (a1 = b1) by nia. subst. f_equal. lia.
Qed.

Lemma cd_keys_nodup {P} (l : list (N * N * P)) :
  Forall cd_bounded l -> NoDup (map fst l) -> NoDup (map cd_key l).
Proof.
  induction l as [|x l IH]; intros HB ND; cbn [map]; [constructor|].
  inversion HB as [|? ? Hx HB']; subst. inversion ND as [|? ? Hn ND']; subst.
  constructor; [|now apply IH].
  intros Hin. apply in_map_iff in Hin as [y [Hy Hin]].
  apply Hn. rewrite Forall_forall in HB'.
  rewrite <- (cd_key_inj y x (HB' _ Hin) Hx Hy). now apply in_map.
Qed.

Theorem exec_sort_commits_canonical {P} (l l' : list (N * N * P)) :
  Forall cd_bounded l -> NoDup (map fst l) -> Permutation l l' ->
  exec_sort_commits l = exec_sort_commits l'.
Proof.
  intros HB ND Pm. unfold exec_sort_commits.
  assert (HB' : Forall cd_bounded l') by (eapply Permutation_Forall; eauto).
  rewrite Forall_forall in HB, HB'.
  rewrite (sort_by_ext_in cd_le (kle cd_key) l) by (intros; apply cd_le_kle; auto).
  rewrite (sort_by_ext_in cd_le (kle cd_key) l') by (intros; apply cd_le_kle; auto).
  apply sort_by_key_perm; [|exact Pm]. apply cd_keys_nodup; [now apply Forall_forall|exact ND].
Qed.

Theorem exec_sort_reports_canonical {P} (l l' : list (N * P)) :
  NoDup (map fst l) -> Permutation l l' -> exec_sort_reports l = exec_sort_reports l'.
Proof. apply sort_by_chain_canonical. Qed.

(* without unique sort keys the order of the input leaks into the encoding (stable sort keeps ties in input order) *)
Theorem sort_dupkey_not_canonical :
  exists l l' : list (N * N * N),
    Permutation l l' /\ exec_sort_commits l <> exec_sort_commits l'.
Proof.
  exists [(1, 5, 7); (1, 5, 8)]%N, [(1, 5, 8); (1, 5, 7)]%N. split; [apply perm_swap|].
  vm_compute. discriminate.
Qed.

Example sort_canonical_hyps_ok :
  let l := [(3, 10, 1); (1, 20, 2); (3, 4, 3)]%N in
  Forall cd_bounded l /\ NoDup (map fst l) /\
  exec_sort_commits l = [(1, 20, 2); (3, 4, 3); (3, 10, 1)]%N.
Proof.
  cbn zeta. split; [|split].
  - repeat constructor; vm_compute; reflexivity.
  - repeat constructor; cbn; intuition congruence.
  - vm_compute. reflexivity.
Qed.

(* ====================================================================================================== *)
(* ---------- structure level ---------- *)
Definition ty_children (t : ty) : list ty :=
  match t with
  | TSlice e | TArray _ e | TMap _ e | TPtr e => [e]
  | TStruct fs => map snd fs
  | _ => []
  end.

Lemma ty_ind' (P : ty -> Prop) (H : forall t, Forall P (ty_children t) -> P t) : forall t, P t.
Proof.
  fix IH 1. intros t. apply H.
  destruct t as [| | | | | | | | | |e|n e|k e|e|fs]; cbn [ty_children]; try constructor; try apply IH; try constructor.
  induction fs as [|f fs IHfs]; cbn [map]; constructor; [apply IH|exact IHfs].
Qed.

(* names for the local recursions of the model *)
Definition enc_fields :=
  fix go (fs : list (text * ty)) (vs : list val) : list (text * json) :=
    match fs, vs with
    | f :: fs', x :: vs' => (fst f, enc (snd f) x) :: go fs' vs'
    | _, _ => []
    end.
Definition norm_fields :=
  fix go (fs : list (text * ty)) (vs : list val) : list val :=
    match fs, vs with
    | f :: fs', x :: vs' => norm (snd f) x :: go fs' vs'
    | _, _ => []
    end.
Definition wt_fields :=
  fix go (fs : list (text * ty)) (vs : list val) : bool :=
    match fs, vs with
    | [], [] => true
    | f :: fs', x :: vs' => wt (snd f) x && go fs' vs'
    | _, _ => false
    end.
Definition wf_fields :=
  fix go (fs : list (text * ty)) : bool :=
    match fs with [] => true | f :: fs' => wf_ty (snd f) && go fs' end.
Definition field_fold (f : text * ty) (p : option val) (kvs : list (text * json)) : option val :=
  fold_left (fun acc kj =>
               if key_match (fst f) (fst kj)
               then match acc with Some p => dec (snd f) p (snd kj) | None => None end
               else acc) kvs p.
Definition dec_fields (kvs : list (text * json)) :=
  fix go (fs : list (text * ty)) (ps : list val) : option (list val) :=
    match fs with
    | [] => Some []
    | f :: fs' =>
        match field_fold f (Some (match ps with p :: _ => p | [] => zero (snd f) end)) kvs, go fs' (tl ps) with
        | Some v, Some r => Some (v :: r)
        | _, _ => None
        end
    end.
Definition dec_elems (e : ty) :=
  fix go (js : list json) (ps : list val) : option (list val) :=
    match js with
    | [] => Some []
    | x :: js' =>
        match dec e (match ps with p :: _ => p | [] => zero e end) x, go js' (tl ps) with
        | Some v, Some r => Some (v :: r)
        | _, _ => None
        end
    end.
Definition dec_array (e : ty) :=
  fix go (n : nat) (js : list json) (ps : list val) : option (list val) :=
    match n with
    | O => Some []
    | S n' =>
        match js with
        | [] => Some (repeat (zero e) n)
        | x :: js' =>
            match dec e (match ps with p :: _ => p | [] => zero e end) x, go n' js' (tl ps) with
            | Some v, Some r => Some (v :: r)
            | _, _ => None
            end
        end
    end.
Definition map_step (km : option N) (e : ty) (acc : option (list (text * val))) (kj : text * json) :=
  match acc with
  | None => None
  | Some m =>
      match (match km with
             | Some maxv => option_map dec_enc (uint_parse maxv (fst kj))
             | None => Some (fst kj)
             end), dec e (zero e) (snd kj) with
      | Some k, Some v => Some (sinsert k v m)
      | _, _ => None
      end
  end.

Lemma enc_struct fs vs : enc (TStruct fs) (VRec vs) = JObj (enc_fields fs vs).
Proof. reflexivity. Qed.
Lemma norm_struct fs vs : norm (TStruct fs) (VRec vs) = VRec (norm_fields fs vs).
Proof. reflexivity. Qed.
Lemma wt_struct fs vs : wt (TStruct fs) (VRec vs) = wt_fields fs vs.
Proof. reflexivity. Qed.
Lemma wf_struct fs :
  wf_ty (TStruct fs) = nodupb text_eqb (map (fun f => map lower (fst f)) fs) && wf_fields fs.
Proof. reflexivity. Qed.
Lemma dec_struct_obj fs prev kvs :
  dec (TStruct fs) prev (JObj kvs) =
  option_map VRec (dec_fields kvs fs (match prev with VRec l => l | _ => [] end)).
Proof. reflexivity. Qed.
Lemma dec_slice_arr e prev js :
  dec (TSlice e) prev (JArr js) =
  option_map (fun l => VList (Some l)) (dec_elems e js (match prev with VList (Some l) => l | _ => [] end)).
Proof. reflexivity. Qed.
Lemma dec_array_arr n e prev js :
  dec (TArray n e) prev (JArr js) =
  option_map VArr (dec_array e n js (match prev with VArr l => l | _ => [] end)).
Proof. reflexivity. Qed.
Lemma dec_map_obj km e prev kvs :
  dec (TMap km e) prev (JObj kvs) =
  option_map (fun m => VMap (Some m))
    (fold_left (map_step km e) kvs (Some (match prev with VMap (Some m) => m | _ => [] end))).
Proof. reflexivity. Qed.

(* ---- bytewise order facts ---- *)
Lemma text_ltb_irrefl a : text_ltb a a = false.
Proof. induction a as [|x a IH]; cbn; [reflexivity|]. now rewrite N.ltb_irrefl, N.eqb_refl. Qed.

Lemma text_ltb_trans a : forall b c, text_ltb a b = true -> text_ltb b c = true -> text_ltb a c = true.
Proof.
  induction a as [|x a IH]; intros [|y b] [|z c] H1 H2; cbn in *; try discriminate; try reflexivity.
  destruct (N.ltb_spec x y) as [Hxy|Hxy].
  - destruct (N.ltb_spec y z) as [Hyz|Hyz].
    + now replace (N.ltb x z) with true by (symmetry; apply N.ltb_lt; lia).
    + destruct (N.eqb_spec y z) as [->|]; [|discriminate].
      now replace (N.ltb x z) with true by (symmetry; apply N.ltb_lt; lia).
  - destruct (N.eqb_spec x y) as [->|]; [|discriminate].
    destruct (N.ltb_spec y z) as [Hyz|Hyz]; [reflexivity|].
    destruct (N.eqb_spec y z) as [->|]; [|discriminate]. eapply IH; eauto.
Qed.

Lemma text_ltb_asym a b : text_ltb a b = true -> text_ltb b a = false.
Proof.
  intros H. destruct (text_ltb b a) eqn:E; [|reflexivity].
  pose proof (text_ltb_trans _ _ _ H E) as C. now rewrite text_ltb_irrefl in C.
Qed.

Lemma text_ltb_neq a b : text_ltb a b = true -> text_eqb b a = false.
Proof.
  intros H. destruct (text_eqb b a) eqn:E; [|reflexivity].
  apply text_eqb_eq in E. subst. now rewrite text_ltb_irrefl in H.
Qed.

Lemma sinsert_append {V} k (v : V) m :
  (forall kv, In kv m -> text_ltb (fst kv) k = true) -> sinsert k v m = m ++ [(k, v)].
Proof.
  induction m as [|[k' v'] m IH]; intros H; cbn [sinsert app]; [reflexivity|].
  assert (Hk : text_ltb k' k = true) by (apply (H (k', v')); now left).
  rewrite (text_ltb_asym _ _ Hk), (text_ltb_neq _ _ Hk). f_equal. apply IH. intros kv Hkv. apply H. now right.
Qed.

Lemma strictly_asc_head k l :
  strictly_asc_text (k :: l) = true -> strictly_asc_text l = true /\ forall k', In k' l -> text_ltb k k' = true.
Proof.
  revert k; induction l as [|k1 l IH]; intros k H.
  - split; [reflexivity|contradiction].
  - cbn [strictly_asc_text] in H. apply andb_true_iff in H as [H1 H2].
    split; [exact H2|]. intros k' [<-|Hk']; [exact H1|].
    eapply text_ltb_trans; [exact H1|]. now apply (proj2 (IH _ H2)).
Qed.

(* ---- the round trip ---- *)
Definition roundtrips (t : ty) : Prop :=
  wf_ty t = true -> forall v, wt t v = true -> dec t (zero t) (enc t v) = Some (norm t v).

Lemma forallb_Forall_bytes l : byte_list l = true -> bytes_ok l.
Proof.
  unfold byte_list, bytes_ok. rewrite forallb_forall, Forall_forall. intros H x Hx. apply N.ltb_lt. now apply H.
Qed.

Lemma dec_elems_roundtrip e l :
  (forall v, wt e v = true -> dec e (zero e) (enc e v) = Some (norm e v)) ->
  forallb (wt e) l = true -> dec_elems e (map (enc e) l) [] = Some (map (norm e) l).
Proof.
  intros IH. induction l as [|x l IHl]; intros H; cbn [map dec_elems forallb] in *; [reflexivity|].
  apply andb_true_iff in H as [Hx Hl]. cbn [tl]. fold (dec_elems e). rewrite (IH _ Hx), (IHl Hl). reflexivity.
Qed.

Lemma dec_array_roundtrip e l :
  (forall v, wt e v = true -> dec e (zero e) (enc e v) = Some (norm e v)) ->
  forallb (wt e) l = true ->
  dec_array e (length l) (map (enc e) l) (repeat (zero e) (length l)) = Some (map (norm e) l).
Proof.
  intros IH. induction l as [|x l IHl]; intros H; cbn [map dec_array forallb length repeat] in *; [reflexivity|].
  apply andb_true_iff in H as [Hx Hl]. cbn [tl]. fold (dec_array e). rewrite (IH _ Hx), (IHl Hl). reflexivity.
Qed.

Lemma map_fold_roundtrip km e :
  (forall v, wt e v = true -> dec e (zero e) (enc e v) = Some (norm e v)) ->
  forall m acc,
    strictly_asc_text (map fst m) = true ->
    (forall kv k', In kv acc -> In k' (map fst m) -> text_ltb (fst kv) k' = true) ->
    forallb (fun kv =>
      match km with
      | Some maxv => match uint_parse maxv (fst kv) with
                     | Some k => text_eqb (dec_enc k) (fst kv)
                     | None => false
                     end
      | None => true
      end && wt e (snd kv)) m = true ->
    fold_left (map_step km e) (map (fun kv => (fst kv, enc e (snd kv))) m) (Some acc)
    = Some (acc ++ map (fun kv => (fst kv, norm e (snd kv))) m).
Proof.
  intros IH. induction m as [|[k v] m IHm]; intros acc Hs Hacc Hw; cbn [map fold_left].
  - now rewrite app_nil_r.
  - cbn [forallb fst snd] in Hw. apply andb_true_iff in Hw as [Hkv Hw]. apply andb_true_iff in Hkv as [Hk Hv].
    cbn [map fst] in Hs. destruct (strictly_asc_head _ _ Hs) as [Hs' Hlt].
    unfold map_step at 2. cbn [fst snd]. rewrite (IH _ Hv).
    assert (Hkey : match km with
                   | Some maxv => option_map dec_enc (uint_parse maxv k)
                   | None => Some k
                   end = Some k).
    { destruct km as [maxv|]; [|reflexivity]. destruct (uint_parse maxv k) as [n|]; [|discriminate].
      apply text_eqb_eq in Hk. cbn [option_map]. now rewrite Hk. }
    rewrite Hkey. rewrite sinsert_append.
    + rewrite IHm; [now rewrite <- app_assoc| exact Hs'| |exact Hw].
      intros kv k' Hin Hk'. apply in_app_or in Hin as [Hin|[<-|[]]].
      * apply Hacc; [exact Hin| cbn [map fst]; now right].
      * cbn [fst]. now apply Hlt.
    + intros kv Hin. apply Hacc; [exact Hin| cbn [map fst]; now left].
Qed.

Lemma key_match_refl n : key_match n n = true.
Proof. unfold key_match. apply text_eqb_refl. Qed.

Lemma field_fold_nomatch f kvs acc :
  (forall kj, In kj kvs -> key_match (fst f) (fst kj) = false) -> field_fold f acc kvs = acc.
Proof.
  unfold field_fold. revert acc; induction kvs as [|kj kvs IH]; intros acc H; cbn [fold_left]; [reflexivity|].
  rewrite (H kj) by now left. apply IH. intros; apply H; now right.
Qed.

Lemma field_fold_app f acc k1 k2 : field_fold f acc (k1 ++ k2) = field_fold f (field_fold f acc k1) k2.
Proof. unfold field_fold. apply fold_left_app. Qed.

Lemma enc_fields_keys fs vs kj : In kj (enc_fields fs vs) -> In (fst kj) (map fst fs).
Proof.
  revert vs; induction fs as [|f fs IH]; intros [|x vs] H; cbn [enc_fields] in H; try contradiction.
  fold enc_fields in H. destruct H as [<-|H]; [now left| right; eapply IH; eauto].
Qed.

Lemma existsb_false_in {A} (p : A -> bool) l y : existsb p l = false -> In y l -> p y = false.
Proof.
  intros H Hy. destruct (p y) eqn:E; [|reflexivity].
  assert (existsb p l = true) by (apply existsb_exists; eauto). congruence.
Qed.

Lemma text_eqb_sym a b : text_eqb a b = text_eqb b a.
Proof.
  destruct (text_eqb a b) eqn:E.
  - apply text_eqb_eq in E. subst. now rewrite text_eqb_refl.
  - destruct (text_eqb b a) eqn:E'; [|reflexivity]. apply text_eqb_eq in E'. subst. now rewrite text_eqb_refl in E.
Qed.

(* every field of the honest encoding is found by its own name only *)
Lemma fields_roundtrip : forall fs vs pre,
  Forall roundtrips (map snd fs) ->
  nodupb text_eqb (map (fun f => map lower (fst f)) fs) = true ->
  wf_fields fs = true -> wt_fields fs vs = true ->
  (forall kj f, In kj pre -> In f fs -> key_match (fst f) (fst kj) = false) ->
  dec_fields (pre ++ enc_fields fs vs) fs (map (fun f => zero (snd f)) fs) = Some (norm_fields fs vs).
Proof.
  induction fs as [|f fs IH]; intros vs pre HR HN HF HW Hpre.
  - destruct vs; [reflexivity| discriminate HW].
  - destruct vs as [|x vs]; [discriminate HW|].
    cbn [wt_fields] in HW. fold wt_fields in HW. apply andb_true_iff in HW as [Hwx HW].
    cbn [wf_fields] in HF. fold wf_fields in HF. apply andb_true_iff in HF as [Hfx HF].
    cbn [map nodupb] in HN. apply andb_true_iff in HN as [Hnx HN]. apply negb_true_iff in Hnx.
    cbn [map] in HR. inversion HR as [|? ? HRx HR']; subst.
    cbn [dec_fields map tl enc_fields norm_fields]. fold enc_fields. fold norm_fields. fold (dec_fields (pre ++ (fst f, enc (snd f) x) :: enc_fields fs vs)).
    (* other names do not match this one *)
    assert (Hother : forall g, In g fs -> key_match (fst f) (fst g) = false /\ key_match (fst g) (fst f) = false).
    { intros g Hg. unfold key_match.
      assert (E : text_eqb (map lower (fst f)) (map lower (fst g)) = false).
      { apply (existsb_false_in _ _ _ Hnx). apply (in_map (fun f0 => map lower (fst f0))) in Hg. exact Hg. }
      split; [exact E| now rewrite text_eqb_sym]. }
    (* this field *)
    rewrite field_fold_app.
    rewrite (field_fold_nomatch f pre) by (intros kj Hkj; apply (Hpre kj f Hkj); now left).
    unfold field_fold at 1. cbn [fold_left fst snd]. rewrite key_match_refl.
    rewrite (HRx Hfx _ Hwx).
    change (fold_left _ (enc_fields fs vs) (Some (norm (snd f) x)))
      with (field_fold f (Some (norm (snd f) x)) (enc_fields fs vs)).
    rewrite field_fold_nomatch.
    2:{ intros kj Hkj. apply enc_fields_keys in Hkj. apply in_map_iff in Hkj as [g [Eg Hg]].
        rewrite <- Eg. now apply Hother. }
    (* the remaining fields *)
    replace (pre ++ (fst f, enc (snd f) x) :: enc_fields fs vs)
      with ((pre ++ [(fst f, enc (snd f) x)]) ++ enc_fields fs vs) by now rewrite <- app_assoc.
    rewrite (IH vs (pre ++ [(fst f, enc (snd f) x)]) HR' HN HF HW); [reflexivity|].
    intros kj g Hkj Hg. apply in_app_or in Hkj as [Hkj|[<-|[]]].
    + apply (Hpre kj g Hkj). now right.
    + cbn [fst]. now apply Hother.
Qed.

Theorem struct_roundtrip_all : forall t, roundtrips t.
Proof.
  induction t as [t IHc] using ty_ind'. unfold roundtrips. intros Hwf v Hwt.
  destruct t as [m|m| | | | | | | |z|e|n e|km e|e|fs]; cbn [ty_children] in IHc.
  - (* TUint *) destruct v; try discriminate Hwt. cbn [wt] in Hwt. apply N.leb_le in Hwt.
    cbn [enc dec norm]. now rewrite uint_roundtrip.
  - (* TUintS *) destruct v; try discriminate Hwt. cbn [wt] in Hwt. apply N.leb_le in Hwt.
    cbn [enc dec norm zero]. now rewrite uint_dec_roundtrip.
  - (* TInt *) destruct v; try discriminate Hwt. cbn [wt] in Hwt. apply andb_true_iff in Hwt as [H1 H2].
    apply Z.leb_le in H1, H2. cbn [enc dec norm]. now rewrite int_parse_roundtrip.
  - (* TBool *) destruct v as [| |b| | | | | | | | | |]; try discriminate Hwt. destruct b; reflexivity.
  - (* TString *) destruct v; try discriminate Hwt. reflexivity.
  - (* TBytes *) destruct v; try discriminate Hwt. cbn [wt] in Hwt. apply forallb_Forall_bytes in Hwt.
    cbn [enc dec norm raw_tok obind]. fold (bytes_enc b). now rewrite bytes_roundtrip.
  - (* TBytes32 *) destruct v; try discriminate Hwt. cbn [wt] in Hwt. apply andb_true_iff in Hwt as [Hl Hb].
    apply Nat.eqb_eq in Hl. apply forallb_Forall_bytes in Hb.
    cbn [enc dec norm raw_tok obind zero]. fold (bytes32_enc l).
    rewrite bytes32_roundtrip; [reflexivity|exact Hb| now rewrite Hl].
  - (* TBigInt *) destruct v as [| | | | | |z| | | | | |]; try discriminate Hwt. destruct z as [z|].
    + cbn [enc dec norm raw_tok obind zero]. fold (bigint_enc (Some z)). now rewrite bigint_roundtrip.
    + reflexivity.
  - (* TBigPtr *) destruct v as [| | | | | |z| | | | | |]; try discriminate Hwt. destruct z as [z|]; [|reflexivity].
    cbn [enc dec norm]. change (int_enc z) with (bigptr_enc (Some z)). now rewrite bigptr_roundtrip.
  - (* TOpaque *) destruct v as [| | | | | | |j| | | | |]; try discriminate Hwt. cbn [wt] in Hwt.
    destruct j; cbn [scalar_token] in Hwt; try discriminate Hwt; try reflexivity.
    destruct z; try discriminate Hwt. reflexivity.
  - (* TSlice *) inversion IHc as [|? ? IHe _]; subst. cbn [wf_ty] in Hwf.
    destruct v as [| | | | | | | |l| | | |]; try discriminate Hwt. destruct l as [l|]; [|reflexivity].
    cbn [wt] in Hwt. cbn [enc norm zero]. rewrite dec_slice_arr.
    rewrite (dec_elems_roundtrip e l (IHe Hwf) Hwt). reflexivity.
  - (* TArray *) inversion IHc as [|? ? IHe _]; subst. cbn [wf_ty] in Hwf.
    destruct v as [| | | | | | | | |l| | |]; try discriminate Hwt.
    cbn [wt] in Hwt. apply andb_true_iff in Hwt as [Hl Hw]. apply Nat.eqb_eq in Hl. subst n.
    cbn [enc norm zero]. rewrite dec_array_arr.
    rewrite (dec_array_roundtrip e l (IHe Hwf) Hw). reflexivity.
  - (* TMap *) inversion IHc as [|? ? IHe _]; subst. cbn [wf_ty] in Hwf.
    destruct v as [| | | | | | | | | |m| |]; try discriminate Hwt. destruct m as [m|]; [|reflexivity].
    cbn [wt] in Hwt. apply andb_true_iff in Hwt as [Hs Hw].
    cbn [enc norm zero]. rewrite dec_map_obj.
    rewrite (map_fold_roundtrip km e (IHe Hwf) m [] Hs); [reflexivity| intros ? ? []| exact Hw].
  - (* TPtr *) inversion IHc as [|? ? IHe _]; subst. cbn [wf_ty] in Hwf.
    destruct v as [| | | | | | | | | | |p|]; try discriminate Hwt. destruct p as [x|]; [|reflexivity].
    cbn [wt] in Hwt. apply andb_true_iff in Hwt as [Hw Hn].
    cbn [enc norm zero]. specialize (IHe Hwf x Hw).
    destruct (enc e x) eqn:E; try discriminate Hn; cbn [dec]; now rewrite IHe.
  - (* TStruct *) rewrite wf_struct in Hwf. apply andb_true_iff in Hwf as [HN HF].
    destruct v as [| | | | | | | | | | | |vs]; try discriminate Hwt. rewrite wt_struct in Hwt.
    rewrite enc_struct, norm_struct, dec_struct_obj. cbn [zero].
    pose proof (fields_roundtrip fs vs [] IHc HN HF Hwt) as R. cbn [app] in R.
    rewrite R; [reflexivity| intros ? ? []].
Qed.

(* ---- re-encoding the decoded value gives the same tree ---- *)
Lemma enc_fields_norm : forall fs vs,
  Forall (fun t => forall v, enc t (norm t v) = enc t v) (map snd fs) ->
  enc_fields fs (norm_fields fs vs) = enc_fields fs vs.
Proof.
  induction fs as [|f fs IH]; intros [|x vs] HF; cbn [enc_fields norm_fields]; try reflexivity.
  fold enc_fields. fold norm_fields. cbn [map] in HF. inversion HF as [|? ? Hx HF']; subst.
  rewrite Hx, (IH vs HF'). reflexivity.
Qed.

Theorem enc_norm : forall t v, enc t (norm t v) = enc t v.
Proof.
  induction t as [t IHc] using ty_ind'. intros v.
  destruct t as [m|m| | | | | | | |z|e|n e|km e|e|fs]; cbn [ty_children] in IHc;
    try (destruct v; reflexivity).
  - (* TSlice *) inversion IHc as [|? ? IHe _]; subst.
    destruct v as [| | | | | | | |l| | | |]; try reflexivity. destruct l as [l|]; [|reflexivity].
    cbn [norm enc]. rewrite map_map. f_equal. apply map_ext. intros; apply IHe.
  - (* TArray *) inversion IHc as [|? ? IHe _]; subst.
    destruct v as [| | | | | | | | |l| | |]; try reflexivity.
    cbn [norm enc]. rewrite map_map. f_equal. apply map_ext. intros; apply IHe.
  - (* TMap *) inversion IHc as [|? ? IHe _]; subst.
    destruct v as [| | | | | | | | | |m| |]; try reflexivity. destruct m as [m|]; [|reflexivity].
    cbn [norm enc]. rewrite map_map. f_equal. apply map_ext. intros kv; cbn [fst snd]. now rewrite IHe.
  - (* TPtr *) inversion IHc as [|? ? IHe _]; subst.
    destruct v as [| | | | | | | | | | |p|]; try reflexivity. destruct p as [x|]; [|reflexivity].
    cbn [norm enc]. apply IHe.
  - (* TStruct *) destruct v as [| | | | | | | | | | | |vs]; try reflexivity.
    rewrite norm_struct, !enc_struct. f_equal. now apply enc_fields_norm.
Qed.

(* encode, decode, encode = encode; and decoding the re-encoded value gives the same value again *)
Theorem struct_reencode t v :
  wf_ty t = true -> wt t v = true ->
  exists v', dec t (zero t) (enc t v) = Some v' /\ enc t v' = enc t v /\
             dec t (zero t) (enc t v') = Some v'.
Proof.
  intros Hwf Hwt. exists (norm t v). pose proof (struct_roundtrip_all t Hwf v Hwt) as R.
  split; [exact R|]. split; [apply enc_norm|]. now rewrite enc_norm.
Qed.

(* what norm leaves alone: every leaf that matters for consensus; a Bytes value keeps its content *)
Theorem norm_leaves v :
  (forall m, norm (TUint m) v = v) /\ (forall m, norm (TUintS m) v = v) /\ norm TInt v = v /\
  norm TBytes32 v = v /\ norm TBigInt v = v /\ norm TBigPtr v = v /\ norm TString v = v /\
  norm TBool v = v /\ (forall z, norm (TOpaque z) v = v).
Proof. repeat split; intros; destruct v; reflexivity. Qed.

Theorem norm_bytes_content b : norm TBytes (VBytes b) = VBytes (Some (bytes_content b)).
Proof. reflexivity. Qed.

(* concrete non-trivial instances: a commit-outcome shaped record with a map, nil and empty collections, max values *)
Definition ex_ty : ty :=
  TStruct [ ([115; 101; 113]%N, TUintS max64);
            ([114; 111; 111; 116]%N, TBytes32);
            ([97; 100; 100; 114]%N, TBytes);
            ([112; 114; 105; 99; 101]%N, TBigInt);
            ([102]%N, TMap (Some max64) TInt);
            ([108]%N, TSlice (TArray 2 (TUint max64))) ].
Definition ex_val : val :=
  VRec [ VU max64; VB32 (repeat 255%N 32); VBytes None; VBig (Some (-(2 ^ 300))%Z);
         VMap (Some [([49; 48]%N, VZ 1); ([57]%N, VZ (-2))]);
         VList (Some [VArr [VU 0; VU max64]]) ].
Example struct_roundtrip_example :
  wf_ty ex_ty = true /\ wt ex_ty ex_val = true /\
  dec ex_ty (zero ex_ty) (enc ex_ty ex_val) = Some (norm ex_ty ex_val) /\ norm ex_ty ex_val <> ex_val.
Proof. vm_compute. repeat split; try reflexivity. discriminate. Qed.

Example leaf_examples :
  bytes_dec (bytes_enc None) = Some [] /\
  bytes_dec [34; 48; 120; 65; 98; 34]%N = Some [171%N] /\           (* "0xAb" : either case accepted *)
  bytes_dec [34; 48; 120; 97; 34]%N = None /\                       (* "0xa" : odd length *)
  bytes_dec null_tok = None /\
  bytes32_dec zero32 null_tok = Some zero32 /\                      (* lenient: null, numbers pass *)
  bigint_dec None [34; 43; 48; 48; 55; 34]%N = Some (Some 7%Z) /\   (* "+007" *)
  bigint_dec None [34; 45; 48; 34]%N = Some (Some 0%Z) /\           (* "-0" *)
  bigint_enc (Some (-12)%Z) = [34; 45; 49; 50; 34]%N /\
  uint_dec max64 0 (dec_enc max64) = Some max64 /\
  uint_parse max64 (dec_enc two64) = None /\
  uint_parse max64 [48; 48; 55]%N = Some 7%N.
Proof. vm_compute. repeat split; reflexivity. Qed.

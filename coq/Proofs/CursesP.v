(* CursesP.v — theorems about Model/Curses.v (C15). *)
Require Import Verif.Model.Base Verif.Proofs.BaseP Verif.Model.Transmit Verif.Model.Curses.
From Coq Require Import ZifyN ZifyNat ZifyBool.

(* ---------- subjects ---------- *)
Lemma subj_eqb_eq a b : subj_eqb a b = true <-> a = b.
Proof.
  destruct a as [a1 a2], b as [b1 b2]. unfold subj_eqb. cbn [fst snd]. rewrite andb_true_iff, !N.eqb_eq.
  split; [intros [-> ->]; reflexivity| intros H; inversion H; auto].
Qed.

Lemma mem_subj_In s l : mem_subj s l = true <-> In s l.
Proof.
  unfold mem_subj. rewrite existsb_exists. split.
  - intros [x [Hx He]]. apply subj_eqb_eq in He. now subst.
  - intros H. exists s. split; [assumption| now apply subj_eqb_eq].
Qed.

Theorem subject_of_chain_inj a b : subject_of_chain a = subject_of_chain b -> a = b.
Proof. unfold subject_of_chain. intros H. now inversion H. Qed.

Theorem subject_of_chain_not_global c : subject_of_chain c <> global_subject.
Proof. unfold subject_of_chain, global_subject. intros H. inversion H. Qed.

(* a source is reported cursed exactly when it was asked about and its own subject is in the set *)
Theorem src_cursed_iff S d srcs c :
  src_cursed (curse_info_of S d srcs) c = true <-> In c srcs /\ In (subject_of_chain c) S.
Proof.
  unfold src_cursed, curse_info_of. cbn [ci_sources].
  induction srcs as [|x srcs IH]; cbn [map alookup].
  - split; [discriminate| intros [[] _]].
  - destruct (N.eqb_spec c x) as [->|Hne].
    + rewrite mem_subj_In. split; [intros H; split; [now left|exact H]| tauto].
    + rewrite IH. split; [intros [H1 H2]; split; [now right|exact H2]|].
      intros [[H|H] H2]; [congruence| tauto].
Qed.

Theorem dest_cursed_iff S d srcs :
  ci_dest (curse_info_of S d srcs) = true <-> In global_subject S \/ In (subject_of_chain d) S.
Proof. unfold curse_info_of. cbn [ci_dest]. now rewrite orb_true_iff, !mem_subj_In. Qed.

Theorem global_cursed_iff S d srcs : ci_global (curse_info_of S d srcs) = true <-> In global_subject S.
Proof. unfold curse_info_of. cbn [ci_global]. apply mem_subj_In. Qed.

Lemma mem_subj_app s l1 l2 : mem_subj s (l1 ++ l2) = mem_subj s l1 || mem_subj s l2.
Proof. unfold mem_subj. apply existsb_app. Qed.

Lemma mem_subj_false s l : ~ In s l -> mem_subj s l = false.
Proof. intros H. destruct (mem_subj s l) eqn:E; [|reflexivity]. apply mem_subj_In in E. contradiction. Qed.

(* subjects of other chains / arbitrary 16-byte values curse nothing *)
Theorem unrelated_subjects_ignored S X d srcs :
  ~ In global_subject X -> ~ In (subject_of_chain d) X -> (forall c, In c srcs -> ~ In (subject_of_chain c) X) ->
  curse_info_of (S ++ X) d srcs = curse_info_of S d srcs.
Proof.
  intros Hg Hd Hs. unfold curse_info_of. rewrite !mem_subj_app.
  rewrite (mem_subj_false _ _ Hg), (mem_subj_false _ _ Hd), !orb_false_r. f_equal.
  apply map_ext_in. intros c Hc. rewrite mem_subj_app, (mem_subj_false _ _ (Hs c Hc)), orb_false_r. reflexivity.
Qed.

(* ---------- non_cursed_sources ---------- *)
Lemma non_cursed_in ci input c :
  In c (non_cursed_sources ci input) <-> ci_global ci = false /\ In c input /\ src_cursed ci c = false.
Proof.
  unfold non_cursed_sources. destruct (ci_global ci).
  - split; [intros []| intros [H _]; discriminate].
  - unfold sortN. rewrite sort_by_in, filter_In, negb_true_iff. tauto.
Qed.

Lemma non_cursed_length ci input :
  ci_global ci = false -> length (non_cursed_sources ci input) = length (filter (fun c => negb (src_cursed ci c)) input).
Proof. intros H. unfold non_cursed_sources. rewrite H. apply sort_by_length. Qed.

Lemma filter_len_le {A} (f : A -> bool) l : (length (filter f l) <= length l)%nat.
Proof. induction l as [|y l IH]; cbn [filter length]; [lia|]. destruct (f y); cbn [length]; lia. Qed.

Lemma filter_length_lt {A} (f : A -> bool) l x : In x l -> f x = false -> (length (filter f l) < length l)%nat.
Proof.
  induction l as [|y l IH]; intros Hin Hf; [contradiction|]. cbn [filter length].
  pose proof (filter_len_le f l) as Hle.
  destruct Hin as [->|Hin].
  - rewrite Hf. lia.
  - specialize (IH Hin Hf). destruct (f y); cbn [length]; lia.
Qed.

Lemma filter_all {A} (f : A -> bool) l : (forall x, In x l -> f x = true) -> filter f l = l.
Proof.
  induction l as [|y l IH]; intros H; [reflexivity|]. cbn [filter]. rewrite (H y) by now left.
  f_equal. apply IH. intros; apply H; now right.
Qed.

(* ---------- observation ---------- *)
Definition blocked (curse : option curse_info) : Prop :=
  curse = None \/ exists ci, curse = Some ci /\ (ci_global ci = true \/ ci_dest ci = true).

Theorem commit_no_observe sup known curse nextseq :
  sup <> 1%N \/ known = None \/ blocked curse -> observe_offramp sup known curse nextseq = [].
Proof.
  unfold observe_offramp, blocked. intros H.
  destruct (N.eqb_spec sup 1) as [Hs|Hs]; cbn [negb]; [|reflexivity].
  destruct known as [all|]; [|reflexivity].
  destruct curse as [ci|]; [|reflexivity].
  destruct H as [H|[H|[H|[ci' [E [H|H]]]]]]; try congruence; inversion E; subst ci'; rewrite H;
    [reflexivity| now rewrite orb_true_r].
Qed.

Theorem exec_no_observe {P} sup known curse (pending : option (list (N * P))) :
  sup = 1%N -> known = None \/ blocked curse -> exec_observe sup known curse pending = Ok None.
Proof.
  unfold exec_observe, blocked. intros -> H. cbn [N.eqb Pos.eqb].
  destruct known as [all|]; [|reflexivity].
  destruct curse as [ci|]; [|reflexivity].
  destruct H as [H|[H|[ci' [E [H|H]]]]]; try congruence; inversion E; subst ci'; rewrite H;
    [reflexivity| now rewrite orb_true_r].
Qed.

Lemma in_map_fst_combine {A B} (l : list A) (l' : list B) x : In x (map fst (combine l l')) -> In x l.
Proof.
  intros H. apply in_map_iff in H as [[a b] [E H]]. cbn in E. subst. eapply in_combine_l; eauto.
Qed.

(* whatever is observed comes from the known, non-cursed sources; a cursed source never appears *)
Theorem commit_observed_sources sup all ci nextseq c :
  In c (map fst (observe_offramp sup (Some all) (Some ci) nextseq)) ->
  In c all /\ src_cursed ci c = false /\ ci_global ci = false /\ ci_dest ci = false.
Proof.
  unfold observe_offramp. destruct (negb (N.eqb sup 1)); [intros []|].
  destruct (ci_global ci) eqn:G; [intros []|]. destruct (ci_dest ci) eqn:D; [intros []|]. cbn [orb].
  destruct (non_cursed_sources ci all) as [|s0 src] eqn:E; [intros []|].
  destruct (nextseq (s0 :: src)) as [sn|]; [|intros []].
  destruct (Nat.eqb (length sn) (length (s0 :: src))); [|intros []].
  intros H. apply in_map_fst_combine in H. rewrite <- E in H. apply non_cursed_in in H. tauto.
Qed.

Theorem commit_cursed_source_left_out sup known ci nextseq c :
  src_cursed ci c = true -> ~ In c (map fst (observe_offramp sup known (Some ci) nextseq)).
Proof.
  intros Hc Hin. destruct known as [all|].
  - apply commit_observed_sources in Hin. destruct Hin as [_ [H _]]. congruence.
  - unfold observe_offramp in Hin. destruct (negb (N.eqb sup 1)); exact Hin.
Qed.

Lemma map_fst_combine {A B} (l : list A) : forall (l' : list B), length l' = length l -> map fst (combine l l') = l.
Proof.
  induction l as [|x l IH]; intros [|y l'] H; cbn in *; try reflexivity; try discriminate.
  f_equal. apply IH. lia.
Qed.

(* and nothing else is dropped: with a healthy reader every non-cursed known source is observed, ascending *)
Theorem commit_observes_exactly all ci nextseq sn :
  ci_global ci = false -> ci_dest ci = false ->
  nextseq (non_cursed_sources ci all) = Some sn -> length sn = length (non_cursed_sources ci all) ->
  map fst (observe_offramp 1 (Some all) (Some ci) nextseq) = non_cursed_sources ci all.
Proof.
  intros G D Hn Hl. unfold observe_offramp. cbn [N.eqb Pos.eqb negb]. rewrite G, D. cbn [orb].
  destruct (non_cursed_sources ci all) as [|s0 src] eqn:E; [reflexivity|].
  rewrite Hn, Hl, Nat.eqb_refl. now apply map_fst_combine.
Qed.

Lemma exec_observe_some {P} sup known ci (pending : option (list (N * P))) g' :
  exec_observe sup known (Some ci) pending = Ok (Some g') ->
  exists all g, known = Some all /\ pending = Some g /\
    g' = filter (fun kv => memN (fst kv) all && negb (src_cursed ci (fst kv))) g.
Proof.
  unfold exec_observe. destruct (N.eqb sup 2); [discriminate|]. destruct (N.eqb sup 0); [discriminate|].
  destruct known as [all|]; [|discriminate]. destruct (ci_global ci || ci_dest ci); [discriminate|].
  destruct pending as [g|]; [|discriminate]. intros H. inversion H. exists all, g. auto.
Qed.

(* what execute observes are reports of known sources that the reader does not report cursed *)
Theorem exec_observed_sources {P} sup all ci (pending : option (list (N * P))) g' c :
  exec_observe sup (Some all) (Some ci) pending = Ok (Some g') ->
  In c (map fst g') -> In c all /\ src_cursed ci c = false.
Proof.
  intros H Hin. destruct (exec_observe_some _ _ _ _ _ H) as [all' [g [E [_ ->]]]]. inversion E; subst all'.
  apply in_map_iff in Hin as [[k p] [Ek Hin]]. cbn in Ek. subst k.
  apply filter_In in Hin as [_ Hf]. cbn [fst] in Hf. apply andb_true_iff in Hf as [H1 H2].
  split; [now apply memN_In| now apply negb_true_iff].
Qed.

Theorem exec_cursed_source_left_out {P} sup known ci (pending : option (list (N * P))) g' c :
  exec_observe sup known (Some ci) pending = Ok (Some g') ->
  src_cursed ci c = true -> ~ In c (map fst g').
Proof.
  intros H Hc Hin. destruct (exec_observe_some _ _ _ _ _ H) as [all [g [-> _]]].
  destruct (exec_observed_sources _ _ _ _ _ _ H Hin) as [_ Hf]. congruence.
Qed.

(* full strength: with the reader answering for the known sources, ANY chain whose subject is cursed is absent *)
Theorem exec_cursed_subject_left_out {P} sup S dest all (pending : option (list (N * P))) g' c :
  exec_observe sup (Some all) (Some (curse_info_of S dest all)) pending = Ok (Some g') ->
  In (subject_of_chain c) S -> ~ In c (map fst g').
Proof.
  intros H Hs Hin. destruct (exec_observed_sources _ _ _ _ _ _ H Hin) as [Hk Hf].
  assert (Ht : src_cursed (curse_info_of S dest all) c = true) by (apply src_cursed_iff; auto). congruence.
Qed.

Theorem exec_other_sources_kept {P} sup all ci (g : list (N * P)) g' kv :
  exec_observe sup (Some all) (Some ci) (Some g) = Ok (Some g') ->
  In kv g -> In (fst kv) all -> src_cursed ci (fst kv) = false -> In kv g'.
Proof.
  intros H Hin Hk Hc. destruct (exec_observe_some _ _ _ _ _ H) as [all' [g0 [E1 [E2 ->]]]].
  inversion E1; inversion E2; subst. apply filter_In. split; [assumption|].
  rewrite Hc. cbn [negb]. rewrite andb_true_r. now apply memN_In.
Qed.

(* ---------- acceptance ---------- *)
Definition any_cursed (curse : option curse_info) (srcs : list N) : Prop :=
  blocked curse \/ exists ci c, curse = Some ci /\ In c srcs /\ src_cursed ci c = true.

Lemma report_cursed_code srcs curse :
  srcs <> [] -> any_cursed curse srcs ->
  curse_code (is_report_cursed srcs curse) = 1%N \/ curse_code (is_report_cursed srcs curse) = 2%N.
Proof.
  intros Hne H. unfold is_report_cursed. destruct srcs as [|s0 srcs]; [congruence|].
  destruct curse as [ci|]; [|now right].
  destruct (ci_global ci) eqn:G; [now left|]. destruct (ci_dest ci) eqn:D; [now left|]. cbn [orb].
  destruct H as [[H|[ci' [E [H|H]]]]|[ci' [c [E [Hin Hc]]]]]; try congruence; try (inversion E; subst; congruence).
  inversion E; subst ci'. rewrite (non_cursed_length _ _ G).
  assert (Hlt : (length (filter (fun c0 => negb (src_cursed ci c0)) (s0 :: srcs)) < length (s0 :: srcs))%nat).
  { apply (filter_length_lt _ _ c Hin). now rewrite Hc. }
  replace (Nat.eqb _ _) with false by (symmetry; apply Nat.eqb_neq; lia). now left.
Qed.

Theorem commit_accept_refuses d roots tp gp sigs curse info rmn f :
  roots <> [] -> any_cursed curse roots -> commit_accept d roots tp gp sigs curse info rmn f <> Ok true.
Proof.
  intros Hne H. unfold commit_accept, commit_should_accept.
  destruct d; cbn [negb]; [|discriminate].
  assert (Hr : N.eqb (N.of_nat (length roots)) 0 = false).
  { apply N.eqb_neq. destruct roots; [congruence| cbn [length]; lia]. }
  unfold commit_report_empty. rewrite Hr. cbn [andb].
  destruct (report_cursed_code roots curse Hne H) as [E|E]; rewrite E; cbn [N.eqb Pos.eqb]; discriminate.
Qed.

Theorem exec_accept_refuses n d reports curse :
  reports <> [] -> any_cursed curse reports -> exec_accept n d reports curse <> Ok true.
Proof.
  intros Hne H. unfold exec_accept, exec_should_accept.
  destruct n; [discriminate|]. destruct d; cbn [negb]; [|discriminate].
  destruct (report_cursed_code reports curse Hne H) as [E|E]; rewrite E; cbn [N.eqb Pos.eqb]; discriminate.
Qed.

(* and the curse step refuses nothing else: without any relevant curse the gates decide as if there were none *)
Lemma report_not_cursed srcs ci :
  ci_global ci = false -> ci_dest ci = false -> (forall c, In c srcs -> src_cursed ci c = false) ->
  is_report_cursed srcs (Some ci) = Ok false.
Proof.
  intros G D H. unfold is_report_cursed. destruct srcs as [|s0 srcs]; [reflexivity|].
  rewrite G, D. cbn [orb]. rewrite (non_cursed_length _ _ G), filter_all.
  - now rewrite Nat.eqb_refl.
  - intros x Hx. now rewrite (H x Hx).
Qed.

Theorem commit_accept_unaffected d roots tp gp sigs ci info rmn f :
  ci_global ci = false -> ci_dest ci = false -> (forall c, In c roots -> src_cursed ci c = false) ->
  commit_accept d roots tp gp sigs (Some ci) info rmn f =
  commit_should_accept d (N.of_nat (length roots)) tp gp sigs 0 info rmn f.
Proof. intros G D H. unfold commit_accept. now rewrite report_not_cursed. Qed.

Theorem exec_accept_unaffected n d reports ci :
  ci_global ci = false -> ci_dest ci = false -> (forall c, In c reports -> src_cursed ci c = false) ->
  exec_accept n d reports (Some ci) = exec_should_accept n d (N.of_nat (length reports)) 0.
Proof. intros G D H. unfold exec_accept. now rewrite report_not_cursed. Qed.

(* before the repair execute deleted only what the reader reported: a cursed chain outside the known list stayed *)
Theorem exec_unfixed_unknown_cursed_source_kept :
  exists S dest known (g : list (N * N)),
    In (subject_of_chain 7) S /\
    exec_observe_unfixed 1 (Some known) (Some (curse_info_of S dest known)) (Some g) = Ok (Some g) /\ In 7%N (map fst g).
Proof.
  exists [subject_of_chain 7], 900%N, [5%N], [(5%N, 1%N); (7%N, 2%N)].
  split; [now left|]. split; [vm_compute; reflexivity| right; now left].
Qed.

(* ---------- concrete instances: the hypotheses are satisfiable ---------- *)
Example curse_example :
  let S := [subject_of_chain 5; (0, 99); (1, 5)]%N in
  let ci := curse_info_of S 900 [3; 5; 8]%N in
  src_cursed ci 5 = true /\ src_cursed ci 3 = false /\ ci_dest ci = false /\ ci_global ci = false /\
  observe_offramp 1 (Some [8; 5; 3]%N) (Some ci) (fun l => Some (map (fun c => c + 100) l))%N
    = [(3, 103); (8, 108)]%N /\
  exec_observe 1 (Some [3; 5; 8]%N) (Some ci) (Some [(5, 1); (8, 2); (21, 4)]%N) = Ok (Some [(8, 2)]%N) /\
  commit_accept true [3; 5]%N 0 0 0 (Some ci) true false 0 = Ok false /\
  commit_accept true [3; 8]%N 0 0 0 (Some ci) true false 0 = Ok true /\
  exec_accept false true [5]%N (Some ci) = Ok false /\
  exec_accept false true [8]%N None = Err /\
  commit_accept true [3]%N 0 0 0 (Some (curse_info_of [global_subject] 900 [3]%N)) true false 0 = Ok false.
Proof. vm_compute. repeat split; reflexivity. Qed.

(* TruncateP.v — theorems about observation truncation (C17). *)
Require Import Verif.Model.Base Verif.Proofs.BaseP Verif.Model.Truncate.
From Coq Require Import ZifyN ZifyNat ZifyBool.

(* ---------- association-list updates ---------- *)
Lemma alookup_aset {V} c c' (v : V) m :
  alookup c' (aset c v m) =
  if N.eqb c' c then match alookup c m with Some _ => Some v | None => None end else alookup c' m.
Proof.
  unfold aset. induction m as [|[k w] m IH]; cbn [map alookup fst]; [now destruct (N.eqb c' c)|].
  destruct (N.eqb_spec k c) as [->|Hk]; cbn [alookup].
  - destruct (N.eqb_spec c' c) as [->|Hc]; [now rewrite N.eqb_refl|]. rewrite IH.
    destruct (N.eqb_spec c' c); [contradiction|reflexivity].
  - destruct (N.eqb_spec c' k) as [->|Hc'].
    + destruct (N.eqb_spec k c); [contradiction|]. reflexivity.
    + rewrite IH. destruct (N.eqb_spec c' c) as [->|Hc]; [|reflexivity].
      destruct (N.eqb_spec c k); [congruence|reflexivity].
Qed.

Lemma alookup_aremove {V} c c' (m : list (N * V)) :
  alookup c' (aremove c m) = if N.eqb c' c then None else alookup c' m.
Proof.
  unfold aremove. induction m as [|[k w] m IH]; cbn [filter alookup fst]; [now destruct (N.eqb c' c)|].
  destruct (N.eqb_spec k c) as [->|Hk]; cbn [negb alookup].
  - rewrite IH. destruct (N.eqb_spec c' c); reflexivity.
  - rewrite IH. destruct (N.eqb_spec c' k) as [->|Hc']; [|reflexivity].
    destruct (N.eqb_spec k c); [contradiction|reflexivity].
Qed.

Lemma filter_filter {A} (p q : A -> bool) l : filter p (filter q l) = filter (fun x => q x && p x) l.
Proof.
  induction l as [|x l IH]; cbn [filter]; [reflexivity|].
  destruct (q x); cbn [filter andb]; [destruct (p x); now rewrite IH|exact IH].
Qed.

Lemma filter_all {A} (p : A -> bool) l : (forall x, In x l -> p x = true) -> filter p l = l.
Proof.
  induction l as [|x l IH]; intros H; cbn [filter]; [reflexivity|].
  rewrite (H x (or_introl eq_refl)). f_equal. apply IH. intros; apply H; now right.
Qed.

Lemma memN_map_filter_or (p q r : tmsg -> bool) l x :
  (forall m, In m l -> r m = p m || q m) ->
  memN x (map snd (filter r l)) = memN x (map snd (filter p l)) || memN x (map snd (filter q l)).
Proof.
  intros H. apply eq_true_iff_eq. rewrite orb_true_iff, !memN_In, !in_map_iff. split.
  - intros [m [Hs Hm]]. apply filter_In in Hm. destruct Hm as [Hi Hr]. rewrite (H m Hi) in Hr.
    apply orb_true_iff in Hr. destruct Hr as [Hp|Hq]; [left|right]; exists m; (split; [exact Hs|]); apply filter_In; tauto.
  - intros [[m [Hs Hm]]|[m [Hs Hm]]]; apply filter_In in Hm; destruct Hm as [Hi Hb]; exists m; (split; [exact Hs|]);
      apply filter_In; (split; [exact Hi|]); rewrite (H m Hi), Hb; [reflexivity|apply orb_true_r].
Qed.

(* one truncation step seen from the specification: if the survivors after the step are the survivors before it
   minus the entries [kill]ed, the three dependent components follow *)
Lemma project_step o0 cm cm' (kill : N -> N -> bool) :
  (forall c s, alive (t_commits o0) cm' c s = alive (t_commits o0) cm c s && negb (kill c s)) ->
  t_msgs (project o0 cm') = filter (fun m => negb (kill (fst (fst m)) (snd (fst m)))) (t_msgs (project o0 cm)) /\
  t_toks (project o0 cm') = filter (fun t => negb (kill (fst t) (snd t))) (t_toks (project o0 cm)) /\
  t_costly (project o0 cm') =
    remove_costly (map snd (filter (fun m => kill (fst (fst m)) (snd (fst m))) (t_msgs (project o0 cm))))
                  (t_costly (project o0 cm)).
Proof.
  intros K. unfold project; cbn [t_msgs t_toks t_costly]. split; [|split].
  - rewrite filter_filter. apply filter_ext. intros m. unfold alive_msg. apply K.
  - rewrite filter_filter. apply filter_ext. intros t. apply K.
  - unfold remove_costly. rewrite filter_filter. apply filter_ext. intros x.
    rewrite filter_filter. rewrite <- negb_orb. f_equal.
    apply memN_map_filter_or. intros m _. unfold alive_msg. rewrite K.
    destruct (alive (t_commits o0) cm (fst (fst m)) (snd (fst m))), (kill (fst (fst m)) (snd (fst m))); reflexivity.
Qed.

Lemma firstn_last_skipn (l : list tcommit) : forall n,
  (1 <= n)%nat -> (n <= length l)%nat ->
  skipn (n - 1) l = last (firstn n l) dummy :: skipn n l /\
  removelast (firstn n l) = firstn (n - 1) l.
Proof.
  induction l as [|a l IH]; intros n H1 H2; cbn [length] in H2; [lia|].
  destruct n as [|n]; [lia|]. destruct n as [|n].
  - cbn. destruct l; split; reflexivity.
  - destruct (IH (S n)) as [E1 E2]; [lia|lia|].
    replace (S (S n) - 1)%nat with (S (S n - 1)) by lia.
    change (firstn (S (S n)) (a :: l)) with (a :: firstn (S n) l).
    cbn [skipn]. rewrite E1. split.
    + destruct l as [|b l]; [cbn in H2; lia|]. reflexivity.
    + destruct l as [|b l]; [cbn in H2; lia|].
      change (firstn (S n) (b :: l)) with (b :: firstn n l) in *.
      change (removelast (a :: b :: firstn n l)) with (a :: removelast (b :: firstn n l)).
      rewrite E2. reflexivity.
Qed.

Lemma firstn_prefix_last (l' l : list tcommit) :
  l' = firstn (length l') l -> l' <> [] ->
  skipn (length l' - 1) l = last l' dummy :: skipn (length l') l /\
  removelast l' = firstn (length l' - 1) l.
Proof.
  intros E Hne.
  assert (Hlen : (length l' <= length l)%nat).
  { rewrite E at 1. rewrite firstn_length. lia. }
  assert (H1 : (1 <= length l')%nat) by (destruct l'; [congruence|cbn; lia]).
  destruct (firstn_last_skipn l (length l') H1 Hlen) as [A B]. rewrite <- E in A, B. now split.
Qed.

Lemma has_msg_in msgs c s : has_msg msgs c s = true <-> exists id, In (c, s, id) msgs.
Proof.
  unfold has_msg. rewrite existsb_exists. split.
  - intros [[[c' s'] id] [Hi Hb]]. cbn [fst snd] in Hb. apply andb_prop in Hb. destruct Hb as [H1 H2].
    apply N.eqb_eq in H1, H2. subst. now exists id.
  - intros [id Hi]. exists (c, s, id). split; [exact Hi|]. cbn [fst snd]. now rewrite !N.eqb_refl.
Qed.

Lemma project_toks_have_msgs o0 cm : toks_have_msgs o0 -> toks_have_msgs (project o0 cm).
Proof.
  intros H [c s] Ht. unfold project in *; cbn [t_toks t_msgs fst snd] in *.
  apply filter_In in Ht. destruct Ht as [Hi Ha]. cbn [fst snd] in Ha.
  specialize (H _ Hi). cbn [fst snd] in H. apply has_msg_in in H. destruct H as [id Hm].
  apply has_msg_in. exists id. apply filter_In. split; [exact Hm|]. unfold alive_msg. cbn [fst snd]. exact Ha.
Qed.

(* ---------- a step keeps the observation consistent with the original ---------- *)
Lemma consistent_last_commit o0 o c l' :
  toks_have_msgs o0 ->
  consistent o0 o -> alookup c (t_commits o) = Some l' -> l' <> [] ->
  consistent o0 (truncate_last_commit o c).
Proof.
  intros H0 [Ho Hp] Hl Hne.
  assert (Htm : toks_have_msgs o) by (rewrite Ho; now apply project_toks_have_msgs).
  assert (Em : t_msgs o = t_msgs (project o0 (t_commits o))) by (rewrite <- Ho; reflexivity).
  assert (Et : t_toks o = t_toks (project o0 (t_commits o))) by (rewrite <- Ho; reflexivity).
  assert (Ec : t_costly o = t_costly (project o0 (t_commits o))) by (rewrite <- Ho; reflexivity).
  assert (En : t_nonces o = t_nonces (project o0 (t_commits o))) by (rewrite <- Ho; reflexivity).
  unfold truncate_last_commit. rewrite Hl.
  destruct l' as [|a l'']; [congruence|]. remember (a :: l'') as l' eqn:El.
  destruct (Hp c l' Hl) as [l [Hl0 Epre]].
  destruct (firstn_prefix_last l' l Epre Hne) as [Hskip Hrl].
  set (cm := t_commits o) in *. set (cm' := aset c (removelast l') cm).
  assert (K : forall c1 s, alive (t_commits o0) cm' c1 s =
                           alive (t_commits o0) cm c1 s && negb (N.eqb c1 c && in_range (last l' dummy) s)).
  { intros c1 s. unfold alive, cm'. rewrite alookup_aset.
    destruct (N.eqb_spec c1 c) as [->|Hc]; cbn [andb].
    - rewrite Hl0, Hl. rewrite Hrl, firstn_length.
      assert (Hlen : (length l' <= length l)%nat).
      { rewrite Epre at 1. rewrite firstn_length. lia. }
      replace (Nat.min (length l' - 1) (length l)) with (length l' - 1)%nat by lia.
      rewrite Hskip. unfold covered. cbn [existsb]. rewrite negb_orb. apply andb_comm.
    - now rewrite andb_true_r. }
  destruct (project_step o0 cm cm' _ K) as [Hm [Ht Hc]].
  split.
  - cbn [t_commits]. fold cm'.
    assert (Etk : filter (fun t => negb (N.eqb (fst t) c && in_range (last l' dummy) (snd t) && has_msg (t_msgs o) c (snd t))) (t_toks o)
                  = filter (fun t => negb (N.eqb (fst t) c && in_range (last l' dummy) (snd t))) (t_toks o)).
    { apply filter_ext_in. intros t Hin. destruct (N.eqb_spec (fst t) c) as [E|]; [|reflexivity].
      specialize (Htm t Hin). rewrite E in Htm. rewrite Htm. now rewrite andb_true_r. }
    rewrite Etk. rewrite Em, Et, Ec, En.
    replace (project o0 cm') with (mkTObs cm' (t_msgs (project o0 cm')) (t_toks (project o0 cm'))
                                          (t_costly (project o0 cm')) (t_nonces (project o0 cm'))) by reflexivity.
    f_equal; [exact (eq_sym Hm)|exact (eq_sym Ht)|exact (eq_sym Hc)|].
    unfold project; cbn [t_nonces].
    apply filter_ext. intros k. unfold chain_alive, cm'. rewrite alookup_aset.
    destruct (N.eqb_spec k c) as [->|]; [|reflexivity]. rewrite Hl0. fold cm. rewrite Hl. reflexivity.
  - cbn [t_commits]. fold cm'. intros c1 l1 H1. unfold cm' in H1. rewrite alookup_aset in H1.
    destruct (N.eqb_spec c1 c) as [->|Hc1]; [|now apply Hp].
    rewrite Hl in H1. injection H1 as E1. rewrite <- E1. exists l. split; [exact Hl0|].
    rewrite Hrl, firstn_length.
    assert (Hlen : (length l' <= length l)%nat).
    { rewrite Epre at 1. rewrite firstn_length. lia. }
    f_equal. lia.
Qed.

Lemma consistent_chain o0 o c :
  consistent o0 o -> consistent o0 (truncate_chain o c).
Proof.
  intros [Ho Hp].
  assert (Em : t_msgs o = t_msgs (project o0 (t_commits o))) by (rewrite <- Ho; reflexivity).
  assert (Et : t_toks o = t_toks (project o0 (t_commits o))) by (rewrite <- Ho; reflexivity).
  assert (Ec : t_costly o = t_costly (project o0 (t_commits o))) by (rewrite <- Ho; reflexivity).
  assert (En : t_nonces o = t_nonces (project o0 (t_commits o))) by (rewrite <- Ho; reflexivity).
  unfold truncate_chain. destruct (alookup c (t_commits o)) as [l'|] eqn:Hl; [|now split].
  destruct (Hp c l' Hl) as [l [Hl0 _]].
  set (cm := t_commits o) in *. set (cm' := aremove c cm).
  assert (K : forall c1 s, alive (t_commits o0) cm' c1 s =
                           alive (t_commits o0) cm c1 s && negb (N.eqb c1 c)).
  { intros c1 s. unfold alive, cm'. rewrite alookup_aremove.
    destruct (N.eqb_spec c1 c) as [->|Hc]; cbn [negb].
    - rewrite Hl0. now rewrite andb_false_r.
    - now rewrite andb_true_r. }
  destruct (project_step o0 cm cm' (fun c1 _ => N.eqb c1 c) K) as [Hm [Ht Hc]].
  split.
  - cbn [t_commits]. fold cm'. rewrite Em, Et, Ec, En.
    replace (project o0 cm') with (mkTObs cm' (t_msgs (project o0 cm')) (t_toks (project o0 cm'))
                                          (t_costly (project o0 cm')) (t_nonces (project o0 cm'))) by reflexivity.
    f_equal; [exact (eq_sym Hm)|exact (eq_sym Ht)|exact (eq_sym Hc)|].
    unfold project; cbn [t_nonces]. rewrite filter_filter.
    apply filter_ext. intros k. unfold chain_alive, cm'. rewrite alookup_aremove.
    destruct (N.eqb_spec k c) as [->|]; cbn [negb].
    + rewrite Hl0. fold cm. rewrite Hl. reflexivity.
    + now rewrite andb_true_r.
  - cbn [t_commits]. fold cm'. intros c1 l1 H1. unfold cm' in H1. rewrite alookup_aremove in H1.
    destruct (N.eqb_spec c1 c); [discriminate|]. now apply Hp.
Qed.

Lemma consistent_step o0 o c : toks_have_msgs o0 -> consistent o0 o -> consistent o0 (step o c).
Proof.
  intros H0 H. unfold step. destruct (alookup c (t_commits o)) as [l'|] eqn:Hl.
  - destruct (Nat.ltb_spec 1 (length l')) as [Hlt|Hge].
    + eapply consistent_last_commit; [exact H0|exact H|exact Hl|]. intros ->. cbn in Hlt. lia.
    + now apply consistent_chain.
  - now apply consistent_chain.
Qed.

Lemma consistent_refl o0 : consistent o0 o0.
Proof.
  split.
  - destruct o0 as [cm ms ts ks ns]. unfold project; cbn [t_commits t_msgs t_toks t_costly t_nonces].
    assert (A : forall c s, alive cm cm c s = true).
    { intros c s. unfold alive. destruct (alookup c cm) as [l|]; [|reflexivity].
      rewrite skipn_all. reflexivity. }
    f_equal.
    + symmetry. apply filter_all. intros m _. apply A.
    + symmetry. apply filter_all. intros t _. apply A.
    + symmetry. unfold remove_costly. apply filter_all. intros x _.
      replace (filter (fun m => negb (alive_msg cm cm m)) ms) with (@nil tmsg); [reflexivity|].
      symmetry. induction ms as [|m ms IH]; cbn [filter]; [reflexivity|]. unfold alive_msg at 1. rewrite A. exact IH.
    + symmetry. apply filter_all. intros k _. unfold chain_alive. now destruct (alookup k cm).
  - intros c l' H. exists l'. split; [exact H|]. symmetry. apply firstn_all.
Qed.

(* ---------- the loop ---------- *)
Section LoopP.
  Variable size : tobs -> N.
  Variable max : Z.
  Variable pick : nat -> tobs -> N.
  Let stepf := fun o c => Ok (step o c).

  (* the observations whose size the loop measures *)
  Fixpoint trace (fuel n : nat) (o : tobs) : list tobs :=
    o :: if too_big size max o then
           match fuel with
           | O => []
           | S fuel' =>
               let o' := match chain_for pick n o with Some c => step o c | None => o end in
               match t_commits o' with [] => [] | _ => trace fuel' (S n) o' end
           end
         else [].

  Lemma loop_fits fuel : forall n o o',
    loop size max pick stepf fuel n o = Ok o' -> (Z.of_N (size o') <= max)%Z.
  Proof.
    induction fuel as [|fuel IH]; intros n o o' H; cbn [loop] in H.
    - destruct (too_big size max o) eqn:E; [discriminate|]. inversion H; subst. unfold too_big in E. lia.
    - destruct (too_big size max o) eqn:E.
      + destruct (chain_for pick n o) as [c|]; unfold stepf in H; cbn [rbind] in H.
        * destruct (t_commits (step o c)); [discriminate|]. eapply IH; exact H.
        * destruct (t_commits o); [discriminate|]. eapply IH; exact H.
      + inversion H; subst. unfold too_big in E. lia.
  Qed.

  Lemma loop_consistent o0 fuel : toks_have_msgs o0 -> forall n o o',
    consistent o0 o -> loop size max pick stepf fuel n o = Ok o' -> consistent o0 o'.
  Proof.
    intros H0. induction fuel as [|fuel IH]; intros n o o' Hc H; cbn [loop] in H.
    - destruct (too_big size max o); [discriminate|]. now inversion H; subst.
    - destruct (too_big size max o).
      + destruct (chain_for pick n o) as [c|]; unfold stepf in H; cbn [rbind] in H.
        * destruct (t_commits (step o c)) eqn:E; [discriminate|]. eapply IH; [|exact H]. now apply consistent_step.
        * destruct (t_commits o); [discriminate|]. eapply IH; [exact Hc|exact H].
      + now inversion H; subst.
  Qed.

  (* an error means every observation that was measured, down to the last one, was too big *)
  Lemma loop_err fuel : forall n o,
    loop size max pick stepf fuel n o = Err -> Forall (fun x => (max < Z.of_N (size x))%Z) (trace fuel n o).
  Proof.
    induction fuel as [|fuel IH]; intros n o H; cbn [loop trace] in *.
    - destruct (too_big size max o); discriminate.
    - destruct (too_big size max o) eqn:E; [|discriminate].
      constructor; [unfold too_big in E; lia|].
      destruct (chain_for pick n o) as [c|]; unfold stepf in H; cbn [rbind] in H.
      + destruct (t_commits (step o c)) eqn:Ec; [constructor|]. apply IH. exact H.
      + destruct (t_commits o) eqn:Ec; [constructor|]. apply IH. exact H.
  Qed.

  Lemma loop_no_panic fuel : forall n o, loop size max pick stepf fuel n o <> Panic.
  Proof.
    induction fuel as [|fuel IH]; intros n o; cbn [loop].
    - destruct (too_big size max o); discriminate.
    - destruct (too_big size max o); [|discriminate].
      destruct (chain_for pick n o) as [c|]; unfold stepf; cbn [rbind].
      + destruct (t_commits (step o c)); [discriminate|apply IH].
      + destruct (t_commits o); [discriminate|apply IH].
  Qed.
End LoopP.

(* ---------- termination: every iteration removes a report or a chain ---------- *)
Definition cmeasure (cm : list (N * list tcommit)) : nat :=
  fold_right (fun kv n => (Nat.max 1 (length (snd kv)) + n)%nat) O cm.

Lemma aset_absent {V} c (v : V) m : ~ In c (tkeys m) -> aset c v m = m.
Proof.
  unfold aset, tkeys. induction m as [|[k w] m IH]; cbn [map fst In]; intros H; [reflexivity|].
  destruct (N.eqb_spec k c) as [->|]; [exfalso; apply H; now left|]. f_equal. apply IH. tauto.
Qed.
Lemma aremove_absent {V} c (m : list (N * V)) : ~ In c (tkeys m) -> aremove c m = m.
Proof.
  unfold aremove, tkeys. induction m as [|[k w] m IH]; cbn [map fst In filter]; intros H; [reflexivity|].
  destruct (N.eqb_spec k c) as [->|]; [exfalso; apply H; now left|]. cbn [negb]. f_equal. apply IH. tauto.
Qed.

Lemma removelast_len {A} (l : list A) : length (removelast l) = (length l - 1)%nat.
Proof.
  induction l as [|a l IH]; [reflexivity|]. destruct l as [|b l]; [reflexivity|].
  change (removelast (a :: b :: l)) with (a :: removelast (b :: l)). cbn [length] in *. lia.
Qed.

Lemma cmeasure_aset c l' cm :
  NoDup (tkeys cm) -> alookup c cm = Some l' -> (1 < length l')%nat ->
  (cmeasure (aset c (removelast l') cm) < cmeasure cm)%nat /\ NoDup (tkeys (aset c (removelast l') cm)).
Proof.
  intros ND Hl Hlen. split.
  - revert ND Hl. induction cm as [|[k w] cm IH]; cbn [alookup tkeys map fst]; intros ND Hl; [discriminate|].
    inversion ND as [|? ? Hn ND']; subst.
    destruct (N.eqb_spec c k) as [->|Hck].
    + inversion Hl; subst w. unfold aset at 1. cbn [map fst]. rewrite N.eqb_refl.
      fold (aset k (removelast l') cm). rewrite aset_absent by exact Hn.
      cbn [cmeasure fold_right snd].
      pose proof (removelast_len l'). lia.
    + unfold aset at 1. cbn [map fst]. destruct (N.eqb_spec k c); [congruence|].
      fold (aset c (removelast l') cm). cbn [cmeasure fold_right snd].
      specialize (IH ND' Hl). unfold cmeasure in IH. lia.
  - unfold tkeys, aset. rewrite map_map.
    erewrite map_ext; [exact ND|]. intros [k w]. cbn [fst]. now destruct (N.eqb_spec k c) as [->|].
Qed.

Lemma cmeasure_aremove_le c cm : (cmeasure (aremove c cm) <= cmeasure cm)%nat.
Proof.
  induction cm as [|[k w] cm IH]; [cbn; lia|].
  unfold aremove. cbn [filter fst]. fold (aremove c cm).
  destruct (N.eqb k c); cbn [negb cmeasure fold_right snd]; unfold cmeasure in IH; lia.
Qed.

Lemma cmeasure_aremove c l' cm :
  alookup c cm = Some l' ->
  (cmeasure (aremove c cm) < cmeasure cm)%nat /\ (NoDup (tkeys cm) -> NoDup (tkeys (aremove c cm))).
Proof.
  intros Hl. split.
  - revert Hl. induction cm as [|[k w] cm IH]; cbn [alookup]; intros Hl; [discriminate|].
    unfold aremove. cbn [filter fst]. fold (aremove c cm).
    destruct (N.eqb_spec c k) as [->|Hck].
    + rewrite N.eqb_refl. cbn [negb cmeasure fold_right snd].
      pose proof (cmeasure_aremove_le k cm). unfold cmeasure in *. lia.
    + destruct (N.eqb_spec k c); [congruence|]. cbn [negb cmeasure fold_right snd].
      specialize (IH Hl). unfold cmeasure in IH. lia.
  - clear Hl. unfold tkeys, aremove. intros ND. induction cm as [|[k w] cm IH]; cbn [filter map fst] in *; [constructor|].
    inversion ND as [|? ? Hn ND']; subst.
    destruct (N.eqb k c); cbn [negb map fst]; [now apply IH|].
    constructor; [|now apply IH]. intros Hi. apply Hn. apply in_map_iff in Hi. destruct Hi as [x [Hx Hf]].
    apply filter_In in Hf. apply in_map_iff. exists x. tauto.
Qed.

Lemma alookup_in_keys {V} c (m : list (N * V)) : In c (tkeys m) -> exists v, alookup c m = Some v.
Proof.
  unfold tkeys. induction m as [|[k w] m IH]; cbn [map fst In alookup]; intros H; [contradiction|].
  destruct (N.eqb_spec c k); [now exists w|]. apply IH. destruct H; [congruence|assumption].
Qed.

Lemma step_measure o c :
  NoDup (tkeys (t_commits o)) -> In c (tkeys (t_commits o)) ->
  (measure (step o c) < measure o)%nat /\ NoDup (tkeys (t_commits (step o c))).
Proof.
  intros ND Hin. destruct (alookup_in_keys _ _ Hin) as [l' Hl].
  unfold step. rewrite Hl. change (measure o) with (cmeasure (t_commits o)).
  destruct (Nat.ltb_spec 1 (length l')) as [Hlt|Hge].
  - unfold truncate_last_commit. rewrite Hl. destruct l' as [|a l'']; [cbn in Hlt; lia|].
    change (measure ?x) with (cmeasure (t_commits x)). cbn [t_commits].
    now apply cmeasure_aset.
  - unfold truncate_chain. rewrite Hl. change (measure ?x) with (cmeasure (t_commits x)). cbn [t_commits].
    destruct (cmeasure_aremove c l' _ Hl) as [H1 H2]. split; [exact H1|now apply H2].
Qed.

Section Termination.
  Variable size : tobs -> N.
  Variable max : Z.
  Variable pick : nat -> tobs -> N.
  (* Go: the chosen chain is a key of the map it was taken from *)
  Hypothesis pick_in : forall n o, t_commits o <> [] -> In (pick n o) (tkeys (t_commits o)).

  Lemma chain_for_in n o c : chain_for pick n o = Some c -> In c (tkeys (t_commits o)).
  Proof.
    unfold chain_for. destruct (tkeys (t_commits o)) as [|k ks] eqn:E; [discriminate|]. intros H. inversion H; subst c.
    destruct (Nat.eqb n 0).
    - assert (Hs : In (hd 0%N (sortN (k :: ks))) (sortN (k :: ks))).
      { destruct (sortN (k :: ks)) as [|x xs] eqn:Es; [|now left].
        pose proof (sort_by_length N.leb (k :: ks)) as Hl. unfold sortN in Es. rewrite Es in Hl. discriminate. }
      exact (proj1 (sort_by_in N.leb (k :: ks) _) Hs).
    - rewrite <- E. apply pick_in. intros Hnil. rewrite Hnil in E. discriminate.
  Qed.

  Lemma loop_terminates fuel : forall n o,
    NoDup (tkeys (t_commits o)) -> (measure o < fuel)%nat ->
    loop size max pick (fun o c => Ok (step o c)) fuel n o <> Spin.
  Proof.
    induction fuel as [|fuel IH]; intros n o ND Hm; [lia|]. cbn [loop].
    destruct (too_big size max o); [|discriminate].
    destruct (chain_for pick n o) as [c|] eqn:Ec; cbn [rbind].
    - apply chain_for_in in Ec. destruct (step_measure o c ND Ec) as [Hlt ND'].
      destruct (t_commits (step o c)) eqn:E; [discriminate|]. apply IH; [rewrite E; exact ND'|lia].
    - unfold chain_for in Ec. destruct (t_commits o) eqn:E; [discriminate|]. cbn in Ec. discriminate.
  Qed.
End Termination.

(* ---------- the named theorems ---------- *)
Theorem truncate_fits size max pick o o' :
  truncate size max pick o = Ok o' -> (Z.of_N (size o') <= max)%Z.
Proof. apply loop_fits. Qed.

Theorem truncate_err size max pick o :
  truncate size max pick o = Err ->
  Forall (fun x => (max < Z.of_N (size x))%Z) (trace size max pick (S (measure o)) 0 o).
Proof. apply loop_err. Qed.

Theorem truncate_total size max pick o :
  (forall n o, t_commits o <> [] -> In (pick n o) (tkeys (t_commits o))) ->
  NoDup (tkeys (t_commits o)) ->
  (exists o', truncate size max pick o = Ok o') \/ truncate size max pick o = Err.
Proof.
  intros Hp ND. unfold truncate.
  pose proof (loop_terminates size max pick Hp (S (measure o)) 0 o ND (Nat.lt_succ_diag_r _)) as Hs.
  pose proof (loop_no_panic size max pick (S (measure o)) 0 o) as Hpn.
  destruct (loop size max pick (fun o c => Ok (step o c)) (S (measure o)) 0 o); [left; eauto|now right|congruence|congruence].
Qed.

Theorem truncate_consistent size max pick o o' :
  toks_have_msgs o ->
  truncate size max pick o = Ok o' -> consistent o o'.
Proof. intros H0. apply loop_consistent; [exact H0|apply consistent_refl]. Qed.

(* the precondition is needed: token data without a message survives the cut of its report *)
Example truncate_orphan_token_kept :
  truncate (fun o => N.of_nat (measure o)) 1%Z (fun _ _ => 1%N)
    (mkTObs [(1%N, [mkTC 1 5 6; mkTC 2 7 8])] [] [(1%N, 7%N)] [] [])
  = Ok (mkTObs [(1%N, [mkTC 1 5 6])] [] [(1%N, 7%N)] [] []).
Proof. vm_compute. reflexivity. Qed.

(* what [consistent] says about single entries, spelled out *)
Theorem consistent_msgs o0 o c s id :
  consistent o0 o ->
  (In (c, s, id) (t_msgs o) <-> In (c, s, id) (t_msgs o0) /\ alive (t_commits o0) (t_commits o) c s = true).
Proof. intros [Ho _]. rewrite Ho at 1. unfold project; cbn [t_msgs]. rewrite filter_In. reflexivity. Qed.

Theorem consistent_toks o0 o c s :
  consistent o0 o ->
  (In (c, s) (t_toks o) <-> In (c, s) (t_toks o0) /\ alive (t_commits o0) (t_commits o) c s = true).
Proof. intros [Ho _]. rewrite Ho at 1. unfold project; cbn [t_toks]. rewrite filter_In. reflexivity. Qed.

(* a costly id is kept iff it was there and it is not the id of a message that was dropped *)
Theorem consistent_costly o0 o id :
  consistent o0 o ->
  (In id (t_costly o) <->
   In id (t_costly o0) /\
   ~ exists c s, In (c, s, id) (t_msgs o0) /\ alive (t_commits o0) (t_commits o) c s = false).
Proof.
  intros [Ho _]. rewrite Ho at 1. unfold project; cbn [t_costly]. unfold remove_costly. rewrite filter_In.
  rewrite negb_true_iff. split; intros [H1 H2]; (split; [exact H1|]).
  - intros [c [s [Hi Ha]]]. assert (Hm : memN id (map snd (filter (fun m => negb (alive_msg (t_commits o0) (t_commits o) m)) (t_msgs o0))) = true).
    { apply memN_In. apply in_map_iff. exists (c, s, id). split; [reflexivity|]. apply filter_In. split; [exact Hi|].
      unfold alive_msg. cbn [fst snd]. now rewrite Ha. }
    congruence.
  - destruct (memN id _) eqn:E; [|reflexivity]. exfalso. apply H2.
    apply memN_In in E. apply in_map_iff in E. destruct E as [[[c s] id'] [Hs Hf]]. cbn in Hs. subst id'.
    apply filter_In in Hf. destruct Hf as [Hi Ha]. exists c, s. split; [exact Hi|].
    unfold alive_msg in Ha. cbn [fst snd] in Ha. now apply negb_true_iff in Ha.
Qed.

(* ---------- the code before the repair (F20) ---------- *)
Local Open Scope N_scope.
Definition f20_obs (costly : list N) : tobs :=
  mkTObs [(1, [mkTC 1 5 6]); (2, [mkTC 2 7 8])] [(1, 5, 101); (1, 6, 103); (2, 7, 102)] [(1, 5); (2, 7)] costly [1; 2].

(* cutting chain 1 removes the costly flag of chain 2's retained message 102 *)
Theorem truncate_chain_unfixed_wrong_chain :
  exists o c o', truncate_chain_unfixed o c = Ok o' /\
                 In (2, 7, 102) (t_msgs o') /\ In 102 (t_costly o) /\ ~ In 102 (t_costly o') /\
                 t_costly (truncate_chain o c) = [102].
Proof.
  exists (f20_obs [102]), 1, (mkTObs [(2, [mkTC 2 7 8])] [(2, 7, 102)] [(2, 7)] [] [2]).
  split; [vm_compute; reflexivity|]. split; [now left|]. split; [now left|]. split; [intros []|reflexivity].
Qed.

(* two costly ids that both belong to messages of the observation: slice bounds out of range [2:1] *)
Theorem truncate_chain_unfixed_panics :
  exists o c, truncate_chain_unfixed o c = Panic /\
              exists size max pick, truncate_unfixed size max pick o = Panic.
Proof.
  exists (f20_obs [101; 103]), 1. split; [vm_compute; reflexivity|].
  exists (fun o => N.of_nat (length (t_msgs o))), 1%Z, (fun _ _ => 1). vm_compute. reflexivity.
Qed.

(* non-vacuity: a truncation that really cuts (chain 1 loses its second report and the message, token data and
   costly flag in its range; chain 2 and the message outside every report stay) *)
Example truncate_example :
  truncate (fun o => N.of_nat (length (t_msgs o))) 3%Z (fun _ _ => 1)
    (mkTObs [(1, [mkTC 1 5 6; mkTC 3 7 9]); (2, [mkTC 2 7 8])]
            [(1, 5, 101); (1, 8, 103); (1, 20, 104); (2, 7, 102)] [(1, 8); (2, 7)] [103; 102] [1; 2])
  = Ok (mkTObs [(1, [mkTC 1 5 6]); (2, [mkTC 2 7 8])]
            [(1, 5, 101); (1, 20, 104); (2, 7, 102)] [(2, 7)] [102] [1; 2]).
Proof. vm_compute. reflexivity. Qed.

(* C13_check.v — sweep correspondence: every (document, site, mutation, callback) case carries the callback's
   termination code: 0 = returned (value or error), 2 = panicked, 3 = did not return before the watchdog. *)
Require Import Verif.Model.Base.

(* input: (plugin 0 commit / 1 execute / 2 rmn controller, document class, callback id, digest of scenario+site+mutation,
           recorded known-finding class or 0) *)
Definition sweep_in := (N * N * N * N)%type.
Definition sweep_model (i : sweep_in) : N := 0%N.
Definition sweep_ok (i : sweep_in) (o : N) : bool := N.eqb o 0.
Definition sweep_known (i : sweep_in) : N := 0%N.
Definition sweep_judge := judge sweep_model N.eqb sweep_ok sweep_known.

(* the RMN controller's anomaly sweep (harness and judge of C06, sink C06_sweep): outcome kinds 9 (panic recovered)
   and 10 (watchdog) violate c06_ok1, so the sweep also decides C13's no-panic / no-hang clause for
   ComputeReportSignatures; the case terms use the constructors of C06_check *)
Require Export Verif.Check.C06_check.
Definition c06_judge := Verif.Check.C06_check.c06_judge.

(* ---- no-panic / no-hang reading of other properties' function-level harnesses (their sinks, judged here ONLY for
   the termination kind the harness recorded: a recovered panic or a watchdog expiry is code 2; what the function
   returned is that property's business).  The case terms use the constructors of the owning Check module, which the
   shard file imports next to this one. *)
Require Verif.Check.C17_check Verif.Check.C09_check Verif.Check.C08_check.
Section PanicJudge.
  Context {I O : Type} (bad : O -> bool).
  Fixpoint pj_from (i : N) (cs : list (I * O)) : list (N * N) :=
    match cs with
    | [] => []
    | (_, o) :: r => (if bad o then [(i, 2%N)] else []) ++ pj_from (N.succ i) r
    end.
End PanicJudge.
Definition res_bad {A} (r : res A) : bool := match r with Panic | Spin => true | _ => false end.
Definition p_c17_step (cs : list (C17_check.step_in * C17_check.step_out)) := pj_from res_bad 0%N cs.
Definition p_c17_trunc (cs : list (C17_check.trunc_in * C17_check.trunc_out)) :=
  pj_from (fun o : C17_check.trunc_out => existsb (fun x => res_bad (fst x)) o) 0%N cs.
Definition p_c09_ranges (cs : list (C09_check.ranges_in * C09_check.ranges_out)) := pj_from res_bad 0%N cs.
Definition p_c09_filter (cs : list (C09_check.filter_in * C09_check.filter_out)) := pj_from res_bad 0%N cs.
Definition p_c09_pend (cs : list (C09_check.pend_in * C09_check.pend_out)) := pj_from res_bad 0%N cs.
Definition p_c08_add (cs : list (C08_check.add_in * C08_check.c08_out)) :=
  pj_from (fun o : C08_check.c08_out =>
             existsb (fun a => match a with C08_check.APanic => true | _ => false end) (fst o)) 0%N cs.
Definition p_c08_sel (cs : list (C08_check.sel_in * C08_check.sel_out)) := pj_from res_bad 0%N cs.
(* long-lived plugins on the REAL home-chain poller while the role map changes (C11's history parts): an Observation that
   panics (e.g. on a peer that reads no chain any more — seeded change C13-7) is recorded as Panic by that harness *)
Require Verif.Check.C11_check.
Definition p_c11_cch (cs : list (C11_check.cch_in * C11_check.cc_out)) :=
  pj_from (fun o : C11_check.cc_out => res_bad (fst o)) 0%N cs.
Definition p_c11_ceh (cs : list (C11_check.ceh_in * C11_check.ce_out)) :=
  pj_from (fun o : C11_check.ce_out => res_bad (fst o)) 0%N cs.

(* ---- directed site classes (harness files c13s_test.go in commit, commit/merkleroot, commit/merkleroot/rmn, execute,
   execute/report, pkg/reader): the real (guard, use) pair of every site of Model/PanicSites2.v is driven with inputs
   around the guard boundary; a case is (site input, termination code 0 returned / 1 returned an error / 2 panicked /
   3 did not return).  The model side evaluates the site's PanicSites2 function on the same (abstracted) input; the
   executable property is "never 2 or 3". *)
Require Import Verif.Model.PanicSites Verif.Model.PanicSites2.
Definition sig_shape := (bool * nat * nat)%type.            (* nil?, len R, len S *)
Definition lane_shape := (bool * bool * bool * nat)%type.   (* update nil?, lane source nil?, closed interval nil?, len Root *)
Inductive site_in :=
| SZip (site : N) (n m : nat)              (* site 1..7 of the zip family; meaning of n, m per site in site_model *)
| SCheckMsg (idx : Z) (nmsgs ntok : nat)
| SBuilderAdd (nmsgs ntok : nat)
| SSig (isnil : bool) (lr ls : nat)
| SLane (lu_nil src_nil iv_nil : bool) (lroot : nat)
| SVerifyQuery (building retry has_sigs cfg_empty : bool)
| SBundleVerify (x : bool * sig_shape * lane_shape)      (* bundle nil?, the entry behind a good one *)
| SBundleBuild (x : bool * sig_shape * lane_shape)
| SDeviates (x1 x2 : option Z) (ppb : Z)
| SAppend (idx : Z) (len : nat)
| SMergeTok (f_known : bool) (noracles ntok : nat)
| SRoot32 (len : nat)
| SMaxCount (n : nat)
| SKeepRight (len : nat) (n : N)
| SUnpackID (len : nat)
| SPayload (len : nat)
| SExecCost (nmsgs : nat) (ef daf : bool)
| SPackedFee (ts_zero : bool) (v : option Z)
| SMsgFee (juels : option Z)
| SFilterLoop (lo hi a b : N)
| SRawPrice (answer_nil : bool) (decimals : N)
| SFeeComp (isnil : bool).

Definition units (n : nat) : list N := repeat 0%N n.
Definition mk_sig (s : sig_shape) : pb_sig :=
  let '(isnil, lr, ls) := s in if isnil then None else Some (units lr, units ls).
Definition mk_lane (l : lane_shape) : option pb_lane :=
  let '(lu_nil, src_nil, iv_nil, lroot) := l in
  if lu_nil then None
  else Some (mkPbLane (if src_nil then None else Some 5%N) (if iv_nil then None else Some (10, 12)%N) (units lroot)).
Definition good_sig : sig_shape := (false, 32%nat, 32%nat).
Definition good_lane : lane_shape := (false, false, false, 32%nat).
Definition mk_bundle (x : bool * sig_shape * lane_shape) : option pb_bundle :=
  let '(bnil, s, l) := x in
  if bnil then None else Some (mkBundle [mk_sig good_sig; mk_sig s] [mk_lane good_lane; mk_lane l]).
(* mergeTokenObservations of the harness: every oracle files chain 5 (seq 10 and a seq of its own) and chain 7 *)
Fixpoint merge_entries (o : nat) : list (N * N * N) :=
  match o with
  | O => []
  | S o' => merge_entries o' ++ [(5, 10, 1); (5, 11 + N.of_nat o', 1); (7, 20, 1)]%N
  end.

Definition site_model (i : site_in) : N :=
  match i with
  | SZip site n m =>
      (* n = length of the list the loop runs over, m = length of the list that is indexed *)
      if N.eqb site 1 then res_code (validate_roots_state (units m) (units n))
      else if N.eqb site 2 then res_code (observe_offramp_next (units n) (units m))
      else if N.eqb site 3 then res_code (observe_feed_prices (units n) (units m))
      else if N.eqb site 4 then res_code (all_source_configs (units n) (units m))
      else if N.eqb site 5 then res_code (report_token_data (units n) (units m))
      else if N.eqb site 6 then res_code (token_merge (units n) (units m))
      else res_code (fee_quoter_updates (units n) (units m))
  | SCheckMsg idx nmsgs ntok => res_code (check_message (units nmsgs) (units ntok) idx)
  | SBuilderAdd nmsgs ntok => res_code (builder_add (units nmsgs) (units ntok))
  | SSig isnil lr ls => res_code (ecdsa_sig_from_pb (mk_sig (isnil, lr, ls)))
  | SLane a b c lroot => res_code (parse_bundle (mkBundle [] [mk_lane good_lane; mk_lane (a, b, c, lroot)]))
  | SVerifyQuery building retry has_sigs cfg_empty =>
      res_code (verify_query building retry cfg_empty true
                  (if has_sigs then mk_bundle (false, good_sig, good_lane) else None))
  | SBundleVerify x => res_code (verify_query true false false true (mk_bundle x))
  | SBundleBuild x => res_code (build_report_bundle (mk_bundle x))
  | SDeviates x1 x2 ppb => res_code (deviates x1 x2 ppb)
  | SAppend idx len => res_code (append_at 0%N (units len) idx 9%N)
  | SMergeTok f_known noracles ntok =>
      res_code (merge_tok_all (if f_known then [5; 7]%N else [5]%N) [] (merge_entries noracles))
  | SRoot32 len => res_code (root32 (units len))
  | SMaxCount n => res_code (max_count (repeat 1%Z n))
  | SKeepRight len n => res_code (keep_n_right (units len) n)
  | SUnpackID len => res_code (unpack_id (units len))
  | SPayload len => res_code (source_token_payload (units len))
  | SExecCost nmsgs ef daf =>
      res_code (exec_cost (repeat 900%N nmsgs) (if ef then Some 1000%Z else None) (if daf then Some 10%Z else None)
                  [(900%N, 2000000000000000000%Z)])
  | SPackedFee ts_zero v => res_code (packed_fee (if ts_zero then 0%N else 1700000000%N) v)
  | SMsgFee juels => res_code (msg_fee 7000000000000000000%Z juels)
  | SFilterLoop lo hi a b => res_code (filter_one lo hi a b)
  | SRawPrice answer_nil decimals => res_code (raw_price (if answer_nil then None else Some 123456789%Z) decimals)
  | SFeeComp isnil => res_code (fee_components [(900%N, if isnil then None else Some 7%N)])
  end.
Definition site_ok (i : site_in) (o : N) : bool := N.eqb o 0 || N.eqb o 1.
Definition site_known (i : site_in) : N := 0%N.
Definition site_judge := judge site_model N.eqb site_ok site_known.

(* C13_check.v — sweep correspondence: every (document, site, mutation, callback) case carries the callback's
   termination code: 0 = returned (value or error), 2 = panicked, 3 = did not return before the watchdog. *)
Require Import Verif.Model.Base.

(* input: (plugin 0 commit / 1 execute / 2 rmn controller, document class, callback id, digest of scenario+site+mutation,
           recorded known-finding class or 0) *)
Definition sweep_in := (N * N * N * N)%type.
Definition sweep_model (i : sweep_in) : N := 0%N.
Definition sweep_ok (i : sweep_in) (o : N) : bool := N.eqb o 0.
Definition sweep_known (i : sweep_in) : N := 0%N.
Definition sweep_judge := judge sweep_model N.eqb sweep_ok sweep_known.

(* the RMN controller's anomaly sweep (harness and judge of C06, sink C06_sweep): outcome kinds 9 (panic recovered)
   and 10 (watchdog) violate c06_ok1, so the sweep also decides C13's no-panic / no-hang clause for
   ComputeReportSignatures; the case terms use the constructors of C06_check *)
Require Export Verif.Check.C06_check.
Definition c06_judge := Verif.Check.C06_check.c06_judge.

(* ---- no-panic / no-hang reading of other properties' function-level harnesses (their sinks, judged here ONLY for
   the termination kind the harness recorded: a recovered panic or a watchdog expiry is code 2; what the function
   returned is that property's business).  The case terms use the constructors of the owning Check module, which the
   shard file imports next to this one. *)
Require Verif.Check.C17_check Verif.Check.C09_check Verif.Check.C08_check.
Section PanicJudge.
  Context {I O : Type} (bad : O -> bool).
  Fixpoint pj_from (i : N) (cs : list (I * O)) : list (N * N) :=
    match cs with
    | [] => []
    | (_, o) :: r => (if bad o then [(i, 2%N)] else []) ++ pj_from (N.succ i) r
    end.
End PanicJudge.
Definition res_bad {A} (r : res A) : bool := match r with Panic | Spin => true | _ => false end.
Definition p_c17_step (cs : list (C17_check.step_in * C17_check.step_out)) := pj_from res_bad 0%N cs.
Definition p_c17_trunc (cs : list (C17_check.trunc_in * C17_check.trunc_out)) :=
  pj_from (fun o : C17_check.trunc_out => existsb (fun x => res_bad (fst x)) o) 0%N cs.
Definition p_c09_ranges (cs : list (C09_check.ranges_in * C09_check.ranges_out)) := pj_from res_bad 0%N cs.
Definition p_c09_filter (cs : list (C09_check.filter_in * C09_check.filter_out)) := pj_from res_bad 0%N cs.
Definition p_c09_pend (cs : list (C09_check.pend_in * C09_check.pend_out)) := pj_from res_bad 0%N cs.
Definition p_c08_add (cs : list (C08_check.add_in * C08_check.c08_out)) :=
  pj_from (fun o : C08_check.c08_out =>
             existsb (fun a => match a with C08_check.APanic => true | _ => false end) (fst o)) 0%N cs.
Definition p_c08_sel (cs : list (C08_check.sel_in * C08_check.sel_out)) := pj_from res_bad 0%N cs.

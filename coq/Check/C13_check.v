(* C13_check.v — sweep correspondence: every (document, site, mutation, callback) case carries the callback's
   termination code: 0 = returned (value or error), 2 = panicked, 3 = did not return before the watchdog. *)
Require Import Verif.Model.Base.

(* input: (plugin 0 commit / 1 execute / 2 rmn controller, document class, callback id, digest of scenario+site+mutation,
           recorded known-finding class or 0) *)
Definition sweep_in := (N * N * N * N)%type.
Definition sweep_model (i : sweep_in) : N := 0%N.
Definition sweep_ok (i : sweep_in) (o : N) : bool := N.eqb o 0.
Definition sweep_known (i : sweep_in) : N := 0%N.
Definition sweep_judge := judge sweep_model N.eqb sweep_ok sweep_known.

(* the RMN controller's anomaly sweep (harness and judge of C06, sink C06_sweep): outcome kinds 9 (panic recovered)
   and 10 (watchdog) violate c06_ok1, so the sweep also decides C13's no-panic / no-hang clause for
   ComputeReportSignatures; the case terms use the constructors of C06_check *)
Require Export Verif.Check.C06_check.
Definition c06_judge := Verif.Check.C06_check.c06_judge.

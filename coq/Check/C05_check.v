(* C05_check.v — case types, model runners and executable property checks for the C05 correspondence. *)
Require Export Verif.Model.Base Verif.Model.SeqRange Verif.Model.CommitMerkle Verif.Model.CommitSM
               Verif.Model.Transmit Verif.Model.CommitRmnGate.
Require Import Verif.Check.C03_check.

(* ---- part obs: merkleroot.Processor.Observation with a recording RMNCrypto ----
   input: RMNEnabled, previous outcome type, previous RMNRemoteCfg empty?, its details, destination selector,
          controller init code, ChainBySelector ok, off-ramp address (None = error), query, scripted crypto answer;
   output: (0 observation returned / 1 error / 2 panic, the recorded VerifyReportSignatures call if any) *)
Definition obs_in := (bool * Z * bool * cfg_detail * N * N * bool * option N * query * bool)%type.
Definition obs_out := (N * option verify_call)%type.

Definition obs_model (i : obs_in) : obs_out :=
  let '(enabled, ty, cfg_e, d, dest, init, known, off, q, ans) := i in
  match verify_args enabled (next_state ty) cfg_e d dest init known off q with
  | Ok None => (0%N, None)
  | Ok (Some c) => ((if ans then 0 else 1)%N, Some c)
  | Err => (1%N, None)
  | _ => (2%N, None)
  end.
Definition report_eqb (a b : rmn_report) : bool :=
  let '(v, ds, ca, off, dg, ls) := a in let '(v', ds', ca', off', dg', ls') := b in
  N.eqb v v' && N.eqb ds ds' && N.eqb ca ca' && N.eqb off off' && N.eqb dg dg' && list_eqb root_eqb ls ls'.
Definition call_eqb (a b : verify_call) : bool :=
  let '(s, r, g) := a in let '(s', r', g') := b in
  list_eqb N.eqb s s' && report_eqb r r' && list_eqb N.eqb g g'.
Definition obs_oeqb : obs_out -> obs_out -> bool := pair_eqb N.eqb (option_eqb call_eqb).

(* the observation clauses of C05 on the implementation's answer *)
Definition obs_ok (i : obs_in) (o : obs_out) : bool :=
  let '(enabled, ty, cfg_e, d, dest, init, known, off, q, ans) := i in
  let '(code, call) := o in
  let building := state_eqb (next_state ty) Building in
  negb (N.eqb code 2) &&
  (* an observation in a building round without announced retry needs a verified bundle *)
  (if enabled && building && negb (q_retry q) && N.eqb code 0 then
     match q_sigs q, off, call with
     | Some b, Some offa, Some c =>
         negb cfg_e && ans &&
         match parse_sigs (b_sigs b), parse_lanes (b_lanes b) with
         | Some sigs, Some lanes =>
             call_eqb c (sigs, (cd_version d, dest, cd_contract d, offa, cd_digest d, lanes), cd_signers d)
         | _, _ => false
         end
     | _, _, _ => false
     end
   else true) &&
  (* a bundle in any other round is refused *)
  (if enabled && negb building && is_some (q_sigs q) then N.eqb code 1 else true) &&
  (* a refused signature check is an error *)
  (if is_some call && negb ans then N.eqb code 1 else true).
Definition obs_judge := judge obs_model obs_oeqb obs_ok (fun _ => 0%N).

(* ---- part build: Processor.Outcome in the building state ----
   input (max, n, previous outcome, query, consensus observation from the real getConsensusObservation); output outcome *)
Definition build_in := (N * N * outcome * query * option cons)%type.
Definition build_model (i : build_in) : outcome := let '(max, n, prev, q, co) := i in get_outcome max n prev q co.

Definition build_ok (i : build_in) (o : outcome) : bool :=
  let '(max, n, prev, q, co) := i in
  (* signatures only together with roots (previous outcomes in this part satisfy it too) *)
  (match o_roots o with [] => match o_sigs o with [] => true | _ => false end | _ => true end) &&
  match next_state (o_type prev), q_retry q, co, q_sigs q with
  | Building, false, Some c, Some b =>
      match parse_sigs (b_sigs b), parse_lanes (b_lanes b) with
      | Some sigs, Some lanes =>
          (* every reported root is agreed and signed on all four components; nothing agreed and signed is dropped *)
          forallb (fun r => existsb (root_eqb r) (c_roots c) && existsb (root_eqb r) lanes) (o_roots o) &&
          forallb (fun r => if existsb (root_eqb r) lanes then existsb (root_eqb r) (o_roots o) else true) (c_roots c) &&
          match o_roots o with
          | [] => Z.eqb (o_type o) T_empty
          | _ => Z.eqb (o_type o) T_generated && list_eqb N.eqb (o_sigs o) sigs
          end
      | _, _ => outcome_eqb o empty_outcome
      end
  | _, _, _, _ => true
  end.
Definition build_judge := judge build_model outcome_eqb build_ok (fun _ => 0%N).

(* ---- part report: commit.Plugin.Reports followed by ShouldAcceptAttestedReport on what was emitted ----
   input: merkle outcome type, number of roots, number of RMN signatures, F of the outcome's RMN config, number of
          gas price updates, RMNEnabled;
   output: None (nothing emitted) or Some (roots, signatures in the report, RemoteF in the info, accept code 0/1/2) *)
Definition rep5_in := (Z * N * N * N * N * bool)%type.
Definition rep5_out := option (N * N * N * N)%type.
Fixpoint dummy_roots (n : nat) : list root :=
  match n with O => [] | S k => (N.of_nat n, (1, 2), 1, 1)%N :: dummy_roots k end.
Fixpoint dummy_sigs (n : nat) : list N :=
  match n with O => [] | S k => N.of_nat n :: dummy_sigs k end.
Definition acc_code (r : res bool) : N := match r with Ok false => 0 | Ok true => 1 | _ => 2 end%N.
Definition rep5_model (i : rep5_in) : rep5_out :=
  let '(ty, nr, ns, f, gp, rmn) := i in
  let o := mkOutcome ty [] (dummy_roots (N.to_nat nr)) [] 0 (dummy_sigs (N.to_nat ns)) (1%N, f) in
  match report_of o 0 gp with
  | None => None
  | Some (roots, sigs, rf) =>
      let r := N.of_nat (length roots) in let s := N.of_nat (length sigs) in
      Some (r, s, rf, acc_code (commit_should_accept true r 0 gp s 0 true rmn rf))
  end.
Definition rep5_oeqb : rep5_out -> rep5_out -> bool :=
  option_eqb (fun a b => let '(r, s, f, c) := a in let '(r', s', f', c') := b in
                         N.eqb r r' && N.eqb s s' && N.eqb f f' && N.eqb c c').
Definition rep5_ok (i : rep5_in) (o : rep5_out) : bool :=
  let '(ty, nr, ns, f, gp, rmn) := i in
  match o with
  | None => N.eqb nr 0 && N.eqb ns 0 && N.eqb gp 0
  | Some (r, s, rf, c) =>
      N.eqb r nr && N.eqb s ns &&
      (* accepted with roots and RMN enabled only with F+1 signatures, F being the one of the outcome's config *)
      (if N.eqb c 1 && rmn && negb (N.eqb r 0) then N.leb (rf + 1) s else true) &&
      (if Z.eqb ty T_generated then N.eqb rf f else N.eqb rf 0) &&
      negb (N.eqb c 2)
  end.
Definition rep5_judge := judge rep5_model rep5_oeqb rep5_ok (fun _ => 0%N).

(* ---- part gate: ShouldAcceptAttestedReport on a hand-made report and info (any RemoteF) ----
   input (roots, signatures, RemoteF, RMNEnabled, gas prices); output accept code *)
Definition gate5_in := (N * N * N * bool * N)%type.
Definition gate5_model (i : gate5_in) : N :=
  let '(r, s, f, rmn, gp) := i in acc_code (commit_should_accept true r 0 gp s 0 true rmn f).
Definition gate5_ok (i : gate5_in) (c : N) : bool :=
  let '(r, s, f, rmn, gp) := i in
  (if N.eqb c 1 && rmn && negb (N.eqb r 0) then N.leb (f + 1) s else true) &&
  (if N.eqb c 1 then negb (commit_report_empty r 0 gp s) else true) && negb (N.eqb c 2).
Definition gate5_judge := judge gate5_model N.eqb gate5_ok (fun _ => 0%N).

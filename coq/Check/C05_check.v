(* C05_check.v — case types, model runners and executable property checks for the C05 correspondence. *)
Require Export Verif.Model.Base Verif.Model.SeqRange Verif.Model.CommitMerkle Verif.Model.CommitSM
               Verif.Model.Transmit Verif.Model.CommitRmnGate.
Require Import Verif.Check.C03_check.

(* ---- part obs: merkleroot.Processor.Observation with a recording RMNCrypto ----
   input: RMNEnabled, previous outcome type, previous RMNRemoteCfg empty?, its details, destination selector,
          controller init code, ChainBySelector ok, off-ramp address (None = error), query, scripted crypto answer;
   output: (0 observation returned / 1 error / 2 panic, the recorded VerifyReportSignatures call if any) *)
Definition obs_in := (bool * Z * bool * cfg_detail * N * N * bool * option N * query * bool * world)%type.
(* code, recorded verify call, and the observation value returned (also next to an error: commit.Plugin.Observation
   logs the error and encodes what was returned) *)
Definition obs_out := (N * option verify_call * obs)%type.

Definition obs_model (i : obs_in) : obs_out :=
  let '(enabled, ty, cfg_e, d, dest, init, known, off, q, ans, w) := i in
  let st := next_state ty in
  match verify_args enabled st cfg_e d dest init known off q with
  | Ok None => (0%N, None, get_observation st q w)
  | Ok (Some c) => if ans then (0%N, Some c, get_observation st q w) else (1%N, Some c, obs_empty)
  | Err => (1%N, None, obs_empty)
  | _ => (2%N, None, obs_empty)
  end.
Definition report_eqb (a b : rmn_report) : bool :=
  let '(v, ds, ca, off, dg, ls) := a in let '(v', ds', ca', off', dg', ls') := b in
  N.eqb v v' && N.eqb ds ds' && N.eqb ca ca' && N.eqb off off' && N.eqb dg dg' && list_eqb root_eqb ls ls'.
Definition call_eqb (a b : verify_call) : bool :=
  let '(s, r, g) := a in let '(s', r', g') := b in
  list_eqb N.eqb s s' && report_eqb r r' && list_eqb N.eqb g g'.
Definition obs_eqb (a b : obs) : bool :=
  list_eqb root_eqb (ob_roots a) (ob_roots b) && list_eqb sc_eqb (ob_on a) (ob_on b) &&
  list_eqb sc_eqb (ob_off a) (ob_off b) && cfg_eqb (ob_cfg a) (ob_cfg b) && Bool.eqb (ob_f a) (ob_f b).
Definition obs_oeqb (a b : obs_out) : bool :=
  let '(c, cl, o) := a in let '(c', cl', o') := b in N.eqb c c' && option_eqb call_eqb cl cl' && obs_eqb o o'.

(* the observation clauses of C05 on the implementation's answer *)
Definition obs_ok (i : obs_in) (o : obs_out) : bool :=
  let '(enabled, ty, cfg_e, d, dest, init, known, off, q, ans, w) := i in
  let '(code, call, ob) := o in
  let building := state_eqb (next_state ty) Building in
  negb (N.eqb code 2) &&
  (* what is returned next to a refusal is empty; an announced retry observes nothing; roots only when building *)
  (if N.eqb code 1 then obs_is_empty ob else true) &&
  (if building && q_retry q then obs_is_empty ob else true) &&
  (if building then true else match ob_roots ob with [] => true | _ => false end) &&
  (* RMN on: roots are observed only after the bundle's signatures were verified *)
  (if enabled && negb (match ob_roots ob with [] => true | _ => false end)
   then match call with Some _ => ans | None => false end else true) &&
  (* an observation in a building round without announced retry needs a verified bundle *)
  (if enabled && building && negb (q_retry q) && N.eqb code 0 then
     match q_sigs q, off, call with
     | Some b, Some offa, Some c =>
         negb cfg_e && ans &&
         match parse_sigs (b_sigs b), parse_lanes (b_lanes b) with
         | Some sigs, Some lanes =>
             call_eqb c (sigs, (cd_version d, dest, cd_contract d, offa, cd_digest d, lanes), cd_signers d)
         | _, _ => false
         end
     | _, _, _ => false
     end
   else true) &&
  (* a bundle in any other round is refused *)
  (if enabled && negb building && is_some (q_sigs q) then N.eqb code 1 else true) &&
  (* a refused signature check is an error *)
  (if is_some call && negb ans then N.eqb code 1 else true).
Definition obs_judge := judge obs_model obs_oeqb obs_ok (fun _ => 0%N).

(* ---- part build: Processor.Outcome in the building state ----
   input (max, n, previous outcome, query, consensus observation from the real getConsensusObservation); output outcome *)
Definition build_in := (N * N * outcome * query * option cons)%type.
Definition build_model (i : build_in) : outcome := let '(max, n, prev, q, co) := i in get_outcome max n prev q co.

(* strictly ascending (hence no element twice) *)
Fixpoint strict_ascb (l : list N) : bool :=
  match l with x :: ((y :: _) as r) => N.ltb x y && strict_ascb r | _ => true end.
(* C05_reported_roots_sorted on the implementation's outcome: in a building round without retry, when the agreed roots
   have one root per chain, the reported roots are strictly ascending by chain selector (sorted, one per chain) -
   with or without a bundle *)
Definition build_order_ok (prev : outcome) (q : query) (co : option cons) (o : outcome) : bool :=
  match next_state (o_type prev), q_retry q, co with
  | Building, false, Some c =>
      if nodupb N.eqb (map root_chain (c_roots c)) then strict_ascb (map root_chain (o_roots o)) else true
  | _, _, _ => true
  end.
Definition build_ok (i : build_in) (o : outcome) : bool :=
  let '(max, n, prev, q, co) := i in
  (* signatures only together with roots (previous outcomes in this part satisfy it too) *)
  (match o_roots o with [] => match o_sigs o with [] => true | _ => false end | _ => true end) &&
  build_order_ok prev q co o &&
  match next_state (o_type prev), q_retry q, co, q_sigs q with
  | Building, false, Some c, Some b =>
      match parse_sigs (b_sigs b), parse_lanes (b_lanes b) with
      | Some sigs, Some lanes =>
          (* every reported root is agreed and signed on all four components; nothing agreed and signed is dropped *)
          forallb (fun r => existsb (root_eqb r) (c_roots c) && existsb (root_eqb r) lanes) (o_roots o) &&
          forallb (fun r => if existsb (root_eqb r) lanes then existsb (root_eqb r) (o_roots o) else true) (c_roots c) &&
          match o_roots o with
          | [] => Z.eqb (o_type o) T_empty
          | _ => Z.eqb (o_type o) T_generated && list_eqb N.eqb (o_sigs o) sigs
          end
      | _, _ => outcome_eqb o empty_outcome
      end
  | _, _, _, _ => true
  end.
Definition build_judge := judge build_model outcome_eqb build_ok (fun _ => 0%N).

(* ---- part report: commit.Plugin.Reports followed by ShouldAcceptAttestedReport on what was emitted ----
   input: merkle outcome type, number of roots, number of RMN signatures, F of the outcome's RMN config, number of
          gas price updates, RMNEnabled;
   output: None (nothing emitted) or Some (roots, signatures in the report, RemoteF in the info, accept code 0/1/2) *)
Definition rep5_in := (Z * N * N * N * N * bool)%type.
Definition rep5_out := option (N * N * N * N)%type.
Fixpoint dummy_roots (n : nat) : list root :=
  match n with O => [] | S k => (N.of_nat n, (1, 2), 1, 1)%N :: dummy_roots k end.
Fixpoint dummy_sigs (n : nat) : list N :=
  match n with O => [] | S k => N.of_nat n :: dummy_sigs k end.
Definition acc_code (r : res bool) : N := match r with Ok false => 0 | Ok true => 1 | _ => 2 end%N.
Definition rep5_model (i : rep5_in) : rep5_out :=
  let '(ty, nr, ns, f, gp, rmn) := i in
  let o := mkOutcome ty [] (dummy_roots (N.to_nat nr)) [] 0 (dummy_sigs (N.to_nat ns)) (1%N, f) in
  match report_of o 0 gp with
  | None => None
  | Some (roots, sigs, rf) =>
      let r := N.of_nat (length roots) in let s := N.of_nat (length sigs) in
      Some (r, s, rf, acc_code (commit_should_accept true r 0 gp s 0 true rmn rf))
  end.
Definition rep5_oeqb : rep5_out -> rep5_out -> bool :=
  option_eqb (fun a b => let '(r, s, f, c) := a in let '(r', s', f', c') := b in
                         N.eqb r r' && N.eqb s s' && N.eqb f f' && N.eqb c c').
Definition rep5_ok (i : rep5_in) (o : rep5_out) : bool :=
  let '(ty, nr, ns, f, gp, rmn) := i in
  match o with
  | None => N.eqb nr 0 && N.eqb ns 0 && N.eqb gp 0
  | Some (r, s, rf, c) =>
      N.eqb r nr && N.eqb s ns &&
      (* accepted with roots and RMN enabled only with F+1 signatures, F being the one of the outcome's config *)
      (if N.eqb c 1 && rmn && negb (N.eqb r 0) then N.leb (rf + 1) s else true) &&
      (if Z.eqb ty T_generated then N.eqb rf f else N.eqb rf 0) &&
      negb (N.eqb c 2)
  end.
Definition rep5_judge := judge rep5_model rep5_oeqb rep5_ok (fun _ => 0%N).

(* ---- part gate: ShouldAcceptAttestedReport on a hand-made report and info (any RemoteF) ----
   input (roots, signatures, RemoteF, RMNEnabled, gas prices); output accept code *)
Definition gate5_in := (N * N * N * bool * N)%type.
Definition gate5_model (i : gate5_in) : N :=
  let '(r, s, f, rmn, gp) := i in acc_code (commit_should_accept true r 0 gp s 0 true rmn f).
Definition gate5_ok (i : gate5_in) (c : N) : bool :=
  let '(r, s, f, rmn, gp) := i in
  (if N.eqb c 1 && rmn && negb (N.eqb r 0) then N.leb (f + 1) s else true) &&
  (if N.eqb c 1 then negb (commit_report_empty r 0 gp s) else true) && negb (N.eqb c 2).
Definition gate5_judge := judge gate5_model N.eqb gate5_ok (fun _ => 0%N).

(* ---- part chain: one round of the processor chain with RMN on or off ----
   Processor.Query (honest leader, scripted controller) or a Byzantine leader's query -> Processor.Observation of
   all four oracles (real observerImpl over a scripted, honest reader; recording crypto) -> ValidateObservation ->
   Processor.Outcome on the valid observations.
   input: RMNEnabled, max checks, tree size, previous outcome, details of its RMN config, destination, off-ramp
          address (None = error), on-ramp address per chain (absent = error), leader, crypto answer,
          reader side of ObserveMerkleRoots (supported chains, answer per chain for the previous outcome's range,
          zero hash id, hash table; as in C02), on-ramp latest, off-ramp next, RMN remote config, fChain present,
          consensus observation computed by the real getConsensusObservation on the valid observations.
   output: leader (code, query, request to the controller), then if a query exists: observation (code, recorded
           verify call, returned observation, all four oracles alike), validity per oracle, outcome if called *)
Require Import Verif.Check.C02_check.
Inductive leader := LHonest (ctrl : ctrl_ans) | LByz (q : query).
Definition roots_side := (option (list N) * list (N * option (list msg)) * N * list ((N * N) * N))%type.
Definition chain_in :=
  (bool * N * N * outcome * cfg_detail * N * option N * list (N * N) * leader * bool * roots_side *
   list seq_chain * list seq_chain * rmn_cfg * bool * option cons)%type.
Definition lead_out := (N * option query * option (list lane_req))%type.
Definition obs4_out := (N * option verify_call * obs * bool)%type.
Definition chain_out := (lead_out * option (obs4_out * list bool * option outcome))%type.

Definition world_of (prev : outcome) (rs : roots_side) (onr : list (N * N)) (won woff : list seq_chain) (wcfg : rmn_cfg) (wf : bool) : world :=
  let '(sup, ans, zero, tbl) := rs in
  mkWorld (sort_by root_le (observe_roots (tbl_h tbl) zero sup (o_ranges prev) (reader_of ans) (fun k => alookup k onr)))
          won woff wcfg wf.

Definition chain_model (i : chain_in) : chain_out :=
  let '(enabled, max, n, prev, d, dest, offr, onr, lead, ans, rs, won, woff, wcfg, wf, co) := i in
  let st := next_state (o_type prev) in
  let cfg_e := cfg_is_empty (o_cfg prev) in
  let '(qr, reqs) := match lead with
                     | LHonest ctrl => query_model enabled st cfg_e 1 offr (o_ranges prev) (fun k => alookup k onr) ctrl
                     | LByz q => (Ok q, None)
                     end in
  match qr with
  | Ok q =>
      let w := world_of prev rs onr won woff wcfg wf in
      let '(r, o) := observation_full (fun _ => ans) enabled st cfg_e d dest 1 true offr q w in
      let call := match verify_args enabled st cfg_e d dest 1 true offr q with Ok c => c | _ => None end in
      let v := validate_retry q o in
      ((0%N, Some q, reqs),
       Some ((res_code r, call, o, true), [v; v; v; v],
             if v then Some (get_outcome max n prev q co) else None))
  | _ => ((1%N, None, reqs), None)
  end.

Definition query_eqb (a b : query) : bool :=
  Bool.eqb (q_retry a) (q_retry b) &&
  option_eqb (fun x y =>
    list_eqb (fun s t => match s, t with SigNil, SigNil | SigBad, SigBad => true | SigOk u, SigOk v => N.eqb u v | _, _ => false end)
             (b_sigs x) (b_sigs y) &&
    list_eqb (fun s t => match s, t with
                         | LaneNil, LaneNil | LaneNoSource, LaneNoSource | LaneNoInterval, LaneNoInterval | LaneBadRoot, LaneBadRoot => true
                         | LaneOk a1 a2 a3 a4 a5, LaneOk b1 b2 b3 b4 b5 => N.eqb a1 b1 && N.eqb a2 b2 && N.eqb a3 b3 && N.eqb a4 b4 && N.eqb a5 b5
                         | _, _ => false end) (b_lanes x) (b_lanes y)) (q_sigs a) (q_sigs b).
Definition req_eqb (a b : lane_req) : bool :=
  let '(k, ad, s, e) := a in let '(k', ad', s', e') := b in N.eqb k k' && N.eqb ad ad' && N.eqb s s' && N.eqb e e'.
Definition lead_eqb (a b : lead_out) : bool :=
  let '(c, q, r) := a in let '(c', q', r') := b in
  N.eqb c c' && option_eqb query_eqb q q' && option_eqb (list_eqb req_eqb) r r'.
Definition obs4_eqb (a b : obs4_out) : bool :=
  let '(c, cl, o, al) := a in let '(c', cl', o', al') := b in
  N.eqb c c' && option_eqb call_eqb cl cl' && obs_eqb o o' && Bool.eqb al al'.
Definition chain_oeqb (a b : chain_out) : bool :=
  lead_eqb (fst a) (fst b) &&
  option_eqb (fun x y => let '(o, v, oc) := x in let '(o', v', oc') := y in
                         obs4_eqb o o' && list_eqb Bool.eqb v v' && option_eqb outcome_eqb oc oc') (snd a) (snd b).

(* the C05 clauses on the implementation's round *)
Definition chain_ok (i : chain_in) (o : chain_out) : bool :=
  let '(enabled, max, n, prev, d, dest, offr, onr, lead, ans, rs, won, woff, wcfg, wf, co) := i in
  let '((lc, lq, lreq), rest) := o in
  let building := state_eqb (next_state (o_type prev)) Building in
  negb (N.eqb lc 2) &&
  (* honest leader: the controller is asked for exactly the previous outcome's ranges with the bound addresses; a
     bundle comes only from the controller; a timeout gives the retry query without bundle *)
  (match lead, lq with
   | LHonest ctrl, Some q =>
       match lreq with
       | Some reqs => enabled && building &&
                      option_eqb (list_eqb req_eqb) (query_requests (o_ranges prev) (fun k => alookup k onr)) (Some reqs) &&
                      match ctrl with
                      | CtrlSigs b => query_eqb q (mkQuery false (Some b))
                      | CtrlTimeout => query_eqb q (mkQuery true None)
                      | CtrlErr => false
                      end
       | None => query_eqb q (mkQuery false None)
       end
   | _, _ => true
   end) &&
  match lq, rest with
  | Some q, Some ((oc, call, ob, alike), valid, out) =>
      negb (N.eqb oc 2) && alike &&
      (* the value returned next to a refusal is empty *)
      (if N.eqb oc 1 then obs_is_empty ob else true) &&
      (* an announced retry in a building round: nothing observed *)
      (if building && q_retry q then obs_is_empty ob else true) &&
      (* merkle roots are observed only in a building round *)
      (if building then true else match ob_roots ob with [] => true | _ => false end) &&
      (* RMN on: an observation carrying roots was made only after the bundle's signatures were verified *)
      (if enabled && negb (match ob_roots ob with [] => true | _ => false end)
       then match call with Some _ => ans | None => false end else true) &&
      (* FIXED (judge soundness, Proofs/JudgeSoundC05P.v chain_ok_before_unsound): whatever the oracle verified is the
         bundle of THIS query against the signer set and the report fields (version, destination, RMN remote address,
         off-ramp, digest) of this round's previous outcome. Before, only the lane updates and the signatures of the
         recorded call were compared (in the outcome clause below), so a round whose bundle was verified against
         another signer set / digest / off-ramp / destination passed the property, although
         C05_reported_roots_verified demands exactly this call. *)
      (match call with
       | Some cl =>
           match q_sigs q, offr with
           | Some b, Some offa =>
               match parse_sigs (b_sigs b), parse_lanes (b_lanes b) with
               | Some sigs, Some lanes =>
                   call_eqb cl (sigs, (cd_version d, dest, cd_contract d, offa, cd_digest d, lanes), cd_signers d)
               | _, _ => false
               end
           | _, _ => false
           end
       | None => true
       end) &&
      match out with
      | None => true
      | Some oo =>
          (* RMN on, building round: a NEW outcome carrying roots needs a bundle that the oracle verified: the crypto
             oracle was called with exactly the bundle's lane updates and signatures and answered yes; the roots are
             among those lane updates and the signatures are the verified ones *)
          (if enabled && building && negb (outcome_eqb oo prev) && negb (match o_roots oo with [] => true | _ => false end)
           then match call, q_sigs q with
                | Some (sigs, (_, _, _, _, _, lanes), _), Some b =>
                    ans &&
                    option_eqb (list_eqb root_eqb) (parse_lanes (b_lanes b)) (Some lanes) &&
                    option_eqb (list_eqb N.eqb) (parse_sigs (b_sigs b)) (Some sigs) &&
                    forallb (fun r => existsb (root_eqb r) lanes) (o_roots oo) &&
                    list_eqb N.eqb (o_sigs oo) sigs
                | _, _ => false
                end
           else true) &&
          (if building && q_retry q then outcome_eqb oo prev else true) &&
          (match o_roots oo with [] => match o_sigs oo with [] => true | _ => false end | _ => true end)
      end
  | Some _, None => false
  | None, _ => true
  end.
Definition chain_judge := judge chain_model chain_oeqb chain_ok (fun _ => 0%N).

(* ---- part life: ONE long-lived set of processors (one per oracle, as commit.Plugin keeps them) over several report
   cycles; between the rounds the environment moves: RMNRemote signer set / F / version / digest / addresses on chain,
   the RMNHome node set, the off-ramp address, the leader's bundle (signed by current, removed, future, foreign or
   mixed keys, over the report of the agreed, an earlier or the on-chain config). One judged case per round.
   The model is memoryless in all of those: it is evaluated on the round's CURRENT inputs; the only state carried is
   the digest each oracle's RMN controller is connected with (read from the controller fake = environment).
   input: as chain, with the scripted crypto answer replaced by the signature table of the round (toy_verify), and
          (leader index, connected digest per oracle before the round, init failure code, RMNHome node set now).
   output: leader (code, query, controller request and the RMN config handed over, InitConnection call); then if a
           query exists: per oracle (code, recorded verify call, returned observation, InitConnection call),
           validity per oracle, outcome if called; connected digest per oracle after the round *)
Require Import Verif.Model.C05Life.
Definition life_x := (N * list N * N * N * sig_table)%type.
Definition life_in :=
  (bool * N * N * outcome * cfg_detail * N * option N * list (N * N) * leader * roots_side *
   list seq_chain * list seq_chain * rmn_cfg * bool * option cons * life_x)%type.
Definition llead_out := (N * option query * option (list lane_req * rmn_cfg) * option init_call)%type.
Definition obs1_out := (N * option verify_call * obs * option init_call)%type.
Definition life_out := (llead_out * option (list obs1_out * list bool * option outcome) * list N)%type.

Fixpoint set_nth {A} (k : nat) (x : A) (l : list A) : list A :=
  match l, k with
  | [], _ => []
  | _ :: t, O => x :: t
  | h :: t, S k' => h :: set_nth k' x t
  end.
Definition count_true (l : list bool) : N := N.of_nat (length (filter (fun b => b) l)).

Definition life_model (i : life_in) : life_out :=
  let '(enabled, max, n, prev, d, dest, offr, onr, lead, rs, won, woff, wcfg, wf, co, (lidx, conn, ifail, nodes, tab)) := i in
  let e := mkREnv offr ifail nodes (world_of prev rs onr won woff wcfg wf) in
  let detail_of := fun _ : rmn_cfg => d in
  let cl := nth (N.to_nat lidx) conn 0%N in
  let '(qr, reqs, linit, cl') :=
      match lead with
      | LHonest ctrl => leader_query detail_of enabled prev cl e (fun k => alookup k onr) ctrl
      | LByz q => (Ok q, None, None, cl)
      end in
  let conn1 := set_nth (N.to_nat lidx) cl' conn in
  let reqs' := option_map (fun r => (r, o_cfg prev)) reqs in
  match qr with
  | Ok q =>
      let per := map (fun c => oracle_obs (toy_verify tab) detail_of enabled dest prev c e q) conn1 in
      let outs := map (fun x => let '((r, o), call, ic, _) := x in (res_code r, call, o, ic)) per in
      let vs := map (fun x => let '((_, o), _, _, _) := x in validate_retry q o) per in
      let conn2 := map (fun x => let '(_, _, _, c') := x in c') per in
      ((0%N, Some q, reqs', linit),
       Some (outs, vs, if N.leb 3 (count_true vs) then Some (get_outcome max n prev q co) else None), conn2)
  | _ => ((1%N, None, reqs', linit), None, conn1)
  end.

Definition icall_eqb : init_call -> init_call -> bool := pair_eqb N.eqb N.eqb.
Definition llead_eqb (a b : llead_out) : bool :=
  let '(c, q, r, ic) := a in let '(c', q', r', ic') := b in
  N.eqb c c' && option_eqb query_eqb q q' && option_eqb (pair_eqb (list_eqb req_eqb) cfg_eqb) r r' &&
  option_eqb icall_eqb ic ic'.
Definition obs1_eqb (a b : obs1_out) : bool :=
  let '(c, cl, o, ic) := a in let '(c', cl', o', ic') := b in
  N.eqb c c' && option_eqb call_eqb cl cl' && obs_eqb o o' && option_eqb icall_eqb ic ic'.
Definition life_oeqb (a b : life_out) : bool :=
  let '(l, r, c) := a in let '(l', r', c') := b in
  llead_eqb l l' &&
  option_eqb (fun x y => let '(o, v, oc) := x in let '(o', v', oc') := y in
                         list_eqb obs1_eqb o o' && list_eqb Bool.eqb v v' && option_eqb outcome_eqb oc oc') r r' &&
  list_eqb N.eqb c c'.

Definition roots_nil (l : list root) : bool := match l with [] => true | _ => false end.

(* the C05 clauses on the implementation's round; everything is stated against THIS round's previous outcome *)
Definition life_ok (i : life_in) (o : life_out) : bool :=
  let '(enabled, max, n, prev, d, dest, offr, onr, lead, rs, won, woff, wcfg, wf, co, (lidx, conn, ifail, nodes, tab)) := i in
  let '((lc, lq, lreq, linit), rest, conn2) := o in
  let st := next_state (o_type prev) in
  let building := state_eqb st Building in
  let cfg_e := cfg_is_empty (o_cfg prev) in
  (* InitConnection only with the digest of this round's previous outcome and the node set RMNHome shows now *)
  let icall_ok (ic : option init_call) :=
      match ic with
      | Some (dg, nd) => enabled && negb cfg_e && N.eqb dg (cd_digest d) && N.eqb nd nodes
      | None => true
      end in
  negb (N.eqb lc 2) && icall_ok linit &&
  (* the controller connection moves only to this round's digest *)
  list_eqb (fun c c' => N.eqb c' c || (enabled && negb cfg_e && N.eqb c' (cd_digest d))) conn conn2 &&
  (* honest leader: the controller is asked for exactly the previous outcome's ranges and handed exactly the
     previous outcome's RMN config; a bundle comes only from the controller; a timeout gives the retry query *)
  (match lead, lq with
   | LHonest ctrl, Some q =>
       match lreq with
       | Some (reqs, ccfg) => enabled && building && cfg_eqb ccfg (o_cfg prev) &&
                      option_eqb (list_eqb req_eqb) (query_requests (o_ranges prev) (fun k => alookup k onr)) (Some reqs) &&
                      match ctrl with
                      | CtrlSigs b => query_eqb q (mkQuery false (Some b))
                      | CtrlTimeout => query_eqb q (mkQuery true None)
                      | CtrlErr => false
                      end
       | None => query_eqb q (mkQuery false None)
       end
   | _, _ => true
   end) &&
  match lq, rest with
  | Some q, Some (outs, valid, out) =>
      (* what verifyQuery has to hand to the crypto oracle in this round, and whether the bundle is valid for it *)
      let exp_call := match q_sigs q, offr with Some b, Some offa => expected_call d dest offa b | _, _ => None end in
      let exp_valid := match exp_call with Some c => toy_verify tab c | None => false end in
      N.eqb (N.of_nat (length outs)) 4 &&
      forallb (fun x : obs1_out =>
        let '(oc, call, ob, ic) := x in
        negb (N.eqb oc 2) && icall_ok ic &&
        (if N.eqb oc 1 then obs_is_empty ob else true) &&
        (if building && q_retry q then obs_is_empty ob else true) &&
        (if building then true else roots_nil (ob_roots ob)) &&
        (* whatever is verified is verified against the signer set and report of THIS round's previous outcome *)
        (match call with Some c => option_eqb call_eqb exp_call (Some c) | None => true end) &&
        (* RMN on: roots are observed only under a bundle that the oracle verified and that is valid for the agreed config *)
        (if enabled && negb (roots_nil (ob_roots ob)) then is_some call && exp_valid else true) &&
        (if enabled && building && negb (q_retry q) && N.eqb oc 0 then is_some call && exp_valid && negb cfg_e else true) &&
        (* a bundle in any other round is refused; a refused signature check is an error *)
        (if enabled && negb building && is_some (q_sigs q) then N.eqb oc 1 else true) &&
        (match call with Some c => if toy_verify tab c then true else N.eqb oc 1 | None => true end) &&
        (* selecting round: the RMN remote config observed is the one on chain now *)
        (if state_eqb st Selecting && N.eqb oc 0 then cfg_eqb (ob_cfg ob) wcfg else true)) outs &&
      match out with
      | None => true
      | Some oo =>
          let fresh_roots := building && negb (outcome_eqb oo prev) && negb (roots_nil (o_roots oo)) in
          (if enabled && fresh_roots
           then exp_valid &&
                match exp_call with
                | Some (sigs, (_, _, _, _, _, lanes), _) =>
                    forallb (fun r => existsb (root_eqb r) lanes) (o_roots oo) && list_eqb N.eqb (o_sigs oo) sigs
                | None => false
                end &&
                N.leb 3 (N.of_nat (length (filter (fun x : obs1_out => let '(oc, call, _, _) := x in N.eqb oc 0 && is_some call) outs)))
           else true) &&
          (* the RMN config (F_rmn of the report) of a report is the one of the previous outcome *)
          (if fresh_roots then cfg_eqb (o_cfg oo) (o_cfg prev) else true) &&
          (if building && q_retry q then outcome_eqb oo prev else true) &&
          (match o_roots oo with [] => match o_sigs oo with [] => true | _ => false end | _ => true end)
      end
  | Some _, None => false
  | None, _ => true
  end.
Definition life_judge := judge life_model life_oeqb life_ok (fun _ => 0%N).
